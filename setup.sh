#!/bin/sh
# Offline build of the whole framework from files on disk: translator, Coq development (full .vo),
# extracted model + OCaml driver, Go harness. Idempotent.
set -e
cd "$(dirname "$0")"
export GOFLAGS=-mod=mod GOPROXY=off GOSUMDB=off GOTOOLCHAIN=local CGO_ENABLED=0
mkdir -p build/ocaml coq/Gen evidence replays
(cd go/gen && go build -o ../../build/gen .)
./build/gen "${VERIF_REPO:-/repo}" coq/Gen
(cd coq && coq_makefile -f _CoqProject -o Makefile && timeout 7200 make -j16 >../build/coq-build.log 2>&1) || { tail -30 build/coq-build.log; exit 1; }
(cd build/ocaml && coqc -R ../../coq Astits ../../coq/Extract/Extract.v >/dev/null && cp ../../ocaml/driver.ml . && ocamlfind ocamlopt -O3 -w -a model.mli model.ml driver.ml -o driver)
cp "${VERIF_REPO:-/repo}/go.sum" go/harness/go.sum
(cd go/harness && go build -tags verif -o ../../build/harness .)
echo setup ok
