#!/bin/sh
# Offline build of the whole framework from files on disk: translator, Coq development (full .vo),
# Go harness. The per-property extracted drivers are built by ./check on first use. Idempotent.
set -e
cd "$(dirname "$0")"
export GOFLAGS=-mod=mod GOPROXY=off GOSUMDB=off GOTOOLCHAIN=local CGO_ENABLED=0
mkdir -p build/ocaml coq/Gen evidence replays
(cd go/gen && go build -o ../../build/gen .)
./build/gen "${VERIF_REPO:-/repo}" coq/Gen
python3 tools/mkcoqproject.py
(cd coq && coq_makefile -f _CoqProject -o Makefile && timeout 7200 make -j16 >../build/coq-build.log 2>&1) || { tail -30 build/coq-build.log; exit 1; }
cp "${VERIF_REPO:-/repo}/go.sum" go/harness/go.sum
(cd go/harness && go build -tags verif -o ../../build/harness .)
echo setup ok
