(* Line-oriented driver around the extracted model (model.ml).
   stdin : one case per line, "<prop number> <s-expression>"
   stdout: one observation per line, an s-expression.
   s-expression grammar: integer (decimal, optional '-') | x<hex> (byte string) | ( items ) *)
open Model

(* ---- Coq Z <-> decimal strings, without going through OCaml ints ---- *)
let rec pos_of_int n = if n = 1 then XH else if n land 1 = 0 then XO (pos_of_int (n lsr 1)) else XI (pos_of_int (n lsr 1))
let z_of_int n = if n = 0 then Z0 else if n > 0 then Zpos (pos_of_int n) else Zneg (pos_of_int (-n))

(* divide a decimal digit array (most significant first) by 2, return remainder *)
let halve (d : int array) : int =
  let r = ref 0 in
  Array.iteri (fun i x -> let v = !r * 10 + x in d.(i) <- v / 2; r := v mod 2) d; !r
let is_zero d = Array.for_all (fun x -> x = 0) d
let rec pos_of_digits d =
  let r = halve d in
  if is_zero d then XH else if r = 0 then XO (pos_of_digits d) else XI (pos_of_digits d)
let z_of_string (s : string) : z =
  let neg = String.length s > 0 && s.[0] = '-' in
  let s' = if neg then String.sub s 1 (String.length s - 1) else s in
  if String.length s' < 18 then z_of_int (int_of_string s) else begin
    let d = Array.init (String.length s') (fun i -> Char.code s'.[i] - 48) in
    if is_zero d then Z0 else if neg then Zneg (pos_of_digits d) else Zpos (pos_of_digits d) end

let rec int_of_pos_opt p depth = if depth > 61 then None else match p with
  | XH -> Some 1
  | XO q -> (match int_of_pos_opt q (depth+1) with Some v -> Some (2*v) | None -> None)
  | XI q -> (match int_of_pos_opt q (depth+1) with Some v -> Some (2*v+1) | None -> None)
(* decimal digits (least significant first) of a positive, by repeated doubling *)
let digits_of_pos p =
  let bits = let rec go p acc = match p with XH -> 1 :: acc | XO q -> go q (0 :: acc) | XI q -> go q (1 :: acc) in go p [] in
  let d = ref [0] in
  List.iter (fun b ->
    let carry = ref b in
    d := List.map (fun x -> let v = 2*x + !carry in carry := v / 10; v mod 10) !d;
    if !carry > 0 then d := !d @ [!carry]) bits;
  !d
let string_of_pos p = match int_of_pos_opt p 0 with
  | Some v -> string_of_int v
  | None -> String.concat "" (List.rev_map string_of_int (digits_of_pos p))
let string_of_z = function Z0 -> "0" | Zpos p -> string_of_pos p | Zneg p -> "-" ^ string_of_pos p
let int_of_z = function Z0 -> 0 | Zpos p -> (match int_of_pos_opt p 0 with Some v -> v | None -> failwith "big") | Zneg p -> (match int_of_pos_opt p 0 with Some v -> -v | None -> failwith "big")

(* small Z cache for bytes *)
let zbyte = Array.init 256 z_of_int

(* ---- s-expressions ---- *)
let hexval c = match c with '0'..'9' -> Char.code c - 48 | 'a'..'f' -> Char.code c - 87 | 'A'..'F' -> Char.code c - 55 | _ -> failwith "hex"
let parse (s : string) (start : int) : tok * int =
  let n = String.length s in
  let rec skip i = if i < n && (s.[i] = ' ' || s.[i] = '\t') then skip (i+1) else i in
  let rec item i =
    let i = skip i in
    if i >= n then failwith "eof" else
    match s.[i] with
    | '(' -> let rec items i acc = let i = skip i in
               if i >= n then failwith "unclosed" else
               if s.[i] = ')' then (TL (List.rev acc), i+1) else let (t, j) = item i in items j (t :: acc) in
             items (i+1) []
    | 'x' -> let j = ref (i+1) in
             while !j < n && s.[!j] <> ' ' && s.[!j] <> ')' && s.[!j] <> '(' do incr j done;
             let len = (!j - i - 1) / 2 in
             let rec bytes k acc = if k < 0 then acc else bytes (k-1) (zbyte.(hexval s.[i+1+2*k] * 16 + hexval s.[i+2+2*k]) :: acc) in
             (TB (bytes (len-1) []), !j)
    | _ -> let j = ref i in
           while !j < n && s.[!j] <> ' ' && s.[!j] <> ')' && s.[!j] <> '(' do incr j done;
           (TI (z_of_string (String.sub s i (!j - i))), !j)
  in item start

let hexdig = "0123456789abcdef"
let rec print_tok buf t = match t with
  | TI z -> Buffer.add_string buf (string_of_z z)
  | TB bs -> Buffer.add_char buf 'x';
      List.iter (fun z -> let v = int_of_z z in
        if v < 0 || v > 255 then Buffer.add_string buf (Printf.sprintf "[%d]" v) else begin
        Buffer.add_char buf hexdig.[v lsr 4]; Buffer.add_char buf hexdig.[v land 15] end) bs
  | TL l -> Buffer.add_char buf '(';
      List.iteri (fun i x -> if i > 0 then Buffer.add_char buf ' '; print_tok buf x) l;
      Buffer.add_char buf ')'

let () =
  let buf = Buffer.create 65536 in
  (try while true do
    let line = input_line stdin in
    if String.length line > 0 then begin
      let sp = String.index line ' ' in
      let prop = int_of_string (String.sub line 0 sp) in
      let (t, _) = parse line (sp+1) in
      Buffer.clear buf;
      (try print_tok buf (run_case (z_of_int prop) t)
       with Stack_overflow -> Buffer.add_string buf "STACK_OVERFLOW" | Failure m -> Buffer.add_string buf ("FAILURE " ^ m));
      print_string (Buffer.contents buf); print_newline ()
    end
  done with End_of_file -> ())
