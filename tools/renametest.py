#!/usr/bin/env python3
"""Regression test for the rename-stability of the source tie (go/gen/declorder.go).

Makes a scratch COPY of /repo, renames local variables / parameters / named results / receivers inside the
translated functions (new names chosen to sort differently: prefix z or a) and checks that the copy still builds.
Nothing else changes, so every check must stay green on the copy:

    tools/renametest.py /tmp/renamed-repo            # sets A B C D (all)
    tools/renametest.py /tmp/renamed-repo A          # only set A
    VERIF_REPO=/tmp/renamed-repo tools/runall.sh quick
    rm -rf /tmp/renamed-repo

A rename is applied to the identifiers of ONE function (header line matched by a regex); selectors (x.name) and
composite-literal keys (name: value) are left alone.  Not renamed on purpose: the error result `err` of the
iterator-monad parsers (packet.go / data_pes.go / data_psi.go / descriptor.go parse* functions) - go/gen/itermonad.go
requires that name (grammar, not ordering).
"""
import os, re, shutil, subprocess, sys

SETS = {
    # the renames that used to break write_data_of_generated, remove_loop1_is_model, af_loop_is, loop1_is_find_sync_subject
    "A": [
        ("muxer.go", r"Muxer\) WriteData\(", "bytesWritten=written payloadStart=isStart pktLen=zlen ntot=atot"),
        ("muxer.go", r"Muxer\) RemoveElementaryStream\(", "foundIdx=zfoundIdx"),
        ("muxer.go", r"Muxer\) generatePMT\(", "hasPCRPID=zhasPCRPID"),
        ("packet.go", r"func writePacket\(", "written=zwritten"),
        ("packet.go", r"func writePacketAdaptationField\(", "bytesWritten=zwritten"),
        ("packet_buffer.go", r"func autoDetectPacketSize\(", "shouldRewind=zshouldRewind rerr=arerr"),
        ("packet_buffer.go", r"func peek\(", "shouldRewind=zshouldRewind"),
        ("packet_buffer.go", r"packetBuffer\) next\(", "p=zp"),
        ("data.go", r"func parseData\(", "payload=zpayload c=zc l=al"),
        ("data.go", r"func isPSIComplete\(", "o=zo l=al payload=zpayload b=zb"),
        ("demuxer.go", r"Demuxer\) NextData\(", "ps=zps ds=ads p=zp"),
        ("packet_pool.go", r"packetAccumulator\) add\(", "mps=queue"),
        ("packet_pool.go", r"packetPool\) dumpUnlocked\(", "ps=zps"),
        ("data_pes.go", "*", "bytesWritten=zwritten payloadLeft=apayloadLeft"),
        ("data_psi.go", "*", "offsetSectionsEnd=zoffsetSectionsEnd stop=zstop"),
        ("descriptor.go", "*", "offsetDescriptorEnd=aoffsetDescriptorEnd"),
    ],
    "B": [
        ("data_psi.go", r"func parsePSIData\(", "d=zd s=zs b=zb"),
        ("data_psi.go", r"PSIData\) toData\(", "ds=zds s=as"),
        ("data_psi.go", r"func writePSIData\(", "bytesWritten=zwritten"),
        ("data_pmt.go", r"func writePMTSection\(", "bytesWritten=zbytes n=an es=zes"),
        ("data_pmt.go", r"func parsePMTSection\(", "d=zd"),
        ("data_pat.go", r"func parsePATSection\(", "d=zd"),
        ("descriptor.go", r"func parseDescriptors\(", "o=zo length=alength bs=zbs"),
        ("descriptor.go", r"func writeDescriptors\(", "written=awritten"),
        ("descriptor.go", r"func newDescriptorVBIData\(", "srv=asrv offsetDataEnd=zoffsetDataEnd"),
        ("data_pes.go", r"func parsePESData\(", "dataStart=zdataStart dataEnd=adataEnd"),
        ("data_pes.go", r"func parsePESHeader\(", "dataStart=zdataStart"),
        ("muxer.go", r"Muxer\) AddElementaryStream\(", "ctx=zctx cc=acc oes=zoes"),
        ("muxer.go", r"Muxer\) WriteData\(", "writeAf=awriteAf bytesAvailable=zbytesAvailable pkt=zpkt forceTables=aforce"),
        ("muxer.go", r"Muxer\) retransmitTables\(", "n=zn"),
        ("muxer.go", r"Muxer\) WriteTables\(", "bytesWritten=zwritten"),
        ("demuxer.go", r"Demuxer\) updateData\(", "d=zd v=av pgm=zpgm"),
        ("packet.go", r"func parsePacketAdaptationField\(", "a=za"),
        ("packet.go", r"func parsePacket\(", "p=zp"),
        ("program_map.go", r"programMap\) toPATDataUnlocked\(", "d=zd"),
    ],
    # receivers and loop variables
    "C": [
        ("demuxer.go", r"Demuxer\) NextData\(", "dmx=zdmx"),
        ("demuxer.go", r"Demuxer\) NextPacket\(", "dmx=admx"),
        ("demuxer.go", r"Demuxer\) updateData\(", "dmx=zdmx"),
        ("demuxer.go", r"Demuxer\) Rewind\(", "dmx=zdmx"),
        ("packet_buffer.go", r"packetBuffer\) next\(", "pb=zpb"),
        ("packet_pool.go", r"packetPool\) addUnlocked\(", "b=zb"),
        ("packet_pool.go", r"packetPool\) dumpUnlocked\(", "b=zb"),
        ("packet_pool.go", r"packetAccumulator\) add\(", "b=zb"),
        ("muxer.go", r"Muxer\) WriteData\(", "m=zm"),
        ("muxer.go", r"Muxer\) AddElementaryStream\(", "m=zm"),
        ("muxer.go", r"Muxer\) WritePacket\(", "m=zm"),
        ("data_psi.go", r"PSIData\) toData\(", "d=zd"),
        ("packet_buffer.go", r"func newPacketBuffer\(", "pb=zpb"),
        ("packet_buffer.go", r"func autoDetectPacketSize\(", "b=zb idx=aidx"),
    ],
    # error variables outside the iterator-monad parsers, parameters, the writer / iterator parameter
    "D": [
        ("data_psi.go", r"func parsePSIData\(", "i=zit"),
        ("packet.go", r"func writePacket\(", "retErr=aerr w=zw"),
        ("muxer.go", r"Muxer\) WriteData\(", "err=zerr d=zdata"),
        ("demuxer.go", r"Demuxer\) NextData\(", "err=aerr"),
        ("packet_pool.go", r"packetPool\) dumpUnlocked\(", "k=zk keys=akeys"),
    ],
}


def rename_in(lines, start, end, pairs):
    cnt = 0
    for i in range(start, end + 1):
        code, sep, com = lines[i].partition("//")
        for old, new in pairs:
            if old == new:
                continue
            code, k = re.subn(r"(?<![\.\w])" + re.escape(old) + r"\b(?!:[ \t]+\S)", new, code)
            cnt += k
        lines[i] = code + sep + com
    return cnt


def apply(repo, fname, fre, spec):
    pairs = [a.split("=") for a in spec.split()]
    path = os.path.join(repo, fname)
    lines = open(path).read().split("\n")
    total, found = 0, False
    i = 0
    while i < len(lines):
        if lines[i].startswith("func ") and (fre == "*" or re.search(fre, lines[i])):
            end = i
            while lines[end] != "}" and not (lines[end].endswith("}") and lines[end].startswith("func ")):
                end += 1
            total += rename_in(lines, i, end, pairs)
            found = True
            i = end
        i += 1
    if not found:
        sys.exit(f"{fname}: no function matches {fre}")
    open(path, "w").write("\n".join(lines))
    print(f"{fname} {fre}: {total} replacements")


def main():
    if len(sys.argv) < 2:
        sys.exit(__doc__)
    dst = sys.argv[1]
    sets = sys.argv[2:] or sorted(SETS)
    src = os.environ.get("VERIF_SRC_REPO", "/repo")
    if os.path.abspath(dst).startswith(os.path.abspath(src) + os.sep) or os.path.abspath(dst) == os.path.abspath(src):
        sys.exit("the scratch copy must be outside " + src)
    if os.path.exists(dst):
        shutil.rmtree(dst)
    shutil.copytree(src, dst)
    for s in sets:
        for fname, fre, spec in SETS[s]:
            apply(dst, fname, fre, spec)
    env = dict(os.environ, GOFLAGS="-mod=mod", GOPROXY="off", GOSUMDB="off", GOTOOLCHAIN="local", CGO_ENABLED="0")
    subprocess.run(["go", "build", "./..."], cwd=dst, env=env, check=True)
    print(f"renamed copy of {src} in {dst} builds; now: VERIF_REPO={dst} tools/runall.sh quick")


if __name__ == "__main__":
    main()
