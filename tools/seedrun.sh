#!/bin/bash
# usage: tools/seedrun.sh <seed dir name> <PROP> [<PROP> ...]  — applies the seeded change to /repo, runs the quick checks, reverts
S=$1; shift
cd /verif
git -C /repo diff --quiet || { echo "/repo is dirty"; exit 2; }
git -C /repo apply /verif/seeded/$S/patch.diff || { echo "patch does not apply"; exit 2; }
for P in "$@"; do
  out=$(timeout 1500 ./check $P --tier quick 2>&1)
  rc=$?
  echo "$S on $P: exit $rc: $(echo "$out" | grep -m1 '^VIOLATION' || echo 'no violation')"
  echo "$out" | grep -m2 '^BROKEN\|^FAILING-INPUT' | cut -c1-400
done
git -C /repo checkout -- .
# restore evidence of the unchanged tree is the caller's job (re-run the checks)
