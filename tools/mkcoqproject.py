#!/usr/bin/env python3
"""Writes coq/_CoqProject from the .v files present (coq_makefile orders compilation by coqdep, so the order of the
list is irrelevant). Gen/*.v are produced by the translator before this runs."""
import os, sys
V = os.path.dirname(os.path.dirname(os.path.abspath(__file__)))
COQ = os.path.join(V, "coq")
files = []
for d in ("Base", "Gen", "Spec", "Model", "Proofs", "Props", "Extract"):
    p = os.path.join(COQ, d)
    if os.path.isdir(p):
        for f in sorted(os.listdir(p)):
            if f.endswith(".v") and f != "Extract.v":
                files.append(d + "/" + f)
head = "-R . Astits\n-arg -w -arg -notation-overridden,-deprecated-hint-without-locality,-deprecated-syntactic-definition\n"
new = head + "\n".join(files) + "\n"
path = os.path.join(COQ, "_CoqProject")
old = open(path).read() if os.path.exists(path) else ""
if old != new:
    open(path, "w").write(new)
