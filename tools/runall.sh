#!/bin/bash
# runs every registered quick check on the current tree and prints one line per property
cd "$(dirname "$0")/.."
for f in tools/props.d/*.json; do
  p=$(basename $f .json)
  out=$(timeout 9000 ./check $p --tier ${1:-quick} 2>&1)
  rc=$?
  echo "exit $rc | $(echo "$out" | grep -m1 'tier=')"
  echo "$out" | grep '^VIOLATION\|^BROKEN' | cut -c1-300
done
