#!/bin/bash
# Runs every seeded change against the check of its property, in an isolated worktree of /verif and a scratch
# worktree of /repo (VERIF_REPO), and records the outcome in seeded/<id>/meta.json (detected_by).
# usage: tools/seedall.sh [seed ...]
set -u
export GOFLAGS=-mod=mod GOPROXY=off GOSUMDB=off GOTOOLCHAIN=local CGO_ENABLED=0
WT=${SEEDRUN_WT:-/root/wt/seedrun}
SR=${SEEDRUN_SR:-/tmp/seedrepo}
git -C /verif worktree remove --force $WT 2>/dev/null
git -C /verif worktree add -q --detach $WT HEAD || exit 2
git -C /repo worktree remove --force $SR 2>/dev/null
git -C /repo worktree add -q --detach $SR HEAD || exit 2
cd $WT
export VERIF_REPO=$SR
./setup.sh >/dev/null 2>&1 || { echo "setup failed"; exit 2; }
seeds="$@"
[ -z "$seeds" ] && seeds=$(ls /verif/seeded)
for S in $seeds; do
  P=${S%-*}
  props="$P"
  [ "$S" = "C11-2" ] && props="C11 C16"
  [ "$S" = "C13-3" ] && props="C13 C16"
  [ "$S" = "C13-4" ] && props="C13 C17"
  [ "$S" = "C16-2" ] && props="C16 C03 C08"
  [ "$S" = "C12-3" ] && props="C12 C16"
  [ "$S" = "C09-4" ] && props="C09 C16"
  [ "$S" = "C14-3" ] && props="C14 C16"
  [ "$S" = "C07-4" ] && props="C07 C16"
  [ "$S" = "C19-4" ] && props="C19 C02"
  [ "$S" = "C07-3" ] && props="C07 C02"
  [ "$S" = "C17-6" ] && props="C17 C18"
  [ "$S" = "C16-5" ] && props="C16"
  [ "$S" = "C11-6" ] && props="C11 C04"
  [ "$S" = "C03-6" ] && props="C03 C14"
  [ "$S" = "C03-5" ] && props="C03 C09"
  [ "$S" = "C01-6" ] && props="C01 C04"
  [ "$S" = "C19-6" ] && props="C19 C20"
  [ "$S" = "C07-6" ] && props="C07 C02 C20"
  [ "$S" = "C08-6" ] && props="C08 C19"
  [ "$S" = "C01-5" ] && props="C01 C04"
  [ "$S" = "C09-6" ] && props="C09 C17"
  [ "$S" = "C15-5" ] && props="C15 C14"
  [ "$S" = "C12-5" ] && props="C12 C01 C04"
  [ "$S" = "C12-6" ] && props="C12 C16"
  [ "$S" = "C12-4" ] && props="C12 C02"
  [ "$S" = "C01-4" ] && props="C01 C17"
  [ "$S" = "C05-4" ] && props="C05 C17"
  git -C $SR apply /verif/seeded/$S/patch.diff || { echo "$S: patch does not apply"; continue; }
  res=""
  for Q in $props; do
    out=$(timeout 1500 ./check $Q --tier quick 2>&1)
    rc=$?
    v=$(echo "$out" | grep -m1 '^VIOLATION' || true)
    kind="missed"
    if [ $rc -ne 0 ]; then
      if echo "$v" | grep -q no-failing-input-found; then kind="tie-broken(no failing input)"; else kind="failing-input"; fi
      how=$(echo "$out" | grep '^BROKEN' | awk '{print $2}' | sort -u | tr '\n' ',' )
      kind="$kind [$how oracle=$(echo "$out" | grep -c '^FAILING-INPUT')]"
    fi
    echo "$S on $Q: $kind"
    res="$res$Q: $kind; "
  done
  git -C $SR checkout -q -- .
  python3 - "$S" "$res" <<'PY'
import json,sys
p='/verif/seeded/%s/meta.json'%sys.argv[1]
d=json.load(open(p)); d['detected_by']=sys.argv[2].strip(); d['ran']="tools/seedall.sh: isolated worktree of /verif, scratch worktree of /repo with the patch applied (VERIF_REPO), ./check <property> --tier quick"
json.dump(d,open(p,'w'),indent=1)
PY
done
cd /verif; git -C /verif worktree remove --force $WT; git -C /repo worktree remove --force $SR
