#!/usr/bin/env python3
"""Rewrites the table of DESIGN.md section 9 from seeded/*/meta.json (detected_by is recorded by tools/seedall.sh)."""
import json, glob, os, re
V = os.path.dirname(os.path.dirname(os.path.abspath(__file__)))
rows = ["| seed | what it changes (from the author's notes) | outcome |", "|------|--------------------------------------------|---------|"]
for d in sorted(glob.glob(os.path.join(V, "seeded", "*", "meta.json"))):
    m = json.load(open(d))
    sid = os.path.basename(os.path.dirname(d))
    what = " ".join(m.get("needs_to_manifest", "").split())[:260].replace("|", "/")
    rows.append("| %s | %s | %s |" % (sid, what, m.get("detected_by", "not run").replace("|", "/")))
p = os.path.join(V, "DESIGN.md")
s = open(p).read()
a = s.index("| seed | what it changes")
b = s.index("\n\n", a)
open(p, "w").write(s[:a] + "\n".join(rows) + s[b:])
print(len(rows) - 2, "rows")
