#!/bin/bash
# usage: tools/seedverify.sh <PROP> <k> [subdir [number]]   — confirms a candidate seeded change from /tmp/seed/<PROP>/out in a scratch worktree
# (existing suite passes with the change; demo fails with it and passes without) and stores it under /verif/seeded/<PROP>-<k>/
set -u
P=$1; K=$2; SUB=${3:-out}; N=${4:-$K}
export GOFLAGS=-mod=mod GOPROXY=off GOSUMDB=off GOTOOLCHAIN=local
SRC=/tmp/seed/$P/$SUB
WT=/tmp/seedchk-$P-$K
git -C /repo worktree remove --force $WT 2>/dev/null
git -C /repo worktree add -q --detach $WT HEAD || exit 2
cd $WT
res() { echo "$1"; git -C /repo worktree remove --force $WT; exit $2; }
git apply --check $SRC/patch$K.diff 2>/dev/null || res "patch does not apply to current HEAD" 3
git apply $SRC/patch$K.diff
go build ./... || res "does not compile" 3
go test -vet=off -count=1 ./... >/tmp/seedchk-$P-$K.suite 2>&1 || res "existing suite FAILS with the change" 3
cp $SRC/demo${K}_test.go zz_demo_test.go
if go test -vet=off -count=1 -run 'Demo|C[0-9][0-9]' . >/tmp/seedchk-$P-$K.with 2>&1; then res "demo PASSES with the change (no demonstration)" 3; fi
git checkout -q -- . 
if ! go test -vet=off -count=1 -run 'Demo|C[0-9][0-9]' . >/tmp/seedchk-$P-$K.without 2>&1; then tail -5 /tmp/seedchk-$P-$K.without; res "demo FAILS without the change" 3; fi
D=/verif/seeded/$P-$N
mkdir -p $D
cp $SRC/patch$K.diff $D/patch.diff
cp $SRC/demo${K}_test.go $D/demo_test.go
python3 - "$P" "$N" "$SRC/meta$K.txt" "$D/meta.json" <<'PY'
import json,sys
p,k,src,dst=sys.argv[1:]
meta=open(src).read()
json.dump({"property":p,"variant":int(k),"needs_to_manifest":meta,"confirmed":"scratch worktree of /repo HEAD: `git apply patch.diff`; `go test -vet=off -count=1 ./...` passes; demo_test.go (as zz_demo_test.go) fails with the patch and passes without it","detected_by":[]},open(dst,"w"),indent=1)
PY
res "confirmed -> $D" 0
