#!/usr/bin/env python3
"""One entry point for every property check:  ./check Cxx [--tier quick|thorough] [--replay file]

Steps (DESIGN.md sections 1, 3, 8):
  1. translator:  /repo working tree -> coq/Gen/*.v            (tie 1: regenerated model parts)
  2. coq:         make Props/Cxx.vo (full .vo build of its cone), Print Assumptions captured
  3. gate:        no Admitted/admit/Axiom/... anywhere in coq/
  4. extraction:  coq/Extract -> OCaml driver                      (tie 2: hand-written model, executable)
  5. harness:     Go harness built from /repo with -tags verif; generates cases from one seed, runs
                  the implementation, runs the property's implementation-side oracle on every case
  6. driver:      the extracted model on the same cases; canonical diff
  7. verdict:     evidence/Cxx.json, KNOWN-FINDING / VIOLATION lines, exit status
"""
import fcntl
import json
import os
import re
import subprocess
import sys
import time

V = os.path.dirname(os.path.dirname(os.path.abspath(__file__)))
REPO = os.environ.get("VERIF_REPO", "/repo")
BUILD = os.path.join(V, "build")
COQ = os.path.join(V, "coq")
ENV = dict(os.environ, GOFLAGS="-mod=mod", GOPROXY="off", GOSUMDB="off", GOTOOLCHAIN="local",
           CGO_ENABLED=os.environ.get("CGO_ENABLED", "0"))

sys.path.insert(0, os.path.join(V, "tools"))
from props import PROPS, COMMON_TRUSTED  # noqa: E402

ALLOWED_AXIOMS = {
    # axioms declared by the standard library that DESIGN.md section 7 names; none is needed so far
}
FORBIDDEN = re.compile(r"\b(Admitted|admit|Axiom|Axioms|Parameter|Parameters|Conjecture|Conjectures|Hypothesis|Variable|Variables|Hypotheses|Context)\b|Unset\s+Guard|bypass_check|type-in-type|impredicative-set|Admit Obligations|Unset\s+Positivity|Unset\s+Universe")


def run(cmd, cwd=None, timeout=None, stdin=None, env=None):
    try:
        p = subprocess.run(cmd, cwd=cwd, stdout=subprocess.PIPE, stderr=subprocess.STDOUT, timeout=timeout,
                           stdin=stdin, env=env or ENV, shell=isinstance(cmd, str))
        return p.returncode, p.stdout.decode("utf-8", "replace")
    except subprocess.TimeoutExpired as e:
        return 124, (e.stdout or b"").decode("utf-8", "replace") + "\nTIMEOUT"


class Lock:
    def __enter__(self):
        os.makedirs(BUILD, exist_ok=True)
        self.f = open(os.path.join(BUILD, ".lock"), "w")
        fcntl.flock(self.f, fcntl.LOCK_EX)

    def __exit__(self, *a):
        fcntl.flock(self.f, fcntl.LOCK_UN)
        self.f.close()


def coqchk_all(limit):
    """One coqchk run over every compiled property file (each library of the development is re-checked once), shared by
    the thorough checks of all properties through a cache keyed by the digest of every .vo file.  Returns
    (exit code, output, description); a non-zero exit code means "no shared result", never a rejection by itself."""
    import hashlib
    vos = []
    for root, _, files in os.walk(COQ):
        for fn in files:
            if fn.endswith(".vo"):
                vos.append(os.path.join(root, fn))
    vos.sort()
    h = hashlib.sha256()
    for f in vos:
        h.update(os.path.relpath(f, COQ).encode())
        h.update(hashlib.sha256(open(f, "rb").read()).digest())
    key = h.hexdigest()[:24]
    cdir = os.path.join(BUILD, "coqchk")
    os.makedirs(cdir, exist_ok=True)
    cpath = os.path.join(cdir, key + ".json")
    lock = open(os.path.join(cdir, ".lock"), "w")
    fcntl.flock(lock, fcntl.LOCK_EX)
    try:
        if os.path.exists(cpath):
            c = json.load(open(cpath))
            return c["exit"], c["output"], "reused: coqchk over %d property files, %d s, run at %s, digest %s" % (
                len(c["modules"]), c["seconds"], c["at"], key)
        mods = []
        for pid2, P2 in sorted(PROPS.items()):
            if os.path.exists(os.path.join(COQ, P2["props_file"] + "o")):
                mods.append("Astits." + P2["props_file"].replace("/", ".").replace(".v", ""))
        t = time.time()
        rc, out = run(["coqchk", "-silent", "-o", "-R", ".", "Astits"] + mods, cwd=COQ, timeout=max(limit, int(os.environ.get("VERIF_COQCHK_ALL_TIMEOUT", "9000"))))
        if rc == 0:
            json.dump({"exit": 0, "output": out[-4000:], "modules": mods, "seconds": round(time.time() - t),
                       "at": time.strftime("%Y-%m-%dT%H:%M:%SZ", time.gmtime())}, open(cpath, "w"))
            return 0, out, "coqchk over %d property files in one run, %d s, digest %s" % (len(mods), round(time.time() - t), key)
        return rc or 1, out, None
    finally:
        fcntl.flock(lock, fcntl.LOCK_UN)
        lock.close()


def gate():
    """Refuse any development that declares axioms, admits proofs or switches off kernel checks."""
    bad = []
    for root, _, files in os.walk(COQ):
        for fn in files:
            if not fn.endswith(".v"):
                continue
            path = os.path.join(root, fn)
            text = open(path, encoding="utf-8", errors="replace").read()
            text_nc = strip_comments(text)
            sections = []  # names of the open sections (modules are not sections)
            for ln, line in enumerate(text_nc.split("\n"), 1):
                ms = re.match(r"\s*Section\s+([A-Za-z0-9_']+)", line)
                if ms:
                    sections.append(ms.group(1))
                me = re.match(r"\s*End\s+([A-Za-z0-9_']+)", line)
                if me and sections and sections[-1] == me.group(1):
                    sections.pop()
                in_section = len(sections)
                m = FORBIDDEN.search(line)
                if m:
                    word = m.group(0)
                    if word in ("Variable", "Variables", "Hypothesis", "Hypotheses", "Context") and in_section:
                        continue  # section variables are discharged, not axioms
                    bad.append("%s:%d: %s" % (os.path.relpath(path, V), ln, word))
    proj = open(os.path.join(COQ, "_CoqProject")).read()
    if "type-in-type" in proj or "impredicative-set" in proj:
        bad.append("_CoqProject: forbidden flag")
    return bad


def strip_comments(s):
    out = []
    depth = 0
    i = 0
    while i < len(s):
        if s.startswith("(*", i):
            depth += 1
            i += 2
        elif s.startswith("*)", i) and depth:
            depth -= 1
            i += 2
        else:
            if depth == 0:
                out.append(s[i])
            elif s[i] == "\n":
                out.append("\n")
            i += 1
    return "".join(out)


def build_tools():
    """Translator binary (stdlib only)."""
    rc, out = run(["go", "build", "-o", os.path.join(BUILD, "gen"), "."], cwd=os.path.join(V, "go", "gen"), timeout=300)
    return rc, out


def translate():
    os.makedirs(os.path.join(COQ, "Gen"), exist_ok=True)
    return run([os.path.join(BUILD, "gen"), REPO, os.path.join(COQ, "Gen")], timeout=120)


def coq_make(targets, timeout):
    run([sys.executable, os.path.join(V, "tools", "mkcoqproject.py")])
    if not os.path.exists(os.path.join(COQ, "Makefile")) or \
            os.path.getmtime(os.path.join(COQ, "Makefile")) < os.path.getmtime(os.path.join(COQ, "_CoqProject")):
        rc, out = run("coq_makefile -f _CoqProject -o Makefile", cwd=COQ, timeout=60)
        if rc:
            return rc, out
    return run(["make", "-j16"] + targets, cwd=COQ, timeout=timeout)


def first_coq_error(out):
    m = re.search(r'File "([^"]+)", line (\d+), characters [\d-]+:\s*\n(Error:.*?)(?:\n\n|\nmake|\Z)', out, re.S)
    if m:
        return "%s line %s: %s" % (m.group(1), m.group(2), " ".join(m.group(3).split())[:400])
    if "TIMEOUT" in out:
        return "coq build timed out"
    tail = out.strip().split("\n")[-5:]
    return " | ".join(tail)


def theorem_at(path, line):
    """Name of the Theorem/Lemma enclosing a line of a .v file."""
    try:
        lines = open(os.path.join(COQ, path)).read().split("\n")
    except OSError:
        return None
    for i in range(min(int(line), len(lines)) - 1, -1, -1):
        m = re.match(r"\s*(Theorem|Lemma|Corollary|Example|Definition|Fixpoint|Fact|Remark)\s+([A-Za-z0-9_']+)", lines[i])
        if m:
            return m.group(2)
    return None


def assumptions(prop_file, timeout):
    """Recompile the property file alone to capture its Print Assumptions output."""
    rc, out = run(["coqc", "-R", ".", "Astits", "-w", "-notation-overridden,-deprecated-hint-without-locality,-deprecated-syntactic-definition", prop_file], cwd=COQ, timeout=timeout)
    text = strip_comments(open(os.path.join(COQ, prop_file)).read())
    theorems = re.findall(r"^\s*Theorem\s+([A-Za-z0-9_']+)", text, re.M)
    prints = re.findall(r"^\s*Print Assumptions\s+([A-Za-z0-9_']+)", text, re.M)
    closed = out.count("Closed under the global context")
    axioms = []
    for m in re.finditer(r"Axioms:\n((?:.+\n?)+?)(?:\n|$)", out):
        for l in m.group(1).split("\n"):
            mm = re.match(r"^([A-Za-z0-9_.']+)\s*:", l)
            if mm:
                axioms.append(mm.group(1))
    return rc, out, theorems, prints, closed, sorted(set(axioms))


def build_extraction(pid, timeout):
    """Per-property extraction: only run_<pid> and what it depends on, so that a model of another
    property that no longer builds cannot raise an alarm here."""
    odir = os.path.join(BUILD, "ocaml", pid)
    os.makedirs(odir, exist_ok=True)
    rc, out = coq_make(["Extract/Run%s.vo" % pid], timeout)
    if rc:
        return rc, out
    run_vo = os.path.join(COQ, "Extract", "Run%s.vo" % pid)
    drv = os.path.join(odir, "driver")
    src = os.path.join(V, "ocaml", "driver.ml")
    if os.path.exists(drv) and os.path.getmtime(drv) > max(os.path.getmtime(run_vo), os.path.getmtime(src)):
        return 0, "driver up to date"
    with open(os.path.join(odir, "extract.v"), "w") as f:
        f.write("Require Extraction.\nRequire Import ExtrOcamlBasic.\nRequire Import Astits.Base.Tok Astits.Extract.Run%s.\n"
                "Extraction Language OCaml.\nExtraction \"model.ml\" run_%s.\n" % (pid, pid))
    rc, out = run(["coqc", "-R", COQ, "Astits", "extract.v"], cwd=odir, timeout=timeout)
    if rc:
        return rc, out
    d = open(src).read().replace("run_case (z_of_int prop) t", "run_%s t" % pid)
    open(os.path.join(odir, "driver.ml"), "w").write(d)
    rc, out2 = run("ocamlfind ocamlopt -O3 -w -a model.mli model.ml driver.ml -o driver.tmp && mv driver.tmp driver", cwd=odir, timeout=timeout)
    return rc, out + out2


def build_harness(timeout=600):
    hdir = os.path.join(V, "go", "harness")
    run(["cp", os.path.join(REPO, "go.sum"), os.path.join(hdir, "go.sum")])
    gomod = open(os.path.join(hdir, "go.mod")).read()
    want = "replace github.com/asticode/go-astits => " + REPO
    if want not in gomod:
        gomod = re.sub(r"replace github.com/asticode/go-astits => \S+", want, gomod)
        open(os.path.join(hdir, "go.mod"), "w").write(gomod)
    return run(["go", "build", "-tags", "verif", "-o", os.path.join(BUILD, "harness"), "."], cwd=hdir, timeout=timeout)


def load_known():
    try:
        return json.load(open(os.path.join(V, "known_findings.json")))["findings"]
    except (OSError, ValueError, KeyError):
        return []


def match_known(pid, viol, known):
    for k in known:
        if k.get("property") != pid or k.get("status") != "known":
            continue
        sig = k.get("signature", {})
        ok = True
        if "what_regex" in sig and not re.search(sig["what_regex"], viol.get("what", "")):
            ok = False
        if "case_regex" in sig and not re.search(sig["case_regex"], viol.get("case", "")):
            ok = False
        if "kind_regex" in sig and not re.search(sig["kind_regex"], viol.get("kind", "")):
            ok = False
        if ok:
            return k
    return None


def main():
    args = sys.argv[1:]
    if not args:
        print(__doc__)
        return 2
    pid = args[0]
    tier = os.environ.get("VERIF_TIER", "quick")
    replay = None
    i = 1
    while i < len(args):
        if args[i] == "--tier":
            tier = args[i + 1]
            i += 2
        elif args[i] == "--replay":
            replay = args[i + 1]
            i += 2
        else:
            i += 1
    if tier not in ("quick", "thorough"):
        tier = "quick"
    seed = int(os.environ.get("VERIF_SEED", "1") or "1")
    if pid not in PROPS:
        print("unknown property", pid)
        return 2
    P = PROPS[pid]
    t0 = time.time()
    rundir = os.path.join(BUILD, "run", pid)
    os.makedirs(rundir, exist_ok=True)
    os.makedirs(os.path.join(V, "replays"), exist_ok=True)
    os.makedirs(os.path.join(V, "evidence"), exist_ok=True)
    broken = []      # ties that no longer check: (kind, description)
    notes = []
    coq_timeout = 3000 if tier == "thorough" else 1500

    with Lock():
        rc, out = build_tools()
        if rc:
            broken.append(("tooling", "translator build failed: " + out[-300:]))
        rc, out = translate()
        skipped = [l.strip() for l in out.split("\n") if "not translated:" in l]
        if rc:
            broken.append(("translator", "go/gen could not translate /repo: " + out.strip()[-400:]))
        # 2. proofs
        th, prints, closed, axioms = [], [], 0, []
        try:
            th = re.findall(r"^\s*Theorem\s+([A-Za-z0-9_']+)", strip_comments(open(os.path.join(COQ, P["props_file"])).read()), re.M)
        except OSError:
            pass
        if tier == "thorough":
            run(["rm", "-f"] + [os.path.join(COQ, f.replace(".v", ".vo")) for f in [P["props_file"]]])
        rc, out = coq_make([P["props_file"] + "o"], coq_timeout)
        proofs_ok = rc == 0
        if rc:
            err = first_coq_error(out)
            m = re.match(r"\./?([^ ]+) line (\d+):", err)
            thm = theorem_at(m.group(1), m.group(2)) if m else None
            broken.append(("proof", "theorem/lemma %s no longer checks: %s%s" % (thm or "?", err,
                           ("; functions the translator could not translate: " + "; ".join(skipped)) if skipped else "")))
        else:
            rc2, aout, th, prints, closed, axioms = assumptions(P["props_file"], coq_timeout)
            if rc2:
                broken.append(("proof", "property file no longer checks: " + first_coq_error(aout)))
                proofs_ok = False
            bad_ax = [a for a in axioms if a not in ALLOWED_AXIOMS]
            if bad_ax:
                broken.append(("axioms", "Print Assumptions reports axioms outside the trusted base: " + ", ".join(bad_ax)))
            if set(th) - set(prints):
                broken.append(("gate", "theorems without Print Assumptions: " + ", ".join(sorted(set(th) - set(prints)))))
        g = gate()
        if g:
            broken.append(("gate", "forbidden constructs: " + "; ".join(g[:10])))
        # 4. extraction + driver
        rc, out = build_extraction(pid, coq_timeout)
        model_ok = rc == 0
        if rc:
            broken.append(("model", "executable model no longer builds: " + first_coq_error(out)))
        # 5. harness
        rc, out = build_harness()
        harness_ok = rc == 0
        if rc:
            broken.append(("harness", "Go harness no longer builds against /repo with -tags verif: " + out.strip()[-600:]))

    stats = {}
    mismatches = []
    compared = 0
    viols = []
    if harness_ok:
        cmd = [os.path.join(BUILD, "harness"), "-prop", pid, "-tier", tier, "-seed", str(seed), "-out", rundir,
               "-corpus", os.path.join(V, "corpus", pid)]
        if replay:
            cmd += ["-replay", replay]
        rc, out = run(cmd, timeout=7200 if tier == "thorough" else 1200)
        if rc:
            broken.append(("harness", "harness run failed (exit %d): %s" % (rc, out.strip()[-500:])))
        try:
            stats = json.load(open(os.path.join(rundir, "stats.json")))
        except (OSError, ValueError):
            stats = {}
        viols = stats.get("violations") or []
        # 6. model on the same cases
        if model_ok and rc == 0:
            with open(os.path.join(rundir, "cases.txt"), "rb") as cf, open(os.path.join(rundir, "model.txt"), "wb") as mf:
                try:
                    p = subprocess.run(["bash", "-c", "ulimit -s unlimited 2>/dev/null; exec " + os.path.join(BUILD, "ocaml", pid, "driver")],
                                       stdin=cf, stdout=mf, stderr=subprocess.PIPE,
                                       timeout=7200 if tier == "thorough" else 1200)
                    drc = p.returncode
                except subprocess.TimeoutExpired:
                    drc = 124
            if drc:
                broken.append(("correspondence", "model driver failed (exit %d)" % drc))
            else:
                with open(os.path.join(rundir, "cases.txt")) as cf, open(os.path.join(rundir, "impl.txt")) as imf, \
                        open(os.path.join(rundir, "model.txt")) as mf:
                    for n, (c, a, b) in enumerate(zip(cf, imf, mf)):
                        compared += 1
                        if a != b:
                            if len(mismatches) < 20:
                                mismatches.append({"index": n, "case": c.strip().split(" ", 1)[1],
                                                   "implementation": a.strip()[:2000], "model": b.strip()[:2000]})
                    n_cases = stats.get("evaluations", 0)
                if compared != n_cases:
                    broken.append(("correspondence", "model produced %d observations for %d cases" % (compared, n_cases)))
                if mismatches:
                    broken.append(("correspondence", "model and implementation disagree on %d+ of %d cases; first: case %s implementation %s model %s" % (
                        len(mismatches), compared, mismatches[0]["case"][:300], mismatches[0]["implementation"][:300], mismatches[0]["model"][:300])))

    # 7. verdict
    known = load_known()
    new_viols, known_hits = [], {}
    for v in viols:
        k = match_known(pid, v, known)
        if k:
            known_hits.setdefault(k["id"], (k, 0))
            known_hits[k["id"]] = (k, known_hits[k["id"]][1] + 1)
        else:
            new_viols.append(v)
    # findings that are witnessed by a refuted-theorem in the Coq development are listed even when no generated case hit them
    for k in known:
        if k.get("property") == pid and k.get("status") == "known" and k["id"] not in known_hits and k.get("always_report"):
            known_hits[k["id"]] = (k, 0)
    status = 0
    lines = []
    for kid, (k, n) in sorted(known_hits.items()):
        lines.append("KNOWN-FINDING: property=%s %s: %s (%d generated cases hit it in this run)" % (pid, kid, k["what"], n))
    replay_path = None
    if new_viols:
        replay_path = os.path.join(V, "replays", "%s-%d-%s.json" % (pid, seed, tier))
        # a smaller input with the same kind of failure, found by the harness (bounded search; the full cases stay)
        minimized = None
        try:
            sdir = os.path.join(rundir, "shrink")
            os.makedirs(sdir, exist_ok=True)
            json.dump({"cases": [new_viols[0]["case"]]}, open(os.path.join(sdir, "one.json"), "w"))
            rc_s, _ = run([os.path.join(BUILD, "harness"), "-prop", pid, "-tier", tier, "-seed", str(seed), "-out", sdir,
                           "-replay", os.path.join(sdir, "one.json"), "-shrink"], timeout=120)
            sv = json.load(open(os.path.join(sdir, "stats.json"))).get("violations") or []
            if sv and sv[0].get("minimized_case"):
                minimized = {"case": sv[0]["minimized_case"], "what": sv[0].get("minimized_what"),
                             "oracle_evaluations": sv[0].get("minimization_evaluations")}
        except Exception:
            minimized = None
        json.dump({"property": pid, "seed": seed, "tier": tier, "kind": "failing-input", "minimized": minimized,
                   "what": new_viols[0]["what"], "cases": [v["case"] for v in new_viols[:20]],
                   "violations": new_viols[:20], "broken_ties": [b[1] for b in broken],
                   "replay_cmd": "./check %s --replay <this file>" % pid}, open(replay_path, "w"), indent=1)
        lines.append("VIOLATION property=%s replay=%s" % (pid, replay_path))
        status = 1
    elif broken:
        replay_path = os.path.join(V, "replays", "%s-%d-%s-tie.json" % (pid, seed, tier))
        json.dump({"property": pid, "seed": seed, "tier": tier, "kind": "tie-broken",
                   "no_longer_checks": [{"kind": b[0], "what": b[1]} for b in broken],
                   "cases": [m["case"] for m in mismatches], "mismatches": mismatches,
                   "searched": "the implementation-side oracle ran on all %d generated cases of this run without a failing input" % stats.get("evaluations", 0),
                   "replay_cmd": "./check %s --replay <this file>" % pid}, open(replay_path, "w"), indent=1)
        lines.append("VIOLATION property=%s replay=%s no-failing-input-found" % (pid, replay_path))
        status = 1

    wall = time.time() - t0
    obligations = len(th)
    discharged = min(closed + sum(1 for _ in []), obligations) if proofs_ok else 0
    samples = stats.get("samples") or []
    theorem_samples = ["theorem " + t for t in th[:40]]
    ev = {
        "property_id": pid, "tier": tier, "seed": seed, "level": "proof",
        "coverage": {
            "obligations": obligations, "discharged": discharged,
            "checker_cmd": "coqc 8.16.1 via `make %so` in /verif/coq (full .vo build) + `coqc %s` for Print Assumptions%s" % (
                P["props_file"], P["props_file"], "; coqchk -silent -o in the thorough tier" if tier == "thorough" else ""),
            "trusted_base": COMMON_TRUSTED + P.get("trusted", []),
            "theorems": th, "axioms_reported": axioms,
            "print_assumptions_closed": closed,
            "evaluations": stats.get("evaluations", 0),
            "distinct_nontrivial": stats.get("distinct_nontrivial", 0),
            "rule": P["rule"],
            "samples": (samples + theorem_samples) or ["none"],
            "traces_validated_against_impl": compared,
            "correspondence_mismatches": len(mismatches),
            "case_kinds": stats.get("kinds", {}),
            "observation_classes": stats.get("observation_classes", {}),
            "exhaustive_sweeps": stats.get("exhaustive_sweeps") or [],
            "exhaustive": False,
            "oracle_violations": len(viols), "known_finding_hits": {k: n for k, (_, n) in known_hits.items()},
            "broken_ties": [b[1] for b in broken],
            "translator_skipped_functions": skipped,
            "harness_notes": stats.get("notes") or [],
            "explanation": P["explanation"],
        },
        "assumptions": P.get("assumptions", []),
        "wall_s": round(wall, 2),
        "violations": len(new_viols) + (1 if (broken and not new_viols) else 0),
    }
    if tier == "thorough" and proofs_ok and not replay:
        # independent re-check of the compiled property file and everything it depends on; its running time grows with
        # the dependency cone (minutes to the better part of an hour), so it has its own limit and running out of time
        # is reported as such, not as a rejection
        limit = int(os.environ.get("VERIF_COQCHK_TIMEOUT", "5400"))
        mod = "Astits." + P["props_file"].replace("/", ".").replace(".v", "")
        t1 = time.time()
        rc, out, shared = coqchk_all(limit)
        if rc != 0:
            # no shared result (other property files not built, stale, or out of time): this property's own cone
            rc, out = run(["coqchk", "-silent", "-o", "-R", ".", "Astits", mod], cwd=COQ, timeout=limit)
            shared = None
        tail = out.strip().split("\n")[-15:]
        if rc == 124 and out.rstrip().endswith("TIMEOUT"):
            ev["coverage"]["coqchk"] = {"exit": "not finished within %d s (VERIF_COQCHK_TIMEOUT)" % limit, "output_tail": tail}
            lines.append("NOTE coqchk on %s did not finish within %d s; the proofs were checked by coqc only" % (mod, limit))
        else:
            ev["coverage"]["coqchk"] = {"exit": rc, "seconds": round(time.time() - t1), "output_tail": tail}
            if shared:
                ev["coverage"]["coqchk"]["shared_run"] = shared
            if rc:
                rp = os.path.join(V, "replays", "%s-coqchk.json" % pid)
                json.dump({"property": pid, "kind": "tie-broken",
                           "no_longer_checks": [{"kind": "coqchk", "what": "coqchk rejects " + mod + ": " + " | ".join(tail[-5:])}],
                           "replay_cmd": "cd coq && coqchk -silent -o -R . Astits " + mod}, open(rp, "w"), indent=1)
                lines.append("VIOLATION property=%s replay=%s no-failing-input-found" % (pid, rp))
                status = 1
    if not replay:
        json.dump(ev, open(os.path.join(V, "evidence", pid + ".json"), "w"), indent=1)
    print("%s tier=%s seed=%d: %d/%d theorems closed, %d cases, %d compared with the model, %d mismatches, %d oracle violations (%d known), %.1fs" % (
        pid, tier, seed, discharged, obligations, stats.get("evaluations", 0), compared, len(mismatches), len(viols), len(viols) - len(new_viols), wall))
    for b in broken:
        print("BROKEN %s: %s" % b)
    for v in new_viols[:5]:
        print("FAILING-INPUT %s: %s" % (v["what"], v["case"][:300]))
    for l in lines:
        print(l)
    return status


if __name__ == "__main__":
    sys.exit(main())
