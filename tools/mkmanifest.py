#!/usr/bin/env python3
"""Regenerates MANIFEST.json from tools/props.py (claimed checks) and properties.jsonl (everything else)."""
import json, os, subprocess, sys
V = os.path.dirname(os.path.dirname(os.path.abspath(__file__)))
sys.path.insert(0, os.path.join(V, "tools"))
from props import PROPS, COMMON_TRUSTED, NOT_APPLICABLE
ids = [json.loads(l)["id"] for l in open(os.path.join(V, "properties.jsonl"))]
hooks = subprocess.run(["git", "-C", "/repo", "log", "--format=%H %s"], capture_output=True, text=True).stdout.split("\n")
hook_commits = [l.split(" ")[0] for l in hooks if l and "verif hooks" in l]
m = {
 "version": 1,
 "setup_cmd": "./setup.sh",
 "hooks": {"guard": "verif", "enable": "go build -tags verif (the only guarded file is /repo/verif_hooks.go, //go:build verif)",
           "baseline_off_cmd": "cd /repo && go test -json -vet=off -count=1 -timeout 25m ./...",
           "source_commits": hook_commits, "add_only": True},
 "engines": [{"name": "coq-proof+correspondence", "path": "/verif/check", "serves_properties": sorted(PROPS),
              "kind_free_text": "Coq 8.16 theorems over a model that is partly regenerated from /repo by a translator (go/gen) and partly hand-written and run, extracted to OCaml, against the implementation on generated cases (go/harness); implementation-side oracles search for a failing input"}],
 "checks": [],
 "notes": "See DESIGN.md. Every check rebuilds the translator output, the affected proofs, the extracted model and the Go harness from /repo's working tree. known_findings.json lists recorded and repaired defects.",
 "not_applicable": [],
}
for pid in ids:
    if pid in PROPS:
        P = PROPS[pid]
        m["checks"].append({
            "property_id": pid,
            "quick_cmd": "./check %s --tier quick" % pid,
            "thorough_cmd": "./check %s --tier thorough" % pid,
            "evidence_file": "/verif/evidence/%s.json" % pid,
            "replay_cmd_template": "./check %s --replay {path}" % pid,
            "engine": "coq-proof+correspondence",
            "level_claimed": {"category": "proof", "text": P["level_text"], "design_ref": "DESIGN.md section 5, " + pid},
            "level_note": P["level_note"],
            "technique": P["technique"],
        })
    else:
        m["not_applicable"].append({"property_id": pid, "reason": NOT_APPLICABLE.get(pid, "check not built yet (work in progress; DESIGN.md section 9 gives the order)")})
json.dump(m, open(os.path.join(V, "MANIFEST.json"), "w"), indent=1)
print("claimed:", sorted(PROPS), "not claimed:", [x["property_id"] for x in m["not_applicable"]])
