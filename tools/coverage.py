#!/usr/bin/env python3
"""Lists every function of /repo's non-test sources and whether a definition regenerated from it exists in coq/Gen/*.v
(run after the translator: ./setup.sh or any ./check)."""
import os, re, sys, glob, json
V = os.path.dirname(os.path.dirname(os.path.abspath(__file__)))
REPO = os.environ.get("VERIF_REPO", "/repo")
gen = {}
for f in glob.glob(os.path.join(V, "coq", "Gen", "*.v")):
    txt = open(f).read()
    for m in re.finditer(r"^\s*(?:Definition|Fixpoint)\s+([A-Za-z0-9_']+)", txt, re.M):
        gen.setdefault(m.group(1), os.path.basename(f))
    # a function returning a closure over the Muxer / Demuxer is a constructor of the inductive MuxerOpt / DemuxerOpt
    for m in re.finditer(r"^\|[ \t]+([A-Za-z0-9_']+)[ \t]+\([^=>\n]*\)[ \t]*\.?[ \t]*$", txt, re.M):
        gen.setdefault(m.group(1), os.path.basename(f))
    for m in re.finditer(r"NOT TRANSLATED[^:]*:\s*([A-Za-z0-9_.]+)", txt):
        gen.setdefault("!" + m.group(1), os.path.basename(f))
out = {}
for f in sorted(glob.glob(os.path.join(REPO, "*.go"))):
    b = os.path.basename(f)
    if b.endswith("_test.go") or b.startswith("verif_"):
        continue
    for m in re.finditer(r"^func\s+(?:\(\s*\w+\s+\*?(\w+)\s*\)\s*)?(\w+)\s*\(", open(f).read(), re.M):
        recv, name = m.group(1), m.group(2)
        cands = [name, (recv or "") + "_" + name, "Muxer_" + name, "Demuxer_" + name]
        where = next((gen[c] for c in cands if c in gen), None)
        if where is None:  # split into several definitions (loops, a prefix and a rest)
            where = next((w for g, w in gen.items() for c in cands[1:] if c and g.startswith(c + "_")), None)
        out.setdefault(b, []).append(((recv + "." if recv else "") + name, where))
tot = reg = 0
for b, fs in out.items():
    r = [n for n, w in fs if w]
    h = [n for n, w in fs if not w]
    tot += len(fs); reg += len(r)
    print("%-22s regenerated %2d/%2d%s" % (b, len(r), len(fs), ("; not regenerated: " + ", ".join(h)) if h else ""))
print("total: %d of %d functions regenerated into coq/Gen" % (reg, tot))
