"""Per-property configuration of the check driver (tools/check.py): one JSON file per property in tools/props.d/."""
import json, os

COMMON_TRUSTED = [
    "Coq 8.16.1 kernel (coqc; vm_compute is used, native_compute is not)",
    "translator go/gen (Go AST -> coq/Gen/*.v: constants, struct records, CRC table, straight-line functions)",
    "extraction: Require Extraction + ExtrOcamlBasic only (Extract Inductive bool/option/unit/list/prod/sumbool/sumor as in that file); no Extract Constant; Z/positive/N/nat stay Coq data types; OCaml 4.13.1",
    "correspondence harness: go/harness generators and canonical printers, verif-tagged hook file in /repo (add-only wrappers), ocaml/driver.ml, line diff",
]

_D = os.path.join(os.path.dirname(os.path.abspath(__file__)), "props.d")
PROPS = {}
for _f in sorted(os.listdir(_D)):
    if _f.endswith(".json"):
        PROPS[_f[:-5]] = json.load(open(os.path.join(_D, _f)))

NOT_APPLICABLE = {}
