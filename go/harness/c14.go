package main

import (
	"fmt"

	astits "github.com/asticode/go-astits"
)

// C14: case forms (see coq/Extract/RunC14.v)
//
//	(1 bytes offset expect mustOK)  parseDescriptors with the iterator at offset. expect and mustOK are read by the
//	                                oracle only: expect is a list with one entry per descriptor of the loop, () = no
//	                                expectation, (d) = the value whose reference encoding sits at that position;
//	                                mustOK = 1 when the whole input is a reference encoding (parsing must succeed)
//	(2 descriptors)                 writeDescriptorsWithLength
//	(3 descriptors)                 calcDescriptorLength of each, calcDescriptorsLength
//	(4 descriptors)                 writeDescriptors
//	(5 descriptor)                  writeDescriptor
type c14 struct{}

func init() { props["C14"] = c14{} }

func (c14) Num() int { return 14 }

func c14DescsTok(ds []*astits.Descriptor) Tok {
	items := make([]Tok, 0, len(ds))
	for _, d := range ds {
		items = append(items, ToTok(*d))
	}
	return L(items...)
}

func c14ExpectAll(ds []*astits.Descriptor) Tok {
	items := make([]Tok, 0, len(ds))
	for _, d := range ds {
		items = append(items, L(ToTok(*d)))
	}
	return L(items...)
}

func c14ParseCase(in []byte, off int, expect Tok, mustOK bool) Tok {
	return L(I(1), B(in), I(int64(off)), expect, Bool(mustOK))
}

// c14Framed puts a loop between random bytes and returns the buffer and the loop's offset
func c14Framed(r *Rng, loop []byte) ([]byte, int) {
	pre := 0
	if r.Chance(1, 3) {
		pre = r.Range(1, 9)
	}
	post := 0
	if r.Bool() {
		post = r.Range(1, 9)
	}
	b := append(r.Bytes(pre), loop...)
	b = append(b, r.Bytes(post)...)
	return b, pre
}

func c14WithLen(body []byte) []byte {
	w := &bw{}
	w.put(4, 0xf)
	w.put(12, uint64(len(body)))
	w.bytes(body)
	return w.b
}

func (c14) Gen(r *Rng, tier string, emit func(string, Tok)) {
	scale := 1
	if tier == "thorough" {
		scale = 10
	}
	// 1. every tag on its own: reference encoding parsed; value written (struct Length correct / 0 / wrong); lengths
	for _, sel := range c14Selectors {
		for k := 0; k < 40*scale; k++ {
			d := c14GenDesc(r, sel)
			name := c14Name(d.Tag)
			ds := []*astits.Descriptor{d}
			loop, _ := c14RefLoop(ds, true)
			in, off := c14Framed(r, loop)
			emit("tag-parse:"+name, c14ParseCase(in, off, c14ExpectAll(ds), true))
			emit("tag-write:"+name, L(I(2), c14DescsTok(ds)))
			if k%2 == 0 {
				emit("tag-calc", L(I(3), c14DescsTok(ds)))
			}
			if k%4 == 1 {
				emit("tag-write1", L(I(5), ToTok(*d)))
			}
		}
	}
	// 2. loops of 0..n descriptors of mixed tags
	for k := 0; k < 300*scale; k++ {
		maxN := 12
		if k%10 == 0 {
			maxN = 60
		}
		if k%50 == 1 {
			maxN = 0
		}
		ds := c14GenLoop(r, maxN, 4095)
		loop, _ := c14RefLoop(ds, true)
		in, off := c14Framed(r, loop)
		emit("loop-parse", c14ParseCase(in, off, c14ExpectAll(ds), true))
		emit("loop-write", L(I(2), c14DescsTok(ds)))
		if k%2 == 0 {
			emit("loop-calc", L(I(3), c14DescsTok(ds)))
		}
		if k%3 == 0 {
			emit("loop-write-nolen", L(I(4), c14DescsTok(ds)))
		}
	}
	// 3. a descriptor with an arbitrary declared length between two well-formed ones: the TLV tiling is intact, so
	//    whatever the middle body is taken for, the neighbours must be decoded as themselves
	for k := 0; k < 700*scale; k++ {
		a := c14GenDesc(r, c14Selectors[r.Intn(len(c14Selectors))])
		b := c14GenDesc(r, c14Selectors[r.Intn(len(c14Selectors))])
		x := c14GenDesc(r, c14Selectors[r.Intn(len(c14Selectors))])
		xb := c14RefBody(x)
		var body []byte
		switch r.Intn(6) {
		case 0: // shorter than the tag implies: a prefix of a valid body
			body = xb[:r.Intn(len(xb)+1)]
		case 1: // one byte short
			if len(xb) > 0 {
				body = xb[:len(xb)-1]
			}
		case 2: // longer: valid body and extra bytes
			body = append([]byte{}, xb...)
			if extra := 255 - len(xb); extra > 0 {
				body = append(body, r.Bytes(1+c14SizeIn(r, extra-1))...)
			}
		case 3: // random bytes
			body = r.Bytes(c14SizeIn(r, 255))
		case 4: // valid body, one byte changed
			body = append([]byte{}, xb...)
			if len(body) > 0 {
				body[r.Intn(len(body))] ^= byte(1 << uint(r.Intn(8)))
			}
		default: // inner length fields pointing beyond the declared end
			body = append([]byte{}, xb...)
			for j := range body {
				if r.Chance(1, 6) {
					body[j] = 0xff
				}
			}
		}
		if len(body) > 255 {
			body = body[:255]
		}
		la, _ := c14RefLoop([]*astits.Descriptor{a}, false)
		lb, _ := c14RefLoop([]*astits.Descriptor{b}, false)
		mid := append([]byte{x.Tag, byte(len(body))}, body...)
		all := append(append(append([]byte{}, la...), mid...), lb...)
		if len(all) > 4095 {
			continue
		}
		in, off := c14Framed(r, c14WithLen(all))
		emit("sandwich:"+c14Name(x.Tag), c14ParseCase(in, off, L(L(ToTok(*a)), L(), L(ToTok(*b))), false))
	}
	// 4. every tag with every small declared length (and 255) over random bytes, followed by a sentinel
	sentinel := &astits.Descriptor{Tag: 0x52, StreamIdentifier: &astits.DescriptorStreamIdentifier{ComponentTag: 0xa5}}
	ls, _ := c14RefLoop([]*astits.Descriptor{sentinel}, false)
	tags := append([]uint8{0x00, 0x80, 0xfe, 0xff, 0x7e}, c14TypedTags...)
	for _, tag := range tags {
		for _, l := range []int{0, 1, 2, 3, 4, 5, 6, 7, 8, 9, 12, 13, 14, 16, 26, 255} {
			for rep := 0; rep < scale; rep++ {
				body := r.Bytes(l)
				if tag == 0x7f && l > 0 && r.Bool() {
					body[0] = 0x06
				}
				all := append(append([]byte{tag, byte(l)}, body...), ls...)
				in, off := c14Framed(r, c14WithLen(all))
				emit("declared-length", c14ParseCase(in, off, L(L(), L(ToTok(*sentinel))), false))
			}
		}
	}
	// 5. malformed streams: a length byte or the loop length changed without moving anything, truncation, random bytes,
	//    offsets outside the buffer
	for k := 0; k < 600*scale; k++ {
		ds := c14GenLoop(r, 6, 600)
		loop, _ := c14RefLoop(ds, true)
		in := append([]byte{}, loop...)
		off := 0
		switch r.Intn(8) {
		case 0: // loop length changed
			v := r.Intn(4096)
			if r.Bool() {
				v = len(loop) - 2 + r.Range(-3, 3)
				if v < 0 {
					v = 0
				}
			}
			in[0], in[1] = 0xf0|byte(v>>8), byte(v)
			if r.Bool() {
				in = append(in, r.Bytes(r.Intn(40))...)
			}
		case 1: // one descriptor's length byte changed
			pos := 2
			for _, d := range ds {
				if r.Chance(1, 3) {
					break
				}
				pos += 2 + len(c14RefBody(d))
			}
			if pos+1 < len(in) {
				in[pos+1] = byte(int(in[pos+1]) + r.Range(-3, 3))
				if r.Chance(1, 4) {
					in[pos+1] = c14U8(r)
				}
			}
			if r.Bool() {
				in = append(in, r.Bytes(r.Intn(300))...)
			}
		case 2: // truncated buffer
			in = in[:r.Intn(len(in)+1)]
		case 3: // random bytes behind a plausible loop length
			n := r.Intn(60)
			in = append([]byte{0xf0 | byte(r.Intn(2)), byte(r.Intn(80))}, r.Bytes(n)...)
		case 4: // random bytes with known tags sprinkled in
			n := r.Range(2, 80)
			in = r.Bytes(n)
			in[0] &= 0xf0
			for j := 2; j+1 < n; j += r.Range(2, 9) {
				in[j] = c14TypedTags[r.Intn(len(c14TypedTags))]
				in[j+1] = byte(r.Intn(12))
			}
		case 5: // offsets at and beyond the ends of the buffer
			off = []int{-1, -2, len(in), len(in) - 1, len(in) + 1, len(in) + 5}[r.Intn(6)]
		case 6: // a few bit flips anywhere
			for j, n := 0, r.Range(1, 4); j < n && len(in) > 0; j++ {
				in[r.Intn(len(in))] ^= byte(1 << uint(r.Intn(8)))
			}
			in = append(in, r.Bytes(r.Intn(20))...)
		default: // reserved bits of the loop length are ignored
			in[0] = in[0]&0x0f | byte(r.Intn(16))<<4
		}
		emit("malformed", c14ParseCase(in, off, L(), false))
	}
	// 6. truncation at every offset of small loops
	for k := 0; k < 8*scale; k++ {
		ds := c14GenLoop(r, 4, 48)
		loop, _ := c14RefLoop(ds, true)
		for n := 0; n <= len(loop); n++ {
			emit("truncated", c14ParseCase(loop[:n], 0, L(), false))
		}
	}
	// 7. writer outside the round-trip domain: uint8 wrap, nil behind a tag, foreign bodies, odd language codes
	for k := 0; k < 500*scale; k++ {
		var ds []*astits.Descriptor
		for j, n := 0, r.Range(1, 3); j < n; j++ {
			if r.Chance(1, 4) {
				ds = append(ds, c14GenDesc(r, c14Selectors[r.Intn(len(c14Selectors))]))
			} else {
				ds = append(ds, c14GenOutOfDomain(r))
			}
		}
		emit("write-any", L(I(2), c14DescsTok(ds)))
		if k%2 == 0 {
			emit("calc-any", L(I(3), c14DescsTok(ds)))
		}
		if k%5 == 0 {
			emit("write-any-nolen", L(I(4), c14DescsTok(ds)))
		}
	}
	// 8. loops around and beyond the 12-bit limit
	for k := 0; k < 12*scale; k++ {
		var ds []*astits.Descriptor
		total := 0
		target := []int{4000, 4093, 4095, 4096, 4097, 4200, 8200}[r.Intn(7)]
		for total < target {
			n := 255
			if target-total-2 < n {
				n = target - total - 2
			}
			if n < 0 {
				n = 0
			}
			ds = append(ds, &astits.Descriptor{Tag: 0x90, UserDefined: r.Bytes(n)})
			total += 2 + n
		}
		emit("loop-4095", L(I(2), c14DescsTok(ds)))
		emit("loop-4095", L(I(3), c14DescsTok(ds)))
		loop, _ := c14RefLoop(ds, true)
		emit("loop-4095", c14ParseCase(loop, 0, L(), false))
	}
	// 9. local time offset: the date/time words through Model/Dvb.v (every MJD word in the thorough tier) and every
	//    value of the BCD bytes
	step := 131
	if tier == "thorough" {
		step = 1
		sweep("local time offset: all 65536 MJD words; all 256 values of every BCD byte")
	} else {
		sweep("local time offset: all 256 values of every BCD byte")
	}
	lto := func(mjd int, v byte) []byte {
		return c14WithLen([]byte{0x58, 13, 'F', 'R', 'A', 0x03, v, v, byte(mjd >> 8), byte(mjd), v, v, v, v, v})
	}
	for mjd := 0; mjd < 65536; mjd += step {
		emit("lto-mjd", c14ParseCase(lto(mjd, 0x12), 0, L(), false))
	}
	for _, mjd := range []int{0, 1, 15078, 15079, 15080, 40587, 65535, 65534, 15079 + 59, 15079 + 60, 15079 + 366, 51544, 51603, 51604} {
		emit("lto-mjd", c14ParseCase(lto(mjd, 0x59), 0, L(), false))
	}
	for v := 0; v < 256; v++ {
		emit("lto-bcd", c14ParseCase(lto(0xc079, byte(v)), 0, L(), false))
	}
	// written dates: every day boundary kind
	for k := 0; k < 150*scale; k++ {
		d := c14GenDesc(r, 0x58)
		emit("lto-write", L(I(2), c14DescsTok([]*astits.Descriptor{d})))
	}
}

func c14RunWrite(f func(s *sinkWriter) (int, error)) Tok {
	return guard(func() Tok {
		s := &sinkWriter{failAt: -1}
		n, err := f(s)
		return resOf(func() Tok { return L(B(s.accepted), I(int64(n))) }, err)
	})
}

func c14DescsFrom(t Tok) []*astits.Descriptor {
	var ds []*astits.Descriptor
	FromTok(t, &ds)
	return ds
}

func (c14) Run(c Tok) Tok {
	switch c.At(0).Int() {
	case 1:
		return guard(func() Tok {
			ds, off, err := astits.VerifParseDescriptorsAt(c.At(1).Bytes(), int(c.At(2).Int()))
			return resOf(func() Tok { return L(c14DescsTok(ds), I(int64(off))) }, err)
		})
	case 2:
		ds := c14DescsFrom(c.At(1))
		return c14RunWrite(func(s *sinkWriter) (int, error) { return astits.VerifWriteDescriptorsWithLength(s, ds) })
	case 3:
		return guard(func() Tok {
			ds := c14DescsFrom(c.At(1))
			lens := make([]Tok, 0, len(ds))
			for _, d := range ds {
				lens = append(lens, I(int64(astits.VerifCalcDescriptorLength(d))))
			}
			return L(L(lens...), I(int64(astits.VerifCalcDescriptorsLength(ds))))
		})
	case 4:
		ds := c14DescsFrom(c.At(1))
		return c14RunWrite(func(s *sinkWriter) (int, error) { return astits.VerifWriteDescriptors(s, ds) })
	case 5:
		var d astits.Descriptor
		FromTok(c.At(1), &d)
		return c14RunWrite(func(s *sinkWriter) (int, error) { return astits.VerifWriteDescriptor(s, &d) })
	}
	return L()
}

// c14TlvWalk splits a loop independently of the library: the 12-bit length at off, then tag/length pairs; each entry
// ends at its declared length whether or not the buffer holds that many bytes. ok is false when the loop length or
// a tag/length pair does not lie inside the buffer.
type c14Tlv struct {
	pos      int
	tag, len uint8
}

func c14TlvWalk(in []byte, off int) (entries []c14Tlv, end int, ok bool) {
	if off < 0 || off+2 > len(in) {
		return nil, 0, false
	}
	l := int(in[off]&0x0f)<<8 | int(in[off+1])
	pos := off + 2
	stop := pos + l
	for pos < stop {
		if pos+2 > len(in) {
			return entries, pos, false
		}
		entries = append(entries, c14Tlv{pos, in[pos], in[pos+1]})
		pos += 2 + int(in[pos+1])
	}
	return entries, pos, true
}

// c14CheckFraming: out must be tag/length/body entries, one per descriptor, that tile it exactly
func c14CheckFraming(out []byte, ds []*astits.Descriptor) string {
	pos := 0
	for k, d := range ds {
		if pos+2 > len(out) {
			return fmt.Sprintf("output ends inside descriptor %d of %d (%d bytes)", k, len(ds), len(out))
		}
		if out[pos] != d.Tag {
			return fmt.Sprintf("entry %d at byte %d carries tag %#x, descriptor has %#x: a length byte differs from the bytes emitted", k, pos, out[pos], d.Tag)
		}
		want := c14RefBodyOrEmpty(d)
		if int(out[pos+1]) != len(want) {
			return fmt.Sprintf("descriptor %d (tag %#x, struct Length %d): length byte %d, body is %d bytes", k, d.Tag, d.Length, out[pos+1], len(want))
		}
		pos += 2 + int(out[pos+1])
	}
	if pos != len(out) {
		return fmt.Sprintf("length bytes account for %d bytes, %d were emitted", pos, len(out))
	}
	return ""
}

func (c14) Oracle(c Tok, obs Tok) string {
	switch c.At(0).Int() {
	case 1:
		in, off := c.At(1).Bytes(), int(c.At(2).Int())
		expect, mustOK := c.At(3), c.At(4).Int() == 1
		entries, end, ok := c14TlvWalk(in, off)
		if obs.At(0).Int() != 0 {
			if mustOK {
				return "parseDescriptors rejects the reference encoding of a well-formed loop: " + obs.String()
			}
			return ""
		}
		if !ok {
			return "parseDescriptors succeeds although the loop length or a tag/length pair lies outside the buffer"
		}
		got := obs.At(1).At(0)
		if len(got.L) != len(entries) {
			return fmt.Sprintf("loop holds %d tag/length entries, %d descriptors returned", len(entries), len(got.L))
		}
		for k, e := range entries {
			var d astits.Descriptor
			FromTok(got.L[k], &d)
			if d.Tag != e.tag || d.Length != e.len {
				return fmt.Sprintf("descriptor %d: returned tag %#x length %d, entry at byte %d has tag %#x length %d (a body shifted what follows)", k, d.Tag, d.Length, e.pos, e.tag, e.len)
			}
		}
		if int(obs.At(1).At(1).Int()) != end {
			return fmt.Sprintf("iterator left at %d, the entries end at %d", obs.At(1).At(1).Int(), end)
		}
		if len(expect.L) > 0 && len(expect.L) != len(entries) {
			return fmt.Sprintf("generator expected %d entries, loop has %d", len(expect.L), len(entries))
		}
		for k, e := range expect.L {
			if len(e.L) == 0 {
				continue
			}
			var d astits.Descriptor
			FromTok(e.L[0], &d)
			if !c14WfDesc(&d) || !c14OnlyBody(&d) {
				return fmt.Sprintf("generator bug: expected descriptor %d is outside the domain", k)
			}
			// the bytes at this entry are the reference encoding of d
			rb := c14RefBody(&d)
			p := entries[k].pos
			if entries[k].tag != d.Tag || int(entries[k].len) != len(rb) || p+2+len(rb) > len(in) || !eqBytes(in[p+2:p+2+len(rb)], rb) {
				return fmt.Sprintf("generator bug: entry %d is not the reference encoding of the expected value", k)
			}
			if g, w := got.L[k].String(), ToTok(*c14ExpectParsed(&d)).String(); g != w {
				return fmt.Sprintf("descriptor %d (tag %#x): parse(reference encoding) = %s, value = %s", k, d.Tag, g, w)
			}
		}
	case 2, 4, 5:
		var ds []*astits.Descriptor
		if c.At(0).Int() == 5 {
			var d astits.Descriptor
			FromTok(c.At(1), &d)
			ds = []*astits.Descriptor{&d}
		} else {
			ds = c14DescsFrom(c.At(1))
		}
		withLength := c.At(0).Int() == 2
		ref, fits := c14RefLoop(ds, withLength)
		allWf := true
		for _, d := range ds {
			if c14NilSupplementaryAudio(d) {
				return "" // the one nil dereference of the writers: outside the domain
			}
			// a descriptor without the body of its tag is an empty descriptor; anything else must be encodable
			if c14RefBodyPresent(d) && !c14WfDesc(d) {
				allWf = false
			}
		}
		if !fits {
			return "" // a body over 255 bytes or a loop over 4095: outside "every value that fits"
		}
		if obs.At(0).Int() != 0 {
			if allWf {
				return "writer fails on well-formed descriptors: " + obs.String()
			}
			return ""
		}
		out := obs.At(1).At(0).Bytes()
		if n := int(obs.At(1).At(1).Int()); n != len(out) {
			return fmt.Sprintf("writer reports %d bytes written, emitted %d", n, len(out))
		}
		body := out
		if withLength {
			if len(out) < 2 {
				return "writeDescriptorsWithLength emitted fewer than 2 bytes"
			}
			if l := int(out[0]&0x0f)<<8 | int(out[1]); l != len(out)-2 {
				return fmt.Sprintf("declared loop length %d, %d bytes follow", l, len(out)-2)
			}
			body = out[2:]
		}
		if w := c14CheckFraming(body, ds); w != "" {
			return w
		}
		if allWf && !eqBytes(out, ref) {
			return fmt.Sprintf("output differs from the reference encoding: got %x want %x", out, ref)
		}
	case 3:
		ds := c14DescsFrom(c.At(1))
		_, fits := c14RefLoop(ds, false)
		if !fits {
			return ""
		}
		for _, d := range ds {
			if c14NilSupplementaryAudio(d) {
				return ""
			}
		}
		total := 0
		for k, d := range ds {
			want := len(c14RefBodyOrEmpty(d))
			total += 2 + want
			if got := int(obs.At(0).At(k).Int()); got != want {
				return fmt.Sprintf("calcDescriptorLength of descriptor %d (tag %#x) = %d, its body is %d bytes", k, d.Tag, got, want)
			}
		}
		if total <= 65535 && int(obs.At(1).Int()) != total {
			return fmt.Sprintf("calcDescriptorsLength = %d, the loop is %d bytes", obs.At(1).Int(), total)
		}
	}
	return ""
}

// c14NilSupplementaryAudio: an extension descriptor that announces supplementary audio and carries none
func c14NilSupplementaryAudio(d *astits.Descriptor) bool {
	return d.Tag == 0x7f && d.Extension != nil && d.Extension.Tag == 0x06 && d.Extension.SupplementaryAudio == nil
}

func (c14) Nontrivial(c Tok, obs Tok) bool {
	switch c.At(0).Int() {
	case 3:
		return len(c.At(1).L) > 0
	case 1:
		return obs.At(0).Int() == 0 && len(obs.At(1).At(0).L) > 0
	}
	return obs.At(0).Int() == 0
}
