package main

import (
	"sort"
)

// An independent reference multiplexer written from ISO 13818-1 (shares no code with go-astits).
// It builds transport streams from a random model of units and keeps the model, so that oracles can
// compare what a Demuxer delivers with what the stream carries.

// refCRC32 is the bitwise CRC-32/MPEG-2 of ISO 13818-1 Annex A.
func refCRC32(bs []byte) uint32 { return refCRC(0xffffffff, bs) }

type refProgram struct{ Number, PID uint16 }
type refStream struct {
	Type byte
	PID  uint16
	Desc []byte // raw ES_info descriptor loop bytes
}

// refSection is one PAT or PMT section of the model.
type refSection struct {
	TableID  byte
	Ext      uint16 // transport_stream_id / program_number
	Version  byte
	Programs []refProgram // PAT
	PCRPID   uint16       // PMT
	Streams  []refStream  // PMT
}

func (s *refSection) encode() []byte {
	body := &bw{}
	body.put(16, uint64(s.Ext))
	body.put(2, 3)
	body.put(5, uint64(s.Version))
	body.put(1, 1)
	body.put(8, 0)
	body.put(8, 0)
	if s.TableID == 0 {
		for _, p := range s.Programs {
			body.put(16, uint64(p.Number))
			body.put(3, 7)
			body.put(13, uint64(p.PID))
		}
	} else {
		body.put(3, 7)
		body.put(13, uint64(s.PCRPID))
		body.put(4, 15)
		body.put(12, 0)
		for _, st := range s.Streams {
			body.put(8, uint64(st.Type))
			body.put(3, 7)
			body.put(13, uint64(st.PID))
			body.put(4, 15)
			body.put(12, uint64(len(st.Desc)))
			body.bytes(st.Desc)
		}
	}
	w := &bw{}
	w.put(8, uint64(s.TableID))
	w.put(1, 1)
	w.put(1, 0)
	w.put(2, 3)
	w.put(12, uint64(len(body.b)+4))
	w.bytes(body.b)
	crc := refCRC32(w.b)
	w.put(32, uint64(crc))
	return w.b
}

// refUnit is one PES packet or one PSI unit (pointer_field, filler, sections, optional 0xFF tail).
type refUnit struct {
	PID      uint16
	IsPSI    bool
	Bytes    []byte // the unit's payload bytes, to be cut into TS packet payloads
	MinFirst int    // PSI: the first chunk must reach the first byte of the last section
	// model
	StreamID byte
	PTS      int64 // -1 none
	Data     []byte
	PESLen   int
	Sections []*refSection
	TailFF   bool // PSI: pad the last packet with 0xFF instead of adaptation-field stuffing
	Tiny     bool // one or two payload bytes per packet (a unit of very many packets)
}

// refMuxPESTotal builds a bounded PES unit whose PES_packet_length is exactly total (total >= 16).
func refMuxPESTotal(r *Rng, pid uint16, sid byte, total int) *refUnit {
	u := refMuxPES(r, pid, sid, total, true)
	hl := 3 + int(u.Bytes[8])
	n := total - hl
	u.Data = u.Data[:n]
	u.Bytes = u.Bytes[:6+hl+n]
	u.Bytes[4], u.Bytes[5] = byte(total>>8), byte(total)
	u.PESLen = total
	return u
}

func refMuxPES(r *Rng, pid uint16, sid byte, n int, unbounded bool) *refUnit {
	u := &refUnit{PID: pid, StreamID: sid, PTS: -1}
	u.Data = r.Bytes(n)
	w := &bw{}
	w.put(24, 1)
	w.put(8, uint64(sid))
	hdr := &bw{}
	hdr.put(2, 2)
	hdr.put(6, uint64(r.Intn(64))&0x37) // scrambling(2) priority alignment copyright original
	if r.Chance(1, 8) {
		// PTS and DSM trick mode (one byte the parser decodes into a struct of its own)
		u.PTS = int64(r.Bits(33))
		hdr.put(8, 0x88)
		hdr.put(8, 5+1)
		hdr.put(4, 2)
		hdr.put(3, uint64(u.PTS>>30))
		hdr.put(1, 1)
		hdr.put(15, uint64(u.PTS>>15))
		hdr.put(1, 1)
		hdr.put(15, uint64(u.PTS))
		hdr.put(1, 1)
		hdr.put(8, uint64(r.Intn(256)))
	} else if r.Chance(1, 5) {
		// PTS and a PES extension carrying extension field 2 (bytes the parser hands out as they are)
		u.PTS = int64(r.Bits(33))
		n := r.Range(1, 12)
		hdr.put(8, 0x81)
		hdr.put(8, uint64(5+2+n))
		hdr.put(4, 2)
		hdr.put(3, uint64(u.PTS>>30))
		hdr.put(1, 1)
		hdr.put(15, uint64(u.PTS>>15))
		hdr.put(1, 1)
		hdr.put(15, uint64(u.PTS))
		hdr.put(1, 1)
		hdr.put(8, 0x0f) // no private data / pack header / sequence counter / P-STD, reserved 111, extension flag 2
		hdr.put(8, uint64(0x80|n))
		hdr.bytes(r.Bytes(n))
	} else if r.Bool() {
		u.PTS = int64(r.Bits(33))
		hdr.put(8, 0x80)
		stuff := r.Intn(4)
		hdr.put(8, uint64(5+stuff))
		hdr.put(4, 2)
		hdr.put(3, uint64(u.PTS>>30))
		hdr.put(1, 1)
		hdr.put(15, uint64(u.PTS>>15))
		hdr.put(1, 1)
		hdr.put(15, uint64(u.PTS))
		hdr.put(1, 1)
		for k := 0; k < stuff; k++ {
			hdr.put(8, 0xff)
		}
	} else {
		hdr.put(8, 0)
		stuff := r.Intn(3)
		hdr.put(8, uint64(stuff))
		for k := 0; k < stuff; k++ {
			hdr.put(8, 0xff)
		}
	}
	total := len(hdr.b) + n
	if unbounded || total > 65535 {
		total = 0
	}
	u.PESLen = total
	w.put(16, uint64(total))
	w.bytes(hdr.b)
	w.bytes(u.Data)
	u.Bytes = w.b
	return u
}

func refPSI(r *Rng, pid uint16, secs []*refSection) *refUnit {
	u := &refUnit{PID: pid, IsPSI: true, Sections: secs}
	ptr := 0
	if r.Chance(1, 3) {
		ptr = r.Intn(10)
	}
	b := []byte{byte(ptr)}
	for k := 0; k < ptr; k++ {
		b = append(b, 0xff)
	}
	for k, s := range secs {
		if k == len(secs)-1 {
			u.MinFirst = len(b) + 1
		}
		b = append(b, s.encode()...)
	}
	u.Bytes = b
	u.TailFF = r.Bool()
	return u
}

// refPacket is one TS packet of the reference stream.
type refPacket struct {
	PID      uint16
	PUSI     bool
	CC       byte
	Payload  []byte // nil = adaptation field only
	AFLen    int    // -1 none, else adaptation_field_length
	TEI      bool
	Disc     bool
	PCR      bool // the adaptation field (length >= 7) carries a PCR
	UnitIdx  int  // index of the unit this packet belongs to (per PID), -1 for filler
	LastOfUn bool
}

func (p *refPacket) encode() []byte {
	b := make([]byte, 0, 188)
	b0 := byte(p.PID >> 8)
	if p.PUSI {
		b0 |= 0x40
	}
	if p.TEI {
		b0 |= 0x80
	}
	afc := byte(0)
	if p.Payload != nil {
		afc |= 1
	}
	if p.AFLen >= 0 {
		afc |= 2
	}
	b = append(b, 0x47, b0, byte(p.PID), afc<<4|p.CC&15)
	if p.AFLen >= 0 {
		b = append(b, byte(p.AFLen))
		if p.AFLen > 0 {
			fl := byte(0)
			if p.Disc {
				fl |= 0x80
			}
			k := 1
			if p.PCR && p.AFLen >= 7 {
				fl |= 0x10
			}
			b = append(b, fl)
			if p.PCR && p.AFLen >= 7 {
				// program_clock_reference_base(33) reserved(6) extension(9), a value derived from PID and counter
				base := uint64(p.PID)<<16 | uint64(p.CC)<<8 | 0x55
				ext := uint64(p.CC) * 17
				v := base<<15 | 0x3f<<9 | ext
				b = append(b, byte(v>>40), byte(v>>32), byte(v>>24), byte(v>>16), byte(v>>8), byte(v))
				k += 6
			}
			for ; k < p.AFLen; k++ {
				b = append(b, 0xff)
			}
		}
	}
	b = append(b, p.Payload...)
	for len(b) < 188 {
		b = append(b, 0xff)
	}
	return b
}

// packetiseUnit cuts one unit into packets with arbitrary split points and adaptation-field stuffing.
func packetiseUnit(r *Rng, u *refUnit, idx int, cc *byte, smallChunks bool) []*refPacket {
	var out []*refPacket
	rest := u.Bytes
	first := true
	for len(rest) > 0 {
		max := 184
		n := max
		min := 1
		if first && u.IsPSI {
			min = u.MinFirst
		}
		if min > max {
			min = max
		}
		switch {
		case u.Tiny:
			n = r.Range(1, 2)
		case smallChunks || r.Chance(1, 4):
			n = r.Range(min, max)
			if r.Chance(1, 4) {
				n = min
			}
		case r.Chance(1, 8):
			n = max - 1 // one byte free: the one-byte adaptation field
		case r.Chance(1, 8):
			n = max - 2
		}
		if n > len(rest) {
			n = len(rest)
		}
		if n < min {
			n = min
			if n > len(rest) {
				n = len(rest)
			}
		}
		last := n == len(rest)
		*cc = (*cc + 1) & 15
		p := &refPacket{PID: u.PID, PUSI: first, CC: *cc, AFLen: -1, UnitIdx: idx, LastOfUn: last}
		chunk := rest[:n]
		free := 184 - n
		if free > 0 {
			if last && u.IsPSI && u.TailFF {
				// 0xFF tail inside the payload
				pl := make([]byte, 0, 184)
				pl = append(pl, chunk...)
				for len(pl) < 184 {
					pl = append(pl, 0xff)
				}
				chunk = pl
			} else {
				p.AFLen = free - 1
				p.PCR = p.AFLen >= 7 && r.Chance(1, 3)
			}
		}
		p.Payload = append([]byte{}, chunk...)
		out = append(out, p)
		rest = rest[n:]
		first = false
	}
	return out
}

// refStreamModel is a generated stream with its model.
type refStreamModel struct {
	Packets []*refPacket
	Units   map[uint16][]*refUnit // per PID, in order
	PIDs    []uint16
	PMTPIDs []uint16
}

func (m *refStreamModel) bytes() []byte {
	b := make([]byte, 0, 188*len(m.Packets))
	for _, p := range m.Packets {
		b = append(b, p.encode()...)
	}
	return b
}

type streamOpts struct {
	PESPIDs     int  // number of PES PIDs
	UnitsPerPID int  // PES units per PID
	MaxPES      int  // max PES payload size
	Tables      bool // PAT + PMT units
	Fillers     bool // null / AF-only / TEI packets in between
	SmallChunks bool
	Repeats     int   // how many times PAT/PMT are repeated
	NearPIDs    bool  // PES PIDs that differ in one bit from each other (and 0x0fff next to null packets)
	PESTotals   []int // first PES PID: bounded units with exactly these PES_packet_length values instead of random ones
	DVBPMTPID   bool  // the PMT PID is one of the PIDs DVB reserves for SI (0x10..0x14, 0x1e, 0x1f): legal in MPEG
	SharedPMT   bool  // the PAT has two sections naming two programs on the same PMT PID
	TwoPMTPIDs  bool  // the PAT has two sections naming two different PMT PIDs; a PMT unit on each
	TypedDescs  bool  // PMT streams carry loops of typed DVB descriptors (reference-encoded, go/harness/c14_ref.go)
	Unbounded   bool  // with PESTotals: unbounded video PES (PES_packet_length 0) with these payload sizes instead
	LongUnit    int   // first PES PID: its first unit is an unbounded PES spread over at least this many packets
}

// genRefStream builds a well-formed stream: PAT first, then PMTs, PES units interleaved.
func genRefStream(r *Rng, o streamOpts) *refStreamModel {
	m := &refStreamModel{Units: map[uint16][]*refUnit{}}
	perPID := map[uint16][][]*refPacket{} // per PID, packets per unit
	cc := map[uint16]*byte{}
	addUnit := func(u *refUnit) {
		if cc[u.PID] == nil {
			c := byte(r.Intn(16))
			cc[u.PID] = &c
			m.PIDs = append(m.PIDs, u.PID)
		}
		idx := len(m.Units[u.PID])
		m.Units[u.PID] = append(m.Units[u.PID], u)
		perPID[u.PID] = append(perPID[u.PID], packetiseUnit(r, u, idx, cc[u.PID], o.SmallChunks))
	}
	pesPIDs := []uint16{}
	for k := 0; k < o.PESPIDs; k++ {
		pid := uint16(0x100 + r.Intn(0x1e00))
		if o.NearPIDs && k > 0 {
			// PIDs that differ from an earlier one in a single bit (a wrong mask on a map key would merge them)
			pid = pesPIDs[r.Intn(len(pesPIDs))] ^ uint16(1<<uint(r.Intn(13)))
			if pid < 0x20 || pid == 0x1fff {
				pid = uint16(0x100 + r.Intn(0x1e00))
			}
		} else if o.NearPIDs {
			pid = []uint16{0x0fff, 0x0100, 0x1100, 0x0101}[r.Intn(4)]
		}
		if pid == 0x1000 || pid == 0x1001 {
			pid = 0x120
		}
		dup := false
		for _, q := range pesPIDs {
			if q == pid {
				dup = true
			}
		}
		if dup {
			pid = uint16(0x50 + k)
		}
		pesPIDs = append(pesPIDs, pid)
	}
	if o.Tables {
		pmtPID := uint16(0x1000)
		if r.Bool() {
			pmtPID = uint16(0x20 + r.Intn(0x40))
		}
		if o.DVBPMTPID {
			pmtPID = []uint16{0x10, 0x11, 0x12, 0x13, 0x14, 0x1e, 0x1f}[r.Intn(7)]
		}
		m.PMTPIDs = []uint16{pmtPID}
		pmtPID2 := uint16(0)
		if o.TwoPMTPIDs {
			pmtPID2 = uint16(0x70 + r.Intn(0x40))
			m.PMTPIDs = append(m.PMTPIDs, pmtPID2)
		}
		for rep := 0; rep < 1+o.Repeats; rep++ {
			pat := &refSection{TableID: 0, Ext: uint16(r.Bits(16)), Version: byte(r.Intn(32)),
				Programs: []refProgram{{Number: uint16(1 + r.Intn(100)), PID: pmtPID}}}
			if r.Bool() {
				pat.Programs = append([]refProgram{{Number: 0, PID: 0x10}}, pat.Programs...)
			}
			secs := []*refSection{pat}
			if pmtPID2 != 0 {
				secs = append(secs, &refSection{TableID: 0, Ext: pat.Ext, Version: pat.Version, Programs: []refProgram{{Number: uint16(300 + r.Intn(100)), PID: pmtPID2}}})
			} else if o.SharedPMT || r.Chance(1, 4) {
				secs = append(secs, &refSection{TableID: 0, Ext: pat.Ext, Version: pat.Version, Programs: []refProgram{{Number: uint16(200 + r.Intn(100)), PID: pmtPID}}})
			}
			addUnit(refPSI(r, 0, secs))
			if pmtPID2 != 0 {
				pmt2 := &refSection{TableID: 2, Ext: secs[1].Programs[0].Number, Version: byte(r.Intn(32))}
				if len(pesPIDs) > 0 {
					pmt2.PCRPID = pesPIDs[len(pesPIDs)-1]
					pmt2.Streams = []refStream{{Type: 0x0f, PID: pesPIDs[len(pesPIDs)-1]}}
				}
				addUnit(refPSI(r, pmtPID2, []*refSection{pmt2}))
			}
			pmt := &refSection{TableID: 2, Ext: pat.Programs[len(pat.Programs)-1].Number, Version: byte(r.Intn(32))}
			for _, pid := range pesPIDs {
				st := refStream{Type: []byte{0x1b, 0x0f, 0x03, 0x06, 0x81}[r.Intn(5)], PID: pid}
				if o.TypedDescs {
					st.Desc, _ = c14RefLoop(c14GenLoop(r, 4, 80), false)
					pmt.Streams = append(pmt.Streams, st)
					continue
				}
				switch r.Intn(4) {
				case 0:
					st.Desc = append([]byte{0x13, byte(2)}, r.Bytes(2)...) // an unknown descriptor tag
				case 1:
					n := r.Range(1, 6)
					st.Desc = append([]byte{byte(0x80 + r.Intn(0x7f)), byte(n)}, r.Bytes(n)...) // a user defined descriptor
				}
				pmt.Streams = append(pmt.Streams, st)
			}
			if len(pesPIDs) > 0 {
				pmt.PCRPID = pesPIDs[0]
			}
			n := 1
			if r.Chance(1, 4) {
				n = 2 + r.Intn(2)
			}
			psecs := []*refSection{}
			for k := 0; k < n; k++ {
				psecs = append(psecs, pmt)
			}
			addUnit(refPSI(r, pmtPID, psecs))
		}
	}
	for _, pid := range pesPIDs {
		sid := []byte{0xe0, 0xc0, 0xbd, 0xe1, 0xfd, 0xbf}[r.Intn(6)]
		if sid == 0xbf {
			sid = 0xc1
		}
		if pid == pesPIDs[0] && len(o.PESTotals) > 0 {
			for _, t := range o.PESTotals {
				if o.Unbounded {
					addUnit(refMuxPES(r, pid, 0xe0, t, true))
				} else {
					addUnit(refMuxPESTotal(r, pid, 0xc0, t))
				}
			}
			continue
		}
		for k := 0; k < o.UnitsPerPID; k++ {
			if pid == pesPIDs[0] && k == 0 && o.LongUnit > 0 {
				u := refMuxPES(r, pid, 0xe0, 2*o.LongUnit, true)
				u.Tiny = true
				addUnit(u)
				continue
			}
			n := r.Range(1, o.MaxPES)
			switch r.Intn(8) {
			case 0:
				n = 184*r.Range(1, 3) - r.Range(0, 30)
				if n < 1 {
					n = 1
				}
			case 1:
				n = r.Range(1, 8)
			}
			addUnit(refMuxPES(r, pid, sid, n, (sid == 0xe0 || sid == 0xe1) && r.Bool()))
		}
	}
	// interleave, preserving per-PID order; the PAT unit precedes every packet of the PMT PID (pat_before_pmt)
	type cursor struct {
		pid  uint16
		u, k int
	}
	cur := map[uint16]*cursor{}
	for _, pid := range m.PIDs {
		cur[pid] = &cursor{pid: pid}
	}
	remaining := func(pid uint16) bool { c := cur[pid]; return c.u < len(perPID[pid]) }
	firstPATDone := func() bool {
		if !o.Tables {
			return true
		}
		c := cur[0]
		return c.u >= 1
	}
	isPMT := func(pid uint16) bool {
		for _, q := range m.PMTPIDs {
			if q == pid {
				return true
			}
		}
		return false
	}
	for {
		var cand []uint16
		for _, pid := range m.PIDs {
			if !remaining(pid) {
				continue
			}
			if isPMT(pid) && !firstPATDone() {
				continue
			}
			cand = append(cand, pid)
		}
		if len(cand) == 0 {
			break
		}
		sort.Slice(cand, func(a, b int) bool { return cand[a] < cand[b] })
		pid := cand[r.Intn(len(cand))]
		c := cur[pid]
		burst := 1
		if r.Chance(1, 3) {
			burst = r.Range(1, 4)
		}
		for ; burst > 0 && remaining(pid); burst-- {
			m.Packets = append(m.Packets, perPID[pid][c.u][c.k])
			c.k++
			if c.k == len(perPID[pid][c.u]) {
				c.u++
				c.k = 0
				if pid == 0 {
					break // let the PMT in after a PAT
				}
			}
		}
		if o.Fillers && r.Chance(1, 5) {
			switch r.Intn(3) {
			case 0:
				m.Packets = append(m.Packets, &refPacket{PID: 0x1fff, CC: byte(r.Intn(16)), Payload: r.Bytes(184), AFLen: -1, UnitIdx: -1})
			case 1:
				// adaptation-field-only packet of a PID in use: counter not incremented
				q := m.PIDs[r.Intn(len(m.PIDs))]
				m.Packets = append(m.Packets, &refPacket{PID: q, CC: *cc[q] & 15, AFLen: 183, UnitIdx: -1, Disc: r.Bool(), PCR: r.Bool()})
				// its counter must equal the last payload packet's already emitted on that PID: recomputed below
			case 2:
				q := m.PIDs[r.Intn(len(m.PIDs))]
				m.Packets = append(m.Packets, &refPacket{PID: q, CC: byte(r.Intn(16)), TEI: true, PUSI: r.Bool(), Payload: r.Bytes(184), AFLen: -1, UnitIdx: -1})
			}
		}
	}
	// AF-only packets repeat the counter of the last payload packet emitted before them on that PID
	last := map[uint16]int{}
	for _, p := range m.Packets {
		if p.UnitIdx >= 0 {
			last[p.PID] = int(p.CC)
		} else if p.Payload == nil && !p.TEI {
			if v, ok := last[p.PID]; ok {
				p.CC = byte(v)
			} else {
				p.TEI = true // no reference yet: make it a packet the pool ignores anyway
			}
		}
	}
	return m
}
