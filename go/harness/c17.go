package main

import (
	"fmt"

	astits "github.com/asticode/go-astits"
)

// C17 — PAT and PMT before the first PES packet, every period-th WriteData since the last automatic emission, and
// before a random access point on the PCR PID; the PMT lists exactly the current streams and PCR PID; versions step
// by one modulo 32 exactly when the content changed; automatic PIDs are fresh and outside the reserved ranges.
// Oracle: walk the writer's bytes, decode PAT/PMT with tsdec.go, check position / content / version against the op log.

func init() { props["C17"] = muxProp{17, genC17, oracleC17} }

func genC17(r *Rng, tier string, emit func(string, Tok)) {
	muxGenAll(r, tier, muxMix{
		random: scale(tier, 120, 600), maxLen: scale(tier, 60, 200),
		wrap: scale(tier, 25, 300), bigPMT: scale(tier, 20, 200), many: scale(tier, 10, 100), readd: scale(tier, 15, 150), ood: scale(tier, 10, 100),
		exhaustive: scale(tier, 4, 5), sweep: scale(tier, 0xf20, 0x2100),
	}, emit)
}

type c17Stream struct {
	pid  uint16
	typ  uint8
	desc []byte
}

type c17Ref struct {
	streams   []c17Stream
	pcr       uint16
	sinceAuto int
	changed   bool
	patV      int
	pmtV      int
	emitted   bool
	autos     map[uint16]bool
	adds      int
}

func (m *c17Ref) has(pid uint16) bool {
	for _, s := range m.streams {
		if s.pid == pid {
			return true
		}
	}
	return false
}

// canGenerate: the PCR PID is one of the streams and the PMT section fits one packet behind its pointer_field.
func (m *c17Ref) canGenerate() bool {
	if !m.has(m.pcr) {
		return false
	}
	n := 3 + 5 + 4 + 4
	for _, s := range m.streams {
		n += 5 + len(s.desc)
	}
	return 1+n <= 184
}

func (m *c17Ref) checkEmission(a, b tsPkt) string {
	pat, pmt, w := checkTablePair(a, b)
	if w != "" {
		return w
	}
	if pat.ext != 0 || !pat.current || pat.secNum != 0 || pat.last != 0 || len(pat.programs) != 1 || pat.programs[0] != [2]uint16{1, 0x1000} {
		return fmt.Sprintf("PAT is not {program 1 -> 0x1000}: tsid %d programs %v", pat.ext, pat.programs)
	}
	if pmt.ext != 1 || !pmt.current || pmt.secNum != 0 || pmt.last != 0 || len(pmt.programInfo) != 0 {
		return fmt.Sprintf("PMT header: program_number %d current %v section %d/%d", pmt.ext, pmt.current, pmt.secNum, pmt.last)
	}
	if pmt.pcrPID != m.pcr&0x1fff {
		return fmt.Sprintf("PMT PCR_PID %#x, current PCR PID %#x", pmt.pcrPID, m.pcr)
	}
	if len(pmt.streams) != len(m.streams) {
		return fmt.Sprintf("PMT lists %d streams, %d are added", len(pmt.streams), len(m.streams))
	}
	for k, s := range m.streams {
		g := pmt.streams[k]
		if g.pid != s.pid&0x1fff || g.typ != s.typ || !eqBytes(g.desc, s.desc) {
			return fmt.Sprintf("PMT stream %d is (type %#x pid %#x desc %x), added was (type %#x pid %#x desc %x)", k, g.typ, g.pid, g.desc, s.typ, s.pid, s.desc)
		}
	}
	if m.emitted {
		if int(pat.version) != m.patV {
			return fmt.Sprintf("PAT version went from %d to %d", m.patV, pat.version)
		}
		want := m.pmtV
		if m.changed {
			want = (m.pmtV + 1) % 32
		}
		if int(pmt.version) != want {
			return fmt.Sprintf("PMT version went from %d to %d (content changed in between: %v)", m.pmtV, pmt.version, m.changed)
		}
	}
	m.patV, m.pmtV, m.emitted, m.changed = int(pat.version), int(pmt.version), true, false
	return ""
}

func oracleC17(period int, ops []muxOp, calls []muxCall) string {
	m := &c17Ref{sinceAuto: period, autos: map[uint16]bool{}}
	for i, o := range ops {
		c := calls[i]
		at := fmt.Sprintf("call %d (%s): ", i, opName(o))
		if c.code == -2 {
			return "" // panics come from arguments outside the domain only (C04 judges that)
		}
		pk, rest := tsPackets(c.bytes)
		if rest != 0 {
			return "" // C04's business
		}
		switch o.kind {
		case opAdd:
			m.adds++
			if c.code != -1 {
				continue
			}
			s := c17Stream{pid: o.es.ElementaryPID, typ: uint8(o.es.StreamType)}
			w := &bw{}
			psiRefEncodeDescriptors(w, o.es.ElementaryStreamDescriptors)
			s.desc = w.b
			if s.pid != 0 {
				if reservedPID(s.pid) {
					return "" // explicit PID outside the domain (S2): the stream shares a PID with the tables
				}
				if m.has(s.pid) {
					return at + fmt.Sprintf("accepted PID %#x although it is in use", s.pid)
				}
			} else {
				if len(c.st.PMTPIDs) == 0 {
					return at + "no stream after a successful addition"
				}
				s.pid = c.st.PMTPIDs[len(c.st.PMTPIDs)-1]
				if m.has(s.pid) {
					return at + fmt.Sprintf("automatic PID %#x is in use", s.pid)
				}
				// the range and freshness clauses hold for fewer than 0x1EFF additions (the PIDs of 0x100..0x1FFE
				// without 0x1000); beyond that nextPID runs into 0x1FFF and wraps
				if m.adds <= 0x1efe {
					if s.pid < 0x100 || s.pid > 0x1ffe || s.pid == 0x1000 {
						return at + fmt.Sprintf("automatic PID %#x is reserved", s.pid)
					}
					if m.autos[s.pid] {
						return at + fmt.Sprintf("automatic PID %#x was assigned before", s.pid)
					}
				}
				m.autos[s.pid] = true
			}
			m.streams = append(m.streams, s)
			m.changed = true
		case opRemove:
			if c.code != -1 {
				if m.has(o.pid) {
					return at + fmt.Sprintf("PID %#x is added but cannot be removed", o.pid)
				}
				continue
			}
			for k, s := range m.streams {
				if s.pid == o.pid {
					m.streams = append(m.streams[:k:k], m.streams[k+1:]...)
					break
				}
			}
			m.changed = true
		case opSetPCR:
			m.pcr = o.pid
			m.changed = true
		case opTables:
			if c.code != -1 {
				if m.canGenerate() {
					return at + fmt.Sprintf("rejected (code %d) although the PCR PID is valid and the PMT fits", c.code)
				}
				continue
			}
			if len(pk) != 2 {
				return at + fmt.Sprintf("%d packets", len(pk))
			}
			if !m.canGenerate() {
				return at + "tables written although the PCR PID is invalid or the PMT does not fit one packet"
			}
			if w := m.checkEmission(pk[0], pk[1]); w != "" {
				return at + w
			}
		case opPacket:
		case opData:
			if !m.has(o.d.PID) {
				if c.code == -1 || len(pk) != 0 {
					return at + fmt.Sprintf("PID %#x is not added: code %d, %d packets", o.d.PID, c.code, len(pk))
				}
				continue
			}
			m.sinceAuto++
			force := o.d.AdaptationField != nil && o.d.AdaptationField.RandomAccessIndicator && o.d.PID == m.pcr
			expect := force || m.sinceAuto >= period
			tables, unit := splitTables(pk, o.d.PID)
			for k, p := range unit {
				if p.pid == 0 || p.pid == 0x1000 {
					return at + fmt.Sprintf("table packet at position %d, not immediately before the unit", k+len(tables))
				}
			}
			if expect && !m.canGenerate() {
				if c.code == -1 || len(pk) != 0 {
					return at + fmt.Sprintf("tables are due but cannot be generated: code %d, %d packets", c.code, len(pk))
				}
				continue
			}
			if expect != (len(tables) == 2) && (c.code == -1 || len(pk) > 0 || expect) {
				return at + fmt.Sprintf("tables emitted: %v, expected: %v (WriteData calls since the last automatic emission %d, period %d, forced %v, code %d)",
					len(tables) == 2, expect, m.sinceAuto, period, force, c.code)
			}
			if len(tables) == 2 {
				if w := m.checkEmission(tables[0], tables[1]); w != "" {
					return at + w
				}
				m.sinceAuto = 0
			}
			if len(unit) > 0 && !m.emitted {
				return at + "PES packets before the first PAT/PMT"
			}
		}
	}
	return ""
}

var _ = astits.StreamTypeH264Video
