package main

import "fmt"

// Independent ISO 13818-1 transport packet / PAT / PMT decoder used by the Muxer oracles (C04, C05, C17).
// Written from the standard (2.4.3.2 transport packet, 2.4.3.4 adaptation field, 2.4.4.3 PAT, 2.4.4.8 PMT);
// shares no code with the library or the Coq model.  refCRC32 (refmux.go) is the bitwise CRC-32/MPEG-2.

type tsPkt struct {
	tei, pusi, prio bool
	pid             uint16
	tsc, afc, cc    uint8
	hasAF           bool
	afLen           int // adaptation_field_length, -1 without adaptation field
	afFlags         byte
	rai             bool
	afStuffing      int
	payload         []byte
	bad             string // why the packet is not decodable; "" when it is
}

func (p *tsPkt) hasPayload() bool { return p.afc&1 != 0 }

// tsDecode decodes one 188-byte packet and checks that header, adaptation field and payload fill it exactly.
func tsDecode(b []byte) (p tsPkt) {
	p.afLen = -1
	if len(b) != 188 {
		p.bad = fmt.Sprintf("packet of %d bytes", len(b))
		return
	}
	if b[0] != 0x47 {
		p.bad = fmt.Sprintf("sync byte %#x", b[0])
		return
	}
	p.tei = b[1]&0x80 != 0
	p.pusi = b[1]&0x40 != 0
	p.prio = b[1]&0x20 != 0
	p.pid = uint16(b[1]&0x1f)<<8 | uint16(b[2])
	p.tsc = b[3] >> 6
	p.afc = b[3] >> 4 & 3
	p.cc = b[3] & 0x0f
	pos := 4
	switch p.afc {
	case 0:
		p.bad = "adaptation_field_control 00 (reserved)"
		return
	case 2, 3:
		p.hasAF = true
		p.afLen = int(b[4])
		if p.afc == 2 && p.afLen != 183 {
			p.bad = fmt.Sprintf("adaptation field only but adaptation_field_length %d != 183", p.afLen)
			return
		}
		if p.afc == 3 && p.afLen > 182 {
			p.bad = fmt.Sprintf("adaptation_field_length %d > 182 with payload", p.afLen)
			return
		}
		pos = 5 + p.afLen
		if p.afLen > 0 {
			p.afFlags = b[5]
			p.rai = b[5]&0x40 != 0
			q, end := 6, 5+p.afLen
			need := func(n int, what string) bool {
				if q+n > end {
					p.bad = fmt.Sprintf("adaptation field: %s does not fit adaptation_field_length %d", what, p.afLen)
					return false
				}
				q += n
				return true
			}
			if b[5]&0x10 != 0 && !need(6, "PCR") {
				return
			}
			if b[5]&0x08 != 0 && !need(6, "OPCR") {
				return
			}
			if b[5]&0x04 != 0 && !need(1, "splice_countdown") {
				return
			}
			if b[5]&0x02 != 0 {
				if !need(1, "transport_private_data_length") {
					return
				}
				if !need(int(b[q-1]), "transport_private_data") {
					return
				}
			}
			if b[5]&0x01 != 0 {
				if !need(1, "adaptation_field_extension_length") {
					return
				}
				el := int(b[q-1])
				es := q
				if !need(el, "adaptation field extension") {
					return
				}
				if el > 0 {
					used := 1
					if b[es]&0x80 != 0 {
						used += 2
					}
					if b[es]&0x40 != 0 {
						used += 3
					}
					if b[es]&0x20 != 0 {
						used += 5
					}
					if used > el {
						p.bad = "adaptation field extension: flagged parts exceed its length"
						return
					}
				}
			}
			for ; q < end; q++ {
				if b[q] != 0xff {
					p.bad = fmt.Sprintf("adaptation field: stuffing byte %#x at offset %d", b[q], q)
					return
				}
				p.afStuffing++
			}
		}
	}
	if p.hasPayload() {
		p.payload = b[pos:]
		if len(p.payload) == 0 {
			p.bad = "payload flagged but no payload byte"
		}
	}
	return
}

// tsPackets splits a byte string into 188-byte packets; rest is what is left over.
func tsPackets(b []byte) (pkts []tsPkt, rest int) {
	for len(b) >= 188 {
		pkts = append(pkts, tsDecode(b[:188]))
		b = b[188:]
	}
	return pkts, len(b)
}

// tsSection is a decoded PAT or PMT section.
type tsSection struct {
	tableID      byte
	ext          uint16 // transport_stream_id / program_number
	version      uint8
	current      bool
	secNum, last uint8
	pcrPID       uint16
	programInfo  []byte
	programs     [][2]uint16 // PAT: program_number, PID
	streams      []tsStream  // PMT
}
type tsStream struct {
	typ  uint8
	pid  uint16
	desc []byte
}

// tsDecodeTable decodes the payload of a PUSI packet on a PSI PID: pointer_field, exactly one section,
// 0xFF stuffing up to the end of the packet.
func tsDecodeTable(payload []byte) (*tsSection, string) {
	if len(payload) < 1 {
		return nil, "no pointer_field"
	}
	p := 1 + int(payload[0])
	if p+3 > len(payload) {
		return nil, "pointer_field points outside the packet"
	}
	b := payload[p:]
	s := &tsSection{tableID: b[0]}
	if b[1]&0x80 == 0 {
		return nil, "section_syntax_indicator 0"
	}
	if b[1]&0x40 != 0 {
		return nil, "'0' bit set"
	}
	l := int(b[1]&0x0f)<<8 | int(b[2])
	if l > 1021 || 3+l > len(b) {
		return nil, fmt.Sprintf("section_length %d does not fit", l)
	}
	if l < 9 {
		return nil, fmt.Sprintf("section_length %d too short", l)
	}
	sec := b[:3+l]
	for _, c := range b[3+l:] {
		if c != 0xff {
			return nil, "bytes after the section are not 0xFF stuffing"
		}
	}
	crc := uint32(sec[len(sec)-4])<<24 | uint32(sec[len(sec)-3])<<16 | uint32(sec[len(sec)-2])<<8 | uint32(sec[len(sec)-1])
	if refCRC32(sec[:len(sec)-4]) != crc {
		return nil, "CRC_32 mismatch"
	}
	s.ext = uint16(sec[3])<<8 | uint16(sec[4])
	s.version = sec[5] >> 1 & 0x1f
	s.current = sec[5]&1 != 0
	s.secNum, s.last = sec[6], sec[7]
	body := sec[8 : len(sec)-4]
	switch s.tableID {
	case 0:
		if len(body)%4 != 0 {
			return nil, "PAT body is not a whole number of entries"
		}
		for q := 0; q < len(body); q += 4 {
			s.programs = append(s.programs, [2]uint16{uint16(body[q])<<8 | uint16(body[q+1]), uint16(body[q+2]&0x1f)<<8 | uint16(body[q+3])})
		}
	case 2:
		if len(body) < 4 {
			return nil, "PMT body too short"
		}
		s.pcrPID = uint16(body[0]&0x1f)<<8 | uint16(body[1])
		pil := int(body[2]&0x0f)<<8 | int(body[3])
		if 4+pil > len(body) {
			return nil, "program_info_length does not fit"
		}
		s.programInfo = body[4 : 4+pil]
		q := 4 + pil
		for q < len(body) {
			if q+5 > len(body) {
				return nil, "truncated elementary stream entry"
			}
			il := int(body[q+3]&0x0f)<<8 | int(body[q+4])
			if q+5+il > len(body) {
				return nil, "ES_info_length does not fit"
			}
			s.streams = append(s.streams, tsStream{typ: body[q], pid: uint16(body[q+1]&0x1f)<<8 | uint16(body[q+2]), desc: body[q+5 : q+5+il]})
			q += 5 + il
		}
	default:
		return nil, fmt.Sprintf("table_id %#x", s.tableID)
	}
	return s, ""
}
