package main

import (
	"bytes"
	"fmt"
	"reflect"
	"runtime"
	"sync"

	astits "github.com/asticode/go-astits"
)

// C16: returned results are never mutated later; independent instances do not interfere.
type c16 struct{}

func init() { props["C16"] = c16{} }

func (c16) Num() int { return 16 }

func (c16) Gen(r *Rng, tier string, emit func(string, Tok)) {
	n := scale(tier, 40, 400)
	for k := 0; k < n; k++ {
		m := genRefStream(r, streamOpts{PESPIDs: r.Range(1, 3), UnitsPerPID: r.Range(2, 5), MaxPES: 900, Tables: true, Fillers: r.Bool(), SmallChunks: r.Chance(1, 3), Repeats: r.Intn(3)})
		data := m.bytes()
		// adaptation fields with private data, PCR and extensions on some packets (retained slices)
		for off := 0; off+188 <= len(data); off += 188 {
			if data[off+3]&0x20 != 0 && data[off+4] >= 12 && data[off+5]&0x10 == 0 && r.Chance(1, 2) {
				n := int(data[off+4]) - 2
				if n > 40 {
					n = 40
				}
				data[off+5] |= 0x02 // transport_private_data_flag
				data[off+6] = byte(n - 1)
				copy(data[off+7:], r.Bytes(n-1))
			}
		}
		kind := r.Intn(3)
		opt := []int{188, 0}[r.Intn(2)]
		emit("hold-data", L(I(1), scenario{kind: kind, optSize: opt, fault: -1, chunks: []int{r.Range(1, 400)}, data: data, ops: []int{3}}.tok()))
		emit("hold-packets", L(I(1), scenario{kind: kind, optSize: opt, fault: -1, chunks: []int{r.Range(1, 400)}, data: data, ops: []int{4}}.tok()))
		ops := []int{}
		for j := 0; j < 12; j++ {
			ops = append(ops, r.Intn(2))
		}
		emit("hold-mixed-rewind", L(I(1), scenario{kind: 1, optSize: opt, fault: -1, data: data, ops: append(append(ops, 2), 3)}.tok()))
		emit("caller-overwrites-results", L(I(5), scenario{kind: kind, optSize: opt, fault: -1, chunks: []int{r.Range(1, 400)}, data: data, ops: []int{[]int{3, 4}[k%2]}}.tok()))
		emit("caller-overwrites-results", L(I(5), scenario{kind: 1, optSize: opt, fault: -1, data: data, ops: append(append(append([]int{}, ops...), 2), 3)}.tok()))
	}
	// thorough tier: tens of thousands of other packets (null packets) between the packets of one unit, and between a
	// delivered packet and the end of the run (a payload kept as a view of a recycled read buffer shows only then)
	if tier == "thorough" {
		for _, gap := range []int{4100, 16400, 33000} {
			m := genRefStream(r, streamOpts{PESPIDs: 1, UnitsPerPID: 2, MaxPES: 900, Tables: true})
			data := m.bytes()
			np := len(data) / 188
			null := make([]byte, 188)
			null[0], null[1], null[2], null[3] = 0x47, 0x1f, 0xff, 0x10
			for i := 4; i < 188; i++ {
				null[i] = 0xff
			}
			cut := r.Range(np/2, np-1)
			var d []byte
			d = append(d, data[:188*cut]...)
			for i := 0; i < gap; i++ {
				d = append(d, null...)
			}
			d = append(d, data[188*cut:]...)
			for _, op := range []int{3, 4} {
				emit("hold-across-long-gap", L(I(1), scenario{kind: 1, optSize: 188, fault: -1, data: d, ops: []int{op}}.tok()))
			}
		}
	}
	// PMTs whose streams carry typed DVB descriptors of every kind (country / language codes, names, item lists: the
	// slices a parser keeps), repeated so that scratch buffers are reused while earlier tables are held
	for k := 0; k < scale(tier, 40, 400); k++ {
		m := genRefStream(r, streamOpts{PESPIDs: r.Range(1, 3), UnitsPerPID: r.Range(1, 3), MaxPES: 300, Tables: true, Repeats: r.Range(1, 3), TypedDescs: true})
		emit("hold-typed-descriptors", L(I(1), scenario{kind: r.Intn(3), optSize: 188, fault: -1, chunks: []int{r.Range(1, 400)}, data: m.bytes(), ops: []int{3}}.tok()))
	}
	// SI tables with descriptors of every kind on their standard PIDs (NIT 0x10, SDT 0x11, EIT 0x12, TOT 0x14), several
	// units per PID so that the scratch buffers are reused while earlier tables are held
	for k := 0; k < scale(tier, 30, 300); k++ {
		var d []byte
		cc := map[uint16]*byte{}
		for j := r.Range(3, 8); j > 0; j-- {
			tid, pid := 0, uint16(0)
			switch r.Intn(4) {
			case 0:
				tid, pid = rTidNITa, 0x10
			case 1:
				tid, pid = rTidSDTa, 0x11
			case 2:
				tid, pid = rTidEIT0, 0x12
			default:
				tid, pid = rTidTOT, 0x14
			}
			_, bs := psiGenByTid(r, tid)
			if cc[pid] == nil {
				c := byte(r.Intn(16))
				cc[pid] = &c
			}
			u := &refUnit{PID: pid, IsPSI: true, Bytes: bs, MinFirst: 1 + int(bs[0]) + 1, TailFF: r.Bool()}
			for _, p := range packetiseUnit(r, u, 0, cc[pid], false) {
				d = append(d, p.encode()...)
			}
		}
		emit("hold-si-tables", L(I(1), scenario{kind: r.Intn(3), optSize: 188, fault: -1, chunks: []int{r.Range(1, 400)}, data: d, ops: []int{3}}.tok()))
	}
	for k := 0; k < scale(tier, 20, 200); k++ {
		period, ops := muxHistory(r, tier, r.Range(3, 20))
		emit("mux-payload", L(I(2), muxCaseTok(period, ops)))
	}
	for _, g := range []int{2, 4, 8, 16, 32, 64} {
		for k := 0; k < scale(tier, 1, 6); k++ {
			emit("concurrent", L(I(3), I(int64(g)), I(int64(r.Intn(1<<30)))))
		}
	}
	// several Demuxers in one process, one after the other (mode 0) or in goroutines that give way at every Read
	// (mode 1), each compared with the model's run of its own scenario alone: packet size detection on streams of
	// different packet sizes, streams shorter than the detection window, reads in small chunks
	for k := 0; k < scale(tier, 24, 200); k++ {
		g := r.Range(2, 6)
		var scs []Tok
		for j := 0; j < g; j++ {
			m := genRefStream(r, streamOpts{PESPIDs: r.Range(1, 2), UnitsPerPID: r.Range(1, 3), MaxPES: 400, Tables: r.Bool()})
			data := m.bytes()
			switch r.Intn(4) {
			case 0:
				data = widen(data, []int{4, 16}[r.Intn(2)], r)
			case 1:
				data = data[:r.Range(1, 192)] // shorter than the detection window
			case 2:
				data = data[:188]
			}
			kind := r.Intn(3)
			scs = append(scs, scenario{kind: kind, optSize: 0, fault: -1, chunks: []int{r.Range(1, 100), r.Range(1, 100)}, data: data, ops: []int{[]int{3, 4}[r.Intn(2)]}}.tok())
		}
		emit([]string{"sequence-of-demuxers", "interleaved-demuxers"}[k%2], L(I(4), I(int64(k%2)), L(scs...)))
	}
}

// scribble overwrites everything reachable from a returned value: bytes are inverted, numbers incremented, booleans
// flipped (unexported fields, e.g. inside time.Time, are left alone).
func scribble(v reflect.Value, depth int) {
	if depth > 14 {
		return
	}
	switch v.Kind() {
	case reflect.Ptr, reflect.Interface:
		if !v.IsNil() {
			scribble(v.Elem(), depth+1)
		}
	case reflect.Struct:
		if v.Type().PkgPath() == "time" {
			return
		}
		for i := 0; i < v.NumField(); i++ {
			// FirstPacket is shared, by design, by all the data parsed from one unit (several sections): not touched
			if f := v.Type().Field(i); f.PkgPath == "" && f.Name != "FirstPacket" {
				scribble(v.Field(i), depth+1)
			}
		}
	case reflect.Slice, reflect.Array:
		for i := 0; i < v.Len(); i++ {
			scribble(v.Index(i), depth+1)
		}
	case reflect.Uint8, reflect.Uint16, reflect.Uint32, reflect.Uint64, reflect.Uint:
		if v.CanSet() {
			v.SetUint(^v.Uint())
		}
	case reflect.Int, reflect.Int8, reflect.Int16, reflect.Int32, reflect.Int64:
		if v.CanSet() {
			v.SetInt(v.Int() + 1)
		}
	case reflect.Bool:
		if v.CanSet() {
			v.SetBool(!v.Bool())
		}
	}
}

func (c16) Run(c Tok) Tok {
	switch c.At(0).Int() {
	case 5:
		// every returned value is overwritten by the caller right after delivery: what later calls return (this
		// Demuxer's and, in the next case of the run, any other Demuxer's) must not depend on it
		// (run once before and once after without overwriting anything: all three runs must agree)
		before := runScenario(scenarioOf(c.At(1))).observation()
		scenarioScribble = func(v interface{}) { scribble(reflect.ValueOf(v), 0) }
		during := runScenario(scenarioOf(c.At(1))).observation()
		scenarioScribble = nil
		after := runScenario(scenarioOf(c.At(1))).observation()
		return L(before, during, after)
	case 1:
		scenarioAfterCall = func() { astits.VerifPoisonBytesPool(4, 4096, 0xa5) }
		defer func() { scenarioAfterCall = nil }()
		run := runScenario(scenarioOf(c.At(1)))
		runtime.GC()
		// every held value once more, after all later calls
		var again []Tok
		k := 0
		for _, r := range run.results {
			if len(r.L) == 2 && r.At(0).Kind == 'l' && (r.At(0).At(0).Int() == 0 || r.At(0).At(0).Int() == 1) && k < len(run.held) {
				h := run.held[k]
				k++
				switch v := h.(type) {
				case *astits.DemuxerData:
					again = append(again, L(ResOk(ToTok(*v)), r.At(1)))
				case *astits.Packet:
					again = append(again, L(ResOk(ToTok(*v)), r.At(1)))
				default:
					again = append(again, r)
				}
			} else {
				again = append(again, r)
			}
		}
		return L(run.observation(), L(again...))
	case 2:
		period, ops := muxCaseOf(c.At(1))
		var copies [][]byte
		for _, o := range ops {
			if o.kind == opData && o.d.PES != nil {
				copies = append(copies, append([]byte{}, o.d.PES.Data...))
			}
		}
		calls := runMux(period, ops)
		ok := 1
		k := 0
		for _, o := range ops {
			if o.kind == opData && o.d.PES != nil {
				if !bytes.Equal(copies[k], o.d.PES.Data) {
					ok = 0
				}
				k++
			}
		}
		return L(muxObservation(calls), I(int64(ok)))
	case 3:
		return I(int64(concurrentOK(int(c.At(1).Int()), uint64(c.At(2).Int()))))
	case 4:
		scs := c.At(2).L
		out := make([]Tok, len(scs))
		// a second run of the same scenarios one after the other in the opposite order: what a Demuxer delivers must
		// not depend on which other Demuxers were used before it or alongside it
		rev := make([]Tok, len(scs))
		runRev := func() {
			for i := len(scs) - 1; i >= 0; i-- {
				rev[i] = runScenario(scenarioOf(scs[i])).observation()
			}
		}
		if c.At(1).Int() == 0 {
			for i := range scs {
				out[i] = runScenario(scenarioOf(scs[i])).observation()
			}
			runRev()
			return L(L(out...), L(rev...))
		}
		yieldInRead.Store(true)
		var wg sync.WaitGroup
		start := make(chan struct{})
		for i := range scs {
			wg.Add(1)
			go func(i int) {
				defer wg.Done()
				<-start
				out[i] = runScenario(scenarioOf(scs[i])).observation()
			}(i)
		}
		close(start)
		wg.Wait()
		yieldInRead.Store(false)
		runRev()
		return L(L(out...), L(rev...))
	}
	return L()
}

// concurrentOK runs g goroutines, each with its own Demuxer on its own stream and its own Muxer on its own history,
// and compares what each obtains with what it obtains when run alone.
func concurrentOK(g int, seed uint64) int {
	r := NewRng(seed)
	type job struct {
		sc     scenario
		period int
		ops    []muxOp
	}
	jobs := make([]job, g)
	for i := range jobs {
		m := genRefStream(r, streamOpts{PESPIDs: r.Range(1, 3), UnitsPerPID: r.Range(1, 4), MaxPES: 2000, Tables: true, Fillers: r.Bool()})
		jobs[i].sc = scenario{kind: r.Intn(3), optSize: 188, fault: -1, chunks: []int{r.Range(1, 400)}, data: m.bytes(), ops: []int{3}}
		jobs[i].period, jobs[i].ops = muxHistory(r, "quick", r.Range(3, 10))
	}
	seq := make([]string, g)
	for i, j := range jobs {
		seq[i] = runScenario(j.sc).observation().String() + muxObservation(runMux(j.period, muxOpsCopy(j.ops))).String()
	}
	con := make([]string, g)
	var wg sync.WaitGroup
	start := make(chan struct{})
	for i := range jobs {
		wg.Add(1)
		go func(i int) {
			defer wg.Done()
			<-start
			j := jobs[i]
			for k := 0; k < i%3; k++ {
				runtime.Gosched()
			}
			con[i] = runScenario(j.sc).observation().String() + muxObservation(runMux(j.period, muxOpsCopy(j.ops))).String()
		}(i)
	}
	close(start)
	for k := 0; k < 3; k++ {
		runtime.GC()
	}
	wg.Wait()
	for i := range jobs {
		if seq[i] != con[i] {
			return 0
		}
	}
	return 1
}

func (c16) Oracle(c Tok, obs Tok) string {
	switch c.At(0).Int() {
	case 1:
		first := obs.At(0).At(0)
		again := obs.At(1)
		for i := range first.L {
			if i < len(again.L) && first.L[i].String() != again.L[i].String() {
				a, b := first.L[i].String(), again.L[i].String()
				k := 0
				for k < len(a) && k < len(b) && a[k] == b[k] {
					k++
				}
				lo := k - 60
				if lo < 0 {
					lo = 0
				}
				return fmt.Sprintf("result %d was modified after it was returned: at delivery ...%s, later ...%s", i, c12Clip(a[lo:]), c12Clip(b[lo:]))
			}
		}
	case 2:
		if obs.At(1).Int() != 1 {
			return "the Muxer modified the caller's payload bytes"
		}
	case 5:
		if obs.At(0).String() != obs.At(1).String() {
			return "a Demuxer whose caller overwrites the values it was handed returns different results from then on"
		}
		if obs.At(0).String() != obs.At(2).String() {
			return "after a caller overwrote the values it was handed, a NEW Demuxer on the same input returns different results (state shared by the Demuxers of the process)"
		}
	case 4:
		a, b := obs.At(0), obs.At(1)
		for i := range a.L {
			if i < len(b.L) && a.L[i].String() != b.L[i].String() {
				return fmt.Sprintf("demuxer %d of %d delivers different results depending on the other demuxers of the process (run %s / run last-to-first one after the other)", i, len(a.L), []string{"first-to-last one after the other", "interleaved in goroutines"}[c.At(1).Int()])
			}
		}
	case 3:
		if obs.Int() != 1 {
			return fmt.Sprintf("%d instances run concurrently do not produce what they produce alone", c.At(1).Int())
		}
	}
	return ""
}

func (c16) Nontrivial(c Tok, obs Tok) bool { return true }
