package main

import (
	"fmt"

	astits "github.com/asticode/go-astits"
)

// C13: case forms (see coq/Extract/RunC13.v)
//
//	(1 bytes)              parsePSIData; oracle: equals the independent reference decoder, field for field
//	(7 bytes)              parsePSIData on checksum-repaired mutations (outside the property's domain: the oracle
//	                       only demands agreement when the reference decoder accepts the unit)
//	(2 psidata)            writePSIData; oracle: byte for byte the reference encoding (PAT / PMT)
//	(3 psidata pid packet) PSIData.toData
//	(4 section)            calcPSISectionLength
//	(5 pmtdata)            calcPMTSectionLength
//	(6 bytes)              parse, then write the result back
type c13 struct{}

func init() { props["C13"] = c13{} }

func (c13) Num() int { return 13 }

// psiParseObs runs parsePSIData and renders the result.
func psiParseObs(bs []byte) Tok {
	return guard(func() Tok {
		d, err := astits.VerifParsePSIData(bs)
		return resOf(func() Tok { return ToTok(*d) }, err)
	})
}

func psiWriteObs(d *astits.PSIData) Tok {
	return guard(func() Tok {
		s := &sinkWriter{failAt: -1}
		_, err := astits.VerifWritePSIData(s, d)
		return resOf(func() Tok { return B(s.accepted) }, err)
	})
}

// psiHasTyped reports whether a parse result contains a descriptor with a typed body.
func psiHasTyped(d *astits.PSIData) bool {
	found := false
	for _, s := range d.Sections {
		psiEachDescList(s, func(ds []*astits.Descriptor) {
			for _, x := range ds {
				if psiRefTypedTags[x.Tag] && x.Length > 0 {
					found = true
				}
			}
		})
	}
	return found
}

// psiStubSafe: with the descriptor stub in place, keep a mutated case only if the library neither
// panics nor accepts a typed descriptor on it.
func psiStubSafe(bs []byte) bool {
	if !psiDescStub {
		return true
	}
	ok := true
	func() {
		defer func() {
			if recover() != nil {
				ok = false
			}
		}()
		d, err := astits.VerifParsePSIData(bs)
		if err == nil && psiHasTyped(d) {
			ok = false
		}
	}()
	return ok
}

// psiSelfCheck: the reference decoder must invert the reference encoder on every generated model
// (a failure is a bug of this harness, not of the library).
func psiSelfCheck(d *astits.PSIData, bs []byte) {
	got, _, err := psiRefDecodeUnit(bs)
	if err != nil {
		panic(fmt.Sprintf("harness self-check: reference decoder rejects the reference encoding %x", bs))
	}
	if a, b := ToTok(*got).String(), ToTok(*d).String(); a != b {
		panic(fmt.Sprintf("harness self-check: reference decode(encode(m)) != m\n got %s\nwant %s", a, b))
	}
}

// psiGenByTid builds a unit whose first section has the given table id.
func psiGenByTid(r *Rng, tid int) (*astits.PSIData, []byte) {
	switch {
	case !psiRefKnown(tid):
		d := psiUnit(psiStop(tid))
		return d, append(psiRefEncodeUnit(d, nil), r.Bytes(r.Intn(6))...)
	case psiRefDecoded(tid):
		var s *astits.PSISection
		switch {
		case tid == rTidPAT:
			s = psiGenPAT(r, 1)
		case tid == rTidPMT:
			s = psiGenPMT(r, 1)
		case psiRefIsNIT(tid):
			s = psiGenNIT(r, 1)
		case psiRefIsSDT(tid):
			s = psiGenSDT(r, 1)
		case psiRefIsEIT(tid):
			s = psiGenEIT(r, 1)
		default:
			s = psiGenTOT(r, 1)
		}
		s.Header.TableID = astits.PSITableID(tid)
		d := psiUnit(s)
		return d, psiRefEncodeUnit(d, nil)
	}
	// assigned but not decoded (BAT, DIT, RST, SIT, ST, TDT): header and an opaque body
	n := r.Intn(40)
	body := r.Bytes(n)
	hdr := &astits.PSISectionHeader{TableID: astits.PSITableID(tid), TableType: psiRefTableName(tid),
		SectionSyntaxIndicator: r.Bool(), PrivateBit: r.Bool(), SectionLength: uint16(n)}
	s := &astits.PSISection{Header: hdr}
	if n > 0 {
		s.Syntax = &astits.PSISectionSyntax{Data: &astits.PSISectionSyntaxData{}}
	}
	w := &bw{}
	w.put(8, uint64(tid))
	w.flag(hdr.SectionSyntaxIndicator)
	w.flag(hdr.PrivateBit)
	w.put(2, 3)
	w.put(12, uint64(n))
	w.bytes(body)
	d := &astits.PSIData{Sections: []*astits.PSISection{s}}
	return d, append([]byte{0}, w.b...)
}

// psiCRCFix recomputes the CRC_32 of the section starting at off (when its declared length fits).
func psiCRCFix(b []byte, off int) {
	if off+3 > len(b) {
		return
	}
	l := int(b[off+1]&0x0f)<<8 | int(b[off+2])
	end := off + 3 + l
	if l < 4 || end > len(b) {
		return
	}
	c := psiRefCRC32(b[off : end-4])
	b[end-4], b[end-3], b[end-2], b[end-1] = byte(c>>24), byte(c>>16), byte(c>>8), byte(c)
}

// psiMuxerConvention sets Header.SectionLength the way Muxer.generatePAT / generatePMT do.
func psiMuxerConvention(d *astits.PSIData) {
	for _, s := range d.Sections {
		switch {
		case s.Header.TableID == astits.PSITableIDPAT && s.Syntax != nil && s.Syntax.Data != nil && s.Syntax.Data.PAT != nil:
			s.Header.SectionLength = astits.VerifCalcPATSectionLength(s.Syntax.Data.PAT)
		case s.Header.TableID == astits.PSITableIDPMT && s.Syntax != nil && s.Syntax.Data != nil && s.Syntax.Data.PMT != nil:
			s.Header.SectionLength = astits.VerifCalcPMTSectionLength(s.Syntax.Data.PMT)
		}
	}
}

func (c13) Gen(r *Rng, tier string, emit func(string, Tok)) {
	scale := 1
	if tier == "thorough" {
		scale = 10
	}
	valid := func(kind string, d *astits.PSIData, bs []byte) {
		psiSelfCheck(d, bs)
		emit(kind, L(I(1), B(bs)))
	}
	// 1. one section per unit: the six types x empty / small / up-to-the-limit loops
	for gi, g := range psiGens {
		for class, n := range []int{6, 60, 5} {
			for k := 0; k < n*scale; k++ {
				d := psiUnit(g(r, class))
				valid("valid-"+psiGenNames[gi]+"-"+[]string{"empty", "small", "limit"}[class], d, psiRefEncodeUnit(d, nil))
			}
		}
	}
	// 2. every table id, assigned or not
	for tid := 0; tid < 256; tid++ {
		d, bs := psiGenByTid(r, tid)
		valid("valid-all-table-ids", d, bs)
	}
	sweep("all 256 table_id values")
	// 3. several sections per unit, pointer_field with filler, stuffing or an unassigned id after the last section
	for k := 0; k < 250*scale; k++ {
		n := r.Range(1, 5)
		var ss []*astits.PSISection
		for j := 0; j < n; j++ {
			ss = append(ss, psiGens[r.Intn(6)](r, r.Intn(2)))
		}
		tail := []byte{}
		switch r.Intn(4) {
		case 0:
			ss = append(ss, psiStop(rTidNull))
			for j := r.Intn(20); j > 0; j-- {
				tail = append(tail, 0xff)
			}
		case 1:
			ss = append(ss, psiStop(psiGenUnknownTid(r)))
			tail = r.Bytes(r.Intn(12))
		}
		d := psiUnit(ss...)
		var filler []byte
		if r.Chance(1, 3) {
			d.PointerField = int(r.Bits(8))
			if r.Bool() {
				d.PointerField = r.Intn(8)
			}
			filler = r.Bytes(d.PointerField)
		}
		bs := append(psiRefEncodeUnit(d, filler), tail...)
		valid("valid-multi", d, bs)
		if k%3 == 0 {
			pkt := genPacket(r)
			emit("todata", L(I(3), ToTok(*d), I(int64(r.Bits(13))), ToTok(*pkt)))
		}
	}
	// 3b. several sections of one table type in a unit that share table_id and every syntax-header field (extension,
	//     version, current/next, section numbers) and differ only in their bodies — e.g. EIT-other sections for the
	//     same service_id on two transport streams: each is a section of its own and must be delivered
	for k := 0; k < 60*scale; k++ {
		gi := 2 + r.Intn(3) // SDT, NIT, EIT
		n := r.Range(2, 3)
		var ss []*astits.PSISection
		for j := 0; j < n; j++ {
			sec := psiGens[gi](r, r.Intn(2))
			if j > 0 && sec.Syntax != nil && ss[0].Syntax != nil {
				sec.Header.TableID = ss[0].Header.TableID
				h := *ss[0].Syntax.Header
				sec.Syntax.Header = &h
				// the table_id_extension is also a field of the decoded body
				if dd := sec.Syntax.Data; dd != nil {
					if dd.EIT != nil {
						dd.EIT.ServiceID = h.TableIDExtension
					}
					if dd.NIT != nil {
						dd.NIT.NetworkID = h.TableIDExtension
					}
					if dd.SDT != nil {
						dd.SDT.TransportStreamID = h.TableIDExtension
					}
				}
			}
			ss = append(ss, sec)
		}
		d := psiUnit(ss...)
		bs := psiRefEncodeUnit(d, nil)
		valid("valid-same-header-sections", d, bs)
		emit("todata", L(I(3), ToTok(*d), I(int64(r.Bits(13))), ToTok(*genPacket(r))))
	}
	// 4. reserved bits are ignored by a decoder
	for k := 0; k < 120*scale; k++ {
		psiRefRsvMode = 2 + r.U64()>>1
		if k%4 == 0 {
			psiRefRsvMode = 1
		}
		d := psiUnit(psiGens[k%6](r, 1))
		bs := psiRefEncodeUnit(d, nil)
		psiRefRsvMode = 0
		valid("valid-reserved-bits", d, bs)
	}
	// 5. generic header fields at every single-bit value
	for gi, g := range psiGens[:5] {
		for bit := 0; bit < 16+5+8+8+1; bit++ {
			s := g(r, 1)
			h := &astits.PSISectionSyntaxHeader{}
			switch {
			case bit < 16:
				h.TableIDExtension = 1 << uint(bit)
			case bit < 21:
				h.VersionNumber = 1 << uint(bit-16)
			case bit < 29:
				h.SectionNumber = 1 << uint(bit-21)
			case bit < 37:
				h.LastSectionNumber = 1 << uint(bit-29)
			default:
				h.CurrentNextIndicator = true
			}
			s.Syntax.Header = h
			switch gi {
			case 0:
				s.Syntax.Data.PAT.TransportStreamID = h.TableIDExtension
			case 1:
				s.Syntax.Data.PMT.ProgramNumber = h.TableIDExtension
			case 2:
				s.Syntax.Data.SDT.TransportStreamID = h.TableIDExtension
			case 3:
				s.Syntax.Data.NIT.NetworkID = h.TableIDExtension
			case 4:
				s.Syntax.Data.EIT.ServiceID = h.TableIDExtension
			}
			s.Header.SectionSyntaxIndicator, s.Header.PrivateBit = bit%2 == 0, bit%3 == 0
			d := psiUnit(s)
			valid("valid-header-bits", d, psiRefEncodeUnit(d, nil))
		}
	}
	// 6. writer: PAT and PMT contents, with the length field as the parser delivers it and as the muxer sets it
	for k := 0; k < 260*scale; k++ {
		class := []int{1, 1, 1, 0, 2}[k%5]
		if k >= 40*scale && class == 2 {
			class = 1
		}
		var s *astits.PSISection
		if k%2 == 0 {
			s = psiGenPAT(r, class)
		} else {
			s = psiGenPMT(r, class)
		}
		d := psiUnit(s)
		if r.Chance(1, 5) {
			d = psiUnit(s, psiGens[r.Intn(2)](r, 1))
		}
		if r.Chance(1, 6) {
			d.PointerField = r.Intn(6)
		}
		emit("write-wf", L(I(2), ToTok(*d)))
		emit("calc-section-length", L(I(4), ToTok(*s)))
		if s.Syntax.Data.PMT != nil {
			emit("calc-pmt-length", L(I(5), ToTok(*s.Syntax.Data.PMT)))
		}
		if k%2 == 0 {
			emit("reemit", L(I(6), B(psiRefEncodeUnit(d, nil))))
		}
		psiMuxerConvention(d)
		emit("write-wf-muxer-convention", L(I(2), ToTok(*d)))
	}
	// 6b. writer: a PMT whose descriptors have bodies of 250..255 bytes (the sum 2 + length reaches the top of a byte),
	//     in the program loop and in a stream's loop
	for _, n := range []int{250, 253, 254, 255} {
		for where := 0; where < 2; where++ {
			s := psiGenPMT(r, 0)
			big := &astits.Descriptor{Tag: uint8(0x80 + r.Intn(0x7f)), Length: uint8(n), UserDefined: r.Bytes(n)}
			pm := s.Syntax.Data.PMT
			if where == 0 {
				pm.ProgramDescriptors = append(pm.ProgramDescriptors, big)
			} else {
				if len(pm.ElementaryStreams) == 0 {
					pm.ElementaryStreams = append(pm.ElementaryStreams, &astits.PMTElementaryStream{ElementaryPID: 0x101, StreamType: astits.StreamTypeH264Video})
				}
				es := pm.ElementaryStreams[0]
				es.ElementaryStreamDescriptors = append(es.ElementaryStreamDescriptors, big)
			}
			d := psiUnit(s)
			emit("write-wf-long-descriptor", L(I(2), ToTok(*d)))
			emit("calc-pmt-length", L(I(5), ToTok(*s.Syntax.Data.PMT)))
		}
	}
	// 6c. parser: an empty stuffing section (table_id 0x72, section_length 0: three bytes) in front of, or between, sections
	//     of the decoded tables: what follows it is still delivered
	for k := 0; k < 12*scale; k++ {
		gi := 2 + r.Intn(4) // SDT, NIT, EIT, TOT
		a, b := psiGens[gi](r, r.Intn(2)), psiGens[2+r.Intn(4)](r, r.Intn(2))
		d := psiUnit(a, b)
		bs := psiRefEncodeUnit(d, nil)
		one := psiRefEncodeUnit(psiUnit(a), nil)
		st := []byte{0x72, 0x70, 0x00}
		var withST []byte
		if k%2 == 0 {
			withST = append(append([]byte{bs[0]}, st...), bs[1:]...) // pointer_field, stuffing section, a, b
		} else {
			withST = append(append(append([]byte{}, one...), st...), bs[len(one):]...) // pointer_field, a, stuffing section, b
		}
		emit("empty-stuffing-section", L(I(1), B(withST)))
	}
	// 7. writer outside its domain: nil pointers, other tables, zero length field, odd pointer fields
	for k := 0; k < 200*scale; k++ {
		var s *astits.PSISection
		if k%2 == 0 {
			s = psiGenPAT(r, r.Intn(2))
		} else {
			s = psiGenPMT(r, r.Intn(2))
		}
		d := psiUnit(s)
		switch r.Intn(12) {
		case 0:
			s.Header = nil
		case 1:
			s.Syntax = nil
		case 2:
			s.Syntax.Data = nil
		case 3:
			s.Syntax.Header = nil
		case 4:
			s.Syntax.Data.PAT, s.Syntax.Data.PMT = nil, nil
		case 5:
			s.Header.SectionLength = 0
		case 6:
			d = psiUnit(psiGens[2+r.Intn(4)](r, 1))
		case 7:
			d.PointerField = []int{-1, -200, 255, 256, 300}[r.Intn(5)]
		case 8:
			s.Header.TableID = astits.PSITableID([]int{0x100, 0x102, 0x1, 0xff, 0x2, 0x0}[r.Intn(6)])
		case 9:
			d = psiUnit(s, psiStop(rTidNull))
		case 10:
			// the data of the other table type behind the table id
			if s.Syntax.Data.PAT != nil {
				s.Syntax.Data.PAT, s.Syntax.Data.PMT = nil, psiGenPMT(r, 1).Syntax.Data.PMT
			} else {
				s.Syntax.Data.PAT, s.Syntax.Data.PMT = psiGenPAT(r, 1).Syntax.Data.PAT, nil
			}
		case 11:
			d.Sections = nil
		}
		emit("write-any", L(I(2), ToTok(*d)))
		if len(d.Sections) > 0 && d.Sections[0] != nil {
			emit("calc-any", L(I(4), ToTok(*d.Sections[0])))
		}
		headless := false // toData dereferences the header of a section that has syntax data (nil = panic; not expressible in psi_to_data)
		for _, x := range d.Sections {
			if x.Header == nil && x.Syntax != nil && x.Syntax.Data != nil {
				headless = true
			}
		}
		if !headless {
			emit("todata-any", L(I(3), ToTok(*d), I(int64(r.Bits(13))), ToTok(*genPacket(r))))
		}
	}
	// 8. malformed: truncation at every offset of small units, extensions, random bytes
	for k := 0; k < 12*scale; k++ {
		d := psiUnit(psiGens[k%6](r, r.Intn(2)), psiGens[r.Intn(6)](r, 0))
		bs := psiRefEncodeUnit(d, nil)
		step := 1
		if len(bs) > 120 {
			step = len(bs)/120 + 1
		}
		for cut := 0; cut < len(bs); cut += step {
			emit("malformed-truncated", L(I(1), B(psiCopy(bs[:cut]))))
		}
		for j := 0; j < 6; j++ {
			ext := r.Bytes(r.Range(1, 12))
			if j%2 == 0 {
				ext[0] = byte([]int{0xff, 0x4a, 0x70, 0x00, 0x73, 0x7e}[r.Intn(6)])
			}
			emit("malformed-extended", L(I(1), B(append(psiCopy(bs), ext...))))
		}
	}
	for k := 0; k < 300*scale; k++ {
		n := r.Intn(64)
		bs := r.Bytes(n)
		if n > 0 && r.Bool() {
			bs[0] = byte(r.Intn(4))
		}
		if n > 4 && r.Bool() {
			p := 1
			if int(bs[0])+1 < n-3 {
				p = int(bs[0]) + 1
			}
			bs[p] = byte([]int{0x00, 0x02, 0x40, 0x42, 0x46, 0x4e, 0x50, 0x6f, 0x73, 0x4a, 0x70}[r.Intn(11)])
			bs[p+1] = bs[p+1]&0xf0 | 0
			if r.Bool() {
				bs[p+2] = byte(r.Intn(n))
			}
		}
		emit("malformed-random", L(I(1), B(bs)))
	}
	// 9. checksum-repaired mutations of valid sections: bad loop and descriptor lengths, overlong and short sections
	kept, dropped := 0, 0
	for k := 0; k < 500*scale; k++ {
		d := psiUnit(psiGens[k%6](r, 1))
		bs := psiRefEncodeUnit(d, nil)
		for m := r.Range(1, 2); m > 0; m-- {
			p := 1 + r.Intn(len(bs)-1)
			switch r.Intn(4) {
			case 0:
				bs[p] ^= 1 << uint(r.Intn(8))
			case 1:
				bs[p] = byte(r.Bits(8))
			case 2:
				p = 2 + r.Intn(2) // section_length
				bs[p] ^= 1 << uint(r.Intn(8))
			case 3:
				bs[p] = byte(int(bs[p]) + []int{-1, 1, 2, -2, 4}[r.Intn(5)])
			}
		}
		if r.Chance(1, 8) {
			bs = append(bs, r.Bytes(r.Intn(8))...)
		}
		if bs[1] != 0xff {
			psiCRCFix(bs, 1)
		}
		if !psiStubSafe(bs) {
			dropped++
			continue
		}
		kept++
		emit("malformed-crc-repaired", L(I(7), B(bs)))
	}
	if psiDescStub {
		note("descriptor stub in place: %d checksum-repaired mutations kept, %d dropped (typed descriptor accepted, or panic)", kept, dropped)
	}
	// 10. typed descriptors (the 23 typed tags, unknown and user-defined ones, zero-item bodies) in every descriptor loop
	// of the five table types that have one, reference encoded (C13_parse_*_typed): model and implementation must decode
	// them alike wherever the loop lies in the section; the oracle compares the table structure (tags and lengths of the
	// typed entries) and leaves the typed bodies to C14
	if !psiDescStub {
		for k := 0; k < 200*scale; k++ {
			s := psiGens[1+k%5](r, 0)
			typed := func() []*astits.Descriptor {
				var out []*astits.Descriptor
				for _, d := range c14GenLoop(r, 6, 110) {
					if c14WfDesc(d) && c14OnlyBody(d) {
						out = append(out, c14ExpectParsed(d))
					}
				}
				return out
			}
			x := s.Syntax.Data
			switch {
			case x.PMT != nil:
				x.PMT.ProgramDescriptors = typed()
				if len(x.PMT.ElementaryStreams) > 3 {
					x.PMT.ElementaryStreams = x.PMT.ElementaryStreams[:3]
				}
				for _, es := range x.PMT.ElementaryStreams {
					es.ElementaryStreamDescriptors = typed()
				}
			case x.SDT != nil:
				if len(x.SDT.Services) > 3 {
					x.SDT.Services = x.SDT.Services[:3]
				}
				for _, sv := range x.SDT.Services {
					sv.Descriptors = typed()
				}
			case x.NIT != nil:
				x.NIT.NetworkDescriptors = typed()
				if len(x.NIT.TransportStreams) > 3 {
					x.NIT.TransportStreams = x.NIT.TransportStreams[:3]
				}
				for _, ts := range x.NIT.TransportStreams {
					ts.TransportDescriptors = typed()
				}
			case x.EIT != nil:
				if len(x.EIT.Events) > 3 {
					x.EIT.Events = x.EIT.Events[:3]
				}
				for _, e := range x.EIT.Events {
					e.Descriptors = typed()
				}
			case x.TOT != nil:
				x.TOT.Descriptors = typed()
			}
			bs := psiRefEncodeUnit(psiUnit(s), nil)
			if len(bs) > 1000 {
				continue
			}
			emit("typed-desc-"+psiGenNames[1+k%5], L(I(1), B(bs)))
		}
	}
}

func (c13) Run(c Tok) Tok {
	switch c.At(0).Int() {
	case 1, 7:
		return psiParseObs(c.At(1).Bytes())
	case 2:
		var d astits.PSIData
		FromTok(c.At(1), &d)
		return psiWriteObs(&d)
	case 3:
		return guard(func() Tok {
			var d astits.PSIData
			FromTok(c.At(1), &d)
			var p astits.Packet
			FromTok(c.At(3), &p)
			ds := astits.VerifPSIToData(&d, &p, uint16(c.At(2).Int()))
			items := make([]Tok, 0, len(ds))
			for _, x := range ds {
				items = append(items, ToTok(*x))
			}
			return L(items...)
		})
	case 4:
		return guard(func() Tok {
			var s astits.PSISection
			FromTok(c.At(1), &s)
			return ResOk(U(uint64(astits.VerifCalcPSISectionLength(&s))))
		})
	case 5:
		var d astits.PMTData
		FromTok(c.At(1), &d)
		return U(uint64(astits.VerifCalcPMTSectionLength(&d)))
	case 6:
		return guard(func() Tok {
			d, err := astits.VerifParsePSIData(c.At(1).Bytes())
			if err != nil {
				return ResErr(errCode(err))
			}
			return L(I(0), ToTok(*d), psiWriteObs(d))
		})
	}
	return L()
}

// psiWritable: the content is inside the writer's domain -- PAT and PMT sections only, every
// pointer present, a non-zero length field, plain descriptors whose bodies fit their length byte, and
// a section that respects the 1021-byte limit.
func psiWritable(d *astits.PSIData) bool {
	if d.PointerField < 0 || d.PointerField > 255 || len(d.Sections) == 0 {
		return false
	}
	for _, s := range d.Sections {
		if s == nil || s.Header == nil || s.Syntax == nil || s.Syntax.Header == nil || s.Syntax.Data == nil || s.Header.SectionLength == 0 {
			return false
		}
		x := s.Syntax.Data
		switch s.Header.TableID {
		case astits.PSITableIDPAT:
			if x.PAT == nil {
				return false
			}
			for _, p := range x.PAT.Programs {
				if p == nil || p.ProgramMapID > 0x1fff {
					return false
				}
			}
		case astits.PSITableIDPMT:
			if x.PMT == nil || x.PMT.PCRPID > 0x1fff {
				return false
			}
			for _, es := range x.PMT.ElementaryStreams {
				if es == nil || es.ElementaryPID > 0x1fff {
					return false
				}
			}
		default:
			return false
		}
		if s.Syntax.Header.VersionNumber > 31 {
			return false
		}
		ok := true
		psiEachDescList(s, func(ds []*astits.Descriptor) {
			for _, y := range ds {
				if y == nil || (psiRefTypedTags[y.Tag] && !psiRefIsUserTag(y.Tag)) || len(psiRefDescBody(y)) > 255 {
					ok = false
				}
				if y != nil && !psiRefIsUserTag(y.Tag) && y.Unknown == nil && len(y.UserDefined) > 0 {
					ok = false
				}
			}
		})
		if !ok || len(psiRefEncodeSection(s)) > 1024 {
			return false
		}
	}
	return true
}

// psiExpectedToData: one entry per section of a decoded type that has a syntax part, in order, carrying
// the section's table, the PID and the first packet.
func psiExpectedToData(d *astits.PSIData, p *astits.Packet, pid uint16) ([]Tok, bool) {
	var out []Tok
	for _, s := range d.Sections {
		if s == nil || s.Syntax == nil || s.Syntax.Data == nil {
			continue
		}
		if s.Header == nil {
			return nil, false
		}
		x := s.Syntax.Data
		tid := int(s.Header.TableID)
		dd := astits.DemuxerData{FirstPacket: p, PID: pid}
		switch {
		case tid == rTidPAT:
			dd.PAT = x.PAT
		case tid == rTidPMT:
			dd.PMT = x.PMT
		case psiRefIsNIT(tid):
			dd.NIT = x.NIT
		case psiRefIsSDT(tid):
			dd.SDT = x.SDT
		case psiRefIsEIT(tid):
			dd.EIT = x.EIT
		case tid == rTidTOT:
			dd.TOT = x.TOT
		default:
			continue
		}
		out = append(out, ToTok(dd))
	}
	return out, true
}

func psiParseOracle(bs []byte, obs Tok, strict bool) string {
	want, info, err := psiRefDecodeUnit(bs)
	if info.oldDate {
		return "" // dates before 1900-03-01 are outside the Annex C conversion (C15's subject)
	}
	if obs.At(0).Int() == 2 {
		return "parsePSIData panics"
	}
	if err != nil {
		if strict && obs.At(0).Int() == 0 {
			return "parsePSIData accepts a unit the reference decoder rejects: " + psiShort(obs.String())
		}
		return ""
	}
	if obs.At(0).Int() != 0 {
		if info.typedDesc {
			// the reference decoder keeps typed descriptor bodies opaque; a body that is inconsistent in
			// itself (possible only in a mutated section) is rejected by the descriptor parsers: C14's subject
			return ""
		}
		return "parsePSIData rejects a unit the reference decoder accepts"
	}
	var got astits.PSIData
	FromTok(obs.At(1), &got)
	if info.typedDesc {
		psiBlankTyped(&got)
	}
	if a, b := ToTok(got).String(), ToTok(*want).String(); a != b {
		return fmt.Sprintf("parsePSIData differs from the reference decoder: got %s want %s", psiShort(a), psiShort(b))
	}
	return ""
}

func (c13) Oracle(c Tok, obs Tok) string {
	switch c.At(0).Int() {
	case 1:
		return psiParseOracle(c.At(1).Bytes(), obs, true)
	case 7:
		return psiParseOracle(c.At(1).Bytes(), obs, false)
	case 2:
		var d astits.PSIData
		FromTok(c.At(1), &d)
		if !psiWritable(&d) {
			return ""
		}
		if obs.At(0).Int() != 0 {
			return "writePSIData fails on PAT/PMT content inside its domain: " + obs.String()
		}
		ref := psiRefEncodeUnit(&d, nil)
		if !eqBytes(obs.At(1).Bytes(), ref) {
			return fmt.Sprintf("writePSIData output differs from the reference encoding: got %x want %x", obs.At(1).Bytes(), ref)
		}
	case 3:
		var d astits.PSIData
		FromTok(c.At(1), &d)
		var p astits.Packet
		FromTok(c.At(3), &p)
		want, ok := psiExpectedToData(&d, &p, uint16(c.At(2).Int()))
		if !ok {
			return ""
		}
		if a, b := obs.String(), L(want...).String(); a != b {
			return fmt.Sprintf("toData differs: got %s want %s", psiShort(a), psiShort(b))
		}
	case 4:
		var s astits.PSISection
		FromTok(c.At(1), &s)
		d := &astits.PSIData{Sections: []*astits.PSISection{&s}}
		if !psiWritable(d) {
			return ""
		}
		if want := int64(len(psiRefEncodeSection(&s)) - 3); obs.At(0).Int() != 0 || obs.At(1).Int() != want {
			return fmt.Sprintf("calcPSISectionLength = %s, the reference encoding has %d bytes after the length field", obs.String(), want)
		}
	case 5:
		var m astits.PMTData
		FromTok(c.At(1), &m)
		s := &astits.PSISection{Header: &astits.PSISectionHeader{TableID: astits.PSITableIDPMT, SectionLength: 1},
			Syntax: &astits.PSISectionSyntax{Header: &astits.PSISectionSyntaxHeader{}, Data: &astits.PSISectionSyntaxData{PMT: &m}}}
		if !psiWritable(&astits.PSIData{Sections: []*astits.PSISection{s}}) {
			return ""
		}
		if want := int64(len(psiRefEncodeSection(s)) - 3 - 5 - 4); obs.Int() != want {
			return fmt.Sprintf("calcPMTSectionLength = %d, the reference encoding of the PMT body has %d bytes", obs.Int(), want)
		}
	case 6:
		in := c.At(1).Bytes()
		want, _, err := psiRefDecodeUnit(in)
		if err != nil {
			return ""
		}
		if obs.At(0).Int() != 0 {
			return "parsePSIData rejects a unit the reference decoder accepts"
		}
		if !psiWritable(want) || !eqBytes(psiRefEncodeUnit(want, nil), in) {
			return ""
		}
		w := obs.At(2)
		if w.At(0).Int() != 0 || !eqBytes(w.At(1).Bytes(), in) {
			return fmt.Sprintf("a conformant PAT/PMT unit is not re-emitted byte-identically: in %x out %s", in, psiShort(w.String()))
		}
	}
	return ""
}

func (c13) Nontrivial(c Tok, obs Tok) bool {
	switch c.At(0).Int() {
	case 3:
		return len(obs.L) > 0
	case 5:
		return true
	}
	return obs.At(0).Int() == 0
}
