package main

import (
	"bufio"
	"context"
	"errors"
	"io"
	"net"
	"os"
	"runtime"
	"sync/atomic"

	astits "github.com/asticode/go-astits"
)

// Scenario runner shared by the demuxer properties; mirrors coq/Extract/RunDemux.v.
// case = (kind opt_size fault chunks skipspec parserspec data ops)

// chunkReader hands out data in chunks of the scheduled sizes (cyclic) and starts failing at offset fault (-1 never).
type chunkReader struct {
	data   []byte
	pos    int
	chunks []int
	ci     int
	fault  int
	reads  int
	// eofWithData: the Read that hands out the last byte also returns io.EOF (allowed by the io.Reader contract)
	eofWithData bool
	faultErr    error // what a failing Read returns (nil: errInjected)
}

// yieldInRead makes every Read give way to other goroutines first (C16: instances interleaved between two reads)
var yieldInRead atomic.Bool

func (c *chunkReader) Read(p []byte) (int, error) {
	c.reads++
	if yieldInRead.Load() {
		runtime.Gosched()
	}
	if c.fault >= 0 && c.pos >= c.fault {
		if c.faultErr != nil {
			return 0, c.faultErr
		}
		return 0, errInjected
	}
	if c.pos >= len(c.data) {
		return 0, io.EOF
	}
	n := len(p)
	if len(c.chunks) > 0 {
		k := c.chunks[c.ci%len(c.chunks)]
		c.ci++
		if k < 1 {
			k = 1
		}
		if k < n {
			n = k
		}
	}
	if n > len(c.data)-c.pos {
		n = len(c.data) - c.pos
	}
	if c.fault >= 0 && n > c.fault-c.pos {
		n = c.fault - c.pos
	}
	copy(p, c.data[c.pos:c.pos+n])
	c.pos += n
	if c.eofWithData && c.pos >= len(c.data) && (c.fault < 0 || c.fault > len(c.data)) {
		return n, io.EOF
	}
	return n, nil
}

// seekReader adds Seek(0, 0) (what the demuxer's rewind uses).
type seekReader struct{ *chunkReader }

func (s seekReader) Seek(offset int64, whence int) (int64, error) {
	if whence != 0 {
		return 0, errors.New("verif: unsupported whence")
	}
	s.chunkReader.pos = int(offset)
	return offset, nil
}

type scenario struct {
	kind     int
	optSize  int
	fault    int
	chunks   []int
	skipSpec Tok
	prsSpec  Tok
	data     []byte
	ops      []int
	// bufSize: size of the bufio.Reader of kind 2 (0 = default 4096). Not part of the model: for every size that can
	// hold what the Demuxer peeks (193 bytes with auto-detection, nothing with an explicit packet size) the bytes
	// delivered are the same.
	bufSize int
}

func (s scenario) tok() Tok {
	ch := make([]Tok, len(s.chunks))
	for i, c := range s.chunks {
		ch[i] = I(int64(c))
	}
	ops := make([]Tok, len(s.ops))
	for i, c := range s.ops {
		ops[i] = I(int64(c))
	}
	sk, pr := s.skipSpec, s.prsSpec
	if sk.Kind == 0 {
		sk = L(I(0))
	}
	if pr.Kind == 0 {
		pr = L(I(0))
	}
	if s.bufSize > 0 {
		return L(I(int64(s.kind)), I(int64(s.optSize)), I(int64(s.fault)), L(ch...), sk, pr, B(s.data), L(ops...), I(int64(s.bufSize)))
	}
	return L(I(int64(s.kind)), I(int64(s.optSize)), I(int64(s.fault)), L(ch...), sk, pr, B(s.data), L(ops...))
}

func scenarioOf(c Tok) scenario {
	s := scenario{kind: int(c.At(0).Int()), optSize: int(c.At(1).Int()), fault: int(c.At(2).Int()),
		skipSpec: c.At(4), prsSpec: c.At(5), data: c.At(6).Bytes()}
	for _, t := range c.At(3).L {
		s.chunks = append(s.chunks, int(t.Int()))
	}
	for _, t := range c.At(7).L {
		s.ops = append(s.ops, int(t.Int()))
	}
	if len(c.L) > 8 {
		s.bufSize = int(c.At(8).Int())
	}
	return s
}

func pidIn(t Tok, pid uint16) bool {
	for _, x := range t.L {
		if uint16(x.Int()) == pid {
			return true
		}
	}
	return false
}

func pktSummary(p *astits.Packet) Tok {
	return L(I(int64(p.Header.PID)), I(int64(p.Header.ContinuityCounter)), Bool(p.Header.PayloadUnitStartIndicator), I(int64(len(p.Payload))))
}

// scenarioScribble, when set, receives every value a Demuxer call returned, after it was serialised (C16 overwrites
// it, as an application that edits what it was handed would).
var scenarioScribble func(v interface{})

// scenarioAfterCall, when set, runs after every Demuxer call of a scenario (C16 uses it to disturb the payload pool).
var scenarioAfterCall func()

// demuxRun executes a scenario on the implementation.
type demuxRun struct {
	results   []Tok
	groups    []Tok
	consulted []Tok
	final     Tok
	// for oracles
	held      []interface{} // the value each call returned (nil on error), in call order
	data      []*astits.DemuxerData
	packets   []*astits.Packet
	errs      []error
	posAt     []int
	capHit    bool
	skipViol  string
	groupViol string
}

func runScenario(s scenario) *demuxRun {
	out := &demuxRun{}
	// kind = reader kind + 10 * (EOF together with the last bytes) + 20 * (0 plain injected fault, 1 a fault wrapping
	// io.EOF, 2 io.ErrUnexpectedEOF, 3 os.ErrClosed, 4 net.ErrClosed, 5 io.ErrClosedPipe)
	cr := &chunkReader{data: s.data, chunks: s.chunks, fault: s.fault, eofWithData: (s.kind/10)%2 == 1}
	switch s.kind / 20 {
	case 1:
		cr.faultErr = &injectedWrapping{io.EOF}
	case 2:
		cr.faultErr = &injectedWrapping{io.ErrUnexpectedEOF}
	case 3:
		cr.faultErr = &injectedWrapping{os.ErrClosed} // a read on a closed file: a failure, not the end of the stream
	case 4:
		cr.faultErr = &injectedWrapping{net.ErrClosed}
	case 5:
		cr.faultErr = &injectedWrapping{io.ErrClosedPipe}
	}
	var rd io.Reader
	var br *bufio.Reader
	switch s.kind % 10 {
	case 1:
		rd = seekReader{cr}
	case 2:
		if s.bufSize > 0 {
			br = bufio.NewReaderSize(cr, s.bufSize)
		} else {
			br = bufio.NewReader(cr)
		}
		rd = br
	default:
		rd = struct{ io.Reader }{cr}
	}
	pos := func() int {
		if br != nil {
			return cr.pos - br.Buffered()
		}
		return cr.pos
	}
	opts := []func(*astits.Demuxer){}
	if s.optSize != 0 {
		opts = append(opts, astits.DemuxerOptPacketSize(s.optSize))
	}
	if k := s.skipSpec.At(0).Int(); k != 0 {
		a := s.skipSpec.At(1)
		opts = append(opts, astits.DemuxerOptPacketSkipper(func(p *astits.Packet) bool {
			out.consulted = append(out.consulted, pktSummary(p))
			if p.Payload != nil {
				out.skipViol = "skipper received a packet with a payload"
			}
			if p.Header.HasAdaptationField != (p.AdaptationField != nil) {
				out.skipViol = "skipper received a packet whose adaptation field is not parsed"
			}
			switch k {
			case 1:
				return pidIn(a, p.Header.PID)
			case 2:
				return int64(p.Header.ContinuityCounter) == a.Int()
			case 3:
				return p.Header.PayloadUnitStartIndicator
			case 4:
				v := int64(p.Header.PID)*31 + int64(p.Header.ContinuityCounter)*7 + a.Int()
				if p.Header.PayloadUnitStartIndicator {
					v += 3
				}
				return v%3 == 0
			case 5:
				return true
			case 6:
				return p.Header.HasAdaptationField
			}
			return false
		}))
	}
	if k := s.prsSpec.At(0).Int(); k != 0 {
		a := s.prsSpec.At(1)
		opts = append(opts, astits.DemuxerOptPacketsParser(func(ps []*astits.Packet) ([]*astits.DemuxerData, bool, error) {
			g := make([]Tok, len(ps))
			for i, p := range ps {
				g[i] = pktSummary(p)
				if p.Header.PID != ps[0].Header.PID {
					out.groupViol = "parser received a group with several PIDs"
				}
			}
			if len(ps) == 0 {
				out.groupViol = "parser received an empty group"
				return nil, false, nil
			}
			out.groups = append(out.groups, L(g...))
			replace := func() []*astits.DemuxerData {
				var pl []byte
				for _, p := range ps {
					pl = append(pl, p.Payload...)
				}
				d1 := &astits.DemuxerData{PID: ps[0].Header.PID, FirstPacket: &astits.Packet{Header: ps[0].Header, AdaptationField: ps[0].AdaptationField, Payload: pl}}
				if len(ps)%2 == 0 {
					return []*astits.DemuxerData{d1, {PID: ps[0].Header.PID, FirstPacket: ps[len(ps)-1]}}
				}
				return []*astits.DemuxerData{d1}
			}
			switch k {
			case 2:
				if pidIn(a, ps[0].Header.PID) {
					return replace(), true, nil
				}
			case 3:
				if pidIn(a, ps[0].Header.PID) {
					return nil, false, errors.New("verif: custom parser failure")
				}
			case 4:
				return replace(), true, nil
			case 5:
				// data together with skip = false: the default parsing still runs and its data are what comes out for
				// PSI and PES units; the parser's data stand only where the library parses nothing (CAT, neither PSI nor PES)
				return replace(), false, nil
			}
			return nil, false, nil
		}))
	}
	dmx := astits.NewDemuxer(context.Background(), rd, opts...)
	capN := 3*len(s.data) + 8
	stateTok := func() Tok {
		st := dmx.VerifState()
		pb := L()
		if st.HasPacketBuffer {
			pb = L(I(int64(st.PacketSize)))
		}
		pool := make([]Tok, len(st.PoolPIDs))
		for i := range st.PoolPIDs {
			pool[i] = L(I(int64(st.PoolPIDs[i])), I(int64(st.PoolLens[i])))
		}
		pm := make([]Tok, len(st.ProgramMapPIDs))
		for i, p := range st.ProgramMapPIDs {
			pm[i] = I(int64(p))
		}
		return L(I(int64(st.DataBufferLen)), pb, L(pool...), L(pm...))
	}
	nextData := func() (stop bool) {
		var d *astits.DemuxerData
		var err error
		r := guard(func() Tok {
			d, err = dmx.NextData()
			return resOf(func() Tok { return ToTok(*d) }, err)
		})
		out.results = append(out.results, L(r, I(int64(pos()))))
		if scenarioAfterCall != nil {
			scenarioAfterCall()
		}
		if err != nil {
			d = nil // a value handed out together with an error is not a result
		}
		out.data = append(out.data, d)
		if d != nil && scenarioScribble != nil {
			scenarioScribble(d)
		}
		if d != nil {
			out.held = append(out.held, d)
		} else {
			out.held = append(out.held, nil)
		}
		out.errs = append(out.errs, err)
		out.posAt = append(out.posAt, pos())
		return r.At(0).Int() == 2 || errors.Is(err, astits.ErrNoMorePackets) || errors.Is(err, errInjected)
	}
	nextPacket := func() (stop bool) {
		var p *astits.Packet
		var err error
		r := guard(func() Tok {
			p, err = dmx.NextPacket()
			return resOf(func() Tok { return ToTok(*p) }, err)
		})
		out.results = append(out.results, L(r, I(int64(pos()))))
		if scenarioAfterCall != nil {
			scenarioAfterCall()
		}
		if err != nil {
			p = nil // a value handed out together with an error is not a result
		}
		out.packets = append(out.packets, p)
		if p != nil && scenarioScribble != nil {
			scenarioScribble(p)
		}
		if p != nil {
			out.held = append(out.held, p)
		} else {
			out.held = append(out.held, nil)
		}
		out.errs = append(out.errs, err)
		out.posAt = append(out.posAt, pos())
		return r.At(0).Int() == 2 || errors.Is(err, astits.ErrNoMorePackets) || errors.Is(err, errInjected)
	}
	for _, op := range s.ops {
		switch op {
		case 0:
			nextPacket()
		case 1:
			nextData()
		case 2:
			n, err := dmx.Rewind()
			if err != nil {
				n = -99
			}
			out.results = append(out.results, L(I(n), I(int64(pos())), stateTok()))
		case 3:
			k := 0
			for ; k < capN; k++ {
				if nextData() {
					break
				}
			}
			if k == capN {
				out.results = append(out.results, L(I(9)))
				out.capHit = true
			}
		default:
			k := 0
			for ; k < capN; k++ {
				if nextPacket() {
					break
				}
			}
			if k == capN {
				out.results = append(out.results, L(I(9)))
				out.capHit = true
			}
		}
	}
	out.final = stateTok()
	return out
}

// The program map is a set in the model (insertion order) and a Go map in the implementation: the harness
// prints it sorted, and so does the model's observation after canonicalisation in RunDemux (sorted there too).
func (r *demuxRun) observation() Tok {
	return L(L(r.results...), r.final, L(r.groups...), L(r.consulted...))
}
