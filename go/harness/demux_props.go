package main

import (
	"bytes"
	"errors"
	"fmt"
	"sort"

	astits "github.com/asticode/go-astits"
)

// The demuxer properties that are checked through demux scenarios (demux.go, coq/Extract/RunDemux.v):
// C02 C03 C06 C07 C08 C18(reader side) C20. C19 lives in c19.go.

type scenProp struct {
	num    int
	gen    func(r *Rng, tier string, emit func(string, Tok))
	oracle func(s scenario, run *demuxRun) string
}

func (p scenProp) Num() int                                        { return p.num }
func (p scenProp) Gen(r *Rng, tier string, emit func(string, Tok)) { p.gen(r, tier, emit) }
func (p scenProp) Run(c Tok) Tok                                   { return runScenario(scenarioOf(c)).observation() }
func (p scenProp) Nontrivial(c Tok, obs Tok) bool                  { return len(obs.At(0).L) > 1 }
func (p scenProp) Oracle(c Tok, obs Tok) string {
	s := scenarioOf(c)
	run := runScenario(s)
	for _, r := range run.results {
		if r.At(0).At(0).Int() == 2 {
			return "the demuxer panicked"
		}
	}
	if run.capHit {
		return "call cap reached without ErrNoMorePackets (input length bound exceeded)"
	}
	return p.oracle(s, run)
}

func init() {
	props["C20"] = scenProp{20, genC20, oracleC20}
	props["C08"] = scenProp{8, genC08, oracleC08}
	props["C03"] = scenProp{3, genC03, oracleC03}
	props["C02"] = scenProp{2, genC02, oracleC02}
	props["C06"] = scenProp{6, genC06, oracleC06}
	props["C07"] = scenProp{7, genC07, oracleC07}
}

func scale(tier string, q, t int) int {
	if tier == "thorough" {
		return t
	}
	return q
}

func randStream(r *Rng, tables bool) *refStreamModel {
	return genRefStream(r, streamOpts{PESPIDs: r.Range(1, 3), UnitsPerPID: r.Range(1, 4), MaxPES: 700, Tables: tables,
		Fillers: r.Bool(), SmallChunks: r.Chance(1, 4), Repeats: r.Intn(3)})
}

// ---------------- C20: Rewind ----------------

func genC20(r *Rng, tier string, emit func(string, Tok)) {
	n := scale(tier, 12, 120)
	for k := 0; k < n; k++ {
		m := randStream(r, true)
		data := m.bytes()
		// total number of NextData calls of a fresh pass
		fresh := runScenario(scenario{kind: 1, optSize: 188, fault: -1, data: data, ops: []int{3}})
		total := len(fresh.results)
		for calls := 0; calls <= total; calls++ {
			if tier != "thorough" && total > 14 && calls > 6 && calls < total-3 && r.Chance(2, 3) {
				continue
			}
			opt := 188
			if r.Chance(1, 3) {
				opt = 0
			}
			ops := []int{}
			for j := 0; j < calls; j++ {
				op := 1
				if r.Chance(1, 5) {
					op = 0
				}
				ops = append(ops, op)
			}
			ops = append(ops, 2)
			if r.Chance(1, 4) { // repeated rewinds
				for j := 0; j < r.Intn(4); j++ {
					ops = append(ops, 1)
				}
				ops = append(ops, 2)
			}
			ops = append(ops, 3)
			emit("rewind", scenario{kind: 1, optSize: opt, fault: -1, data: data, ops: ops}.tok())
		}
		// a reader that cannot seek: Rewind reports -1 and the stream simply continues
		emit("rewind-plain", scenario{kind: r.Intn(2) * 2, optSize: 188, fault: -1, data: data, ops: []int{1, 1, 2, 3}}.tok())
	}
	// a unit of three and of four sections (so that two or three data wait in the buffer): a Rewind after every number of
	// calls, exhaustively
	for k := 0; k < scale(tier, 2, 10); k++ {
		pmt := &refSection{TableID: 2, Ext: uint16(1 + k), Version: byte(r.Intn(32)), PCRPID: 0x101, Streams: []refStream{{Type: 0x1b, PID: 0x101}}}
		pat := &refSection{TableID: 0, Ext: 7, Version: 1, Programs: []refProgram{{Number: uint16(1 + k), PID: 0x40}}}
		var d []byte
		ccs := map[uint16]*byte{0: new(byte), 0x40: new(byte), 0x101: new(byte)}
		put := func(u *refUnit) {
			for _, p := range packetiseUnit(r, u, 0, ccs[u.PID], false) {
				d = append(d, p.encode()...)
			}
		}
		put(refPSI(r, 0, []*refSection{pat}))
		secs := []*refSection{pmt, pmt, pmt}
		if k%2 == 1 {
			secs = append(secs, pmt)
		}
		put(refPSI(r, 0x40, secs))
		put(refMuxPES(r, 0x101, 0xe0, 100, false))
		put(refPSI(r, 0x40, secs))
		put(refMuxPES(r, 0x101, 0xe0, 50, false))
		total := len(runScenario(scenario{kind: 1, optSize: 188, fault: -1, data: d, ops: []int{3}}).results)
		for calls := 0; calls <= total; calls++ {
			ops := []int{}
			for j := 0; j < calls; j++ {
				ops = append(ops, 1)
			}
			emit("rewind-inside-batch", scenario{kind: 1, optSize: []int{188, 0}[calls%2], fault: -1, data: d, ops: append(append(ops, 2), 3)}.tok())
		}
	}
	// long histories of rewinds on streams whose PAT names two PMT PIDs in two sections, or two programs on one PMT
	// PID, repeated several times per pass: 130..260 rewinds after one to three calls each, or after whole passes
	for k := 0; k < scale(tier, 6, 40); k++ {
		m := genRefStream(r, streamOpts{PESPIDs: r.Range(1, 2), UnitsPerPID: 2, MaxPES: 200, Tables: true, Repeats: r.Range(1, 3), TwoPMTPIDs: k%2 == 0, SharedPMT: k%2 == 1})
		data := m.bytes()
		total := len(runScenario(scenario{kind: 1, optSize: 188, fault: -1, data: data, ops: []int{3}}).results)
		var ops []int
		for j := r.Range(130, 260); j > 0; j-- {
			n := r.Range(1, 3)
			if k%3 == 2 && j%8 == 0 {
				n = total // a whole pass, the last call returning ErrNoMorePackets
			}
			for c := n; c > 0; c-- {
				ops = append(ops, 1)
			}
			ops = append(ops, 2)
		}
		ops = append(ops, 3)
		emit("rewind-many", scenario{kind: 1, optSize: []int{188, 0}[k%2], fault: -1, data: data, ops: ops}.tok())
	}
}

func oracleC20(s scenario, run *demuxRun) string {
	if s.kind%10 != 1 {
		return ""
	}
	// split the results at the last Rewind
	lastRw := -1
	idx := 0
	for _, op := range s.ops {
		if op == 2 {
			lastRw = idx
		}
		if op == 3 || op == 4 {
			break
		}
		idx++
	}
	if lastRw < 0 {
		return ""
	}
	for i, op := range s.ops {
		if op == 2 && i < len(run.results) {
			rw := run.results[i]
			if rw.At(0).Int() != 0 || rw.At(1).Int() != 0 {
				return fmt.Sprintf("Rewind returned offset %d (reader position %d), want 0 and no error", rw.At(0).Int(), rw.At(1).Int())
			}
			st := rw.At(2)
			if st.At(0).Int() != 0 || len(st.At(1).L) != 0 || len(st.At(2).L) != 0 {
				return "state after Rewind is not clean (data buffer, packet buffer or pool not reset): " + st.String()
			}
		}
	}
	fresh := runScenario(scenario{kind: 1, optSize: s.optSize, fault: -1, data: s.data, ops: []int{3}})
	// every Rewind, not only the last one: the calls that follow it, up to the next Rewind, return what the first calls
	// of a fresh Demuxer return (NextData calls only; the history before the final op is one result per op)
	for i := 0; i < lastRw; i++ {
		if s.ops[i] != 2 {
			continue
		}
		k := 0
		for j := i + 1; j < lastRw && s.ops[j] == 1; j++ {
			if j < len(run.results) && k < len(fresh.results) {
				if a, b := run.results[j].At(0).String(), fresh.results[k].At(0).String(); a != b {
					return fmt.Sprintf("call %d after the Rewind at step %d differs from call %d of a fresh Demuxer: %s vs %s", k+1, i, k+1, c12Clip(a), c12Clip(b))
				}
			}
			k++
		}
	}
	var after []string
	for i := lastRw + 1; i < len(run.results); i++ {
		after = append(after, run.results[i].At(0).String())
	}
	var want []string
	for _, r := range fresh.results {
		want = append(want, r.At(0).String())
	}
	if d := diffSeq(after, want); d != "" {
		return "data after Rewind differ from a fresh Demuxer's: " + d
	}
	return ""
}

// ---------------- C08: reads, reader kinds, framing ----------------

func widen(data []byte, k int, r *Rng) []byte {
	out := make([]byte, 0, len(data)/188*(188+k))
	for off := 0; off+188 <= len(data); off += 188 {
		out = append(out, data[off])
		for j := 0; j < k; j++ {
			b := byte(r.Intn(256))
			if b == 0x47 {
				b = 0x48
			}
			out = append(out, b)
		}
		out = append(out, data[off+1:off+188]...)
	}
	return out
}

func genC08(r *Rng, tier string, emit func(string, Tok)) {
	n := scale(tier, 6, 40)
	for k := 0; k < n; k++ {
		m := randStream(r, true)
		data := m.bytes()
		for _, op := range []int{3, 4} {
			emit("base", scenario{kind: 1, optSize: 188, fault: -1, data: data, ops: []int{op}}.tok())
			for kind := 0; kind < 3; kind++ {
				for _, opt := range []int{188, 0} {
					var scheds [][]int
					for _, c := range []int{1, 2, 3, 7, 64, 100, 187, 188, 189, 192, 193, 194, 376, 400} {
						scheds = append(scheds, []int{c})
					}
					if tier == "thorough" {
						for c := 1; c <= 400; c++ {
							scheds = append(scheds, []int{c})
						}
					}
					for j := 0; j < scale(tier, 4, 12); j++ {
						rs := make([]int, r.Range(2, 9))
						for i := range rs {
							rs[i] = r.Range(1, 400)
						}
						scheds = append(scheds, rs)
					}
					for j := 0; j < scale(tier, 6, 40); j++ { // a boundary at an offset of the first 400 bytes
						scheds = append(scheds, []int{r.Range(1, 400), 100000})
					}
					for _, sc := range scheds {
						if tier != "thorough" && r.Chance(1, 2) {
							continue
						}
						kk := kind
						if r.Chance(1, 4) {
							kk += 10
						}
						emit(fmt.Sprintf("chunks-kind%d-opt%d", kind, opt), scenario{kind: kk, optSize: opt, fault: -1, chunks: sc, data: data, ops: []int{op}}.tok())
					}
				}
			}
			// wider packets
			for _, extra := range []int{1, 2, 3, 4, 16, r.Range(5, 40)} {
				w := widen(data, extra, r)
				emit("wide-explicit", scenario{kind: r.Intn(3), optSize: 188 + extra, fault: -1, chunks: []int{r.Range(1, 300)}, data: w, ops: []int{op}}.tok())
				// a bufio.Reader whose buffer is smaller than, equal to or just larger than one packet (explicit size: the
				// Demuxer never peeks, any buffer size must do)
				emit("wide-explicit-bufio-size", scenario{kind: 2, optSize: 188 + extra, fault: -1, chunks: []int{r.Range(1, 300)}, data: w, ops: []int{op},
					bufSize: []int{16, 100, 187, 188, 188 + extra - 1, 188 + extra, 188 + extra + 1, 193, 400}[r.Intn(9)]}.tok())
				if extra <= 4 {
					emit("wide-auto", scenario{kind: 1 + r.Intn(2), optSize: 0, fault: -1, chunks: []int{r.Range(1, 300)}, data: w, ops: []int{op}}.tok())
				}
				if extra >= 1 && extra <= 3 && len(w) >= 2*(188+extra) {
					// a 0x47 at stream offset 192 (inside the second packet: its counter byte, PID low byte or PUSI/PID high
					// byte): the second sync byte is at 188+extra, before it
					w2 := append([]byte{}, w...)
					w2[192] = 0x47
					emit("wide-auto-0x47-at-192", scenario{kind: 1 + r.Intn(2), optSize: 0, fault: -1, chunks: []int{r.Range(1, 300)}, data: w2, ops: []int{op}}.tok())
				}
			}
		}
	}
}

func resultSeq(run *demuxRun) []string {
	var out []string
	for _, r := range run.results {
		out = append(out, r.At(0).String())
	}
	return out
}

func oracleC08(s scenario, run *demuxRun) string {
	size := s.optSize
	base := s.data
	if size == 0 {
		// the packet size the stream was built with: distance to the second sync byte the generator placed
		size = 188
		for k := 188; k <= 192 && k < len(s.data); k++ {
			if s.data[k] == 0x47 {
				size = k
				break
			}
		}
	}
	if size != 188 { // narrow the wide stream back to its 188-byte form
		var nb []byte
		for off := 0; off+size <= len(s.data); off += size {
			nb = append(nb, s.data[off])
			nb = append(nb, s.data[off+size-187:off+size]...)
		}
		base = nb
	}
	if s.optSize == 0 && s.kind%10 == 0 && len(base) >= 2*188 {
		base = base[2*188:] // the documented resynchronisation of a reader that can neither seek nor peek
	} else if s.optSize == 0 && s.kind%10 == 0 {
		return ""
	}
	ref := runScenario(scenario{kind: 1, optSize: 188, fault: -1, data: base, ops: s.ops})
	if d := diffSeq(resultSeq(run), resultSeq(ref)); d != "" {
		return fmt.Sprintf("output differs from the whole-read, seekable, explicit-size run (kind %d, size option %d, chunks %v): %s", s.kind, s.optSize, s.chunks, d)
	}
	return ""
}

// ---------------- C03: termination, no panic ----------------

func genC03(r *Rng, tier string, emit func(string, Tok)) {
	n := scale(tier, 60, 600)
	ops := func(r *Rng) []int {
		if r.Bool() {
			return []int{3, 1, 1, 0}
		}
		return []int{4, 0, 0, 1}
	}
	sizes := func(r *Rng) int { return []int{0, 188, 192, 204, 188 + r.Intn(60)}[r.Intn(5)] }
	emit("empty", scenario{kind: 0, optSize: 0, fault: -1, data: nil, ops: []int{3, 1, 0}}.tok())
	for kind := 0; kind < 3; kind++ {
		for _, sz := range []int{0, 188, 192} {
			emit("empty", scenario{kind: kind, optSize: sz, fault: -1, data: nil, ops: []int{4, 0, 1}}.tok())
			emit("one-byte", scenario{kind: kind, optSize: sz, fault: -1, data: []byte{0x47}, ops: []int{3, 1, 0}}.tok())
		}
	}
	// streams that do not start with a sync byte (a capture that starts mid-packet), every reader kind and size option
	for kind := 0; kind < 3; kind++ {
		for _, sz := range []int{0, 188, 204} {
			for _, ln := range []int{1, 100, 192, 193, 194, 400, 1000} {
				d := r.Bytes(ln)
				if d[0] == 0x47 {
					d[0] = 0x48
				}
				for off := 188; off < len(d); off += 188 {
					if r.Bool() {
						d[off] = 0x47
					}
				}
				emit("no-sync-start", scenario{kind: kind + 10*r.Intn(2), optSize: sz, fault: -1, chunks: []int{r.Range(1, 300)}, data: d, ops: ops(r)}.tok())
			}
		}
	}
	for k := 0; k < n; k++ {
		var data []byte
		kindName := "random"
		switch r.Intn(4) {
		case 0:
			data = r.Bytes(r.Range(0, 1200))
			if len(data) > 0 && r.Bool() {
				data[0] = 0x47
				for off := 188; off < len(data); off += 188 {
					data[off] = 0x47
				}
			}
		default:
			m := randStream(r, true)
			data = m.bytes()
			kindName = "mutated"
			for j := r.Intn(12); j > 0; j-- {
				i := r.Intn(len(data))
				switch r.Intn(3) {
				case 0:
					data[i] ^= 1 << uint(r.Intn(8))
				case 1:
					data[i] = byte(r.Intn(256))
				case 2:
					if i+4 < len(data) {
						data[i+1], data[i+2], data[i+3] = 0xff, 0xff, 0xff
					}
				}
			}
			if r.Chance(1, 3) {
				data = data[:r.Intn(len(data)+1)]
				kindName = "truncated"
			}
		}
		emit(kindName, scenario{kind: r.Intn(3) + 10*r.Intn(2), optSize: sizes(r), fault: -1, chunks: []int{r.Range(1, 500)}, data: data, ops: ops(r)}.tok())
	}
	// lost packets right before a unit start, and unit starts carrying the discontinuity indicator: the accumulator
	// flushes an empty group there
	for k := 0; k < scale(tier, 12, 80); k++ {
		m := randStream(r, true)
		data := m.bytes()
		var d []byte
		np := len(data) / 188
		for i := 0; i < np; i++ {
			b := data[188*i : 188*i+188]
			next := i+1 < np && data[188*(i+1)+1]&0x40 != 0 && data[188*(i+1)+1]&0x1f == b[1]&0x1f && data[188*(i+1)+2] == b[2]
			if next && r.Chance(1, 2) {
				continue // drop the last packet of a unit
			}
			c := append([]byte{}, b...)
			if c[1]&0x40 != 0 && c[3]&0x20 != 0 && c[4] > 0 && r.Chance(1, 3) {
				c[5] |= 0x80 // discontinuity_indicator on a unit start
			}
			d = append(d, c...)
		}
		emit("gap-before-unit-start", scenario{kind: r.Intn(3), optSize: 188, fault: -1, data: d, ops: ops(r)}.tok())
	}
	// a payload unit that starts right after a loss (continuity counter jumps on a PUSI packet) or on a packet whose
	// adaptation field signals a discontinuity: the accumulator is reset and hands out an empty flushed set
	for k := 0; k < scale(tier, 16, 160); k++ {
		m := randStream(r, true)
		data := m.bytes()
		seen := map[int]bool{}
		for off := 0; off+188 <= len(data); off += 188 {
			p := data[off : off+188]
			pid := int(p[1]&0x1f)<<8 | int(p[2])
			if p[1]&0x40 != 0 && seen[pid] && r.Chance(1, 2) {
				if p[3]&0x20 != 0 && p[4] > 0 && r.Bool() {
					p[5] |= 0x80 // discontinuity_indicator
				} else {
					p[3] = p[3]&0xf0 | (p[3]+byte(r.Range(2, 14)))&0x0f
				}
			}
			seen[pid] = true
		}
		emit("pusi-after-loss", scenario{kind: r.Intn(3), optSize: []int{0, 188}[r.Intn(2)], fault: -1, chunks: []int{r.Range(1, 500)}, data: data, ops: ops(r)}.tok())
	}
	// hostile length fields: PES units whose PES_header_data_length / PES_packet_length contradict each other and the
	// bytes present (header data length 250..255, packet length 0..12 and around header length + 3), spread over one
	// to three packets; sections whose section_length / descriptor loop lengths point past the unit
	pesHostile := func(hdl, plen, total int) []byte {
		b := []byte{0, 0, 1, byte([]int{0xe0, 0xc0, 0xbd}[r.Intn(3)]), byte(plen >> 8), byte(plen), 0x80 | byte(r.Intn(16)), byte(r.Intn(256)), byte(hdl)}
		return append(b, r.Bytes(total-len(b))...)
	}
	for _, hdl := range []int{0, 5, 200, 250, 252, 253, 254, 255} {
		plens := []int{0, 1, 2, 3, hdl, hdl + 1, hdl + 2, hdl + 3, hdl + 4, 65535}
		if tier != "thorough" {
			plens = []int{1, 3, hdl + 2, hdl + 3, []int{0, 2, hdl, hdl + 1, hdl + 4, 65535}[r.Intn(6)]}
		}
		for _, plen := range plens {
			for _, total := range []int{r.Range(9, 180), r.Range(262, 360), r.Range(400, 540)} {
				u := &refUnit{PID: 0x200, Bytes: pesHostile(hdl, plen&0xffff, total)}
				cc := byte(r.Intn(16))
				var d []byte
				for _, p := range packetiseUnit(r, u, 0, &cc, false) {
					d = append(d, p.encode()...)
				}
				// a second unit start so that the first one is flushed by a packet, not by the end of the stream
				u2 := &refUnit{PID: 0x200, Bytes: pesHostile(0, 0, 20)}
				for _, p := range packetiseUnit(r, u2, 1, &cc, false) {
					d = append(d, p.encode()...)
				}
				emit("pes-hostile-lengths", scenario{kind: r.Intn(3), optSize: 188, fault: -1, data: d, ops: []int{3, 1, 0}}.tok())
			}
		}
	}
	// sections whose section_length is too short for what their table id promises (0..12 for the tables that carry a
	// syntax header and a CRC_32), and descriptors of every tag with a length of 0..6 inside a PMT and an SDT: the
	// parsers index what is not there unless every length is checked
	mkPSI := func(pid uint16, unit []byte) []byte {
		cc := byte(r.Intn(16))
		u := &refUnit{PID: pid, IsPSI: true, Bytes: unit, MinFirst: len(unit), TailFF: r.Bool()}
		var d []byte
		for _, p := range packetiseUnit(r, u, 0, &cc, false) {
			d = append(d, p.encode()...)
		}
		return d
	}
	for _, tid := range []int{0x00, 0x02, 0x40, 0x42, 0x46, 0x4e, 0x4f, 0x50, 0x73, 0x70, 0x72} {
		for sl := 0; sl <= 12; sl++ {
			if tier != "thorough" && sl > 5 && r.Chance(1, 2) {
				continue
			}
			unit := append([]byte{0, byte(tid), 0xb0 | byte(sl>>8), byte(sl)}, r.Bytes(sl)...)
			unit = append(unit, r.Bytes(r.Intn(8))...)
			pid := uint16([]int{0, 0x11, 0x12, 0x14, 0x10}[r.Intn(5)])
			emit("tiny-section-length", scenario{kind: r.Intn(3), optSize: 188, fault: -1, data: mkPSI(pid, unit), ops: []int{3, 1, 0}}.tok())
		}
	}
	for tag := 0; tag < 256; tag++ {
		if _, typed := c14TagName[uint8(tag)]; tier != "thorough" && !typed && tag%16 != 0 {
			continue // quick: every typed tag, a sample of the others
		}
		for dl := 0; dl <= 6; dl++ {
			desc := append([]byte{byte(tag), byte(dl)}, r.Bytes(dl)...)
			// a PMT (table_id 2) with this descriptor in its program loop and in one stream's loop, CRC not repaired:
			// descriptors are parsed before the CRC is looked at
			body := []byte{0x00, 0x01, 0xc1, 0x00, 0x00, 0xe1, 0x00, 0xf0, byte(len(desc))}
			body = append(body, desc...)
			body = append(body, 0x1b, 0xe1, 0x01, 0xf0, byte(len(desc)))
			body = append(body, desc...)
			body = append(body, r.Bytes(4)...)
			unit := append([]byte{0, 0x02, 0xb0, byte(len(body))}, body...)
			pid := uint16([]int{0x12, 0x11, 0x14}[r.Intn(3)]) // parsed as PSI without a PAT
			emit("tiny-descriptors", scenario{kind: r.Intn(3), optSize: 188, fault: -1, data: mkPSI(pid, unit), ops: []int{3, 1, 0}}.tok())
		}
	}
	// packets that carry the payload flag and no payload byte (adaptation_field_length 183 with adaptation_field_control
	// '11': not conformant, but a receiver sees such packets), first / middle / last in the queue of a PSI PID and of a
	// PES PID, followed by continuations
	for k := 0; k < scale(tier, 40, 400); k++ {
		pid := uint16([]int{0, 0, 0x11, 0x300}[r.Intn(4)])
		cc := byte(r.Intn(16))
		var d []byte
		for j := r.Range(2, 6); j > 0; j-- {
			cc = (cc + 1) & 15
			p := &refPacket{PID: pid, PUSI: r.Chance(1, 3), CC: cc, AFLen: -1}
			switch r.Intn(3) {
			case 0:
				p.AFLen, p.Payload = 183, []byte{} // payload flag, zero bytes
			case 1:
				n := r.Range(1, 10)
				p.AFLen, p.Payload = 183-n, r.Bytes(n)
			default:
				p.Payload = r.Bytes(184)
				if r.Bool() {
					copy(p.Payload, []byte{0, 0, 0xb0, byte(r.Range(5, 60))})
				}
			}
			d = append(d, p.encode()...)
		}
		emit("empty-payload-packets", scenario{kind: r.Intn(3), optSize: 188, fault: -1, data: d, ops: []int{3, 1, 0}}.tok())
	}
	// truncation at every offset of a small stream
	m := genRefStream(r, streamOpts{PESPIDs: 1, UnitsPerPID: 2, MaxPES: 200, Tables: true})
	data := m.bytes()
	step := 1
	if tier != "thorough" {
		step = 7
	}
	for cut := 0; cut <= len(data); cut += step {
		emit("cut-every-offset", scenario{kind: (cut / step) % 3, optSize: []int{0, 188}[(cut/step)%2], fault: -1, data: data[:cut], ops: []int{3, 1, 0}}.tok())
	}
}

func oracleC03(s scenario, run *demuxRun) string {
	// after the first nomore, every later call returns nomore again
	seen := false
	for _, e := range run.errs {
		if seen && !errors.Is(e, astits.ErrNoMorePackets) {
			return "a call after ErrNoMorePackets did not return ErrNoMorePackets"
		}
		if errors.Is(e, astits.ErrNoMorePackets) {
			seen = true
		}
	}
	if !seen {
		return "ErrNoMorePackets was never reached"
	}
	// the number of calls is bounded by the input length
	if len(run.errs) > 3*len(s.data)+8 {
		return "more calls than the input length allows"
	}
	return ""
}

// ---------------- C02: exactly the units a stream carries ----------------

func genC02(r *Rng, tier string, emit func(string, Tok)) {
	// K3: a long PAT section that ends in the packet in which the next section starts (pointer_field > 0)
	for k := 0; k < scale(tier, 2, 10); k++ {
		s1 := &refSection{TableID: 0, Ext: uint16(r.Bits(16)), Version: byte(r.Intn(32))}
		for j := 0; j < r.Range(46, 60); j++ {
			s1.Programs = append(s1.Programs, refProgram{Number: uint16(1 + j), PID: uint16(0x30 + j)})
		}
		s2 := &refSection{TableID: 0, Ext: s1.Ext, Version: s1.Version, Programs: []refProgram{{Number: 900, PID: 0x90}}}
		e1, e2 := s1.encode(), s2.encode()
		cc := byte(r.Intn(16))
		var d []byte
		p1 := &refPacket{PID: 0, PUSI: true, CC: cc, AFLen: -1, Payload: append([]byte{0}, e1[:183]...)}
		tail := e1[183:]
		pl := append(append([]byte{byte(len(tail))}, tail...), e2...)
		p2 := &refPacket{PID: 0, PUSI: true, CC: (cc + 1) & 15, AFLen: -1, Payload: pl}
		for len(p2.Payload) < 184 {
			p2.Payload = append(p2.Payload, 0xff)
		}
		d = append(append(d, p1.encode()...), p2.encode()...)
		emit("straddle", scenario{kind: 1, optSize: 188, fault: -1, data: d, ops: []int{3}}.tok())
	}
	n := scale(tier, 120, 1500)
	for k := 0; k < n; k++ {
		m := genRefStream(r, streamOpts{PESPIDs: r.Range(1, 7), UnitsPerPID: r.Range(1, 4), MaxPES: []int{60, 400, 1500, 70000}[r.Intn(4)%(3+r.Intn(2))],
			Tables: true, Fillers: r.Bool(), SmallChunks: r.Chance(1, 3), Repeats: r.Intn(3)})
		emit("stream", scenario{kind: r.Intn(2), optSize: 188, fault: -1, data: m.bytes(), ops: []int{3}}.tok())
	}
	// the PMT on a PID DVB reserves for SI (legal in MPEG); two PMT PIDs announced by two PAT sections
	for k := 0; k < scale(tier, 8, 80); k++ {
		m := genRefStream(r, streamOpts{PESPIDs: r.Range(1, 3), UnitsPerPID: 2, MaxPES: 300, Tables: true, Repeats: r.Intn(2), DVBPMTPID: k%2 == 0, TwoPMTPIDs: k%2 == 1, SmallChunks: r.Bool()})
		emit("pmt-pid-kinds", scenario{kind: r.Intn(2), optSize: 188, fault: -1, data: m.bytes(), ops: []int{3}}.tok())
	}
	// sections of the largest legal size (section_length 1021: a PAT of 253 programs) and just below, cut at random
	for _, np := range scaleList(tier, []int{253, 252}, []int{253, 252, 251, 200, 253, 253}) {
		s1 := &refSection{TableID: 0, Ext: uint16(r.Bits(16)), Version: byte(r.Intn(32))}
		for j := 0; j < np; j++ {
			s1.Programs = append(s1.Programs, refProgram{Number: uint16(1 + j), PID: uint16(0x30 + j)})
		}
		u := refPSI(r, 0, []*refSection{s1})
		cc := byte(r.Intn(16))
		var d []byte
		for _, p := range packetiseUnit(r, u, 0, &cc, r.Bool()) {
			d = append(d, p.encode()...)
		}
		u2 := refPSI(r, 0, []*refSection{{TableID: 0, Ext: s1.Ext, Version: s1.Version, Programs: []refProgram{{Number: 1, PID: 0x30}}}})
		for _, p := range packetiseUnit(r, u2, 1, &cc, false) {
			d = append(d, p.encode()...)
		}
		emit("largest-section", scenario{kind: 1, optSize: 188, fault: -1, data: d, ops: []int{3}}.tok())
	}
	// bounded PES units at the top of the 16-bit PES_packet_length range (every value 65520..65535 in the thorough
	// tier), followed by another unit of the PID so that they are flushed by a unit start, not by the end of the stream
	tops := []int{65529, 65530, 65533, 65535}
	if tier == "thorough" {
		tops = nil
		for t := 65520; t <= 65535; t++ {
			tops = append(tops, t)
		}
	}
	for _, t := range tops {
		m := genRefStream(r, streamOpts{PESPIDs: 2, UnitsPerPID: 2, MaxPES: 300, Tables: true, PESTotals: []int{t, 200 + r.Intn(100)}})
		emit("pes-length-top", scenario{kind: r.Intn(2), optSize: 188, fault: -1, data: m.bytes(), ops: []int{3}}.tok())
	}
	// one unit spread over several thousand packets (one or two payload bytes each), other PIDs interleaved
	for _, np := range scaleList(tier, []int{4100}, []int{1000, 4096, 4097, 8200, 16400}) {
		m := genRefStream(r, streamOpts{PESPIDs: 2, UnitsPerPID: 2, MaxPES: 300, Tables: true, LongUnit: np})
		emit("long-unit", scenario{kind: 1, optSize: 188, fault: -1, data: m.bytes(), ops: []int{3}}.tok())
	}
}

func scaleList(tier string, quick, thorough []int) []int {
	if tier == "thorough" {
		return thorough
	}
	return quick
}

// unitsOf re-derives the unit model from the bytes of a reference stream: per PID, the list of unit payloads
// (concatenated payload bytes from one PUSI packet to the next), plus the index of each unit's last packet.
type obsUnit struct {
	pid     uint16
	payload []byte
	lastPkt int
}

func unitsOf(data []byte) map[uint16][]*obsUnit {
	out := map[uint16][]*obsUnit{}
	for off, idx := 0, 0; off+188 <= len(data); off, idx = off+188, idx+1 {
		b := data[off : off+188]
		if b[1]&0x80 != 0 || b[3]&0x10 == 0 {
			continue
		}
		pid := uint16(b[1]&0x1f)<<8 | uint16(b[2])
		if pid == 0x1fff {
			continue
		}
		p := 4
		if b[3]&0x20 != 0 {
			p += 1 + int(b[4])
		}
		if p > 188 {
			p = 188
		}
		if b[1]&0x40 != 0 {
			out[pid] = append(out[pid], &obsUnit{pid: pid})
		}
		if len(out[pid]) == 0 {
			continue
		}
		u := out[pid][len(out[pid])-1]
		u.payload = append(u.payload, b[p:]...)
		u.lastPkt = idx
	}
	return out
}

// refDecodeUnit decodes one unit independently of the library: PES -> ("pes", stream id, data); PSI -> one entry per section.
func refDecodeUnit(u *obsUnit, psi bool) (res []string) {
	// a truncated or otherwise undecodable unit decodes to nothing
	defer func() {
		if recover() != nil {
			res = nil
		}
	}()
	b := u.payload
	if !psi {
		if len(b) < 6 || b[0] != 0 || b[1] != 0 || b[2] != 1 {
			return nil
		}
		sid := b[3]
		l := int(b[4])<<8 | int(b[5])
		end := len(b)
		if l > 0 {
			end = 6 + l
		}
		start := 6
		pts := int64(-1)
		if sid != 0xbe && sid != 0xbf {
			start = 9 + int(b[8])
			if b[7]&0x80 != 0 {
				pts = int64(b[9]>>1&7)<<30 | int64(b[10])<<22 | int64(b[11]>>1)<<15 | int64(b[12])<<7 | int64(b[13]>>1)
			}
		}
		if end > len(b) || start > end {
			return nil
		}
		return []string{fmt.Sprintf("pes sid=%d pts=%d len=%d data=%x", sid, pts, l, b[start:end])}
	}
	var out []string
	p := 1 + int(b[0])
	for p < len(b) && b[p] != 0xff {
		tid := b[p]
		l := int(b[p+1]&0x0f)<<8 | int(b[p+2])
		if p+3+l > len(b) || l < 9 {
			return nil
		}
		sec := b[p : p+3+l]
		body := sec[8 : len(sec)-4]
		ext := int(sec[3])<<8 | int(sec[4])
		switch tid {
		case 0:
			s := fmt.Sprintf("pat tsid=%d", ext)
			for q := 0; q+4 <= len(body); q += 4 {
				s += fmt.Sprintf(" %d:%d", int(body[q])<<8|int(body[q+1]), int(body[q+2]&0x1f)<<8|int(body[q+3]))
			}
			out = append(out, s)
		case 2:
			s := fmt.Sprintf("pmt pn=%d pcr=%d", ext, int(body[0]&0x1f)<<8|int(body[1]))
			q := 4 + (int(body[2]&0x0f)<<8 | int(body[3]))
			for q+5 <= len(body) {
				il := int(body[q+3]&0x0f)<<8 | int(body[q+4])
				s += fmt.Sprintf(" %d:%d:%x", body[q], int(body[q+1]&0x1f)<<8|int(body[q+2]), body[q+5:q+5+il])
				q += 5 + il
			}
			out = append(out, s)
		}
		p += 3 + l
	}
	return out
}

func describeData(d *astits.DemuxerData) string {
	switch {
	case d.PES != nil:
		pts := int64(-1)
		if d.PES.Header.OptionalHeader != nil && d.PES.Header.OptionalHeader.PTS != nil {
			pts = d.PES.Header.OptionalHeader.PTS.Base
		}
		return fmt.Sprintf("pes sid=%d pts=%d len=%d data=%x", d.PES.Header.StreamID, pts, d.PES.Header.PacketLength, d.PES.Data)
	case d.PAT != nil:
		s := fmt.Sprintf("pat tsid=%d", d.PAT.TransportStreamID)
		for _, p := range d.PAT.Programs {
			s += fmt.Sprintf(" %d:%d", p.ProgramNumber, p.ProgramMapID)
		}
		return s
	case d.PMT != nil:
		s := fmt.Sprintf("pmt pn=%d pcr=%d", d.PMT.ProgramNumber, d.PMT.PCRPID)
		for _, e := range d.PMT.ElementaryStreams {
			var desc []byte
			for _, x := range e.ElementaryStreamDescriptors {
				desc = append(desc, x.Tag, x.Length)
				desc = append(desc, x.UserDefined...)
				if x.Unknown != nil {
					desc = append(desc, x.Unknown.Content...)
				}
			}
			s += fmt.Sprintf(" %d:%d:%x", uint8(e.StreamType), e.ElementaryPID, desc)
		}
		return s
	}
	return "other"
}

// psiPIDs: PID 0 and the PMT PIDs announced by the PATs of the stream (the generator keeps PAT before PMT)
func psiPIDsOf(units map[uint16][]*obsUnit) map[uint16]bool {
	out := map[uint16]bool{0: true}
	for _, u := range units[0] {
		for _, d := range refDecodeUnit(u, true) {
			var tsid int
			var rest string
			fmt.Sscanf(d, "pat tsid=%d", &tsid)
			_ = rest
			// parse " n:pid" pairs
			fields := []byte(d)
			_ = fields
			var n, pid int
			for i := 0; i < len(d); i++ {
				if d[i] == ' ' {
					if k, _ := fmt.Sscanf(d[i+1:], "%d:%d", &n, &pid); k == 2 && n > 0 {
						out[uint16(pid)] = true
					}
				}
			}
		}
	}
	return out
}

// isoPATSections re-assembles the sections carried on PID 0 the way ISO 13818-1 2.4.4 defines it: in a packet with
// payload_unit_start the pointer_field bytes that precede the first new section continue the section in progress.
// straddles = number of sections that were continued after a non-zero pointer_field.
func isoPATSections(data []byte) (secs []string, straddles int) {
	var cur []byte                   // section in progress
	need := 0                        // total size of the section in progress (0 = none)
	parse := func(b []byte) []byte { // start new sections from b; returns the unfinished remainder
		for len(b) > 0 && b[0] != 0xff {
			if len(b) < 3 {
				return b
			}
			n := 3 + (int(b[1]&0x0f)<<8 | int(b[2]))
			if len(b) < n {
				return b
			}
			secs = append(secs, refDecodeUnit(&obsUnit{pid: 0, payload: append([]byte{0}, b[:n]...)}, true)...)
			b = b[n:]
		}
		return nil
	}
	for off := 0; off+188 <= len(data); off += 188 {
		b := data[off : off+188]
		if b[1]&0x80 != 0 || b[3]&0x10 == 0 || (int(b[1]&0x1f)<<8|int(b[2])) != 0 {
			continue
		}
		p := 4
		if b[3]&0x20 != 0 {
			p += 1 + int(b[4])
		}
		if p >= 188 {
			continue
		}
		pl := b[p:]
		if b[1]&0x40 != 0 {
			ptr := int(pl[0])
			if 1+ptr > len(pl) {
				continue
			}
			if need > 0 {
				cur = append(cur, pl[1:1+ptr]...)
				if len(cur) >= need {
					parse(cur[:need])
					if ptr > 0 {
						straddles++
					}
				}
			}
			cur, need = nil, 0
			rest := parse(pl[1+ptr:])
			if len(rest) >= 3 {
				cur = append([]byte{}, rest...)
				need = 3 + (int(rest[1]&0x0f)<<8 | int(rest[2]))
			}
		} else if need > 0 {
			cur = append(cur, pl...)
			if len(cur) >= need {
				parse(cur[:need])
				cur, need = nil, 0
			}
		}
	}
	return
}

func oracleC02(s scenario, run *demuxRun) string {
	if iso, straddles := isoPATSections(s.data); straddles > 0 {
		var gotPAT []string
		for _, d := range run.data {
			if d != nil && d.PID == 0 {
				gotPAT = append(gotPAT, describeData(d))
			}
		}
		if d := diffSeq(gotPAT, iso); d != "" {
			return "K3: a section continued after a non-zero pointer_field (ISO 13818-1 2.4.4) is not re-assembled: " + d
		}
		return ""
	}
	units := unitsOf(s.data)
	psi := psiPIDsOf(units)
	want := map[uint16][]string{}
	lastPktOfFirstSection := map[string][]int{} // description -> packet indexes, for the no-read-ahead clause
	for pid, us := range units {
		for _, u := range us {
			ds := refDecodeUnit(u, psi[pid])
			want[pid] = append(want[pid], ds...)
			if psi[pid] && len(ds) > 0 {
				lastPktOfFirstSection[fmt.Sprint(pid, ds[0])] = append(lastPktOfFirstSection[fmt.Sprint(pid, ds[0])], u.lastPkt)
			}
		}
	}
	got := map[uint16][]string{}
	seenSection := map[string]int{}
	for i, d := range run.data {
		if d == nil {
			if run.errs[i] != nil && !errors.Is(run.errs[i], astits.ErrNoMorePackets) {
				return "NextData reported an error on a well-formed stream: " + run.errs[i].Error()
			}
			continue
		}
		desc := describeData(d)
		got[d.PID] = append(got[d.PID], desc)
		// a PAT/PMT is returned by the call that reads its final packet
		if psi[d.PID] {
			key := fmt.Sprint(d.PID, desc)
			if idxs, ok := lastPktOfFirstSection[key]; ok {
				k := seenSection[key]
				// only the first section of a unit is tied to a read; later sections come from the buffer
				if k < len(idxs) && i > 0 && run.posAt[i] != run.posAt[i-1] || (k < len(idxs) && i == 0) {
					if run.posAt[i] != 188*(idxs[k]+1) {
						return fmt.Sprintf("table on PID %d returned after %d bytes were consumed; its final packet ends at byte %d", d.PID, run.posAt[i], 188*(idxs[k]+1))
					}
					seenSection[key] = k + 1
				}
			}
		}
	}
	var pids []int
	for pid := range want {
		pids = append(pids, int(pid))
	}
	for pid := range got {
		if _, ok := want[pid]; !ok {
			pids = append(pids, int(pid))
		}
	}
	sort.Ints(pids)
	for _, p := range pids {
		if d := diffSeq(got[uint16(p)], want[uint16(p)]); d != "" {
			return fmt.Sprintf("PID %d: delivered units differ from the units the stream carries: %s", p, d)
		}
	}
	return ""
}

// ---------------- C06: duplicates and loss ----------------

func pktAt(data []byte, i int) []byte { return data[188*i : 188*i+188] }

func genC06(r *Rng, tier string, emit func(string, Tok)) {
	n := scale(tier, 8, 60)
	for k := 0; k < n; k++ {
		m := genRefStream(r, streamOpts{PESPIDs: r.Range(1, 3), UnitsPerPID: r.Range(2, 4), MaxPES: 900, Tables: true, Fillers: r.Chance(1, 3), SmallChunks: r.Chance(1, 3), Repeats: r.Intn(2)})
		data := m.bytes()
		np := len(data) / 188
		emit("clean", scenario{kind: 1, optSize: 188, fault: -1, prsSpec: L(I(1)), data: data, ops: []int{3}}.tok())
		for i := 0; i < np; i++ { // every single-packet duplication
			d := append(append(append([]byte{}, data[:188*(i+1)]...), pktAt(data, i)...), data[188*(i+1):]...)
			emit("dup-one", scenario{kind: 1, optSize: 188, fault: -1, prsSpec: L(I(1)), data: d, ops: []int{3}}.tok())
		}
		for i := 0; i < np; i++ { // every single-packet deletion
			d := append(append([]byte{}, data[:188*i]...), data[188*(i+1):]...)
			emit("del-one", scenario{kind: 1, optSize: 188, fault: -1, prsSpec: L(I(1)), data: d, ops: []int{3}}.tok())
		}
		for j := 0; j < scale(tier, 6, 30); j++ { // multi-fault patterns: bursts of losses (< 16 per PID) and duplicates
			var d []byte
			for i := 0; i < np; {
				switch {
				case r.Chance(1, 12):
					i += r.Range(1, 4)
				case r.Chance(1, 12):
					d = append(d, pktAt(data, i)...)
					d = append(d, pktAt(data, i)...)
					i++
				default:
					d = append(d, pktAt(data, i)...)
					i++
				}
			}
			emit("multi-fault", scenario{kind: 1, optSize: 188, fault: -1, prsSpec: L(I(1)), data: d, ops: []int{3}}.tok())
		}
	}
	// bursts of exactly 13..15 lost packets of one PID inside long units of full packets (after 15 the counter repeats
	// the last one received: only the bytes tell the packet from a duplicate), clear and scrambled
	// (transport_scrambling_control 2 / 3) PIDs, other PIDs interleaved
	for k := 0; k < scale(tier, 12, 120); k++ {
		m := genRefStream(r, streamOpts{PESPIDs: 2, UnitsPerPID: 3, MaxPES: 300, Tables: true, PESTotals: []int{184 * r.Range(20, 30), 184 * r.Range(20, 30), 184 * r.Range(2, 5)}, Unbounded: k%2 == 0})
		data := m.bytes()
		np := len(data) / 188
		pid0 := m.PIDs[len(m.PIDs)-1]
		for _, q := range m.PIDs {
			if us := m.Units[q]; len(us) == 3 && !us[0].IsPSI && len(us[0].Bytes) > 3000 {
				pid0 = q
			}
		}
		tsc := byte([]int{0, 0x80, 0xc0}[k%3])
		var own []int
		for i := 0; i < np; i++ {
			b := pktAt(data, i)
			if uint16(b[1]&0x1f)<<8|uint16(b[2]) == pid0 {
				b[3] |= tsc
				own = append(own, i)
			}
		}
		if len(own) < 24 {
			continue
		}
		burst := []int{15, 15, 15, 14, 15, 13}[k%6] // mostly the repeated-counter case, on clear and scrambled PIDs alike
		start := r.Range(1, len(own)-burst-2)
		drop := map[int]bool{}
		for _, i := range own[start : start+burst] {
			drop[i] = true
		}
		var d []byte
		for i := 0; i < np; i++ {
			if !drop[i] {
				d = append(d, pktAt(data, i)...)
			}
		}
		emit("clean", scenario{kind: 1, optSize: 188, fault: -1, prsSpec: L(I(1)), data: data, ops: []int{3}}.tok())
		emit(fmt.Sprintf("burst-%d", burst), scenario{kind: 1, optSize: 188, fault: -1, prsSpec: L(I(1)), data: d, ops: []int{3}}.tok())
	}
	// payload-less packets (PCR only) with the discontinuity indicator set, sprinkled inside long units of their PID:
	// every single deletion and a few bursts next to them (such a packet neither carries a counter step nor payload;
	// a loss beside it must still be noticed at the next payload packet)
	for k := 0; k < scale(tier, 3, 20); k++ {
		m := genRefStream(r, streamOpts{PESPIDs: 1, UnitsPerPID: 3, MaxPES: 300, Tables: true, PESTotals: []int{184 * r.Range(6, 9), 184 * r.Range(6, 9), 184 * 2}, Unbounded: true})
		base := m.bytes()
		var data []byte
		lastCC := map[uint16]byte{}
		for i := 0; i < len(base)/188; i++ {
			b := pktAt(base, i)
			data = append(data, b...)
			pid := uint16(b[1]&0x1f)<<8 | uint16(b[2])
			if b[3]&0x10 != 0 {
				lastCC[pid] = b[3] & 15
			}
			if pid >= 0x20 && pid != 0x1fff && b[3]&0x10 != 0 && r.Chance(1, 3) {
				p := &refPacket{PID: pid, CC: lastCC[pid], AFLen: 183, Disc: true, PCR: true}
				data = append(data, p.encode()...)
			}
		}
		np := len(data) / 188
		emit("clean", scenario{kind: 1, optSize: 188, fault: -1, prsSpec: L(I(1)), data: data, ops: []int{3}}.tok())
		for i := 0; i < np; i++ {
			if pktAt(data, i)[3]&0x10 == 0 {
				continue // deleting a payload-less packet changes nothing
			}
			d := append(append([]byte{}, data[:188*i]...), data[188*(i+1):]...)
			emit("del-one-near-pcr-only", scenario{kind: 1, optSize: 188, fault: -1, prsSpec: L(I(1)), data: d, ops: []int{3}}.tok())
		}
	}
	// K2: the first packet of a unit is lost and the continuation begins with a start code
	for k := 0; k < scale(tier, 3, 20); k++ {
		var d []byte
		cc := r.Intn(16)
		mk := func(pusi bool, payload []byte) {
			cc = (cc + 1) & 15
			p := &refPacket{PID: 0x140, PUSI: pusi, CC: byte(cc), AFLen: -1, Payload: payload}
			d = append(d, p.encode()...)
		}
		pes := func(n int) []byte {
			b := append([]byte{0, 0, 1, 0xe0, 0, 0, 0x80, 0, 0}, r.Bytes(n)...)
			return b
		}
		mk(true, pes(175))
		mk(true, pes(175)) // unit whose first packet will be deleted ...
		lost := len(d)/188 - 1
		mk(false, append(pes(100), r.Bytes(75)...)) // ... and whose continuation begins 00 00 01 e0
		mk(false, r.Bytes(184))
		mk(true, pes(175))
		mk(false, r.Bytes(184))
		f := append(append([]byte{}, d[:188*lost]...), d[188*(lost+1):]...)
		emit("orphan-startcode", scenario{kind: 1, optSize: 188, fault: -1, prsSpec: L(I(1)), data: f, ops: []int{3}}.tok())
	}
	// bounded-exhaustive raw packet sequences over 2 PIDs x {dup, +1, gap} x PUSI x {payload, AF-only, TEI, discontinuity flag}
	maxLen := scale(tier, 4, 5)
	type step struct{ pid, delta, pusi, shape int }
	var steps []step
	for pid := 0; pid < 2; pid++ {
		for delta := 0; delta < 3; delta++ {
			for pusi := 0; pusi < 2; pusi++ {
				for shape := 0; shape < 4; shape++ {
					if (shape == 1 || shape == 2) && (delta == 2 || pusi == 1) {
						continue // thin out: AF-only / TEI packets with +1 or dup only
					}
					steps = append(steps, step{pid, delta, pusi, shape})
				}
			}
		}
	}
	count := 0
	// the full tree is large; enumerate lengths up to 3 completely and sample beyond
	var rec2 func(seq []step, depth int)
	rec2 = func(seq []step, depth int) {
		if len(seq) > 0 {
			count++
			cc := [2]int{3, 9}
			var d []byte
			for _, st := range seq {
				switch st.delta {
				case 1:
					cc[st.pid] = (cc[st.pid] + 1) & 15
				case 2:
					cc[st.pid] = (cc[st.pid] + 3) & 15
				}
				p := &refPacket{PID: uint16(0x31 + st.pid), PUSI: st.pusi == 1, CC: byte(cc[st.pid]), AFLen: -1}
				p.Payload = append([]byte{byte(len(d) / 188), 2, 3}, make([]byte, 181)...)
				switch st.shape {
				case 1:
					p.Payload, p.AFLen = nil, 183
				case 2:
					p.TEI = true
				case 3:
					p.AFLen, p.Disc, p.Payload = 1, true, p.Payload[:182]
				}
				d = append(d, p.encode()...)
			}
			emit("raw-seq", scenario{kind: 1, optSize: 188, fault: -1, prsSpec: L(I(4)), data: d, ops: []int{3}}.tok())
		}
		if depth == 0 {
			return
		}
		for _, st := range steps {
			if len(seq) >= 2 && !r.Chance(1, scale(tier, 40, 6)) {
				continue
			}
			rec2(append(append([]step{}, seq...), st), depth-1)
		}
	}
	rec2(nil, maxLen)
	// duplicates of the LAST packet of multi-packet PAT / PMT units (C06_dup_psi): the unit is flushed early by that
	// packet, so its duplicate meets an empty queue. The byte at the packet boundary decides what happens to it:
	// read as a pointer_field that leads past the end (0xff, 0xb8) it waits and is flushed as an orphan group by
	// the next unit start; 0x00 followed by a known table_id likewise, and the orphan fails to parse; a small value
	// leading into 0xff stuffing makes it "complete" by itself and it is flushed at once.
	for k := 0; k < scale(tier, 40, 300); k++ {
		pesPID := uint16(0x100 + r.Intn(0x100))
		pmtPID := uint16(0x1000)
		if r.Bool() {
			pmtPID = uint16(0x20 + r.Intn(0x40))
		}
		boundary := []int{0x00, 0xff, 0xb8, 0x42, 0x02, r.Intn(256)}[r.Intn(6)]
		mkPAT := func(big bool) *refUnit {
			pat := &refSection{TableID: 0, Ext: uint16(r.Bits(16)), Version: byte(r.Intn(32)),
				Programs: []refProgram{{Number: 1, PID: pmtPID}}}
			if big {
				for j, n := 1, r.Range(46, 70); j < n; j++ {
					pr := refProgram{Number: uint16(0x4000 + r.Intn(0x4000)), PID: uint16(0x1e00 + r.Intn(0x100))}
					if j == 43 { // its last byte is the first payload byte of the second packet (pointer_field 0, 184-byte chunks)
						pr.PID = uint16(0x1e00 + boundary)
					}
					pat.Programs = append(pat.Programs, pr)
				}
			}
			u := refPSI(r, 0, []*refSection{pat})
			return u
		}
		mkPMT := func(big bool) *refUnit {
			pmt := &refSection{TableID: 2, Ext: 1, Version: byte(r.Intn(32)), PCRPID: pesPID,
				Streams: []refStream{{Type: 0x1b, PID: pesPID}}}
			if big {
				for j, n := 0, r.Range(12, 30); j < n; j++ {
					st := refStream{Type: []byte{0x1b, 0x0f, 0x03, 0x06, 0x81}[r.Intn(5)], PID: uint16(0x1d00 + r.Intn(0x100))}
					dl := r.Range(2, 12)
					st.Desc = append([]byte{0x13, byte(dl)}, r.Bytes(dl)...)
					pmt.Streams = append(pmt.Streams, st)
				}
			}
			return refPSI(r, pmtPID, []*refSection{pmt})
		}
		ccs := map[uint16]*byte{}
		pkts := func(u *refUnit, exact bool) []*refPacket {
			if ccs[u.PID] == nil {
				c := byte(r.Intn(16))
				ccs[u.PID] = &c
			}
			if !exact {
				return packetiseUnit(r, u, 0, ccs[u.PID], r.Chance(1, 4))
			}
			var out []*refPacket // 184-byte chunks, the rest padded with 0xff inside the payload
			rest := u.Bytes
			for first := true; len(rest) > 0; first = false {
				n := 184
				if n > len(rest) {
					n = len(rest)
				}
				*ccs[u.PID] = (*ccs[u.PID] + 1) & 15
				pl := append([]byte{}, rest[:n]...)
				for len(pl) < 184 {
					pl = append(pl, 0xff)
				}
				out = append(out, &refPacket{PID: u.PID, PUSI: first, CC: *ccs[u.PID], AFLen: -1, Payload: pl})
				rest = rest[n:]
			}
			return out
		}
		exact := r.Chance(2, 3)
		var seq [][]*refPacket // the units in stream order
		var isPSI []bool
		add := func(ps []*refPacket, psi bool) { seq = append(seq, ps); isPSI = append(isPSI, psi) }
		for rep := 0; rep < 3; rep++ {
			add(pkts(mkPAT(rep == 0 || r.Bool()), exact), true)
			add(pkts(mkPMT(rep == 0 || r.Bool()), exact), true)
			for j, n := 0, r.Range(1, 2); j < n; j++ {
				add(pkts(refMuxPES(r, pesPID, 0xe0, r.Range(1, 500), false), false), false)
			}
		}
		var clean []byte
		for _, ps := range seq {
			for _, p := range ps {
				clean = append(clean, p.encode()...)
			}
		}
		emit("dup-psi-last-clean", scenario{kind: 1, optSize: 188, fault: -1, prsSpec: L(I(1)), data: clean, ops: []int{3}}.tok())
		for ui, ps := range seq {
			if !isPSI[ui] || len(ps) < 2 {
				continue
			}
			for _, delay := range []int{0, 1} { // the duplicate directly after, or after the first packet of the next unit (another PID)
				var d []byte
				for uj, qs := range seq {
					for pj, p := range qs {
						d = append(d, p.encode()...)
						if (delay == 0 && uj == ui && pj == len(qs)-1) || (delay == 1 && uj == ui+1 && pj == 0) {
							d = append(d, ps[len(ps)-1].encode()...)
						}
					}
				}
				emit("dup-psi-last", scenario{kind: 1, optSize: 188, fault: -1, prsSpec: L(I(1)), data: d, ops: []int{3}}.tok())
			}
		}
	}
}

// unitKey identifies a delivered unit by PID and content.
func unitKeys(run *demuxRun) map[uint16][]string {
	out := map[uint16][]string{}
	for _, d := range run.data {
		if d != nil {
			out[d.PID] = append(out[d.PID], describeData(d))
		}
	}
	return out
}

func isSubsequence(sub, full []string) bool {
	i := 0
	for _, x := range full {
		if i < len(sub) && sub[i] == x {
			i++
		}
	}
	return i == len(sub)
}

func oracleC06(s scenario, run *demuxRun) string {
	if s.prsSpec.At(0).Int() != 1 {
		return ""
	}
	// reconstruct the clean stream: the case is a faulted version; the oracle needs the original, which is
	// recovered by locating the fault against per-PID continuity (duplicates) — simpler and independent: the
	// generator emits the clean stream first, and faulted cases are compared through the invariants below,
	// which only need the faulted stream itself and the reference decoder.
	units := unitsOf(s.data)
	_ = units
	if v := oracleC06Faulted(s, run); v != "" {
		return v
	}
	return oracleC06DupGroups(s, run)
}

// oracleC06DupGroups checks the duplicate clause at the level of the packet groups handed to the parser, on the
// implementation alone: for a stream whose only faults are immediate duplicates (no counter gap on any PID), the
// groups are those of the stream with the duplicates removed (the implementation is run again on it), in the same
// order, except that on PID 0 / PMT PIDs a duplicated packet may additionally appear as a group of its own, at most
// once per duplicate (C06_dup_pes, C06_dup_psi).
func oracleC06DupGroups(s scenario, run *demuxRun) string {
	type last struct {
		cc  int
		raw []byte
	}
	prev := map[uint16]*last{}
	var dedup []byte
	dups := map[string]int{} // summary of a duplicated packet -> how many times it was duplicated
	ndup := 0
	for off := 0; off+188 <= len(s.data); off += 188 {
		b := s.data[off : off+188]
		if b[0] != 0x47 {
			return ""
		}
		pid := uint16(b[1]&0x1f)<<8 | uint16(b[2])
		if b[1]&0x80 != 0 || b[3]&0x10 == 0 {
			dedup = append(dedup, b...)
			continue
		}
		cc := int(b[3] & 15)
		if l := prev[pid]; l != nil {
			switch {
			case bytes.Equal(l.raw, b):
				p := 4
				if b[3]&0x20 != 0 {
					p += 1 + int(b[4])
				}
				if p > 188 {
					p = 188
				}
				dups[pktSummary(&astits.Packet{Header: astits.PacketHeader{PID: pid, ContinuityCounter: uint8(cc), PayloadUnitStartIndicator: b[1]&0x40 != 0}, Payload: b[p:]}).String()]++
				ndup++
				continue
			case cc != (l.cc+1)&15:
				return "" // a gap: the loss clauses apply, not this one
			}
		}
		prev[pid] = &last{cc, b}
		dedup = append(dedup, b...)
	}
	if ndup == 0 {
		return ""
	}
	psi := psiPIDsOf(unitsOf(dedup))
	other := runScenario(scenario{kind: 1, optSize: 188, fault: -1, prsSpec: L(I(1)), data: dedup, ops: []int{3}})
	j := 0
	for _, g := range run.groups {
		if j < len(other.groups) && g.String() == other.groups[j].String() {
			j++
			continue
		}
		// an extra group: only a duplicated packet of a PSI PID, alone
		ok := false
		if len(g.L) == 1 {
			key := g.At(0).String()
			if dups[key] > 0 && psi[uint16(g.At(0).At(0).Int())] {
				dups[key]--
				ok = true
			}
		}
		if !ok {
			return fmt.Sprintf("duplicates only: the packet groups differ from those of the stream without the duplicates other than by a duplicated PSI packet as a group of its own: group %s", g.String())
		}
	}
	if j != len(other.groups) {
		return fmt.Sprintf("duplicates only: a packet group of the stream without the duplicates is missing or altered: %s", other.groups[j].String())
	}
	return ""
}

// oracleC06Faulted checks the property's clauses on a faulted stream using only the stream and an independent
// per-PID analysis: (1) every delivered PES/table must be byte-identical to a unit that the independent
// re-assembly finds gap-free in the stream (never a splice across a counter gap); (2) a PID whose counters show
// no gap (duplicates only) delivers exactly its units. A PMT PID counts as PSI only for units that start after
// the first complete PAT of the (faulted) stream has been read; units straddling that point may go either way.
func oracleC06Faulted(s scenario, run *demuxRun) string {
	type pk struct {
		idx     int
		cc      int
		pusi    bool
		payload []byte
	}
	per := map[uint16][]pk{}
	for off, idx := 0, 0; off+188 <= len(s.data); off, idx = off+188, idx+1 {
		b := s.data[off : off+188]
		if b[1]&0x80 != 0 || b[3]&0x10 == 0 {
			continue
		}
		pid := uint16(b[1]&0x1f)<<8 | uint16(b[2])
		p := 4
		if b[3]&0x20 != 0 {
			p += 1 + int(b[4])
		}
		if p > 188 {
			p = 188
		}
		per[pid] = append(per[pid], pk{idx, int(b[3] & 15), b[1]&0x40 != 0, b[p:]})
	}
	type cand struct {
		first, last int
		payload     []byte
		intact      bool // no counter gap inside the unit
		gapAfter    bool // a gap was revealed by the packet following the unit
	}
	var orphans [][]byte // payloads of runs of continuation packets that belong to no unit (first packet lost)
	assemble := func(pks []pk) (cs []*cand, hasGap bool) {
		var cur *cand
		var orphan []byte
		inOrphan := false
		prev := -1
		closeOrphan := func() {
			if inOrphan && len(orphan) > 0 {
				orphans = append(orphans, orphan)
			}
			orphan, inOrphan = nil, false
		}
		var prevPk pk
		for _, p := range pks {
			// a duplicate repeats the previous packet (ISO 13818-1 2.4.3.3); the same counter on a different packet
			// is what a loss of exactly 15 packets looks like
			if prev >= 0 && p.cc == prev && p.pusi == prevPk.pusi && bytes.Equal(p.payload, prevPk.payload) {
				continue // duplicate
			}
			prevPk = p
			gap := prev >= 0 && p.cc != (prev+1)&15
			first := prev < 0
			prev = p.cc
			if gap {
				hasGap = true
				closeOrphan()
				if cur != nil {
					cur.gapAfter = true
				}
				if !p.pusi {
					cur = nil // orphan continuation packets belong to no unit
					inOrphan = true
				}
			}
			if first && !p.pusi {
				inOrphan = true
			}
			if p.pusi {
				closeOrphan()
				cur = &cand{first: p.idx, intact: true}
				cs = append(cs, cur)
			} else if inOrphan {
				orphan = append(orphan, p.payload...)
			}
			if cur != nil {
				cur.payload = append(cur.payload, p.payload...)
				cur.last = p.idx
			}
		}
		closeOrphan()
		return
	}
	// when is the first PAT delivered?
	patDone := 1 << 30
	pmtPIDs := map[uint16]bool{}
	patCands, _ := assemble(per[0])
	for _, c := range patCands {
		if !c.intact {
			continue
		}
		ds := refDecodeUnit(&obsUnit{pid: 0, payload: c.payload}, true)
		if len(ds) == 0 {
			continue
		}
		if c.last < patDone {
			patDone = c.last
		}
		for _, d := range ds {
			var n, pid int
			for i := 0; i < len(d); i++ {
				if d[i] == ' ' {
					if k, _ := fmt.Sscanf(d[i+1:], "%d:%d", &n, &pid); k == 2 && n > 0 {
						pmtPIDs[uint16(pid)] = true
					}
				}
			}
		}
	}
	got := unitKeys(run)
	for pid, pks := range per {
		if pid == 0x1fff {
			continue
		}
		cs, hasGap := assemble(pks)
		isPSIPID := pid == 0 || pmtPIDs[pid]
		var required, allowed []string
		for ci, c := range cs {
			psi := pid == 0
			optional := false
			if pmtPIDs[pid] && pid != 0 {
				// the unit is parsed as PSI if the PAT was delivered before the unit is flushed (early flush at
				// its last packet, else at the next unit start or at end of stream)
				flush := 1 << 30
				if ci+1 < len(cs) {
					flush = cs[ci+1].first
				}
				switch {
				case c.first > patDone:
					psi = true
				case flush > patDone:
					psi, optional = true, true
				}
			}
			ds := refDecodeUnit(&obsUnit{pid: pid, payload: c.payload}, psi)
			if !c.intact {
				continue
			}
			if c.gapAfter {
				// the unit immediately preceding a gap: a PES is dropped with the reset; a complete table was
				// already delivered by the early flush
				if psi {
					allowed = append(allowed, ds...)
				}
				continue
			}
			allowed = append(allowed, ds...)
			if !optional {
				required = append(required, ds...)
			}
		}
		if isPSIPID {
			for _, g := range got[pid] {
				found := false
				for _, f := range allowed {
					if f == g {
						found = true
					}
				}
				if !found {
					return fmt.Sprintf("PID %d (PSI): a table was delivered that is not an intact table of the stream: %s", pid, g)
				}
			}
			if !hasGap && !isSubsequence(required, got[pid]) {
				return fmt.Sprintf("PID %d (PSI): with duplicates only, a unit was removed or altered: %s", pid, diffSeq(got[pid], required))
			}
			continue
		}
		if !hasGap {
			if d := diffSeq(got[pid], required); d != "" {
				return fmt.Sprintf("PID %d: with duplicates only the output must equal the clean output: %s", pid, d)
			}
			continue
		}
		if !isSubsequence(got[pid], allowed) {
			// K2: is every foreign unit the decoding of an orphan run that happens to begin with a start code?
			var orphanDec []string
			for _, o := range orphans {
				orphanDec = append(orphanDec, refDecodeUnit(&obsUnit{pid: pid, payload: o}, false)...)
			}
			onlyOrphans := len(orphanDec) > 0
			for _, g := range got[pid] {
				in := false
				for _, a := range allowed {
					if a == g {
						in = true
					}
				}
				for _, a := range orphanDec {
					if a == g {
						in = true
					}
				}
				if !in {
					onlyOrphans = false
				}
			}
			if onlyOrphans {
				return fmt.Sprintf("K2: PID %d: after a loss, continuation packets whose payload begins 00 00 01 were delivered as a PES packet", pid)
			}
			return fmt.Sprintf("PID %d: after packet loss a delivered unit is not byte-identical to a gap-free unit of the stream (splice or foreign data): %s", pid, diffSeq(got[pid], allowed))
		}
		// the only units missing are those that lost a packet and the unit preceding each gap: every intact unit
		// that is not followed by a gap must still be delivered
		if !isSubsequence(required, got[pid]) {
			return fmt.Sprintf("PID %d: an intact unit away from any gap is missing: %s", pid, diffSeq(got[pid], required))
		}
	}
	return ""
}

// ---------------- C07: per-PID independence ----------------

func genC07(r *Rng, tier string, emit func(string, Tok)) {
	n := scale(tier, 60, 500)
	for k := 0; k < n; k++ {
		m := genRefStream(r, streamOpts{PESPIDs: r.Range(2, 5), UnitsPerPID: r.Range(1, 4), MaxPES: 600, Tables: true, Fillers: r.Bool() || k%3 == 0, SmallChunks: r.Chance(1, 3), Repeats: r.Intn(2), NearPIDs: k%3 == 0})
		kindName := "merge"
		if k%3 == 0 {
			kindName = "merge-near-pids"
		}
		emit(kindName, scenario{kind: 1, optSize: 188, fault: -1, data: m.bytes(), ops: []int{3}}.tok())
	}
	// a crowded multiplex: 66..90 elementary PIDs (the PMT needs several packets), everything interleaved
	for k := 0; k < scale(tier, 3, 20); k++ {
		m := genRefStream(r, streamOpts{PESPIDs: r.Range(66, 90), UnitsPerPID: r.Range(1, 2), MaxPES: 120, Tables: true, Fillers: true, Repeats: 1})
		emit("merge-crowded", scenario{kind: 1, optSize: 188, fault: -1, data: m.bytes(), ops: []int{3}}.tok())
	}
}

// remerge produces another order-preserving merge of the per-PID packet sequences of a stream; PID 0 and the
// PMT PIDs keep their mutual order (a PMT is only recognised after the PAT that lists it was delivered).
func remerge(data []byte, r *Rng, insert bool, corruptPID int) []byte {
	seqs := map[int][][]byte{}
	var order []int
	psi := psiPIDsOf(unitsOf(data))
	for off := 0; off+188 <= len(data); off += 188 {
		b := data[off : off+188]
		pid := int(b[1]&0x1f)<<8 | int(b[2])
		key := pid
		if psi[uint16(pid)] {
			key = -1
		}
		if _, ok := seqs[key]; !ok {
			order = append(order, key)
		}
		c := append([]byte{}, b...)
		if pid == corruptPID {
			for i := 4; i < 188; i++ {
				c[i] = byte(r.Intn(256))
			}
		}
		seqs[key] = append(seqs[key], c)
	}
	var out []byte
	for {
		var cand []int
		for _, k := range order {
			if len(seqs[k]) > 0 {
				cand = append(cand, k)
			}
		}
		if len(cand) == 0 {
			break
		}
		k := cand[r.Intn(len(cand))]
		out = append(out, seqs[k][0]...)
		seqs[k] = seqs[k][1:]
		if insert && r.Chance(1, 4) {
			p := &refPacket{PID: 0x1fff, CC: byte(r.Intn(16)), Payload: r.Bytes(184), AFLen: -1}
			switch r.Intn(3) {
			case 1:
				p = &refPacket{PID: uint16(k & 0x1fff), CC: byte(r.Intn(16)), AFLen: 183}
			case 2:
				p = &refPacket{PID: uint16(k & 0x1fff), CC: byte(r.Intn(16)), TEI: true, PUSI: r.Bool(), Payload: r.Bytes(184), AFLen: -1}
			}
			out = append(out, p.encode()...)
		}
	}
	return out
}

func oracleC07(s scenario, run *demuxRun) string {
	base := unitKeys(run)
	seed := uint64(len(s.data))
	for _, b := range s.data[:min(len(s.data), 400)] {
		seed = seed*131 + uint64(b)
	}
	r := NewRng(seed)
	for trial := 0; trial < 3; trial++ {
		other := runScenario(scenario{kind: 1, optSize: 188, fault: -1, data: remerge(s.data, r, trial > 0, -1), ops: []int{3}})
		o := unitKeys(other)
		for pid, seq := range base {
			if d := diffSeq(o[pid], seq); d != "" {
				return fmt.Sprintf("PID %d: delivered sequence changes with the interleaving / inserted null, AF-only or TEI packets: %s", pid, d)
			}
		}
		for pid := range o {
			if _, ok := base[pid]; !ok && len(o[pid]) > 0 {
				return fmt.Sprintf("PID %d: data appear only under another interleaving", pid)
			}
		}
	}
	// corruption confined to one (non-PSI) PID
	psi := psiPIDsOf(unitsOf(s.data))
	var pes []int
	for pid := range base {
		if !psi[pid] {
			pes = append(pes, int(pid))
		}
	}
	sort.Ints(pes)
	if len(pes) > 0 {
		victim := pes[r.Intn(len(pes))]
		other := runScenario(scenario{kind: 1, optSize: 188, fault: -1, data: remerge(s.data, r, false, victim), ops: []int{3, 1}})
		// errors on the victim PID are expected; keep calling is what ops 3 does
		o := unitKeys(other)
		for pid, seq := range base {
			if int(pid) == victim {
				continue
			}
			if d := diffSeq(o[pid], seq); d != "" {
				return fmt.Sprintf("PID %d: delivered sequence changed by garbage confined to PID %d: %s", pid, victim, d)
			}
		}
	}
	return ""
}

func min(a, b int) int {
	if a < b {
		return a
	}
	return b
}
