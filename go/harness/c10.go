package main

import (
	"fmt"

	astits "github.com/asticode/go-astits"
)

// C10: case forms (see coq/Extract/Run.v)
//
//	(1 crc bytes)    updateCRC32
//	(2 bytes)        computeCRC32
//	(3 i)            tableCRC32[i]
//	(4 crc a b)      updateCRC32(updateCRC32(crc,a),b)
type c10 struct{}

func init() { props["C10"] = c10{} }

func (c10) Num() int { return 10 }

// bitwise reference written from ISO 13818-1 Annex A, used only by the oracle
func refCRC(crc uint32, bs []byte) uint32 {
	for _, b := range bs {
		for i := 7; i >= 0; i-- {
			bit := uint32(b>>uint(i)) & 1
			top := crc >> 31
			crc <<= 1
			if top^bit == 1 {
				crc ^= 0x04C11DB7
			}
		}
	}
	return crc
}

func (c10) Gen(r *Rng, tier string, emit func(string, Tok)) {
	for i := 0; i < 256; i++ {
		emit("table", L(I(3), I(int64(i))))
	}
	sweep("all 256 table entries")
	emit("msg0", L(I(2), B(nil)))
	for a := 0; a < 256; a++ {
		emit("msg1", L(I(2), B([]byte{byte(a)})))
	}
	sweep("all messages of length 0 and 1")
	if tier == "thorough" {
		for a := 0; a < 65536; a++ {
			emit("msg2", L(I(2), B([]byte{byte(a >> 8), byte(a)})))
		}
		sweep("all messages of length 2")
	} else {
		for k := 0; k < 2048; k++ {
			a := r.Intn(65536)
			emit("msg2", L(I(2), B([]byte{byte(a >> 8), byte(a)})))
		}
	}
	// (top byte, input byte) pairs over random low parts
	nlow := 4
	if tier == "thorough" {
		nlow = 8
	}
	for k := 0; k < nlow; k++ {
		low := uint32(r.U64()) & 0x00ffffff
		step := 1
		if tier != "thorough" {
			step = 17
		}
		for tb := 0; tb < 65536; tb += step {
			crc := uint32(tb>>8)<<24 | low
			emit("step", L(I(1), U(uint64(crc)), B([]byte{byte(tb)})))
		}
	}
	// edge states
	for _, crc := range []uint32{0, 1, 0xffffffff, 0x80000000, 0x7fffffff} {
		for b := 0; b < 256; b++ {
			emit("step-edge", L(I(1), U(uint64(crc)), B([]byte{byte(b)})))
		}
	}
	// random messages with split points
	nm := 60
	if tier == "thorough" {
		nm = 600
	}
	for k := 0; k < nm; k++ {
		n := r.Intn(64)
		if k%5 == 0 {
			n = r.Intn(4096)
		}
		msg := r.Bytes(n)
		emit("msg", L(I(2), B(msg)))
		crc := uint32(r.Bits(32))
		splits := n + 1
		if splits > 40 && tier != "thorough" {
			splits = 40
		} else if splits > 300 {
			splits = 300 // every cut of the short messages, 300 random cuts of the long ones
		}
		for s := 0; s < splits; s++ {
			cut := s
			if splits != n+1 {
				cut = r.Intn(n + 1)
			}
			emit("split", L(I(4), U(uint64(crc)), B(msg[:cut]), B(msg[cut:])))
		}
	}
}

func (c10) Run(c Tok) Tok {
	switch c.At(0).Int() {
	case 1:
		return U(uint64(astits.VerifUpdateCRC32(uint32(c.At(1).Uint()), c.At(2).Bytes())))
	case 2:
		return U(uint64(astits.VerifComputeCRC32(c.At(1).Bytes())))
	case 3:
		t := astits.VerifCRC32Table()
		return U(uint64(t[c.At(1).Int()]))
	case 4:
		x := astits.VerifUpdateCRC32(uint32(c.At(1).Uint()), c.At(2).Bytes())
		return U(uint64(astits.VerifUpdateCRC32(x, c.At(3).Bytes())))
	}
	return L()
}

func (c10) Oracle(c Tok, obs Tok) string {
	got := uint32(obs.Uint())
	switch c.At(0).Int() {
	case 1:
		if want := refCRC(uint32(c.At(1).Uint()), c.At(2).Bytes()); got != want {
			return fmt.Sprintf("updateCRC32 = %08x, CRC-32/MPEG-2 register update = %08x", got, want)
		}
	case 2:
		msg := c.At(1).Bytes()
		want := refCRC(0xffffffff, msg)
		if got != want {
			return fmt.Sprintf("computeCRC32 = %08x, CRC-32/MPEG-2 = %08x", got, want)
		}
		full := append(append([]byte{}, msg...), byte(got>>24), byte(got>>16), byte(got>>8), byte(got))
		if res := astits.VerifComputeCRC32(full); res != 0 {
			return fmt.Sprintf("residue of message followed by its checksum = %08x, want 0", res)
		}
	case 3:
		i := uint32(c.At(1).Int())
		if want := refCRC(i<<24, []byte{0}); got != want {
			return fmt.Sprintf("tableCRC32[%d] = %08x, want %08x", i, got, want)
		}
	case 4:
		whole := append(append([]byte{}, c.At(2).Bytes()...), c.At(3).Bytes()...)
		if want := astits.VerifUpdateCRC32(uint32(c.At(1).Uint()), whole); got != want {
			return fmt.Sprintf("two pieces give %08x, one pass gives %08x", got, want)
		}
	}
	return ""
}

func (c10) Nontrivial(c Tok, obs Tok) bool {
	switch c.At(0).Int() {
	case 1, 4:
		return len(c.At(2).Bytes()) > 0
	case 2:
		return len(c.At(1).Bytes()) > 0
	}
	return true
}
