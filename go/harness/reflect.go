package main

import (
	"fmt"
	"math/big"
	"reflect"
	"time"
)

// ToTok renders a Go value in the exchange format, with the conventions of the
// records the translator emits into coq/Gen/Types.v: a struct is the list of its
// fields in declaration order; integers (named or not) are integers; bool is 0/1;
// string and []byte are byte strings; *T is () or (x); []T and []*T are lists;
// time.Time is its Unix time in seconds, time.Duration its nanoseconds.
func ToTok(v interface{}) Tok { return toTok(reflect.ValueOf(v)) }

var (
	timeType = reflect.TypeOf(time.Time{})
	durType  = reflect.TypeOf(time.Duration(0))
)

func toTok(v reflect.Value) Tok {
	if !v.IsValid() {
		return L()
	}
	t := v.Type()
	if t == timeType {
		return I(v.Interface().(time.Time).Unix())
	}
	switch v.Kind() {
	case reflect.Bool:
		return Bool(v.Bool())
	case reflect.Int, reflect.Int8, reflect.Int16, reflect.Int32, reflect.Int64:
		return I(v.Int())
	case reflect.Uint, reflect.Uint8, reflect.Uint16, reflect.Uint32, reflect.Uint64:
		return U(v.Uint())
	case reflect.String:
		return B([]byte(v.String()))
	case reflect.Ptr:
		if v.IsNil() {
			return L()
		}
		return L(toTok(v.Elem()))
	case reflect.Slice:
		if t.Elem().Kind() == reflect.Uint8 {
			b := make([]byte, v.Len())
			reflect.Copy(reflect.ValueOf(b), v)
			return B(b)
		}
		items := make([]Tok, 0, v.Len())
		for k := 0; k < v.Len(); k++ {
			e := v.Index(k)
			if e.Kind() == reflect.Ptr {
				if e.IsNil() {
					items = append(items, L())
					continue
				}
				e = e.Elem()
			}
			items = append(items, toTok(e))
		}
		return L(items...)
	case reflect.Struct:
		items := make([]Tok, 0, v.NumField())
		for k := 0; k < v.NumField(); k++ {
			items = append(items, toTok(v.Field(k)))
		}
		return L(items...)
	}
	panic(fmt.Sprintf("toTok: unsupported kind %s", v.Kind()))
}

// FromTok fills *ptr from a tok with the same conventions.
func FromTok(t Tok, ptr interface{}) { fromTok(t, reflect.ValueOf(ptr).Elem()) }

func fromTok(t Tok, v reflect.Value) {
	ty := v.Type()
	if ty == timeType {
		v.Set(reflect.ValueOf(time.Unix(t.Int(), 0).UTC()))
		return
	}
	switch v.Kind() {
	case reflect.Bool:
		v.SetBool(t.IsTrue())
	case reflect.Int, reflect.Int8, reflect.Int16, reflect.Int32, reflect.Int64:
		v.SetInt(t.Int())
	case reflect.Uint, reflect.Uint8, reflect.Uint16, reflect.Uint32, reflect.Uint64:
		v.SetUint(t.Uint())
	case reflect.String:
		v.SetString(string(t.B))
	case reflect.Ptr:
		if t.Kind != 'l' || len(t.L) == 0 {
			v.Set(reflect.Zero(ty))
			return
		}
		n := reflect.New(ty.Elem())
		fromTok(t.L[0], n.Elem())
		v.Set(n)
	case reflect.Slice:
		if ty.Elem().Kind() == reflect.Uint8 {
			if t.Kind != 'b' || t.B == nil {
				v.Set(reflect.Zero(ty))
				return
			}
			b := reflect.MakeSlice(ty, len(t.B), len(t.B))
			reflect.Copy(b, reflect.ValueOf(t.B))
			v.Set(b)
			return
		}
		if t.Kind != 'l' || len(t.L) == 0 {
			v.Set(reflect.Zero(ty))
			return
		}
		s := reflect.MakeSlice(ty, len(t.L), len(t.L))
		for k := range t.L {
			e := s.Index(k)
			if e.Kind() == reflect.Ptr {
				n := reflect.New(ty.Elem().Elem())
				fromTok(t.L[k], n.Elem())
				e.Set(n)
			} else {
				fromTok(t.L[k], e)
			}
		}
		v.Set(s)
	case reflect.Struct:
		for k := 0; k < v.NumField() && k < len(t.L); k++ {
			if v.Field(k).CanSet() {
				fromTok(t.L[k], v.Field(k))
			}
		}
	default:
		panic(fmt.Sprintf("fromTok: unsupported kind %s", v.Kind()))
	}
}

// Res is the canonical (class, value) observation of a call that can fail:
// (0 v) ok, (1 code) error with a small code, (2) panic.
func ResOk(v Tok) Tok       { return L(I(0), v) }
func ResErr(code int64) Tok { return L(I(1), I(code)) }
func ResPanic() Tok         { return L(I(2)) }

func bigI(v *big.Int) Tok { return Tok{Kind: 'i', I: v} }
