package main

import (
	"time"

	astits "github.com/asticode/go-astits"
)

// Independent reference encoder for descriptors, written from ISO/IEC 13818-1 2.6, EN 300 468 6.2 / 6.4 and
// Annex D (AC-3, Enhanced AC-3). It shares nothing with descriptor.go or dvb.go: fields are laid out bit by
// bit with the bw writer of util.go, MJD comes from the day count of package time.

// known typed tags
var c14TypedTags = []uint8{0x6a, 0x28, 0x50, 0x54, 0x06, 0x7a, 0x4e, 0x7f, 0x0a, 0x58, 0x0e, 0x40, 0x55, 0x0f, 0x5f,
	0x05, 0x48, 0x4d, 0x52, 0x59, 0x56, 0x45, 0x46}

var c14TagName = map[uint8]string{0x6a: "ac3", 0x28: "avc", 0x50: "component", 0x54: "content", 0x06: "alignment",
	0x7a: "eac3", 0x4e: "extevent", 0x7f: "extension", 0x0a: "iso639", 0x58: "localtime", 0x0e: "maxbitrate",
	0x40: "netname", 0x55: "parental", 0x0f: "pdi", 0x5f: "pds", 0x05: "registration", 0x48: "service",
	0x4d: "shortevent", 0x52: "streamid", 0x59: "subtitling", 0x56: "teletext", 0x45: "vbidata", 0x46: "vbiteletext"}

func c14IsTyped(tag uint8) bool { _, ok := c14TagName[tag]; return ok }
func c14IsUser(tag uint8) bool  { return tag >= 0x80 && tag <= 0xfe }

func c14Name(tag uint8) string {
	if c14IsUser(tag) {
		return "user"
	}
	if n, ok := c14TagName[tag]; ok {
		return n
	}
	return "unknown"
}

func c14Bcd2(v int) uint64 { return uint64((v/10)<<4 | v%10) }

func c14IsVBILineService(id uint8) bool {
	switch id {
	case 0x01, 0x02, 0x04, 0x05, 0x06, 0x07:
		return true
	}
	return false
}

// c14Lang3 writes a 24-bit language / country code (short codes are zero padded, long ones cut: only 3-byte codes are
// inside the property's domain)
func c14Lang3(w *bw, bs []byte) {
	for k := 0; k < 3; k++ {
		if k < len(bs) {
			w.put(8, uint64(bs[k]))
		} else {
			w.put(8, 0)
		}
	}
}

// c14RefBodyPresent reports whether d carries the typed body its tag selects.
func c14RefBodyPresent(d *astits.Descriptor) bool {
	if c14IsUser(d.Tag) {
		return true
	}
	switch d.Tag {
	case 0x6a:
		return d.AC3 != nil
	case 0x28:
		return d.AVCVideo != nil
	case 0x50:
		return d.Component != nil
	case 0x54:
		return d.Content != nil
	case 0x06:
		return d.DataStreamAlignment != nil
	case 0x7a:
		return d.EnhancedAC3 != nil
	case 0x4e:
		return d.ExtendedEvent != nil
	case 0x7f:
		return d.Extension != nil && (d.Extension.Tag != 0x06 || d.Extension.SupplementaryAudio != nil)
	case 0x0a:
		return d.ISO639LanguageAndAudioType != nil
	case 0x58:
		return d.LocalTimeOffset != nil
	case 0x0e:
		return d.MaximumBitrate != nil
	case 0x40:
		return d.NetworkName != nil
	case 0x55:
		return d.ParentalRating != nil
	case 0x0f:
		return d.PrivateDataIndicator != nil
	case 0x5f:
		return d.PrivateDataSpecifier != nil
	case 0x05:
		return d.Registration != nil
	case 0x48:
		return d.Service != nil
	case 0x4d:
		return d.ShortEvent != nil
	case 0x52:
		return d.StreamIdentifier != nil
	case 0x59:
		return d.Subtitling != nil
	case 0x56:
		return d.Teletext != nil
	case 0x45:
		return d.VBIData != nil
	case 0x46:
		return d.VBITeletext != nil
	}
	return d.Unknown != nil
}

func c14RefTeletext(w *bw, t *astits.DescriptorTeletext) {
	for _, it := range t.Items {
		c14Lang3(w, it.Language)
		w.put(5, uint64(it.Type))
		w.put(3, uint64(it.Magazine))
		w.put(4, uint64(it.Page/10)) // two BCD digits
		w.put(4, uint64(it.Page%10))
	}
}

// c14MjdOf is the Modified Julian Date of a UTC time: days since 1858-11-17 (Unix day 0 is MJD 40587).
func c14MjdOf(t time.Time) int64 {
	s := t.Unix()
	days := s / 86400
	if s%86400 < 0 {
		days--
	}
	return days + 40587
}

// c14RefBody is the reference encoding of the body the tag selects (the caller checked c14RefBodyPresent).
func c14RefBody(d *astits.Descriptor) []byte {
	w := &bw{}
	if c14IsUser(d.Tag) {
		w.bytes(d.UserDefined)
		return w.b
	}
	switch d.Tag {
	case 0x6a: // AC-3, EN 300 468 D.3
		a := d.AC3
		w.flag(a.HasComponentType)
		w.flag(a.HasBSID)
		w.flag(a.HasMainID)
		w.flag(a.HasASVC)
		w.put(4, 0xf)
		if a.HasComponentType {
			w.put(8, uint64(a.ComponentType))
		}
		if a.HasBSID {
			w.put(8, uint64(a.BSID))
		}
		if a.HasMainID {
			w.put(8, uint64(a.MainID))
		}
		if a.HasASVC {
			w.put(8, uint64(a.ASVC))
		}
		w.bytes(a.AdditionalInfo)
	case 0x28: // AVC video, ISO 13818-1 2.6.64
		a := d.AVCVideo
		w.put(8, uint64(a.ProfileIDC))
		w.flag(a.ConstraintSet0Flag)
		w.flag(a.ConstraintSet1Flag)
		w.flag(a.ConstraintSet2Flag)
		w.put(5, uint64(a.CompatibleFlags))
		w.put(8, uint64(a.LevelIDC))
		w.flag(a.AVCStillPresent)
		w.flag(a.AVC24HourPictureFlag)
		w.put(6, 0x3f)
	case 0x50: // component, 6.2.8
		c := d.Component
		w.put(4, uint64(c.StreamContentExt))
		w.put(4, uint64(c.StreamContent))
		w.put(8, uint64(c.ComponentType))
		w.put(8, uint64(c.ComponentTag))
		c14Lang3(w, c.ISO639LanguageCode)
		w.bytes(c.Text)
	case 0x54: // content, 6.2.9
		for _, it := range d.Content.Items {
			w.put(4, uint64(it.ContentNibbleLevel1))
			w.put(4, uint64(it.ContentNibbleLevel2))
			w.put(8, uint64(it.UserByte))
		}
	case 0x06: // data stream alignment, 2.6.10
		w.put(8, uint64(d.DataStreamAlignment.Type))
	case 0x7a: // enhanced AC-3, D.5
		a := d.EnhancedAC3
		w.flag(a.HasComponentType)
		w.flag(a.HasBSID)
		w.flag(a.HasMainID)
		w.flag(a.HasASVC)
		w.flag(a.MixInfoExists)
		w.flag(a.HasSubStream1)
		w.flag(a.HasSubStream2)
		w.flag(a.HasSubStream3)
		if a.HasComponentType {
			w.put(8, uint64(a.ComponentType))
		}
		if a.HasBSID {
			w.put(8, uint64(a.BSID))
		}
		if a.HasMainID {
			w.put(8, uint64(a.MainID))
		}
		if a.HasASVC {
			w.put(8, uint64(a.ASVC))
		}
		if a.HasSubStream1 {
			w.put(8, uint64(a.SubStream1))
		}
		if a.HasSubStream2 {
			w.put(8, uint64(a.SubStream2))
		}
		if a.HasSubStream3 {
			w.put(8, uint64(a.SubStream3))
		}
		w.bytes(a.AdditionalInfo)
	case 0x4e: // extended event, 6.2.15
		e := d.ExtendedEvent
		w.put(4, uint64(e.Number))
		w.put(4, uint64(e.LastDescriptorNumber))
		c14Lang3(w, e.ISO639LanguageCode)
		items := &bw{}
		for _, it := range e.Items {
			items.put(8, uint64(len(it.Description)))
			items.bytes(it.Description)
			items.put(8, uint64(len(it.Content)))
			items.bytes(it.Content)
		}
		w.put(8, uint64(len(items.b)))
		w.bytes(items.b)
		w.put(8, uint64(len(e.Text)))
		w.bytes(e.Text)
	case 0x7f: // extension, 6.2.16; supplementary audio 6.4.10
		e := d.Extension
		w.put(8, uint64(e.Tag))
		if e.Tag == 0x06 {
			s := e.SupplementaryAudio
			w.flag(s.MixType)
			w.put(5, uint64(s.EditorialClassification))
			w.put(1, 1)
			w.flag(s.HasLanguageCode)
			if s.HasLanguageCode {
				c14Lang3(w, s.LanguageCode)
			}
			w.bytes(s.PrivateData)
		} else if e.Unknown != nil {
			w.bytes(*e.Unknown)
		}
	case 0x0a: // ISO 639 language, 2.6.18 (one entry)
		c14Lang3(w, d.ISO639LanguageAndAudioType.Language)
		w.put(8, uint64(d.ISO639LanguageAndAudioType.Type))
	case 0x58: // local time offset, 6.2.20
		for _, it := range d.LocalTimeOffset.Items {
			c14Lang3(w, it.CountryCode)
			w.put(6, uint64(it.CountryRegionID))
			w.put(1, 1)
			w.flag(it.LocalTimeOffsetPolarity)
			hm := func(x time.Duration) {
				m := int(x / time.Minute)
				w.put(8, c14Bcd2(m/60))
				w.put(8, c14Bcd2(m%60))
			}
			hm(it.LocalTimeOffset)
			t := it.TimeOfChange.UTC()
			w.put(16, uint64(c14MjdOf(t)))
			w.put(8, c14Bcd2(t.Hour()))
			w.put(8, c14Bcd2(t.Minute()))
			w.put(8, c14Bcd2(t.Second()))
			hm(it.NextTimeOffset)
		}
	case 0x0e: // maximum bitrate, 2.6.26: units of 50 bytes/second
		w.put(2, 3)
		w.put(22, uint64(d.MaximumBitrate.Bitrate/50))
	case 0x40: // network name, 6.2.27
		w.bytes(d.NetworkName.Name)
	case 0x55: // parental rating, 6.2.28
		for _, it := range d.ParentalRating.Items {
			c14Lang3(w, it.CountryCode)
			w.put(8, uint64(it.Rating))
		}
	case 0x0f: // private data indicator, 2.6.28
		w.put(32, uint64(d.PrivateDataIndicator.Indicator))
	case 0x5f: // private data specifier, 6.2.31
		w.put(32, uint64(d.PrivateDataSpecifier.Specifier))
	case 0x05: // registration, 2.6.8
		w.put(32, uint64(d.Registration.FormatIdentifier))
		w.bytes(d.Registration.AdditionalIdentificationInfo)
	case 0x48: // service, 6.2.33
		s := d.Service
		w.put(8, uint64(s.Type))
		w.put(8, uint64(len(s.Provider)))
		w.bytes(s.Provider)
		w.put(8, uint64(len(s.Name)))
		w.bytes(s.Name)
	case 0x4d: // short event, 6.2.37
		s := d.ShortEvent
		c14Lang3(w, s.Language)
		w.put(8, uint64(len(s.EventName)))
		w.bytes(s.EventName)
		w.put(8, uint64(len(s.Text)))
		w.bytes(s.Text)
	case 0x52: // stream identifier, 6.2.39
		w.put(8, uint64(d.StreamIdentifier.ComponentTag))
	case 0x59: // subtitling, 6.2.41
		for _, it := range d.Subtitling.Items {
			c14Lang3(w, it.Language)
			w.put(8, uint64(it.Type))
			w.put(16, uint64(it.CompositionPageID))
			w.put(16, uint64(it.AncillaryPageID))
		}
	case 0x56: // teletext, 6.2.43
		c14RefTeletext(w, d.Teletext)
	case 0x46: // VBI teletext, 6.2.48
		c14RefTeletext(w, d.VBITeletext)
	case 0x45: // VBI data, 6.2.47
		for _, s := range d.VBIData.Services {
			w.put(8, uint64(s.DataServiceID))
			if c14IsVBILineService(s.DataServiceID) {
				w.put(8, uint64(len(s.Descriptors)))
				for _, l := range s.Descriptors {
					w.put(2, 3)
					w.flag(l.FieldParity)
					w.put(5, uint64(l.LineOffset))
				}
			} else {
				w.put(8, 1) // one reserved byte
				w.put(8, 0xff)
			}
		}
	default:
		w.bytes(d.Unknown.Content)
	}
	return w.b
}

// c14RefBodyOrEmpty: a descriptor whose typed body is absent has an empty body.
func c14RefBodyOrEmpty(d *astits.Descriptor) []byte {
	if !c14RefBodyPresent(d) {
		return nil
	}
	return c14RefBody(d)
}

// c14RefLoop is the reference encoding of a descriptor loop with its 12-bit length: reserved(4) length(12) then
// tag(8) length(8) body for each descriptor. ok is false when a body exceeds 255 bytes or the loop 4095.
func c14RefLoop(ds []*astits.Descriptor, withLength bool) (out []byte, ok bool) {
	ok = true
	body := &bw{}
	for _, d := range ds {
		b := c14RefBodyOrEmpty(d)
		if len(b) > 255 {
			ok = false
		}
		body.put(8, uint64(d.Tag))
		body.put(8, uint64(len(b)))
		body.bytes(b)
	}
	if !withLength {
		return body.b, ok
	}
	if len(body.b) > 4095 {
		ok = false
	}
	w := &bw{}
	w.put(4, 0xf)
	w.put(12, uint64(len(body.b)))
	w.bytes(body.b)
	return w.b, ok
}

func c14Is3(bs []byte) bool { return len(bs) == 3 }

// c14WfDesc: the value lies in the domain of the round-trip clause (the struct's Length field is not looked at):
// exactly the typed body of the tag, 3-byte language codes, numeric fields within their bit widths, bitrate a
// multiple of 50 below 50*2^22, teletext page < 100, BCD-representable offsets, dates the 16-bit MJD covers, body <= 255 bytes.
func c14WfDesc(d *astits.Descriptor) bool {
	if !c14RefBodyPresent(d) {
		return false
	}
	if len(c14RefBody(d)) > 255 {
		return false
	}
	if !c14IsUser(d.Tag) && len(d.UserDefined) > 0 {
		return false
	}
	switch {
	case c14IsUser(d.Tag):
		return true
	case d.Tag == 0x6a:
		a := d.AC3
		return (a.HasComponentType || a.ComponentType == 0) && (a.HasBSID || a.BSID == 0) && (a.HasMainID || a.MainID == 0) && (a.HasASVC || a.ASVC == 0)
	case d.Tag == 0x28:
		return d.AVCVideo.CompatibleFlags < 32
	case d.Tag == 0x50:
		c := d.Component
		return c.StreamContent < 16 && c.StreamContentExt < 16 && c14Is3(c.ISO639LanguageCode)
	case d.Tag == 0x54:
		for _, it := range d.Content.Items {
			if it.ContentNibbleLevel1 > 15 || it.ContentNibbleLevel2 > 15 {
				return false
			}
		}
		return true
	case d.Tag == 0x7a:
		a := d.EnhancedAC3
		return (a.HasComponentType || a.ComponentType == 0) && (a.HasBSID || a.BSID == 0) && (a.HasMainID || a.MainID == 0) && (a.HasASVC || a.ASVC == 0) &&
			(a.HasSubStream1 || a.SubStream1 == 0) && (a.HasSubStream2 || a.SubStream2 == 0) && (a.HasSubStream3 || a.SubStream3 == 0)
	case d.Tag == 0x4e:
		e := d.ExtendedEvent
		if e.Number > 15 || e.LastDescriptorNumber > 15 || !c14Is3(e.ISO639LanguageCode) {
			return false
		}
		return true
	case d.Tag == 0x7f:
		e := d.Extension
		if e.Tag == 0x06 {
			s := e.SupplementaryAudio
			if e.Unknown != nil || s.EditorialClassification > 31 {
				return false
			}
			if s.HasLanguageCode {
				return c14Is3(s.LanguageCode)
			}
			return len(s.LanguageCode) == 0
		}
		return e.Unknown != nil && e.SupplementaryAudio == nil
	case d.Tag == 0x0a:
		return c14Is3(d.ISO639LanguageAndAudioType.Language)
	case d.Tag == 0x58:
		for _, it := range d.LocalTimeOffset.Items {
			if !c14Is3(it.CountryCode) || it.CountryRegionID > 63 {
				return false
			}
			for _, x := range []time.Duration{it.LocalTimeOffset, it.NextTimeOffset} {
				if x < 0 || x%time.Minute != 0 || x >= 100*time.Hour {
					return false
				}
			}
			m := c14MjdOf(it.TimeOfChange)
			if m < 15079 || m > 65535 || it.TimeOfChange.Nanosecond() != 0 {
				return false
			}
		}
		return true
	case d.Tag == 0x0e:
		b := d.MaximumBitrate.Bitrate
		return b%50 == 0 && b/50 < 1<<22
	case d.Tag == 0x55:
		for _, it := range d.ParentalRating.Items {
			if !c14Is3(it.CountryCode) {
				return false
			}
		}
		return true
	case d.Tag == 0x4d:
		return c14Is3(d.ShortEvent.Language)
	case d.Tag == 0x59:
		for _, it := range d.Subtitling.Items {
			if !c14Is3(it.Language) {
				return false
			}
		}
		return true
	case d.Tag == 0x56 || d.Tag == 0x46:
		t := d.Teletext
		if d.Tag == 0x46 {
			t = d.VBITeletext
		}
		for _, it := range t.Items {
			if !c14Is3(it.Language) || it.Type > 31 || it.Magazine > 7 || it.Page > 99 {
				return false
			}
		}
		return true
	case d.Tag == 0x45:
		for _, s := range d.VBIData.Services {
			if !c14IsVBILineService(s.DataServiceID) && len(s.Descriptors) > 0 {
				return false
			}
			for _, l := range s.Descriptors {
				if l.LineOffset > 31 {
					return false
				}
			}
		}
		return true
	case c14IsTyped(d.Tag):
		return true
	}
	// unknown tag: the parser records the tag in the body as well
	return d.Unknown.Tag == d.Tag
}

// c14OnlyBody reports that no typed body other than the one the tag selects is set (what the parser produces).
func c14OnlyBody(d *astits.Descriptor) bool {
	n := 0
	for _, p := range []bool{d.AC3 != nil, d.AVCVideo != nil, d.Component != nil, d.Content != nil, d.DataStreamAlignment != nil,
		d.EnhancedAC3 != nil, d.ExtendedEvent != nil, d.Extension != nil, d.ISO639LanguageAndAudioType != nil, d.LocalTimeOffset != nil,
		d.MaximumBitrate != nil, d.NetworkName != nil, d.ParentalRating != nil, d.PrivateDataIndicator != nil, d.PrivateDataSpecifier != nil,
		d.Registration != nil, d.Service != nil, d.ShortEvent != nil, d.StreamIdentifier != nil, d.Subtitling != nil, d.Teletext != nil,
		d.Unknown != nil, d.VBIData != nil, d.VBITeletext != nil} {
		if p {
			n++
		}
	}
	if c14IsUser(d.Tag) {
		return n == 0
	}
	return n == 1 && len(d.UserDefined) == 0
}

// c14ExpectParsed is what parsing the reference encoding of a well-formed d must yield: d itself with Length = the
// body size; a body of zero bytes comes back as "no body" (S7: "no body" is identified with the empty value).
func c14ExpectParsed(d *astits.Descriptor) *astits.Descriptor {
	b := c14RefBody(d)
	if len(b) == 0 {
		return &astits.Descriptor{Tag: d.Tag}
	}
	q := *d
	q.Length = uint8(len(b))
	return &q
}
