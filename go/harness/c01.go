package main

import (
	"bytes"
	"fmt"

	astits "github.com/asticode/go-astits"
)

// C01: mux -> demux round trip. A case is a muxer history (mux.go); the implementation's output bytes are demuxed by
// the real Demuxer; the model does the same with the muxer and demuxer models (coq/Extract/RunC01.v).
type c01 struct{}

func init() { props["C01"] = c01{} }

func (c01) Num() int { return 1 }

func (c01) Gen(r *Rng, tier string, emit func(string, Tok)) {
	n := scale(tier, 60, 600)
	for k := 0; k < n; k++ {
		period, ops := muxHistory(r, tier, r.Range(3, scale(tier, 25, 120)))
		emit("history", muxCaseTok(period, c01NoPackets(ops)))
	}
	for k := 0; k < scale(tier, 10, 60); k++ {
		period, ops := muxManyPackets(r, tier)
		emit("many-packets", muxCaseTok(period, c01NoPackets(ops)))
	}
	// long histories: automatic PID assignment swept past the PMT PID with the PIDs next to it occupied; a PID added
	// again after many other removals
	{
		period, ops := muxAutoSweep(r, tier, 0xf20)
		emit("auto-pid-sweep", muxCaseTok(period, c01NoPackets(ops)))
		for _, n := range []int{64, 256, 1024} {
			period, ops := muxReAddAfterMany(r, tier, n+r.Intn(3))
			emit("add-again-after-many-removals", muxCaseTok(period, c01NoPackets(ops)))
		}
		for k := 0; k < 6; k++ {
			period, ops := muxSameShapeHeaders(r, tier)
			emit("same-shape-headers", muxCaseTok(period, ops))
		}
	}
	// payload lengths around every k*184 +/- header / adaptation field boundary, with and without a first-packet
	// adaptation field, video (unbounded) and audio (bounded) stream ids
	for _, st := range []astits.StreamType{astits.StreamTypeH264Video, astits.StreamTypeAACAudio} {
		for _, withAF := range []bool{false, true} {
			var ops []muxOp
			ops = append(ops, muxOp{kind: opAdd, es: &astits.PMTElementaryStream{ElementaryPID: 0x101, StreamType: st}}, muxOp{kind: opSetPCR, pid: 0x101})
			lo, hi := 1, 600
			if tier == "thorough" {
				hi = 1300
			}
			for size := lo; size <= hi; size++ {
				if tier != "thorough" && size > 200 && size%184 > 24 && size%184 < 160 {
					continue
				}
				var af *astits.PacketAdaptationField
				if withAF {
					af = &astits.PacketAdaptationField{HasPCR: true, PCR: &astits.ClockReference{Base: int64(size) * 3003, Extension: int64(size % 300)}, RandomAccessIndicator: size%5 == 0}
				}
				ops = append(ops, muxOp{kind: opData, d: &astits.MuxerData{PID: 0x101, AdaptationField: af, PES: &astits.PESData{Data: r.Bytes(size),
					Header: &astits.PESHeader{OptionalHeader: &astits.PESOptionalHeader{MarkerBits: 2, PTSDTSIndicator: astits.PTSDTSIndicatorOnlyPTS, PTS: &astits.ClockReference{Base: int64(size)}}}}}})
			}
			emit("length-sweep", muxCaseTok(r.Range(1, 50), ops))
		}
	}
	// around 65535
	{
		var ops []muxOp
		ops = append(ops, muxOp{kind: opAdd, es: &astits.PMTElementaryStream{ElementaryPID: 0x102, StreamType: astits.StreamTypeAACAudio}}, muxOp{kind: opSetPCR, pid: 0x102})
		for size := 65510; size <= 65545; size += scale(tier, 3, 1) {
			ops = append(ops, muxOp{kind: opData, d: &astits.MuxerData{PID: 0x102, PES: &astits.PESData{Data: r.Bytes(size),
				Header: &astits.PESHeader{OptionalHeader: &astits.PESOptionalHeader{MarkerBits: 2, PTSDTSIndicator: astits.PTSDTSIndicatorBothPresent,
					PTS: &astits.ClockReference{Base: 1}, DTS: &astits.ClockReference{Base: 2}}}}}})
		}
		emit("length-64k", muxCaseTok(40, ops))
	}
	// first-packet adaptation fields with the discontinuity indicator, private data of every size that still leaves room
	{
		var ops []muxOp
		ops = append(ops, muxOp{kind: opAdd, es: &astits.PMTElementaryStream{ElementaryPID: 0x103, StreamType: astits.StreamTypeH264Video}}, muxOp{kind: opSetPCR, pid: 0x103})
		for n := 0; n <= 170; n += scale(tier, 7, 1) {
			af := &astits.PacketAdaptationField{DiscontinuityIndicator: n%3 == 0, HasTransportPrivateData: true, TransportPrivateData: r.Bytes(n), TransportPrivateDataLength: n}
			ops = append(ops, muxOp{kind: opData, d: &astits.MuxerData{PID: 0x103, AdaptationField: af, PES: &astits.PESData{Data: r.Bytes(r.Range(1, 400)),
				Header: &astits.PESHeader{OptionalHeader: &astits.PESOptionalHeader{MarkerBits: 2}}}}})
		}
		emit("af-sizes", muxCaseTok(7, ops))
	}
	// first-packet adaptation fields that leave exactly, one less and one more than the room the PES header needs (the
	// boundary between "header in the first packet" and "adaptation field alone in a packet of its own"), with and
	// without PCR, with the random access indicator set and cleared, on the PCR PID and on another PID
	{
		var ops []muxOp
		ops = append(ops, muxOp{kind: opAdd, es: &astits.PMTElementaryStream{ElementaryPID: 0x104, StreamType: astits.StreamTypeH264Video}},
			muxOp{kind: opAdd, es: &astits.PMTElementaryStream{ElementaryPID: 0x105, StreamType: astits.StreamTypeAACAudio}}, muxOp{kind: opSetPCR, pid: 0x104})
		hdrs := []*astits.PESOptionalHeader{
			{MarkerBits: 2},
			{MarkerBits: 2, PTSDTSIndicator: astits.PTSDTSIndicatorOnlyPTS, PTS: &astits.ClockReference{Base: 90000}},
			{MarkerBits: 2, PTSDTSIndicator: astits.PTSDTSIndicatorBothPresent, PTS: &astits.ClockReference{Base: 90000}, DTS: &astits.ClockReference{Base: 80000}},
		}
		for hi, oh := range hdrs {
			hlen := []int{9, 14, 19}[hi]
			for _, pcr := range []bool{true, false} {
				fixed := 2 + 1 // length byte, flags, private data length byte
				if pcr {
					fixed += 6
				}
				exact := 184 - hlen - fixed
				for n := exact - 2; n <= exact+2; n++ {
					for _, rai := range []bool{false, true} {
						for _, pid := range []uint16{0x104, 0x105} {
							af := &astits.PacketAdaptationField{RandomAccessIndicator: rai, HasTransportPrivateData: true, TransportPrivateData: r.Bytes(n), TransportPrivateDataLength: n}
							if pcr {
								af.HasPCR, af.PCR = true, &astits.ClockReference{Base: int64(n) * 1000, Extension: 7}
							}
							h := *oh
							ops = append(ops, muxOp{kind: opData, d: &astits.MuxerData{PID: pid, AdaptationField: af, PES: &astits.PESData{Data: r.Bytes(r.Range(1, 300)),
								Header: &astits.PESHeader{OptionalHeader: &h}}}})
						}
					}
				}
			}
		}
		emit("af-exact-fit", muxCaseTok(13, ops))
	}
	// typed descriptors in the PMT, handed to AddElementaryStream as a caller writes them (struct Length correct, 0 or
	// wrong; zero-item bodies): every PMT that comes out must list them in parsed form (C01_roundtrip_typed_desc_written)
	for k := 0; k < scale(tier, 24, 240); k++ {
		var ops []muxOp
		nstreams := r.Range(1, 3)
		sts := []astits.StreamType{astits.StreamTypeH264Video, astits.StreamTypeAACAudio, astits.StreamTypePrivateData}
		for j := 0; j < nstreams; j++ {
			ops = append(ops, muxOp{kind: opAdd, es: &astits.PMTElementaryStream{ElementaryPID: uint16(0x110 + j), StreamType: sts[r.Intn(len(sts))],
				ElementaryStreamDescriptors: c14GenLoop(r, 7, 150/nstreams-5)}}) // the PMT must fit one packet
		}
		ops = append(ops, muxOp{kind: opSetPCR, pid: 0x110})
		for j := 0; j < r.Range(2, 4); j++ {
			pid := uint16(0x110 + r.Intn(nstreams))
			ops = append(ops, muxOp{kind: opData, d: &astits.MuxerData{PID: pid, PES: &astits.PESData{Data: r.Bytes(r.Range(1, 400)),
				Header: &astits.PESHeader{OptionalHeader: &astits.PESOptionalHeader{MarkerBits: 2, PTSDTSIndicator: astits.PTSDTSIndicatorOnlyPTS, PTS: &astits.ClockReference{Base: int64(90000 + 3600*j)}}}}}})
		}
		ops = append(ops, muxOp{kind: opTables})
		if nstreams > 1 {
			ops = append(ops, muxOp{kind: opRemove, pid: uint16(0x110 + nstreams - 1)}, muxOp{kind: opTables})
		}
		emit("typed-desc", muxCaseTok(r.Range(1, 50), ops))
	}
}

// c01ExpectStreams: the streams a PMT must list for the configuration cfg -- PID, stream type and the descriptors in the
// form parseDescriptors returns them; ok = every descriptor lies in the domain of the C14 round trip
func c01ExpectStreams(cfg []*astits.PMTElementaryStream) (string, bool) {
	var out []astits.PMTElementaryStream
	for _, e := range cfg {
		c := astits.PMTElementaryStream{ElementaryPID: e.ElementaryPID, StreamType: e.StreamType}
		for _, d := range e.ElementaryStreamDescriptors {
			if d == nil || !c14WfDesc(d) || !c14OnlyBody(d) {
				return "", false
			}
			c.ElementaryStreamDescriptors = append(c.ElementaryStreamDescriptors, c14ExpectParsed(d))
		}
		out = append(out, c)
	}
	return ToTok(out).String(), true
}

// c01EmitsTables: the bytes of a call start with a packet on PID 0 (the PAT of a table emission)
func c01EmitsTables(b []byte) bool {
	return len(b) >= 376 && b[0] == 0x47 && b[1]&0x1f == 0 && b[2] == 0
}

// c01NoPackets drops WritePacket calls: C01 quantifies over Add/Remove/SetPCRPID/WriteTables/WriteData histories (a raw
// packet written on a PID in use is the caller's doing)
func c01NoPackets(ops []muxOp) []muxOp {
	var out []muxOp
	for _, o := range ops {
		if o.kind != opPacket {
			out = append(out, o)
		}
	}
	return out
}

func (c01) Run(c Tok) Tok {
	period, ops := muxCaseOf(c)
	calls := runMux(period, ops)
	var out []byte
	ct := make([]Tok, len(calls))
	for i, cl := range calls {
		out = append(out, cl.bytes...)
		ct[i] = L(I(cl.code), I(int64(cl.n)))
	}
	run := runScenario(scenario{kind: 1, optSize: 188, fault: -1, data: out, ops: []int{3}})
	return L(L(ct...), run.observation())
}

// expectation of one successful WriteData
type c01PES struct {
	pid  uint16
	d    *astits.MuxerData
	sid  uint8
	afOK bool // the adaptation field leaves room for the PES header in the first packet
}

func c01Project(h *astits.PESOptionalHeader) string {
	if h == nil {
		return "nil"
	}
	c := *h
	c.HeaderLength = 0
	c.MarkerBits = 2
	c.HasOptionalFields = false
	c.Extension2Length = uint8(len(c.Extension2Data))
	return ToTok(c).String()
}

func c01AF(af *astits.PacketAdaptationField) string {
	if af == nil {
		return "nil"
	}
	c := *af
	c.Length, c.StuffingLength, c.IsOneByteStuffing = 0, 0, false
	if c.AdaptationExtensionField != nil {
		e := *c.AdaptationExtensionField
		e.Length = 0
		c.AdaptationExtensionField = &e
	}
	c.TransportPrivateDataLength = len(c.TransportPrivateData)
	return ToTok(c).String()
}

func (c01) Oracle(c Tok, obs Tok) string {
	period, ops := muxCaseOf(c)
	calls := runMux(period, ops)
	var out []byte
	// replay the history to know the configuration at each call
	type es struct {
		pid uint16
		st  astits.StreamType
	}
	var streams []es
	var cfg []*astits.PMTElementaryStream // the configured streams with their descriptors, insertion order
	var wantPMT []string                  // per table emission: what the PMT must list ("" = descriptors outside C14's domain)
	var want = map[uint16][]c01PES{}
	tables := 0
	pending := tables
	_ = pending
	for i, o := range ops {
		cl := calls[i]
		out = append(out, cl.bytes...)
		if (o.kind == opTables || o.kind == opData) && c01EmitsTables(cl.bytes) {
			w, ok := c01ExpectStreams(cfg)
			if !ok {
				w = ""
			}
			wantPMT = append(wantPMT, w)
		}
		switch o.kind {
		case opAdd:
			if cl.code == -1 {
				pid := o.es.ElementaryPID
				if pid == 0 {
					// automatically assigned: read it back from the state snapshot
					pids := cl.st.PMTPIDs
					pid = pids[len(pids)-1]
					if reservedPID(pid) {
						return fmt.Sprintf("call %d: AddElementaryStream assigned PID %#x automatically, the PID of a table: its units cannot be demultiplexed", i, pid)
					}
				}
				streams = append(streams, es{pid, o.es.StreamType})
				e := *o.es
				e.ElementaryPID = pid
				cfg = append(cfg, &e)
			}
		case opRemove:
			if cl.code == -1 {
				for k, s := range streams {
					if s.pid == o.pid {
						streams = append(append([]es{}, streams[:k]...), streams[k+1:]...)
						cfg = append(append([]*astits.PMTElementaryStream{}, cfg[:k]...), cfg[k+1:]...)
						break
					}
				}
			}
		case opData:
			if cl.code != -1 || !muxDataInDomain(o.d) || reservedPID(o.d.PID) {
				if cl.code == -1 && reservedPID(o.d.PID) {
					return "" // a PES on a PID the demuxer treats as PSI cannot round-trip by design (S2): history out of domain
				}
				continue
			}
			var st astits.StreamType
			for _, s := range streams {
				if s.pid == o.d.PID {
					st = s.st
				}
			}
			sid := o.d.PES.Header.StreamID
			if sid == 0 {
				sid = astits.VerifStreamTypeToPESStreamID(st)
			}
			hdr := 6 + int(astits.VerifCalcPESOptionalHeaderLength(o.d.PES.Header.OptionalHeader))
			want[o.d.PID] = append(want[o.d.PID], c01PES{pid: o.d.PID, d: o.d, sid: sid, afOK: 4+afSize(o.d.AdaptationField)+hdr <= 188})
		}
	}
	run := runScenario(scenario{kind: 1, optSize: 188, fault: -1, data: out, ops: []int{3}})
	got := map[uint16][]*astits.DemuxerData{}
	npat, npmt := 0, 0
	for i, d := range run.data {
		if d == nil {
			if run.errs[i] != nil && errCode(run.errs[i]) != 1 {
				return "demuxing the muxer's output reports an error: " + run.errs[i].Error()
			}
			continue
		}
		switch {
		case d.PES != nil:
			got[d.PID] = append(got[d.PID], d)
		case d.PAT != nil:
			npat++
			if len(d.PAT.Programs) != 1 || d.PAT.Programs[0].ProgramNumber != 1 || d.PAT.Programs[0].ProgramMapID != 0x1000 {
				return "the PAT does not map program 1 to the PMT PID: " + ToTok(*d.PAT).String()
			}
		case d.PMT != nil:
			if npmt < len(wantPMT) && wantPMT[npmt] != "" {
				var gotES []astits.PMTElementaryStream
				for _, e := range d.PMT.ElementaryStreams {
					gotES = append(gotES, *e)
				}
				if g := ToTok(gotES).String(); g != wantPMT[npmt] {
					return fmt.Sprintf("PMT %d does not list the configured streams with their descriptors in parsed form: delivered %s expected %s", npmt, g, wantPMT[npmt])
				}
			}
			npmt++
		}
	}
	if npat != npmt {
		return fmt.Sprintf("%d PAT and %d PMT delivered", npat, npmt)
	}
	for pid, ws := range want {
		gs := got[pid]
		if len(gs) != len(ws) {
			return fmt.Sprintf("PID %d: %d PES written, %d delivered", pid, len(ws), len(gs))
		}
		for k, w := range ws {
			g := gs[k]
			if !bytes.Equal(g.PES.Data, w.d.PES.Data) {
				return fmt.Sprintf("PID %d, PES %d: payload of %d bytes came back as %d bytes (or altered)", pid, k, len(w.d.PES.Data), len(g.PES.Data))
			}
			if g.PES.Header.StreamID != w.sid {
				return fmt.Sprintf("PID %d, PES %d: stream id %d written, %d delivered", pid, k, w.sid, g.PES.Header.StreamID)
			}
			if a, b := c01Project(g.PES.Header.OptionalHeader), c01Project(w.d.PES.Header.OptionalHeader); a != b {
				return fmt.Sprintf("PID %d, PES %d: optional header differs: delivered %s written %s", pid, k, a, b)
			}
			if w.afOK {
				if a, b := c01AF(g.FirstPacket.AdaptationField), c01AF(w.d.AdaptationField); a != b && w.d.AdaptationField != nil {
					return fmt.Sprintf("PID %d, PES %d: first-packet adaptation field differs: delivered %s written %s", pid, k, a, b)
				}
			}
		}
	}
	for pid, gs := range got {
		if len(want[pid]) == 0 && len(gs) > 0 {
			return fmt.Sprintf("PID %d: %d PES delivered, none written", pid, len(gs))
		}
	}
	return ""
}

func (c01) Nontrivial(c Tok, obs Tok) bool { return len(obs.At(1).At(0).L) > 2 }
