package main

import (
	"fmt"

	astits "github.com/asticode/go-astits"
)

// C04 — everything the Muxer hands to its writer is whole, decodable 188-byte packets; byte counts are exact;
// a rejected call leaves no partial packet.  Oracle: the independent decoder of tsdec.go walks the bytes of every call.

func init() { props["C04"] = muxProp{4, genC04, oracleC04} }

func genC04(r *Rng, tier string, emit func(string, Tok)) {
	muxGenAll(r, tier, muxMix{
		random: scale(tier, 150, 600), maxLen: scale(tier, 60, 400),
		wrap: scale(tier, 4, 40), bigPMT: scale(tier, 15, 150), many: scale(tier, 30, 400), readd: scale(tier, 15, 150), ood: scale(tier, 40, 400),
		exhaustive: scale(tier, 3, 4),
	}, emit)
}

func opName(o muxOp) string {
	return []string{"AddElementaryStream", "RemoveElementaryStream", "SetPCRPID", "WriteTables", "WriteData", "WritePacket"}[o.kind]
}

func pidKnown(st astits.VerifMuxerState, pid uint16) bool {
	for _, p := range st.ESPIDs {
		if p == pid {
			return true
		}
	}
	return false
}

// checkTablePair: a PAT packet followed by a PMT packet, each a PUSI packet whose payload is pointer_field + one section.
func checkTablePair(a, b tsPkt) (pat, pmt *tsSection, what string) {
	for i, p := range []tsPkt{a, b} {
		name, pid := "PAT", uint16(0)
		if i == 1 {
			name, pid = "PMT", 0x1000
		}
		if p.bad != "" {
			return nil, nil, name + " packet not decodable: " + p.bad
		}
		if p.pid != pid {
			return nil, nil, fmt.Sprintf("%s packet on PID %#x", name, p.pid)
		}
		if !p.pusi || !p.hasPayload() || p.hasAF {
			return nil, nil, fmt.Sprintf("%s packet: payload_unit_start=%v adaptation_field_control=%d", name, p.pusi, p.afc)
		}
		s, w := tsDecodeTable(p.payload)
		if w != "" {
			return nil, nil, name + " section: " + w
		}
		if int(s.tableID) != 2*i {
			return nil, nil, fmt.Sprintf("%s packet carries table_id %d", name, s.tableID)
		}
		if i == 0 {
			pat = s
		} else {
			pmt = s
		}
	}
	return pat, pmt, ""
}

// splitTables: the packets of a WriteData call: an optional PAT;PMT pair, then the packets of the unit.
func splitTables(pk []tsPkt, pid uint16) (tables []tsPkt, unit []tsPkt) {
	if len(pk) >= 2 && pk[0].pid == 0 && pk[1].pid == 0x1000 && pid&0x1fff != 0 && pid&0x1fff != 0x1000 {
		return pk[:2], pk[2:]
	}
	return nil, pk
}

// checkUnit: the packets WriteData produced for one PES on an in-domain MuxerData.
func checkUnit(d *astits.MuxerData, unit []tsPkt) string {
	var payload []byte
	started := false
	for k, p := range unit {
		if p.bad != "" {
			return fmt.Sprintf("packet %d of the unit not decodable: %s", k, p.bad)
		}
		if p.pid != d.PID&0x1fff {
			return fmt.Sprintf("packet %d of the unit on PID %#x, not %#x", k, p.pid, d.PID)
		}
		if p.tei || p.tsc != 0 {
			return fmt.Sprintf("packet %d of the unit has transport_error/scrambling bits set", k)
		}
		if !p.hasPayload() {
			if started {
				return fmt.Sprintf("packet %d: adaptation-field-only packet inside the unit", k)
			}
			if p.pusi {
				return fmt.Sprintf("packet %d: payload_unit_start_indicator on a packet without payload", k)
			}
			continue
		}
		if !started {
			if !p.pusi {
				return fmt.Sprintf("packet %d: first payload packet of the unit without payload_unit_start_indicator", k)
			}
			if len(p.payload) < 3 || p.payload[0] != 0 || p.payload[1] != 0 || p.payload[2] != 1 {
				return fmt.Sprintf("packet %d: payload_unit_start_indicator without PES start code", k)
			}
			started = true
		} else if p.pusi {
			return fmt.Sprintf("packet %d: payload_unit_start_indicator inside the unit", k)
		}
		if k > 0 && p.hasAF && k != len(unit)-1 && started && len(payload) > 0 {
			return fmt.Sprintf("packet %d: adaptation field in the middle of the unit", k)
		}
		payload = append(payload, p.payload...)
	}
	if !started {
		return "no payload packet for a non-empty PES"
	}
	data := d.PES.Data
	if len(payload) < 6+len(data) || !eqBytes(payload[len(payload)-len(data):], data) {
		return fmt.Sprintf("the unit's payload (%d bytes) does not end with the %d data bytes written", len(payload), len(data))
	}
	hdr := payload[:len(payload)-len(data)]
	sid := hdr[3]
	if sid != 0xbe && sid != 0xbf {
		if len(hdr) < 9 || len(hdr) != 9+int(hdr[8]) {
			return fmt.Sprintf("PES header of %d bytes inconsistent with PES_header_data_length", len(hdr))
		}
	} else if len(hdr) != 6 {
		return fmt.Sprintf("PES header of %d bytes for stream id %#x", len(hdr), sid)
	}
	if l := int(hdr[4])<<8 | int(hdr[5]); l != 0 && 6+l != len(payload) {
		return fmt.Sprintf("PES_packet_length %d but the unit carries %d bytes after it", l, len(payload)-6)
	}
	if d.PES.Header.StreamID != 0 && sid != d.PES.Header.StreamID {
		return fmt.Sprintf("stream id %#x written for %#x", sid, d.PES.Header.StreamID)
	}
	return ""
}

func oracleC04(period int, ops []muxOp, calls []muxCall) string {
	var prev astits.VerifMuxerState
	for i, o := range ops {
		c := calls[i]
		before := prev
		prev = c.st
		at := fmt.Sprintf("call %d (%s): ", i, opName(o))
		pk, rest := tsPackets(c.bytes)
		if rest != 0 {
			return at + fmt.Sprintf("%d bytes handed to the writer, not a whole number of packets (code %d)", len(c.bytes), c.code)
		}
		for k, p := range pk {
			if c.bytes[188*k] != 0x47 {
				return at + fmt.Sprintf("packet %d does not start with the sync byte: %s", k, p.bad)
			}
		}
		if c.code == -2 {
			if o.kind == opData && muxDataInDomain(o.d) || o.kind == opTables || o.kind <= opSetPCR {
				return at + "panic on arguments inside the domain"
			}
			continue
		}
		if c.n != len(c.bytes) {
			return at + fmt.Sprintf("returned %d but delivered %d bytes (code %d)", c.n, len(c.bytes), c.code)
		}
		switch o.kind {
		case opAdd, opRemove, opSetPCR:
			if len(c.bytes) != 0 {
				return at + "wrote bytes"
			}
		case opTables:
			if c.code != -1 {
				if len(c.bytes) != 0 {
					return at + "rejected but bytes were written"
				}
				continue
			}
			if len(pk) != 2 {
				return at + fmt.Sprintf("%d packets", len(pk))
			}
			if _, _, w := checkTablePair(pk[0], pk[1]); w != "" {
				return at + w
			}
		case opPacket:
			if c.code != -1 {
				if len(c.bytes) != 0 {
					return at + "rejected but bytes were written"
				}
				continue
			}
			if len(pk) != 1 {
				return at + fmt.Sprintf("%d packets", len(pk))
			}
			if wfPacket(o.p) && pk[0].bad != "" {
				return at + "conformant packet written undecodably: " + pk[0].bad
			}
		case opData:
			if !pidKnown(before, o.d.PID) {
				if c.code == -1 || len(c.bytes) != 0 {
					return at + fmt.Sprintf("unknown PID %#x: code %d, %d bytes", o.d.PID, c.code, len(c.bytes))
				}
				continue
			}
			if reservedPID(o.d.PID) {
				continue // explicit PID on a PSI / null PID: S2
			}
			tables, unit := splitTables(pk, o.d.PID)
			if len(tables) == 2 {
				if _, _, w := checkTablePair(tables[0], tables[1]); w != "" {
					return at + w
				}
			}
			if c.code != -1 {
				if len(unit) != 0 && muxDataInDomain(o.d) {
					return at + fmt.Sprintf("rejected (code %d) after %d packets of the unit were written", c.code, len(unit))
				}
				continue
			}
			if !muxDataInDomain(o.d) {
				if af := o.d.AdaptationField; af != nil && (af.StuffingLength != 0 || af.IsOneByteStuffing) {
					continue // S1: writer-internal members set by the caller end up in the packet as they are
				}
				for k, p := range unit {
					if p.bad != "" && o.d.PES != nil && o.d.PES.Header != nil && (o.d.AdaptationField == nil || afPointersOK(o.d.AdaptationField)) {
						return at + fmt.Sprintf("packet %d not decodable: %s", k, p.bad)
					}
				}
				continue
			}
			if afSize(o.d.AdaptationField) > 184 {
				return at + fmt.Sprintf("accepted an adaptation field of %d bytes", afSize(o.d.AdaptationField))
			}
			if w := checkUnit(o.d, unit); w != "" {
				return at + w
			}
		}
	}
	return ""
}
