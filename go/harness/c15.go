package main

import (
	"fmt"
	"time"

	astits "github.com/asticode/go-astits"
)

// C15: case forms (see coq/Extract/RunC15.v)
//
//	(1 bytes)   parseDVBTime             -> res (Unix seconds)
//	(2 bytes)   parseDVBDurationSeconds  -> res (nanoseconds)
//	(3 bytes)   parseDVBDurationMinutes  -> res (nanoseconds)
//	(4 b)       parseDVBDurationByte     -> n
//	(5 unix)    writeDVBTime(time.Unix(unix,0).UTC()) -> (bytes n)
//	(6 ns)      writeDVBDurationSeconds  -> (bytes n)
//	(7 ns)      writeDVBDurationMinutes  -> (bytes n)
//	(8 n)       dvbDurationByteRepresentation -> byte
//	(9 unix)    write, then parse what was written -> (bytes res)
type c15 struct{}

func init() { props["C15"] = c15{} }

func (c15) Num() int { return 15 }

const (
	c15MJDLo   = 15079 // 1900-03-01
	c15MJDHi   = 65535 // 2038-04-22
	c15MJDUnix = 40587 // MJD of 1970-01-01
)

// ---- independent reference (oracle only): proleptic Gregorian calendar on integers
// (era / day-of-era arithmetic, written without package time), BCD digit by digit ----

func floorDiv(a, b int64) int64 {
	q := a / b
	if (a%b != 0) && ((a < 0) != (b < 0)) {
		q--
	}
	return q
}

// c15DaysFromCivil: days since 1970-01-01 of year y, month m (1..12), day d
func c15DaysFromCivil(y, m, d int64) int64 {
	if m <= 2 {
		y--
	}
	era := floorDiv(y, 400)
	yoe := y - era*400
	mp := (m + 9) % 12 // March = 0
	doy := (153*mp+2)/5 + d - 1
	doe := yoe*365 + yoe/4 - yoe/100 + doy
	return era*146097 + doe - 719468
}

// c15CivilFromDays is the inverse
func c15CivilFromDays(z int64) (y, m, d int64) {
	z += 719468
	era := floorDiv(z, 146097)
	doe := z - era*146097
	yoe := (doe - doe/1460 + doe/36524 - doe/146096) / 365
	doy := doe - (365*yoe + yoe/4 - yoe/100)
	mp := (5*doy + 2) / 153
	d = doy - (153*mp+2)/5 + 1
	if mp < 10 {
		m = mp + 3
	} else {
		m = mp - 9
	}
	y = yoe + era*400
	if m <= 2 {
		y++
	}
	return
}

// digit-wise value of a BCD byte: tens digit * 10 + units digit (also for digits above 9)
func c15Digits(b byte) int64 { return int64(b>>4)*10 + int64(b&0xf) }

// two-digit BCD byte of n < 100
func c15BCD(n int64) byte { return byte(n/10)<<4 | byte(n%10) }

func c15ValidBCD(b byte) bool { return b>>4 <= 9 && b&0xf <= 9 }

func c15TimeBytes(mjd int, h, m, s int64) []byte {
	return []byte{byte(mjd >> 8), byte(mjd), c15BCD(h), c15BCD(m), c15BCD(s)}
}

func (c15) Gen(r *Rng, tier string, emit func(string, Tok)) {
	thorough := tier == "thorough"
	inRangeMJD := func() int { return r.Range(c15MJDLo, c15MJDHi) }
	randTOD := func() (int64, int64, int64) { return int64(r.Intn(24)), int64(r.Intn(60)), int64(r.Intn(60)) }

	// ---- byte functions: complete ----
	for b := 0; b < 256; b++ {
		emit("byte-parse", L(I(4), I(int64(b))))
		emit("byte-repr", L(I(8), I(int64(b))))
	}
	sweep("parseDVBDurationByte and dvbDurationByteRepresentation on all 256 byte values")

	// ---- decode: every 16-bit MJD word ----
	for mjd := 0; mjd < 65536; mjd++ {
		emit("decode-mjd", L(I(1), B(c15TimeBytes(mjd, 0, 0, 0))))
	}
	sweep("parseDVBTime on all 65536 MJD words at 00:00:00 (50457 of them in the property's range)")

	// ---- decode: every valid time of day on one in-range day ----
	day0 := inRangeMJD()
	for sod := int64(0); sod < 86400; sod++ {
		emit("decode-tod", L(I(1), B(c15TimeBytes(day0, sod/3600, sod/60%60, sod%60))))
	}
	sweep(fmt.Sprintf("parseDVBTime on all 86400 BCD times of day (MJD %d)", day0))

	// ---- decode: date and time jointly ----
	nj := 4000
	if thorough {
		nj = 200000
	}
	for k := 0; k < nj; k++ {
		h, m, s := randTOD()
		mjd := inRangeMJD()
		if k%8 == 0 {
			mjd = r.Intn(65536)
		}
		emit("decode-joint", L(I(1), B(c15TimeBytes(mjd, h, m, s))))
	}
	// grid: first/last days of the range and of each century part x edge times
	for _, mjd := range []int{0, 1, 15078, 15079, 15080, 15385, 15386, 40586, 40587, 40588, 51543, 51544, 51603, 51604, 65534, 65535} {
		for _, sod := range []int64{0, 1, 59, 60, 3599, 3600, 43200, 86399} {
			emit("decode-grid", L(I(1), B(c15TimeBytes(mjd, sod/3600, sod/60%60, sod%60))))
		}
	}

	// ---- decode: raw (non-BCD) time words ----
	for pos := 2; pos < 5; pos++ {
		for v := 0; v < 256; v++ {
			bs := c15TimeBytes(inRangeMJD(), 0, 0, 0)
			copy(bs[2:], r.Bytes(3))
			bs[pos] = byte(v)
			emit("decode-raw-byte", L(I(1), B(bs)))
		}
	}
	sweep("parseDVBTime with all 256 values at each of the three time-of-day byte positions")
	nr := 3000
	if thorough {
		nr = 300000
	}
	for k := 0; k < nr; k++ {
		emit("decode-raw", L(I(1), B(r.Bytes(5))))
	}
	// Go-side complete sweep of the 2^24 raw time words against the digit-wise definition
	// (the model's time-of-day decoder is a sum of the per-byte function, which is swept completely above)
	{
		bs := c15TimeBytes(day0, 0, 0, 0)
		base := int64(day0-c15MJDUnix) * 86400
		bad := 0
		for w := 0; w < 1<<24; w++ {
			bs[2], bs[3], bs[4] = byte(w>>16), byte(w>>8), byte(w)
			t, err := astits.VerifParseDVBTime(bs)
			want := base + c15Digits(bs[2])*3600 + c15Digits(bs[3])*60 + c15Digits(bs[4])
			if err != nil || t.Unix() != want {
				if bad < 5 {
					emit("decode-raw-sweep-failure", L(I(1), B(append([]byte{}, bs...))))
				}
				bad++
			}
		}
		sweep("Go side: parseDVBTime on all 2^24 raw time words against the digit-wise definition")
	}
	// truncated and over-long inputs
	for n := 0; n < 8; n++ {
		for k := 0; k < 6; k++ {
			emit("decode-length", L(I(1), B(r.Bytes(n))))
			emit("durS-length", L(I(2), B(r.Bytes(n%5))))
			emit("durM-length", L(I(3), B(r.Bytes(n%4))))
		}
	}

	// ---- durations, decode ----
	for w := 0; w < 65536; w++ {
		emit("durM-raw", L(I(3), B([]byte{byte(w >> 8), byte(w)})))
	}
	sweep("parseDVBDurationMinutes on all 2^16 raw words (includes all 10^4 BCD hh:mm values)")
	stepS := 89
	if thorough {
		stepS = 1
	}
	for v := r.Intn(stepS); v < 1000000; v += stepS {
		bs := []byte{c15BCD(int64(v / 10000)), c15BCD(int64(v / 100 % 100)), c15BCD(int64(v % 100))}
		emit("durS-bcd", L(I(2), B(bs)))
	}
	if thorough {
		sweep("parseDVBDurationSeconds on all 10^6 BCD hh:mm:ss digit strings")
	}
	for pos := 0; pos < 3; pos++ {
		for v := 0; v < 256; v++ {
			bs := r.Bytes(3)
			bs[pos] = byte(v)
			emit("durS-raw-byte", L(I(2), B(bs)))
		}
	}
	for k := 0; k < nr; k++ {
		emit("durS-raw", L(I(2), B(r.Bytes(3))))
	}
	// Go-side complete sweeps
	{
		bad := 0
		for v := 0; v < 1000000; v++ {
			bs := []byte{c15BCD(int64(v / 10000)), c15BCD(int64(v / 100 % 100)), c15BCD(int64(v % 100))}
			d, err := astits.VerifParseDVBDurationSeconds(bs)
			want := time.Duration(v/10000)*time.Hour + time.Duration(v/100%100)*time.Minute + time.Duration(v%100)*time.Second
			if err != nil || d != want {
				if bad < 5 {
					emit("durS-sweep-failure", L(I(2), B(bs)))
				}
				bad++
			}
		}
		sweep("Go side: parseDVBDurationSeconds on all 10^6 BCD digit strings against hh*3600+mm*60+ss")
		{
			bs := make([]byte, 3)
			for w := 0; w < 1<<24; w++ {
				bs[0], bs[1], bs[2] = byte(w>>16), byte(w>>8), byte(w)
				d, err := astits.VerifParseDVBDurationSeconds(bs)
				want := time.Duration(c15Digits(bs[0]))*time.Hour + time.Duration(c15Digits(bs[1]))*time.Minute + time.Duration(c15Digits(bs[2]))*time.Second
				if err != nil || d != want {
					if bad < 10 {
						emit("durS-sweep-failure", L(I(2), B(append([]byte{}, bs...))))
					}
					bad++
				}
			}
			sweep("Go side: parseDVBDurationSeconds on all 2^24 raw words against the digit-wise definition")
		}
	}

	// ---- encode: every day of the range at one time of day each ----
	for mjd := c15MJDLo; mjd <= c15MJDHi; mjd++ {
		h, m, s := randTOD()
		emit("encode-day", L(I(5), I(int64(mjd-c15MJDUnix)*86400+h*3600+m*60+s)))
	}
	sweep("writeDVBTime on all 50457 days of the range (one random time of day each)")
	// every second of a few days
	days := []int{c15MJDLo, c15MJDHi}
	if thorough {
		for k := 0; k < 6; k++ {
			days = append(days, inRangeMJD())
		}
	} else {
		days = []int{inRangeMJD()}
	}
	for _, mjd := range days {
		for sod := int64(0); sod < 86400; sod++ {
			emit("encode-tod", L(I(5), I(int64(mjd-c15MJDUnix)*86400+sod)))
		}
	}
	sweep(fmt.Sprintf("writeDVBTime on all 86400 seconds of %d day(s)", len(days)))
	// grid days x seconds, and round trips
	ng := 4000
	if thorough {
		ng = 400000
	}
	for k := 0; k < ng; k++ {
		u := int64(inRangeMJD()-c15MJDUnix)*86400 + int64(r.Intn(86400))
		if k%2 == 0 {
			emit("encode-grid", L(I(5), I(u)))
		} else {
			emit("roundtrip", L(I(9), I(u)))
		}
	}
	// outside the property's range: years 1..9999, and the edges of the range
	for k := 0; k < 3000; k++ {
		u := -62135596800 + int64(r.U64()%uint64(253402300800+62135596800))
		emit("encode-outside", L(I(5), I(u)))
		if k%10 == 0 {
			emit("roundtrip-outside", L(I(9), I(u)))
		}
	}
	for _, mjd := range []int{15077, 15078, 15079, 15080, 65535, 65536, 65537, 40587, 51603, 51604, 88068, 88069, 88070} {
		for _, sod := range []int64{0, 1, 86399} {
			u := int64(mjd-c15MJDUnix)*86400 + sod
			emit("encode-edge", L(I(5), I(u)))
			emit("roundtrip-edge", L(I(9), I(u)))
		}
	}
	// Go-side: all days x a stride of seconds (thorough: the full product would be 4.4e9 writer calls; a
	// grid of every day x 1440 seconds-of-day with a per-day offset covers every day and every second)
	{
		per := 8
		if thorough {
			per = 1440
		}
		bad := 0
		for mjd := c15MJDLo; mjd <= c15MJDHi; mjd++ {
			for k := 0; k < per; k++ {
				sod := (int64(k)*(86400/int64(per)) + int64(mjd*7919)) % 86400
				u := int64(mjd-c15MJDUnix)*86400 + sod
				s := &sinkWriter{failAt: -1}
				n, err := astits.VerifWriteDVBTime(s, time.Unix(u, 0).UTC())
				want := c15TimeBytes(mjd, sod/3600, sod/60%60, sod%60)
				if err != nil || n != 5 || !eqBytes(s.accepted, want) {
					if bad < 5 {
						emit("encode-sweep-failure", L(I(5), I(u)))
					}
					bad++
				}
			}
		}
		note("Go side: writeDVBTime on every day of the range x %d seconds of day against the reference encoding, %d failures", per, bad)
	}

	// ---- durations, encode ----
	for v := 0; v < 6000; v++ {
		emit("durM-enc", L(I(7), I(int64(v/60)*int64(time.Hour)+int64(v%60)*int64(time.Minute))))
	}
	sweep("writeDVBDurationMinutes on all 6000 whole-minute durations below 100 h")
	stepE := 41
	if thorough {
		stepE = 1
	}
	for v := r.Intn(stepE); v < 360000; v += stepE {
		emit("durS-enc", L(I(6), I(int64(v)*int64(time.Second))))
	}
	if thorough {
		sweep("writeDVBDurationSeconds on all 360000 whole-second durations below 100 h")
	}
	{
		bad := 0
		for v := int64(0); v < 360000; v++ {
			s := &sinkWriter{failAt: -1}
			n, err := astits.VerifWriteDVBDurationSeconds(s, time.Duration(v)*time.Second)
			want := []byte{c15BCD(v / 3600), c15BCD(v / 60 % 60), c15BCD(v % 60)}
			if err != nil || n != 3 || !eqBytes(s.accepted, want) {
				if bad < 5 {
					emit("durS-enc-sweep-failure", L(I(6), I(v*int64(time.Second))))
				}
				bad++
			}
		}
		sweep("Go side: writeDVBDurationSeconds on all 360000 whole-second durations below 100 h against the BCD reference")
	}
	// sub-second resolution inside the domain of the encoders (hours fit a uint8)
	for k := 0; k < 3000; k++ {
		ns := int64(r.U64() % uint64(256*time.Hour))
		switch k % 6 {
		case 0: // just below a unit boundary
			ns = ns/int64(time.Second)*int64(time.Second) - 1 - int64(r.Intn(3))
			if ns < 0 {
				ns = 0
			}
		case 1:
			ns = ns / int64(time.Minute) * int64(time.Minute)
		case 2:
			ns = ns/int64(time.Hour)*int64(time.Hour) + int64(time.Hour) - 1
		}
		emit("durS-enc-subsecond", L(I(6), I(ns)))
		emit("durM-enc-subsecond", L(I(7), I(ns)))
	}
	// outside that domain (negative, 256 h and more; whole seconds): Go's float->uint8 conversion is
	// implementation-defined there; on amd64/arm64 it truncates and keeps the low 8 bits, which is what the model says
	for k := 0; k < 400; k++ {
		sec := int64(r.U64()%(1<<33)) - (1 << 32)
		if k%4 == 0 {
			sec = int64(r.Intn(2000000)) - 1000000
		}
		emit("durS-enc-outside", L(I(6), I(sec*int64(time.Second))))
		emit("durM-enc-outside", L(I(7), I(sec*int64(time.Second))))
	}
}

func (c15) Run(c Tok) Tok {
	written := func(s *sinkWriter, n int, err error) Tok {
		if err != nil {
			return ResErr(errCode(err))
		}
		return L(B(s.accepted), I(int64(n)))
	}
	switch c.At(0).Int() {
	case 1:
		return guard(func() Tok {
			t, err := astits.VerifParseDVBTime(c.At(1).Bytes())
			return resOf(func() Tok { return I(t.Unix()) }, err)
		})
	case 2:
		return guard(func() Tok {
			d, err := astits.VerifParseDVBDurationSeconds(c.At(1).Bytes())
			return resOf(func() Tok { return I(int64(d)) }, err)
		})
	case 3:
		return guard(func() Tok {
			d, err := astits.VerifParseDVBDurationMinutes(c.At(1).Bytes())
			return resOf(func() Tok { return I(int64(d)) }, err)
		})
	case 4:
		return I(int64(astits.VerifParseDVBDurationByte(byte(c.At(1).Int()))))
	case 5:
		return guard(func() Tok {
			s := &sinkWriter{failAt: -1}
			n, err := astits.VerifWriteDVBTime(s, time.Unix(c.At(1).Int(), 0).UTC())
			return written(s, n, err)
		})
	case 6:
		return guard(func() Tok {
			s := &sinkWriter{failAt: -1}
			n, err := astits.VerifWriteDVBDurationSeconds(s, time.Duration(c.At(1).Int()))
			return written(s, n, err)
		})
	case 7:
		return guard(func() Tok {
			s := &sinkWriter{failAt: -1}
			n, err := astits.VerifWriteDVBDurationMinutes(s, time.Duration(c.At(1).Int()))
			return written(s, n, err)
		})
	case 8:
		return I(int64(astits.VerifDVBDurationByteRepresentation(uint8(c.At(1).Int()))))
	case 9:
		return guard(func() Tok {
			s := &sinkWriter{failAt: -1}
			if _, err := astits.VerifWriteDVBTime(s, time.Unix(c.At(1).Int(), 0).UTC()); err != nil {
				return ResErr(errCode(err))
			}
			t, err := astits.VerifParseDVBTime(s.accepted)
			return L(B(s.accepted), resOf(func() Tok { return I(t.Unix()) }, err))
		})
	}
	return L()
}

// c15InRange reports whether the Unix time lies on a day of the property's range
func c15InRange(u int64) bool {
	mjd := floorDiv(u, 86400) + c15MJDUnix
	return mjd >= c15MJDLo && mjd <= c15MJDHi
}

// reference encoding of a UTC time in the range: MJD (16 bits) and hh mm ss in BCD
func c15RefEncode(u int64) []byte {
	day := floorDiv(u, 86400)
	sod := u - day*86400
	// the MJD through the calendar: day number -> civil date -> days since 1858-11-17
	y, m, d := c15CivilFromDays(day)
	mjd := c15DaysFromCivil(y, m, d) - c15DaysFromCivil(1858, 11, 17)
	return c15TimeBytes(int(mjd), sod/3600, sod/60%60, sod%60)
}

func (c15) Oracle(c Tok, obs Tok) string {
	if obs.Kind == 'l' && len(obs.L) == 1 && obs.At(0).Int() == 2 {
		return "panic"
	}
	switch c.At(0).Int() {
	case 1:
		bs := c.At(1).Bytes()
		if len(bs) < 5 {
			if obs.At(0).Int() != 1 {
				return fmt.Sprintf("parseDVBTime accepted %d bytes", len(bs))
			}
			return ""
		}
		if obs.At(0).Int() != 0 {
			return "parseDVBTime failed on 5 or more bytes"
		}
		mjd := int64(bs[0])<<8 | int64(bs[1])
		if mjd < c15MJDLo {
			return "" // outside the property's range
		}
		// calendar date of the MJD, then that date's day number: both through the reference calendar
		y, m, d := c15CivilFromDays(mjd + c15DaysFromCivil(1858, 11, 17))
		want := c15DaysFromCivil(y, m, d)*86400 + c15Digits(bs[2])*3600 + c15Digits(bs[3])*60 + c15Digits(bs[4])
		got := obs.At(1).Int()
		if got != want {
			return fmt.Sprintf("parseDVBTime(MJD %d, %02x:%02x:%02x) = Unix %d, calendar says %d (%04d-%02d-%02d)", mjd, bs[2], bs[3], bs[4], got, want, y, m, d)
		}
		if c15ValidBCD(bs[2]) && c15ValidBCD(bs[3]) && c15ValidBCD(bs[4]) && c15Digits(bs[2]) < 24 && c15Digits(bs[3]) < 60 && c15Digits(bs[4]) < 60 {
			// the decoded time must show that date and time of day
			t := time.Unix(got, 0).UTC()
			gy, gm, gd := t.Date()
			if int64(gy) != y || int64(gm) != m || int64(gd) != d || int64(t.Hour()) != c15Digits(bs[2]) || int64(t.Minute()) != c15Digits(bs[3]) || int64(t.Second()) != c15Digits(bs[4]) {
				return fmt.Sprintf("decoded time %v is not %04d-%02d-%02d %02x:%02x:%02x", t, y, m, d, bs[2], bs[3], bs[4])
			}
		}
	case 2:
		bs := c.At(1).Bytes()
		if len(bs) < 3 {
			if obs.At(0).Int() != 1 {
				return "parseDVBDurationSeconds accepted fewer than 3 bytes"
			}
			return ""
		}
		want := (c15Digits(bs[0])*3600 + c15Digits(bs[1])*60 + c15Digits(bs[2])) * 1000000000
		if obs.At(0).Int() != 0 || obs.At(1).Int() != want {
			return fmt.Sprintf("parseDVBDurationSeconds(%x) = %s, digit-wise %d ns", bs[:3], obs.String(), want)
		}
	case 3:
		bs := c.At(1).Bytes()
		if len(bs) < 2 {
			if obs.At(0).Int() != 1 {
				return "parseDVBDurationMinutes accepted fewer than 2 bytes"
			}
			return ""
		}
		want := (c15Digits(bs[0])*3600 + c15Digits(bs[1])*60) * 1000000000
		if obs.At(0).Int() != 0 || obs.At(1).Int() != want {
			return fmt.Sprintf("parseDVBDurationMinutes(%x) = %s, digit-wise %d ns", bs[:2], obs.String(), want)
		}
	case 4:
		b := byte(c.At(1).Int())
		if obs.Int() != c15Digits(b) {
			return fmt.Sprintf("parseDVBDurationByte(%02x) = %d, digit-wise %d", b, obs.Int(), c15Digits(b))
		}
	case 5:
		u := c.At(1).Int()
		if !c15InRange(u) {
			return ""
		}
		want := c15RefEncode(u)
		if !eqBytes(obs.At(0).Bytes(), want) || obs.At(1).Int() != 5 {
			return fmt.Sprintf("writeDVBTime(Unix %d) = %s, reference %x", u, obs.String(), want)
		}
	case 6:
		ns := c.At(1).Int()
		if ns < 0 || ns >= 100*int64(time.Hour) {
			return ""
		}
		sec := ns / 1000000000
		want := []byte{c15BCD(sec / 3600), c15BCD(sec / 60 % 60), c15BCD(sec % 60)}
		if !eqBytes(obs.At(0).Bytes(), want) || obs.At(1).Int() != 3 {
			return fmt.Sprintf("writeDVBDurationSeconds(%d ns) = %s, reference %x", ns, obs.String(), want)
		}
	case 7:
		ns := c.At(1).Int()
		if ns < 0 || ns >= 100*int64(time.Hour) {
			return ""
		}
		min := ns / 60000000000
		want := []byte{c15BCD(min / 60), c15BCD(min % 60)}
		if !eqBytes(obs.At(0).Bytes(), want) || obs.At(1).Int() != 2 {
			return fmt.Sprintf("writeDVBDurationMinutes(%d ns) = %s, reference %x", ns, obs.String(), want)
		}
	case 8:
		n := c.At(1).Int()
		if n < 100 && obs.Int() != int64(c15BCD(n)) {
			return fmt.Sprintf("dvbDurationByteRepresentation(%d) = %02x, BCD %02x", n, obs.Int(), c15BCD(n))
		}
	case 9:
		u := c.At(1).Int()
		if !c15InRange(u) {
			return ""
		}
		want := c15RefEncode(u)
		if !eqBytes(obs.At(0).Bytes(), want) {
			return fmt.Sprintf("writeDVBTime(Unix %d) = %x, reference %x", u, obs.At(0).Bytes(), want)
		}
		if obs.At(1).At(0).Int() != 0 || obs.At(1).At(1).Int() != u {
			return fmt.Sprintf("parseDVBTime(writeDVBTime(Unix %d)) = %s", u, obs.At(1).String())
		}
	}
	return ""
}

func (c15) Nontrivial(c Tok, obs Tok) bool {
	switch c.At(0).Int() {
	case 1, 2, 3:
		return obs.At(0).Int() == 0
	case 9:
		return obs.At(1).At(0).Int() == 0
	}
	return true
}
