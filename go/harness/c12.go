package main

import (
	"fmt"
	"math/big"

	astits "github.com/asticode/go-astits"
)

// C12: case forms (see coq/Extract/RunC12.v)
//
//	(1 bytes [expect])                             parsePESData; expect = (0 pesdata) | (1) is used by the oracle only
//	(2 header payloadSize)                         writePESHeader          -> (bytes n)
//	(3 header payloadLeft isStart bytesAvailable)  writePESData            -> (bytes total payload)
//	(4 (optheader)?)                               writePESOptionalHeader  -> (bytes n)
//	(5 clockref)                                   Duration()              -> ns
//	(6 bytes) parsePTSOrDTS   (7 flag (cr)?) writePTSOrDTS   (8 bytes) parseESCR   (9 (cr)?) writeESCR
//	(10 byte) parseDSMTrickMode   (11 (dsm)?) writeDSMTrickMode   (12 (optheader)?) calcPESOptionalHeaderLength
//	(13 header payload)                            writePESHeader, then parsePESData on header ++ payload
type c12 struct{}

func init() { props["C12"] = c12{} }

// Two deviations from ISO 13818-1 were found while building this check:
// tag 1 "K-pack": pack_header() bytes behind pack_field_length were not skipped (repaired in /repo, d723a9d);
// tag 2 "K-sid": stream ids 0xBC 0xF0 0xF1 0xF2 0xF8 0xFF are given an optional header although Table 2-21
// has none for them (known finding K4: a test of the suite pins the behaviour). The oracle judges both; the
// violation text of a tagged case starts with the tag so that known_findings.json can match it.
var c12TagName = map[int64]string{1: "K-pack", 2: "K-sid"}

func (c12) Num() int { return 12 }

// ---------- independent reference encoder (ISO/IEC 13818-1 2.4.3.6, 2.4.3.7, Table 2-21) ----------

// c12IsoHasOptionalHeader: stream ids whose PES packet carries the optional header (Table 2-21): all but
// program_stream_map, padding_stream, private_stream_2, ECM, EMM, program_stream_directory, DSMCC_stream,
// ITU-T Rec. H.222.1 type E stream.
func c12IsoHasOptionalHeader(sid uint8) bool {
	switch sid {
	case 0xbc, 0xbe, 0xbf, 0xf0, 0xf1, 0xff, 0xf2, 0xf8:
		return false
	}
	return true
}

// c12LibHasOptionalHeader: the two ids the library treats as header-less (padding_stream, private_stream_2).
func c12LibHasOptionalHeader(sid uint8) bool { return sid != 0xbe && sid != 0xbf }

func c12RefTimestamp(w *bw, prefix uint64, base int64) {
	b := uint64(base)
	w.put(4, prefix)
	w.put(3, b>>30)
	w.put(1, 1)
	w.put(15, b>>15)
	w.put(1, 1)
	w.put(15, b)
	w.put(1, 1)
}

func c12RefESCR(w *bw, cr *astits.ClockReference) {
	b := uint64(cr.Base)
	w.put(2, 3) // reserved
	w.put(3, b>>30)
	w.put(1, 1)
	w.put(15, b>>15)
	w.put(1, 1)
	w.put(15, b)
	w.put(1, 1)
	w.put(9, uint64(cr.Extension))
	w.put(1, 1)
}

func c12RefDSM(w *bw, m *astits.DSMTrickMode) {
	w.put(3, uint64(m.TrickModeControl))
	switch m.TrickModeControl {
	case 0, 3: // fast_forward, fast_reverse
		w.put(2, uint64(m.FieldID))
		w.put(1, uint64(m.IntraSliceRefresh))
		w.put(2, uint64(m.FrequencyTruncation))
	case 1, 4: // slow_motion, slow_reverse
		w.put(5, uint64(m.RepeatControl))
	case 2: // freeze_frame
		w.put(2, uint64(m.FieldID))
		w.put(3, 7)
	default:
		w.put(5, 31)
	}
}

// c12RefOptHeaderData is PES_header_data without stuffing. packHeader are the pack_header() bytes
// that follow pack_field_length (the library keeps only the length, in PackField).
func c12RefOptHeaderData(o *astits.PESOptionalHeader, packHeader []byte) []byte {
	w := &bw{}
	switch o.PTSDTSIndicator {
	case 2:
		c12RefTimestamp(w, 2, o.PTS.Base)
	case 3:
		c12RefTimestamp(w, 3, o.PTS.Base)
		c12RefTimestamp(w, 1, o.DTS.Base)
	}
	if o.HasESCR {
		c12RefESCR(w, o.ESCR)
	}
	if o.HasESRate {
		w.put(1, 1)
		w.put(22, uint64(o.ESRate))
		w.put(1, 1)
	}
	if o.HasDSMTrickMode {
		c12RefDSM(w, o.DSMTrickMode)
	}
	if o.HasAdditionalCopyInfo {
		w.put(1, 1)
		w.put(7, uint64(o.AdditionalCopyInfo))
	}
	if o.HasCRC {
		w.put(16, uint64(o.CRC))
	}
	if o.HasExtension {
		w.flag(o.HasPrivateData)
		w.flag(o.HasPackHeaderField)
		w.flag(o.HasProgramPacketSequenceCounter)
		w.flag(o.HasPSTDBuffer)
		w.put(3, 7) // reserved
		w.flag(o.HasExtension2)
		if o.HasPrivateData {
			w.bytes(o.PrivateData) // 128 bits
		}
		if o.HasPackHeaderField {
			w.put(8, uint64(o.PackField))
			w.bytes(packHeader)
		}
		if o.HasProgramPacketSequenceCounter {
			w.put(1, 1)
			w.put(7, uint64(o.PacketSequenceCounter))
			w.put(1, 1)
			w.put(1, uint64(o.MPEG1OrMPEG2ID))
			w.put(6, uint64(o.OriginalStuffingLength))
		}
		if o.HasPSTDBuffer {
			w.put(2, 1)
			w.put(1, uint64(o.PSTDBufferScale))
			w.put(13, uint64(o.PSTDBufferSize))
		}
		if o.HasExtension2 {
			w.put(1, 1)
			w.put(7, uint64(len(o.Extension2Data)))
			w.bytes(o.Extension2Data)
		}
	}
	return w.b
}

// c12RefOptHeader: the two flag bytes, PES_header_data_length, the header data and stuffing bytes.
func c12RefOptHeader(o *astits.PESOptionalHeader, packHeader []byte, stuffing int) []byte {
	w := &bw{}
	w.put(2, 2)
	w.put(2, uint64(o.ScramblingControl))
	w.flag(o.Priority)
	w.flag(o.DataAlignmentIndicator)
	w.flag(o.IsCopyrighted)
	w.flag(o.IsOriginal)
	w.put(2, uint64(o.PTSDTSIndicator))
	w.flag(o.HasESCR)
	w.flag(o.HasESRate)
	w.flag(o.HasDSMTrickMode)
	w.flag(o.HasAdditionalCopyInfo)
	w.flag(o.HasCRC)
	w.flag(o.HasExtension)
	data := c12RefOptHeaderData(o, packHeader)
	w.put(8, uint64(len(data)+stuffing))
	w.bytes(data)
	for k := 0; k < stuffing; k++ {
		w.put(8, 0xff)
	}
	return w.b
}

// c12RefPES: start code, stream id, PES_packet_length, optional header when hasOpt, then the bytes that follow.
func c12RefPES(sid uint8, packetLength int, opt []byte, rest []byte) []byte {
	w := &bw{}
	w.put(24, 1)
	w.put(8, uint64(sid))
	w.put(16, uint64(packetLength))
	w.bytes(opt)
	w.bytes(rest)
	return w.b
}

// c12ObservedOpt fills the fields the parser derives.
func c12ObservedOpt(o *astits.PESOptionalHeader, packHeader []byte, stuffing int) *astits.PESOptionalHeader {
	q := *o
	q.MarkerBits = 2
	q.HeaderLength = uint8(len(c12RefOptHeaderData(o, packHeader)) + stuffing)
	q.Extension2Length = 0
	if o.HasExtension && o.HasExtension2 {
		q.Extension2Length = uint8(len(o.Extension2Data))
	}
	return &q
}

// c12WfOpt: the optional header is inside the property's domain: pointers present iff flags, every field
// within its width, fields of absent parts at their zero value.
func c12WfOpt(o *astits.PESOptionalHeader) bool {
	if o.ScramblingControl > 3 || o.PTSDTSIndicator > 3 || o.HasOptionalFields {
		return false
	}
	crOK := func(c *astits.ClockReference, extBits uint) bool {
		return c != nil && c.Base >= 0 && c.Base < 1<<33 && c.Extension >= 0 && c.Extension < 1<<extBits
	}
	if (o.PTSDTSIndicator >= 2) != (o.PTS != nil) || (o.PTSDTSIndicator == 3) != (o.DTS != nil) || o.HasESCR != (o.ESCR != nil) ||
		o.HasDSMTrickMode != (o.DSMTrickMode != nil) {
		return false
	}
	if o.PTS != nil && !crOK(o.PTS, 0) || o.DTS != nil && !crOK(o.DTS, 0) || o.ESCR != nil && !crOK(o.ESCR, 9) {
		return false
	}
	if o.HasESRate && o.ESRate >= 1<<22 || !o.HasESRate && o.ESRate != 0 {
		return false
	}
	if m := o.DSMTrickMode; m != nil {
		z := astits.DSMTrickMode{TrickModeControl: m.TrickModeControl}
		switch m.TrickModeControl {
		case 0, 3:
			z.FieldID, z.IntraSliceRefresh, z.FrequencyTruncation = m.FieldID&3, m.IntraSliceRefresh&1, m.FrequencyTruncation&3
		case 1, 4:
			z.RepeatControl = m.RepeatControl & 31
		case 2:
			z.FieldID = m.FieldID & 3
		}
		if m.TrickModeControl > 7 || z != *m {
			return false
		}
	}
	if o.HasAdditionalCopyInfo && o.AdditionalCopyInfo > 127 || !o.HasAdditionalCopyInfo && o.AdditionalCopyInfo != 0 {
		return false
	}
	if !o.HasCRC && o.CRC != 0 {
		return false
	}
	if !o.HasExtension && (o.HasPrivateData || o.HasPackHeaderField || o.HasProgramPacketSequenceCounter || o.HasPSTDBuffer || o.HasExtension2) {
		return false
	}
	if o.HasPrivateData && len(o.PrivateData) != 16 || !o.HasPrivateData && len(o.PrivateData) != 0 {
		return false
	}
	if !o.HasPackHeaderField && o.PackField != 0 {
		return false
	}
	if o.HasProgramPacketSequenceCounter {
		if o.PacketSequenceCounter > 127 || o.MPEG1OrMPEG2ID > 1 || o.OriginalStuffingLength > 63 {
			return false
		}
	} else if o.PacketSequenceCounter != 0 || o.MPEG1OrMPEG2ID != 0 || o.OriginalStuffingLength != 0 {
		return false
	}
	if o.HasPSTDBuffer {
		if o.PSTDBufferScale > 1 || o.PSTDBufferSize >= 1<<13 {
			return false
		}
	} else if o.PSTDBufferScale != 0 || o.PSTDBufferSize != 0 {
		return false
	}
	if o.HasExtension2 && len(o.Extension2Data) > 127 || !o.HasExtension2 && len(o.Extension2Data) != 0 {
		return false
	}
	return true
}

// c12WritableOpt: inside the domain and without the two parts the writer documents as unsupported.
func c12WritableOpt(o *astits.PESOptionalHeader) bool {
	return c12WfOpt(o) && !o.HasCRC && !o.HasPackHeaderField
}

// c12WritableHeader: a header writePESHeader is expected to encode per ISO.
func c12WritableHeader(h *astits.PESHeader) bool {
	if c12LibHasOptionalHeader(h.StreamID) != c12IsoHasOptionalHeader(h.StreamID) {
		return false // see the final report: ids the library gives an optional header although Table 2-21 has none
	}
	if !c12IsoHasOptionalHeader(h.StreamID) {
		return h.OptionalHeader == nil
	}
	return h.OptionalHeader != nil && c12WritableOpt(h.OptionalHeader)
}

// c12RefLength: the PES_packet_length rule (0 for video ids 0xE0 / 0xFD or when it does not fit 16 bits).
func c12RefLength(h *astits.PESHeader, optLen, payload int) int {
	if h.StreamID == 0xe0 || h.StreamID == 0xfd {
		return 0
	}
	if optLen+payload > 0xffff {
		return 0
	}
	return optLen + payload
}

// c12RefHeader: what writePESHeader must produce for a writable header and a payload of the given size.
func c12RefHeader(h *astits.PESHeader, payload int) []byte {
	var opt []byte
	if c12IsoHasOptionalHeader(h.StreamID) && h.OptionalHeader != nil {
		opt = c12RefOptHeader(h.OptionalHeader, nil, 0)
	}
	return c12RefPES(h.StreamID, c12RefLength(h, len(opt), payload), opt, nil)
}

// c12GetBits reads w bits at bit offset off (MSB first).
func c12GetBits(bs []byte, off, w int) uint64 {
	var v uint64
	for k := 0; k < w; k++ {
		p := off + k
		v = v<<1 | uint64(bs[p/8]>>(7-uint(p%8))&1)
	}
	return v
}

// ---------- generators ----------

func c12GenDSM(r *Rng, control uint8) *astits.DSMTrickMode {
	m := &astits.DSMTrickMode{TrickModeControl: control}
	switch control {
	case 0, 3:
		m.FieldID, m.IntraSliceRefresh, m.FrequencyTruncation = uint8(r.Bits(2)), uint8(r.Bits(1)), uint8(r.Bits(2))
	case 1, 4:
		m.RepeatControl = uint8(r.Bits(5))
	case 2:
		m.FieldID = uint8(r.Bits(2))
	}
	return m
}

// c12GenOpt builds a well-formed optional header from the low six bits of the first flag byte, the second flag
// byte and the five extension flags (bit 4 private data, 3 pack header, 2 sequence counter, 1 P-STD, 0 extension 2).
func c12GenOpt(r *Rng, b0, b1, ext byte) (*astits.PESOptionalHeader, []byte) {
	o := &astits.PESOptionalHeader{MarkerBits: 2}
	o.ScramblingControl = b0 >> 4 & 3
	o.Priority = b0&8 != 0
	o.DataAlignmentIndicator = b0&4 != 0
	o.IsCopyrighted = b0&2 != 0
	o.IsOriginal = b0&1 != 0
	o.PTSDTSIndicator = b1 >> 6
	if o.PTSDTSIndicator >= 2 {
		o.PTS = genCR(r, 0)
	}
	if o.PTSDTSIndicator == 3 {
		o.DTS = genCR(r, 0)
	}
	if b1&0x20 != 0 {
		o.HasESCR, o.ESCR = true, genCR(r, 9)
	}
	if b1&0x10 != 0 {
		o.HasESRate, o.ESRate = true, uint32(r.Bits(22))
	}
	if b1&0x08 != 0 {
		o.HasDSMTrickMode, o.DSMTrickMode = true, c12GenDSM(r, uint8(r.Intn(8)))
	}
	if b1&0x04 != 0 {
		o.HasAdditionalCopyInfo, o.AdditionalCopyInfo = true, uint8(r.Bits(7))
	}
	if b1&0x02 != 0 {
		o.HasCRC, o.CRC = true, uint16(r.Bits(16))
	}
	var pack []byte
	if b1&0x01 != 0 {
		o.HasExtension = true
		if ext&0x10 != 0 {
			o.HasPrivateData, o.PrivateData = true, r.Bytes(16)
		}
		if ext&0x08 != 0 {
			o.HasPackHeaderField = true
			// pack_field_length 0 here; the "pack-header" stream carries real pack headers
		}
		if ext&0x04 != 0 {
			o.HasProgramPacketSequenceCounter = true
			o.PacketSequenceCounter, o.MPEG1OrMPEG2ID, o.OriginalStuffingLength = uint8(r.Bits(7)), uint8(r.Bits(1)), uint8(r.Bits(6))
		}
		if ext&0x02 != 0 {
			o.HasPSTDBuffer = true
			o.PSTDBufferScale, o.PSTDBufferSize = uint8(r.Bits(1)), uint16(r.Bits(13))
		}
		if ext&0x01 != 0 {
			o.HasExtension2 = true
			n := r.Intn(128)
			if r.Chance(1, 4) {
				n = r.Intn(4)
			}
			o.Extension2Data = r.Bytes(n)
		}
	}
	return o, pack
}

func c12GenOptRandom(r *Rng, writable bool) *astits.PESOptionalHeader {
	b1 := byte(r.U64())
	ext := byte(r.Intn(32))
	if writable {
		b1 &^= 0x02
		ext &^= 0x08
	}
	o, _ := c12GenOpt(r, byte(r.Intn(64)), b1, ext)
	return o
}

// streamIDs used when any id with an optional header will do (audio, video, private_stream_1, the two
// "video" ids of the length rule).
func c12GenSID(r *Rng) uint8 {
	switch r.Intn(6) {
	case 0:
		return 0xe0
	case 1:
		return 0xfd
	case 2:
		return 0xbd
	case 3:
		return uint8(r.Range(0xc0, 0xdf))
	case 4:
		return uint8(r.Range(0xe1, 0xef))
	}
	for {
		s := uint8(r.U64())
		if c12IsoHasOptionalHeader(s) {
			return s
		}
	}
}

// c12ParseCase builds a (1 bytes expect) case from a well-formed header. lmode: 0 PES_packet_length 0, 1 exact,
// 2 exact with bytes of a following unit behind it, 3 longer than available, 4 shorter than the header itself.
func c12ParseCase(r *Rng, sid uint8, o *astits.PESOptionalHeader, pack []byte, stuffing int, payload []byte, lmode int) Tok {
	var opt []byte
	h := &astits.PESHeader{StreamID: sid}
	if o != nil {
		opt = c12RefOptHeader(o, pack, stuffing)
		h.OptionalHeader = c12ObservedOpt(o, pack, stuffing)
	}
	exact := len(opt) + len(payload)
	plen := exact
	rest := payload
	data := payload
	fail := false
	switch lmode {
	case 0:
		plen = 0
	case 2:
		rest = append(append([]byte{}, payload...), r.Bytes(r.Range(1, 9))...)
	case 3:
		plen = exact + r.Range(1, 5)
		fail = true
	case 4:
		// a length that ends inside the optional header (the header bytes themselves are all there)
		if len(opt) > 0 {
			plen = r.Range(1, len(opt)-1)
			fail = true
		}
	}
	if plen == 0 {
		// PES_packet_length 0: everything up to the end of the unit
		data = rest
	}
	h.PacketLength = uint16(plen)
	bs := c12RefPES(sid, plen, opt, rest)
	if fail {
		return L(I(1), B(bs), L(I(1)))
	}
	return L(I(1), B(bs), L(I(0), ToTok(astits.PESData{Data: data, Header: h})))
}

func c12CrTok(c *astits.ClockReference) Tok {
	if c == nil {
		return L()
	}
	return L(ToTok(*c))
}

func c12OptTok(o *astits.PESOptionalHeader) Tok {
	if o == nil {
		return L()
	}
	return L(ToTok(*o))
}

// c12EdgeBases: every single-bit 33-bit value, all-ones, zero.
func c12EdgeBases() []int64 {
	v := []int64{0, 1<<33 - 1, 1<<33 - 2}
	for k := 0; k < 33; k++ {
		v = append(v, int64(1)<<uint(k))
	}
	return v
}

func (c12) Gen(r *Rng, tier string, emit func(string, Tok)) {
	scale := 1
	if tier == "thorough" {
		scale = 10
	}
	payloadOf := func(n int) []byte { return r.Bytes(n) }

	// --- all 256 stream ids: parse (no/with optional header as the library decides), write, round trip
	for sid := 0; sid < 256; sid++ {
		s := uint8(sid)
		var o *astits.PESOptionalHeader
		if c12LibHasOptionalHeader(s) {
			o = c12GenOptRandom(r, true)
		}
		if c12LibHasOptionalHeader(s) == c12IsoHasOptionalHeader(s) {
			for lmode := 0; lmode <= 4; lmode++ {
				emit("sid-parse", c12ParseCase(r, s, o, nil, r.Intn(3), payloadOf(r.Range(0, 20)), lmode))
			}
		} else {
			// Table 2-21 gives these ids no optional header; the library parses one (tag 2, known finding K4)
			emit("sid-parse-iso-noopt", c12Tagged(c12ParseCase(r, s, nil, nil, 0, payloadOf(r.Range(3, 20)), sid&1), 2))
			emit("sid-parse-iso-noopt", c12DropExpect(c12ParseCase(r, s, o, nil, 0, payloadOf(r.Range(0, 20)), 1)))
		}
		h := &astits.PESHeader{StreamID: s, OptionalHeader: o}
		emit("sid-write", L(I(2), ToTok(*h), I(int64(r.Range(0, 400)))))
		emit("sid-roundtrip", L(I(13), ToTok(*h), B(payloadOf(r.Range(0, 30)))))
		if !c12LibHasOptionalHeader(s) {
			// an optional header given for an id that has none is not written
			h2 := &astits.PESHeader{StreamID: s, OptionalHeader: c12GenOptRandom(r, true)}
			emit("sid-write", L(I(2), ToTok(*h2), I(int64(r.Range(0, 400)))))
		}
	}
	sweep("all 256 stream_id values (parse with every PES_packet_length mode, write, write-then-parse)")

	// --- all 2^8 values of the second flag byte x all 2^6 low bits of the first (each pair once per 4 in quick)
	for b1 := 0; b1 < 256; b1++ {
		for k := 0; k < 2*scale; k++ {
			b0 := byte(r.Intn(64))
			if k == 0 {
				b0 = byte(b1 & 63)
			}
			o, pack := c12GenOpt(r, b0, byte(b1), byte(r.Intn(32))&^0x08)
			emit("flags-parse", c12ParseCase(r, c12GenSID(r), o, pack, r.Intn(3), payloadOf(r.Range(0, 12)), r.Intn(3)))
			// the writer gets the same header: CRC flag set is outside "writable", still compared with the model
			h := &astits.PESHeader{StreamID: c12GenSID(r), OptionalHeader: o}
			if k == 0 {
				emit("flags-write", L(I(2), ToTok(*h), I(int64(r.Range(0, 70000)))))
				emit("flags-optwrite", L(I(4), c12OptTok(o)))
				emit("flags-calc", L(I(12), c12OptTok(o)))
			} else {
				emit("flags-roundtrip", L(I(13), ToTok(*h), B(payloadOf(r.Range(0, 12)))))
			}
		}
	}
	sweep("all 2^8 values of the PTS_DTS/ESCR/ES_rate/trick-mode/copy-info/CRC/extension flag byte; all 2^6 scrambling/priority/alignment/copyright/original combinations")

	// --- all 32 extension-flag subsets
	for ext := 0; ext < 32; ext++ {
		for k := 0; k < 3*scale; k++ {
			o, pack := c12GenOpt(r, byte(r.Intn(64)), byte(r.U64())|1, byte(ext))
			emit("ext-parse", c12ParseCase(r, c12GenSID(r), o, pack, r.Intn(4), payloadOf(r.Range(0, 12)), r.Intn(3)))
			h := &astits.PESHeader{StreamID: c12GenSID(r), OptionalHeader: o}
			emit("ext-roundtrip", L(I(13), ToTok(*h), B(payloadOf(r.Range(0, 12)))))
		}
	}
	sweep("all 2^5 PES extension flag subsets")
	// pack_header_field with pack_field_length > 0 followed by the pack_header() bytes (tag 1)
	for k := 0; k < 16*scale; k++ {
		o, _ := c12GenOpt(r, byte(r.Intn(64)), byte(r.U64())|1, byte(r.Intn(32))|0x08)
		o.PackField = uint8(r.Range(1, 14))
		emit("pack-header", c12Tagged(c12ParseCase(r, c12GenSID(r), o, r.Bytes(int(o.PackField)), r.Intn(3), payloadOf(r.Range(0, 12)), r.Intn(3)), 1))
	}

	// --- extension 2 length 0..127, header stuffing 0..32
	for n := 0; n <= 127; n++ {
		o, _ := c12GenOpt(r, byte(r.Intn(64)), byte(r.U64())&^0x02|1, byte(r.Intn(32))&^0x08|1)
		o.Extension2Data = r.Bytes(n)
		emit("ext2-len", c12ParseCase(r, c12GenSID(r), o, nil, r.Intn(2), payloadOf(r.Range(0, 8)), r.Intn(3)))
		h := &astits.PESHeader{StreamID: c12GenSID(r), OptionalHeader: o}
		emit("ext2-len", L(I(13), ToTok(*h), B(payloadOf(r.Range(0, 8)))))
	}
	sweep("PES_extension_field_length 0..127")
	for st := 0; st <= 32; st++ {
		for k := 0; k < 2*scale; k++ {
			o := c12GenOptRandom(r, false)
			o.HasPackHeaderField = false
			emit("stuffing", c12ParseCase(r, c12GenSID(r), o, nil, st, payloadOf(r.Range(0, 8)), r.Intn(5)))
		}
	}
	sweep("header stuffing 0..32 bytes")

	// --- timestamps: every single-bit value, all-ones; ESCR extension every single bit
	for i, base := range c12EdgeBases() {
		other := c12EdgeBases()[(i*7+3)%36]
		ext := int64(1) << uint(i%9)
		if i%10 == 9 {
			ext = 511
		}
		o := &astits.PESOptionalHeader{MarkerBits: 2, PTSDTSIndicator: 3, PTS: &astits.ClockReference{Base: base}, DTS: &astits.ClockReference{Base: other},
			HasESCR: true, ESCR: &astits.ClockReference{Base: (1<<33 - 1) ^ base, Extension: ext}}
		emit("ts-parse", c12ParseCase(r, c12GenSID(r), o, nil, 0, payloadOf(4), 1))
		emit("ts-roundtrip", L(I(13), ToTok(astits.PESHeader{StreamID: 0xc0, OptionalHeader: o}), B(payloadOf(4))))
		o2 := &astits.PESOptionalHeader{MarkerBits: 2, PTSDTSIndicator: 2, PTS: &astits.ClockReference{Base: base}}
		emit("ts-parse", c12ParseCase(r, c12GenSID(r), o2, nil, 0, payloadOf(4), 0))
		emit("ts-roundtrip", L(I(13), ToTok(astits.PESHeader{StreamID: 0xe0, OptionalHeader: o2}), B(payloadOf(4))))
		for _, flag := range []int64{1, 2, 3} {
			w := &bw{}
			c12RefTimestamp(w, uint64(flag), base)
			emit("ts-pts", L(I(6), B(w.b)))
			emit("ts-pts", L(I(7), I(flag), c12CrTok(&astits.ClockReference{Base: base})))
		}
		cr := &astits.ClockReference{Base: base, Extension: ext}
		w := &bw{}
		c12RefESCR(w, cr)
		emit("ts-escr", L(I(8), B(w.b)))
		emit("ts-escr", L(I(9), c12CrTok(cr)))
		emit("duration", L(I(5), ToTok(*cr)))
		emit("duration", L(I(5), ToTok(astits.ClockReference{Base: base, Extension: 511 - ext})))
	}
	sweep("PTS, DTS, ESCR base at every single-bit value of 33 bits, zero, all-ones; ESCR extension at every single-bit value and 511")
	for k := 0; k < 150*scale; k++ {
		emit("ts-pts", L(I(6), B(r.Bytes(r.Range(3, 7)))))
		emit("ts-escr", L(I(8), B(r.Bytes(r.Range(4, 8)))))
		cr := genCR(r, 9)
		emit("ts-pts", L(I(7), I(int64(r.Intn(16))), c12CrTok(cr)))
		emit("ts-escr", L(I(9), c12CrTok(cr)))
		emit("duration", L(I(5), ToTok(*cr)))
		emit("duration", L(I(5), ToTok(astits.ClockReference{Base: int64(r.U64() >> 31), Extension: int64(r.Intn(512))})))
	}
	emit("ts-nil", L(I(7), I(2), L()))
	emit("ts-nil", L(I(9), L()))
	// Duration outside the property's range: correspondence only (int64 wrap-around is not modelled: |base*1e9| stays below 2^63)
	for _, b := range []int64{-1, -90000, 1 << 33, 9223372036, -9223372036} {
		emit("duration-out", L(I(5), ToTok(astits.ClockReference{Base: b, Extension: int64(r.Intn(1000)) - 200})))
	}
	if tier == "thorough" {
		for k := 0; k < 1<<20; k += 1 << 4 {
			emit("duration-grid", L(I(5), ToTok(astits.ClockReference{Base: int64(k) << 13, Extension: int64(k>>4) & 511})))
		}
		sweep("Duration on a 2^16-point grid of the base")
	}

	// --- ES rate: edges and random (a stride sweep in thorough)
	rates := []uint32{0, 1, 2, 1<<22 - 1, 1<<22 - 2, 1 << 21, 1 << 15, 1 << 14, 1 << 7, 1 << 6, 0x2aaaaa, 0x155555}
	for k := 0; k < 40*scale; k++ {
		rates = append(rates, uint32(r.Bits(22)))
	}
	if tier == "thorough" {
		for v := 0; v < 1<<22; v += 1021 {
			rates = append(rates, uint32(v))
		}
	}
	for _, v := range rates {
		o := &astits.PESOptionalHeader{MarkerBits: 2, HasESRate: true, ESRate: v}
		emit("esrate", c12ParseCase(r, c12GenSID(r), o, nil, 0, payloadOf(3), 1))
		emit("esrate", L(I(13), ToTok(astits.PESHeader{StreamID: 0xc1, OptionalHeader: o}), B(payloadOf(3))))
	}

	// --- all 256 trick-mode bytes
	for b := 0; b < 256; b++ {
		emit("dsm-byte", L(I(10), I(int64(b))))
		m := c12RefDecodeDSM(byte(b))
		emit("dsm-write", L(I(11), L(ToTok(*m))))
		o := &astits.PESOptionalHeader{MarkerBits: 2, HasDSMTrickMode: true, DSMTrickMode: m}
		// the byte itself inside a header (reserved bits as they come), and the reference encoding of its fields
		raw := c12RefPES(0xe0, 0, []byte{0x80, 0x08, 0x01, byte(b)}, payloadOf(2))
		emit("dsm-parse-raw", L(I(1), B(raw)))
		emit("dsm-parse", c12ParseCase(r, c12GenSID(r), o, nil, 0, payloadOf(2), 1))
		emit("dsm-roundtrip", L(I(13), ToTok(astits.PESHeader{StreamID: 0xe0, OptionalHeader: o}), B(payloadOf(2))))
	}
	emit("dsm-write", L(I(11), L()))
	for k := 0; k < 40*scale; k++ {
		// out-of-range trick mode structs: correspondence of the writer's masking
		m := astits.DSMTrickMode{FieldID: uint8(r.U64()), FrequencyTruncation: uint8(r.U64()), IntraSliceRefresh: uint8(r.Intn(4)),
			RepeatControl: uint8(r.U64()), TrickModeControl: uint8(r.Intn(12))}
		emit("dsm-write-any", L(I(11), L(ToTok(m))))
	}
	sweep("all 256 DSM trick mode bytes")

	// --- CRC values (every value of each byte with the other byte varying; all 2^16 in thorough)
	crcs := []uint16{0, 1, 0xffff, 0x1234, 0x8000, 0x0100, 0x00ff, 0xff00}
	for k := 0; k < 256; k++ {
		crcs = append(crcs, uint16(k)<<8|uint16(r.Intn(256)))
	}
	if tier == "thorough" {
		crcs = crcs[:0]
		for v := 0; v < 1<<16; v++ {
			crcs = append(crcs, uint16(v))
		}
		sweep("all 2^16 previous_PES_packet_CRC values")
	}
	for _, v := range crcs {
		o := &astits.PESOptionalHeader{MarkerBits: 2, HasCRC: true, CRC: v}
		emit("crc", c12ParseCase(r, c12GenSID(r), o, nil, 0, payloadOf(2), 1))
	}

	// --- additional copy info, sequence counter, P-STD at all values of the small fields
	for v := 0; v < 128; v++ {
		o := &astits.PESOptionalHeader{MarkerBits: 2, HasAdditionalCopyInfo: true, AdditionalCopyInfo: uint8(v), HasExtension: true,
			HasProgramPacketSequenceCounter: true, PacketSequenceCounter: uint8(127 - v), MPEG1OrMPEG2ID: uint8(v & 1), OriginalStuffingLength: uint8(v >> 1),
			HasPSTDBuffer: true, PSTDBufferScale: uint8(v >> 6), PSTDBufferSize: uint16(r.Bits(13))}
		emit("small-fields", c12ParseCase(r, c12GenSID(r), o, nil, 0, payloadOf(2), 1))
		emit("small-fields", L(I(13), ToTok(astits.PESHeader{StreamID: 0xc0, OptionalHeader: o}), B(payloadOf(2))))
	}

	// --- PES_packet_length rule of the writer: around 65535, video ids, with and without optional header
	for k := 0; k < 60*scale; k++ {
		h := &astits.PESHeader{StreamID: c12GenSID(r)}
		if r.Chance(1, 8) {
			h.StreamID = 0xbe + uint8(r.Intn(2))
		} else {
			h.OptionalHeader = c12GenOptRandom(r, true)
		}
		n := 0
		if h.OptionalHeader != nil {
			n = len(c12RefOptHeader(h.OptionalHeader, nil, 0))
		}
		size := 65535 - n + r.Range(-2, 2)
		if r.Chance(1, 4) {
			size = r.Range(0, 200000)
		}
		emit("length-rule", L(I(2), ToTok(*h), I(int64(size))))
	}
	for _, size := range []int{65535, 65536, 65533, 70000} {
		o := &astits.PESOptionalHeader{MarkerBits: 2, PTSDTSIndicator: 2, PTS: genCR(r, 0)}
		for _, sid := range []uint8{0xc0, 0xe0, 0xbf} {
			h := astits.PESHeader{StreamID: sid, OptionalHeader: o}
			p := payloadOf(size - 8)
			emit("length-rule-big", L(I(13), ToTok(h), B(p)))
			emit("length-rule-big", L(I(3), ToTok(h), B(p), I(1), I(int64(size+40))))
		}
	}

	// --- writePESData: bytesAvailable below / at / above the header size, payload shorter / longer than the room
	for k := 0; k < 300*scale; k++ {
		h := &astits.PESHeader{StreamID: c12GenSID(r), OptionalHeader: c12GenOptRandom(r, true)}
		if r.Chance(1, 10) {
			h.StreamID, h.OptionalHeader = 0xbf, nil
		}
		hl := len(c12RefHeader(h, 0))
		p := payloadOf(r.Range(0, 300))
		start := r.Chance(3, 4)
		var avail int
		switch r.Intn(6) {
		case 0:
			avail = r.Range(-3, hl)
		case 1:
			avail = hl
		case 2:
			avail = hl + len(p)
		case 3:
			avail = hl + len(p) + r.Range(1, 10)
		default:
			avail = r.Range(0, 184)
		}
		emit("write-data", L(I(3), ToTok(*h), B(p), Bool(start), I(int64(avail))))
	}

	// --- writer outside its domain: nil behind flags, wrong private-data sizes, oversize extension 2, unsupported flags, wide values
	for k := 0; k < 300*scale; k++ {
		o := c12GenOptRandom(r, false)
		switch r.Intn(10) {
		case 0:
			o.PTS = nil
		case 1:
			o.DTS = nil
		case 2:
			o.ESCR = nil
		case 3:
			o.DSMTrickMode = nil
		case 4:
			o.HasExtension, o.HasPrivateData = true, true
			o.PrivateData = r.Bytes(r.Range(0, 40))
		case 5:
			o.HasExtension, o.HasExtension2 = true, true
			o.Extension2Data = r.Bytes(r.Range(120, 300))
		case 6:
			o.PTSDTSIndicator = uint8(r.Range(0, 255))
			o.ScramblingControl = uint8(r.U64())
		case 7:
			o.ESRate = uint32(r.U64())
			o.AdditionalCopyInfo = uint8(r.U64())
			o.PacketSequenceCounter, o.MPEG1OrMPEG2ID, o.OriginalStuffingLength = uint8(r.U64()), uint8(r.U64()), uint8(r.U64())
			o.PSTDBufferScale, o.PSTDBufferSize = uint8(r.U64()), uint16(r.U64())
		case 8:
			// extension parts set without the extension flag
			o.HasExtension = false
			o.HasPrivateData, o.PrivateData = true, r.Bytes(16)
		case 9:
			if o.PTS != nil {
				o.PTS.Base = int64(r.U64())
			}
			if o.ESCR != nil {
				o.ESCR.Base, o.ESCR.Extension = -int64(r.Bits(34)), int64(r.U64()>>40)
			}
		}
		h := astits.PESHeader{StreamID: c12GenSID(r), OptionalHeader: o}
		switch r.Intn(4) {
		case 0:
			emit("write-any", L(I(4), c12OptTok(o)))
		case 1:
			emit("write-any", L(I(12), c12OptTok(o)))
		case 2:
			emit("write-any", L(I(2), ToTok(h), I(int64(r.Range(-5, 70000)))))
		default:
			emit("write-any", L(I(13), ToTok(h), B(payloadOf(r.Range(0, 10)))))
		}
	}
	emit("write-any", L(I(4), L()))
	emit("write-any", L(I(12), L()))
	emit("write-any", L(I(2), ToTok(astits.PESHeader{StreamID: 0xc0}), I(10)))
	emit("write-any", L(I(13), ToTok(astits.PESHeader{StreamID: 0xc0}), B(payloadOf(10))))

	// --- malformed input for the parser: truncation at every offset, bit flips, random bytes
	for k := 0; k < 12*scale; k++ {
		o := c12GenOptRandom(r, false)
		c := c12ParseCase(r, c12GenSID(r), o, nil, r.Intn(3), payloadOf(r.Range(0, 6)), 1)
		bs := c.At(1).Bytes()
		for cut := 0; cut <= len(bs); cut++ {
			emit("truncated", L(I(1), B(append([]byte{}, bs[:cut]...))))
		}
	}
	for k := 0; k < 500*scale; k++ {
		o := c12GenOptRandom(r, false)
		c := c12ParseCase(r, c12GenSID(r), o, nil, r.Intn(3), payloadOf(r.Range(0, 20)), r.Intn(3))
		bs := append([]byte{}, c.At(1).Bytes()...)
		for f := r.Range(1, 3); f > 0; f-- {
			p := r.Intn(len(bs))
			if r.Bool() && len(bs) > 9 {
				p = 3 + r.Intn(6) // stream id, length, flags, header length
			}
			bs[p] ^= 1 << uint(r.Intn(8))
		}
		emit("mutated", L(I(1), B(bs)))
	}
	for k := 0; k < 300*scale; k++ {
		bs := r.Bytes(r.Range(0, 60))
		if len(bs) > 3 && r.Bool() {
			bs[0], bs[1], bs[2] = 0, 0, 1
		}
		if len(bs) > 6 && r.Bool() {
			bs[4], bs[5] = 0, byte(r.Intn(len(bs)))
		}
		emit("random", L(I(1), B(bs)))
	}
}

// c12Tagged marks a parse case as belonging to a recorded deviation.
func c12Tagged(t Tok, tag int64) Tok { return L(t.At(0), t.At(1), t.At(2), I(tag)) }

// c12DropExpect drops the oracle's expectation from a parse case.
func c12DropExpect(t Tok) Tok { return L(t.At(0), t.At(1)) }

// c12RefDecodeDSM: the trick mode byte per 2.4.3.7, by bit position.
func c12RefDecodeDSM(b byte) *astits.DSMTrickMode {
	bs := []byte{b}
	m := &astits.DSMTrickMode{TrickModeControl: uint8(c12GetBits(bs, 0, 3))}
	switch m.TrickModeControl {
	case 0, 3:
		m.FieldID, m.IntraSliceRefresh, m.FrequencyTruncation = uint8(c12GetBits(bs, 3, 2)), uint8(c12GetBits(bs, 5, 1)), uint8(c12GetBits(bs, 6, 2))
	case 1, 4:
		m.RepeatControl = uint8(c12GetBits(bs, 3, 5))
	case 2:
		m.FieldID = uint8(c12GetBits(bs, 3, 2))
	}
	return m
}

// ---------- implementation runner ----------

func c12ItemsN(s *sinkWriter, n int, err error) Tok {
	return resOf(func() Tok { return L(B(s.accepted), I(int64(n))) }, err)
}

func (c12) Run(c Tok) Tok {
	switch c.At(0).Int() {
	case 1:
		return guard(func() Tok {
			d, err := astits.VerifParsePESData(c.At(1).Bytes())
			return resOf(func() Tok { return ToTok(*d) }, err)
		})
	case 2:
		return guard(func() Tok {
			var h astits.PESHeader
			FromTok(c.At(1), &h)
			s := &sinkWriter{failAt: -1}
			n, err := astits.VerifWritePESHeader(s, &h, int(c.At(2).Int()))
			return c12ItemsN(s, n, err)
		})
	case 3:
		return guard(func() Tok {
			var h astits.PESHeader
			FromTok(c.At(1), &h)
			s := &sinkWriter{failAt: -1}
			tot, pl, err := astits.VerifWritePESData(s, &h, c.At(2).Bytes(), c.At(3).IsTrue(), int(c.At(4).Int()))
			return resOf(func() Tok { return L(B(s.accepted), I(int64(tot)), I(int64(pl))) }, err)
		})
	case 4:
		return guard(func() Tok {
			var o *astits.PESOptionalHeader
			FromTok(c.At(1), &o)
			s := &sinkWriter{failAt: -1}
			n, err := astits.VerifWritePESOptionalHeader(s, o)
			return c12ItemsN(s, n, err)
		})
	case 5:
		var cr astits.ClockReference
		FromTok(c.At(1), &cr)
		return I(int64(cr.Duration()))
	case 6:
		return guard(func() Tok {
			cr, err := astits.VerifParsePTSOrDTS(c.At(1).Bytes())
			return resOf(func() Tok { return ToTok(*cr) }, err)
		})
	case 7:
		return guard(func() Tok {
			var cr *astits.ClockReference
			FromTok(c.At(2), &cr)
			s := &sinkWriter{failAt: -1}
			n, err := astits.VerifWritePTSOrDTS(s, uint8(c.At(1).Int()), cr)
			return c12ItemsN(s, n, err)
		})
	case 8:
		return guard(func() Tok {
			cr, err := astits.VerifParseESCR(c.At(1).Bytes())
			return resOf(func() Tok { return ToTok(*cr) }, err)
		})
	case 9:
		return guard(func() Tok {
			var cr *astits.ClockReference
			FromTok(c.At(1), &cr)
			s := &sinkWriter{failAt: -1}
			n, err := astits.VerifWriteESCR(s, cr)
			return c12ItemsN(s, n, err)
		})
	case 10:
		return ToTok(*astits.VerifParseDSMTrickMode(byte(c.At(1).Int())))
	case 11:
		return guard(func() Tok {
			var m *astits.DSMTrickMode
			FromTok(c.At(1), &m)
			s := &sinkWriter{failAt: -1}
			n, err := astits.VerifWriteDSMTrickMode(s, m)
			return c12ItemsN(s, n, err)
		})
	case 12:
		var o *astits.PESOptionalHeader
		FromTok(c.At(1), &o)
		return I(int64(astits.VerifCalcPESOptionalHeaderLength(o)))
	case 13:
		return guard(func() Tok {
			var h astits.PESHeader
			FromTok(c.At(1), &h)
			payload := c.At(2).Bytes()
			s := &sinkWriter{failAt: -1}
			n, err := astits.VerifWritePESHeader(s, &h, len(payload))
			if err != nil {
				return ResErr(errCode(err))
			}
			hdr := append([]byte{}, s.accepted...)
			full := append(append([]byte{}, hdr...), payload...)
			p := guard(func() Tok {
				d, err := astits.VerifParsePESData(full)
				return resOf(func() Tok { return ToTok(*d) }, err)
			})
			return L(I(0), B(hdr), I(int64(n)), p)
		})
	}
	return L()
}

// ---------- implementation-side oracle ----------

// c12PayloadRule checks "payload boundaries follow PES_packet_length" on any input the parser accepted, from the bytes alone.
func c12PayloadRule(in []byte, d *astits.PESData) string {
	if len(in) < 6 || d.Header == nil {
		return "parsePESData succeeded on fewer than 6 bytes"
	}
	if d.Header.StreamID != in[3] {
		return fmt.Sprintf("stream_id %#x decoded as %#x", in[3], d.Header.StreamID)
	}
	plen := int(c12GetBits(in, 32, 16))
	if int(d.Header.PacketLength) != plen {
		return fmt.Sprintf("PES_packet_length %d decoded as %d", plen, d.Header.PacketLength)
	}
	start := 6
	if d.Header.OptionalHeader != nil {
		if len(in) < 9 {
			return "optional header decoded from fewer than 3 bytes"
		}
		start = 9 + int(in[8])
		if int(d.Header.OptionalHeader.HeaderLength) != int(in[8]) {
			return "PES_header_data_length decoded wrongly"
		}
	}
	end := len(in)
	if plen > 0 {
		end = 6 + plen
	}
	if start > end || end > len(in) {
		return fmt.Sprintf("parsePESData succeeded although the data range [%d,%d) does not lie inside the %d available bytes", start, end, len(in))
	}
	if !eqBytes(d.Data, in[start:end]) {
		return fmt.Sprintf("payload is not bytes [%d,%d) of the unit: got %x want %x", start, end, d.Data, in[start:end])
	}
	return ""
}

func c12DurationRef(cr astits.ClockReference) *big.Int {
	a := new(big.Int).Mul(big.NewInt(cr.Base), big.NewInt(1000000000))
	a.Quo(a, big.NewInt(90000))
	b := new(big.Int).Mul(big.NewInt(cr.Extension), big.NewInt(1000000000))
	b.Quo(b, big.NewInt(27000000))
	return a.Add(a, b)
}

func (c12) Oracle(c Tok, obs Tok) string {
	switch c.At(0).Int() {
	case 1:
		in := c.At(1).Bytes()
		if obs.At(0).Int() == 0 {
			var d astits.PESData
			FromTok(obs.At(1), &d)
			if w := c12PayloadRule(in, &d); w != "" {
				return w
			}
		}
		if len(c.L) < 3 {
			return ""
		}
		if len(c.L) >= 4 {
			tag := c.At(3).Int()
			w := c12{}.Oracle(L(c.At(0), c.At(1), c.At(2)), obs)
			if w == "" {
				return ""
			}
			return c12TagName[tag] + ": " + w
		}
		exp := c.At(2)
		if exp.At(0).Int() == 1 {
			if obs.At(0).Int() != 1 {
				return fmt.Sprintf("PES_packet_length points outside the available bytes (or inside the header) but parsePESData returned %s", c12Clip(obs.String()))
			}
			return ""
		}
		if obs.At(0).Int() != 0 {
			return "parsePESData rejects the ISO 13818-1 reference encoding of a well-formed PES packet: " + c12Clip(obs.String())
		}
		if got, want := obs.At(1).String(), exp.At(1).String(); got != want {
			return fmt.Sprintf("parsePESData(reference encoding) differs from the encoded value: got %s want %s", c12Clip(got), c12Clip(want))
		}
	case 2:
		var h astits.PESHeader
		FromTok(c.At(1), &h)
		size := int(c.At(2).Int())
		if size < 0 || !c12WritableHeader(&h) {
			return ""
		}
		ref := c12RefHeader(&h, size)
		return c12CmpWrite("writePESHeader", obs, ref, len(ref))
	case 3:
		var h astits.PESHeader
		FromTok(c.At(1), &h)
		p := c.At(2).Bytes()
		start := c.At(3).IsTrue()
		avail := int(c.At(4).Int())
		if !c12WritableHeader(&h) {
			return ""
		}
		var ref []byte
		if start {
			ref = c12RefHeader(&h, len(p))
		}
		room := avail - len(ref)
		if room < 0 {
			return "" // the caller's contract (calcPESDataLength) is broken: no room for the header
		}
		if room > len(p) {
			room = len(p)
		}
		want := append(append([]byte{}, ref...), p[:room]...)
		if obs.At(0).Int() != 0 {
			return "writePESData fails on a writable header: " + c12Clip(obs.String())
		}
		v := obs.At(1)
		if !eqBytes(v.At(0).Bytes(), want) {
			return fmt.Sprintf("writePESData output differs from reference header ++ payload prefix: got %x want %x", c12ClipB(v.At(0).Bytes()), c12ClipB(want))
		}
		if v.At(1).Int() != int64(len(want)) || v.At(2).Int() != int64(room) {
			return fmt.Sprintf("writePESData reports (%d, %d) for %d bytes of which %d payload", v.At(1).Int(), v.At(2).Int(), len(want), room)
		}
	case 4:
		var o *astits.PESOptionalHeader
		FromTok(c.At(1), &o)
		if o == nil || !c12WritableOpt(o) {
			return ""
		}
		ref := c12RefOptHeader(o, nil, 0)
		return c12CmpWrite("writePESOptionalHeader", obs, ref, len(ref))
	case 5:
		var cr astits.ClockReference
		FromTok(c.At(1), &cr)
		if cr.Base < 0 || cr.Base >= 1<<33 || cr.Extension < 0 || cr.Extension >= 1<<9 {
			return ""
		}
		want := c12DurationRef(cr)
		if obs.Kind != 'i' || obs.I.Cmp(want) != 0 {
			return fmt.Sprintf("Duration() = %s, base/90kHz + extension/27MHz truncated per term = %s", obs.String(), want.String())
		}
	case 6:
		in := c.At(1).Bytes()
		if len(in) < 5 {
			if obs.At(0).Int() != 1 {
				return "parsePTSOrDTS accepts fewer than 5 bytes"
			}
			return ""
		}
		base := c12GetBits(in, 4, 3)<<30 | c12GetBits(in, 8, 15)<<15 | c12GetBits(in, 24, 15)
		want := ResOk(ToTok(astits.ClockReference{Base: int64(base)})).String()
		if obs.String() != want {
			return fmt.Sprintf("parsePTSOrDTS(%x) = %s, layout 4/3/1/15/1/15/1 gives %s", in, obs.String(), want)
		}
	case 7:
		var cr *astits.ClockReference
		FromTok(c.At(2), &cr)
		flag := c.At(1).Int()
		if cr == nil || cr.Base < 0 || cr.Base >= 1<<33 || flag < 0 || flag > 15 {
			return ""
		}
		w := &bw{}
		c12RefTimestamp(w, uint64(flag), cr.Base)
		return c12CmpWrite("writePTSOrDTS", obs, w.b, 5)
	case 8:
		in := c.At(1).Bytes()
		if len(in) < 6 {
			if obs.At(0).Int() != 1 {
				return "parseESCR accepts fewer than 6 bytes"
			}
			return ""
		}
		base := c12GetBits(in, 2, 3)<<30 | c12GetBits(in, 6, 15)<<15 | c12GetBits(in, 22, 15)
		want := ResOk(ToTok(astits.ClockReference{Base: int64(base), Extension: int64(c12GetBits(in, 38, 9))})).String()
		if obs.String() != want {
			return fmt.Sprintf("parseESCR(%x) = %s, layout 2/3/1/15/1/15/1/9/1 gives %s", in, obs.String(), want)
		}
	case 9:
		var cr *astits.ClockReference
		FromTok(c.At(1), &cr)
		if cr == nil || cr.Base < 0 || cr.Base >= 1<<33 || cr.Extension < 0 || cr.Extension >= 1<<9 {
			return ""
		}
		w := &bw{}
		c12RefESCR(w, cr)
		return c12CmpWrite("writeESCR", obs, w.b, 6)
	case 10:
		want := ToTok(*c12RefDecodeDSM(byte(c.At(1).Int()))).String()
		if obs.String() != want {
			return fmt.Sprintf("parseDSMTrickMode(%#x) = %s, 2.4.3.7 gives %s", c.At(1).Int(), obs.String(), want)
		}
	case 11:
		var m *astits.DSMTrickMode
		FromTok(c.At(1), &m)
		if m == nil {
			return ""
		}
		o := astits.PESOptionalHeader{HasDSMTrickMode: true, DSMTrickMode: m}
		if !c12WfOpt(&o) {
			return ""
		}
		w := &bw{}
		c12RefDSM(w, m)
		return c12CmpWrite("writeDSMTrickMode", obs, w.b, 1)
	case 12:
		var o *astits.PESOptionalHeader
		FromTok(c.At(1), &o)
		if o == nil {
			if obs.Int() != 0 {
				return "calcPESOptionalHeaderLength(nil) != 0"
			}
			return ""
		}
		if !c12WritableOpt(o) {
			return ""
		}
		if want := len(c12RefOptHeader(o, nil, 0)); obs.Int() != int64(want) {
			return fmt.Sprintf("calcPESOptionalHeaderLength = %d, the reference encoding has %d bytes", obs.Int(), want)
		}
	case 13:
		var h astits.PESHeader
		FromTok(c.At(1), &h)
		payload := c.At(2).Bytes()
		if !c12WritableHeader(&h) {
			return ""
		}
		if obs.At(0).Int() != 0 {
			return "writePESHeader fails on a writable header: " + c12Clip(obs.String())
		}
		ref := c12RefHeader(&h, len(payload))
		if !eqBytes(obs.At(1).Bytes(), ref) || obs.At(2).Int() != int64(len(ref)) {
			return fmt.Sprintf("writePESHeader output differs from the ISO 13818-1 reference encoding: got %x (n=%d) want %x", obs.At(1).Bytes(), obs.At(2).Int(), ref)
		}
		want := astits.PESData{Data: payload, Header: &astits.PESHeader{StreamID: h.StreamID, PacketLength: uint16(c12GetBits(ref, 32, 16))}}
		if h.OptionalHeader != nil && c12IsoHasOptionalHeader(h.StreamID) {
			want.Header.OptionalHeader = c12ObservedOpt(h.OptionalHeader, nil, 0)
		}
		p := obs.At(3)
		if p.At(0).Int() != 0 {
			return "parsePESData rejects what writePESHeader wrote: " + c12Clip(p.String())
		}
		if got, w := p.At(1).String(), ToTok(want).String(); got != w {
			return fmt.Sprintf("parsePESData(writePESHeader(v) ++ payload) differs from v: got %s want %s", c12Clip(got), c12Clip(w))
		}
	}
	return ""
}

func c12CmpWrite(name string, obs Tok, ref []byte, n int) string {
	if obs.At(0).Int() != 0 {
		return name + " fails inside its domain: " + c12Clip(obs.String())
	}
	v := obs.At(1)
	if !eqBytes(v.At(0).Bytes(), ref) {
		return fmt.Sprintf("%s output differs from the ISO 13818-1 reference encoding: got %x want %x", name, v.At(0).Bytes(), ref)
	}
	if v.At(1).Int() != int64(n) {
		return fmt.Sprintf("%s reports %d bytes written, wrote %d", name, v.At(1).Int(), n)
	}
	return ""
}

func c12Clip(s string) string {
	if len(s) > 600 {
		return s[:600] + "..."
	}
	return s
}

func c12ClipB(b []byte) []byte {
	if len(b) > 64 {
		return b[:64]
	}
	return b
}

func (c12) Nontrivial(c Tok, obs Tok) bool {
	switch c.At(0).Int() {
	case 5, 10, 12:
		return true
	}
	return obs.At(0).Int() == 0
}

// Names other properties' generators use (go/harness/mux.go builds PES headers for the muxer with them).
func writableHeader(h *astits.PESHeader) bool { return c12WritableHeader(h) }
func genSID(r *Rng) uint8                     { return c12GenSID(r) }
func genOptRandom(r *Rng, writable bool) *astits.PESOptionalHeader {
	return c12GenOptRandom(r, writable)
}
func writableOpt(o *astits.PESOptionalHeader) bool { return c12WritableOpt(o) }
