package main

import (
	"time"

	astits "github.com/asticode/go-astits"
)

// Generators of PSI/SI content models (the library's structs, filled the way a decoder must
// deliver them) shared by C13 and C09.

// psiDescStub: coq/Model/Desc.v is a stub that knows descriptors without a typed body only.
// Valid content never uses typed descriptors here (their bodies are C14's subject); this switch
// additionally keeps checksum-repaired mutations whose result the library accepts with a typed
// descriptor out of the case stream. Set to false once the real Model/Desc.v is merged.
const psiDescStub = false

// plain descriptor tags: no case in the switch of parseDescriptors, not user defined
var psiPlainTags = []uint8{0x00, 0x01, 0x02, 0x03, 0x04, 0x07, 0x08, 0x09, 0x0b, 0x0c, 0x0d, 0x10, 0x13, 0x1b, 0x27, 0x29,
	0x3f, 0x41, 0x47, 0x49, 0x4a, 0x4c, 0x4f, 0x51, 0x53, 0x57, 0x5a, 0x5e, 0x60, 0x69, 0x6b, 0x79, 0x7b, 0x7e, 0xff}

func psiGenDesc(r *Rng, maxBody int) *astits.Descriptor {
	if maxBody > 255 {
		maxBody = 255
	}
	n := 0
	switch r.Intn(8) {
	case 0:
		n = 0
	case 1:
		n = maxBody
	case 2:
		n = 1
	default:
		n = r.Intn(psiMin(maxBody, 24) + 1)
	}
	if n > maxBody {
		n = maxBody
	}
	d := &astits.Descriptor{}
	if r.Bool() {
		d.Tag = uint8(0x80 + r.Intn(0x7f))
		if r.Chance(1, 6) {
			d.Tag = []uint8{0x80, 0xfe}[r.Intn(2)]
		}
		if n > 0 {
			d.UserDefined = r.Bytes(n)
		}
	} else {
		d.Tag = psiPlainTags[r.Intn(len(psiPlainTags))]
		if n > 0 {
			d.Unknown = &astits.DescriptorUnknown{Tag: d.Tag, Content: r.Bytes(n)}
		}
	}
	d.Length = uint8(n)
	return d
}

// genDescs builds a descriptor loop whose encoded size is at most budget bytes.
func psiGenDescs(r *Rng, budget int) []*astits.Descriptor {
	if budget > 4095 {
		budget = 4095
	}
	var out []*astits.Descriptor
	k := 0
	switch r.Intn(6) {
	case 0:
		k = 0
	case 1:
		k = 1
	case 2:
		k = r.Range(3, 12)
	default:
		k = r.Intn(3)
	}
	for j := 0; j < k && budget >= 2; j++ {
		d := psiGenDesc(r, budget-2)
		budget -= 2 + int(d.Length)
		out = append(out, d)
	}
	return out
}

func psiDescsSize(ds []*astits.Descriptor) int {
	n := 0
	for _, d := range ds {
		n += 2 + len(psiRefDescBody(d))
	}
	return n
}

// fillDescs: a loop that uses the budget completely (largest loops)
func psiFillDescs(r *Rng, budget int) []*astits.Descriptor {
	var out []*astits.Descriptor
	for budget >= 2 {
		n := psiMin(budget-2, 255)
		if r.Chance(1, 3) {
			n = r.Intn(n + 1)
		}
		d := psiGenDesc(r, 0)
		if n > 0 {
			if psiRefIsUserTag(d.Tag) {
				d.UserDefined = r.Bytes(n)
			} else {
				d.Unknown = &astits.DescriptorUnknown{Tag: d.Tag, Content: r.Bytes(n)}
			}
			d.Length = uint8(n)
		}
		out = append(out, d)
		budget -= 2 + n
	}
	return out
}

func psiGenSyntaxHeader(r *Rng) *astits.PSISectionSyntaxHeader {
	return &astits.PSISectionSyntaxHeader{
		TableIDExtension:     uint16(r.Bits(16)),
		VersionNumber:        uint8(r.Bits(5)),
		CurrentNextIndicator: r.Bool(),
		SectionNumber:        uint8(r.Bits(8)),
		LastSectionNumber:    uint8(r.Bits(8)),
	}
}

func psiNewSection(r *Rng, tid int, long bool) *astits.PSISection {
	s := &astits.PSISection{
		Header: &astits.PSISectionHeader{TableID: astits.PSITableID(tid), SectionSyntaxIndicator: !r.Chance(1, 8), PrivateBit: r.Chance(1, 4)},
		Syntax: &astits.PSISectionSyntax{Data: &astits.PSISectionSyntaxData{}},
	}
	if long {
		s.Syntax.Header = psiGenSyntaxHeader(r)
	}
	return s
}

// size classes: 0 = empty loop, 1 = small, 2 = up to the section limit
func psiPick(r *Rng, class int, max int) int {
	switch class {
	case 0:
		return 0
	case 1:
		return r.Range(1, psiMin(max, 6))
	}
	if r.Bool() {
		return max
	}
	return r.Range(max/2, max)
}

func psiGenPAT(r *Rng, class int) *astits.PSISection {
	s := psiNewSection(r, rTidPAT, true)
	d := &astits.PATData{TransportStreamID: s.Syntax.Header.TableIDExtension}
	n := psiPick(r, class, 253) // 5 + 4*253 + 4 = 1021
	for k := 0; k < n; k++ {
		d.Programs = append(d.Programs, &astits.PATProgram{ProgramNumber: uint16(r.Bits(16)), ProgramMapID: uint16(r.Bits(13))})
	}
	s.Syntax.Data.PAT = d
	return s
}

func psiGenPMT(r *Rng, class int) *astits.PSISection {
	s := psiNewSection(r, rTidPMT, true)
	d := &astits.PMTData{ProgramNumber: s.Syntax.Header.TableIDExtension, PCRPID: uint16(r.Bits(13))}
	budget := 1021 - 5 - 4 - 4 // syntax header, PCR PID + program_info_length, CRC
	if class == 2 && r.Chance(1, 4) {
		d.ProgramDescriptors = psiFillDescs(r, budget)
		budget = 0
	} else if class > 0 || r.Bool() {
		d.ProgramDescriptors = psiGenDescs(r, psiMin(budget, 200))
		budget -= psiDescsSize(d.ProgramDescriptors)
	}
	n := psiPick(r, class, 150)
	for k := 0; k < n && budget >= 5; k++ {
		es := &astits.PMTElementaryStream{StreamType: astits.StreamType(r.Bits(8)), ElementaryPID: uint16(r.Bits(13))}
		budget -= 5
		if class == 2 {
			if r.Chance(1, 6) {
				es.ElementaryStreamDescriptors = psiGenDescs(r, psiMin(budget, 40))
			}
		} else {
			es.ElementaryStreamDescriptors = psiGenDescs(r, psiMin(budget, 120))
		}
		budget -= psiDescsSize(es.ElementaryStreamDescriptors)
		d.ElementaryStreams = append(d.ElementaryStreams, es)
	}
	s.Syntax.Data.PMT = d
	return s
}

func psiGenSDT(r *Rng, class int) *astits.PSISection {
	tid := []int{rTidSDTa, rTidSDTo}[r.Intn(2)]
	s := psiNewSection(r, tid, true)
	d := &astits.SDTData{TransportStreamID: s.Syntax.Header.TableIDExtension, OriginalNetworkID: uint16(r.Bits(16))}
	budget := 1021 - 5 - 3 - 4
	n := psiPick(r, class, 202)
	for k := 0; k < n && budget >= 5; k++ {
		sv := &astits.SDTDataService{ServiceID: uint16(r.Bits(16)), HasEITSchedule: r.Bool(), HasEITPresentFollowing: r.Bool(),
			RunningStatus: uint8(r.Bits(3)), HasFreeCSAMode: r.Bool()}
		budget -= 5
		switch {
		case class == 2 && k == 0 && r.Chance(1, 4):
			sv.Descriptors = psiFillDescs(r, budget)
		case class == 2:
			if r.Chance(1, 6) {
				sv.Descriptors = psiGenDescs(r, psiMin(budget, 40))
			}
		default:
			sv.Descriptors = psiGenDescs(r, psiMin(budget, 150))
		}
		budget -= psiDescsSize(sv.Descriptors)
		d.Services = append(d.Services, sv)
	}
	s.Syntax.Data.SDT = d
	return s
}

func psiGenNIT(r *Rng, class int) *astits.PSISection {
	tid := []int{rTidNITa, rTidNITo}[r.Intn(2)]
	s := psiNewSection(r, tid, true)
	d := &astits.NITData{NetworkID: s.Syntax.Header.TableIDExtension}
	budget := 1021 - 5 - 2 - 2 - 4
	if class == 2 && r.Chance(1, 4) {
		d.NetworkDescriptors = psiFillDescs(r, budget)
		budget = 0
	} else if class > 0 || r.Bool() {
		d.NetworkDescriptors = psiGenDescs(r, psiMin(budget, 200))
		budget -= psiDescsSize(d.NetworkDescriptors)
	}
	n := psiPick(r, class, 168)
	for k := 0; k < n && budget >= 6; k++ {
		ts := &astits.NITDataTransportStream{TransportStreamID: uint16(r.Bits(16)), OriginalNetworkID: uint16(r.Bits(16))}
		budget -= 6
		if class == 2 {
			if r.Chance(1, 6) {
				ts.TransportDescriptors = psiGenDescs(r, psiMin(budget, 40))
			}
		} else {
			ts.TransportDescriptors = psiGenDescs(r, psiMin(budget, 150))
		}
		budget -= psiDescsSize(ts.TransportDescriptors)
		d.TransportStreams = append(d.TransportStreams, ts)
	}
	s.Syntax.Data.NIT = d
	return s
}

// genTime: an MJD date from 1900-03-01 (the start of the Annex C validity) to the end of the 16-bit range,
// with a valid BCD time of day; now and then the "undefined" value (all ones) or invalid digits, which have
// no canonical encoding and are registered with the reference encoder as raw bytes.
func psiGenTime(r *Rng) time.Time {
	var mjd int
	switch r.Intn(8) {
	case 0:
		mjd = 15079
	case 1:
		mjd = 65535
	case 2:
		mjd = 15079 + int(r.Bits(15))
	case 3:
		mjd = []int{15079 + 306, 51543, 51544, 51603, 51604, 58849, 59000, 40587, 40586}[r.Intn(9)]
	default:
		mjd = r.Range(15079, 65535)
	}
	if r.Chance(1, 16) {
		raw := [5]byte{0xff, 0xff, 0xff, 0xff, 0xff}
		if r.Bool() {
			raw = [5]byte{byte(mjd >> 8), byte(mjd), byte(r.Bits(8)), byte(r.Bits(8)), byte(r.Bits(8))}
		}
		t := psiRefDecodeTime(raw[:])
		if _, taken := psiRefRawTimes[t.Unix()]; !taken {
			psiRefRawTimes[t.Unix()] = raw
		}
		return t
	}
	h, m, s := r.Intn(24), r.Intn(60), r.Intn(60)
	if r.Chance(1, 6) {
		h, m, s = []int{0, 23}[r.Intn(2)], []int{0, 59}[r.Intn(2)], []int{0, 59}[r.Intn(2)]
	}
	t := time.Unix(int64(mjd-psiRefMJDEpoch)*86400+int64(h*3600+m*60+s), 0).UTC()
	if raw, taken := psiRefRawTimes[t.Unix()]; taken {
		return psiRefDecodeTime(raw[:]) // same instant; keeps the registered spelling
	}
	return t
}

func psiGenDuration(r *Rng) time.Duration {
	h, m, s := r.Intn(100), r.Intn(60), r.Intn(60)
	switch r.Intn(8) {
	case 0:
		h, m, s = 0, 0, 0
	case 1:
		h, m, s = 99, 59, 59
	case 2:
		h = r.Intn(4)
	}
	return time.Duration(h)*time.Hour + time.Duration(m)*time.Minute + time.Duration(s)*time.Second
}

func psiGenEIT(r *Rng, class int) *astits.PSISection {
	tid := r.Range(rTidEIT0, rTidEIT1)
	if r.Chance(1, 4) {
		tid = []int{rTidEIT0, rTidEIT0 + 1, 0x50, 0x5f, 0x60, rTidEIT1}[r.Intn(6)]
	}
	s := psiNewSection(r, tid, true)
	d := &astits.EITData{ServiceID: s.Syntax.Header.TableIDExtension, TransportStreamID: uint16(r.Bits(16)),
		OriginalNetworkID: uint16(r.Bits(16)), SegmentLastSectionNumber: uint8(r.Bits(8)), LastTableID: uint8(r.Bits(8))}
	budget := 4093 - 5 - 6 - 4
	n := psiPick(r, class, 339)
	for k := 0; k < n && budget >= 12; k++ {
		e := &astits.EITDataEvent{EventID: uint16(r.Bits(16)), StartTime: psiGenTime(r), Duration: psiGenDuration(r),
			RunningStatus: uint8(r.Bits(3)), HasFreeCSAMode: r.Bool()}
		budget -= 12
		switch {
		case class == 2 && k == 0 && r.Chance(1, 4):
			e.Descriptors = psiFillDescs(r, psiMin(budget, 4095))
		case class == 2:
			if r.Chance(1, 6) {
				e.Descriptors = psiGenDescs(r, psiMin(budget, 40))
			}
		default:
			e.Descriptors = psiGenDescs(r, psiMin(budget, 300))
		}
		budget -= psiDescsSize(e.Descriptors)
		d.Events = append(d.Events, e)
	}
	s.Syntax.Data.EIT = d
	return s
}

func psiGenTOT(r *Rng, class int) *astits.PSISection {
	s := psiNewSection(r, rTidTOT, false)
	s.Header.SectionSyntaxIndicator = r.Chance(1, 8)
	d := &astits.TOTData{UTCTime: psiGenTime(r)}
	switch class {
	case 1:
		d.Descriptors = psiGenDescs(r, 200)
	case 2:
		d.Descriptors = psiFillDescs(r, 1021-5-2-4)
	}
	s.Syntax.Data.TOT = d
	return s
}

var psiGens = []func(*Rng, int) *astits.PSISection{psiGenPAT, psiGenPMT, psiGenSDT, psiGenNIT, psiGenEIT, psiGenTOT}
var psiGenNames = []string{"PAT", "PMT", "SDT", "NIT", "EIT", "TOT"}

func psiUnit(ss ...*astits.PSISection) *astits.PSIData {
	d := &astits.PSIData{Sections: ss}
	psiRefFinish(d)
	return d
}

func psiStop(tid int) *astits.PSISection {
	return &astits.PSISection{Header: &astits.PSISectionHeader{TableID: astits.PSITableID(tid), TableType: psiRefTableName(tid)}}
}

// unassigned table ids (the parsing stops there)
func psiGenUnknownTid(r *Rng) int {
	for {
		t := int(r.Bits(8))
		if !psiRefKnown(t) && t != rTidNull {
			return t
		}
	}
}

func psiCopy(b []byte) []byte { return append([]byte{}, b...) }

func psiMin(a, b int) int {
	if a < b {
		return a
	}
	return b
}
