package main

import (
	"errors"
	"io"

	astits "github.com/asticode/go-astits"
)

// errInjected is the fault that test readers and writers inject.
var errInjected = errors.New("verif: injected fault")

// injectedWrapping is an injected fault whose cause is another error (for instance a network error wrapping io.EOF:
// by the contract of package io only io.EOF itself, unwrapped, means end of input).
type injectedWrapping struct{ cause error }

func (e *injectedWrapping) Error() string        { return "verif: injected fault: " + e.cause.Error() }
func (e *injectedWrapping) Unwrap() error        { return e.cause }
func (e *injectedWrapping) Is(target error) bool { return target == errInjected }

// errCode maps an error to the small enum shared with the model (coq/Base/Iter.v E_*).
func errCode(err error) int64 {
	switch {
	case err == nil:
		return -1
	case errors.Is(err, errInjected):
		return 7
	case errors.Is(err, astits.ErrNoMorePackets):
		return 1
	case errors.Is(err, astits.ErrPacketMustStartWithASyncByte):
		return 2
	case astits.VerifIsSkipped(err):
		return 3
	case errors.Is(err, astits.ErrPIDNotFound):
		return 4
	case errors.Is(err, astits.ErrPIDAlreadyExists):
		return 5
	case errors.Is(err, astits.ErrPCRPIDInvalid):
		return 6
	}
	return 0
}

// resOf renders (value, err) as the model's tok_of_res does.
func resOf(v func() Tok, err error) Tok {
	if err != nil {
		return ResErr(errCode(err))
	}
	return ResOk(v())
}

// guard runs f and maps a panic to the Panic observation.
func guard(f func() Tok) (t Tok) {
	defer func() {
		if r := recover(); r != nil {
			t = ResPanic()
		}
	}()
	return f()
}

// bw is an MSB-first bit writer used by the independent reference encoders.
type bw struct {
	b    []byte
	nbit uint
}

func (w *bw) put(n uint, v uint64) {
	for k := int(n) - 1; k >= 0; k-- {
		if w.nbit%8 == 0 {
			w.b = append(w.b, 0)
		}
		if (v>>uint(k))&1 == 1 {
			w.b[len(w.b)-1] |= 1 << (7 - w.nbit%8)
		}
		w.nbit++
	}
}
func (w *bw) flag(b bool) {
	if b {
		w.put(1, 1)
	} else {
		w.put(1, 0)
	}
}
func (w *bw) bytes(bs []byte) {
	for _, c := range bs {
		w.put(8, uint64(c))
	}
}

// sinkWriter collects what is written and can fail the k-th Write call (0-based; -1 never),
// permanently or once.
type sinkWriter struct {
	accepted []byte
	calls    int
	failAt   int
	oneShot  bool
	failed   bool
	lens     []int
	// number of bytes accepted before the first failing Write (-1: no failure yet)
	atFail int
}

func (s *sinkWriter) Write(p []byte) (int, error) {
	k := s.calls
	s.calls++
	if s.failAt >= 0 && (k == s.failAt || (!s.oneShot && k > s.failAt)) {
		if !s.failed {
			s.atFail = len(s.accepted)
		}
		s.failed = true
		return 0, errInjected
	}
	s.accepted = append(s.accepted, p...)
	s.lens = append(s.lens, len(p))
	return len(p), nil
}

var _ io.Writer = (*sinkWriter)(nil)

func eqBytes(a, b []byte) bool {
	if len(a) != len(b) {
		return false
	}
	for i := range a {
		if a[i] != b[i] {
			return false
		}
	}
	return true
}
