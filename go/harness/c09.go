package main

import (
	"fmt"

	astits "github.com/asticode/go-astits"
)

// C09: case forms (see coq/Extract/RunC09.v)
//
//	(1 bytes)           parsePSIData + toData on a payload unit: the three-way outcome
//	(2 bytes off mask)  the same after XOR-ing mask into the unit at byte offset off
//	(3 psidata)         writePSIData, then the outcome of parsing what was written
//
// outcome: (0 (table ...)) -- one (EIT NIT PAT PMT SDT TOT) entry per delivered table, () = nothing --,
//
//	(1 code) error, (2) panic
type c09 struct{}

func init() { props["C09"] = c09{} }

func (c09) Num() int { return 9 }

func psiOutcome(bs []byte) Tok {
	return guard(func() Tok {
		d, err := astits.VerifParsePSIData(bs)
		if err != nil {
			return ResErr(errCode(err))
		}
		ds := astits.VerifPSIToData(d, &astits.Packet{}, 0)
		items := make([]Tok, 0, len(ds))
		for _, x := range ds {
			items = append(items, psiRefTableTok(x.EIT, x.NIT, x.PAT, x.PMT, x.SDT, x.TOT))
		}
		return ResOk(L(items...))
	})
}

func psiXorAt(bs []byte, off int, mask []byte) []byte {
	out := psiCopy(bs)
	for k, m := range mask {
		if off+k < len(out) {
			out[off+k] ^= m
		}
	}
	return out
}

// psiBurstMask builds a burst of nbits (2..32) starting at bit sbit (0 = MSB of the first byte): first and last
// bit of the burst flipped, the ones between at random.
func psiBurstMask(r *Rng, sbit, nbits int) []byte {
	mask := make([]byte, (sbit+nbits+7)/8)
	for k := 0; k < nbits; k++ {
		if k == 0 || k == nbits-1 || r.Bool() {
			p := sbit + k
			mask[p/8] |= 0x80 >> uint(p%8)
		}
	}
	return mask
}

func (c09) Gen(r *Rng, tier string, emit func(string, Tok)) {
	thorough := tier == "thorough"
	scale, unitScale := 1, 1
	if thorough {
		scale, unitScale = 10, 5
	}
	// small sections of the six types: every single-bit flip, every truncation, every one-byte substitution position
	small := 5
	if thorough {
		small = 20
	}
	for gi, g := range psiGens {
		for k := 0; k < small; k++ {
			var bs []byte
			for try := 0; ; try++ {
				d := psiUnit(g(r, []int{1, 0, 1}[k%3]))
				bs = psiRefEncodeUnit(d, nil)
				if len(bs) <= 61 || (thorough && k%4 == 3 && len(bs) <= 400) || try > 200 {
					break
				}
			}
			name := psiGenNames[gi]
			emit("intact-"+name, L(I(1), B(bs)))
			for bit := 8; bit < 8*len(bs); bit++ {
				emit("bitflip-all-"+name, L(I(2), B(bs), I(int64(bit/8)), B([]byte{0x80 >> uint(bit%8)})))
			}
			for cut := 1; cut < len(bs); cut++ {
				emit("truncated-"+name, L(I(1), B(psiCopy(bs[:cut]))))
			}
			for p := 1; p < len(bs); p++ {
				v := byte(r.Bits(8))
				if v == 0 {
					v = 0xff
				}
				emit("byte-substituted-"+name, L(I(2), B(bs), I(int64(p)), B([]byte{v})))
			}
			for j := 0; j < 40; j++ {
				n := r.Range(2, 32)
				s := r.Range(8, 8*len(bs)-n)
				mask := psiBurstMask(r, s%8, n)
				emit("burst-"+name, L(I(2), B(bs), I(int64(s/8)), B(mask)))
			}
			// a damaged body with the CRC_32 field overwritten by a constant (a value a parser might take for "absent")
			if len(bs) > 12 {
				for j := 0; j < 8; j++ {
					m := psiCopy(bs)
					if j%4 != 3 {
						bit := r.Range(8*4, 8*(len(m)-4)-1)
						m[bit/8] ^= 0x80 >> uint(bit%8)
					}
					fill := []byte{0x00, 0xff, 0x00, 0x01}[j%4]
					for i := len(m) - 4; i < len(m); i++ {
						m[i] = fill
					}
					if j%4 == 3 {
						m[len(m)-1] = 0x00 // CRC field 0x01010100: a sanity case
					}
					emit("crc-field-constant-"+name, L(I(1), B(m)))
				}
			}
			for j := 0; j < 12; j++ {
				ext := r.Bytes(r.Range(1, 10))
				switch j % 4 {
				case 0:
					for i := range ext {
						ext[i] = 0xff
					}
				case 1:
					ext[0] = byte([]int{0x4a, 0x70, 0x71, 0x72, 0x7e, 0x7f}[r.Intn(6)])
				case 2:
					ext[0] = byte([]int{0x00, 0x02, 0x40, 0x42, 0x4e, 0x73}[r.Intn(6)])
				}
				emit("extended-"+name, L(I(1), B(append(psiCopy(bs), ext...))))
			}
		}
	}
	sweep("every single-bit flip and every truncation point of the small sections (<= 61 bytes) of each of the six table types")
	// sections of any size, 1..3 per unit: sampled flips (all in thorough), substitutions, bursts, truncations, extensions
	for k := 0; k < 60*unitScale; k++ {
		n := 1
		if k%4 == 0 {
			n = r.Range(2, 3)
		}
		var ss []*astits.PSISection
		for j := 0; j < n; j++ {
			class := 1
			if k%10 == 9 {
				class = 2
			}
			ss = append(ss, psiGens[(k+j)%6](r, class))
		}
		d := psiUnit(ss...)
		bs := psiRefEncodeUnit(d, nil)
		emit("intact", L(I(1), B(bs)))
		nbits := 8 * (len(bs) - 1)
		if thorough && len(bs) <= 300 {
			for bit := 8; bit < 8*len(bs); bit++ {
				emit("bitflip-all", L(I(2), B(bs), I(int64(bit/8)), B([]byte{0x80 >> uint(bit%8)})))
			}
		} else {
			nflips := 24
			if thorough {
				nflips = 200
			}
			for j := 0; j < nflips; j++ {
				bit := 8 + r.Intn(nbits)
				if j < 6 {
					bit = 8 + r.Intn(24) // table id and section_length
				}
				emit("bitflip", L(I(2), B(bs), I(int64(bit/8)), B([]byte{0x80 >> uint(bit%8)})))
			}
		}
		for j := 0; j < 12; j++ {
			p := 1 + r.Intn(len(bs)-1)
			m := r.Bytes(r.Range(1, 3))
			m[0] |= 1
			emit("byte-substituted", L(I(2), B(bs), I(int64(p)), B(m)))
		}
		for j := 0; j < 12; j++ {
			nb := r.Range(2, 32)
			if nbits <= nb {
				continue
			}
			s := 8 + r.Intn(nbits-nb)
			emit("burst", L(I(2), B(bs), I(int64(s/8)), B(psiBurstMask(r, s%8, nb))))
		}
		for j := 0; j < 8; j++ {
			cut := r.Intn(len(bs))
			if j < 3 {
				cut = len(bs) - 1 - j
			}
			emit("truncated", L(I(1), B(psiCopy(bs[:cut]))))
		}
		for j := 0; j < 4; j++ {
			emit("extended", L(I(1), B(append(psiCopy(bs), r.Bytes(r.Range(1, 16))...))))
		}
	}
	// muxer side: PAT and PMT contents with the length field as Muxer.generatePAT / generatePMT set it
	for k := 0; k < 300*scale; k++ {
		class := 1
		if k%25 == 0 {
			class = 2
		}
		var s *astits.PSISection
		if k%2 == 0 {
			s = psiGenPAT(r, class)
			s.Header.TableID, s.Header.SectionSyntaxIndicator, s.Header.PrivateBit = astits.PSITableIDPAT, true, false
			if k%4 == 0 { // exactly what the muxer builds: transport_stream_id 0, one program per registered PMT
				s.Syntax.Header = &astits.PSISectionSyntaxHeader{CurrentNextIndicator: true, VersionNumber: uint8(r.Bits(5))}
				s.Syntax.Data.PAT.TransportStreamID = 0
				if len(s.Syntax.Data.PAT.Programs) == 0 {
					s.Syntax.Data.PAT.Programs = []*astits.PATProgram{{ProgramMapID: 0x1000, ProgramNumber: 1}}
				}
			}
		} else {
			s = psiGenPMT(r, class)
			s.Header.SectionSyntaxIndicator, s.Header.PrivateBit = true, false
			if k%4 == 1 {
				s.Syntax.Header = &astits.PSISectionSyntaxHeader{CurrentNextIndicator: true, VersionNumber: uint8(r.Bits(5)), TableIDExtension: 1}
				s.Syntax.Data.PMT.ProgramNumber = 1
			}
		}
		d := psiUnit(s)
		psiMuxerConvention(d)
		emit("mux", L(I(3), ToTok(*d)))
	}
}

func (c09) Run(c Tok) Tok {
	switch c.At(0).Int() {
	case 1:
		return psiOutcome(c.At(1).Bytes())
	case 2:
		return psiOutcome(psiXorAt(c.At(1).Bytes(), int(c.At(2).Int()), c.At(3).Bytes()))
	case 3:
		var d astits.PSIData
		FromTok(c.At(1), &d)
		w := psiWriteObs(&d)
		if w.At(0).Int() != 0 {
			return w
		}
		return L(I(0), w.At(1), psiOutcome(w.At(1).Bytes()))
	}
	return L()
}

// psiRefOutcome is the reference decoder's three-way outcome of a unit.
func psiRefOutcome(bs []byte) (Tok, psiRefInfo) {
	d, info, err := psiRefDecodeUnit(bs)
	if err != nil {
		return ResErr(0), info
	}
	return ResOk(L(psiRefTables(d)...)), info
}

func psiIsSubsequence(sub, all []Tok) bool {
	j := 0
	for _, x := range sub {
		xs := x.String()
		for j < len(all) && all[j].String() != xs {
			j++
		}
		if j == len(all) {
			return false
		}
		j++
	}
	return true
}

func psiOutcomeOracle(bs []byte, obs Tok) string {
	want, info := psiRefOutcome(bs)
	if info.oldDate {
		return ""
	}
	switch obs.At(0).Int() {
	case 2:
		return "parsePSIData panics"
	case 1:
		if want.At(0).Int() != 1 && !info.typedDesc {
			return "the demuxer reports an error for a unit the reference decoder accepts (" + psiShort(want.String()) + ")"
		}
	case 0:
		if want.At(0).Int() != 0 {
			return "the demuxer delivers " + psiShort(obs.At(1).String()) + " for a unit the reference decoder rejects (damaged section or CRC_32 mismatch)"
		}
		if info.typedDesc {
			if len(obs.At(1).L) != len(want.At(1).L) {
				return "the demuxer delivers a different number of tables than the reference decoder"
			}
			return ""
		}
		if a, b := obs.At(1).String(), want.At(1).String(); a != b {
			return fmt.Sprintf("delivered tables differ from the reference decoder's: got %s want %s", psiShort(a), psiShort(b))
		}
	}
	return ""
}

func (c09) Oracle(c Tok, obs Tok) string {
	switch c.At(0).Int() {
	case 1:
		return psiOutcomeOracle(c.At(1).Bytes(), obs)
	case 2:
		orig := c.At(1).Bytes()
		bs := psiXorAt(orig, int(c.At(2).Int()), c.At(3).Bytes())
		if w := psiOutcomeOracle(bs, obs); w != "" {
			return w
		}
		// never a silently altered table: whatever is still delivered was in the undamaged unit
		if obs.At(0).Int() == 0 && !eqBytes(bs, orig) {
			if o, info := psiRefOutcome(orig); o.At(0).Int() == 0 && !info.typedDesc && !psiIsSubsequence(obs.At(1).L, o.At(1).L) {
				return "a damaged unit delivers a table that the undamaged unit does not contain: " + psiShort(obs.At(1).String())
			}
		}
	case 3:
		var d astits.PSIData
		FromTok(c.At(1), &d)
		if !psiWritable(&d) {
			return ""
		}
		if obs.At(0).Int() != 0 {
			return "writePSIData fails on PAT/PMT content inside its domain: " + obs.String()
		}
		out := obs.At(1).Bytes()
		got, _, err := psiRefDecodeUnit(out)
		if err != nil {
			return fmt.Sprintf("the reference decoder rejects a written section (section_length or CRC_32 wrong): %x", out)
		}
		// section_length = bytes after it: the sections tile the output exactly
		n := 1 + d.PointerField
		for _, s := range got.Sections {
			n += 3 + int(s.Header.SectionLength)
		}
		if n != len(out) || len(got.Sections) != len(d.Sections) {
			return fmt.Sprintf("section_length fields do not add up to the %d bytes written: %x", len(out), out)
		}
		want := L(psiRefTables(&d)...)
		if a, b := L(psiRefTables(got)...).String(), want.String(); a != b {
			return fmt.Sprintf("written sections decode to different content: got %s want %s", psiShort(a), psiShort(b))
		}
		if a, b := obs.At(2).String(), ResOk(want).String(); a != b {
			return fmt.Sprintf("the demuxer does not deliver what was written: got %s want %s", psiShort(a), psiShort(b))
		}
	}
	return ""
}

func (c09) Nontrivial(c Tok, obs Tok) bool {
	switch c.At(0).Int() {
	case 2:
		return true // a damaged copy of a valid section: the gate itself is exercised
	}
	return obs.At(0).Int() == 0
}
