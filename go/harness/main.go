// Command harness generates cases for a property, runs the go-astits
// implementation on them, writes one canonical observation per case and runs the
// property's implementation-side oracle. See DESIGN.md section 3.
package main

import (
	"bufio"
	"crypto/sha256"
	"encoding/json"
	"flag"
	"fmt"
	"os"
	"path/filepath"
	"sort"
	"strings"
	"time"
)

// Prop is one property's generator, implementation runner and oracle.
type Prop interface {
	Num() int
	// Gen emits cases; kind labels the generator stream for the distribution report.
	Gen(r *Rng, tier string, emit func(kind string, c Tok))
	// Run executes the implementation and returns the canonical observation.
	Run(c Tok) Tok
	// Oracle checks the property itself on the implementation; "" means it holds.
	Oracle(c Tok, obs Tok) string
	// Nontrivial reports whether the case exercises more than an entry-point rejection.
	Nontrivial(c Tok, obs Tok) bool
}

var props = map[string]Prop{}

type violation struct {
	Case string `json:"case"`
	Obs  string `json:"observation"`
	What string `json:"what"`
	Kind string `json:"kind"`
	// a smaller case on which the oracle still reports the same kind of violation (first violation only)
	MinCase  string `json:"minimized_case,omitempty"`
	MinWhat  string `json:"minimized_what,omitempty"`
	MinEvals int    `json:"minimization_evaluations,omitempty"`
}

type stats struct {
	Property    string         `json:"property"`
	Seed        uint64         `json:"seed"`
	Tier        string         `json:"tier"`
	Evaluations int            `json:"evaluations"`
	Distinct    int            `json:"distinct_nontrivial"`
	Kinds       map[string]int `json:"kinds"`
	ObsClasses  map[string]int `json:"observation_classes"`
	Samples     []string       `json:"samples"`
	Violations  []violation    `json:"violations"`
	Exhaustive  []string       `json:"exhaustive_sweeps"`
	Notes       []string       `json:"notes"`
	WallS       float64        `json:"wall_s"`
}

var curStats *stats

func note(format string, a ...interface{}) {
	if curStats != nil {
		curStats.Notes = append(curStats.Notes, fmt.Sprintf(format, a...))
	}
}
func sweep(name string) {
	if curStats != nil {
		curStats.Exhaustive = append(curStats.Exhaustive, name)
	}
}

func obsClass(o Tok) string {
	// first element of a list observation, when an integer, is its class
	if o.Kind == 'l' && len(o.L) > 0 && o.L[0].Kind == 'i' {
		return "class" + o.L[0].I.String()
	}
	if o.Kind == 'i' {
		return "int"
	}
	return "other"
}

func safeRun(p Prop, c Tok) (o Tok) {
	defer func() {
		if r := recover(); r != nil {
			o = L(I(-99), B([]byte(fmt.Sprint(r))))
		}
	}()
	return p.Run(c)
}

func main() {
	prop := flag.String("prop", "", "property id, e.g. C10")
	tier := flag.String("tier", "quick", "quick|thorough")
	seed := flag.Uint64("seed", 1, "seed")
	out := flag.String("out", "", "output directory")
	replay := flag.String("replay", "", "replay file (json with a cases list) instead of generating")
	corpus := flag.String("corpus", "", "corpus directory of .case files replayed first")
	shrink := flag.Bool("shrink", false, "minimise the first violation found (used on a replay of one failing case)")
	flag.Parse()
	p, ok := props[*prop]
	if !ok {
		fmt.Fprintf(os.Stderr, "unknown property %q\n", *prop)
		os.Exit(2)
	}
	start := time.Now()
	st := &stats{Property: *prop, Seed: *seed, Tier: *tier, Kinds: map[string]int{}, ObsClasses: map[string]int{}}
	curStats = st
	os.MkdirAll(*out, 0o755)
	cf, _ := os.Create(filepath.Join(*out, "cases.txt"))
	inf, _ := os.Create(filepath.Join(*out, "impl.txt"))
	cw := bufio.NewWriterSize(cf, 1<<20)
	iw := bufio.NewWriterSize(inf, 1<<20)
	seen := map[[32]byte]bool{}
	emit := func(kind string, c Tok) {
		cs := c.String()
		obs := safeRun(p, c)
		os_ := obs.String()
		fmt.Fprintf(cw, "%d %s\n", p.Num(), cs)
		fmt.Fprintf(iw, "%s\n", os_)
		st.Evaluations++
		st.Kinds[kind]++
		st.ObsClasses[obsClass(obs)]++
		if obs.Kind == 'l' && len(obs.L) > 0 && obs.L[0].Kind == 'i' && obs.L[0].I.Int64() == -99 {
			st.Violations = append(st.Violations, violation{Case: cs, Obs: os_, What: "implementation panicked: " + string(obs.L[1].B), Kind: kind})
		} else if w := p.Oracle(c, obs); w != "" {
			if len(st.Violations) < 50 {
				st.Violations = append(st.Violations, violation{Case: cs, Obs: os_, What: w, Kind: kind})
			}
		}
		if p.Nontrivial(c, obs) {
			h := sha256.Sum256([]byte(cs))
			if !seen[h] {
				seen[h] = true
				st.Distinct++
			}
		}
		if len(st.Samples) < 5 || (st.Evaluations%997 == 0 && len(st.Samples) < 12) {
			s := cs
			if len(s) > 400 {
				s = s[:400] + "..."
			}
			o := os_
			if len(o) > 400 {
				o = o[:400] + "..."
			}
			st.Samples = append(st.Samples, kind+": "+s+" => "+o)
		}
	}
	readCases := func(path string, kind string) {
		data, err := os.ReadFile(path)
		if err != nil {
			return
		}
		if strings.HasSuffix(path, ".json") {
			var rf struct {
				Cases []string `json:"cases"`
			}
			if json.Unmarshal(data, &rf) == nil {
				for _, cs := range rf.Cases {
					if t, err := ParseTok(cs); err == nil {
						emit(kind, t)
					}
				}
			}
			return
		}
		for _, line := range strings.Split(string(data), "\n") {
			line = strings.TrimSpace(line)
			if line == "" || strings.HasPrefix(line, "#") {
				continue
			}
			if t, err := ParseTok(line); err == nil {
				emit(kind, t)
			}
		}
	}
	if *replay != "" {
		readCases(*replay, "replay")
	} else {
		if *corpus != "" {
			files, _ := filepath.Glob(filepath.Join(*corpus, "*.case"))
			sort.Strings(files)
			for _, f := range files {
				readCases(f, "corpus")
			}
		}
		p.Gen(NewRng(*seed), *tier, emit)
	}
	cw.Flush()
	iw.Flush()
	cf.Close()
	inf.Close()
	// shrink the first violation the oracle reported (bounded; the full case stays in the record)
	for i := range st.Violations {
		if !*shrink {
			break
		}
		v := &st.Violations[i]
		if strings.HasPrefix(v.What, "implementation panicked") {
			continue
		}
		if t, err := ParseTok(v.Case); err == nil {
			m, w, n := shrinkCase(p, t, v.What, 600, 20*time.Second)
			if ms := m.String(); len(ms) < len(v.Case) {
				v.MinCase, v.MinWhat, v.MinEvals = ms, w, n
			}
		}
		break
	}
	st.WallS = time.Since(start).Seconds()
	js, _ := json.MarshalIndent(st, "", " ")
	os.WriteFile(filepath.Join(*out, "stats.json"), js, 0o644)
}
