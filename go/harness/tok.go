package main

import (
	"fmt"
	"math/big"
	"strings"
)

// Tok is the exchange format shared with the Coq model (coq/Base/Tok.v):
// an s-expression of integers, byte strings and lists.
type Tok struct {
	Kind byte // 'i' 'b' 'l'
	I    *big.Int
	B    []byte
	L    []Tok
}

func I(v int64) Tok      { return Tok{Kind: 'i', I: big.NewInt(v)} }
func U(v uint64) Tok     { return Tok{Kind: 'i', I: new(big.Int).SetUint64(v)} }
func B(b []byte) Tok     { return Tok{Kind: 'b', B: b} }
func L(items ...Tok) Tok { return Tok{Kind: 'l', L: items} }
func Bool(b bool) Tok {
	if b {
		return I(1)
	}
	return I(0)
}
func Opt(present bool, f func() Tok) Tok {
	if !present {
		return L()
	}
	return L(f())
}

func (t Tok) write(sb *strings.Builder) {
	switch t.Kind {
	case 'i':
		sb.WriteString(t.I.String())
	case 'b':
		sb.WriteByte('x')
		const hx = "0123456789abcdef"
		for _, c := range t.B {
			sb.WriteByte(hx[c>>4])
			sb.WriteByte(hx[c&15])
		}
	case 'l':
		sb.WriteByte('(')
		for i, x := range t.L {
			if i > 0 {
				sb.WriteByte(' ')
			}
			x.write(sb)
		}
		sb.WriteByte(')')
	}
}

func (t Tok) String() string {
	var sb strings.Builder
	t.write(&sb)
	return sb.String()
}

func (t Tok) Int() int64 {
	if t.Kind != 'i' {
		return 0
	}
	return t.I.Int64()
}
func (t Tok) Uint() uint64 {
	if t.Kind != 'i' {
		return 0
	}
	return t.I.Uint64()
}
func (t Tok) Bytes() []byte { return t.B }
func (t Tok) At(i int) Tok {
	if t.Kind != 'l' || i >= len(t.L) {
		return I(0)
	}
	return t.L[i]
}
func (t Tok) IsTrue() bool { return t.Kind == 'i' && t.I.Sign() != 0 }

// ParseTok parses one s-expression.
func ParseTok(s string) (Tok, error) {
	t, rest, err := parseTok(strings.TrimSpace(s))
	if err != nil {
		return t, err
	}
	if strings.TrimSpace(rest) != "" {
		return t, fmt.Errorf("trailing input %q", rest)
	}
	return t, nil
}

func parseTok(s string) (Tok, string, error) {
	s = strings.TrimLeft(s, " \t")
	if s == "" {
		return Tok{}, "", fmt.Errorf("empty")
	}
	switch {
	case s[0] == '(':
		s = s[1:]
		var items []Tok
		for {
			s = strings.TrimLeft(s, " \t")
			if s == "" {
				return Tok{}, "", fmt.Errorf("unclosed list")
			}
			if s[0] == ')' {
				return L(items...), s[1:], nil
			}
			t, rest, err := parseTok(s)
			if err != nil {
				return Tok{}, "", err
			}
			items = append(items, t)
			s = rest
		}
	case s[0] == 'x':
		j := 1
		for j < len(s) && s[j] != ' ' && s[j] != ')' && s[j] != '(' {
			j++
		}
		h := s[1:j]
		b := make([]byte, len(h)/2)
		for k := range b {
			var v byte
			fmt.Sscanf(h[2*k:2*k+2], "%02x", &v)
			b[k] = v
		}
		return B(b), s[j:], nil
	default:
		j := 0
		for j < len(s) && s[j] != ' ' && s[j] != ')' && s[j] != '(' {
			j++
		}
		v, ok := new(big.Int).SetString(s[:j], 10)
		if !ok {
			return Tok{}, "", fmt.Errorf("bad integer %q", s[:j])
		}
		return Tok{Kind: 'i', I: v}, s[j:], nil
	}
}
