package main

import (
	"fmt"

	astits "github.com/asticode/go-astits"
)

// C19: PacketSkipper equals deleting packets; PacketsParser sees each unit exactly once.
// Cases are demux scenarios (demux.go / coq/Extract/RunDemux.v).
type c19 struct{}

func init() { props["C19"] = c19{} }

func (c19) Num() int { return 19 }

func skipSpecs(r *Rng, m *refStreamModel) []Tok {
	pids := []Tok{}
	for _, p := range m.PIDs {
		if r.Bool() {
			pids = append(pids, I(int64(p)))
		}
	}
	return []Tok{L(I(1), L(pids...)), L(I(2), I(int64(r.Intn(16)))), L(I(3)), L(I(4), I(int64(r.Intn(1000)))), L(I(5)), L(I(6)), L(I(0))}
}

func (c19) Gen(r *Rng, tier string, emit func(string, Tok)) {
	n := 40
	if tier == "thorough" {
		n = 400
	}
	for k := 0; k < n; k++ {
		m := genRefStream(r, streamOpts{PESPIDs: r.Range(1, 3), UnitsPerPID: r.Range(1, 4), MaxPES: 600, Tables: true, Fillers: r.Bool(), SmallChunks: r.Chance(1, 4), Repeats: r.Intn(2)})
		data := m.bytes()
		kind := r.Intn(3)
		opt := 188
		if kind != 0 && r.Bool() {
			opt = 0
		}
		for _, sk := range skipSpecs(r, m) {
			emit("skip-packets", scenario{kind: kind, optSize: opt, fault: -1, skipSpec: sk, data: data, ops: []int{4}}.tok())
			emit("skip-data", scenario{kind: kind, optSize: opt, fault: -1, skipSpec: sk, data: data, ops: []int{3}}.tok())
		}
		pids := []Tok{}
		for _, p := range m.PIDs {
			if r.Bool() {
				pids = append(pids, I(int64(p)))
			}
		}
		for _, pr := range []Tok{L(I(1)), L(I(2), L(pids...)), L(I(3), L(pids...)), L(I(4))} {
			emit("parser", scenario{kind: kind, optSize: opt, fault: -1, prsSpec: pr, data: data, ops: []int{3}}.tok())
		}
		emit("both", scenario{kind: kind, optSize: opt, fault: -1, skipSpec: L(I(4), I(int64(r.Intn(1000)))), prsSpec: L(I(2), L(pids...)), data: data, ops: []int{3}}.tok())
	}
	// a PacketsParser that returns data with skip = false, on streams with units the library parses nothing from:
	// TDT and stuffing sections on PID 0x14 / 0x11, a CAT unit, a unit of non-PES bytes on an elementary PID
	for k := 0; k < scale(tier, 20, 200); k++ {
		m := genRefStream(r, streamOpts{PESPIDs: r.Range(1, 2), UnitsPerPID: 2, MaxPES: 300, Tables: true, Repeats: r.Intn(2)})
		data := m.bytes()
		np := len(data) / 188
		var d []byte
		cc := map[uint16]*byte{}
		extra := func(pid uint16, unit []byte, psi bool) {
			if cc[pid] == nil {
				c := byte(r.Intn(16))
				cc[pid] = &c
			}
			u := &refUnit{PID: pid, IsPSI: psi, Bytes: unit, MinFirst: len(unit), TailFF: true}
			for _, p := range packetiseUnit(r, u, 0, cc[pid], false) {
				d = append(d, p.encode()...)
			}
		}
		for i := 0; i < np; i++ {
			d = append(d, pktAt(data, i)...)
			if r.Chance(1, 3) {
				switch r.Intn(4) {
				case 0:
					extra(0x14, append([]byte{0, 0x70, 0x70, 0x05}, r.Bytes(5)...), true) // TDT
				case 1:
					extra([]uint16{0x11, 0x14}[r.Intn(2)], []byte{0, 0x72, 0x70, 0x02, 0xaa, 0xbb}, true) // stuffing section
				case 2:
					extra(1, append([]byte{0, 0x01, 0xb0, 0x09}, r.Bytes(9)...), true) // CAT: private
				case 3:
					extra(0x1abc, append([]byte{0xff, 0x00, 0x01}, r.Bytes(r.Range(1, 60))...), false) // not a PES start code
				}
			}
		}
		emit("parser-data-noskip", scenario{kind: r.Intn(3), optSize: 188, fault: -1, prsSpec: L(I(5)), data: d, ops: []int{3}}.tok())
	}
	c19LongRuns(r, tier, emit)
}

func (c19) Run(c Tok) Tok { return runScenario(scenarioOf(c)).observation() }

// c19LongRuns: a skipper that rejects a PID whose packets come in one run of several thousand (one unit of one or two
// payload bytes per packet), then everything (the whole stream skipped); the packets parser sees a unit of that size
func c19LongRuns(r *Rng, tier string, emit func(string, Tok)) {
	for _, np := range scaleList(tier, []int{4100}, []int{4095, 4096, 4097, 8200}) {
		m := genRefStream(r, streamOpts{PESPIDs: 2, UnitsPerPID: 2, MaxPES: 200, Tables: true, LongUnit: np})
		data := m.bytes()
		long := m.PIDs[0]
		for _, q := range m.PIDs {
			if us := m.Units[q]; len(us) > 0 && us[0].Tiny {
				long = q
			}
		}
		for _, op := range []int{3, 4} {
			emit("skip-long-run", scenario{kind: 1, optSize: 188, fault: -1, skipSpec: L(I(1), L(I(int64(long)))), data: data, ops: []int{op}}.tok())
		}
		emit("skip-everything", scenario{kind: 0, optSize: 188, fault: -1, skipSpec: L(I(5)), data: data, ops: []int{4, 1}}.tok())
		emit("parser-long-unit", scenario{kind: 1, optSize: 188, fault: -1, prsSpec: L(I(2), L(I(int64(long)))), data: data, ops: []int{3}}.tok())
	}
}

// skipDecision evaluates a skip specification on a raw 188-byte packet, independently of the library.
func skipDecision(spec Tok, b []byte) bool {
	pid := uint16(b[1]&0x1f)<<8 | uint16(b[2])
	cc := int64(b[3] & 15)
	pusi := b[1]&0x40 != 0
	switch spec.At(0).Int() {
	case 1:
		return pidIn(spec.At(1), pid)
	case 2:
		return cc == spec.At(1).Int()
	case 3:
		return pusi
	case 4:
		v := int64(pid)*31 + cc*7 + spec.At(1).Int()
		if pusi {
			v += 3
		}
		return v%3 == 0
	case 5:
		return true
	case 6:
		return b[3]&0x20 != 0
	}
	return false
}

func dataSeq(r *demuxRun) []string {
	var out []string
	for i, d := range r.data {
		if d != nil {
			out = append(out, ToTok(*d).String())
		} else if r.errs[i] != nil {
			out = append(out, fmt.Sprintf("err%d", errCode(r.errs[i])))
		}
	}
	return out
}
func packetSeq(r *demuxRun) []string {
	var out []string
	for i, p := range r.packets {
		if p != nil {
			out = append(out, ToTok(*p).String())
		} else if r.errs[i] != nil {
			out = append(out, fmt.Sprintf("err%d", errCode(r.errs[i])))
		}
	}
	return out
}

func diffSeq(a, b []string) string {
	for i := 0; i < len(a) || i < len(b); i++ {
		var x, y string
		if i < len(a) {
			x = a[i]
		}
		if i < len(b) {
			y = b[i]
		}
		if x != y {
			if len(x) > 200 {
				x = x[:200]
			}
			if len(y) > 200 {
				y = y[:200]
			}
			return fmt.Sprintf("item %d: %q vs %q (lengths %d, %d)", i, x, y, len(a), len(b))
		}
	}
	return ""
}

func (c19) Oracle(c Tok, obs Tok) string {
	s := scenarioOf(c)
	run := runScenario(s)
	if run.capHit {
		return "call cap reached without ErrNoMorePackets"
	}
	if run.skipViol != "" {
		return run.skipViol
	}
	if run.groupViol != "" {
		return run.groupViol
	}
	if s.skipSpec.At(0).Int() != 0 && len(s.data)%188 == 0 {
		// deletion equivalence
		var filtered []byte
		var want []Tok
		for off := 0; off+188 <= len(s.data); off += 188 {
			b := s.data[off : off+188]
			pid := uint16(b[1]&0x1f)<<8 | uint16(b[2])
			plen := 0
			want = append(want, L(I(int64(pid)), I(int64(b[3]&15)), Bool(b[1]&0x40 != 0), I(int64(plen))))
			if !skipDecision(s.skipSpec, b) {
				filtered = append(filtered, b...)
			}
		}
		s2 := s
		s2.skipSpec = L(I(0))
		s2.data = filtered
		if s2.optSize == 0 {
			s2.optSize = 188 // the filtered stream may be too short for auto-detection; framing is not the point here
		}
		ref := runScenario(s2)
		if s.prsSpec.At(0).Int() == 0 || s.prsSpec.At(0).Int() == 1 {
			if d := diffSeq(packetSeq(run), packetSeq(ref)); d != "" {
				return "packets with the skipper differ from packets of the filtered stream: " + d
			}
		}
		if d := diffSeq(dataSeq(run), dataSeq(ref)); d != "" {
			return "data with the skipper differ from data of the filtered stream: " + d
		}
		// consulted once per packet, in stream order (when the stream was read to its end)
		if len(run.consulted) != len(want) {
			return fmt.Sprintf("skipper consulted %d times for %d packets", len(run.consulted), len(want))
		}
		for i := range want {
			if run.consulted[i].String() != want[i].String() {
				return fmt.Sprintf("skipper consultation %d is %s, stream packet is %s", i, run.consulted[i], want[i])
			}
		}
		for _, p := range run.packets {
			if p != nil {
				raw := make([]byte, 4)
				raw[1] = byte(p.Header.PID >> 8)
				if p.Header.PayloadUnitStartIndicator {
					raw[1] |= 0x40
				}
				raw[2] = byte(p.Header.PID)
				raw[3] = p.Header.ContinuityCounter
				if p.Header.HasAdaptationField {
					raw[3] |= 0x20
				}
				if skipDecision(s.skipSpec, append(raw, make([]byte, 184)...)) {
					return "a packet the skipper selected was returned"
				}
			}
		}
	}
	switch s.prsSpec.At(0).Int() {
	case 5: // data with skip = false: on PSI PIDs and on PES units the library's own data come out, never the parser's
		psi := map[uint16]bool{0: true, 0x10: true, 0x11: true, 0x12: true, 0x13: true, 0x14: true, 0x1e: true, 0x1f: true}
		for _, d := range run.data {
			if d != nil && d.PAT != nil {
				for _, pg := range d.PAT.Programs {
					if pg.ProgramNumber > 0 {
						psi[pg.ProgramMapID] = true
					}
				}
			}
		}
		for _, d := range run.data {
			if d == nil || d.PAT != nil || d.PMT != nil || d.PES != nil || d.EIT != nil || d.NIT != nil || d.SDT != nil || d.TOT != nil {
				continue
			}
			// made by the parser (replace): FirstPacket carries the concatenated payload
			if d.PID == 1 {
				continue
			}
			pl := []byte(nil)
			if d.FirstPacket != nil {
				pl = d.FirstPacket.Payload
			}
			if psi[d.PID] {
				return fmt.Sprintf("a PacketsParser that returned skip=false had its data delivered for a unit of PSI PID %#x", d.PID)
			}
			if len(pl) >= 3 && pl[0] == 0 && pl[1] == 0 && pl[2] == 1 {
				return fmt.Sprintf("a PacketsParser that returned skip=false had its data delivered for a PES unit of PID %#x", d.PID)
			}
		}
	case 1: // observer: output unchanged
		s2 := s
		s2.prsSpec = L(I(0))
		ref := runScenario(s2)
		if d := diffSeq(dataSeq(run), dataSeq(ref)); d != "" {
			return "an observing PacketsParser (skip=false) changed the output: " + d
		}
		if m := groupsOnce(run, s.data); m != "" {
			return m
		}
	case 4: // replacer: exactly what it returned, group by group
		var want []string
		for _, g := range run.groups {
			want = append(want, fmt.Sprintf("g%d", len(g.L)))
			if len(g.L)%2 == 0 {
				want = append(want, "g")
			}
		}
		n := 0
		for _, d := range run.data {
			if d != nil {
				n++
				if d.PES != nil || d.PAT != nil || d.PMT != nil {
					return "default parsing ran for a group the parser replaced"
				}
			}
		}
		if n != len(want) {
			return fmt.Sprintf("replacer returned %d data in total, %d were delivered", len(want), n)
		}
		if m := groupsOnce(run, s.data); m != "" {
			return m
		}
	}
	return ""
}

// groupsOnce checks that, per PID, the groups handed to the parser are disjoint, in arrival order and made of
// stream packets (by PID and counter), i.e. no packet is handed over twice.
func groupsOnce(run *demuxRun, data []byte) string {
	perPID := map[int64][]string{}
	for off := 0; off+188 <= len(data); off += 188 {
		b := data[off : off+188]
		if b[1]&0x80 != 0 || b[3]&0x10 == 0 {
			continue
		}
		pid := int64(b[1]&0x1f)<<8 | int64(b[2])
		perPID[pid] = append(perPID[pid], fmt.Sprintf("%d/%v", b[3]&15, b[1]&0x40 != 0))
	}
	idx := map[int64]int{}
	for _, g := range run.groups {
		for _, p := range g.L {
			pid := p.At(0).Int()
			key := fmt.Sprintf("%d/%v", p.At(1).Int(), p.At(2).IsTrue())
			seq := perPID[pid]
			i := idx[pid]
			for i < len(seq) && seq[i] != key {
				i++
			}
			if i >= len(seq) {
				return fmt.Sprintf("group packet pid %d %s is not a later packet of the stream (handed over twice or out of order)", pid, key)
			}
			idx[pid] = i + 1
		}
	}
	return ""
}

func (c19) Nontrivial(c Tok, obs Tok) bool { return len(obs.At(0).L) > 2 }

var _ = astits.ErrNoMorePackets
