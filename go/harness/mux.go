package main

import (
	"context"
	"fmt"

	astits "github.com/asticode/go-astits"
)

// Shared scenario runner and generators of the Muxer properties (C04, C05, C17; C01/C16/C18 build on it).
//
// case:        (period (op ...))     op = (0 es) AddElementaryStream  (1 pid) RemoveElementaryStream  (2 pid) SetPCRPID
//                                         (3) WriteTables  (4 muxerdata) WriteData  (5 packet) WritePacket
// observation: per call (code n bytes state writes): code -1 ok / error code / -2 panic; n the returned int; bytes what the
//              writer accepted during the call; state = VerifState() after the call (see coq/Extract/RunMux.v); writes = the
//              length of every io.Writer.Write call of the call, in order (the structure C18 injects failures into).

const (
	opAdd = iota
	opRemove
	opSetPCR
	opTables
	opData
	opPacket
)

type muxOp struct {
	kind int
	es   *astits.PMTElementaryStream
	pid  uint16
	d    *astits.MuxerData
	p    *astits.Packet
}

func (o muxOp) tok() Tok {
	switch o.kind {
	case opAdd:
		return L(I(opAdd), ToTok(*o.es))
	case opRemove, opSetPCR:
		return L(I(int64(o.kind)), I(int64(o.pid)))
	case opTables:
		return L(I(opTables))
	case opData:
		return L(I(opData), ToTok(*o.d))
	}
	return L(I(opPacket), ToTok(*o.p))
}

// muxOpOf decodes an operation; every call builds fresh structs (WriteData mutates its argument).
func muxOpOf(t Tok) muxOp {
	o := muxOp{kind: int(t.At(0).Int())}
	switch o.kind {
	case opAdd:
		o.es = &astits.PMTElementaryStream{}
		FromTok(t.At(1), o.es)
	case opRemove, opSetPCR:
		o.pid = uint16(t.At(1).Uint())
	case opTables:
	case opData:
		o.d = &astits.MuxerData{}
		FromTok(t.At(1), o.d)
	default:
		o.kind = opPacket
		o.p = &astits.Packet{}
		FromTok(t.At(1), o.p)
	}
	return o
}

func muxCaseTok(period int, ops []muxOp) Tok {
	ts := make([]Tok, len(ops))
	for i, o := range ops {
		ts[i] = o.tok()
	}
	return L(I(int64(period)), L(ts...))
}

func muxCaseOf(c Tok) (int, []muxOp) {
	var ops []muxOp
	for _, t := range c.At(1).L {
		ops = append(ops, muxOpOf(t))
	}
	return int(c.At(0).Int()), ops
}

type muxCall struct {
	code  int64
	n     int
	bytes []byte
	st    astits.VerifMuxerState
	lens  []int // length of every io.Writer.Write call made during the call
}

// runMux runs a history on a fresh Muxer writing into a sinkWriter that never fails.
func runMux(period int, ops []muxOp) []muxCall {
	w := &sinkWriter{failAt: -1}
	m := astits.NewMuxer(context.Background(), w, astits.MuxerOptTablesRetransmitPeriod(period))
	calls := make([]muxCall, 0, len(ops))
	reused := map[uint16]*astits.PESOptionalHeader{}
	reusedAF := map[uint16]*astits.PacketAdaptationField{}
	for _, o := range ops {
		before := len(w.accepted)
		callsBefore := len(w.lens)
		c := muxCall{}
		func() {
			defer func() {
				if r := recover(); r != nil {
					c.code, c.n = -2, 0
				}
			}()
			var err error
			switch o.kind {
			case opAdd:
				err = m.AddElementaryStream(*o.es)
			case opRemove:
				err = m.RemoveElementaryStream(o.pid)
			case opSetPCR:
				m.SetPCRPID(o.pid)
			case opTables:
				c.n, err = m.WriteTables()
			case opData:
				// the caller re-uses one PESOptionalHeader struct per PID from call to call, as an application filling
				// in a template would: same pointer, new content (the history's own structs stay untouched)
				d := o.d
				if d != nil && d.PES != nil && d.PES.Header != nil && d.PES.Header.OptionalHeader != nil {
					ph := reused[d.PID]
					if ph == nil {
						ph = &astits.PESOptionalHeader{}
						reused[d.PID] = ph
					}
					*ph = *d.PES.Header.OptionalHeader
					h2 := *d.PES.Header
					h2.OptionalHeader = ph
					pes2 := *d.PES
					pes2.Header = &h2
					d2 := *d
					d2.PES = &pes2
					d = &d2
				}
				// likewise one PacketAdaptationField struct per PID: the content is the history's, except that the two
				// members WriteData itself uses and resets (StuffingLength, IsOneByteStuffing: S1) are left as the
				// previous SUCCESSFUL call left them
				if d != nil && d.AdaptationField != nil && d.AdaptationField.StuffingLength == 0 && !d.AdaptationField.IsOneByteStuffing {
					pa := reusedAF[d.PID]
					if pa == nil {
						pa = &astits.PacketAdaptationField{}
						reusedAF[d.PID] = pa
					}
					sl, ob := pa.StuffingLength, pa.IsOneByteStuffing
					*pa = *d.AdaptationField
					pa.StuffingLength, pa.IsOneByteStuffing = sl, ob
					d2 := *d
					d2.AdaptationField = pa
					d = &d2
				}
				c.n, err = m.WriteData(d)
				if err != nil && d != nil && d.AdaptationField != nil && reusedAF[d.PID] == d.AdaptationField {
					// the documented contract resets StuffingLength after a SUCCESSFUL call only: after a failed one the
					// caller resets the writer-internal members itself before using the struct again
					d.AdaptationField.StuffingLength, d.AdaptationField.IsOneByteStuffing = 0, false
				}
			case opPacket:
				c.n, err = m.WritePacket(o.p)
			}
			c.code = errCode(err)
		}()
		c.bytes = append([]byte{}, w.accepted[before:]...)
		c.lens = append([]int{}, w.lens[callsBefore:]...)
		c.st = m.VerifState()
		calls = append(calls, c)
	}
	return calls
}

func u16sTok(v []uint16) Tok {
	ts := make([]Tok, len(v))
	for i, x := range v {
		ts[i] = I(int64(x))
	}
	return L(ts...)
}
func intsTok(v []int) Tok {
	ts := make([]Tok, len(v))
	for i, x := range v {
		ts[i] = I(int64(x))
	}
	return L(ts...)
}

func muxStateTok(s astits.VerifMuxerState) Tok {
	return L(I(int64(s.PATCC)), I(int64(s.PMTCC)), I(int64(s.PATVersion)), I(int64(s.PMTVersion)), Bool(s.PMUpdated), Bool(s.PMTUpdated),
		I(int64(s.NextPID)), I(int64(s.RetransmitCounter)), I(int64(s.RetransmitPeriod)), u16sTok(s.ESPIDs), intsTok(s.ESCCs), u16sTok(s.PMTPIDs),
		I(int64(s.PCRPID)))
}

func muxObservation(calls []muxCall) Tok {
	ts := make([]Tok, len(calls))
	for i, c := range calls {
		ts[i] = L(I(c.code), I(int64(c.n)), B(c.bytes), muxStateTok(c.st), intsTok(c.lens))
	}
	return L(ts...)
}

// muxCallsOf reads an observation back (the oracles judge the implementation's observation).
func muxCallsOf(obs Tok) []muxCall {
	var out []muxCall
	for _, t := range obs.L {
		c := muxCall{code: t.At(0).Int(), n: int(t.At(1).Int()), bytes: t.At(2).Bytes()}
		s := t.At(3)
		c.st.PATCC, c.st.PMTCC, c.st.PATVersion, c.st.PMTVersion = int(s.At(0).Int()), int(s.At(1).Int()), int(s.At(2).Int()), int(s.At(3).Int())
		c.st.PMUpdated, c.st.PMTUpdated = s.At(4).IsTrue(), s.At(5).IsTrue()
		c.st.NextPID = uint16(s.At(6).Uint())
		c.st.RetransmitCounter, c.st.RetransmitPeriod = int(s.At(7).Int()), int(s.At(8).Int())
		for _, x := range s.At(9).L {
			c.st.ESPIDs = append(c.st.ESPIDs, uint16(x.Uint()))
		}
		for _, x := range s.At(10).L {
			c.st.ESCCs = append(c.st.ESCCs, int(x.Int()))
		}
		for _, x := range s.At(11).L {
			c.st.PMTPIDs = append(c.st.PMTPIDs, uint16(x.Uint()))
		}
		c.st.PCRPID = uint16(s.At(12).Uint())
		out = append(out, c)
	}
	return out
}

// muxProp is one of the three Muxer properties: same runner, own generator mix and oracle.
type muxProp struct {
	num    int
	gen    func(r *Rng, tier string, emit func(string, Tok))
	oracle func(period int, ops []muxOp, calls []muxCall) string
}

func (p muxProp) Num() int                                        { return p.num }
func (p muxProp) Gen(r *Rng, tier string, emit func(string, Tok)) { p.gen(r, tier, emit) }
func (p muxProp) Run(c Tok) Tok {
	period, ops := muxCaseOf(c)
	return muxObservation(runMux(period, ops))
}
func (p muxProp) Oracle(c Tok, obs Tok) string {
	period, ops := muxCaseOf(c)
	calls := muxCallsOf(obs)
	if len(calls) != len(ops) {
		return fmt.Sprintf("%d observations for %d operations", len(calls), len(ops))
	}
	return p.oracle(period, ops, calls)
}

// Nontrivial: some call succeeded and handed packets to the writer.
func (p muxProp) Nontrivial(c Tok, obs Tok) bool {
	for _, t := range obs.L {
		if t.At(0).Int() == -1 && len(t.At(2).Bytes()) > 0 {
			return true
		}
	}
	return false
}

// ---------------- domain predicates shared by the oracles ----------------

// reservedPID: PIDs an elementary stream cannot use without colliding with PSI/SI, the PMT or null packets
// (DESIGN.md S2), or that do not fit the 13-bit field.
func reservedPID(pid uint16) bool {
	return pid <= 0x1f || pid == 0x1000 || pid >= 0x1fff
}

// muxDataInDomain: the MuxerData is one the property quantifies over: PES and header present, a header the writer
// supports, writer-internal adaptation field members at their zero value (S1), nothing nil behind a flag.
func muxDataInDomain(d *astits.MuxerData) bool {
	if d.PES == nil || d.PES.Header == nil || len(d.PES.Data) == 0 {
		return false
	}
	h := d.PES.Header
	sid := h.StreamID
	if sid != 0 {
		if !c12WritableHeader(h) {
			return false
		}
	} else if h.OptionalHeader == nil || !c12WritableOpt(h.OptionalHeader) {
		return false // the stream id filled in from the stream type always carries an optional header
	}
	if af := d.AdaptationField; af != nil {
		if af.StuffingLength != 0 || af.IsOneByteStuffing {
			return false
		}
		if !afPointersOK(af) {
			return false
		}
	}
	return true
}

func afPointersOK(af *astits.PacketAdaptationField) bool {
	if af.HasPCR && af.PCR == nil || af.HasOPCR && af.OPCR == nil {
		return false
	}
	if af.HasAdaptationExtensionField {
		e := af.AdaptationExtensionField
		if e == nil || e.HasSeamlessSplice && e.DTSNextAccessUnit == nil {
			return false
		}
	}
	return true
}

// afSize: encoded size of a caller's adaptation field including the length byte (independent of the library).
func afSize(af *astits.PacketAdaptationField) int {
	if af == nil {
		return 0
	}
	if af.IsOneByteStuffing {
		return 1
	}
	n := 2
	if af.HasPCR {
		n += 6
	}
	if af.HasOPCR {
		n += 6
	}
	if af.HasSplicingCountdown {
		n++
	}
	if af.HasTransportPrivateData {
		n += 1 + len(af.TransportPrivateData)
	}
	if af.HasAdaptationExtensionField && af.AdaptationExtensionField != nil {
		e := af.AdaptationExtensionField
		n += 2
		if e.HasLegalTimeWindow {
			n += 2
		}
		if e.HasPiecewiseRate {
			n += 3
		}
		if e.HasSeamlessSplice {
			n += 5
		}
	}
	return n + af.StuffingLength
}

// ---------------- generators ----------------

var muxStreamTypes = []astits.StreamType{
	astits.StreamTypeH264Video, astits.StreamTypeH265Video, astits.StreamTypeMPEG2Video, astits.StreamTypeMPEG1Video,
	astits.StreamTypeAACAudio, astits.StreamTypeMPEG2Audio, astits.StreamTypeAC3Audio, astits.StreamTypeEAC3Audio,
	astits.StreamTypeDIRACVideo, astits.StreamTypePrivateData, astits.StreamTypeMetadata, astits.StreamTypeSCTE35,
	astits.StreamTypeAACLATMAudio, astits.StreamTypeVC1Video, astits.StreamTypeCAVSVideo, astits.StreamTypePrivateSection,
	astits.StreamTypeMPEG4Video, astits.StreamTypeDTSAudio,
}

// muxGen tracks what a history has configured so far, so that most generated operations are valid.
type muxGen struct {
	r       *Rng
	tier    string
	pids    []uint16 // PIDs added and not removed (as far as the generator can tell)
	next    uint16
	pcr     uint16
	ops     []muxOp
	maxData int
}

func newMuxGen(r *Rng, tier string) *muxGen {
	return &muxGen{r: r, tier: tier, next: 0x100, maxData: scale(tier, 20000, 200000)}
}

func (g *muxGen) has(pid uint16) bool {
	for _, p := range g.pids {
		if p == pid {
			return true
		}
	}
	return false
}

func (g *muxGen) freshPID() uint16 {
	for {
		var pid uint16
		switch g.r.Intn(4) {
		case 0:
			pid = uint16(g.r.Range(0x100, 0x110)) // the range automatic assignment walks through
		case 1:
			pid = uint16(g.r.Range(0x20, 0x1ffe))
		default:
			pid = uint16(g.r.Range(0x100, 0x1ffe))
		}
		if !reservedPID(pid) && !g.has(pid) {
			return pid
		}
	}
}

func (g *muxGen) anyPID() (uint16, bool) {
	if len(g.pids) == 0 {
		return 0, false
	}
	return g.pids[g.r.Intn(len(g.pids))], true
}

func (g *muxGen) unknownPID() uint16 {
	for {
		pid := uint16(g.r.Range(0x20, 0x1ffe))
		if g.r.Chance(1, 4) {
			pid = uint16(g.r.Bits(16))
		}
		if !g.has(pid) {
			return pid
		}
	}
}

func (g *muxGen) stream(pid uint16, descBudget int) *astits.PMTElementaryStream {
	es := &astits.PMTElementaryStream{ElementaryPID: pid}
	es.StreamType = muxStreamTypes[g.r.Intn(len(muxStreamTypes))]
	if g.r.Chance(1, 8) {
		es.StreamType = astits.StreamType(g.r.Bits(8))
	}
	switch {
	case descBudget > 60:
		es.ElementaryStreamDescriptors = psiFillDescs(g.r, descBudget)
	case descBudget > 0 && g.r.Chance(1, 3):
		es.ElementaryStreamDescriptors = psiGenDescs(g.r, descBudget)
	}
	// Descriptor.Length is filled in by the parser; the writers compute every length from the content, so a value left
	// over from an earlier parse (the descriptor was edited since) must not matter
	for _, d := range es.ElementaryStreamDescriptors {
		if g.r.Chance(1, 3) {
			d.Length = uint8(g.r.Intn(256))
		}
	}
	return es
}

func (g *muxGen) addExplicit(descBudget int) {
	pid := g.freshPID()
	g.ops = append(g.ops, muxOp{kind: opAdd, es: g.stream(pid, descBudget)})
	g.pids = append(g.pids, pid)
}

func (g *muxGen) addAuto(descBudget int) {
	g.ops = append(g.ops, muxOp{kind: opAdd, es: g.stream(0, descBudget)})
	for g.has(g.next) || g.next == 0x1000 {
		g.next++
	}
	g.pids = append(g.pids, g.next)
	g.next++
}

func (g *muxGen) addDuplicate() {
	if pid, ok := g.anyPID(); ok {
		g.ops = append(g.ops, muxOp{kind: opAdd, es: g.stream(pid, 20)})
	}
}

func (g *muxGen) remove(valid bool) {
	if pid, ok := g.anyPID(); ok && valid {
		g.ops = append(g.ops, muxOp{kind: opRemove, pid: pid})
		for i, p := range g.pids {
			if p == pid {
				g.pids = append(g.pids[:i:i], g.pids[i+1:]...)
				break
			}
		}
		return
	}
	g.ops = append(g.ops, muxOp{kind: opRemove, pid: g.unknownPID()})
}

func (g *muxGen) setPCR(valid bool) {
	if pid, ok := g.anyPID(); ok && valid {
		g.ops = append(g.ops, muxOp{kind: opSetPCR, pid: pid})
		g.pcr = pid
		return
	}
	pid := g.unknownPID()
	g.ops = append(g.ops, muxOp{kind: opSetPCR, pid: pid})
	g.pcr = pid
}

func (g *muxGen) tables() { g.ops = append(g.ops, muxOp{kind: opTables}) }

func (g *muxGen) drop(pid uint16) {
	g.ops = append(g.ops, muxOp{kind: opRemove, pid: pid})
	for i, p := range g.pids {
		if p == pid {
			g.pids = append(g.pids[:i:i], g.pids[i+1:]...)
			break
		}
	}
}

// reAdd: data on a PID, removal, the same PID added again (explicitly, or by automatic assignment when it is the one
// nextPID stands on), data again: the continuity counter carries on.
func (g *muxGen) reAdd() {
	r := g.r
	var pid uint16
	auto := false
	if !g.has(g.next) && g.next != 0x1000 && r.Bool() {
		// an explicit stream on the PID automatic assignment will hand out next
		pid, auto = g.next, true
		g.ops = append(g.ops, muxOp{kind: opAdd, es: g.stream(pid, 10)})
		g.pids = append(g.pids, pid)
	} else if p, ok := g.anyPID(); ok {
		pid = p
	} else {
		g.addExplicit(10)
		pid = g.pids[0]
	}
	for i := r.Range(1, 3); i > 0; i-- {
		g.data(pid, nil, r.Range(1, 900))
	}
	g.drop(pid)
	if r.Chance(1, 3) {
		g.data(pid, nil, r.Range(1, 300)) // rejected: the PID is gone
	}
	if r.Chance(1, 3) {
		if q, ok := g.anyPID(); ok {
			g.data(q, nil, r.Range(1, 300))
		}
	}
	if auto && g.next == pid {
		g.addAuto(10)
	} else {
		g.ops = append(g.ops, muxOp{kind: opAdd, es: g.stream(pid, 10)})
		g.pids = append(g.pids, pid)
	}
	if !g.has(g.pcr) {
		g.setPCR(true)
	}
	for i := r.Range(1, 3); i > 0; i-- {
		g.data(pid, nil, r.Range(1, 900))
	}
}

// muxReAddHistory: several remove / add-again rounds on a few PIDs.
func muxReAddHistory(r *Rng, tier string) (int, []muxOp) {
	g := newMuxGen(r, tier)
	period := r.Range(1, 20)
	for i := r.Range(1, 3); i > 0; i-- {
		if r.Bool() {
			g.addExplicit(10)
		} else {
			g.addAuto(10)
		}
	}
	g.setPCR(true)
	for i := r.Range(2, 6); i > 0; i-- {
		g.reAdd()
		if r.Chance(1, 4) {
			g.tables()
		}
	}
	return period, g.ops
}

// muxReAddAfterMany: data on a PID, removal, then n other streams added and removed (explicit and automatic PIDs,
// some with data in between), then the first PID added again and written: its counter carries on however many other
// removals lie in between (n around powers of two: a bounded memory of removed counters would forget it).
func muxReAddAfterMany(r *Rng, tier string, n int) (int, []muxOp) {
	g := newMuxGen(r, tier)
	g.addExplicit(0)
	pid := g.pids[0]
	g.setPCR(true)
	for i := r.Range(1, 3); i > 0; i-- {
		g.data(pid, nil, r.Range(1, 600))
	}
	keep := uint16(0)
	if r.Bool() {
		g.addExplicit(0)
		keep = g.pids[len(g.pids)-1]
		g.ops = append(g.ops, muxOp{kind: opSetPCR, pid: keep})
		g.pcr = keep
	}
	g.drop(pid)
	for i := 0; i < n; i++ {
		if r.Bool() {
			g.addExplicit(0)
		} else {
			g.addAuto(0)
		}
		q := g.pids[len(g.pids)-1]
		if q == pid { // automatic assignment handed out the PID under test: that is a re-addition, keep it out
			g.drop(q)
			continue
		}
		if r.Chance(1, 8) {
			if keep == 0 {
				g.ops = append(g.ops, muxOp{kind: opSetPCR, pid: q})
			}
			g.data(q, nil, r.Range(1, 200))
		}
		g.drop(q)
	}
	g.ops = append(g.ops, muxOp{kind: opAdd, es: g.stream(pid, 0)})
	g.pids = append(g.pids, pid)
	if !g.has(g.pcr) {
		g.setPCR(true)
	}
	for i := r.Range(1, 3); i > 0; i-- {
		g.data(pid, nil, r.Range(1, 600))
	}
	return r.Range(1, 50), g.ops
}

// muxSameShapeHeaders: consecutive units on one PID whose PES optional headers have the same flags (PTS, an extension
// with extension field 2) and differ only in values and in the LENGTH of the variable part (extension 2 bytes), as an
// application re-using one header struct produces them (runMux hands the library the same struct every time).
func muxSameShapeHeaders(r *Rng, tier string) (int, []muxOp) {
	g := newMuxGen(r, tier)
	g.addExplicit(0)
	pid := g.pids[0]
	g.setPCR(true)
	for i := r.Range(3, 8); i > 0; i-- {
		n := r.Range(1, 40)
		if r.Chance(1, 3) {
			n = []int{1, 2, 39, 40}[r.Intn(4)]
		}
		h := &astits.PESHeader{OptionalHeader: &astits.PESOptionalHeader{MarkerBits: 2, PTSDTSIndicator: astits.PTSDTSIndicatorOnlyPTS, PTS: genCR(r, 0),
			HasExtension: true, HasExtension2: true, Extension2Data: r.Bytes(n), Extension2Length: uint8(n)}}
		g.ops = append(g.ops, muxOp{kind: opData, d: &astits.MuxerData{PID: pid, PES: &astits.PESData{Header: h, Data: r.Bytes(r.Range(1, 400))}}})
	}
	return r.Range(1, 20), g.ops
}

// muxPayloadSize draws from {1, 2, k*184-d, 65520..65560, random}.
func (g *muxGen) payloadSize() int {
	r := g.r
	switch r.Intn(20) {
	case 0:
		return 1
	case 1:
		return 2
	case 2, 3, 4, 5, 6, 7:
		n := r.Range(1, 6)*184 - r.Range(-20, 20)
		if n < 1 {
			n = 1
		}
		return n
	case 8:
		if r.Chance(1, 3) {
			return r.Range(65520, 65560)
		}
		if g.maxData > 20000 && !r.Chance(1, 8) {
			return r.Range(1, 20000)
		}
		return r.Range(1, g.maxData)
	case 9, 10:
		return r.Range(1, 3000)
	default:
		return r.Range(1, 400)
	}
}

// pesHeader: a header the writer supports: stream id 0 (filled in from the stream type) or explicit, every subset of
// the writable optional header flags; ids without an optional header now and then.
func (g *muxGen) pesHeader() *astits.PESHeader {
	r := g.r
	h := &astits.PESHeader{}
	switch r.Intn(8) {
	case 0:
		h.StreamID = []uint8{0xbe, 0xbf}[r.Intn(2)]
		return h
	case 1, 2, 3:
		h.StreamID = 0
	default:
		h.StreamID = c12GenSID(r)
		for !c12WritableHeader(&astits.PESHeader{StreamID: h.StreamID, OptionalHeader: &astits.PESOptionalHeader{MarkerBits: 2}}) {
			h.StreamID = c12GenSID(r)
		}
	}
	if r.Chance(1, 4) {
		h.OptionalHeader = &astits.PESOptionalHeader{MarkerBits: 2}
		if r.Bool() {
			h.OptionalHeader.PTSDTSIndicator = astits.PTSDTSIndicatorOnlyPTS
			h.OptionalHeader.PTS = genCR(r, 0)
		}
	} else {
		h.OptionalHeader = c12GenOptRandom(r, true)
	}
	return h
}

// firstAF: adaptation field of the first packet. mode 0 ordinary (fits with the PES header most of the time),
// 1 large private data so that no room is left for the PES header (adaptation-field-only packet),
// 2 does not fit a packet at all (185..256 bytes), 3 longer than 256 bytes (the uint8 length wraps).
func (g *muxGen) firstAF(mode int, rai int) *astits.PacketAdaptationField {
	r := g.r
	var af *astits.PacketAdaptationField
	switch mode {
	case 0:
		af = genAF(r, r.Range(2, 120))
	case 1:
		af = genAF(r, 12)
		af.HasTransportPrivateData, af.TransportPrivateData, af.TransportPrivateDataLength = false, nil, 0
		n := r.Range(150, 183-afSize(af))
		af.HasTransportPrivateData = true
		af.TransportPrivateData = r.Bytes(n)
		af.TransportPrivateDataLength = n
	case 2:
		af = &astits.PacketAdaptationField{HasTransportPrivateData: true}
		n := r.Range(182, 253)
		af.TransportPrivateData = r.Bytes(n)
		af.TransportPrivateDataLength = n
	default:
		af = &astits.PacketAdaptationField{HasTransportPrivateData: true}
		n := r.Range(254, 700)
		if r.Bool() {
			n = r.Range(254, 262)
		}
		af.TransportPrivateData = r.Bytes(n)
		af.TransportPrivateDataLength = n
	}
	switch rai {
	case 0:
		af.RandomAccessIndicator = false
	case 1:
		af.RandomAccessIndicator = true
	}
	return af
}

func (g *muxGen) data(pid uint16, af *astits.PacketAdaptationField, size int) {
	d := &astits.MuxerData{PID: pid, AdaptationField: af, PES: &astits.PESData{Header: g.pesHeader(), Data: g.r.Bytes(size)}}
	g.ops = append(g.ops, muxOp{kind: opData, d: d})
}

// writeData appends a WriteData with the usual mix of arguments.
func (g *muxGen) writeData() {
	r := g.r
	pid, ok := g.anyPID()
	if !ok || r.Chance(1, 25) {
		pid = g.unknownPID()
	}
	var af *astits.PacketAdaptationField
	switch r.Intn(12) {
	case 0, 1, 2, 3:
		af = g.firstAF(0, 2)
	case 4:
		af = g.firstAF(1, 2)
	case 5:
		if r.Bool() {
			af = g.firstAF(2, 2)
		} else {
			af = g.firstAF(3, 2)
		}
	case 6:
		// random access point on the PCR PID: forces the tables
		if g.has(g.pcr) {
			pid = g.pcr
		}
		af = g.firstAF(0, 1)
	}
	g.data(pid, af, g.payloadSize())
}

func (g *muxGen) writePacket() {
	r := g.r
	p := genPacket(r)
	switch r.Intn(8) {
	case 0: // oversize payload
		p.Payload = r.Bytes(len(p.Payload) + r.Range(1, 40))
	case 1: // shorter: trailing 0xFF
		if len(p.Payload) > 1 {
			p.Payload = p.Payload[:r.Intn(len(p.Payload))]
		}
	case 2: // header only (adaptation_field_control 00)
		p.Header.HasAdaptationField, p.Header.HasPayload, p.AdaptationField, p.Payload = false, false, nil, nil
	case 3: // oversize adaptation field
		p.Header.HasAdaptationField = true
		n := r.Range(170, 300)
		p.AdaptationField = &astits.PacketAdaptationField{HasTransportPrivateData: true, TransportPrivateData: r.Bytes(n), TransportPrivateDataLength: n}
	case 4: // negative stuffing / inconsistent private data length
		if p.AdaptationField != nil && !p.AdaptationField.IsOneByteStuffing {
			if r.Bool() {
				p.AdaptationField.StuffingLength = -r.Range(1, 5)
			} else {
				p.AdaptationField.HasTransportPrivateData = true
				p.AdaptationField.TransportPrivateDataLength = r.Intn(3)
			}
		}
	case 5: // adaptation field flagged but nil: writePacket panics before writing anything
		if r.Chance(1, 4) {
			p.Header.HasAdaptationField, p.AdaptationField = true, nil
		}
	}
	if pid, ok := g.anyPID(); ok && r.Chance(1, 3) {
		p.Header.PID = pid
	}
	g.ops = append(g.ops, muxOp{kind: opPacket, p: p})
}

// muxHistory: a random history of about n operations over 1..8 streams.
func muxHistory(r *Rng, tier string, n int) (int, []muxOp) {
	g := newMuxGen(r, tier)
	period := r.Range(1, 50)
	if r.Chance(1, 3) {
		period = r.Range(1, 4)
	}
	streams := r.Range(1, 8)
	for i := 0; i < streams; i++ {
		if r.Bool() {
			g.addExplicit(30)
		} else {
			g.addAuto(30)
		}
	}
	if r.Chance(9, 10) {
		g.setPCR(true)
	}
	for len(g.ops) < n {
		switch k := r.Intn(100); {
		case k < 55:
			g.writeData()
		case k < 62:
			g.tables()
		case k < 68:
			g.writePacket()
		case k < 73:
			g.addExplicit(30)
		case k < 78:
			g.addAuto(30)
		case k < 80:
			g.addDuplicate()
		case k < 83:
			g.reAdd()
		case k < 86:
			g.remove(r.Chance(4, 5))
		case k < 93:
			g.setPCR(r.Chance(4, 5))
		default:
			// content change followed by data: a version step that is observed
			g.setPCR(true)
			g.writeData()
		}
	}
	return period, g.ops
}

// muxWrapHistory: one stream, many packets and many content changes: counter and version wrap-around.
func muxWrapHistory(r *Rng, tier string) (int, []muxOp) {
	g := newMuxGen(r, tier)
	period := r.Range(1, 6)
	g.addExplicit(0)
	if r.Bool() {
		g.addAuto(0)
	}
	g.setPCR(true)
	changes := r.Range(33, 45)
	for i := 0; i < changes; i++ {
		switch r.Intn(3) {
		case 0:
			g.setPCR(true)
		case 1:
			g.addAuto(0)
		default:
			if len(g.pids) > 1 {
				g.remove(true)
				if !g.has(g.pcr) {
					g.setPCR(true)
				}
			} else {
				g.addExplicit(0)
			}
		}
		if r.Chance(2, 3) {
			pid, _ := g.anyPID()
			g.data(pid, nil, r.Range(1, 700))
		} else {
			g.tables()
		}
	}
	return period, g.ops
}

// muxBigPMT: 40+ streams or long descriptors, so that the PMT does not fit one packet; then removals until it fits.
func muxBigPMT(r *Rng, tier string) (int, []muxOp) {
	g := newMuxGen(r, tier)
	period := r.Range(1, 5)
	g.addExplicit(0)
	g.setPCR(true)
	first := g.pids[0]
	g.data(first, nil, r.Range(1, 300))
	if r.Bool() {
		for i := r.Range(33, 45); i > 0; i-- {
			if r.Bool() {
				g.addAuto(0)
			} else {
				g.addExplicit(0)
			}
		}
	} else {
		g.addExplicit(r.Range(120, 400))
		g.addAuto(r.Range(61, 200))
	}
	g.tables()
	g.data(first, nil, r.Range(1, 300))
	g.data(first, g.firstAF(0, 1), r.Range(1, 300))
	for len(g.pids) > 3 {
		g.remove(true)
		if !g.has(g.pcr) {
			g.setPCR(true)
		}
		if r.Chance(1, 4) {
			pid, _ := g.anyPID()
			g.data(pid, nil, r.Range(1, 300))
		}
	}
	g.tables()
	pid, _ := g.anyPID()
	g.data(pid, nil, r.Range(1, 300))
	return period, g.ops
}

// descsOfSize: descriptors whose encoding is exactly x bytes (x = 0 or x >= 2).
func descsOfSize(r *Rng, x int) []*astits.Descriptor {
	var out []*astits.Descriptor
	for x > 0 {
		n := x
		if n > 257 {
			n = 257
		}
		if x-n == 1 {
			n--
		}
		d := &astits.Descriptor{Tag: uint8(0x80 + r.Intn(0x7f)), Length: uint8(n - 2)}
		if n > 2 {
			d.UserDefined = r.Bytes(n - 2)
		}
		out = append(out, d)
		x -= n
	}
	return out
}

// muxPMTBody: streams whose PMT body (4 + sum of 5 + descriptors) is exactly target bytes: 65536 makes the uint16
// section length wrap to 0, 1013..2000 is just above what a section may hold; all must be rejected.
func muxPMTBody(r *Rng, tier string, target int) (int, []muxOp) {
	g := newMuxGen(r, tier)
	rest := target - 4
	add := func(n int) {
		es := g.stream(0, 0)
		if r.Bool() {
			es.ElementaryPID = g.freshPID()
			g.pids = append(g.pids, es.ElementaryPID)
			g.ops = append(g.ops, muxOp{kind: opAdd, es: es})
		} else {
			g.addAuto(0)
			es = g.ops[len(g.ops)-1].es
		}
		es.ElementaryStreamDescriptors = descsOfSize(r, n-5)
		rest -= n
	}
	for rest > 1200 {
		add(5 + 4*257)
	}
	for rest > 1033 || rest == 6 {
		add(57)
	}
	if rest >= 5 {
		add(rest)
	}
	g.setPCR(true)
	g.tables()
	pid, _ := g.anyPID()
	g.data(pid, nil, r.Range(1, 300))
	g.data(pid, g.firstAF(0, 1), r.Range(1, 300))
	for i := 0; i < 3 && len(g.pids) > 1; i++ {
		g.remove(true)
	}
	if !g.has(g.pcr) {
		g.setPCR(true)
	}
	g.tables()
	return r.Range(1, 3), g.ops
}

// muxPMTCapacity: tables are emitted, then streams are added until the PMT body (4 + sum of 5 + descriptors) is
// exactly target bytes — 171 is the largest body that fits the single packet the muxer writes a PMT into — then k
// calls that need the tables (they fail when the body is too large), then a stream is removed and the tables are
// written again: version numbers must have moved by exactly one per content change, however many attempts failed.
func muxPMTCapacity(r *Rng, tier string, target int) (int, []muxOp) {
	g := newMuxGen(r, tier)
	g.addExplicit(0)
	g.setPCR(true)
	first := g.pids[0]
	g.tables()
	g.data(first, nil, r.Range(1, 300))
	rest := target - 4 - 5
	for rest >= 5 {
		n := 5
		switch {
		case rest >= 12 && r.Chance(1, 3):
			n = 5 + r.Range(2, 7)
		case rest < 10:
			n = rest
		}
		if rest-n > 0 && rest-n < 5 {
			n = rest
		}
		if n == 6 {
			n = 5
			if rest == 6 {
				break
			}
		}
		if r.Bool() {
			g.addAuto(0)
		} else {
			g.addExplicit(0)
		}
		g.ops[len(g.ops)-1].es.ElementaryStreamDescriptors = descsOfSize(r, n-5)
		rest -= n
		if rest == 6 {
			break
		}
	}
	for k := r.Range(1, 34); k > 0; k-- {
		if r.Bool() {
			g.tables()
		} else {
			g.data(first, g.firstAF(0, 1), r.Range(1, 300))
		}
	}
	for i := r.Range(1, 2); i > 0 && len(g.pids) > 1; i-- {
		g.remove(true)
	}
	if !g.has(g.pcr) {
		g.setPCR(true)
	}
	g.tables()
	pid, _ := g.anyPID()
	g.data(pid, nil, r.Range(1, 300))
	return r.Range(1, 3), g.ops
}

// muxManyPackets: more than 16 packets per PID in several calls, interleaved over PIDs, with failing calls in between.
func muxManyPackets(r *Rng, tier string) (int, []muxOp) {
	g := newMuxGen(r, tier)
	period := r.Range(1, 50)
	n := r.Range(1, 4)
	for i := 0; i < n; i++ {
		if r.Bool() {
			g.addExplicit(10)
		} else {
			g.addAuto(10)
		}
	}
	g.setPCR(true)
	for i := r.Range(6, 20); i > 0; i-- {
		pid, _ := g.anyPID()
		switch r.Intn(10) {
		case 0:
			g.setPCR(false) // the next tables fail: invalid PCR PID
			g.tables()
			g.data(pid, nil, r.Range(1, 400))
			g.setPCR(true)
		case 1:
			g.data(pid, g.firstAF(1, 2), r.Range(1, 600))
		case 2:
			g.data(pid, g.firstAF(2+r.Intn(2), 2), r.Range(1, 600))
		case 3:
			g.data(g.unknownPID(), nil, r.Range(1, 600))
		default:
			g.data(pid, nil, r.Range(184, 184*40))
		}
	}
	return period, g.ops
}

// muxOutOfDomain: arguments outside the property's domain (correspondence only; the oracles skip what depends on the
// domain): reserved explicit PIDs, nil PES / header, writer-internal adaptation field members set by the caller,
// unsupported stream ids, adaptation_field members inconsistent with each other.
func muxOutOfDomain(r *Rng, tier string) (int, []muxOp) {
	g := newMuxGen(r, tier)
	period := r.Range(1, 6)
	odd := []uint16{0, 1, 0x10, 0x1f, 0x1000, 0x1fff, 0x2000, 0x2100, 0xffff, 0x11}
	for i := r.Range(1, 4); i > 0; i-- {
		pid := odd[r.Intn(len(odd))]
		if pid != 0 && !g.has(pid) {
			g.ops = append(g.ops, muxOp{kind: opAdd, es: g.stream(pid, 10)})
			g.pids = append(g.pids, pid)
		} else {
			g.addAuto(10)
		}
	}
	g.setPCR(true)
	for i := r.Range(3, 12); i > 0; i-- {
		pid, _ := g.anyPID()
		switch r.Intn(10) {
		case 0:
			g.ops = append(g.ops, muxOp{kind: opData, d: &astits.MuxerData{PID: pid}})
		case 1:
			g.ops = append(g.ops, muxOp{kind: opData, d: &astits.MuxerData{PID: pid, PES: &astits.PESData{Data: r.Bytes(r.Intn(3) * 100)}}})
		case 2:
			af := g.firstAF(0, 2)
			af.StuffingLength = r.Range(-3, 30)
			g.data(pid, af, g.payloadSize())
		case 3:
			g.data(pid, &astits.PacketAdaptationField{IsOneByteStuffing: true, RandomAccessIndicator: r.Bool()}, g.payloadSize())
		case 4:
			g.ops = append(g.ops, muxOp{kind: opData, d: &astits.MuxerData{PID: pid, PES: &astits.PESData{Header: g.pesHeader()}}})
		case 5:
			af := g.firstAF(0, 2)
			af.HasTransportPrivateData = true
			af.TransportPrivateDataLength = r.Intn(4)
			g.data(pid, af, g.payloadSize())
		case 6:
			g.tables()
		case 7:
			// a hand-made packet whose adaptation field extension carries field values wider than their bit fields
			// (piecewise rate above 22 bits, legal time window offset above 15 bits), then ordinary packets
			e := &astits.PacketAdaptationExtensionField{HasPiecewiseRate: true, PiecewiseRate: 0x400000 | uint32(r.Bits(24)), HasLegalTimeWindow: r.Bool(),
				LegalTimeWindowOffset: 0x8000 | uint16(r.Bits(15)), Length: 6}
			if !e.HasLegalTimeWindow {
				e.Length = 4
			}
			af := &astits.PacketAdaptationField{HasAdaptationExtensionField: true, AdaptationExtensionField: e}
			used := 4 + 1 + 1 + e.Length + 1
			p := &astits.Packet{Header: astits.PacketHeader{PID: pid, HasAdaptationField: true, HasPayload: true, ContinuityCounter: uint8(r.Intn(16))},
				AdaptationField: af, Payload: r.Bytes(188 - used)}
			g.ops = append(g.ops, muxOp{kind: opPacket, p: p})
			g.writePacket()
		default:
			g.data(pid, nil, g.payloadSize())
		}
	}
	return period, g.ops
}

// muxAutoSweep: automatic additions (each removed again, so the state stays small) until nextPID has passed target,
// with explicit streams placed around pmtStartPID; then tables and data on what is left.
func muxAutoSweep(r *Rng, tier string, target int) (int, []muxOp) {
	g := newMuxGen(r, tier)
	for _, pid := range []uint16{0xffe, 0xfff, 0x1001, 0x1003, 0x105} {
		g.ops = append(g.ops, muxOp{kind: opAdd, es: g.stream(pid, 0)})
		g.pids = append(g.pids, pid)
	}
	for i := 0; i < target; i++ {
		g.addAuto(0)
		pid := g.pids[len(g.pids)-1]
		if pid&0xfff > 8 && pid&0xfff < 0xff8 {
			g.ops = append(g.ops, muxOp{kind: opRemove, pid: pid})
			g.pids = g.pids[:len(g.pids)-1]
		}
		if len(g.pids) > 40 {
			g.remove(true)
		}
	}
	// keep the streams next to the PMT PID (those the sweep just passed), write a unit on every stream left
	near := func(pid uint16) bool { return pid&0xfff <= 8 || pid&0xfff >= 0xff8 }
	for i := 0; i < len(g.pids) && len(g.pids) > 20; {
		if near(g.pids[i]) {
			i++
			continue
		}
		g.drop(g.pids[i])
	}
	for len(g.pids) > 20 {
		g.remove(true)
	}
	g.setPCR(true)
	g.tables()
	for _, pid := range append([]uint16{}, g.pids...) {
		if pid >= 0x20 && pid < 0x1fff && pid != 0x1000 { // units only on PIDs of the properties' domain (S2)
			g.data(pid, nil, 100)
		}
	}
	for len(g.pids) > 6 {
		g.remove(true)
	}
	if !g.has(g.pcr) {
		g.setPCR(true)
	}
	for _, pid := range g.pids {
		if pid >= 0x20 && pid < 0x1fff && pid != 0x1000 {
			g.data(pid, nil, 100)
			break
		}
	}
	return 3, g.ops
}

// the small alphabet of the bounded-exhaustive histories
func muxAlphabet(r *Rng) []func() muxOp {
	const e, a = 0x101, 0x100 // the explicit PID; the first automatic one
	payload := func(n int) []byte { return r.Bytes(n) }
	hdr := func() *astits.PESHeader {
		return &astits.PESHeader{OptionalHeader: &astits.PESOptionalHeader{MarkerBits: 2, PTSDTSIndicator: astits.PTSDTSIndicatorOnlyPTS, PTS: &astits.ClockReference{Base: 90000}}}
	}
	return []func() muxOp{
		func() muxOp {
			return muxOp{kind: opAdd, es: &astits.PMTElementaryStream{ElementaryPID: e, StreamType: astits.StreamTypeH264Video}}
		},
		func() muxOp {
			return muxOp{kind: opAdd, es: &astits.PMTElementaryStream{StreamType: astits.StreamTypeAACAudio}}
		},
		func() muxOp { return muxOp{kind: opRemove, pid: e} },
		func() muxOp { return muxOp{kind: opSetPCR, pid: e} },
		func() muxOp { return muxOp{kind: opSetPCR, pid: 0x333} },
		func() muxOp { return muxOp{kind: opTables} },
		func() muxOp {
			return muxOp{kind: opData, d: &astits.MuxerData{PID: e, PES: &astits.PESData{Header: hdr(), Data: payload(200)}}}
		},
		func() muxOp {
			return muxOp{kind: opData, d: &astits.MuxerData{PID: e, AdaptationField: &astits.PacketAdaptationField{RandomAccessIndicator: true, HasPCR: true, PCR: &astits.ClockReference{Base: 1, Extension: 2}},
				PES: &astits.PESData{Header: hdr(), Data: payload(30)}}}
		},
		func() muxOp {
			return muxOp{kind: opData, d: &astits.MuxerData{PID: a, PES: &astits.PESData{Header: hdr(), Data: payload(10)}}}
		},
		func() muxOp {
			return muxOp{kind: opPacket, p: &astits.Packet{Header: astits.PacketHeader{PID: 0x1ffe, HasPayload: true, ContinuityCounter: 7}, Payload: payload(184)}}
		},
	}
}

// muxExhaustive emits every history of the given length over the alphabet (shorter ones are their prefixes).
func muxExhaustive(r *Rng, length int, emit func(string, Tok)) {
	alpha := muxAlphabet(r)
	idx := make([]int, length)
	count := 0
	for {
		ops := make([]muxOp, length)
		for i, k := range idx {
			ops[i] = alpha[k]()
		}
		emit("exhaustive", muxCaseTok(1+count%3, ops))
		count++
		i := length - 1
		for ; i >= 0; i-- {
			idx[i]++
			if idx[i] < len(alpha) {
				break
			}
			idx[i] = 0
		}
		if i < 0 {
			break
		}
	}
	sweep(fmt.Sprintf("all %d histories of length %d over the %d-operation alphabet {Add explicit, Add auto, Remove, SetPCR valid/invalid, WriteTables, WriteData plain / RAI on the PCR PID / on the automatic PID, WritePacket}, periods 1..3", count, length, len(alpha)))
}

// muxGenAll is the generator mix shared by the three properties; the weights differ per property.
type muxMix struct {
	random, wrap, bigPMT, many, ood, readd int
	maxLen                                 int
	exhaustive                             int
	sweep                                  int // automatic additions of the nextPID sweep (0: none)
}

func muxGenAll(r *Rng, tier string, m muxMix, emit func(string, Tok)) {
	if m.exhaustive > 0 {
		muxExhaustive(r, m.exhaustive, emit)
	}
	if m.sweep > 0 {
		p, ops := muxAutoSweep(r, tier, m.sweep)
		emit("auto-pid-sweep", muxCaseTok(p, ops))
	}
	for i := 0; i < m.random; i++ {
		n := r.Range(3, m.maxLen)
		if r.Chance(1, 3) {
			n = r.Range(3, 15)
		}
		p, ops := muxHistory(r, tier, n)
		emit("random", muxCaseTok(p, ops))
	}
	for i := 0; i < m.wrap; i++ {
		p, ops := muxWrapHistory(r, tier)
		emit("wrap", muxCaseTok(p, ops))
	}
	for i := 0; i < m.bigPMT; i++ {
		p, ops := muxBigPMT(r, tier)
		emit("big-pmt", muxCaseTok(p, ops))
	}
	for i := 0; i < m.bigPMT/5+1; i++ {
		target := 65536
		if i > 0 {
			target = r.Range(1013, 2000)
		}
		p, ops := muxPMTBody(r, tier, target)
		emit("pmt-body-overflow", muxCaseTok(p, ops))
	}
	for i := 0; i < m.readd/4+2; i++ {
		p, ops := muxSameShapeHeaders(r, tier)
		emit("same-shape-headers", muxCaseTok(p, ops))
	}
	for i := 0; i < m.bigPMT/2+1; i++ {
		p, ops := muxPMTCapacity(r, tier, []int{171, 172, 172, 173, 170, 177, 184}[i%7])
		emit("pmt-capacity", muxCaseTok(p, ops))
	}
	for i := 0; i < m.readd; i++ {
		p, ops := muxReAddHistory(r, tier)
		emit("remove-add-again", muxCaseTok(p, ops))
	}
	for i := 0; i < m.readd/8+1; i++ {
		ns := []int{64, 256, 65, 257, 16, 32, 128, 512, 1024}
		if tier == "thorough" {
			ns = append(ns, 2048, 4096, 8192)
		}
		p, ops := muxReAddAfterMany(r, tier, ns[i%len(ns)]+r.Intn(3))
		emit("add-again-after-many-removals", muxCaseTok(p, ops))
	}
	for i := 0; i < m.many; i++ {
		p, ops := muxManyPackets(r, tier)
		emit("many-packets", muxCaseTok(p, ops))
	}
	for i := 0; i < m.ood; i++ {
		p, ops := muxOutOfDomain(r, tier)
		emit("out-of-domain", muxCaseTok(p, ops))
	}
}
