package main

import (
	"context"
	"errors"
	"fmt"
	"io"

	astits "github.com/asticode/go-astits"
)

// C18: failures of the underlying reader or writer are always surfaced.
//
//	(1 scenario)             demux scenario with a failing reader (demux.go / RunDemux.v)
//	(3 scenario cause)       the same, the reader's failure being an error that is not end of file but WRAPS io.EOF (cause 1) or
//	                         io.ErrUnexpectedEOF (cause 2), the way layered readers report a broken transfer; same model as (1 ...)
//	(2 period ops failAt oneShot)  muxer history with the failAt-th Write call failing (RunC18.v); oneShot is not part of
//	                         what the model sees: the history is observed up to the failing call only
type c18 struct{}

func init() { props["C18"] = c18{} }

func (c18) Num() int { return 18 }

// causeErr is a reader failure that is not end of file (package io: "Read must return EOF itself, not an error wrapping
// EOF") but has an io sentinel in its Unwrap chain.
type causeErr struct{ inner error }

func (e *causeErr) Error() string { return "verif: injected fault: " + e.inner.Error() }
func (e *causeErr) Unwrap() error { return e.inner }

// withCause runs f with the injected fault replaced by one that wraps io.EOF (1) or io.ErrUnexpectedEOF (2); the harness
// runs cases one after the other, so the package variable can be swapped for the duration of a case.
func withCause(cause int64, f func()) {
	if cause == 0 {
		f()
		return
	}
	old := errInjected
	if cause == 1 {
		errInjected = &causeErr{io.EOF}
	} else {
		errInjected = &causeErr{io.ErrUnexpectedEOF}
	}
	defer func() { errInjected = old }()
	f()
}

type faultCall struct {
	code     int64
	n        int
	accepted []byte
	total    int // bytes the writer accepted during the call, after the failure too (one-shot mode)
	wraps    bool
	panicked bool
}

// runMuxFault runs a history until the call during which the injected failure happens.
func runMuxFault(period int, ops []muxOp, failAt int, oneShot bool) []faultCall {
	w := &sinkWriter{failAt: failAt, oneShot: oneShot, atFail: -1}
	m := astits.NewMuxer(context.Background(), w, astits.MuxerOptTablesRetransmitPeriod(period))
	var calls []faultCall
	for _, o := range ops {
		before := len(w.accepted)
		c := faultCall{}
		var err error
		func() {
			defer func() {
				if r := recover(); r != nil {
					c.code, c.n, c.panicked = -2, 0, true
				}
			}()
			switch o.kind {
			case opAdd:
				err = m.AddElementaryStream(*o.es)
			case opRemove:
				err = m.RemoveElementaryStream(o.pid)
			case opSetPCR:
				m.SetPCRPID(o.pid)
			case opTables:
				c.n, err = m.WriteTables()
			case opData:
				c.n, err = m.WriteData(o.d)
			case opPacket:
				c.n, err = m.WritePacket(o.p)
			}
			c.code = errCode(err)
		}()
		c.total = len(w.accepted) - before
		if w.failed {
			c.accepted = append([]byte{}, w.accepted[before:w.atFail]...)
			c.wraps = errors.Is(err, errInjected)
			calls = append(calls, c)
			break
		}
		c.accepted = append([]byte{}, w.accepted[before:]...)
		calls = append(calls, c)
	}
	return calls
}

func (c18) Gen(r *Rng, tier string, emit func(string, Tok)) {
	// ---- reader side: every byte offset of small inputs as failure point, partial reads before it ----
	nr := scale(tier, 4, 20)
	for k := 0; k < nr; k++ {
		m := genRefStream(r, streamOpts{PESPIDs: r.Range(1, 2), UnitsPerPID: r.Range(1, 2), MaxPES: 300, Tables: true, SmallChunks: r.Bool()})
		data := m.bytes()
		if len(data) > 188*8 && tier != "thorough" {
			data = data[:188*8]
		}
		step := scale(tier, 5, 1)
		for off := 0; off <= len(data); off += step {
			if off > 400 && tier != "thorough" {
				step = 37
			}
			kind := r.Intn(3)
			opt := []int{188, 0}[r.Intn(2)]
			op := []int{3, 4}[r.Intn(2)]
			ch := []int{r.Range(1, 250)}
			emit("reader-fault", L(I(1), scenario{kind: kind, optSize: opt, fault: off, chunks: ch, data: data, ops: []int{op}}.tok()))
			// the same failure point with an error that wraps io.EOF / io.ErrUnexpectedEOF (not end of input: only io.EOF itself is)
			emit("reader-fault-wrapping-eof", L(I(1), scenario{kind: kind + 20*r.Range(1, 2), optSize: opt, fault: off, chunks: ch, data: data, ops: []int{op}}.tok()))
			// ... or a "closed" error of package os / net / io (a read on a closed source is a failure too)
			emit("reader-fault-wrapping-closed", L(I(1), scenario{kind: kind + 20*r.Range(3, 5), optSize: opt, fault: off, chunks: ch, data: data, ops: []int{op}}.tok()))
		}
		// inside the detection window, every offset, every reader kind
		for off := 0; off <= 200; off += scale(tier, 2, 1) {
			for kind := 0; kind < 3; kind++ {
				emit("reader-fault-detect", L(I(1), scenario{kind: kind + 20*(off%3), optSize: 0, fault: off, chunks: []int{r.Range(1, 64)}, data: data, ops: []int{[]int{3, 4}[r.Intn(2)]}}.tok()))
			}
		}
	}
	// ---- failures that wrap io.EOF / io.ErrUnexpectedEOF: still not end of file ----
	for k := 0; k < scale(tier, 2, 8); k++ {
		m := genRefStream(r, streamOpts{PESPIDs: r.Range(1, 2), UnitsPerPID: r.Range(1, 2), MaxPES: 300, Tables: true})
		data := m.bytes()
		if len(data) > 188*6 && tier != "thorough" {
			data = data[:188*6]
		}
		if len(data) > 188*12 {
			data = data[:188*12]
		}
		for off := 0; off <= len(data); off += scale(tier, 9, 2) {
			for kind := 0; kind < 3; kind++ {
				cause := int64(1 + r.Intn(2))
				opt := []int{188, 0}[r.Intn(2)]
				emit("reader-fault-wrapped-eof", L(I(3), scenario{kind: kind, optSize: opt, fault: off, chunks: []int{r.Range(1, 250)}, data: data,
					ops: []int{[]int{3, 4}[r.Intn(2)]}}.tok(), I(cause)))
			}
		}
	}
	// ---- calls after the failure: explicit NextPacket / NextData sequences that go on after the injected error
	// (C18_demux_fault_persistent, C18_demux_pointwise); the replacing PacketsParser leaves data in the data buffer ----
	for k := 0; k < scale(tier, 4, 20); k++ {
		m := genRefStream(r, streamOpts{PESPIDs: r.Range(1, 2), UnitsPerPID: r.Range(1, 3), MaxPES: 300, Tables: true, SmallChunks: r.Bool()})
		data := m.bytes()
		if len(data) > 188*10 && tier != "thorough" {
			data = data[:188*10]
		}
		for j := 0; j < scale(tier, 30, 120); j++ {
			off := r.Intn(len(data) + 1)
			if j%5 == 0 {
				off = r.Intn(200) // inside the detection window
				if off > len(data) {
					off = len(data)
				}
			}
			ops := make([]int, len(data)/188+6)
			for i := range ops {
				ops[i] = r.Intn(2)
			}
			prs := L(I(0))
			if r.Bool() {
				prs = L(I(4))
			}
			emit("reader-fault-after", L(I(1), scenario{kind: r.Intn(3), optSize: []int{188, 0}[r.Intn(2)], fault: off, chunks: []int{r.Range(1, 250)},
				prsSpec: prs, data: data, ops: ops}.tok()))
		}
	}
	// ---- writer side: every Write index as failure point, permanent and one-shot ----
	histories := [][]muxOp{}
	periods := []int{}
	addHistory := func(period int, ops []muxOp) { histories = append(histories, ops); periods = append(periods, period) }
	// payload sizes whose last packet needs 0, 1, 2 and many stuffing bytes, with and without a first-packet AF
	for _, size := range []int{184 - 14, 184 - 14 - 1, 184 - 14 - 2, 184 - 14 - 50, 2*184 - 14, 2*184 - 15, 2*184 - 16, 3*184 - 100, 10} {
		for _, withAF := range []bool{false, true} {
			g := newMuxGen(r, tier)
			g.addExplicit(0)
			pid := g.pids[0]
			g.ops = append(g.ops, muxOp{kind: opSetPCR, pid: pid})
			var af *astits.PacketAdaptationField
			if withAF {
				af = &astits.PacketAdaptationField{HasPCR: true, PCR: &astits.ClockReference{Base: 5, Extension: 7}, RandomAccessIndicator: true,
					HasTransportPrivateData: true, TransportPrivateData: r.Bytes(4), TransportPrivateDataLength: 4}
			}
			d := &astits.MuxerData{PID: pid, AdaptationField: af, PES: &astits.PESData{Data: r.Bytes(size), Header: &astits.PESHeader{StreamID: 0xc0,
				OptionalHeader: &astits.PESOptionalHeader{MarkerBits: 2, PTSDTSIndicator: astits.PTSDTSIndicatorOnlyPTS, PTS: &astits.ClockReference{Base: 90000}}}}}
			g.ops = append(g.ops, muxOp{kind: opData, d: d})
			g.tables()
			p := genPacket(r)
			g.ops = append(g.ops, muxOp{kind: opPacket, p: p})
			addHistory(r.Range(1, 3), g.ops)
		}
	}
	// a first-packet adaptation field so large that the PES header no longer fits beside it: the adaptation field goes
	// out in a packet of its own (no payload) before the unit starts; failure points inside that packet included
	for _, n := range []int{165, 170, 174} {
		g := newMuxGen(r, tier)
		g.addExplicit(0)
		pid := g.pids[0]
		g.ops = append(g.ops, muxOp{kind: opSetPCR, pid: pid})
		af := &astits.PacketAdaptationField{HasPCR: true, PCR: &astits.ClockReference{Base: 77, Extension: 1},
			HasTransportPrivateData: true, TransportPrivateData: r.Bytes(n), TransportPrivateDataLength: n}
		d := &astits.MuxerData{PID: pid, AdaptationField: af, PES: &astits.PESData{Data: r.Bytes(r.Range(1, 300)), Header: &astits.PESHeader{StreamID: 0xc0,
			OptionalHeader: &astits.PESOptionalHeader{MarkerBits: 2, PTSDTSIndicator: astits.PTSDTSIndicatorOnlyPTS, PTS: &astits.ClockReference{Base: 90000}}}}}
		g.ops = append(g.ops, muxOp{kind: opData, d: d})
		g.data(pid, nil, 50)
		addHistory(r.Range(2, 5), g.ops)
	}
	// every optional part of the adaptation field goes through the underlying writer: PCR, OPCR, splice countdown,
	// private data, and an extension with legal time window, piecewise rate and seamless splice (DTS_next_AU) -
	// in the first packet of a WriteData and in a WritePacket
	for _, size := range scaleList(tier, []int{3*184 - 100}, []int{10, 184, 3*184 - 100}) {
		fullAF := func() *astits.PacketAdaptationField {
			return &astits.PacketAdaptationField{
				HasPCR: true, PCR: &astits.ClockReference{Base: 5, Extension: 7}, RandomAccessIndicator: true,
				HasOPCR: true, OPCR: &astits.ClockReference{Base: 1 << 32, Extension: 299},
				HasSplicingCountdown: true, SpliceCountdown: 3,
				HasTransportPrivateData: true, TransportPrivateData: r.Bytes(3), TransportPrivateDataLength: 3,
				HasAdaptationExtensionField: true,
				AdaptationExtensionField: &astits.PacketAdaptationExtensionField{
					HasLegalTimeWindow: true, LegalTimeWindowIsValid: true, LegalTimeWindowOffset: 0x1234,
					HasPiecewiseRate: true, PiecewiseRate: 0x2abcde,
					HasSeamlessSplice: true, SpliceType: 5, DTSNextAccessUnit: &astits.ClockReference{Base: 1<<33 - 2},
				},
			}
		}
		g := newMuxGen(r, tier)
		g.addExplicit(0)
		pid := g.pids[0]
		g.ops = append(g.ops, muxOp{kind: opSetPCR, pid: pid})
		d := &astits.MuxerData{PID: pid, AdaptationField: fullAF(), PES: &astits.PESData{Data: r.Bytes(size), Header: &astits.PESHeader{StreamID: 0xe0,
			OptionalHeader: &astits.PESOptionalHeader{MarkerBits: 2, PTSDTSIndicator: astits.PTSDTSIndicatorBothPresent,
				PTS: &astits.ClockReference{Base: 90000}, DTS: &astits.ClockReference{Base: 86400}}}}}
		g.ops = append(g.ops, muxOp{kind: opData, d: d})
		g.ops = append(g.ops, muxOp{kind: opPacket, p: &astits.Packet{
			Header:          astits.PacketHeader{PID: 0x321, ContinuityCounter: 9, HasAdaptationField: true, HasPayload: true, PayloadUnitStartIndicator: true},
			AdaptationField: fullAF(), Payload: r.Bytes(size % 100)}})
		g.tables()
		addHistory(r.Range(1, 3), g.ops)
	}
	nCrafted := len(histories)
	for k := 0; k < scale(tier, 3, 30); k++ {
		period, ops := muxHistory(r, tier, r.Range(3, 6))
		addHistory(period, ops)
	}
	for hi, ops := range histories {
		period := periods[hi]
		// count the Write calls of the fault-free run
		w := &sinkWriter{failAt: -1}
		_ = w
		calls := runMuxFault(period, ops, -1, false)
		total := 0
		{
			ww := &sinkWriter{failAt: -1}
			m := astits.NewMuxer(context.Background(), ww, astits.MuxerOptTablesRetransmitPeriod(period))
			for _, o := range muxOpsCopy(ops) {
				func() {
					defer func() { recover() }()
					switch o.kind {
					case opAdd:
						m.AddElementaryStream(*o.es)
					case opRemove:
						m.RemoveElementaryStream(o.pid)
					case opSetPCR:
						m.SetPCRPID(o.pid)
					case opTables:
						m.WriteTables()
					case opData:
						m.WriteData(o.d)
					case opPacket:
						m.WritePacket(o.p)
					}
				}()
			}
			total = ww.calls
		}
		_ = calls
		step := 1
		crafted := hi < nCrafted
		if !crafted && total > 60 && tier != "thorough" {
			step = total/60 + 1
		}
		for k := 0; k < total; k += step {
			if crafted {
				// every Write index, permanent and one-shot
				emit("writer-fault-all", L(I(2), I(int64(period)), muxCaseTok(period, ops).At(1), I(int64(k)), Bool(false)))
				emit("writer-fault-all", L(I(2), I(int64(period)), muxCaseTok(period, ops).At(1), I(int64(k)), Bool(true)))
			} else {
				emit("writer-fault", L(I(2), I(int64(period)), muxCaseTok(period, ops).At(1), I(int64(k)), Bool(r.Bool())))
			}
		}
	}
}

func muxOpsCopy(ops []muxOp) []muxOp {
	out := make([]muxOp, len(ops))
	for i, o := range ops {
		out[i] = muxOpOf(o.tok())
	}
	return out
}

func (c18) Run(c Tok) Tok {
	switch c.At(0).Int() {
	case 1:
		return runScenario(scenarioOf(c.At(1))).observation()
	case 3:
		var obs Tok
		withCause(c.At(2).Int(), func() { obs = runScenario(scenarioOf(c.At(1))).observation() })
		return obs
	case 2:
		var ops []muxOp
		for _, t := range c.At(2).L {
			ops = append(ops, muxOpOf(t))
		}
		calls := runMuxFault(int(c.At(1).Int()), ops, int(c.At(3).Int()), c.At(4).IsTrue())
		out := make([]Tok, len(calls))
		for i, cl := range calls {
			out[i] = L(I(cl.code), I(int64(cl.n)), B(cl.accepted))
		}
		return L(out...)
	}
	return L()
}

func (c18) Oracle(c Tok, obs Tok) string {
	switch c.At(0).Int() {
	case 3:
		w := ""
		withCause(c.At(2).Int(), func() { w = c18{}.Oracle(L(I(1), c.At(1)), obs) })
		return w
	case 1:
		s := scenarioOf(c.At(1))
		run := runScenario(s)
		clean := s
		clean.fault = -1
		ref := runScenario(clean)
		single := len(s.ops) > 0
		for _, op := range s.ops {
			if op != 0 && op != 1 {
				single = false
			}
		}
		if single {
			// one call per op in both runs: compare call by call, beyond the failing call too
			if len(run.errs) != len(ref.errs) || len(run.errs) != len(s.ops) {
				return "the failing and the fault-free run made different numbers of calls"
			}
			failed, failedInData := false, false
			for i, e := range run.errs {
				res := run.results[i].At(0)
				switch {
				case res.At(0).Int() == 2:
					return "the demuxer panicked on a failing reader"
				case e != nil && errors.Is(e, errInjected):
					if !failed && s.ops[i] == 1 {
						failedInData = true
					}
					failed = true
				case e != nil && errors.Is(e, astits.ErrNoMorePackets) && s.fault >= 0 && s.fault <= len(s.data):
					return fmt.Sprintf("call %d returned ErrNoMorePackets although the reader fails at offset %d <= %d", i, s.fault, len(s.data))
				default:
					if ref.results[i].At(0).String() != res.String() {
						return fmt.Sprintf("call %d of the failing run returned neither the fault-free result nor the injected error", i)
					}
					if failed && (s.ops[i] == 0 || failedInData || e != nil) {
						return fmt.Sprintf("call %d did not return the reader's failure again after an earlier call had reported it", i)
					}
				}
			}
			return ""
		}
		sawFault := false
		for i, e := range run.errs {
			res := run.results[i].At(0)
			if res.At(0).Int() == 2 {
				return "the demuxer panicked on a failing reader"
			}
			if e == nil {
				// delivered before the failure: a prefix of the fault-free output
				if i >= len(ref.results) || ref.results[i].At(0).String() != res.String() {
					return fmt.Sprintf("result %d delivered before the reader failed is not in the fault-free output", i)
				}
				continue
			}
			if errors.Is(e, errInjected) {
				sawFault = true
				break
			}
			// another error before the fault point: it must be the fault-free run's error too
			if i < len(ref.results) && ref.results[i].At(0).String() == res.String() {
				continue
			}
			if errors.Is(e, astits.ErrNoMorePackets) {
				return fmt.Sprintf("call %d returned ErrNoMorePackets although the reader failed with another error at offset %d", i, s.fault)
			}
			return fmt.Sprintf("call %d returned an error that does not wrap the reader's failure: %v", i, e)
		}
		if !sawFault && s.fault <= len(s.data) {
			return "the reader's failure was never reported"
		}
	case 2:
		var ops []muxOp
		for _, t := range c.At(2).L {
			ops = append(ops, muxOpOf(t))
		}
		calls := runMuxFault(int(c.At(1).Int()), ops, int(c.At(3).Int()), c.At(4).IsTrue())
		if len(calls) == 0 {
			return ""
		}
		last := calls[len(calls)-1]
		if last.panicked {
			return "the muxer panicked on a failing writer"
		}
		if last.code == -1 {
			return fmt.Sprintf("the call during which Write #%d failed returned a nil error", c.At(3).Int())
		}
		if !last.wraps {
			return fmt.Sprintf("the call during which Write #%d failed returned an error that does not wrap the cause", c.At(3).Int())
		}
		if last.n > last.total {
			return fmt.Sprintf("the failing call reports %d bytes, the writer accepted %d", last.n, last.total)
		}
	}
	return ""
}

func (c18) Nontrivial(c Tok, obs Tok) bool { return len(obs.L) > 0 }
