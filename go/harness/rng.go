package main

// Rng is SplitMix64: every random choice of a run derives from one seed, so a
// disagreement replays exactly.
type Rng struct{ s uint64 }

func NewRng(seed uint64) *Rng { return &Rng{s: seed*0x9E3779B97F4A7C15 + 0x1234567} }

func (r *Rng) U64() uint64 {
	r.s += 0x9E3779B97F4A7C15
	z := r.s
	z = (z ^ (z >> 30)) * 0xBF58476D1CE4E5B9
	z = (z ^ (z >> 27)) * 0x94D049BB133111EB
	return z ^ (z >> 31)
}

// Intn returns a value in [0, n)
func (r *Rng) Intn(n int) int {
	if n <= 0 {
		return 0
	}
	return int(r.U64() % uint64(n))
}

// Range returns a value in [lo, hi]
func (r *Rng) Range(lo, hi int) int     { return lo + r.Intn(hi-lo+1) }
func (r *Rng) Bool() bool               { return r.U64()&1 == 1 }
func (r *Rng) Chance(num, den int) bool { return r.Intn(den) < num }

func (r *Rng) Bytes(n int) []byte {
	b := make([]byte, n)
	for i := range b {
		b[i] = byte(r.U64())
	}
	return b
}

// Bits returns an edge-biased value of the given bit width: 0, 1, max, max-1,
// a single-bit value, or uniformly random.
func (r *Rng) Bits(w int) uint64 {
	var max uint64
	if w >= 64 {
		max = ^uint64(0)
	} else {
		max = (uint64(1) << uint(w)) - 1
	}
	switch r.Intn(10) {
	case 0:
		return 0
	case 1:
		return 1 & max
	case 2:
		return max
	case 3:
		return max - 1&max
	case 4, 5:
		return (uint64(1) << uint(r.Intn(w))) & max
	default:
		return r.U64() & max
	}
}

// Fork derives an independent generator (for per-case replay seeds).
func (r *Rng) Fork() *Rng { return &Rng{s: r.U64()} }
