package main

import (
	"time"

	astits "github.com/asticode/go-astits"
)

// Value generators for C14: one well-formed value per call, inside the domain of c14WfDesc, with edge-biased
// numeric fields (Rng.Bits) and edge-biased sizes of the variable parts (0, 1, the largest that fits 255 bytes).

// c14SizeIn picks a size in [0, max]: 0, 1, max, max-1 or uniform; small sizes are favoured.
func c14SizeIn(r *Rng, max int) int {
	if max <= 0 {
		return 0
	}
	switch r.Intn(10) {
	case 0:
		return 0
	case 1:
		return 1 % (max + 1)
	case 2:
		return max
	case 3:
		return max - 1
	case 4, 5, 6:
		return r.Intn(max + 1)
	default:
		if max > 12 {
			return r.Intn(13)
		}
		return r.Intn(max + 1)
	}
}

func c14CountIn(r *Rng, max int) int { return c14SizeIn(r, max) }

func c14Lang(r *Rng) []byte {
	if r.Chance(1, 4) {
		return r.Bytes(3)
	}
	b := make([]byte, 3)
	for i := range b {
		b[i] = byte('a' + r.Intn(26))
	}
	return b
}

func c14U8(r *Rng) uint8   { return uint8(r.Bits(8)) }
func c14U16(r *Rng) uint16 { return uint16(r.Bits(16)) }
func c14U32(r *Rng) uint32 { return uint32(r.Bits(32)) }

// c14BcdMinutes: an offset hh:mm with two BCD digits each
func c14BcdMinutes(r *Rng) time.Duration {
	h := []int{0, 1, 2, 9, 10, 12, 23, 99, r.Intn(100)}[r.Intn(9)]
	m := []int{0, 30, 45, 59, r.Intn(60)}[r.Intn(5)]
	return time.Duration(h)*time.Hour + time.Duration(m)*time.Minute
}

// c14DvbTime: a UTC time with whole seconds whose MJD fits 16 bits and the Annex C formula (MJD 15079..65535)
func c14DvbTime(r *Rng) time.Time {
	var mjd int64
	switch r.Intn(8) {
	case 0:
		mjd = 15079
	case 1:
		mjd = 65535
	case 2:
		mjd = 15079 + int64(r.Intn(800))
	case 3:
		mjd = 65535 - int64(r.Intn(800))
	default:
		mjd = 15079 + int64(r.Intn(65535-15079+1))
	}
	sec := int64(r.Intn(86400))
	switch r.Intn(6) {
	case 0:
		sec = 0
	case 1:
		sec = 86399
	}
	return time.Unix((mjd-40587)*86400+sec, 0).UTC()
}

func c14GenTeletext(r *Rng) *astits.DescriptorTeletext {
	t := &astits.DescriptorTeletext{}
	for k, n := 0, c14CountIn(r, 51); k < n; k++ {
		t.Items = append(t.Items, &astits.DescriptorTeletextItem{Language: c14Lang(r), Type: uint8(r.Bits(5)), Magazine: uint8(r.Bits(3)),
			Page: []uint8{0, 1, 9, 10, 99, 90, uint8(r.Intn(100))}[r.Intn(7)]})
	}
	return t
}

var c14UnknownTags = []uint8{0x00, 0x01, 0x02, 0x03, 0x04, 0x07, 0x09, 0x0b, 0x27, 0x29, 0x41, 0x47, 0x49, 0x4f, 0x51, 0x53, 0x57, 0x5a, 0x69, 0x6b, 0x79, 0x7b, 0x7e, 0xff}

// genDescTag: tag 0 = unknown tag, 1 = user defined, otherwise the typed tag
func c14GenDesc(r *Rng, tag uint8) *astits.Descriptor {
	d := &astits.Descriptor{Tag: tag}
	switch tag {
	case 0: // unknown
		d.Tag = c14UnknownTags[r.Intn(len(c14UnknownTags))]
		d.Unknown = &astits.DescriptorUnknown{Tag: d.Tag, Content: r.Bytes(c14SizeIn(r, 255))}
	case 1: // user defined
		d.Tag = []uint8{0x80, 0xfe, 0x81, 0xc0, uint8(0x80 + r.Intn(127))}[r.Intn(5)]
		d.UserDefined = r.Bytes(c14SizeIn(r, 255))
	case 0x6a:
		a := &astits.DescriptorAC3{HasComponentType: r.Bool(), HasBSID: r.Bool(), HasMainID: r.Bool(), HasASVC: r.Bool()}
		n := 1
		if a.HasComponentType {
			a.ComponentType = c14U8(r)
			n++
		}
		if a.HasBSID {
			a.BSID = c14U8(r)
			n++
		}
		if a.HasMainID {
			a.MainID = c14U8(r)
			n++
		}
		if a.HasASVC {
			a.ASVC = c14U8(r)
			n++
		}
		a.AdditionalInfo = r.Bytes(c14SizeIn(r, 255-n))
		d.AC3 = a
	case 0x28:
		d.AVCVideo = &astits.DescriptorAVCVideo{AVC24HourPictureFlag: r.Bool(), AVCStillPresent: r.Bool(), CompatibleFlags: uint8(r.Bits(5)),
			ConstraintSet0Flag: r.Bool(), ConstraintSet1Flag: r.Bool(), ConstraintSet2Flag: r.Bool(), LevelIDC: c14U8(r), ProfileIDC: c14U8(r)}
	case 0x50:
		d.Component = &astits.DescriptorComponent{ComponentTag: c14U8(r), ComponentType: c14U8(r), ISO639LanguageCode: c14Lang(r),
			StreamContent: uint8(r.Bits(4)), StreamContentExt: uint8(r.Bits(4)), Text: r.Bytes(c14SizeIn(r, 249))}
	case 0x54:
		c := &astits.DescriptorContent{}
		for k, n := 0, c14CountIn(r, 127); k < n; k++ {
			c.Items = append(c.Items, &astits.DescriptorContentItem{ContentNibbleLevel1: uint8(r.Bits(4)), ContentNibbleLevel2: uint8(r.Bits(4)), UserByte: c14U8(r)})
		}
		d.Content = c
	case 0x06:
		d.DataStreamAlignment = &astits.DescriptorDataStreamAlignment{Type: c14U8(r)}
	case 0x7a:
		a := &astits.DescriptorEnhancedAC3{HasComponentType: r.Bool(), HasBSID: r.Bool(), HasMainID: r.Bool(), HasASVC: r.Bool(),
			HasSubStream1: r.Bool(), HasSubStream2: r.Bool(), HasSubStream3: r.Bool(), MixInfoExists: r.Bool()}
		n := 1
		set := func(has bool, f *uint8) {
			if has {
				*f = c14U8(r)
				n++
			}
		}
		set(a.HasComponentType, &a.ComponentType)
		set(a.HasBSID, &a.BSID)
		set(a.HasMainID, &a.MainID)
		set(a.HasASVC, &a.ASVC)
		set(a.HasSubStream1, &a.SubStream1)
		set(a.HasSubStream2, &a.SubStream2)
		set(a.HasSubStream3, &a.SubStream3)
		a.AdditionalInfo = r.Bytes(c14SizeIn(r, 255-n))
		d.EnhancedAC3 = a
	case 0x4e:
		e := &astits.DescriptorExtendedEvent{ISO639LanguageCode: c14Lang(r), Number: uint8(r.Bits(4)), LastDescriptorNumber: uint8(r.Bits(4))}
		left := 255 - 7
		for k, n := 0, c14CountIn(r, 8); k < n && left >= 2; k++ {
			dl := c14SizeIn(r, left-2)
			cl := c14SizeIn(r, left-2-dl)
			e.Items = append(e.Items, &astits.DescriptorExtendedEventItem{Description: r.Bytes(dl), Content: r.Bytes(cl)})
			left -= 2 + dl + cl
		}
		e.Text = r.Bytes(c14SizeIn(r, left))
		d.ExtendedEvent = e
	case 0x7f:
		e := &astits.DescriptorExtension{}
		if r.Bool() {
			e.Tag = 0x06
			s := &astits.DescriptorExtensionSupplementaryAudio{EditorialClassification: uint8(r.Bits(5)), HasLanguageCode: r.Bool(), MixType: r.Bool()}
			n := 2
			if s.HasLanguageCode {
				s.LanguageCode = c14Lang(r)
				n += 3
			}
			s.PrivateData = r.Bytes(c14SizeIn(r, 255-n))
			e.SupplementaryAudio = s
		} else {
			e.Tag = []uint8{0x00, 0x05, 0x07, 0xff, c14U8(r)}[r.Intn(5)]
			if e.Tag == 0x06 {
				e.Tag = 0x08
			}
			b := r.Bytes(c14SizeIn(r, 254))
			e.Unknown = &b
		}
		d.Extension = e
	case 0x0a:
		d.ISO639LanguageAndAudioType = &astits.DescriptorISO639LanguageAndAudioType{Language: c14Lang(r), Type: c14U8(r)}
	case 0x58:
		l := &astits.DescriptorLocalTimeOffset{}
		for k, n := 0, c14CountIn(r, 19); k < n; k++ {
			l.Items = append(l.Items, &astits.DescriptorLocalTimeOffsetItem{CountryCode: c14Lang(r), CountryRegionID: uint8(r.Bits(6)),
				LocalTimeOffset: c14BcdMinutes(r), LocalTimeOffsetPolarity: r.Bool(), NextTimeOffset: c14BcdMinutes(r), TimeOfChange: c14DvbTime(r)})
		}
		d.LocalTimeOffset = l
	case 0x0e:
		d.MaximumBitrate = &astits.DescriptorMaximumBitrate{Bitrate: uint32(r.Bits(22)) * 50}
	case 0x40:
		d.NetworkName = &astits.DescriptorNetworkName{Name: r.Bytes(c14SizeIn(r, 255))}
	case 0x55:
		p := &astits.DescriptorParentalRating{}
		for k, n := 0, c14CountIn(r, 63); k < n; k++ {
			p.Items = append(p.Items, &astits.DescriptorParentalRatingItem{CountryCode: c14Lang(r), Rating: c14U8(r)})
		}
		d.ParentalRating = p
	case 0x0f:
		d.PrivateDataIndicator = &astits.DescriptorPrivateDataIndicator{Indicator: c14U32(r)}
	case 0x5f:
		d.PrivateDataSpecifier = &astits.DescriptorPrivateDataSpecifier{Specifier: c14U32(r)}
	case 0x05:
		d.Registration = &astits.DescriptorRegistration{FormatIdentifier: c14U32(r), AdditionalIdentificationInfo: r.Bytes(c14SizeIn(r, 251))}
	case 0x48:
		pl := c14SizeIn(r, 252)
		d.Service = &astits.DescriptorService{Type: c14U8(r), Provider: r.Bytes(pl), Name: r.Bytes(c14SizeIn(r, 252-pl))}
	case 0x4d:
		el := c14SizeIn(r, 250)
		d.ShortEvent = &astits.DescriptorShortEvent{Language: c14Lang(r), EventName: r.Bytes(el), Text: r.Bytes(c14SizeIn(r, 250-el))}
	case 0x52:
		d.StreamIdentifier = &astits.DescriptorStreamIdentifier{ComponentTag: c14U8(r)}
	case 0x59:
		s := &astits.DescriptorSubtitling{}
		for k, n := 0, c14CountIn(r, 31); k < n; k++ {
			s.Items = append(s.Items, &astits.DescriptorSubtitlingItem{Language: c14Lang(r), Type: c14U8(r), CompositionPageID: c14U16(r), AncillaryPageID: c14U16(r)})
		}
		d.Subtitling = s
	case 0x56:
		d.Teletext = c14GenTeletext(r)
	case 0x46:
		d.VBITeletext = c14GenTeletext(r)
	case 0x45:
		v := &astits.DescriptorVBIData{}
		left := 255
		for k, n := 0, c14CountIn(r, 12); k < n && left >= 3; k++ {
			s := &astits.DescriptorVBIDataService{DataServiceID: []uint8{1, 2, 4, 5, 6, 7, 0, 3, 8, 0xff, c14U8(r)}[r.Intn(11)]}
			if c14IsVBILineService(s.DataServiceID) {
				for j, m := 0, c14CountIn(r, left-2); j < m; j++ {
					s.Descriptors = append(s.Descriptors, &astits.DescriptorVBIDataDescriptor{FieldParity: r.Bool(), LineOffset: uint8(r.Bits(5))})
				}
				left -= 2 + len(s.Descriptors)
			} else {
				left -= 3
			}
			v.Services = append(v.Services, s)
		}
		d.VBIData = v
	}
	// the redundant Length field: correct, left 0, or wrong
	switch r.Intn(3) {
	case 0:
		d.Length = uint8(len(c14RefBody(d)))
	case 1:
		d.Length = 0
	default:
		d.Length = c14U8(r)
	}
	return d
}

// every generator selector: unknown, user defined, and the 23 typed tags in the order the table generators need them
var c14Selectors = []uint8{0, 1, 0x52, 0x05, 0x0a, 0x0e, 0x6a, 0x48, 0x4d, 0x28, 0x50, 0x54, 0x06, 0x7a, 0x4e, 0x7f, 0x58, 0x40, 0x55,
	0x0f, 0x5f, 0x59, 0x56, 0x45, 0x46}

// c14GenLoop: 0..n descriptors of mixed tags whose reference encoding stays below maxBytes
func c14GenLoop(r *Rng, maxN, maxBytes int) []*astits.Descriptor {
	var ds []*astits.Descriptor
	total := 0
	for k, n := 0, r.Intn(maxN+1); k < n; k++ {
		d := c14GenDesc(r, c14Selectors[r.Intn(len(c14Selectors))])
		sz := 2 + len(c14RefBody(d))
		if total+sz > maxBytes {
			continue
		}
		total += sz
		ds = append(ds, d)
	}
	return ds
}

// c14GenOutOfDomain: values the writer must still handle as the code says (the model is compared on them; the
// round-trip clause does not apply): uint8 wrap of the computed length, loops beyond 4095 bytes, language codes
// that are not 3 bytes, fields wider than their bit width, nil behind the tag, a foreign body beside the tag's own.
func c14GenOutOfDomain(r *Rng) *astits.Descriptor {
	big := func() int { return []int{255, 256, 257, 258, 300, 511, 512, 513, r.Range(256, 700)}[r.Intn(9)] }
	switch r.Intn(22) {
	case 0:
		t := c14UnknownTags[r.Intn(len(c14UnknownTags))]
		return &astits.Descriptor{Tag: t, Unknown: &astits.DescriptorUnknown{Tag: c14U8(r), Content: r.Bytes(big())}, Length: c14U8(r)}
	case 1:
		return &astits.Descriptor{Tag: uint8(0x80 + r.Intn(127)), UserDefined: r.Bytes(big())}
	case 2:
		c := &astits.DescriptorContent{}
		for k, n := 0, []int{127, 128, 129, 130, 200, 256}[r.Intn(6)]; k < n; k++ {
			c.Items = append(c.Items, &astits.DescriptorContentItem{ContentNibbleLevel1: c14U8(r), ContentNibbleLevel2: c14U8(r), UserByte: c14U8(r)})
		}
		return &astits.Descriptor{Tag: 0x54, Content: c}
	case 3:
		p := &astits.DescriptorParentalRating{}
		for k, n := 0, []int{63, 64, 65, 70, 128}[r.Intn(5)]; k < n; k++ {
			p.Items = append(p.Items, &astits.DescriptorParentalRatingItem{CountryCode: r.Bytes(r.Intn(6)), Rating: c14U8(r)})
		}
		return &astits.Descriptor{Tag: 0x55, ParentalRating: p}
	case 4:
		s := &astits.DescriptorSubtitling{}
		for k, n := 0, []int{31, 32, 33, 40, 64}[r.Intn(5)]; k < n; k++ {
			s.Items = append(s.Items, &astits.DescriptorSubtitlingItem{Language: r.Bytes(r.Intn(6)), Type: c14U8(r), CompositionPageID: c14U16(r), AncillaryPageID: c14U16(r)})
		}
		return &astits.Descriptor{Tag: 0x59, Subtitling: s}
	case 5:
		t := &astits.DescriptorTeletext{}
		for k, n := 0, []int{1, 3, 51, 52, 60, 103}[r.Intn(6)]; k < n; k++ {
			t.Items = append(t.Items, &astits.DescriptorTeletextItem{Language: r.Bytes(r.Intn(6)), Type: c14U8(r), Magazine: c14U8(r), Page: c14U8(r)})
		}
		if r.Bool() {
			return &astits.Descriptor{Tag: 0x56, Teletext: t}
		}
		return &astits.Descriptor{Tag: 0x46, VBITeletext: t}
	case 6:
		v := &astits.DescriptorVBIData{}
		for k, n := 0, r.Range(1, 6); k < n; k++ {
			s := &astits.DescriptorVBIDataService{DataServiceID: c14U8(r)}
			for j, m := 0, []int{0, 1, 3, 60, 130, 256}[r.Intn(6)]; j < m; j++ {
				s.Descriptors = append(s.Descriptors, &astits.DescriptorVBIDataDescriptor{FieldParity: r.Bool(), LineOffset: c14U8(r)})
			}
			v.Services = append(v.Services, s)
		}
		return &astits.Descriptor{Tag: 0x45, VBIData: v}
	case 7:
		l := &astits.DescriptorLocalTimeOffset{}
		for k, n := 0, []int{1, 19, 20, 21, 40}[r.Intn(5)]; k < n; k++ {
			l.Items = append(l.Items, &astits.DescriptorLocalTimeOffsetItem{CountryCode: r.Bytes(r.Intn(6)), CountryRegionID: c14U8(r),
				LocalTimeOffset: time.Duration(r.Intn(256*3600)) * time.Second, LocalTimeOffsetPolarity: r.Bool(),
				NextTimeOffset: time.Duration(r.Intn(256*3600)) * time.Second, TimeOfChange: time.Unix(int64(r.Intn(1<<32))-(1<<31), 0).UTC()})
		}
		return &astits.Descriptor{Tag: 0x58, LocalTimeOffset: l}
	case 8:
		e := &astits.DescriptorExtendedEvent{ISO639LanguageCode: r.Bytes(r.Intn(6)), Number: c14U8(r), LastDescriptorNumber: c14U8(r), Text: r.Bytes([]int{0, 10, 255, 256, 300}[r.Intn(5)])}
		for k, n := 0, r.Intn(5); k < n; k++ {
			e.Items = append(e.Items, &astits.DescriptorExtendedEventItem{Description: r.Bytes([]int{0, 5, 255, 256, 300}[r.Intn(5)]), Content: r.Bytes([]int{0, 5, 120, 256}[r.Intn(4)])})
		}
		return &astits.Descriptor{Tag: 0x4e, ExtendedEvent: e}
	case 9:
		return &astits.Descriptor{Tag: 0x48, Service: &astits.DescriptorService{Type: c14U8(r), Provider: r.Bytes([]int{0, 100, 252, 253, 256, 300}[r.Intn(6)]), Name: r.Bytes([]int{0, 100, 153, 256}[r.Intn(4)])}}
	case 10:
		return &astits.Descriptor{Tag: 0x4d, ShortEvent: &astits.DescriptorShortEvent{Language: r.Bytes(r.Intn(6)), EventName: r.Bytes([]int{0, 100, 250, 251, 256}[r.Intn(5)]), Text: r.Bytes([]int{0, 100, 151, 256}[r.Intn(4)])}}
	case 11:
		return &astits.Descriptor{Tag: 0x50, Component: &astits.DescriptorComponent{ComponentTag: c14U8(r), ComponentType: c14U8(r), ISO639LanguageCode: r.Bytes(r.Intn(6)),
			StreamContent: c14U8(r), StreamContentExt: c14U8(r), Text: r.Bytes([]int{0, 249, 250, 251, 300}[r.Intn(5)])}}
	case 12:
		return &astits.Descriptor{Tag: 0x0a, ISO639LanguageAndAudioType: &astits.DescriptorISO639LanguageAndAudioType{Language: r.Bytes(r.Intn(7)), Type: c14U8(r)}}
	case 13:
		return &astits.Descriptor{Tag: 0x0e, MaximumBitrate: &astits.DescriptorMaximumBitrate{Bitrate: c14U32(r)}}
	case 14:
		return &astits.Descriptor{Tag: 0x05, Registration: &astits.DescriptorRegistration{FormatIdentifier: c14U32(r), AdditionalIdentificationInfo: r.Bytes([]int{251, 252, 253, 300}[r.Intn(4)])}}
	case 15:
		a := &astits.DescriptorAC3{HasComponentType: r.Bool(), HasBSID: r.Bool(), HasMainID: r.Bool(), HasASVC: r.Bool(), ComponentType: c14U8(r), BSID: c14U8(r), MainID: c14U8(r), ASVC: c14U8(r),
			AdditionalInfo: r.Bytes([]int{0, 250, 251, 254, 255, 256, 300}[r.Intn(7)])}
		return &astits.Descriptor{Tag: 0x6a, AC3: a}
	case 16:
		a := &astits.DescriptorEnhancedAC3{HasComponentType: r.Bool(), HasBSID: r.Bool(), HasMainID: r.Bool(), HasASVC: r.Bool(), HasSubStream1: r.Bool(), HasSubStream2: r.Bool(), HasSubStream3: r.Bool(),
			MixInfoExists: r.Bool(), ComponentType: c14U8(r), BSID: c14U8(r), MainID: c14U8(r), ASVC: c14U8(r), SubStream1: c14U8(r), SubStream2: c14U8(r), SubStream3: c14U8(r),
			AdditionalInfo: r.Bytes([]int{0, 247, 248, 254, 255, 256, 300}[r.Intn(7)])}
		return &astits.Descriptor{Tag: 0x7a, EnhancedAC3: a}
	case 17:
		// extension: nil behind the extension tag (the one nil dereference of the writers), both bodies, no body
		e := &astits.DescriptorExtension{Tag: []uint8{0x06, 0x06, 0x00, c14U8(r)}[r.Intn(4)]}
		if r.Bool() {
			e.SupplementaryAudio = &astits.DescriptorExtensionSupplementaryAudio{EditorialClassification: c14U8(r), HasLanguageCode: r.Bool(), MixType: r.Bool(),
				LanguageCode: r.Bytes(r.Intn(6)), PrivateData: r.Bytes([]int{0, 3, 250, 253, 254, 300}[r.Intn(6)])}
		}
		if r.Bool() {
			b := r.Bytes([]int{0, 3, 254, 255, 256}[r.Intn(5)])
			e.Unknown = &b
		}
		return &astits.Descriptor{Tag: 0x7f, Extension: e}
	case 18:
		// nil behind the tag
		sel := c14Selectors[2+r.Intn(len(c14Selectors)-2)]
		return &astits.Descriptor{Tag: sel, Length: c14U8(r)}
	case 19:
		// a foreign body beside (or instead of) the tag's own
		d := c14GenDesc(r, c14Selectors[r.Intn(len(c14Selectors))])
		o := c14GenDesc(r, c14Selectors[2+r.Intn(len(c14Selectors)-2)])
		if d.Tag != o.Tag {
			tag, l := d.Tag, d.Length
			if r.Bool() {
				*d = astits.Descriptor{}
			}
			c14MergeBodies(d, o)
			d.Tag, d.Length = tag, l
		}
		if r.Bool() {
			d.UserDefined = r.Bytes(r.Intn(5))
		}
		return d
	case 20:
		return &astits.Descriptor{Tag: 0x40, NetworkName: &astits.DescriptorNetworkName{Name: r.Bytes(big())}}
	default:
		return &astits.Descriptor{Tag: 0x28, AVCVideo: &astits.DescriptorAVCVideo{CompatibleFlags: c14U8(r), LevelIDC: c14U8(r), ProfileIDC: c14U8(r), AVCStillPresent: r.Bool()}, Length: c14U8(r)}
	}
}

// c14MergeBodies copies every typed body of o that d lacks.
func c14MergeBodies(d, o *astits.Descriptor) {
	if d.AC3 == nil {
		d.AC3 = o.AC3
	}
	if d.AVCVideo == nil {
		d.AVCVideo = o.AVCVideo
	}
	if d.Component == nil {
		d.Component = o.Component
	}
	if d.Content == nil {
		d.Content = o.Content
	}
	if d.DataStreamAlignment == nil {
		d.DataStreamAlignment = o.DataStreamAlignment
	}
	if d.EnhancedAC3 == nil {
		d.EnhancedAC3 = o.EnhancedAC3
	}
	if d.ExtendedEvent == nil {
		d.ExtendedEvent = o.ExtendedEvent
	}
	if d.Extension == nil {
		d.Extension = o.Extension
	}
	if d.ISO639LanguageAndAudioType == nil {
		d.ISO639LanguageAndAudioType = o.ISO639LanguageAndAudioType
	}
	if d.LocalTimeOffset == nil {
		d.LocalTimeOffset = o.LocalTimeOffset
	}
	if d.MaximumBitrate == nil {
		d.MaximumBitrate = o.MaximumBitrate
	}
	if d.NetworkName == nil {
		d.NetworkName = o.NetworkName
	}
	if d.ParentalRating == nil {
		d.ParentalRating = o.ParentalRating
	}
	if d.PrivateDataIndicator == nil {
		d.PrivateDataIndicator = o.PrivateDataIndicator
	}
	if d.PrivateDataSpecifier == nil {
		d.PrivateDataSpecifier = o.PrivateDataSpecifier
	}
	if d.Registration == nil {
		d.Registration = o.Registration
	}
	if d.Service == nil {
		d.Service = o.Service
	}
	if d.ShortEvent == nil {
		d.ShortEvent = o.ShortEvent
	}
	if d.StreamIdentifier == nil {
		d.StreamIdentifier = o.StreamIdentifier
	}
	if d.Subtitling == nil {
		d.Subtitling = o.Subtitling
	}
	if d.Teletext == nil {
		d.Teletext = o.Teletext
	}
	if d.Unknown == nil {
		d.Unknown = o.Unknown
	}
	if d.VBIData == nil {
		d.VBIData = o.VBIData
	}
	if d.VBITeletext == nil {
		d.VBITeletext = o.VBITeletext
	}
}
