package main

import (
	"fmt"

	astits "github.com/asticode/go-astits"
)

// C11: case forms (see coq/Extract/RunC11.v)
//
//	(1 bytes)          parsePacket on one packet-sized buffer
//	(2 packet target)  writePacket (any packet, any target size)
//	(3 bytes)          parse, then re-emit with target 188
type c11 struct{}

func init() { props["C11"] = c11{} }

func (c11) Num() int { return 11 }

// ---------- generators shared with other properties ----------

func genCR(r *Rng, extBits int) *astits.ClockReference {
	cr := &astits.ClockReference{Base: int64(r.Bits(33))}
	if extBits > 0 {
		cr.Extension = int64(r.Bits(extBits))
	}
	return cr
}

// genAF builds a well-formed adaptation field whose encoded size (length byte included) is at most maxBytes (>= 2);
// stuffing is chosen by the caller afterwards.
func genAF(r *Rng, maxBytes int) *astits.PacketAdaptationField {
	af := &astits.PacketAdaptationField{}
	af.DiscontinuityIndicator = r.Chance(1, 6)
	af.RandomAccessIndicator = r.Bool()
	af.ElementaryStreamPriorityIndicator = r.Bool()
	left := maxBytes - 2
	if left >= 6 && r.Bool() {
		af.HasPCR = true
		af.PCR = genCR(r, 9)
		left -= 6
	}
	if left >= 6 && r.Chance(1, 3) {
		af.HasOPCR = true
		af.OPCR = genCR(r, 9)
		left -= 6
	}
	if left >= 1 && r.Chance(1, 3) {
		af.HasSplicingCountdown = true
		af.SpliceCountdown = int(r.Bits(8))
		left--
	}
	if left >= 1 && r.Chance(1, 3) {
		af.HasTransportPrivateData = true
		n := r.Intn(left)
		if r.Chance(1, 4) {
			n = left - 1
		}
		if r.Chance(1, 5) {
			n = 0
		}
		af.TransportPrivateDataLength = n
		if n > 0 {
			af.TransportPrivateData = r.Bytes(n)
		}
		left -= 1 + n
	}
	if left >= 2 && r.Chance(1, 3) {
		e := &astits.PacketAdaptationExtensionField{}
		n := 2
		if left >= n+2 && r.Bool() {
			e.HasLegalTimeWindow = true
			e.LegalTimeWindowIsValid = r.Bool()
			e.LegalTimeWindowOffset = uint16(r.Bits(15))
			n += 2
		}
		if left >= n+3 && r.Bool() {
			e.HasPiecewiseRate = true
			e.PiecewiseRate = uint32(r.Bits(22))
			n += 3
		}
		if left >= n+5 && r.Bool() {
			e.HasSeamlessSplice = true
			e.SpliceType = uint8(r.Bits(4))
			e.DTSNextAccessUnit = genCR(r, 0)
			n += 5
		}
		e.Length = n - 1
		af.HasAdaptationExtensionField = true
		af.AdaptationExtensionField = e
		left -= n
	}
	return af
}

// afBytes is the encoded size of a well-formed adaptation field including its length byte.
func afBytes(af *astits.PacketAdaptationField) int {
	if af == nil {
		return 0
	}
	if af.IsOneByteStuffing {
		return 1
	}
	return 1 + int(astits.VerifCalcPacketAdaptationFieldLength(af))
}

// genPacket builds a well-formed packet that fills 188 bytes exactly.
func genPacket(r *Rng) *astits.Packet {
	p := &astits.Packet{}
	h := &p.Header
	h.ContinuityCounter = uint8(r.Bits(4))
	h.PID = uint16(r.Bits(13))
	h.PayloadUnitStartIndicator = r.Bool()
	h.TransportErrorIndicator = r.Chance(1, 8)
	h.TransportPriority = r.Bool()
	h.TransportScramblingControl = uint8(r.Bits(2))
	switch r.Intn(6) {
	case 0: // AF only
		h.HasAdaptationField = true
	case 1, 2:
		h.HasAdaptationField, h.HasPayload = true, true
	default:
		h.HasPayload = true
	}
	if h.HasAdaptationField {
		switch {
		case h.HasPayload && r.Chance(1, 8):
			p.AdaptationField = &astits.PacketAdaptationField{IsOneByteStuffing: true}
		default:
			max := 184
			if h.HasPayload {
				max = r.Range(2, 184)
			}
			af := genAF(r, max)
			used := afBytes(af)
			if !h.HasPayload && r.Chance(1, 3) {
				// no stuffing at all: private data sized so that the optional parts end exactly at the end of the
				// packet (with an extension, its last field occupies the last bytes)
				if af.HasTransportPrivateData {
					af.TransportPrivateData = append(af.TransportPrivateData, r.Bytes(184-used)...)
					af.TransportPrivateDataLength = len(af.TransportPrivateData)
				} else if 184-used >= 1 {
					af.HasTransportPrivateData = true
					af.TransportPrivateData = r.Bytes(184 - used - 1)
					af.TransportPrivateDataLength = 184 - used - 1
				}
				used = afBytes(af)
			}
			if !h.HasPayload {
				af.StuffingLength = 184 - used
			} else if r.Bool() {
				af.StuffingLength = r.Intn(max - used + 1)
			}
			// Length is filled in by the parser; the writer computes the length byte from the content, so a value
			// left over from an earlier parse (the packet was edited since) must not matter
			if r.Bool() {
				af.Length = r.Intn(184)
			}
			p.AdaptationField = af
		}
	}
	if h.HasPayload {
		p.Payload = r.Bytes(184 - afBytes(p.AdaptationField))
	}
	return p
}

// observed fills in the fields the parser derives.
func observed(p *astits.Packet) *astits.Packet {
	q := *p
	if p.AdaptationField != nil {
		a := *p.AdaptationField
		if a.IsOneByteStuffing {
			a = astits.PacketAdaptationField{IsOneByteStuffing: true}
		} else {
			a.Length = int(astits.VerifCalcPacketAdaptationFieldLength(p.AdaptationField))
		}
		if a.AdaptationExtensionField != nil {
			e := *a.AdaptationExtensionField
			a.AdaptationExtensionField = &e
		}
		q.AdaptationField = &a
	}
	return &q
}

// refEncodePacket is the independent reference encoder (ISO 13818-1 2.4.3.2-2.4.3.5), for well-formed packets.
func refEncodePacket(p *astits.Packet) []byte {
	w := &bw{}
	h := p.Header
	w.put(8, 0x47)
	w.flag(h.TransportErrorIndicator)
	w.flag(h.PayloadUnitStartIndicator)
	w.flag(h.TransportPriority)
	w.put(13, uint64(h.PID))
	w.put(2, uint64(h.TransportScramblingControl))
	w.flag(h.HasAdaptationField)
	w.flag(h.HasPayload)
	w.put(4, uint64(h.ContinuityCounter))
	if h.HasAdaptationField {
		af := p.AdaptationField
		if af.IsOneByteStuffing {
			w.put(8, 0)
		} else {
			body := &bw{}
			body.flag(af.DiscontinuityIndicator)
			body.flag(af.RandomAccessIndicator)
			body.flag(af.ElementaryStreamPriorityIndicator)
			body.flag(af.HasPCR)
			body.flag(af.HasOPCR)
			body.flag(af.HasSplicingCountdown)
			body.flag(af.HasTransportPrivateData)
			body.flag(af.HasAdaptationExtensionField)
			pcr := func(c *astits.ClockReference) {
				body.put(33, uint64(c.Base))
				body.put(6, 0x3f)
				body.put(9, uint64(c.Extension))
			}
			if af.HasPCR {
				pcr(af.PCR)
			}
			if af.HasOPCR {
				pcr(af.OPCR)
			}
			if af.HasSplicingCountdown {
				body.put(8, uint64(uint8(af.SpliceCountdown)))
			}
			if af.HasTransportPrivateData {
				body.put(8, uint64(len(af.TransportPrivateData)))
				body.bytes(af.TransportPrivateData)
			}
			if af.HasAdaptationExtensionField {
				e := af.AdaptationExtensionField
				eb := &bw{}
				eb.flag(e.HasLegalTimeWindow)
				eb.flag(e.HasPiecewiseRate)
				eb.flag(e.HasSeamlessSplice)
				eb.put(5, 0x1f)
				if e.HasLegalTimeWindow {
					eb.flag(e.LegalTimeWindowIsValid)
					eb.put(15, uint64(e.LegalTimeWindowOffset))
				}
				if e.HasPiecewiseRate {
					eb.put(2, 3)
					eb.put(22, uint64(e.PiecewiseRate))
				}
				if e.HasSeamlessSplice {
					b := uint64(e.DTSNextAccessUnit.Base)
					eb.put(4, uint64(e.SpliceType))
					eb.put(3, b>>30)
					eb.put(1, 1)
					eb.put(15, b>>15)
					eb.put(1, 1)
					eb.put(15, b)
					eb.put(1, 1)
				}
				body.put(8, uint64(len(eb.b)))
				body.bytes(eb.b)
			}
			for k := 0; k < af.StuffingLength; k++ {
				body.put(8, 0xff)
			}
			w.put(8, uint64(len(body.b)))
			w.bytes(body.b)
		}
	}
	if h.HasPayload {
		w.bytes(p.Payload)
	}
	for len(w.b) < 188 {
		w.put(8, 0xff)
	}
	return w.b
}

// ---------- cases ----------

var c11Judged, c11Reemit int

func (c11) Gen(r *Rng, tier string, emit func(string, Tok)) {
	defer func() {
		note("packets judged against the ISO reference encoder (write + parse back): %d; conformant packets re-emitted byte-identically: %d", c11Judged, c11Reemit)
	}()
	scale := 1
	if tier == "thorough" {
		scale = 10
	}
	body := r.Bytes(184)
	// every header value on a fixed body: 2^13 PIDs x 16 counters sampled, all flag/AFC/scrambling combinations
	for afc := 1; afc <= 3; afc++ {
		for flags := 0; flags < 8; flags++ {
			for sc := 0; sc < 4; sc++ {
				for k := 0; k < 6*scale; k++ {
					pid := r.Bits(13)
					cc := r.Intn(16)
					b := make([]byte, 188)
					b[0] = 0x47
					b[1] = byte(flags<<5) | byte(pid>>8)
					b[2] = byte(pid)
					b[3] = byte(sc<<6) | byte(afc<<4) | byte(cc)
					copy(b[4:], body)
					if afc >= 2 {
						b[4] = byte(r.Intn(184))
						if r.Chance(1, 4) {
							b[4] = 0
						}
					}
					emit("hdr", L(I(1), B(b)))
				}
			}
		}
	}
	if tier == "thorough" {
		for pid := 0; pid < 8192; pid++ {
			b := make([]byte, 188)
			b[0], b[1], b[2], b[3] = 0x47, byte(pid>>8)|byte(r.Intn(8)<<5), byte(pid), 0x10|byte(pid&15)
			copy(b[4:], body)
			emit("hdr-allpids", L(I(1), B(b)))
		}
		sweep("all 8192 PID values")
	}
	// well-formed packets: reference encoding parsed, and re-emitted
	for k := 0; k < 1500*scale; k++ {
		p := genPacket(r)
		ref := refEncodePacket(p)
		emit("wf-parse", L(I(1), B(ref)))
		emit("wf-write", L(I(2), ToTok(*p), I(188)))
		if k%3 == 0 {
			emit("wf-reemit", L(I(3), B(ref)))
		}
	}
	// K1: ISO-conformant packets whose adaptation field extension carries trailing reserved bytes (2.4.3.4 allows them):
	// case (5 bytes n) = parse then re-emit, n reserved bytes
	for k := 0; k < 6*scale; k++ {
		nres := r.Range(1, 5)
		p := &astits.Packet{Header: astits.PacketHeader{HasAdaptationField: true, HasPayload: true, PID: uint16(r.Bits(13)), ContinuityCounter: uint8(r.Intn(16))}}
		e := &astits.PacketAdaptationExtensionField{HasPiecewiseRate: true, PiecewiseRate: uint32(r.Bits(22)), Length: 4}
		af := &astits.PacketAdaptationField{HasAdaptationExtensionField: true, AdaptationExtensionField: e, RandomAccessIndicator: r.Bool()}
		p.AdaptationField = af
		p.Payload = r.Bytes(184 - afBytes(af) - nres)
		b := refEncodePacket(p)
		// move the payload nres bytes further, lengthen both lengths, fill the hole with reserved 0xFF
		c := append([]byte{}, b[:4+afBytes(af)]...)
		for j := 0; j < nres; j++ {
			c = append(c, 0xff)
		}
		c = append(c, p.Payload...)
		c[4] += byte(nres) // adaptation_field_length
		c[6] += byte(nres) // adaptation_field_extension_length
		emit("reemit-ext-reserved", L(I(5), B(c), I(int64(nres))))
	}
	// adaptation_field_length 0..183 with random flag bytes and bodies (arbitrary, mostly non-conformant)
	for l := 0; l <= 183; l++ {
		for k := 0; k < 2*scale; k++ {
			b := r.Bytes(188)
			b[0] = 0x47
			b[3] = b[3]&0xcf | 0x30
			if k%2 == 0 {
				b[3] = b[3]&0xcf | 0x20
			}
			b[4] = byte(l)
			emit("af-len", L(I(3), B(b)))
		}
	}
	// arbitrary blocks, including bad sync bytes and sizes other than 188
	for k := 0; k < 400*scale; k++ {
		n := 188
		switch r.Intn(8) {
		case 0:
			n = r.Range(0, 10)
		case 1:
			n = r.Range(180, 187)
		case 2:
			n = r.Range(189, 210)
		}
		b := r.Bytes(n)
		if n > 0 && !r.Chance(1, 10) {
			b[0] = 0x47
		}
		if n > 4 && r.Bool() {
			b[3] |= 0x20
			b[4] = byte(r.Range(180, 255))
		}
		emit("raw", L(I(1), B(b)))
	}
	// writer: invalid and boundary packets (oversize payloads, nil pointers behind set flags, odd targets)
	for k := 0; k < 500*scale; k++ {
		p := genPacket(r)
		target := int64(188)
		switch r.Intn(8) {
		case 0:
			p.Payload = append(p.Payload, r.Bytes(r.Range(1, 4))...)
		case 1:
			if len(p.Payload) > 0 {
				p.Payload = p.Payload[:r.Intn(len(p.Payload))]
			}
		case 2:
			if p.AdaptationField != nil && !p.AdaptationField.IsOneByteStuffing {
				p.AdaptationField.StuffingLength += r.Range(1, 3)
			}
		case 3:
			target = int64(r.Range(180, 210))
		case 4:
			if p.AdaptationField != nil && p.AdaptationField.HasTransportPrivateData {
				p.AdaptationField.TransportPrivateDataLength = r.Intn(4)
			}
		case 5:
			if p.AdaptationField != nil && p.AdaptationField.HasPCR && r.Bool() {
				p.AdaptationField.PCR = nil
			} else if p.Header.HasAdaptationField && r.Chance(1, 3) {
				p.AdaptationField = nil
			}
		case 6:
			p.Header.HasPayload = !p.Header.HasPayload
		}
		emit("write-any", L(I(2), ToTok(*p), I(target)))
	}
	// PCR / OPCR / DTS at every single-bit value and all-ones
	for bit := 0; bit <= 33; bit++ {
		for ebit := 0; ebit <= 9; ebit += 3 {
			p := &astits.Packet{Header: astits.PacketHeader{HasAdaptationField: true, HasPayload: true, PID: 0x100}}
			base := int64(1) << uint(bit)
			if bit == 33 {
				base = 1<<33 - 1
			}
			ext := int64(1) << uint(ebit)
			if ebit == 9 {
				ext = 511
			}
			af := &astits.PacketAdaptationField{HasPCR: true, PCR: &astits.ClockReference{Base: base, Extension: ext},
				HasOPCR: true, OPCR: &astits.ClockReference{Base: 1<<33 - 1 - base, Extension: 511 - ext},
				HasAdaptationExtensionField: true, AdaptationExtensionField: &astits.PacketAdaptationExtensionField{
					HasSeamlessSplice: true, SpliceType: uint8(bit & 15), DTSNextAccessUnit: &astits.ClockReference{Base: base}, Length: 6}}
			p.AdaptationField = af
			p.Payload = r.Bytes(184 - afBytes(af))
			emit("clock-bits", L(I(2), ToTok(*p), I(188)))
			emit("clock-bits", L(I(3), B(refEncodePacket(p))))
		}
	}
}

func (c11) Run(c Tok) Tok {
	switch c.At(0).Int() {
	case 1:
		return guard(func() Tok {
			p, err := astits.VerifParsePacket(c.At(1).Bytes(), nil)
			return resOf(func() Tok { return ToTok(*p) }, err)
		})
	case 2:
		return guard(func() Tok {
			var p astits.Packet
			FromTok(c.At(1), &p)
			s := &sinkWriter{failAt: -1}
			_, err := astits.VerifWritePacket(s, &p, int(c.At(2).Int()))
			return resOf(func() Tok { return B(s.accepted) }, err)
		})
	case 3, 5:
		return guard(func() Tok {
			p, err := astits.VerifParsePacket(c.At(1).Bytes(), nil)
			if err != nil {
				return ResErr(errCode(err))
			}
			s := &sinkWriter{failAt: -1}
			pt := ToTok(*p)
			w := guard(func() Tok {
				_, err := astits.VerifWritePacket(s, p, 188)
				return resOf(func() Tok { return B(s.accepted) }, err)
			})
			return L(I(0), pt, w)
		})
	}
	return L()
}

// wfPacket reports whether a packet is inside the property's domain (every pointer present iff its flag,
// lengths consistent, the whole packet exactly 188 bytes).
func wfPacket(p *astits.Packet) bool {
	h := p.Header
	if !h.HasAdaptationField && !h.HasPayload {
		return false
	}
	if h.HasAdaptationField != (p.AdaptationField != nil) {
		return false
	}
	if !h.HasPayload && len(p.Payload) > 0 {
		return false
	}
	if h.HasPayload && len(p.Payload) == 0 {
		return false // adaptation_field_control '11' leaves at least one payload byte (adaptation_field_length <= 182)
	}
	if af := p.AdaptationField; af != nil && !af.IsOneByteStuffing {
		if af.HasPCR != (af.PCR != nil) || af.HasOPCR != (af.OPCR != nil) || af.HasAdaptationExtensionField != (af.AdaptationExtensionField != nil) {
			return false
		}
		if af.HasTransportPrivateData && af.TransportPrivateDataLength != len(af.TransportPrivateData) {
			return false
		}
		if !af.HasTransportPrivateData && len(af.TransportPrivateData) > 0 {
			return false
		}
		if af.StuffingLength < 0 {
			return false
		}
		if e := af.AdaptationExtensionField; e != nil && e.HasSeamlessSplice != (e.DTSNextAccessUnit != nil) {
			return false
		}
		n := 2
		if af.HasPCR {
			n += 6
		}
		if af.HasOPCR {
			n += 6
		}
		if af.HasSplicingCountdown {
			n++
		}
		if af.HasTransportPrivateData {
			n += 1 + len(af.TransportPrivateData)
		}
		if e := af.AdaptationExtensionField; e != nil {
			n += 2
			if e.HasLegalTimeWindow {
				n += 2
			}
			if e.HasPiecewiseRate {
				n += 3
			}
			if e.HasSeamlessSplice {
				n += 5
			}
		}
		if n+af.StuffingLength > 184 {
			return false
		}
	}
	return 4+afBytes(p.AdaptationField)+len(p.Payload) == 188
}

func (c11) Oracle(c Tok, obs Tok) string {
	switch c.At(0).Int() {
	case 5:
		if obs.At(0).Int() != 0 {
			return "parsePacket rejects a conformant packet with reserved bytes in the adaptation field extension"
		}
		w := obs.At(2)
		if w.At(0).Int() != 0 || !eqBytes(w.At(1).Bytes(), c.At(1).Bytes()) {
			return fmt.Sprintf("K1: a conformant packet whose adaptation field extension carries %d trailing reserved bytes is not re-emitted byte-identically (the bytes come back as adaptation field stuffing)", c.At(2).Int())
		}
	case 2:
		var p astits.Packet
		FromTok(c.At(1), &p)
		if c.At(2).Int() != 188 || !wfPacket(&p) {
			// outside the domain: still, whatever was written must be whole or nothing
			if obs.At(0).Int() == 0 && int64(len(obs.At(1).Bytes())) != c.At(2).Int() {
				return fmt.Sprintf("writePacket succeeded with %d bytes for target %d", len(obs.At(1).Bytes()), c.At(2).Int())
			}
			return ""
		}
		ref := refEncodePacket(&p)
		c11Judged++
		if obs.At(0).Int() != 0 {
			return "writePacket rejects a well-formed packet that fills 188 bytes"
		}
		if !eqBytes(obs.At(1).Bytes(), ref) {
			return fmt.Sprintf("writePacket output differs from the ISO 13818-1 reference encoding: got %x want %x", obs.At(1).Bytes(), ref)
		}
		// parse the reference encoding back
		q, err := astits.VerifParsePacket(ref, nil)
		if err != nil {
			return "parsePacket rejects the reference encoding of a well-formed packet: " + err.Error()
		}
		if got, want := ToTok(*q).String(), ToTok(*observed(&p)).String(); got != want {
			return fmt.Sprintf("parsePacket(reference encoding) differs from the packet: got %s want %s", got, want)
		}
	case 3:
		if obs.At(0).Int() != 0 {
			return ""
		}
		// conformant input (it equals the reference encoding of what was parsed): re-emission must be byte-identical
		var p astits.Packet
		FromTok(obs.At(1), &p)
		in := c.At(1).Bytes()
		if len(in) != 188 || !wfPacket(canonical(&p)) || !eqBytes(refEncodePacket(canonical(&p)), in) {
			return ""
		}
		w := obs.At(2)
		c11Reemit++
		if w.At(0).Int() != 0 || !eqBytes(w.At(1).Bytes(), in) {
			return fmt.Sprintf("conformant packet is not re-emitted byte-identically: in %x out %s", in, w.String())
		}
	}
	return ""
}

// canonical turns a parsed packet into the writer's view (derived lengths are ignored by the reference encoder).
func canonical(p *astits.Packet) *astits.Packet { return p }

func (c11) Nontrivial(c Tok, obs Tok) bool { return obs.At(0).Int() == 0 }
