package main

import (
	"errors"
	"fmt"
	"time"

	astits "github.com/asticode/go-astits"
)

// Independent reference encoder and decoder for PSI/SI sections, written from
// ISO/IEC 13818-1 2.4.4 (PAT, PMT, generic section syntax, Annex A CRC_32) and
// ETSI EN 300 468 5.2 (NIT, SDT, EIT, TOT; Annex C date/time). Nothing here calls the
// library for an expected value; the library's struct types are used as the content model.

// psiRefCRC32 is CRC-32/MPEG-2, bit by bit: polynomial 0x04C11DB7, initial value all ones,
// no reflection, no final XOR (ISO 13818-1 Annex A).
func psiRefCRC32(bs []byte) uint32 {
	crc := uint32(0xffffffff)
	for _, b := range bs {
		for k := 7; k >= 0; k-- {
			bit := uint32(b>>uint(k)) & 1
			top := crc >> 31
			crc <<= 1
			if top^bit == 1 {
				crc ^= 0x04C11DB7
			}
		}
	}
	return crc
}

// table_id assignments (ISO 13818-1 table 2-31, EN 300 468 table 2)
const (
	rTidPAT  = 0x00
	rTidPMT  = 0x02
	rTidNITa = 0x40
	rTidNITo = 0x41
	rTidSDTa = 0x42
	rTidSDTo = 0x46
	rTidBAT  = 0x4a
	rTidEIT0 = 0x4e
	rTidEIT1 = 0x6f
	rTidTDT  = 0x70
	rTidRST  = 0x71
	rTidST   = 0x72
	rTidTOT  = 0x73
	rTidDIT  = 0x7e
	rTidSIT  = 0x7f
	rTidNull = 0xff
)

func psiRefIsEIT(t int) bool { return t >= rTidEIT0 && t <= rTidEIT1 }
func psiRefIsNIT(t int) bool { return t == rTidNITa || t == rTidNITo }
func psiRefIsSDT(t int) bool { return t == rTidSDTa || t == rTidSDTo }

// psiRefDecoded reports whether the table is one of the six decoded types (all of which carry a CRC_32).
func psiRefDecoded(t int) bool {
	return t == rTidPAT || t == rTidPMT || psiRefIsNIT(t) || psiRefIsSDT(t) || psiRefIsEIT(t) || t == rTidTOT
}

// psiRefLongSyntax: table_id_extension / version / section numbers present (TOT has the short form)
func psiRefLongSyntax(t int) bool { return psiRefDecoded(t) && t != rTidTOT }

// psiRefKnown: table ids that are skipped by their section_length when not decoded
func psiRefKnown(t int) bool {
	switch t {
	case rTidBAT, rTidDIT, rTidRST, rTidSIT, rTidST, rTidTDT:
		return true
	}
	return psiRefDecoded(t)
}

func psiRefTableName(t int) string {
	switch {
	case t == rTidPAT:
		return "PAT"
	case t == rTidPMT:
		return "PMT"
	case psiRefIsNIT(t):
		return "NIT"
	case psiRefIsSDT(t):
		return "SDT"
	case psiRefIsEIT(t):
		return "EIT"
	case t == rTidTOT:
		return "TOT"
	case t == rTidBAT:
		return "BAT"
	case t == rTidDIT:
		return "DIT"
	case t == rTidRST:
		return "RST"
	case t == rTidSIT:
		return "SIT"
	case t == rTidST:
		return "ST"
	case t == rTidTDT:
		return "TDT"
	case t == rTidNull:
		return "Null"
	}
	return "Unknown"
}

// descriptors whose body the library decodes into a typed structure (the body's content is C14's subject)
var psiRefTypedTags = map[uint8]bool{0x6a: true, 0x28: true, 0x50: true, 0x54: true, 0x06: true, 0x7a: true, 0x4e: true,
	0x7f: true, 0x0a: true, 0x58: true, 0x0e: true, 0x40: true, 0x55: true, 0x0f: true, 0x5f: true, 0x05: true,
	0x48: true, 0x4d: true, 0x52: true, 0x59: true, 0x56: true, 0x45: true, 0x46: true}

func psiRefIsUserTag(t uint8) bool { return t >= 0x80 && t <= 0xfe }

// ---------- date and time (EN 300 468 Annex C: MJD + BCD) ----------

const psiRefMJDEpoch = 40587 // MJD of 1970-01-01

func psiRefBCD2(b byte) int  { return int(b>>4)*10 + int(b&0xf) }
func psiRefToBCD(v int) byte { return byte(v/10)<<4 | byte(v%10) }

func psiRefDecodeTime(b []byte) time.Time {
	mjd := int64(b[0])<<8 | int64(b[1])
	secs := int64(psiRefBCD2(b[2]))*3600 + int64(psiRefBCD2(b[3]))*60 + int64(psiRefBCD2(b[4]))
	return time.Unix((mjd-psiRefMJDEpoch)*86400+secs, 0).UTC()
}

func psiRefDecodeDuration(b []byte) time.Duration {
	return time.Duration(psiRefBCD2(b[0]))*time.Hour + time.Duration(psiRefBCD2(b[1]))*time.Minute + time.Duration(psiRefBCD2(b[2]))*time.Second
}

// psiRefRawTimes holds start_time fields that have no canonical BCD form (undefined = all ones, invalid digits):
// the generator registers the raw five bytes for the time value it stores in the content model.
var psiRefRawTimes = map[int64][5]byte{}

func psiRefEncodeTime(w *bw, t time.Time) {
	u := t.Unix()
	if raw, ok := psiRefRawTimes[u]; ok {
		w.bytes(raw[:])
		return
	}
	days := u / 86400
	secs := u % 86400
	if secs < 0 {
		secs += 86400
		days--
	}
	w.put(16, uint64(days+psiRefMJDEpoch))
	w.put(8, uint64(psiRefToBCD(int(secs/3600))))
	w.put(8, uint64(psiRefToBCD(int(secs/60%60))))
	w.put(8, uint64(psiRefToBCD(int(secs%60))))
}

func psiRefEncodeDuration(w *bw, d time.Duration) {
	s := int(d / time.Second)
	w.put(8, uint64(psiRefToBCD(s/3600)))
	w.put(8, uint64(psiRefToBCD(s/60%60)))
	w.put(8, uint64(psiRefToBCD(s%60)))
}

// ---------- encoder ----------

// psiRefRsv yields the value of reserved bits: all ones, unless a generator sets psiRefRsvMode to
// 1 (all zero) or to a seed >= 2 (pseudo-random, the same sequence for every encoding of a section).
var (
	psiRefRsvMode uint64
	psiRefRsvCtr  uint64
)

func psiRefRsv(n uint) uint64 {
	switch psiRefRsvMode {
	case 0:
		return 1<<n - 1
	case 1:
		return 0
	}
	psiRefRsvCtr++
	z := (psiRefRsvMode + psiRefRsvCtr) * 0x9E3779B97F4A7C15
	z = (z ^ (z >> 30)) * 0xBF58476D1CE4E5B9
	z = (z ^ (z >> 27)) * 0x94D049BB133111EB
	return (z ^ (z >> 31)) & (1<<n - 1)
}

func psiRefDescBody(d *astits.Descriptor) []byte {
	if psiRefIsUserTag(d.Tag) {
		return d.UserDefined
	}
	if psiRefTypedTags[d.Tag] && d.Unknown == nil && c14RefBodyPresent(d) {
		return c14RefBody(d) // a typed body: the reference layouts of C14 (c14_ref.go)
	}
	if d.Unknown != nil {
		return d.Unknown.Content
	}
	return nil
}

func psiRefEncodeDescriptors(w *bw, ds []*astits.Descriptor) {
	for _, d := range ds {
		body := psiRefDescBody(d)
		w.put(8, uint64(d.Tag))
		w.put(8, uint64(len(body)))
		w.bytes(body)
	}
}

func psiRefDescLoop(w *bw, ds []*astits.Descriptor) {
	body := &bw{}
	psiRefEncodeDescriptors(body, ds)
	w.put(4, psiRefRsv(4))
	w.put(12, uint64(len(body.b)))
	w.bytes(body.b)
}

// psiRefEncodeSection encodes one section of the six decoded types (or a header-only section when
// the content has no syntax part); derived fields of the model (SectionLength, TableType, CRC32,
// descriptor lengths) are ignored.
func psiRefEncodeSection(s *astits.PSISection) []byte {
	psiRefRsvCtr = 0
	tid := int(s.Header.TableID)
	body := &bw{}
	if s.Syntax != nil {
		if h := s.Syntax.Header; h != nil && psiRefLongSyntax(tid) {
			body.put(16, uint64(h.TableIDExtension))
			body.put(2, psiRefRsv(2))
			body.put(5, uint64(h.VersionNumber))
			body.flag(h.CurrentNextIndicator)
			body.put(8, uint64(h.SectionNumber))
			body.put(8, uint64(h.LastSectionNumber))
		}
		d := s.Syntax.Data
		switch {
		case tid == rTidPAT && d != nil && d.PAT != nil:
			for _, p := range d.PAT.Programs {
				body.put(16, uint64(p.ProgramNumber))
				body.put(3, psiRefRsv(3))
				body.put(13, uint64(p.ProgramMapID))
			}
		case tid == rTidPMT && d != nil && d.PMT != nil:
			body.put(3, psiRefRsv(3))
			body.put(13, uint64(d.PMT.PCRPID))
			psiRefDescLoop(body, d.PMT.ProgramDescriptors)
			for _, es := range d.PMT.ElementaryStreams {
				body.put(8, uint64(es.StreamType))
				body.put(3, psiRefRsv(3))
				body.put(13, uint64(es.ElementaryPID))
				psiRefDescLoop(body, es.ElementaryStreamDescriptors)
			}
		case psiRefIsNIT(tid) && d != nil && d.NIT != nil:
			psiRefDescLoop(body, d.NIT.NetworkDescriptors)
			loop := &bw{}
			for _, ts := range d.NIT.TransportStreams {
				loop.put(16, uint64(ts.TransportStreamID))
				loop.put(16, uint64(ts.OriginalNetworkID))
				psiRefDescLoop(loop, ts.TransportDescriptors)
			}
			body.put(4, psiRefRsv(4))
			body.put(12, uint64(len(loop.b)))
			body.bytes(loop.b)
		case psiRefIsSDT(tid) && d != nil && d.SDT != nil:
			body.put(16, uint64(d.SDT.OriginalNetworkID))
			body.put(8, psiRefRsv(8))
			for _, sv := range d.SDT.Services {
				body.put(16, uint64(sv.ServiceID))
				body.put(6, psiRefRsv(6))
				body.flag(sv.HasEITSchedule)
				body.flag(sv.HasEITPresentFollowing)
				body.put(3, uint64(sv.RunningStatus))
				body.flag(sv.HasFreeCSAMode)
				lb := &bw{}
				psiRefEncodeDescriptors(lb, sv.Descriptors)
				body.put(12, uint64(len(lb.b)))
				body.bytes(lb.b)
			}
		case psiRefIsEIT(tid) && d != nil && d.EIT != nil:
			body.put(16, uint64(d.EIT.TransportStreamID))
			body.put(16, uint64(d.EIT.OriginalNetworkID))
			body.put(8, uint64(d.EIT.SegmentLastSectionNumber))
			body.put(8, uint64(d.EIT.LastTableID))
			for _, e := range d.EIT.Events {
				body.put(16, uint64(e.EventID))
				psiRefEncodeTime(body, e.StartTime)
				psiRefEncodeDuration(body, e.Duration)
				body.put(3, uint64(e.RunningStatus))
				body.flag(e.HasFreeCSAMode)
				lb := &bw{}
				psiRefEncodeDescriptors(lb, e.Descriptors)
				body.put(12, uint64(len(lb.b)))
				body.bytes(lb.b)
			}
		case tid == rTidTOT && d != nil && d.TOT != nil:
			psiRefEncodeTime(body, d.TOT.UTCTime)
			psiRefDescLoop(body, d.TOT.Descriptors)
		}
	}
	w := &bw{}
	w.put(8, uint64(tid))
	w.flag(s.Header.SectionSyntaxIndicator)
	w.flag(s.Header.PrivateBit)
	w.put(2, psiRefRsv(2))
	n := len(body.b)
	hasCRC := psiRefDecoded(tid) && s.Syntax != nil
	if hasCRC {
		n += 4
	}
	w.put(12, uint64(n))
	w.bytes(body.b)
	if hasCRC {
		w.put(32, uint64(psiRefCRC32(w.b)))
	}
	return w.b
}

// psiRefEncodeUnit: pointer_field, filler, the sections; a section whose table id stops the parsing
// (0xff or an unassigned id) is a single byte and must be last.
func psiRefEncodeUnit(d *astits.PSIData, filler []byte) []byte {
	out := []byte{byte(d.PointerField)}
	for k := 0; k < d.PointerField; k++ {
		if k < len(filler) {
			out = append(out, filler[k])
		} else {
			out = append(out, 0)
		}
	}
	for _, s := range d.Sections {
		tid := int(s.Header.TableID)
		if !psiRefKnown(tid) {
			out = append(out, byte(tid))
			continue
		}
		out = append(out, psiRefEncodeSection(s)...)
	}
	return out
}

// psiRefFinish fills in the derived fields of a content model from its reference encoding, so that
// the model is exactly what a decoder must deliver.
func psiRefFinish(d *astits.PSIData) {
	for _, s := range d.Sections {
		tid := int(s.Header.TableID)
		s.Header.TableType = psiRefTableName(tid)
		if !psiRefKnown(tid) {
			continue
		}
		b := psiRefEncodeSection(s)
		s.Header.SectionLength = uint16(len(b) - 3)
		if psiRefDecoded(tid) && s.Syntax != nil {
			s.CRC32 = uint32(b[len(b)-4])<<24 | uint32(b[len(b)-3])<<16 | uint32(b[len(b)-2])<<8 | uint32(b[len(b)-1])
		}
		psiEachDescList(s, func(ds []*astits.Descriptor) {
			for _, x := range ds {
				x.Length = uint8(len(psiRefDescBody(x)))
			}
		})
	}
}

func psiEachDescList(s *astits.PSISection, f func([]*astits.Descriptor)) {
	if s == nil || s.Syntax == nil || s.Syntax.Data == nil {
		return
	}
	d := s.Syntax.Data
	if d.PMT != nil {
		f(d.PMT.ProgramDescriptors)
		for _, es := range d.PMT.ElementaryStreams {
			f(es.ElementaryStreamDescriptors)
		}
	}
	if d.NIT != nil {
		f(d.NIT.NetworkDescriptors)
		for _, ts := range d.NIT.TransportStreams {
			f(ts.TransportDescriptors)
		}
	}
	if d.SDT != nil {
		for _, sv := range d.SDT.Services {
			f(sv.Descriptors)
		}
	}
	if d.EIT != nil {
		for _, e := range d.EIT.Events {
			f(e.Descriptors)
		}
	}
	if d.TOT != nil {
		f(d.TOT.Descriptors)
	}
}

// ---------- decoder ----------

var psiErrRef = errors.New("reference decoder: malformed")

type psiRefInfo struct {
	typedDesc bool // a descriptor with a typed body was met (its body is not compared here)
	oldDate   bool // an MJD before 1900-03-01, outside the validity of the Annex C conversion
}

type psiRefRd struct {
	b   []byte
	pos int
	end int
}

func (r *psiRefRd) need(n int) error {
	if n < 0 || r.pos+n > r.end {
		return psiErrRef
	}
	return nil
}
func (r *psiRefRd) u8() int   { v := int(r.b[r.pos]); r.pos++; return v }
func (r *psiRefRd) u16() int  { v := int(r.b[r.pos])<<8 | int(r.b[r.pos+1]); r.pos += 2; return v }
func (r *psiRefRd) left() int { return r.end - r.pos }

// psiRefDecodeDescriptors decodes a descriptor area of exactly n bytes.
func psiRefDecodeDescriptors(r *psiRefRd, n int, info *psiRefInfo) ([]*astits.Descriptor, error) {
	if err := r.need(n); err != nil {
		return nil, err
	}
	end := r.pos + n
	var out []*astits.Descriptor
	for r.pos < end {
		if end-r.pos < 2 {
			return nil, psiErrRef
		}
		tag := uint8(r.u8())
		l := r.u8()
		if r.pos+l > end {
			return nil, psiErrRef
		}
		d := &astits.Descriptor{Tag: tag, Length: uint8(l)}
		if l > 0 {
			body := append([]byte{}, r.b[r.pos:r.pos+l]...)
			switch {
			case psiRefIsUserTag(tag):
				d.UserDefined = body
			case psiRefTypedTags[tag]:
				info.typedDesc = true
			default:
				d.Unknown = &astits.DescriptorUnknown{Tag: tag, Content: body}
			}
		}
		r.pos += l
		out = append(out, d)
	}
	return out, nil
}

// psiRefDescLoopDecode: reserved(4) length(12) descriptors
func psiRefDescLoopDecode(r *psiRefRd, info *psiRefInfo) ([]*astits.Descriptor, error) {
	if err := r.need(2); err != nil {
		return nil, err
	}
	n := r.u16() & 0xfff
	return psiRefDecodeDescriptors(r, n, info)
}

func psiRefTimeField(r *psiRefRd, info *psiRefInfo) (time.Time, error) {
	if err := r.need(5); err != nil {
		return time.Time{}, err
	}
	b := r.b[r.pos : r.pos+5]
	r.pos += 5
	if int(b[0])<<8|int(b[1]) < 15079 {
		info.oldDate = true
	}
	return psiRefDecodeTime(b), nil
}

// psiRefDecodeSection decodes the section that starts at b[0] and is exactly len(b) bytes long
// (header included); the CRC_32 has been verified by the caller.
func psiRefDecodeSection(b []byte, info *psiRefInfo) (*astits.PSISection, error) {
	tid := int(b[0])
	s := &astits.PSISection{Header: &astits.PSISectionHeader{
		TableID:                astits.PSITableID(tid),
		TableType:              psiRefTableName(tid),
		SectionSyntaxIndicator: b[1]&0x80 != 0,
		PrivateBit:             b[1]&0x40 != 0,
		SectionLength:          uint16(b[1]&0x0f)<<8 | uint16(b[2]),
	}}
	if len(b) == 3 {
		return s, nil
	}
	s.Syntax = &astits.PSISectionSyntax{Data: &astits.PSISectionSyntaxData{}}
	if !psiRefDecoded(tid) {
		return s, nil
	}
	n := len(b)
	s.CRC32 = uint32(b[n-4])<<24 | uint32(b[n-3])<<16 | uint32(b[n-2])<<8 | uint32(b[n-1])
	r := &psiRefRd{b: b, pos: 3, end: n - 4}
	ext := 0
	if psiRefLongSyntax(tid) {
		if err := r.need(5); err != nil {
			return nil, err
		}
		ext = r.u16()
		v := r.u8()
		h := &astits.PSISectionSyntaxHeader{TableIDExtension: uint16(ext), VersionNumber: uint8(v>>1) & 0x1f, CurrentNextIndicator: v&1 == 1}
		h.SectionNumber = uint8(r.u8())
		h.LastSectionNumber = uint8(r.u8())
		s.Syntax.Header = h
	}
	var err error
	switch {
	case tid == rTidPAT:
		d := &astits.PATData{TransportStreamID: uint16(ext)}
		if r.left()%4 != 0 {
			return nil, psiErrRef
		}
		for r.left() > 0 {
			pn := r.u16()
			pid := r.u16() & 0x1fff
			d.Programs = append(d.Programs, &astits.PATProgram{ProgramNumber: uint16(pn), ProgramMapID: uint16(pid)})
		}
		s.Syntax.Data.PAT = d
	case tid == rTidPMT:
		d := &astits.PMTData{ProgramNumber: uint16(ext)}
		if err = r.need(2); err != nil {
			return nil, err
		}
		d.PCRPID = uint16(r.u16() & 0x1fff)
		if d.ProgramDescriptors, err = psiRefDescLoopDecode(r, info); err != nil {
			return nil, err
		}
		for r.left() > 0 {
			if err = r.need(3); err != nil {
				return nil, err
			}
			es := &astits.PMTElementaryStream{StreamType: astits.StreamType(r.u8())}
			es.ElementaryPID = uint16(r.u16() & 0x1fff)
			if es.ElementaryStreamDescriptors, err = psiRefDescLoopDecode(r, info); err != nil {
				return nil, err
			}
			d.ElementaryStreams = append(d.ElementaryStreams, es)
		}
		s.Syntax.Data.PMT = d
	case psiRefIsNIT(tid):
		d := &astits.NITData{NetworkID: uint16(ext)}
		if d.NetworkDescriptors, err = psiRefDescLoopDecode(r, info); err != nil {
			return nil, err
		}
		if err = r.need(2); err != nil {
			return nil, err
		}
		ll := r.u16() & 0xfff
		if ll != r.left() {
			return nil, psiErrRef
		}
		for r.left() > 0 {
			if err = r.need(4); err != nil {
				return nil, err
			}
			ts := &astits.NITDataTransportStream{TransportStreamID: uint16(r.u16())}
			ts.OriginalNetworkID = uint16(r.u16())
			if ts.TransportDescriptors, err = psiRefDescLoopDecode(r, info); err != nil {
				return nil, err
			}
			d.TransportStreams = append(d.TransportStreams, ts)
		}
		s.Syntax.Data.NIT = d
	case psiRefIsSDT(tid):
		d := &astits.SDTData{TransportStreamID: uint16(ext)}
		if err = r.need(3); err != nil {
			return nil, err
		}
		d.OriginalNetworkID = uint16(r.u16())
		r.u8()
		for r.left() > 0 {
			if err = r.need(5); err != nil {
				return nil, err
			}
			sv := &astits.SDTDataService{ServiceID: uint16(r.u16())}
			f := r.u8()
			sv.HasEITSchedule = f&2 != 0
			sv.HasEITPresentFollowing = f&1 != 0
			w := r.u16()
			sv.RunningStatus = uint8(w >> 13)
			sv.HasFreeCSAMode = w&0x1000 != 0
			if sv.Descriptors, err = psiRefDecodeDescriptors(r, w&0xfff, info); err != nil {
				return nil, err
			}
			d.Services = append(d.Services, sv)
		}
		s.Syntax.Data.SDT = d
	case psiRefIsEIT(tid):
		d := &astits.EITData{ServiceID: uint16(ext)}
		if err = r.need(6); err != nil {
			return nil, err
		}
		d.TransportStreamID = uint16(r.u16())
		d.OriginalNetworkID = uint16(r.u16())
		d.SegmentLastSectionNumber = uint8(r.u8())
		d.LastTableID = uint8(r.u8())
		for r.left() > 0 {
			if err = r.need(12); err != nil {
				return nil, err
			}
			e := &astits.EITDataEvent{EventID: uint16(r.u16())}
			if e.StartTime, err = psiRefTimeField(r, info); err != nil {
				return nil, err
			}
			e.Duration = psiRefDecodeDuration(r.b[r.pos : r.pos+3])
			r.pos += 3
			w := r.u16()
			e.RunningStatus = uint8(w >> 13)
			e.HasFreeCSAMode = w&0x1000 != 0
			if e.Descriptors, err = psiRefDecodeDescriptors(r, w&0xfff, info); err != nil {
				return nil, err
			}
			d.Events = append(d.Events, e)
		}
		s.Syntax.Data.EIT = d
	case tid == rTidTOT:
		d := &astits.TOTData{}
		if d.UTCTime, err = psiRefTimeField(r, info); err != nil {
			return nil, err
		}
		if d.Descriptors, err = psiRefDescLoopDecode(r, info); err != nil {
			return nil, err
		}
		if r.left() != 0 {
			return nil, psiErrRef
		}
		s.Syntax.Data.TOT = d
	}
	return s, nil
}

// psiRefDecodeUnit decodes a payload unit: pointer_field, filler, then sections until the end of the
// buffer, a stuffing byte (0xff) or an unassigned table id. Any incomplete or damaged section makes
// the whole unit an error; a section of a decoded type is accepted only with a correct CRC_32.
func psiRefDecodeUnit(b []byte) (*astits.PSIData, psiRefInfo, error) {
	var info psiRefInfo
	if len(b) == 0 {
		return nil, info, psiErrRef
	}
	d := &astits.PSIData{PointerField: int(b[0])}
	pos := 1 + int(b[0])
	for pos < len(b) {
		tid := int(b[pos])
		if !psiRefKnown(tid) {
			d.Sections = append(d.Sections, &astits.PSISection{Header: &astits.PSISectionHeader{
				TableID: astits.PSITableID(tid), TableType: psiRefTableName(tid)}})
			break
		}
		if pos+3 > len(b) {
			return nil, info, psiErrRef
		}
		l := int(b[pos+1]&0x0f)<<8 | int(b[pos+2])
		end := pos + 3 + l
		if !psiRefDecoded(tid) || l == 0 {
			// not decoded: skipped by its length (the rest of the unit when it runs past the end)
			if end > len(b) {
				end = len(b)
			}
			s, _ := psiRefDecodeSection(b[pos:pos+3], &info)
			if l > 0 {
				s.Syntax = &astits.PSISectionSyntax{Data: &astits.PSISectionSyntaxData{}}
			}
			d.Sections = append(d.Sections, s)
			pos = pos + 3 + l
			continue
		}
		if end > len(b) || l < 4 {
			return nil, info, psiErrRef
		}
		sec := b[pos:end]
		want := uint32(sec[len(sec)-4])<<24 | uint32(sec[len(sec)-3])<<16 | uint32(sec[len(sec)-2])<<8 | uint32(sec[len(sec)-1])
		if psiRefCRC32(sec[:len(sec)-4]) != want {
			return nil, info, psiErrRef
		}
		s, err := psiRefDecodeSection(sec, &info)
		if err != nil {
			return nil, info, err
		}
		d.Sections = append(d.Sections, s)
		pos = end
	}
	return d, info, nil
}

// ---------- comparison helpers ----------

// blankTyped removes the typed bodies the library decoded, so that a result can be compared with
// the reference decoder's (which keeps tag and length only for those descriptors).
func psiBlankTyped(d *astits.PSIData) {
	for _, s := range d.Sections {
		psiEachDescList(s, func(ds []*astits.Descriptor) {
			for _, x := range ds {
				if psiRefTypedTags[x.Tag] && !psiRefIsUserTag(x.Tag) {
					*x = astits.Descriptor{Tag: x.Tag, Length: x.Length}
				}
			}
		})
	}
}

// psiRefTables is the reference view of what a unit delivers: one entry per section of a decoded type
// that has a syntax part, in order.
func psiRefTables(d *astits.PSIData) []Tok {
	var out []Tok
	for _, s := range d.Sections {
		if s.Syntax == nil || s.Syntax.Data == nil {
			continue
		}
		x := s.Syntax.Data
		tid := int(s.Header.TableID)
		if !psiRefDecoded(tid) {
			continue
		}
		out = append(out, psiRefTableTok(x.EIT, x.NIT, x.PAT, x.PMT, x.SDT, x.TOT))
	}
	return out
}

func psiRefTableTok(eit *astits.EITData, nit *astits.NITData, pat *astits.PATData, pmt *astits.PMTData, sdt *astits.SDTData, tot *astits.TOTData) Tok {
	return L(ToTok(eit), ToTok(nit), ToTok(pat), ToTok(pmt), ToTok(sdt), ToTok(tot))
}

func psiShort(s string) string {
	if len(s) > 300 {
		return s[:300] + fmt.Sprintf("...(%d)", len(s))
	}
	return s
}
