package main

import (
	"fmt"

	astits "github.com/asticode/go-astits"
)

// C05 — per PID the continuity counters of consecutive payload packets step by one modulo 16 over the whole history
// (a PID that is removed and added again carries on), and no counter value is consumed by a call that emits no payload packet on that PID.
// Oracle: scan the writer's bytes per PID; compare the counters exposed by VerifState before and after every call.

func init() { props["C05"] = muxProp{5, genC05, oracleC05} }

func genC05(r *Rng, tier string, emit func(string, Tok)) {
	muxGenAll(r, tier, muxMix{
		random: scale(tier, 120, 600), maxLen: scale(tier, 60, 400),
		wrap: scale(tier, 6, 60), bigPMT: scale(tier, 25, 250), many: scale(tier, 80, 1000), readd: scale(tier, 60, 600), ood: scale(tier, 25, 250),
		exhaustive: scale(tier, 3, 4), sweep: 0xf20,
	}, emit)
}

func ccOf(st astits.VerifMuxerState, pid uint16) (int, bool) {
	for k, p := range st.ESPIDs {
		if p == pid {
			return st.ESCCs[k], true
		}
	}
	return 0, false
}

func oracleC05(period int, ops []muxOp, calls []muxCall) string {
	last := map[uint16]int{}     // PID -> counter of the last payload packet emitted on it
	tainted := map[uint16]bool{} // 13-bit PIDs shared by two sources (explicit PIDs outside the domain, S2)
	prev := astits.VerifMuxerState{PATCC: 16, PMTCC: 16}
	for i, o := range ops {
		c := calls[i]
		before := prev
		prev = c.st
		at := fmt.Sprintf("call %d (%s): ", i, opName(o))
		if o.kind == opAdd && c.code == -1 && o.es.ElementaryPID != 0 && reservedPID(o.es.ElementaryPID) {
			tainted[o.es.ElementaryPID&0x1fff] = true
		}
		if o.kind == opAdd && c.code == -1 && o.es.ElementaryPID == 0 && len(c.st.PMTPIDs) > 0 {
			if pid := c.st.PMTPIDs[len(c.st.PMTPIDs)-1]; reservedPID(pid) {
				return at + fmt.Sprintf("PID %#x assigned automatically is the PID of a table: two continuity counters would share it", pid)
			}
		}
		if o.kind == opData && !muxDataInDomain(o.d) {
			// outside the domain (S1: writer-internal adaptation field members set by the caller, nil PES or header,
			// unsupported header): a rejected first packet may have consumed a counter value; the PID is not judged further
			tainted[o.d.PID&0x1fff] = true
		}
		emitted := map[uint16]bool{}
		if o.kind != opPacket { // a packet handed to WritePacket carries the caller's counter
			pk, _ := tsPackets(c.bytes)
			for k, p := range pk {
				if len(p.bad) > 0 && p.afc == 0 || !p.hasPayload() {
					continue
				}
				emitted[p.pid] = true
				if tainted[p.pid] {
					continue
				}
				if l, ok := last[p.pid]; ok && int(p.cc) != (l+1)%16 {
					return at + fmt.Sprintf("packet %d on PID %#x has continuity_counter %d after %d", k, p.pid, p.cc, l)
				}
				last[p.pid] = int(p.cc)
			}
		}
		// state: a call that emits no payload packet on a PID leaves its counter alone; otherwise the counter is the
		// one of the last payload packet emitted
		check := func(name string, pid uint16, b, a int) string {
			if tainted[pid&0x1fff] {
				return ""
			}
			if !emitted[pid&0x1fff] {
				if a != b {
					return fmt.Sprintf("%s counter went from %d to %d although no payload packet was emitted on PID %#x (code %d)", name, b, a, pid, c.code)
				}
			} else if l, ok := last[pid&0x1fff]; ok && a != l {
				return fmt.Sprintf("%s counter is %d but the last payload packet emitted on PID %#x carries %d", name, a, pid, l)
			}
			return ""
		}
		if w := check("PAT", 0, before.PATCC, c.st.PATCC); w != "" {
			return at + w
		}
		if w := check("PMT", 0x1000, before.PMTCC, c.st.PMTCC); w != "" {
			return at + w
		}
		for k, pid := range before.ESPIDs {
			if o.kind == opRemove && o.pid == pid && c.code == -1 {
				continue
			}
			a, ok := ccOf(c.st, pid)
			if !ok {
				return at + fmt.Sprintf("the context of PID %#x disappeared", pid)
			}
			if w := check("stream", pid, before.ESCCs[k], a); w != "" {
				return at + w
			}
		}
		// Remove then Add of the same PID: the stream carries on with its counter (last is kept), and the context of a
		// PID that is added again starts from the counter of the last payload packet emitted on it
		if o.kind == opAdd && c.code == -1 && len(c.st.PMTPIDs) > 0 {
			pid := c.st.PMTPIDs[len(c.st.PMTPIDs)-1]
			if l, ok := last[pid&0x1fff]; ok && !tainted[pid&0x1fff] && pid < 0x2000 {
				if a, ok := ccOf(c.st, pid); ok && a != l {
					return at + fmt.Sprintf("PID %#x is added again with counter %d, the last payload packet emitted on it carries %d", pid, a, l)
				}
			}
		}
	}
	return ""
}
