package main

import (
	"time"
)

// Shrinking of a failing case, generic over the case's s-expression: drop elements of lists and 188-byte blocks
// (otherwise halves) of byte strings while the property's oracle still reports a violation with the same leading
// text. Bounded in oracle evaluations and wall time; a candidate on which the harness itself panics is rejected.

type tokPath []int

func tokAt(t Tok, p tokPath) Tok {
	for _, i := range p {
		t = t.L[i]
	}
	return t
}

func tokReplace(t Tok, p tokPath, n Tok) Tok {
	if len(p) == 0 {
		return n
	}
	c := Tok{Kind: 'l', L: append([]Tok{}, t.L...)}
	c.L[p[0]] = tokReplace(t.L[p[0]], p[1:], n)
	return c
}

func tokPaths(t Tok, cur tokPath, out *[]tokPath) {
	if t.Kind == 'l' {
		if len(t.L) > 1 {
			*out = append(*out, append(tokPath{}, cur...))
		}
		for i := range t.L {
			tokPaths(t.L[i], append(cur, i), out)
		}
	} else if t.Kind == 'b' && len(t.B) > 1 {
		*out = append(*out, append(tokPath{}, cur...))
	}
}

func sameFailure(a, b string) bool {
	n := 24
	if len(a) < n {
		n = len(a)
	}
	return len(b) >= n && a[:n] == b[:n]
}

func shrinkCase(p Prop, c Tok, what string, budget int, limit time.Duration) (Tok, string, int) {
	start := time.Now()
	evals := 0
	fails := func(t Tok) (string, bool) {
		evals++
		obs := safeRun(p, t)
		if obs.Kind == 'l' && len(obs.L) > 0 && obs.L[0].Kind == 'i' && obs.L[0].I.IsInt64() && obs.L[0].I.Int64() == -99 {
			return "", false
		}
		w := ""
		func() {
			defer func() {
				if recover() != nil {
					w = ""
				}
			}()
			w = p.Oracle(t, obs)
		}()
		return w, w != "" && sameFailure(what, w)
	}
	cur, curWhat := c, what
	progress := true
	for progress && evals < budget && time.Since(start) < limit {
		progress = false
		var paths []tokPath
		tokPaths(cur, nil, &paths)
		// larger nodes first: they remove the most
		for _, path := range paths {
			if evals >= budget || time.Since(start) >= limit {
				break
			}
			node := tokAt(cur, path)
			var cands []Tok
			if node.Kind == 'l' {
				n := len(node.L)
				for size := n / 2; size >= 1; size /= 2 {
					for from := 0; from+size <= n; from += size {
						l := append(append([]Tok{}, node.L[:from]...), node.L[from+size:]...)
						cands = append(cands, Tok{Kind: 'l', L: l})
					}
					if len(cands) > 24 {
						break
					}
				}
			} else {
				n := len(node.B)
				unit := 1
				if n%188 == 0 && n >= 376 {
					unit = 188
				}
				for size := (n / unit / 2) * unit; size >= unit; size = (size / unit / 2) * unit {
					for from := 0; from+size <= n; from += size {
						b := append(append([]byte{}, node.B[:from]...), node.B[from+size:]...)
						cands = append(cands, Tok{Kind: 'b', B: b})
					}
					if len(cands) > 24 || size == unit {
						break
					}
				}
			}
			for _, cand := range cands {
				if evals >= budget || time.Since(start) >= limit {
					break
				}
				t := tokReplace(cur, path, cand)
				if w, ok := fails(t); ok {
					cur, curWhat = t, w
					progress = true
					break
				}
			}
			if progress {
				break // paths are stale: recompute
			}
		}
	}
	return cur, curWhat, evals
}
