module harness

go 1.21

require github.com/asticode/go-astits v0.0.0

require github.com/asticode/go-astikit v0.30.0 // indirect

replace github.com/asticode/go-astits => /repo
