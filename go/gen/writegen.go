package main

// Translation of the WRITERS of packet.go / data_pes.go (functions whose first parameter is a *astikit.BitsWriter)
// and of the packetisation part of muxer.go into Gen/WriteGen.v, on every run, from the current source.
//
// A writer is a computation in the writer monad WM R A emitted at the head of Gen/WriteGen.v:
//
//	(items handed to the BitsWriter so far, in program order; outcome)     outcome = WPanic | WExit r | WVal a
//
//	b := astikit.NewBitsWriterBatch(w)      b stands for w (nothing is emitted)
//	b.Write(x) / b.WriteN(x, n)             wemit WBatch item ;;; ...        item from the STATIC type of x:
//	b.WriteBytesN(x, n, pad)                wemits (wbytes_n WBatch x n pad)   bool -> WBool, uintN -> WBits N, []byte -> WBytes;
//	                                                                          WriteN(x, n) -> WBits n (n a constant); an int, an
//	                                                                          untyped constant or a string is refused
//	err = w.Write(x)  (also as an if-init)  r_ <- w_write WDirect item ;; let err := r_ in ...   (a Write that succeeds returns nil)
//	w.Write(x) as a statement               wemit WDropped item ;;; ...      the result of the call is discarded
//	n, err := writeY(w, args)               '(r1_, r2_) <- wcall (writeY args) ;; let n := r1_ in let err := r2_ in ...
//	b.Err()                                 batch_err (= ENil: no Write fails in this semantics)
//	return v.., e / bare return             wexit (v.., e)      (named results are variables initialised to their zero values)
//	if c { A } else { B } ; rest            '(vars) <- (if c then A ;; wret vars else B ;; wret vars) ;; rest
//	                                        vars = the variables declared outside the blocks that they assign; a `return`
//	                                        inside a block is wexit, which wbind hands through: no continuation is copied
//	for i := a; i < E; i++ { body }         '(vars) <- f_loopK (Z.to_nat (E - i)) <all variables in scope> ;; rest
//	for x < E { body; x++ }                 a Fixpoint on the trip count; accepted only as the counting idiom: the counter is
//	                                        incremented exactly once, unconditionally, at the end of every iteration and is not
//	                                        assigned otherwise, E does not mention anything the body assigns, no break / continue
//	p.f.g with p.f a pointer                t_ <- wneed (T_f p) ;; ... (T_g t_) ...: a nil dereference is WPanic, raised in
//	                                        front of the statement that contains it (refused under && / ||)
//	f(x.ptr) for a translated f whose parameter is the record (never compared with nil): the same wneed at the call
//	x == nil / x != nil                     on an option: match; on an error: merror_is_nil
//	x[a:b]                                  t_ <- wslice x a b ;; ...   (WPanic outside 0 <= a <= b <= len x; the capacity of a
//	                                        slice is not modelled)
//	fmt.Errorf(..) / nil as an error        EFmt / ENil  (error is the inductive merror of Gen/MuxGen.v)
//
// Integers, `mod 2^N`, records, Gen/Preds.v calls: the expression translator of preds.go. A *T parameter that the
// function never compares with nil is the record T (the caller's wneed stands for the dereference inside the callee: the
// position of that panic among the callee's writes is not modelled); one that it does compare is an option.
// Every declaration is a `let`; a variable of an enclosing block may not be re-declared (shadowing is refused).
//
// The third part (muxer.go) is in the second half of this file: see wgMuxer.
//
// Whatever leaves this grammar raises a genError: the function is replaced by a NOT TRANSLATED comment,
// "gen: not translated:" goes to stderr, Proofs/WriteGen*.v stop compiling and the check names the broken lemma.

import (
	"fmt"
	"go/ast"
	"go/token"
	"os"
	"sort"
	"strings"
)

var writeEntries = []string{
	"writePacketHeader", "writePCR", "writePTSOrDTS", "writePacketAdaptationFieldExtension", "writePacketAdaptationField", "writePacket",
	"writeESCR", "writeDSMTrickMode", "writePESOptionalHeader", "writePESHeader", "writePESData",
}

type wgSig struct {
	params  []*ty
	results []*ty
}

var wgFuncs = map[string]*wgSig{}

type wgSnap struct {
	env       map[string]*ty
	declDepth map[string]int
	cache     map[string]string
	alias     map[string]string
	prov      map[string]map[string]bool
}

type wg struct {
	p           *pkg
	t           *tr
	key         string
	wname       string          // the *astikit.BitsWriter parameter
	batch       map[string]bool // locals bound by astikit.NewBitsWriterBatch(w)
	depth       int
	declDepth   map[string]int
	wstack      []map[string]bool
	named       []string
	results     []*ty
	pre         []string
	leaves      map[string]bool
	cache       map[string]string // rendered option term -> variable holding its content
	nfresh      int
	loops       []string
	nloop       int
	guarded     bool
	retTy       string
	alias       map[string]string          // Go name -> internal name of the variable that shadows an outer one
	prov        map[string]map[string]bool // pointer-typed path -> where the pointer may come from
	stmtNode    ast.Node
	pendingProv string
	mux         *wgMux // set while translating the muxer part
	psi         *wgPsi // set while translating the PSI / descriptor / DVB writers (psiwritegen.go)
}

func (s *wg) fail(n ast.Node, format string, a ...interface{}) { s.t.fail(n, format, a...) }

func (s *wg) fresh(base string) string {
	s.nfresh++
	return fmt.Sprintf("%s%d_", base, s.nfresh)
}

func (s *wg) leaf(n ast.Node, term string, typ *ty) *ast.Ident {
	s.t.env[term] = typ
	s.leaves[term] = true
	return &ast.Ident{NamePos: n.Pos(), Name: term}
}

// ---------- bookkeeping ----------

func (s *wg) snapshot() wgSnap {
	env := map[string]*ty{}
	for k, v := range s.t.env {
		env[k] = v
	}
	dd := map[string]int{}
	for k, v := range s.declDepth {
		dd[k] = v
	}
	c := map[string]string{}
	for k, v := range s.cache {
		c[k] = v
	}
	al := map[string]string{}
	for k, v := range s.alias {
		al[k] = v
	}
	return wgSnap{env, dd, c, al, copyProv(s.prov)}
}

func copyProv(p map[string]map[string]bool) map[string]map[string]bool {
	out := map[string]map[string]bool{}
	for k, v := range p {
		m := map[string]bool{}
		for o := range v {
			m[o] = true
		}
		out[k] = m
	}
	return out
}

func (s *wg) restore(x wgSnap) {
	s.t.env = map[string]*ty{}
	for k, v := range x.env {
		s.t.env[k] = v
	}
	s.declDepth = map[string]int{}
	for k, v := range x.declDepth {
		s.declDepth[k] = v
	}
	s.cache = map[string]string{}
	for k, v := range x.cache {
		s.cache[k] = v
	}
	s.alias = map[string]string{}
	for k, v := range x.alias {
		s.alias[k] = v
	}
	s.prov = copyProv(x.prov)
}

func (s *wg) pushW() { s.wstack = append(s.wstack, map[string]bool{}) }
func (s *wg) popW() map[string]bool {
	w := s.wstack[len(s.wstack)-1]
	s.wstack = s.wstack[:len(s.wstack)-1]
	if len(s.wstack) > 0 {
		for k := range w {
			s.wstack[len(s.wstack)-1][k] = true
		}
	}
	return w
}

func (s *wg) wrote(v string) {
	if len(s.wstack) > 0 {
		s.wstack[len(s.wstack)-1][v] = true
	}
	// a cached dereference may go through the variable: forget them all when a record or pointer is rebound
	if t, ok := s.t.env[v]; ok && (t.k == "struct" || t.k == "opt") {
		s.cache = map[string]string{}
	}
}

// define declares a variable at the current depth and returns the name it has in the generated term: a variable that
// shadows one of an enclosing scope gets a fresh internal name (s.alias), so the outer one is intact when the scope ends.
func (s *wg) define(n ast.Node, name string, typ *ty) string {
	if name == s.wname || s.batch[name] {
		s.fail(n, "%s redeclares a writer", name)
	}
	in := name
	if cur, ok := s.alias[name]; ok {
		in = cur
	}
	if _, ok := s.t.env[in]; ok {
		if d, ok := s.declDepth[in]; !ok || d < s.depth {
			if s.mux != nil && s.mux.state[in] {
				s.fail(n, "%s shadows a state variable", name)
			}
			for _, r := range s.named {
				if r == name {
					s.fail(n, "%s shadows a named result", name)
				}
			}
			s.nfresh++
			in = fmt.Sprintf("%s_s%d", name, s.nfresh)
			s.alias[name] = in
		}
	}
	s.t.bind(in, typ, n.Pos())
	s.declDepth[in] = s.depth
	s.wrote(in)
	s.dropProv(in)
	return in
}

func (s *wg) resolve(name string) string {
	if a, ok := s.alias[name]; ok {
		return a
	}
	return name
}

func (s *wg) dropProv(v string) {
	for k := range s.prov {
		if k == v || strings.HasPrefix(k, v+".") {
			delete(s.prov, k)
		}
	}
}

func (s *wg) envNames() map[string]bool {
	out := map[string]bool{}
	for v := range s.t.env {
		out[v] = true
	}
	return out
}

func (s *wg) restrictEnv(names map[string]bool) {
	for v := range s.t.env {
		if !names[v] && !s.leaves[v] {
			delete(s.t.env, v)
			delete(s.declDepth, v)
		}
	}
	for k, v := range s.cache {
		if _, ok := s.t.env[v]; !ok {
			delete(s.cache, k)
		}
	}
	for k, v := range s.alias {
		if _, ok := s.t.env[v]; !ok {
			delete(s.alias, k)
		}
	}
	for k := range s.prov {
		root := k
		if i := strings.Index(k, "."); i >= 0 {
			root = k[:i]
		}
		if _, ok := s.t.env[root]; !ok {
			delete(s.prov, k)
		}
	}
	if s.mux != nil && s.mux.viewHolder != "" {
		if _, ok := s.t.env[s.mux.viewHolder]; !ok {
			s.mux.viewHolder = ""
		}
	}
}

func (s *wg) envVars() []string {
	var out []string
	for v := range s.t.env {
		if s.leaves[v] {
			continue
		}
		out = append(out, v)
	}
	s.t.sortDecl(out)
	return out
}

func (s *wg) flush() string {
	o := strings.Join(s.pre, "")
	s.pre = nil
	return o
}

// ---------- expressions ----------

func (s *wg) sx(e ast.Expr) (string, *ty) { return s.t.expr(s.rw(e)) }

// need binds the content of an option-typed expression (already rewritten) in front of the current statement.
func (s *wg) need(e ast.Expr, n ast.Node) ast.Expr {
	term, typ := s.t.expr(e)
	if typ.k != "opt" {
		return e
	}
	if v, ok := s.cache[term]; ok {
		if _, live := s.t.env[v]; live {
			return &ast.Ident{NamePos: n.Pos(), Name: v} // already dereferenced on this path: no new panic point
		}
	}
	if s.guarded {
		s.fail(n, "dereference of a pointer under a short-circuit operator")
	}
	base := "p"
	if sel, ok := e.(*ast.SelectorExpr); ok {
		base = strings.ToLower(sel.Sel.Name[:1]) + sel.Sel.Name[1:]
	} else if id, ok := e.(*ast.Ident); ok {
		base = id.Name
	}
	if i := strings.LastIndexAny(base, " ()"); i >= 0 {
		// a rendered term (leaf): name the variable after the last field it selects
		base = "p"
		if f := strings.Fields(strings.Trim(term, "()")); len(f) > 0 {
			if j := strings.LastIndex(f[0], "_"); j >= 0 && j+1 < len(f[0]) {
				base = strings.ToLower(f[0][j+1:j+2]) + f[0][j+2:]
			}
		}
	}
	v := s.fresh(base + "_")
	s.pre = append(s.pre, v+" <- wneed "+paren(term)+" ;;\n  ")
	s.t.bind(v, typ.elem, n.Pos())
	s.declDepth[v] = s.depth
	s.cache[term] = v
	return &ast.Ident{NamePos: n.Pos(), Name: v}
}

func (s *wg) isWriter(e ast.Expr) bool {
	id, ok := e.(*ast.Ident)
	return ok && (id.Name == s.wname || s.batch[id.Name]) && id.Name != ""
}

func (s *wg) rwAll(es []ast.Expr) []ast.Expr {
	var out []ast.Expr
	for _, e := range es {
		out = append(out, s.rw(e))
	}
	return out
}

func (s *wg) rw(e ast.Expr) ast.Expr {
	if s.mux != nil {
		if r, ok := s.mux.rw(e); ok {
			return r
		}
	}
	if s.psi != nil {
		if r, ok := s.psi.rw(e); ok {
			return r
		}
	}
	switch x := e.(type) {
	case *ast.Ident:
		if x.Name == "nil" {
			s.fail(x, "nil outside an assignment, a return or a comparison")
		}
		if s.isWriter(x) {
			s.fail(x, "writer %s used as a value", x.Name)
		}
		if a, ok := s.alias[x.Name]; ok {
			return &ast.Ident{NamePos: x.NamePos, Name: a}
		}
		return x
	case *ast.BasicLit:
		return x
	case *ast.ParenExpr:
		return &ast.ParenExpr{Lparen: x.Lparen, X: s.rw(x.X), Rparen: x.Rparen}
	case *ast.StarExpr:
		return s.need(s.rw(x.X), x)
	case *ast.UnaryExpr:
		if x.Op == token.AND {
			if _, ok := x.X.(*ast.CompositeLit); !ok {
				s.fail(x, "address of something that is not a composite literal")
			}
		}
		return &ast.UnaryExpr{OpPos: x.OpPos, Op: x.Op, X: s.rw(x.X)}
	case *ast.BinaryExpr:
		if o, isNil := nilCompare(x); isNil {
			vs, vt := s.sx(o)
			var r string
			switch {
			case vt.k == "opt":
				r = "(match " + vs + " with Some _ => false | None => true end)"
			case vt.k == "opaque" && vt.name == "merror":
				r = "(merror_is_nil " + vs + ")"
			default:
				s.fail(x, "nil comparison of a value that is neither an option nor an error")
			}
			if x.Op == token.NEQ {
				r = "(negb " + r + ")"
			}
			return s.leaf(x, r, tBool)
		}
		if x.Op == token.LAND || x.Op == token.LOR {
			l := s.rw(x.X)
			saved := s.guarded
			s.guarded = true
			r := s.rw(x.Y)
			s.guarded = saved
			return &ast.BinaryExpr{X: l, OpPos: x.OpPos, Op: x.Op, Y: r}
		}
		return &ast.BinaryExpr{X: s.rw(x.X), OpPos: x.OpPos, Op: x.Op, Y: s.rw(x.Y)}
	case *ast.CompositeLit:
		id, ok := x.Type.(*ast.Ident)
		if !ok || !emittedStructs[id.Name] {
			s.fail(x, "composite literal of something that is not a modelled struct")
		}
		out := &ast.CompositeLit{Type: x.Type, Lbrace: x.Lbrace, Rbrace: x.Rbrace}
		for _, el := range x.Elts {
			kv, ok := el.(*ast.KeyValueExpr)
			if !ok {
				s.fail(x, "unkeyed composite literal")
			}
			k := kv.Key.(*ast.Ident).Name
			ft := s.t.structFieldType(id.Name, k, kv)
			var v ast.Expr
			if isNilIdent(kv.Value) {
				v = s.leaf(kv, wgNilOf(ft), ft)
			} else {
				v = s.rw(kv.Value)
			}
			out.Elts = append(out.Elts, &ast.KeyValueExpr{Key: kv.Key, Colon: kv.Colon, Value: v})
		}
		return out
	case *ast.SelectorExpr:
		if id, ok := x.X.(*ast.Ident); ok {
			if _, inEnv := s.t.env[s.resolve(id.Name)]; !inEnv {
				if s.isWriter(id) {
					s.fail(x, "field of a writer")
				}
				return x // package selector: tr.expr decides
			}
		}
		return &ast.SelectorExpr{X: s.need(s.rw(x.X), x), Sel: x.Sel}
	case *ast.SliceExpr:
		if x.Slice3 {
			s.fail(x, "three-index slice")
		}
		xs, xt := s.sx(x.X)
		if xt.k != "bytes" {
			s.fail(x, "slice expression on something that is not a byte slice")
		}
		if s.guarded {
			s.fail(x, "slice expression under a short-circuit operator")
		}
		lo, hi := "0", "(Z.of_nat (List.length "+xs+"))"
		if x.Low != nil {
			lo, _ = s.sx(x.Low)
		}
		if x.High != nil {
			hi, _ = s.sx(x.High)
		}
		v := s.fresh("slice_")
		s.pre = append(s.pre, v+" <- wslice "+paren(xs)+" "+paren(lo)+" "+paren(hi)+" ;;\n  ")
		s.t.bind(v, tBytes, x.Pos())
		s.declDepth[v] = s.depth
		return &ast.Ident{NamePos: x.Pos(), Name: v}
	case *ast.IndexExpr:
		s.fail(x, "index expression (it can panic; not in the grammar)")
	case *ast.CallExpr:
		return s.rwCall(x)
	}
	s.fail(e, "unsupported expression %T", e)
	return nil
}

func wgNilOf(t *ty) string {
	switch t.k {
	case "list":
		return "(@nil " + t.elem.coq() + ")"
	case "bytes":
		return "(@nil Z)"
	case "opt":
		return "None"
	case "opaque":
		if t.name == "merror" {
			return "ENil"
		}
	}
	return "?"
}

func (s *wg) rwCall(x *ast.CallExpr) ast.Expr {
	switch f := x.Fun.(type) {
	case *ast.Ident:
		if _, isVar := s.t.env[s.resolve(f.Name)]; isVar {
			s.fail(x, "call of a function value")
		}
		if _, isW := wgFuncs[f.Name]; isW {
			s.fail(x, "writer %s is called inside an expression", f.Name)
		}
		switch f.Name {
		case "len":
			return &ast.CallExpr{Fun: f, Lparen: x.Lparen, Args: s.rwAll(x.Args), Rparen: x.Rparen}
		case "append", "make", "new", "copy", "delete", "panic", "recover", "cap":
			s.fail(x, "%s inside an expression", f.Name)
		}
		if _, _, isInt := s.p.intType(f.Name); isInt && len(x.Args) == 1 {
			return &ast.CallExpr{Fun: f, Lparen: x.Lparen, Args: s.rwAll(x.Args), Rparen: x.Rparen}
		}
		if !translated[f.Name] {
			s.fail(x, "call of untranslated function %s", f.Name)
		}
		sig := funcSig[f.Name]
		args := s.rwAll(x.Args)
		if len(args) != len(sig) {
			s.fail(x, "wrong number of arguments for %s", f.Name)
		}
		for i, a := range args {
			_, at := s.t.expr(a)
			if sig[i].k == "struct" && at.k == "opt" {
				args[i] = s.need(a, x)
			}
		}
		return &ast.CallExpr{Fun: f, Lparen: x.Lparen, Args: args, Rparen: x.Rparen}
	case *ast.SelectorExpr:
		if id, ok := f.X.(*ast.Ident); ok {
			if s.batch[id.Name] && f.Sel.Name == "Err" && len(x.Args) == 0 {
				return s.leaf(x, "batch_err", tyErr)
			}
			if s.isWriter(id) {
				s.fail(x, "writer method %s inside an expression", f.Sel.Name)
			}
			if _, inEnv := s.t.env[s.resolve(id.Name)]; !inEnv {
				if id.Name == "fmt" && f.Sel.Name == "Errorf" {
					for _, a := range x.Args {
						if lit, ok := a.(*ast.BasicLit); ok && lit.Kind == token.STRING {
							continue
						}
						if s.psi != nil {
							a = s.psi.errorfArg(a)
						}
						s.sx(a) // the arguments must be translatable (nothing hidden in them); their dereferences are hoisted
					}
					return s.leaf(x, "EFmt", tyErr)
				}
				if id.Name == "errors" && f.Sel.Name == "New" {
					return s.leaf(x, "EFmt", tyErr)
				}
				return &ast.CallExpr{Fun: f, Lparen: x.Lparen, Args: s.rwAll(x.Args), Rparen: x.Rparen}
			}
		}
		// method of a translated type: the receiver is dereferenced when it is a pointer
		rx := s.need(s.rw(f.X), x)
		_, xt := s.t.expr(rx)
		if xt.k == "struct" && hasStateMethod(xt.name, f.Sel.Name) {
			return s.hoistState(x, f, xt)
		}
		return &ast.CallExpr{Fun: &ast.SelectorExpr{X: rx, Sel: f.Sel}, Lparen: x.Lparen, Args: s.rwAll(x.Args), Rparen: x.Rparen}
	}
	s.fail(x, "unsupported call")
	return nil
}

// value translates e for a destination of type want.
func (s *wg) value(e ast.Expr, want *ty, n ast.Node) string {
	if isNilIdent(e) {
		if want == nil {
			s.fail(n, "nil where its type is not known")
		}
		v := wgNilOf(want)
		if v == "?" {
			s.fail(n, "nil for a value that is not modelled as a list, an option or an error")
		}
		return v
	}
	if u, ok := e.(*ast.UnaryExpr); ok && u.Op == token.AND && s.mux != nil {
		if id, ok := u.X.(*ast.Ident); ok && want != nil && want.k == "struct" {
			// &local handed to a translated function (which cannot keep the pointer): the record
			e = id
		}
	}
	r := s.rw(e)
	v, vt := s.t.expr(r)
	if want == nil {
		return v
	}
	switch {
	case want.k == "struct" && vt.k == "opt":
		v, vt = s.t.expr(s.need(r, n))
	case want.k == "opt" && vt.k == "struct":
		return "(Some " + v + ")"
	}
	if !mgSameTy(vt, want) {
		s.fail(n, "value of type %s where %s is expected", vt.coq(), want.coq())
	}
	return v
}

// item renders the witem a Write / WriteN of e hands to the BitsWriter.
func (s *wg) item(e ast.Expr, width ast.Expr, n ast.Node) string {
	v, vt := s.sx(e)
	if width != nil {
		wv, ok := s.p.evalConst(width, map[string]bool{})
		if !ok || wv.Sign() < 0 || wv.Int64() > 64 {
			s.fail(n, "WriteN with a width that is not a constant in 0..64")
		}
		if vt.k != "int" || vt.w == 0 {
			s.fail(n, "WriteN of a value whose static type is not uint8/16/32/64 (astikit returns an error)")
		}
		return fmt.Sprintf("(WBits %d %s)", wv.Int64(), v)
	}
	switch {
	case vt.k == "bool":
		return "(WBool " + v + ")"
	case vt.k == "int" && vt.w > 0:
		return fmt.Sprintf("(WBits %d %s)", vt.w, v)
	case vt.k == "bytes":
		return "(WBytes " + v + ")"
	}
	s.fail(n, "Write of a value whose static type is not bool, uint8/16/32/64 or []byte (astikit returns an error)")
	return ""
}

// ---------- statements ----------

func wgTup(vars []string) string {
	if len(vars) == 0 {
		return "tt"
	}
	if len(vars) == 1 {
		return vars[0]
	}
	return "(" + strings.Join(vars, ", ") + ")"
}

func wgBind(vars []string, m, k string) string {
	switch len(vars) {
	case 0:
		return m + " ;;;\n  " + k
	case 1:
		return vars[0] + " <- " + m + " ;;\n  " + k
	}
	return "'(" + strings.Join(vars, ", ") + ") <- " + m + " ;;\n  " + k
}

// bindEffect binds the results of a computation that may hand items to the BitsWriter. While a write callback is
// registered (psiwritegen.go) the items are also appended to the ghost variable the callback's accumulator is read from.
func (s *wg) bindEffect(vars []string, m string, k func() string) string {
	if s.psi != nil && s.psi.cb != nil {
		return s.psi.bindTracked(vars, m, k)
	}
	return wgBind(vars, m, k())
}

func (s *wg) ret(st *ast.ReturnStmt) string {
	if len(st.Results) == 0 {
		if len(s.results) != len(s.named) {
			s.fail(st, "bare return without named results")
		}
		return "wexit " + s.exitVal(cnames(s.named))
	}
	if len(st.Results) != len(s.results) {
		s.fail(st, "wrong number of results (a call returning several values?)")
	}
	var parts []string
	for i, r := range st.Results {
		parts = append(parts, s.value(r, s.results[i], st))
	}
	return s.flush() + "wexit " + s.exitVal(parts)
}

func (s *wg) exitVal(parts []string) string {
	if s.mux != nil {
		return s.mux.exitVal(parts)
	}
	return wgTup(parts)
}

// writerCall recognises W.M(args) on the function's writer or on a batch bound to it.
func (s *wg) writerCall(e ast.Expr) (recv string, meth string, c *ast.CallExpr, ok bool) {
	c, ok = e.(*ast.CallExpr)
	if !ok {
		return
	}
	sel, ok := c.Fun.(*ast.SelectorExpr)
	if !ok {
		return "", "", nil, false
	}
	id, ok := sel.X.(*ast.Ident)
	if !ok || !s.isWriter(id) {
		return "", "", nil, false
	}
	return id.Name, sel.Sel.Name, c, true
}

// funcCall recognises writeY(w, args) for a translated writer.
func (s *wg) funcCall(e ast.Expr) (string, *ast.CallExpr, bool) {
	c, ok := e.(*ast.CallExpr)
	if !ok {
		return "", nil, false
	}
	f, ok := c.Fun.(*ast.Ident)
	if !ok {
		return "", nil, false
	}
	if d, isF := s.p.funcs[f.Name]; isF && wgIsWriterFunc(d) {
		return f.Name, c, true
	}
	if s.psi != nil && wgPureM[f.Name] {
		return f.Name, c, true
	}
	return "", nil, false
}

func wgIsWriterType(e ast.Expr) bool {
	st, ok := e.(*ast.StarExpr)
	if !ok {
		return false
	}
	sel, ok := st.X.(*ast.SelectorExpr)
	if !ok {
		return false
	}
	x, ok := sel.X.(*ast.Ident)
	return ok && x.Name == "astikit" && sel.Sel.Name == "BitsWriter"
}

func wgIsWriterFunc(d *ast.FuncDecl) bool {
	if d.Recv != nil || d.Type.Params == nil || len(d.Type.Params.List) == 0 {
		return false
	}
	return wgIsWriterType(d.Type.Params.List[0].Type)
}

// effect translates a call that writes; it returns the monadic computation and the types of its results.
func (s *wg) effect(e ast.Expr, dropped bool, n ast.Node) (string, []*ty, bool) {
	m, res, _, ok := s.effectT(e, dropped, n)
	return m, res, ok
}

// effectT also reports where the items of a captured call go ("" = the function's own writer).
func (s *wg) effectT(e ast.Expr, dropped bool, n ast.Node) (string, []*ty, string, bool) {
	if recv, meth, c, ok := s.writerCall(e); ok && meth != "Err" {
		direct := recv == s.wname
		src := "WBatch"
		if direct {
			src = "WDirect"
			if dropped {
				src = "WDropped"
			}
		}
		switch meth {
		case "Write":
			if len(c.Args) != 1 {
				s.fail(n, "Write with %d arguments", len(c.Args))
			}
			it := s.item(c.Args[0], nil, n)
			if direct {
				return "w_write " + src + " " + it, []*ty{tyErr}, "", true
			}
			return "wemit " + src + " " + it, nil, "", true
		case "WriteN":
			if len(c.Args) != 2 {
				s.fail(n, "WriteN with %d arguments", len(c.Args))
			}
			it := s.item(c.Args[0], c.Args[1], n)
			if direct {
				return "w_write " + src + " " + it, []*ty{tyErr}, "", true
			}
			return "wemit " + src + " " + it, nil, "", true
		case "WriteBytesN":
			if len(c.Args) != 3 {
				s.fail(n, "WriteBytesN with %d arguments", len(c.Args))
			}
			bs, bt := s.sx(c.Args[0])
			if bt.k != "bytes" {
				s.fail(n, "WriteBytesN of something that is not a byte slice")
			}
			nv, ok := s.p.evalConst(c.Args[1], map[string]bool{})
			if !ok || nv.Sign() <= 0 {
				s.fail(n, "WriteBytesN with a length that is not a positive constant")
			}
			pad, pt := s.sx(c.Args[2])
			if pt.k != "int" && pt.k != "untyped" {
				s.fail(n, "WriteBytesN with a pad byte that is not an integer")
			}
			m := "wemits (wbytes_n " + src + " " + paren(bs) + " " + nv.String() + " " + paren(pad) + ")"
			if direct {
				return "(" + m + " ;;; wret ENil)", []*ty{tyErr}, "", true
			}
			return m, nil, "", true
		}
		s.fail(n, "unsupported writer method %s", meth)
	}
	if name, c, ok := s.funcCall(e); ok {
		sig, ok := wgFuncs[name]
		if !ok {
			s.fail(n, "call of the untranslated writer %s", name)
		}
		// a function that is in the writer monad only because it can panic has no writer: all its arguments are parameters
		comp, target, cargs := "wcall", "", c.Args
		if !wgPureM[name] {
			if len(c.Args) == 0 {
				s.fail(n, "%s is called without a writer", name)
			}
			comp, target, ok = s.writerArg(c.Args[0], n)
			if !ok {
				s.fail(n, "%s writes through something that is not this function's writer", name)
			}
			cargs = c.Args[1:]
		}
		if len(cargs) != len(sig.params) {
			s.fail(n, "wrong number of arguments for %s", name)
		}
		parts := []string{name}
		for i, a := range cargs {
			parts = append(parts, paren(s.value(a, sig.params[i], n)))
		}
		return comp + " (" + strings.Join(parts, " ") + ")", sig.results, target, true
	}
	return "", nil, "", false
}

// writerArg: the first argument of a writer call; "wcall" when it is the function's own writer.
func (s *wg) writerArg(e ast.Expr, n ast.Node) (string, string, bool) {
	if id, ok := e.(*ast.Ident); ok && id.Name == s.wname && s.wname != "" {
		return "wcall", "", true
	}
	if s.mux != nil {
		if t, ok := s.mux.writerArg(e, n); ok {
			return "wcapture", t, true
		}
	}
	return "", "", false
}

func isBatchCtor(e ast.Expr) (ast.Expr, bool) {
	c, ok := e.(*ast.CallExpr)
	if !ok || len(c.Args) != 1 {
		return nil, false
	}
	sel, ok := c.Fun.(*ast.SelectorExpr)
	if !ok || sel.Sel.Name != "NewBitsWriterBatch" || !isIdent(sel.X, "astikit") {
		return nil, false
	}
	return c.Args[0], true
}

func (s *wg) stmts(list []ast.Stmt, k func() string) string {
	if len(list) == 0 {
		return k()
	}
	rest := func() string { return s.stmts(list[1:], k) }
	if s.mux != nil {
		if out, ok := s.mux.stmt(list, k); ok {
			return out
		}
	}
	if s.psi != nil {
		if out, ok := s.psi.stmt(list, k); ok {
			return out
		}
	}
	switch st := list[0].(type) {
	case *ast.ReturnStmt:
		s.stmtNode = st
		r := s.ret(st)
		s.stmtNode = nil
		return r
	case *ast.EmptyStmt:
		return rest()
	case *ast.BlockStmt:
		outer, d := s.envNames(), s.depth
		s.depth++
		return s.stmts(st.List, func() string {
			s.depth = d
			s.restrictEnv(outer)
			return rest()
		})
	case *ast.DeclStmt:
		gd, ok := st.Decl.(*ast.GenDecl)
		if !ok || gd.Tok != token.VAR {
			s.fail(st, "unsupported declaration")
		}
		out := ""
		for _, sp := range gd.Specs {
			vs := sp.(*ast.ValueSpec)
			for i, id := range vs.Names {
				var typ *ty
				if vs.Type != nil {
					typ = s.gotype(vs.Type, st)
				}
				var val string
				if i < len(vs.Values) {
					if typ == nil {
						v, vt := s.sx(vs.Values[i])
						if vt.k == "untyped" {
							vt = tInt
						}
						val, typ = v, vt
					} else {
						val = s.value(vs.Values[i], typ, st)
					}
				} else {
					if typ == nil {
						s.fail(st, "declaration without type")
					}
					val = wgZero(typ)
					if val == "?" {
						s.fail(st, "zero value of a type that is not modelled")
					}
				}
				out += s.flush()
				in := s.define(id, id.Name, typ)
				out += "let " + cname(in) + " := " + val + " in\n  "
			}
		}
		return out + rest()
	case *ast.IncDecStmt:
		tok := token.ADD_ASSIGN
		if st.Tok == token.DEC {
			tok = token.SUB_ASSIGN
		}
		return s.assignTo(st.X, tok, "1", tUntyped, st) + rest()
	case *ast.ExprStmt:
		s.stmtNode = st
		m, _, target, ok := s.effectT(st.X, true, st)
		if !ok {
			s.fail(st, "unsupported expression statement")
		}
		pre := s.flush()
		s.stmtNode = nil
		if target != "" {
			it := s.fresh("items")
			return pre + "'(" + it + ", _) <- " + m + " ;;\n  " + s.mux.capture(target, it, st) + rest()
		}
		return pre + s.bindEffect(nil, m, rest)
	case *ast.AssignStmt:
		s.stmtNode = st
		return s.assignStmt(st, func() string { s.stmtNode = nil; return rest() })
	case *ast.SwitchStmt:
		if st.Init != nil {
			s.fail(st, "switch with init")
		}
		return s.stmts(append([]ast.Stmt{s.t.switchToIf(st)}, list[1:]...), k)
	case *ast.IfStmt:
		return s.ifStmt(st, list[1:], k)
	case *ast.ForStmt:
		return s.forStmt(st, list[1:], k)
	}
	s.fail(list[0], "unsupported statement %T", list[0])
	return ""
}

func wgZero(t *ty) string {
	if t.k == "opaque" {
		if t.name == "merror" {
			return "ENil"
		}
		return "?"
	}
	return t.zero()
}

func (s *wg) gotype(e ast.Expr, n ast.Node) *ty {
	if isIdent(e, "error") {
		return tyErr
	}
	return s.t.goType(e)
}

func (s *wg) assignStmt(st *ast.AssignStmt, rest func() string) string {
	// b := astikit.NewBitsWriterBatch(w)
	if len(st.Lhs) == 1 && len(st.Rhs) == 1 {
		if arg, ok := isBatchCtor(st.Rhs[0]); ok {
			id, isId := st.Lhs[0].(*ast.Ident)
			if !isId || st.Tok != token.DEFINE || !isIdent(arg, s.wname) || s.wname == "" {
				s.fail(st, "a batch writer is bound otherwise than by `b := astikit.NewBitsWriterBatch(<the function's writer>)`")
			}
			if _, clash := s.t.env[id.Name]; clash || s.depth != 0 {
				s.fail(st, "batch writer %s shadows a variable or is created inside a block", id.Name)
			}
			s.batch[id.Name] = true
			return rest()
		}
	}
	// calls that write
	if len(st.Rhs) == 1 {
		if m, res, target, ok := s.effectT(st.Rhs[0], false, st); ok {
			if len(res) != len(st.Lhs) {
				s.fail(st, "%d values assigned from a call that yields %d", len(st.Lhs), len(res))
			}
			pre := s.flush()
			var tmps []string
			for range res {
				tmps = append(tmps, s.fresh("r"))
			}
			out := ""
			if target != "" {
				it := s.fresh("items")
				out = s.mux.capture(target, it, st)
				for i, l := range st.Lhs {
					out += s.assignTo(l, st.Tok, tmps[i], res[i], st)
				}
				return pre + "'(" + it + ", " + wgTup(tmps) + ") <- " + m + " ;;\n  " + out + rest()
			}
			for i, l := range st.Lhs {
				out += s.assignTo(l, st.Tok, tmps[i], res[i], st)
			}
			return pre + s.bindEffect(tmps, m, func() string { return out + rest() })
		}
	}
	if len(st.Lhs) != len(st.Rhs) {
		s.fail(st, "unsupported multiple assignment")
	}
	if len(st.Lhs) > 1 {
		out := ""
		type tv struct {
			v string
			t *ty
		}
		var tmp []tv
		for i, r := range st.Rhs {
			var v string
			var vt *ty
			if isNilIdent(r) {
				vt = s.lhsType(st.Lhs[i])
				v = s.value(r, vt, st)
			} else {
				v, vt = s.sx(r)
			}
			t := s.fresh("tmp")
			tmp = append(tmp, tv{t, vt})
			out += "let " + t + " := " + v + " in\n  "
		}
		out = s.flush() + out
		for i, l := range st.Lhs {
			out += s.assignTo(l, st.Tok, tmp[i].v, tmp[i].t, st)
		}
		return out + rest()
	}
	lhs, rhs := st.Lhs[0], st.Rhs[0]
	var v string
	var vt *ty
	if isNilIdent(rhs) {
		vt = s.lhsType(lhs)
		v = s.value(rhs, vt, st)
	} else {
		if s.mux != nil {
			if view, ok := s.mux.bufView(rhs); ok {
				return s.mux.assignView(lhs, view, st) + rest()
			}
		}
		v, vt = s.sx(rhs)
		_, lhsIsField := lhs.(*ast.SelectorExpr)
		if (vt.k == "list" || vt.k == "bytes") && isBareRef(rhs) {
			s.fail(st, "copy of a slice header: the two slices would share their array")
		}
		if vt.k == "opt" && !(lhsIsField && s.mux != nil) {
			if _, isCall := rhs.(*ast.CallExpr); !isCall && !isAlloc(rhs) {
				s.fail(st, "copy of a pointer into a variable: the two would share what they point to")
			}
		}
	}
	if sel, ok := lhs.(*ast.SelectorExpr); ok {
		return s.assignField(sel, st.Tok, v, vt, st, rhs) + rest()
	}
	pre := s.flush()
	out := s.assignTo(lhs, st.Tok, v, vt, st)
	if id, ok := lhs.(*ast.Ident); ok && vt != nil && vt.k == "struct" {
		// the origins of the pointers inside a record bound to a composite literal are known
		name := s.resolve(id.Name)
		var lit *ast.CompositeLit
		switch r := rhs.(type) {
		case *ast.CompositeLit:
			lit = r
		case *ast.UnaryExpr:
			if cl, ok := r.X.(*ast.CompositeLit); ok && r.Op == token.AND {
				lit = cl
			}
		}
		s.dropProv(name)
		out += s.newStructProv(name, vt, lit)
		s.pendingProv = ""
	}
	if s.pendingProv != "" {
		v := s.pendingProv
		s.pendingProv = ""
		s.dropProv(v)
		out += s.newStructProv(v, s.t.env[v], nil)
	}
	return pre + out + rest()
}

func (s *wg) lhsType(lhs ast.Expr) *ty {
	if id, ok := lhs.(*ast.Ident); ok {
		return s.t.env[s.resolve(id.Name)]
	}
	if _, ok := lhs.(*ast.SelectorExpr); ok {
		_, t := s.sx(lhs)
		s.pre = nil // the dereferences are redone by the store itself
		return t
	}
	return nil
}

// assignTo assigns the already translated value rs : rt to the lvalue.
func (s *wg) assignTo(lhs ast.Expr, tok token.Token, rs string, rt *ty, n ast.Node) string {
	if isBlank(lhs) {
		return ""
	}
	if sel, ok := lhs.(*ast.SelectorExpr); ok {
		return s.assignField(sel, tok, rs, rt, n, nil)
	}
	id, ok := lhs.(*ast.Ident)
	if !ok {
		s.fail(n, "unsupported assignment target")
	}
	if s.isWriter(id) {
		s.fail(n, "assignment to a writer")
	}
	if tok == token.DEFINE {
		cur := s.resolve(id.Name)
		if d, exists := s.declDepth[cur]; !exists || d != s.depth || s.t.env[cur] == nil {
			typ := rt
			if typ.k == "untyped" {
				typ = tInt
			}
			in := s.define(id, id.Name, typ)
			s.pendingProv = in
			return "let " + cname(in) + " := " + rs + " in\n  "
		}
		tok = token.ASSIGN // a := that re-uses a variable of the same scope
	}
	name := s.resolve(id.Name)
	typ, ok := s.t.env[name]
	if !ok || s.leaves[name] {
		s.fail(n, "assignment to the unknown variable %s", name)
	}
	if !mgAssignable(rt, typ) {
		s.fail(n, "assignment of a %s to a variable of type %s", rt.coq(), typ.coq())
	}
	if tok == token.ASSIGN && typ.k == "struct" && rt.k == "opt" {
		s.fail(n, "assignment of a pointer to a record variable")
	}
	if s.mux != nil && s.mux.state[name] && name != "m_buf" {
		s.fail(n, "assignment to the state variable %s", name)
	}
	out := s.t.assign(&ast.Ident{NamePos: id.NamePos, Name: name}, tok, rs, rt, n)
	s.wrote(name)
	if typ.k == "struct" || typ.k == "opt" {
		s.pendingProv = name
	}
	return out
}

// ---------- stores through fields and pointers ----------
//
// A local record (or the record that stands for a *T parameter) is a value; x.f.g = v rebinds x to the record with that
// field replaced (wset_T_f, emitted at the head of the muxer part). Where the path goes through a pointer-typed field the
// pointee is read with wneed (nil = panic) and the pointer is set to Some of the updated pointee.
//
// Two pointer-typed paths can hold the SAME pointer (pkt.AdaptationField = d.AdaptationField). That is decided at RUN time
// by a generated boolean: every pointer-typed field f of a local record v bound to a composite literal gets the ghost
// variable sh_v_f_ ("v.f holds the pointer of the path recorded for it"): false after the literal (nil or a fresh
// allocation), true after `v.f = p.g` for a field path p.g of a pointer parameter (s.prov[v.f] = "share:p.g", one target
// per path), false again after `v.f = nil / &T{..} / an allocating call`. A store through v.f rebinds v and, IF the ghost
// says so, the record p as well (pkt.AdaptationField.StuffingLength = n updates pkt and - when shared - d); a store
// through p.g rebinds p and every live local record whose ghost says it shares p.g. The ghost is an ordinary variable:
// conditional blocks and loops return it like any other variable they assign, so the merge of a branch that copied the
// pointer with one that allocated is exact (no static approximation). Pointers are copied ONLY by these forms, by passing
// them to a translated function (which cannot keep them: stores through parameters are refused there) and by wneed reads;
// a pointer copied into a variable, taken from a local record's field, stored into a nested record, or a record with
// pointer fields that does not come from a composite literal ("unknown": stores through it are refused) leave the grammar.
// Pointers of one pointee type reached from the parameters by two different paths could be equal on entry: a store through
// such a path is refused when the function mentions another parameter-rooted path of the same pointee type (scanPaths).

var wgSetters = map[string]bool{}

func (s *wg) hasPointerField(t *ty, seen map[string]bool) bool {
	switch t.k {
	case "opt":
		return true
	case "struct":
		if seen[t.name] {
			return false
		}
		seen[t.name] = true
		st := s.p.structs[t.name]
		if st == nil {
			return false
		}
		for _, f := range st.Fields.List {
			ft := func() (r *ty) {
				defer func() {
					if recover() != nil {
						r = nil
					}
				}()
				return s.t.goType(f.Type)
			}()
			if ft != nil && (ft.k == "opt" || ft.k == "struct" && s.hasPointerField(ft, seen)) {
				return true
			}
		}
	}
	return false
}

// ghost names the boolean that says, at run time, whether the pointer held by the field f of the local record v is the
// pointer of the path recorded in s.prov[v.f] ("share:<path>").
func ghost(v, f string) string { return "sh_" + v + "_" + f + "_" }

// newStructProv: a local record was just (re)bound. For every pointer-typed field it declares the ghost boolean (false:
// the literal leaves the field nil or allocates; true: the literal copies the pointer of a path) - or, when the record
// does not come from a composite literal, marks the origin of its pointers unknown (stores through them are refused).
func (s *wg) newStructProv(v string, typ *ty, lit *ast.CompositeLit) string {
	if typ == nil || typ.k != "struct" {
		return ""
	}
	st := s.p.structs[typ.name]
	if st == nil {
		return ""
	}
	given := map[string]ast.Expr{}
	if lit != nil {
		for _, el := range lit.Elts {
			if kv, ok := el.(*ast.KeyValueExpr); ok {
				given[kv.Key.(*ast.Ident).Name] = kv.Value
			}
		}
	}
	out := ""
	for _, f := range st.Fields.List {
		for _, id := range f.Names {
			ft := func() (r *ty) {
				defer func() {
					if recover() != nil {
						r = nil
					}
				}()
				return s.t.goType(f.Type)
			}()
			if ft == nil {
				continue
			}
			path := v + "." + id.Name
			if ft.k == "opt" {
				if lit == nil {
					s.prov[path] = map[string]bool{"unknown": true}
					continue
				}
				g := ghost(v, id.Name)
				val := "false"
				if gv := given[id.Name]; gv != nil && !isNilIdent(gv) {
					if q, shared := s.pointerSource(gv, lit); shared {
						val = "true"
						s.prov[path] = map[string]bool{"share:" + q: true}
					}
				}
				s.t.bindAfter(g, tBool, v) // the ghost of a local record sits next to the record
				s.declDepth[g] = s.declDepth[v]
				s.wrote(g)
				out += "let " + g + " := " + val + " in\n  "
			} else if ft.k == "struct" && s.hasPointerField(ft, map[string]bool{}) {
				s.prov[path+".*"] = map[string]bool{"unknown": true}
			}
		}
	}
	return out
}

// pointerSource classifies the right-hand side of a pointer assignment: ("", false) for nil / an allocation (the pointer
// is shared with nothing), (path, true) for a copy of the pointer a parameter-rooted path holds. Anything else is refused.
func (s *wg) pointerSource(e ast.Expr, n ast.Node) (string, bool) {
	if isNilIdent(e) || isAlloc(e) {
		return "", false
	}
	if c, ok := e.(*ast.CallExpr); ok {
		if f, ok := c.Fun.(*ast.Ident); ok {
			if d, ok := s.p.funcs[f.Name]; ok && translated[f.Name] && pureNonNil(d) {
				return "", false
			}
		}
	}
	if p, ok := pathOf(e); ok && isBareRef(e) {
		p = s.resolvePath(p)
		root := strings.Split(p, ".")[0]
		if s.mux == nil || !s.mux.ptrParam[root] || len(s.prov[p]) != 0 {
			s.fail(n, "a pointer is copied from %s, which is not a field path of a pointer parameter", p)
		}
		if len(strings.Split(p, ".")) != 2 {
			s.fail(n, "a pointer is copied from %s: only parameter.field is traced", p)
		}
		return p, true
	}
	s.fail(n, "a pointer is copied from something that is neither nil, an allocation nor a field path")
	return "", false
}

func (s *wg) resolvePath(p string) string {
	parts := strings.Split(p, ".")
	parts[0] = s.resolve(parts[0])
	return strings.Join(parts, ".")
}

func (s *wg) useSetter(st, f string) string {
	wgSetters[st+"."+f] = true
	return "wset_" + st + "_" + f
}

// assignField: root.f1...fk op= v. lit is the composite literal on the right-hand side, if any (for the origins).
func (s *wg) assignField(lhs *ast.SelectorExpr, tok token.Token, rs string, rt *ty, n ast.Node, rhs ast.Expr) string {
	if s.mux == nil {
		s.fail(n, "store through a field or a pointer (it would be visible to the caller)")
	}
	if tok == token.DEFINE {
		s.fail(n, "definition of a field")
	}
	var names []string
	var e ast.Expr = lhs
	for {
		sel, ok := e.(*ast.SelectorExpr)
		if !ok {
			break
		}
		names = append([]string{sel.Sel.Name}, names...)
		e = sel.X
	}
	id, ok := e.(*ast.Ident)
	if !ok {
		s.fail(n, "unsupported assignment target")
	}
	if id.Name == s.mux.recv {
		s.fail(n, "assignment to a field of the receiver")
	}
	root := s.resolve(id.Name)
	rootTy, ok := s.t.env[root]
	if !ok || s.leaves[root] || rootTy.k != "struct" {
		s.fail(n, "assignment to a field of %s, which is not a record variable", id.Name)
	}
	if s.mux.state[root] && !s.mux.ptrParam[root] {
		s.fail(n, "assignment to a field of the state variable %s", root)
	}
	type level struct {
		holder string
		st     string
		field  string
		fty    *ty
		path   string
	}
	var levels []level
	cur, curTy, path := cname(root), rootTy, root
	for i, f := range names {
		if curTy.k != "struct" {
			s.fail(n, "field assignment on a value that is not a record")
		}
		fty := s.t.structFieldType(curTy.name, f, n)
		path += "." + f
		levels = append(levels, level{cur, curTy.name, f, fty, path})
		if i == len(names)-1 {
			break
		}
		acc := "(" + curTy.name + "_" + f + " " + cur + ")"
		switch {
		case fty.k == "opt" && fty.elem.k == "struct":
			tmp := s.need(s.leaf(n, acc, fty), n)
			cur, curTy = tmp.(*ast.Ident).Name, fty.elem
		case fty.k == "struct":
			cur, curTy = acc, fty
		default:
			s.fail(n, "assignment through a field that is neither a record nor a pointer to one")
		}
	}
	last := levels[len(levels)-1]
	if !mgAssignable(rt, last.fty) {
		s.fail(n, "assignment of a %s to a field of type %s", rt.coq(), last.fty.coq())
	}
	current := "(" + last.st + "_" + last.field + " " + last.holder + ")"
	val := s.t.opAssign(current, last.fty, tok, rs, rt, n)
	pre := s.flush()
	out := ""
	newChild := val
	type upd struct{ path, pointee string }
	var crossings []upd
	for i := len(levels) - 1; i >= 0; i-- {
		lv := levels[i]
		newHolder := "(" + s.useSetter(lv.st, lv.field) + " " + paren(newChild) + " " + lv.holder + ")"
		if i > 0 && levels[i-1].fty.k == "opt" {
			v := s.fresh("upd")
			out += "let " + v + " := " + newHolder + " in\n  "
			crossings = append(crossings, upd{levels[i-1].path, v})
			newChild = "(Some " + v + ")"
		} else {
			newChild = newHolder
		}
	}
	out += "let " + cname(root) + " := " + newChild + " in\n  "
	s.wrote(root)
	if s.mux.viewHolder != "" && root != s.mux.viewHolder && false {
		_ = root
	}
	// the other paths that hold a pointer the store went through
	for _, c := range crossings {
		o := s.prov[c.path]
		if o["unknown"] || len(s.prov[c.path+".*"]) != 0 {
			s.fail(n, "store through %s, whose pointer has an origin the translator does not know", c.path)
		}
		parts := strings.Split(c.path, ".")
		isParam := s.mux.ptrParam[parts[0]]
		switch {
		case isParam:
			s.mux.checkUnique(c.path, n)
			// local records that may hold a copy of this pointer
			var qs []string
			for q, qo := range s.prov {
				if qo["share:"+c.path] {
					qs = append(qs, q)
				}
			}
			sort.Strings(qs)
			sort.SliceStable(qs, func(i, j int) bool { // by the declaration of the local record, then by the field's name
				ri, rj := strings.SplitN(qs[i], ".", 2)[0], strings.SplitN(qs[j], ".", 2)[0]
				return ri != rj && s.t.declLess(ri, rj)
			})
			for _, q := range qs {
				qp := strings.Split(q, ".")
				out += s.storeAlias(q, c.pointee, ghost(qp[0], qp[1]), root, n)
			}
		case len(parts) == 2:
			if _, declared := s.t.env[ghost(parts[0], parts[1])]; !declared {
				s.fail(n, "store through %s, a pointer the translator has not traced from its declaration", c.path)
			}
			for k := range o {
				if strings.HasPrefix(k, "share:") {
					out += s.storeAlias(strings.TrimPrefix(k, "share:"), c.pointee, ghost(parts[0], parts[1]), root, n)
				}
			}
		default:
			s.fail(n, "store through %s: pointers nested inside local records are not traced", c.path)
		}
	}
	// the pointer itself is replaced
	if last.fty.k == "opt" {
		if rhs == nil || tok != token.ASSIGN {
			s.fail(n, "a pointer-typed field is assigned by something the translator cannot trace")
		}
		parts := strings.Split(last.path, ".")
		g := ghost(parts[0], parts[len(parts)-1])
		if _, declared := s.t.env[g]; len(parts) != 2 || !declared || s.mux.ptrParam[parts[0]] {
			s.fail(n, "the pointer %s is replaced: only a field of a local record bound to a composite literal can be re-pointed", last.path)
		}
		q, shared := s.pointerSource(rhs, n)
		val := "false"
		if shared {
			for k := range s.prov[last.path] {
				if k != "share:"+q {
					s.fail(n, "%s may share its pointer with two different paths", last.path)
				}
			}
			s.prov[last.path] = map[string]bool{"share:" + q: true}
			val = "true"
		}
		out += "let " + g + " := " + val + " in\n  "
		s.wrote(g)
	} else if last.fty.k == "struct" && s.hasPointerField(last.fty, map[string]bool{}) {
		s.fail(n, "assignment of a record that contains pointers to a field")
	}
	return pre + out
}

// storeAlias writes the updated pointee to a second path v.f that holds the same pointer when the ghost boolean says so.
func (s *wg) storeAlias(path, pointee, g, skipRoot string, n ast.Node) string {
	parts := strings.Split(path, ".")
	if len(parts) != 2 {
		s.fail(n, "the pointer is shared with %s: only paths of the form variable.field are written back", path)
	}
	v := parts[0]
	if v == skipRoot {
		s.fail(n, "two fields of %s hold the same pointer", v)
	}
	vt, ok := s.t.env[v]
	if !ok {
		return "" // the variable is out of scope
	}
	if vt.k != "struct" {
		s.fail(n, "%s is not a record variable", v)
	}
	s.t.structFieldType(vt.name, parts[1], n)
	s.wrote(v)
	return "let " + cname(v) + " := (if " + g + " then (" + s.useSetter(vt.name, parts[1]) + " (Some " + pointee + ") " + cname(v) + ") else " + cname(v) + ") in\n  "
}

// hoistState: x.f.inc() inside an expression, for a state-changing method of Gen/Preds.v on a field of a local record.
func (s *wg) hoistState(x *ast.CallExpr, f *ast.SelectorExpr, xt *ty) ast.Expr {
	if s.mux == nil {
		s.fail(x, "%s changes its receiver", f.Sel.Name)
	}
	if len(x.Args) != 0 || s.guarded || s.stmtNode == nil {
		s.fail(x, "%s() changes its receiver under a short-circuit operator, in a condition, or takes arguments", f.Sel.Name)
	}
	sel, ok := f.X.(*ast.SelectorExpr)
	if !ok {
		s.fail(x, "%s() changes a receiver that is not a field of a local record", f.Sel.Name)
	}
	rid, ok := sel.X.(*ast.Ident)
	if !ok {
		s.fail(x, "%s() changes a receiver that is not a field of a local record", f.Sel.Name)
	}
	root := s.resolve(rid.Name)
	rt, ok := s.t.env[root]
	if !ok || rt.k != "struct" {
		s.fail(x, "%s() changes a receiver that is not a field of a local record", f.Sel.Name)
	}
	count := 0
	ast.Inspect(s.stmtNode, func(nd ast.Node) bool {
		if id, ok := nd.(*ast.Ident); ok && id.Name == rid.Name {
			count++
		}
		return true
	})
	if count != 1 {
		s.fail(x, "%s.%s() changes a record that the same statement mentions elsewhere: evaluation order is not modelled", rid.Name, f.Sel.Name)
	}
	cur := "(" + rt.name + "_" + sel.Sel.Name + " " + cname(root) + ")"
	cn := xt.name + "_" + f.Sel.Name
	r := s.fresh(f.Sel.Name)
	s.pre = append(s.pre, "let "+r+" := ("+cn+" "+cur+") in\n  let "+cname(root)+" := ("+s.useSetter(rt.name, sel.Sel.Name)+" ("+cn+"_st "+cur+") "+cname(root)+") in\n  ")
	s.wrote(root)
	res := funcRes[xt.name+"."+f.Sel.Name]
	s.t.bind(r, res, x.Pos())
	s.declDepth[r] = s.depth
	return &ast.Ident{NamePos: x.Pos(), Name: r}
}

// emitWgSetters: one setter per field of every record one of whose fields is stored into (the whole family, so that the
// proofs can name a setter whether or not the current source still uses it).
func emitWgSetters(p *pkg) string {
	structs := map[string]bool{}
	for k := range wgSetters {
		structs[strings.SplitN(k, ".", 2)[0]] = true
	}
	var keys []string
	for sn := range structs {
		for _, f := range p.structs[sn].Fields.List {
			for _, fid := range f.Names {
				keys = append(keys, sn+"."+fid.Name)
			}
		}
	}
	sort.Strings(keys)
	t := &tr{p: p, fn: "setters", env: map[string]*ty{}}
	var b strings.Builder
	for _, k := range keys {
		parts := strings.SplitN(k, ".", 2)
		sn, fn := parts[0], parts[1]
		var fs []string
		var ft *ty
		for _, f := range p.structs[sn].Fields.List {
			for _, fid := range f.Names {
				if fid.Name == fn {
					ft = t.goType(f.Type)
					fs = append(fs, fmt.Sprintf("%s_%s := v", sn, fid.Name))
				} else {
					fs = append(fs, fmt.Sprintf("%s_%s := %s_%s r", sn, fid.Name, sn, fid.Name))
				}
			}
		}
		fmt.Fprintf(&b, "Definition wset_%s_%s (v : %s) (r : %s) : %s :=\n  {| %s |}.\n", sn, fn, ft.coq(), sn, sn, strings.Join(fs, "; "))
	}
	b.WriteString("\n")
	return b.String()
}

// ---------- if ----------

func (s *wg) ifStmt(st *ast.IfStmt, rest []ast.Stmt, k func() string) string {
	outer, outerDepth := s.envNames(), s.depth
	core := func() string {
		c, ct := s.sx(st.Cond)
		if ct.k != "bool" {
			s.fail(st, "condition is not a boolean")
		}
		pre := s.flush()
		el := elseList(st)
		s.nfresh++
		ph := fmt.Sprintf("@@IF%d@@", s.nfresh)
		saved := s.snapshot()
		s.depth++
		// the origins of pointers at the end of the branches that fall through are merged
		var ends []map[string]map[string]bool
		fall := func() string { ends = append(ends, copyProv(s.prov)); return ph }
		s.pushW()
		th := s.stmts(st.Body.List, fall)
		w := s.popW()
		s.restore(saved)
		s.pushW()
		e2 := s.stmts(el, fall)
		for v := range s.popW() {
			w[v] = true
		}
		s.restore(saved)
		s.depth = outerDepth
		if len(ends) > 0 {
			merged := map[string]map[string]bool{}
			for _, e := range ends {
				for k, o := range e {
					if merged[k] == nil {
						merged[k] = map[string]bool{}
					}
					for x := range o {
						merged[k][x] = true
					}
				}
			}
			for k, o := range merged {
				if len(o) > 1 {
					s.fail(st, "%s may share its pointer with two different paths after this statement", k)
				}
			}
			s.prov = merged
		}
		var vars []string
		for v := range w {
			if _, ok := outer[v]; ok && !s.leaves[v] {
				vars = append(vars, v)
			}
		}
		s.t.sortDecl(vars)
		s.restrictEnv(outer)
		for _, v := range vars {
			s.wrote(v)
		}
		fin := "wret " + wgTup(cnames(vars))
		th, e2 = strings.ReplaceAll(th, ph, fin), strings.ReplaceAll(e2, ph, fin)
		return pre + wgBind(cnames(vars), "(if "+c+" then "+th+" else "+e2+")", s.stmts(rest, k))
	}
	if st.Init != nil {
		s.depth++
		return s.stmts([]ast.Stmt{st.Init}, core)
	}
	return core()
}

// ---------- counting loops ----------

func assignedRoots(list []ast.Stmt) (map[string]int, bool) {
	set := map[string]int{}
	fieldStore := false
	for _, st := range list {
		ast.Inspect(st, func(n ast.Node) bool {
			switch x := n.(type) {
			case *ast.AssignStmt:
				for _, l := range x.Lhs {
					if r := rootOf(l); r != "" {
						set[r]++
					}
					if _, isId := l.(*ast.Ident); !isId {
						fieldStore = true
					}
				}
			case *ast.IncDecStmt:
				if r := rootOf(x.X); r != "" {
					set[r]++
				}
				if _, isId := x.X.(*ast.Ident); !isId {
					fieldStore = true
				}
			}
			return true
		})
	}
	return set, fieldStore
}

func isIncOf(st ast.Stmt, name string) bool {
	inc, ok := st.(*ast.IncDecStmt)
	return ok && inc.Tok == token.INC && isIdent(inc.X, name)
}

func (s *wg) forStmt(st *ast.ForStmt, rest []ast.Stmt, k func() string) string {
	if s.mux != nil && s.mux.isMainLoop(st) {
		return s.mux.mainLoop(st, rest, k)
	}
	outer, outerDepth := s.envNames(), s.depth
	core := func() string {
		cond, ok := st.Cond.(*ast.BinaryExpr)
		if !ok || cond.Op != token.LSS {
			s.fail(st, "loop whose condition is not `counter < bound` (only the counting idiom is translated)")
		}
		cid, ok := cond.X.(*ast.Ident)
		if !ok {
			s.fail(st, "loop whose condition is not `counter < bound`")
		}
		if ct, ok := s.t.env[cid.Name]; !ok || ct.k != "int" || ct.w != 0 {
			s.fail(st, "loop counter %s is not a signed integer variable", cid.Name)
		}
		body := st.Body.List
		ast.Inspect(st.Body, func(n ast.Node) bool {
			switch b := n.(type) {
			case *ast.BranchStmt:
				s.fail(b, "%s inside a loop", b.Tok)
			case *ast.FuncLit:
				s.fail(b, "function literal inside a loop")
			case *ast.ForStmt, *ast.RangeStmt:
				if n != ast.Node(st) {
					s.fail(n, "nested loop")
				}
			}
			return true
		})
		roots, fieldStore := assignedRoots(body)
		switch {
		case st.Post != nil:
			if !isIncOf(st.Post, cid.Name) || roots[cid.Name] != 0 {
				s.fail(st, "loop counter %s is not incremented exactly once, by the post statement", cid.Name)
			}
		default:
			if len(body) == 0 || !isIncOf(body[len(body)-1], cid.Name) || roots[cid.Name] != 1 {
				s.fail(st, "loop counter %s is not incremented exactly once, by the last statement of the body", cid.Name)
			}
		}
		// the bound must not change while the loop runs
		usesSel := false
		ast.Inspect(cond.Y, func(n ast.Node) bool {
			switch x := n.(type) {
			case *ast.Ident:
				if roots[x.Name] != 0 || x.Name == cid.Name {
					s.fail(st, "the loop bound mentions %s, which the loop assigns", x.Name)
				}
			case *ast.SelectorExpr:
				usesSel = true
			case *ast.CallExpr:
				if id, ok := x.Fun.(*ast.Ident); !ok || (id.Name != "len" && !translated[id.Name]) {
					if _, _, isInt := s.p.intType(fmt.Sprint(x.Fun)); !isInt {
						s.fail(st, "call in the loop bound")
					}
				}
			}
			return true
		})
		if usesSel && fieldStore {
			s.fail(st, "the loop bound reads a field and the body stores into one")
		}
		bound, bt := s.sx(cond.Y)
		if bt.k != "int" && bt.k != "untyped" {
			s.fail(st, "loop bound is not an integer")
		}
		pre := s.flush()
		s.nloop++
		name := fmt.Sprintf("%s_loop%d", strings.ReplaceAll(s.key, ".", "_"), s.nloop)
		vars := s.envVars()
		var binders, args []string
		for _, v := range vars {
			binders = append(binders, fmt.Sprintf("(%s : %s)", cname(v), s.t.env[v].coq()))
			args = append(args, cname(v))
		}
		count := "(Z.to_nat (" + bound + " - " + cname(cid.Name) + "))"
		s.nfresh++
		phRec := fmt.Sprintf("@@REC%d@@", s.nfresh)
		saved := s.snapshot()
		s.pushW()
		s.depth++
		bodyOuter, bodyDepth := s.envNames(), s.depth
		text := s.stmts(body, func() string {
			s.depth = bodyDepth
			s.restrictEnv(bodyOuter)
			if st.Post == nil {
				return phRec
			}
			return s.stmts([]ast.Stmt{st.Post}, func() string { return phRec })
		})
		w := s.popW()
		s.depth--
		s.restore(saved)
		var cvars, ctys []string
		for v := range w {
			if _, ok := saved.env[v]; ok && !s.leaves[v] {
				cvars = append(cvars, v)
			}
		}
		s.t.sortDecl(cvars)
		for _, v := range cvars {
			ctys = append(ctys, saved.env[v].coq())
		}
		cty := "unit"
		if len(ctys) > 0 {
			cty = strings.Join(ctys, " * ")
		}
		text = strings.ReplaceAll(text, phRec, "("+name+" n_ "+strings.Join(args, " ")+")")
		def := fmt.Sprintf("Fixpoint %s (n_ : nat) %s {struct n_} : WM (%s) (%s) :=\n  match n_ with\n  | O => wret %s\n  | S n_ =>\n  %s\n  end.\n\n",
			name, strings.Join(binders, " "), s.retTy, cty, wgTup(cnames(cvars)), text)
		s.loops = append(s.loops, def)
		call := "(" + name + " " + count + " " + strings.Join(args, " ") + ")"
		// variables of the for clause go out of scope; the carried ones that live outside are rebound
		var outVars []string
		for _, v := range cvars {
			if outer[v] {
				outVars = append(outVars, v)
			}
		}
		s.depth = outerDepth
		s.restrictEnv(outer)
		for _, v := range outVars {
			s.wrote(v)
		}
		pat := cnames(cvars)
		for i, v := range cvars {
			if !outer[v] {
				pat[i] = "_"
			}
		}
		return pre + wgBind(pat, call, s.stmts(rest, k))
	}
	if st.Cond == nil {
		s.fail(st, "loop without condition")
	}
	if st.Init != nil {
		s.depth++
		return s.stmts([]ast.Stmt{st.Init}, core)
	}
	return core()
}

// ---------- functions ----------

func (s *wg) function() string {
	d, ok := s.p.funcs[s.key]
	if !ok {
		panic(genError{fmt.Sprintf("function %s not found in /repo", s.key)})
	}
	pureM := s.psi != nil && s.psi.pure // no writer: the function is in the monad because it can panic
	if d.Body == nil || !(wgIsWriterFunc(d) || pureM) {
		s.fail(d, "not a function whose first parameter is a *astikit.BitsWriter")
	}
	sig := &wgSig{}
	var params []string
	for i, f := range d.Type.Params.List {
		if len(f.Names) == 0 {
			s.fail(d, "unnamed parameter")
		}
		for j, id := range f.Names {
			if i == 0 && j == 0 && !pureM {
				s.wname = id.Name
				continue
			}
			if wgIsWriterType(f.Type) {
				s.fail(d, "two writers")
			}
			typ := s.gotype(f.Type, d)
			if typ.k == "opt" && typ.elem.k == "struct" && !usesNilNode(d.Body, id.Name) {
				typ = typ.elem
			}
			s.t.bind(id.Name, typ, id.Pos())
			s.declDepth[id.Name] = 0
			sig.params = append(sig.params, typ)
			params = append(params, fmt.Sprintf("(%s : %s)", cname(id.Name), typ.coq()))
		}
	}
	pre := ""
	if d.Type.Results == nil {
		s.fail(d, "writer without results")
	}
	for _, f := range d.Type.Results.List {
		typ := s.gotype(f.Type, d)
		k := len(f.Names)
		if k == 0 {
			k = 1
		}
		for i := 0; i < k; i++ {
			s.results = append(s.results, typ)
		}
		for _, id := range f.Names {
			s.named = append(s.named, id.Name)
			s.t.bind(id.Name, typ, id.Pos())
			s.declDepth[id.Name] = 0
			z := wgZero(typ)
			if z == "?" {
				s.fail(d, "zero value of a named result that is not modelled")
			}
			pre += "let " + cname(id.Name) + " := " + z + " in\n  "
		}
	}
	sig.results = s.results
	var rts []string
	for _, r := range s.results {
		rts = append(rts, r.coq())
	}
	s.retTy = strings.Join(rts, " * ")
	// stores through a pointer parameter would be visible to the caller: assignTo refuses them
	body := s.stmts(d.Body.List, func() string {
		s.fail(d, "function falls off its end")
		return ""
	})
	wgFuncs[s.key] = sig
	return strings.Join(s.loops, "") + fmt.Sprintf("Definition %s %s : WF (%s) :=\n  wrun (\n  %s%s).\n\n", s.key, strings.Join(params, " "), s.retTy, pre, body)
}

func (p *pkg) newWg(key string) *wg {
	var loops []string
	t := &tr{p: p, fn: key, env: map[string]*ty{}, optPar: map[string]bool{}, loops: &loops}
	return &wg{p: p, t: t, key: key, batch: map[string]bool{}, declDepth: map[string]int{}, leaves: map[string]bool{}, cache: map[string]string{},
		alias: map[string]string{}, prov: map[string]map[string]bool{}}
}

const wgHeader = `(* Generated from the CURRENT source of the writers of /repo/packet.go, /repo/data_pes.go and of the packetisation part
   of /repo/muxer.go by go/gen (writegen.go) on every run. Do not edit.

   A writer (first parameter a *astikit.BitsWriter) is a computation in the writer monad below: the items it hands to the
   BitsWriter, in program order, each tagged with HOW it was handed over (through the function's BitsWriterBatch, by a
   direct w.Write whose result is kept, by a direct w.Write whose result is discarded), and its outcome. No Write fails
   in this semantics (C18 has its own runner): w.Write returns ENil, b.Err() is ENil. error is the inductive merror of
   Gen/MuxGen.v; a nil dereference / a slice bound out of range is WPanic. See the head of go/gen/writegen.go for the
   statement grammar. Proofs/WriteGen*.v prove the hand-written writers of Model/Packet.v, Model/Clock.v, Model/Pes.v and
   the packetisation loop of Model/Muxer.v equal to these definitions. *)
From Coq Require Import ZArith List Bool.
Require Import Base.Wr Gen.Consts Gen.Types Gen.Preds Gen.MuxGen.
Import ListNotations.
Open Scope Z_scope.

Inductive wsrc : Type := WBatch | WDirect | WDropped.
Definition gitem : Type := (wsrc * witem)%type.

Inductive wout (R A : Type) : Type :=
| WPanic
| WExit (r : R)      (* the function returned *)
| WVal (a : A).      (* the block fell through *)
Arguments WPanic {R A}.
Arguments WExit {R A} r.
Arguments WVal {R A} a.

Definition WM (R A : Type) : Type := (list gitem * wout R A)%type.
Definition WF (R : Type) : Type := (list gitem * option R)%type.    (* a whole function: None = panic *)

Definition wret {R A} (a : A) : WM R A := ([], WVal a).
Definition wexit {R A} (r : R) : WM R A := ([], WExit r).
Definition wpanic {R A} : WM R A := ([], WPanic).
Definition wbind {R A B} (m : WM R A) (k : A -> WM R B) : WM R B :=
  match m with
  | (l, WVal a) => let '(l', o) := k a in (l ++ l', o)
  | (l, WExit r) => (l, WExit r)
  | (l, WPanic) => (l, WPanic)
  end.
Definition wrun {R} (m : WM R R) : WF R :=
  match m with
  | (l, WVal r) => (l, Some r)
  | (l, WExit r) => (l, Some r)
  | (l, WPanic) => (l, None)
  end.
Definition wcall {R A} (f : WF A) : WM R A :=
  match f with
  | (l, Some a) => (l, WVal a)
  | (l, None) => (l, WPanic)
  end.
Definition wemit {R} (s : wsrc) (it : witem) : WM R unit := ([(s, it)], WVal tt).
Definition wemits {R} (l : list gitem) : WM R unit := (l, WVal tt).
Definition w_write {R} (s : wsrc) (it : witem) : WM R merror := ([(s, it)], WVal ENil).
Definition batch_err : merror := ENil.
Definition wneed {R A} (o : option A) : WM R A := match o with Some a => wret a | None => wpanic end.
Definition wslice {R} (l : list Z) (lo hi : Z) : WM R (list Z) :=
  if orb (orb (lo <? 0) (hi <? lo)) (Z.of_nat (List.length l) <? hi) then wpanic
  else wret (firstn (Z.to_nat (hi - lo)) (skipn (Z.to_nat lo) l)).
(* astikit BitsWriter.WriteBytesN(bs, n, pad) for n > 0: the first n bytes, or all of them followed by pad bytes *)
Definition wbytes_n (s : wsrc) (bs : list Z) (n : Z) (pad : Z) : list gitem :=
  if n <=? Z.of_nat (List.length bs) then [(s, WBytes (firstn (Z.to_nat n) bs))]
  else (s, WBytes bs) :: repeat (s, WBits 8 pad) (Z.to_nat n - List.length bs).

Declare Scope wm_scope.
Delimit Scope wm_scope with wm.
Notation "x <- m ;; f" := (wbind m (fun x => f)) (at level 61, m at next level, right associativity) : wm_scope.
Notation "' p <- m ;; f" := (wbind m (fun p => f)) (at level 61, p pattern, m at next level, right associativity) : wm_scope.
Notation "m ;;; f" := (wbind m (fun _ => f)) (at level 61, right associativity) : wm_scope.
Open Scope wm_scope.

`

func (p *pkg) emitWriteGen() string {
	var b strings.Builder
	isolate := func(what string, f func() string) {
		defer func() {
			if r := recover(); r != nil {
				ge, ok := r.(genError)
				if !ok {
					panic(r)
				}
				fmt.Fprintf(os.Stderr, "gen: not translated: %s\n", ge.msg)
				fmt.Fprintf(&b, "(* NOT TRANSLATED (%s left the translator's grammar): %s *)\n\n", what, strings.ReplaceAll(strings.ReplaceAll(ge.msg, "*)", "* )"), "(*", "( *"))
			}
		}()
		b.WriteString(f())
	}
	for _, key := range writeEntries {
		key := key
		isolate(key, func() string { return p.newWg(key).function() })
	}
	p.emitWriteGenMux(&b, isolate)
	return wgHeader + b.String()
}

// ---------- the muxer part ----------
//
// (*Muxer).WritePacket and the part of (*Muxer).WriteData from its packetisation loop on. Gen/MuxGen.v translates WriteData
// up to that loop and takes the rest as the parameter rest_, applied to every variable then in scope; the definition
// Muxer_WriteData_rest emitted here has exactly those parameters, in that order (the list is taken from the same
// translation of the prefix, muxgen*.go), in front of them the fuel of the loop.
//
// Conventions beyond the writers: the receiver's fields are the variables m_<field> of Gen/MuxGen.v; m.buf is its contents
// (Reset = [], Bytes = the list; the bytes a variable holds as a view of m.buf must not be read after the buffer is written
// again: a view may only be stored into a field of a local record, and m.buf is not written while that record is in scope);
// a call writeX(m.bufWriter, ..) of a translated writer appends the bytes of its items to m_buf, a call
// writeX(m.bitsWriter, ..) hands the io.Writer calls of its items (chunks_of) to io_Write one after the other (no Write fails
// in this semantics) - which field a BitsWriter writes into is read off NewMuxer by muxgen; ctx is the record the pointer
// looked up in m.esContexts points to: it is threaded as a value and stored back into the map (map_esContext_set, same key)
// at every return, the only place where the map is observable; `for cond { .. }` is a Fixpoint on fuel_ (out of fuel = None);
// the record d that stands for the *MuxerData argument is returned with the stores made through it: THE CALLER'S STRUCT IS
// MUTATED (d.AdaptationField.StuffingLength, d.PES.Header.StreamID), and so is the adaptation field d.AdaptationField points
// to when the packet under construction shares it (see "stores through fields and pointers" above).
// Every return yields  Some (m_w, m_buf, m_esContexts, d, results..)  in that order (only the state the function touches).

type wgMux struct {
	s          *wg
	recv       string
	fieldTy    map[string]*ty
	state      map[string]bool // state variables (m_w, m_buf, m_esContexts, d)
	ptrParam   map[string]bool
	stateOrder []string
	used       map[string]bool
	ext        map[string]bool
	viewHolder string
	mainFor    *ast.ForStmt
	fuel       bool
	ctxVar     string
	ctxKey     string
	ctxMap     string
	paths      map[string]string // pointer-typed path rooted at a parameter -> pointee type (whole function)
}

func (m *wgMux) useState(v string) {
	if !m.used[v] {
		m.used[v] = true
	}
}

func (m *wgMux) rw(e ast.Expr) (ast.Expr, bool) {
	s := m.s
	switch x := e.(type) {
	case *ast.Ident:
		if x.Name == m.recv && m.recv != "" {
			s.fail(x, "the receiver used as a value")
		}
	case *ast.SelectorExpr:
		if id, ok := x.X.(*ast.Ident); ok && id.Name == m.recv && m.recv != "" {
			if _, isW := mgWriterFields[x.Sel.Name]; isW {
				s.fail(x, "bits writer field %s used as a value", x.Sel.Name)
			}
			v := "m_" + x.Sel.Name
			if _, ok := s.t.env[v]; !ok {
				s.fail(x, "field %s of the receiver is not among the variables the translated prefix hands over", x.Sel.Name)
			}
			if v == m.ctxMap {
				s.fail(x, "the map %s is used while a pointer into it is held as a value", x.Sel.Name)
			}
			return &ast.Ident{NamePos: x.Pos(), Name: v}, true
		}
	case *ast.CallExpr:
		if _, ok := m.bufView(x); ok {
			s.fail(x, "the bytes of a buffer are used otherwise than stored into a field of a local record")
		}
	}
	return nil, false
}

// bufView recognises m.<buffer>.Bytes().
func (m *wgMux) bufView(e ast.Expr) (string, bool) {
	c, ok := e.(*ast.CallExpr)
	if !ok || len(c.Args) != 0 {
		return "", false
	}
	sel, ok := c.Fun.(*ast.SelectorExpr)
	if !ok || sel.Sel.Name != "Bytes" {
		return "", false
	}
	in, ok := sel.X.(*ast.SelectorExpr)
	if !ok || !isIdent(in.X, m.recv) || m.recv == "" {
		return "", false
	}
	v := "m_" + in.Sel.Name
	if t, ok := m.s.t.env[v]; !ok || t.k != "bytes" {
		return "", false
	}
	return v, true
}

func (m *wgMux) assignView(lhs ast.Expr, view string, n ast.Node) string {
	s := m.s
	sel, ok := lhs.(*ast.SelectorExpr)
	if !ok {
		s.fail(n, "the bytes of a buffer are stored into something that is not a field of a local record")
	}
	root := s.resolve(rootOf(sel))
	if root == "" || m.state[root] || s.declDepth[root] == 0 {
		s.fail(n, "the bytes of a buffer are stored into something that outlives the statement block")
	}
	out := s.assignField(sel, token.ASSIGN, view, tBytes, n, nil)
	m.viewHolder = root
	return out
}

func (m *wgMux) wroteBuf(n ast.Node) {
	if m.viewHolder != "" {
		if _, live := m.s.t.env[m.viewHolder]; live {
			m.s.fail(n, "the buffer is written while %s still holds its bytes", m.viewHolder)
		}
	}
	m.useState("m_buf")
}

func (m *wgMux) writerArg(e ast.Expr, n ast.Node) (string, bool) {
	sel, ok := e.(*ast.SelectorExpr)
	if !ok || !isIdent(sel.X, m.recv) || m.recv == "" {
		return "", false
	}
	t, ok := mgWriterFields[sel.Sel.Name]
	if !ok {
		m.s.fail(n, "%s.%s is not a bits writer bound by NewMuxer", m.recv, sel.Sel.Name)
	}
	return t, true
}

// capture: what the items of a call through one of the Muxer's bits writers do to the state.
func (m *wgMux) capture(target, items string, n ast.Node) string {
	s := m.s
	switch {
	case strings.HasPrefix(target, "buf:"):
		v := "m_" + strings.TrimPrefix(target, "buf:")
		if _, ok := s.t.env[v]; !ok {
			s.fail(n, "the buffer %s is not among the variables the translated prefix hands over", v)
		}
		m.wroteBuf(n)
		s.wrote(v)
		return "let " + v + " := (" + v + " ++ bytes_of_items (map snd " + items + ")) in\n  "
	case strings.HasPrefix(target, "io:"):
		v := "m_" + strings.TrimPrefix(target, "io:")
		if _, ok := s.t.env[v]; !ok {
			s.fail(n, "the writer %s is not among the variables the translated prefix hands over", v)
		}
		m.useState(v)
		m.ext["io_Write"] = true
		s.wrote(v)
		return "let " + v + " := (io_write_all io_Write " + v + " (chunks_of (map snd " + items + "))) in\n  "
	}
	s.fail(n, "unknown bits writer target %s", target)
	return ""
}

func (m *wgMux) exitVal(parts []string) string {
	v := "(@@ST@@" + strings.Join(parts, ", ") + ")"
	if m.fuel {
		return "(Some " + v + ")"
	}
	return v
}

func (m *wgMux) stmt(list []ast.Stmt, k func() string) (string, bool) {
	s := m.s
	rest := func() string { return s.stmts(list[1:], k) }
	switch st := list[0].(type) {
	case *ast.ExprStmt:
		// m.buf.Reset()
		if c, ok := st.X.(*ast.CallExpr); ok && len(c.Args) == 0 {
			if sel, ok := c.Fun.(*ast.SelectorExpr); ok && sel.Sel.Name == "Reset" {
				if in, ok := sel.X.(*ast.SelectorExpr); ok && isIdent(in.X, m.recv) {
					v := "m_" + in.Sel.Name
					if t, ok := s.t.env[v]; ok && t.k == "bytes" {
						m.wroteBuf(st)
						s.wrote(v)
						return "let " + v + " := (@nil Z) in\n  " + rest(), true
					}
				}
			}
		}
	case *ast.ReturnStmt:
		// return writeX(w, ..): bind the results first
		if len(st.Results) == 1 && len(s.results) > 1 {
			if _, _, ok := s.funcCall(st.Results[0]); ok {
				var lhs, res []ast.Expr
				for i := range s.results {
					id := &ast.Ident{NamePos: st.Pos(), Name: fmt.Sprintf("ret%d_", i+1)}
					lhs = append(lhs, id)
					res = append(res, id)
				}
				as := &ast.AssignStmt{Lhs: lhs, TokPos: st.Pos(), Tok: token.DEFINE, Rhs: st.Results}
				outer, d := s.envNames(), s.depth
				s.depth++
				out := s.stmts([]ast.Stmt{as, &ast.ReturnStmt{Return: st.Pos(), Results: res}}, func() string { return "" })
				s.depth = d
				s.restrictEnv(outer)
				return out, true
			}
		}
	}
	return "", false
}

func (m *wgMux) isMainLoop(st *ast.ForStmt) bool { return st == m.mainFor }

// mainLoop: `for cond { body }` at the top level, on fuel.
func (m *wgMux) mainLoop(st *ast.ForStmt, rest []ast.Stmt, k func() string) string {
	s := m.s
	if st.Init != nil || st.Post != nil || st.Cond == nil {
		s.fail(st, "the packetisation loop is not of the form `for cond { .. }`")
	}
	ast.Inspect(st.Body, func(n ast.Node) bool {
		switch b := n.(type) {
		case *ast.BranchStmt:
			s.fail(b, "%s inside the loop", b.Tok)
		case *ast.FuncLit:
			s.fail(b, "function literal inside the loop")
		}
		return true
	})
	outer, outerDepth := s.envNames(), s.depth
	s.nloop++
	name := fmt.Sprintf("%s_loop%d", strings.ReplaceAll(s.key, ".", "_")+"_rest", s.nloop)
	vars := s.envVars()
	var binders, args []string
	for _, v := range vars {
		binders = append(binders, fmt.Sprintf("(%s : %s)", cname(v), s.t.env[v].coq()))
		args = append(args, cname(v))
	}
	entryProv := copyProv(s.prov)
	saved := s.snapshot()
	s.pushW()
	s.depth++
	s.stmtNode = nil
	c, ct := s.sx(st.Cond)
	if ct.k != "bool" {
		s.fail(st, "condition is not a boolean")
	}
	condPre := s.flush()
	s.nfresh++
	phRec := fmt.Sprintf("@@REC%d@@", s.nfresh)
	bodyOuter, bodyDepth := s.envNames(), s.depth
	s.depth++
	var endProv map[string]map[string]bool
	text := s.stmts(st.Body.List, func() string {
		s.depth = bodyDepth
		s.restrictEnv(bodyOuter)
		endProv = copyProv(s.prov)
		return phRec
	})
	w := s.popW()
	s.restore(saved)
	s.depth = outerDepth
	// the origins of the pointers that live across iterations must be the same at the end of the body as at its start
	if endProv != nil {
		for k, o := range endProv {
			if fmt.Sprint(o) != fmt.Sprint(entryProv[k]) {
				s.fail(st, "the origin of the pointer %s changes inside the loop", k)
			}
		}
		for k := range entryProv {
			if _, ok := endProv[k]; !ok {
				s.fail(st, "the origin of the pointer %s changes inside the loop", k)
			}
		}
	}
	var cvars, ctys []string
	for v := range w {
		if _, ok := saved.env[v]; ok && !s.leaves[v] {
			cvars = append(cvars, v)
		}
	}
	s.t.sortDecl(cvars)
	for _, v := range cvars {
		ctys = append(ctys, saved.env[v].coq())
	}
	cty := "unit"
	if len(ctys) > 0 {
		cty = strings.Join(ctys, " * ")
	}
	text = strings.ReplaceAll(text, phRec, "("+name+" fuel_ "+strings.Join(args, " ")+")")
	def := fmt.Sprintf("Fixpoint %s (fuel_ : nat) %s {struct fuel_} : WM (@@RT@@) (%s) :=\n  match fuel_ with\n  | O => wexit None\n  | S fuel_ =>\n  %s(if %s then %s else wret %s)\n  end.\n\n",
		name, strings.Join(binders, " "), cty, condPre, c, text, wgTup(cnames(cvars)))
	s.loops = append(s.loops, def)
	s.restrictEnv(outer)
	for _, v := range cvars {
		s.wrote(v)
	}
	return wgBind(cnames(cvars), "("+name+" fuel_ "+strings.Join(args, " ")+")", s.stmts(rest, k))
}

// checkUnique: a store through a pointer reached from a parameter by the path p is sound only if no other path the
// function mentions can hold the same pointer on entry: refused when another parameter-rooted path has the same pointee type.
func (m *wgMux) checkUnique(p string, n ast.Node) {
	t, ok := m.paths[p]
	if !ok {
		return // rooted at a local: its pointers are all traced
	}
	for q, qt := range m.paths {
		if q != p && qt == t {
			m.s.fail(n, "store through %s while %s, a pointer to the same type, could be the same pointer on entry", p, q)
		}
	}
}

// scanPaths lists the pointer-typed field paths rooted at the given variables that the body mentions.
func (m *wgMux) scanPaths(body ast.Node, roots map[string]*ty) {
	s := m.s
	m.paths = map[string]string{}
	ast.Inspect(body, func(n ast.Node) bool {
		sel, ok := n.(*ast.SelectorExpr)
		if !ok {
			return true
		}
		var names []string
		var e ast.Expr = sel
		for {
			se, ok := e.(*ast.SelectorExpr)
			if !ok {
				break
			}
			names = append([]string{se.Sel.Name}, names...)
			e = se.X
		}
		id, ok := e.(*ast.Ident)
		if !ok {
			return true
		}
		cur, ok := roots[id.Name]
		if !ok {
			return true
		}
		path := id.Name
		for _, f := range names {
			if cur.k == "opt" {
				cur = cur.elem
			}
			if cur.k != "struct" {
				break
			}
			ft := func() (r *ty) {
				defer func() {
					if recover() != nil {
						r = nil
					}
				}()
				return s.t.structFieldType(cur.name, f, n)
			}()
			if ft == nil {
				break
			}
			path += "." + f
			if ft.k == "opt" && ft.elem.k == "struct" {
				m.paths[path] = ft.elem.name
			}
			cur = ft
		}
		return true
	})
}

// parseCoqType maps a type rendered by ty.coq() back to a ty (the parameter list of rest_ comes as text).
func parseCoqType(t string) *ty {
	t = strings.TrimSpace(t)
	switch t {
	case "Z":
		return tInt
	case "bool":
		return tBool
	case "(list Z)":
		return tBytes
	case "merror":
		return tyErr
	}
	if strings.HasPrefix(t, "(list ") && strings.HasSuffix(t, ")") {
		return &ty{k: "list", elem: parseCoqType(t[6 : len(t)-1])}
	}
	if strings.HasPrefix(t, "(option ") && strings.HasSuffix(t, ")") {
		return &ty{k: "opt", elem: parseCoqType(t[8 : len(t)-1])}
	}
	if emittedStructs[t] {
		return &ty{k: "struct", name: t}
	}
	if _, ok := opaqueTypes[t]; ok {
		return &ty{k: "opaque", name: t}
	}
	return nil
}

func (m *wgMux) finish(text string, stateTys map[string]string) (string, string) {
	var st, tys []string
	for _, v := range m.stateOrder {
		if !m.used[v] {
			continue
		}
		val := v
		if v == m.ctxMap && m.ctxVar != "" {
			val = "(map_esContext_set " + v + " " + m.ctxKey + " " + m.ctxVar + ")"
		}
		st = append(st, val)
		tys = append(tys, stateTys[v])
	}
	prefix := ""
	if len(st) > 0 {
		prefix = strings.Join(st, ", ") + ", "
	}
	rt := strings.Join(append(tys, m.s.retTy), " * ")
	if m.fuel {
		rt = "option (" + rt + ")"
	}
	text = strings.ReplaceAll(text, "@@ST@@", prefix)
	text = strings.ReplaceAll(text, "@@RT@@", rt)
	return text, rt
}

// muxWritePacket: a method of *Muxer without loops (WritePacket).
func (p *pkg) muxMethod(key string) string {
	d, ok := p.funcs[key]
	if !ok {
		panic(genError{fmt.Sprintf("function %s not found in /repo", key)})
	}
	s := p.newWg(key)
	m := &wgMux{s: s, fieldTy: map[string]*ty{}, state: map[string]bool{}, ptrParam: map[string]bool{}, used: map[string]bool{}, ext: map[string]bool{}}
	s.mux = m
	if d.Recv == nil || len(d.Recv.List[0].Names) != 1 || recvName(d.Recv.List[0].Type) != "Muxer" {
		s.fail(d, "not a method of *Muxer with a named receiver")
	}
	m.recv = d.Recv.List[0].Names[0].Name
	// the fields, typed as muxgen types them
	mg0 := p.newMg(key, "tmp", "method", 1, nil)
	mg0.recv = m.recv
	mg0.loadFields(d, "Muxer")
	stateTys := map[string]string{}
	var fieldBinders []string
	for _, f := range mg0.fieldOrder {
		v := "m_" + f
		s.t.bind(v, mg0.fieldTy[f], token.NoPos)
		s.declDepth[v] = 0
		stateTys[v] = mg0.fieldTy[f].coq()
	}
	m.stateOrder = []string{"m_w", "m_buf"}
	m.state["m_w"], m.state["m_buf"] = true, true
	var params []string
	for _, f := range d.Type.Params.List {
		for _, id := range f.Names {
			typ := s.gotype(f.Type, d)
			if typ.k == "opt" && typ.elem.k == "struct" && !usesNilNode(d.Body, id.Name) {
				typ = typ.elem
			}
			s.t.bind(id.Name, typ, id.Pos())
			s.declDepth[id.Name] = 0
			params = append(params, fmt.Sprintf("(%s : %s)", cname(id.Name), typ.coq()))
		}
	}
	if d.Type.Results == nil {
		s.fail(d, "method without results")
	}
	var rts []string
	for _, f := range d.Type.Results.List {
		if len(f.Names) != 0 {
			s.fail(d, "named results")
		}
		typ := s.gotype(f.Type, d)
		s.results = append(s.results, typ)
		rts = append(rts, typ.coq())
	}
	s.retTy = strings.Join(rts, " * ")
	body := s.stmts(d.Body.List, func() string {
		s.fail(d, "function falls off its end")
		return ""
	})
	text, rt := m.finish(body, stateTys)
	// only the fields the body mentions are parameters
	for _, f := range mg0.fieldOrder {
		v := "m_" + f
		if strings.Contains(text, v) {
			fieldBinders = append(fieldBinders, fmt.Sprintf("(%s : %s)", v, stateTys[v]))
		}
	}
	cn := strings.ReplaceAll(key, ".", "_")
	return fmt.Sprintf("Definition %s %s %s : WF (%s) :=\n  wrun (\n  %s).\n\n", cn, strings.Join(fieldBinders, " "), strings.Join(params, " "), rt, text)
}

// muxRest: Muxer.WriteData from its first top-level loop on.
func (p *pkg) muxRest() string {
	key := "Muxer.WriteData"
	d, ok := p.funcs[key]
	if !ok {
		panic(genError{"function Muxer.WriteData not found in /repo"})
	}
	// the variables in scope at the loop, as the translation of the prefix lists them
	s1 := p.newMg(key, "Muxer_WriteData_until_loop", "prefix", 1, nil)
	s1.run()
	s2 := p.newMg(key, "Muxer_WriteData_until_loop", "prefix", 2, s1)
	s2.run()
	for n := range mgRegistered {
		delete(translated, n)
		delete(funcSig, n)
		delete(funcRes, n)
	}
	tys := strings.Split(s2.holeType, " -> ")
	if len(tys) != len(s2.holeVars)+1 {
		panic(genError{"Muxer.WriteData: the parameter list of rest_ could not be read"})
	}
	s := p.newWg(key)
	m := &wgMux{s: s, fieldTy: map[string]*ty{}, state: map[string]bool{}, ptrParam: map[string]bool{}, used: map[string]bool{}, ext: map[string]bool{}, fuel: true}
	s.mux = m
	m.recv = d.Recv.List[0].Names[0].Name
	stateTys := map[string]string{}
	var params []string
	for i, v := range s2.holeVars {
		typ := parseCoqType(tys[i])
		if typ == nil {
			s.fail(d, "variable %s handed over by the prefix has a type (%s) this translation does not know", v, tys[i])
		}
		s.t.adoptDecl(s2.t, v) // same order as the prefix lists them
		s.t.env[v] = typ
		s.declDepth[v] = 0
		stateTys[v] = tys[i]
		params = append(params, fmt.Sprintf("(%s : %s)", cname(v), tys[i]))
	}
	// find the loop, the map lookup that binds the context, the pointer parameters
	var loopIdx = -1
	for i, st := range d.Body.List {
		if f, ok := st.(*ast.ForStmt); ok {
			loopIdx = i
			m.mainFor = f
			break
		}
		if _, ok := st.(*ast.RangeStmt); ok {
			break
		}
	}
	if loopIdx < 0 {
		s.fail(d, "no loop at the top level")
	}
	roots := map[string]*ty{}
	for _, f := range d.Type.Params.List {
		for _, id := range f.Names {
			if t, ok := s.t.env[id.Name]; ok && t.k == "struct" {
				if _, isPtr := f.Type.(*ast.StarExpr); isPtr {
					m.ptrParam[id.Name] = true
					m.state[id.Name] = true
					roots[id.Name] = t
				}
			}
		}
	}
	pre := ""
	for _, st := range d.Body.List[:loopIdx] {
		as, ok := st.(*ast.AssignStmt)
		if !ok || len(as.Lhs) != 2 || len(as.Rhs) != 1 {
			continue
		}
		ix, ok := as.Rhs[0].(*ast.IndexExpr)
		if !ok {
			continue
		}
		sel, ok := ix.X.(*ast.SelectorExpr)
		if !ok || !isIdent(sel.X, m.recv) {
			continue
		}
		mv := "m_" + sel.Sel.Name
		mt, ok := s.t.env[mv]
		if !ok || mt.k != "opaque" {
			continue
		}
		mi, isMap := mgMaps[mt.name]
		id, isId := as.Lhs[0].(*ast.Ident)
		if !isMap || !isId || id.Name == "_" {
			continue
		}
		if _, live := s.t.env[id.Name]; !live {
			continue
		}
		if !mi.ptr {
			continue // a map of values: the variable is a copy
		}
		if m.ctxVar != "" {
			s.fail(as, "two pointers into maps")
		}
		ks, _ := s.sx(ix.Index)
		pre += s.flush() + "let key_ := " + ks + " in\n  "
		s.t.bind("key_", tInt, as.Pos())
		s.declDepth["key_"] = 0
		m.ctxVar, m.ctxKey, m.ctxMap = id.Name, "key_", mv
		m.ext["map_"+mi.val.name+"_set"] = true
		roots[id.Name] = s.t.env[id.Name]
		m.state[mv] = true
	}
	m.stateOrder = []string{"m_w", "m_buf"}
	m.state["m_w"], m.state["m_buf"] = true, true
	if m.ctxMap != "" {
		m.stateOrder = append(m.stateOrder, m.ctxMap)
		m.used[m.ctxMap] = true
	}
	var ptrs []string
	for v := range m.ptrParam {
		ptrs = append(ptrs, v)
	}
	s.t.sortDecl(ptrs) // parameter order
	for _, v := range ptrs {
		m.stateOrder = append(m.stateOrder, v)
		m.used[v] = true
	}
	m.scanPaths(d.Body, roots)
	// results
	for _, f := range d.Type.Results.List {
		if len(f.Names) != 0 {
			s.fail(d, "named results")
		}
		s.results = append(s.results, s.gotype(f.Type, d))
	}
	var rts []string
	for _, r := range s.results {
		rts = append(rts, r.coq())
	}
	s.retTy = strings.Join(rts, " * ")
	body := s.stmts(d.Body.List[loopIdx:], func() string {
		s.fail(d, "function falls off its end")
		return ""
	})
	text, rt := m.finish(pre+body, stateTys)
	loops, _ := m.finish(strings.Join(s.loops, ""), stateTys)
	comment := fmt.Sprintf("(* Muxer.WriteData from its packetisation loop (line %d of its file) on: the rest_ of Gen/MuxGen.v's Muxer_WriteData_until_loop.\n   Its parameters after fuel_ are the variables in scope at the loop, in the order rest_ is applied to them: %s.\n   Result: None = out of fuel; Some (%s, n, err). *)\n",
		p.fset.Position(m.mainFor.Pos()).Line, strings.Join(cnames(s2.holeVars), " "), strings.Join(usedState(m), ", "))
	return loops + comment + fmt.Sprintf("Definition Muxer_WriteData_rest (fuel_ : nat) %s : WF (%s) :=\n  wrun (\n  %s).\n\n", strings.Join(params, " "), rt, text)
}

func usedState(m *wgMux) []string {
	var out []string
	for _, v := range m.stateOrder {
		if m.used[v] {
			out = append(out, v)
		}
	}
	return out
}

const wgMuxHeader = `(* ---- muxer.go: Muxer.WritePacket and the packetisation part of Muxer.WriteData ----
   See "the muxer part" in go/gen/writegen.go. The receiver's fields are the variables m_<field>; a call of a translated
   writer through m.bufWriter appends the bytes of its items to m_buf, through m.bitsWriter it hands their io.Writer calls
   to io_Write; ctx (the *esContext looked up in the map) is a value stored back at every return; d, the record for the
   *MuxerData argument, is returned: the caller's struct is mutated. *)

(* what reaches the io.Writer behind m.bitsWriter: one io_Write per chunk, results ignored (no Write fails here) *)
Definition io_write_all {W : Type} (io_Write : W -> list Z -> W * Z * merror) (w : W) (chunks : list (list Z)) : W :=
  fold_left (fun w c => fst (fst (io_Write w c))) chunks w.
(* a call of a translated writer through one of the Muxer's own bits writers: its items and its results *)
Definition wcapture {R A} (f : WF A) : WM R (list gitem * A) :=
  match f with
  | (l, Some a) => ([], WVal (l, a))
  | (_, None) => ([], WPanic)
  end.

`

func (p *pkg) emitWriteGenMux(b *strings.Builder, isolate func(string, func() string)) {
	var body strings.Builder
	iso := func(what string, f func() string) {
		defer func() {
			if r := recover(); r != nil {
				ge, ok := r.(genError)
				if !ok {
					panic(r)
				}
				fmt.Fprintf(os.Stderr, "gen: not translated: %s\n", ge.msg)
				fmt.Fprintf(&body, "(* NOT TRANSLATED (%s left the translator's grammar): %s *)\n\n", what, strings.ReplaceAll(strings.ReplaceAll(ge.msg, "*)", "* )"), "(*", "( *"))
			}
		}()
		body.WriteString(f())
	}
	iso("StreamType.ToPESStreamID", func() string {
		if translated["StreamType.ToPESStreamID"] {
			return ""
		}
		return p.function("StreamType.ToPESStreamID", false)
	})
	iso("Muxer.WritePacket", func() string { return p.muxMethod("Muxer.WritePacket") })
	iso("Muxer.WriteData (from its loop on)", func() string { return p.muxRest() })
	b.WriteString(wgMuxHeader)
	b.WriteString(emitWgSetters(p))
	b.WriteString("Section MuxWrite.\nContext {io_Writer : Type} {map_esContext : Type} {programMap_t : Type}.\nVariable io_Write : io_Writer -> list Z -> io_Writer * Z * merror.\nVariable map_esContext_set : map_esContext -> Z -> esContext -> map_esContext.\n\n")
	b.WriteString(body.String())
	b.WriteString("End MuxWrite.\n")
}
