package main

// Translation of the WRITERS of packet.go / data_pes.go (functions whose first parameter is a *astikit.BitsWriter)
// and of the packetisation part of muxer.go into Gen/WriteGen.v, on every run, from the current source.
//
// A writer is a computation in the writer monad WM R A emitted at the head of Gen/WriteGen.v:
//
//	(items handed to the BitsWriter so far, in program order; outcome)     outcome = WPanic | WExit r | WVal a
//
//	b := astikit.NewBitsWriterBatch(w)      b stands for w (nothing is emitted)
//	b.Write(x) / b.WriteN(x, n)             wemit WBatch item ;;; ...        item from the STATIC type of x:
//	b.WriteBytesN(x, n, pad)                wemits (wbytes_n WBatch x n pad)   bool -> WBool, uintN -> WBits N, []byte -> WBytes;
//	                                                                          WriteN(x, n) -> WBits n (n a constant); an int, an
//	                                                                          untyped constant or a string is refused
//	err = w.Write(x)  (also as an if-init)  r_ <- w_write WDirect item ;; let err := r_ in ...   (a Write that succeeds returns nil)
//	w.Write(x) as a statement               wemit WDropped item ;;; ...      the result of the call is discarded
//	n, err := writeY(w, args)               '(r1_, r2_) <- wcall (writeY args) ;; let n := r1_ in let err := r2_ in ...
//	b.Err()                                 batch_err (= ENil: no Write fails in this semantics)
//	return v.., e / bare return             wexit (v.., e)      (named results are variables initialised to their zero values)
//	if c { A } else { B } ; rest            '(vars) <- (if c then A ;; wret vars else B ;; wret vars) ;; rest
//	                                        vars = the variables declared outside the blocks that they assign; a `return`
//	                                        inside a block is wexit, which wbind hands through: no continuation is copied
//	for i := a; i < E; i++ { body }         '(vars) <- f_loopK (Z.to_nat (E - i)) <all variables in scope> ;; rest
//	for x < E { body; x++ }                 a Fixpoint on the trip count; accepted only as the counting idiom: the counter is
//	                                        incremented exactly once, unconditionally, at the end of every iteration and is not
//	                                        assigned otherwise, E does not mention anything the body assigns, no break / continue
//	p.f.g with p.f a pointer                t_ <- wneed (T_f p) ;; ... (T_g t_) ...: a nil dereference is WPanic, raised in
//	                                        front of the statement that contains it (refused under && / ||)
//	f(x.ptr) for a translated f whose parameter is the record (never compared with nil): the same wneed at the call
//	x == nil / x != nil                     on an option: match; on an error: merror_is_nil
//	x[a:b]                                  t_ <- wslice x a b ;; ...   (WPanic outside 0 <= a <= b <= len x; the capacity of a
//	                                        slice is not modelled)
//	fmt.Errorf(..) / nil as an error        EFmt / ENil  (error is the inductive merror of Gen/MuxGen.v)
//
// Integers, `mod 2^N`, records, Gen/Preds.v calls: the expression translator of preds.go. A *T parameter that the
// function never compares with nil is the record T (the caller's wneed stands for the dereference inside the callee: the
// position of that panic among the callee's writes is not modelled); one that it does compare is an option.
// Every declaration is a `let`; a variable of an enclosing block may not be re-declared (shadowing is refused).
//
// The third part (muxer.go) is in the second half of this file: see wgMuxer.
//
// Whatever leaves this grammar raises a genError: the function is replaced by a NOT TRANSLATED comment,
// "gen: not translated:" goes to stderr, Proofs/WriteGen*.v stop compiling and the check names the broken lemma.

import (
	"fmt"
	"go/ast"
	"go/token"
	"os"
	"sort"
	"strings"
)

var writeEntries = []string{
	"writePacketHeader", "writePCR", "writePTSOrDTS", "writePacketAdaptationFieldExtension", "writePacketAdaptationField", "writePacket",
	"writeESCR", "writeDSMTrickMode", "writePESOptionalHeader", "writePESHeader", "writePESData",
}

type wgSig struct {
	params  []*ty
	results []*ty
}

var wgFuncs = map[string]*wgSig{}

type wgSnap struct {
	env       map[string]*ty
	declDepth map[string]int
	cache     map[string]string
}

type wg struct {
	p         *pkg
	t         *tr
	key       string
	wname     string          // the *astikit.BitsWriter parameter
	batch     map[string]bool // locals bound by astikit.NewBitsWriterBatch(w)
	depth     int
	declDepth map[string]int
	wstack    []map[string]bool
	named     []string
	results   []*ty
	pre       []string
	leaves    map[string]bool
	cache     map[string]string // rendered option term -> variable holding its content
	nfresh    int
	loops     []string
	nloop     int
	guarded   bool
	retTy     string
	mux       *wgMux // set while translating the muxer part
}

func (s *wg) fail(n ast.Node, format string, a ...interface{}) { s.t.fail(n, format, a...) }

func (s *wg) fresh(base string) string {
	s.nfresh++
	return fmt.Sprintf("%s%d_", base, s.nfresh)
}

func (s *wg) leaf(n ast.Node, term string, typ *ty) *ast.Ident {
	s.t.env[term] = typ
	s.leaves[term] = true
	return &ast.Ident{NamePos: n.Pos(), Name: term}
}

// ---------- bookkeeping ----------

func (s *wg) snapshot() wgSnap {
	env := map[string]*ty{}
	for k, v := range s.t.env {
		env[k] = v
	}
	dd := map[string]int{}
	for k, v := range s.declDepth {
		dd[k] = v
	}
	c := map[string]string{}
	for k, v := range s.cache {
		c[k] = v
	}
	return wgSnap{env, dd, c}
}

func (s *wg) restore(x wgSnap) {
	s.t.env = map[string]*ty{}
	for k, v := range x.env {
		s.t.env[k] = v
	}
	s.declDepth = map[string]int{}
	for k, v := range x.declDepth {
		s.declDepth[k] = v
	}
	s.cache = map[string]string{}
	for k, v := range x.cache {
		s.cache[k] = v
	}
}

func (s *wg) pushW() { s.wstack = append(s.wstack, map[string]bool{}) }
func (s *wg) popW() map[string]bool {
	w := s.wstack[len(s.wstack)-1]
	s.wstack = s.wstack[:len(s.wstack)-1]
	if len(s.wstack) > 0 {
		for k := range w {
			s.wstack[len(s.wstack)-1][k] = true
		}
	}
	return w
}

func (s *wg) wrote(v string) {
	if len(s.wstack) > 0 {
		s.wstack[len(s.wstack)-1][v] = true
	}
	// a cached dereference may go through the variable: forget them all when a record or pointer is rebound
	if t, ok := s.t.env[v]; ok && (t.k == "struct" || t.k == "opt") {
		s.cache = map[string]string{}
	}
}

func (s *wg) define(n ast.Node, name string, typ *ty) {
	if _, ok := s.t.env[name]; ok {
		if d, ok := s.declDepth[name]; !ok || d < s.depth {
			s.fail(n, "%s shadows a variable of an enclosing scope", name)
		}
	}
	if name == s.wname || s.batch[name] {
		s.fail(n, "%s redeclares a writer", name)
	}
	s.t.env[name] = typ
	s.declDepth[name] = s.depth
	s.wrote(name)
}

func (s *wg) envNames() map[string]bool {
	out := map[string]bool{}
	for v := range s.t.env {
		out[v] = true
	}
	return out
}

func (s *wg) restrictEnv(names map[string]bool) {
	for v := range s.t.env {
		if !names[v] && !s.leaves[v] {
			delete(s.t.env, v)
			delete(s.declDepth, v)
		}
	}
	for k, v := range s.cache {
		if _, ok := s.t.env[v]; !ok {
			delete(s.cache, k)
		}
	}
}

func (s *wg) envVars() []string {
	var out []string
	for v := range s.t.env {
		if s.leaves[v] {
			continue
		}
		out = append(out, v)
	}
	sort.Strings(out)
	return out
}

func (s *wg) flush() string {
	o := strings.Join(s.pre, "")
	s.pre = nil
	return o
}

// ---------- expressions ----------

func (s *wg) sx(e ast.Expr) (string, *ty) { return s.t.expr(s.rw(e)) }

// need binds the content of an option-typed expression (already rewritten) in front of the current statement.
func (s *wg) need(e ast.Expr, n ast.Node) ast.Expr {
	term, typ := s.t.expr(e)
	if typ.k != "opt" {
		return e
	}
	if s.guarded {
		s.fail(n, "dereference of a pointer under a short-circuit operator")
	}
	if v, ok := s.cache[term]; ok {
		if _, live := s.t.env[v]; live {
			return &ast.Ident{NamePos: n.Pos(), Name: v}
		}
	}
	base := "p"
	if sel, ok := e.(*ast.SelectorExpr); ok {
		base = strings.ToLower(sel.Sel.Name[:1]) + sel.Sel.Name[1:]
	} else if id, ok := e.(*ast.Ident); ok {
		base = id.Name
	}
	v := s.fresh(base + "_")
	s.pre = append(s.pre, v+" <- wneed "+paren(term)+" ;;\n  ")
	s.t.env[v] = typ.elem
	s.declDepth[v] = s.depth
	s.cache[term] = v
	return &ast.Ident{NamePos: n.Pos(), Name: v}
}

func (s *wg) isWriter(e ast.Expr) bool {
	id, ok := e.(*ast.Ident)
	return ok && (id.Name == s.wname || s.batch[id.Name]) && id.Name != ""
}

func (s *wg) rwAll(es []ast.Expr) []ast.Expr {
	var out []ast.Expr
	for _, e := range es {
		out = append(out, s.rw(e))
	}
	return out
}

func (s *wg) rw(e ast.Expr) ast.Expr {
	if s.mux != nil {
		if r, ok := s.mux.rw(e); ok {
			return r
		}
	}
	switch x := e.(type) {
	case *ast.Ident:
		if x.Name == "nil" {
			s.fail(x, "nil outside an assignment, a return or a comparison")
		}
		if s.isWriter(x) {
			s.fail(x, "writer %s used as a value", x.Name)
		}
		return x
	case *ast.BasicLit:
		return x
	case *ast.ParenExpr:
		return &ast.ParenExpr{Lparen: x.Lparen, X: s.rw(x.X), Rparen: x.Rparen}
	case *ast.StarExpr:
		return s.need(s.rw(x.X), x)
	case *ast.UnaryExpr:
		if x.Op == token.AND {
			if _, ok := x.X.(*ast.CompositeLit); !ok {
				s.fail(x, "address of something that is not a composite literal")
			}
		}
		return &ast.UnaryExpr{OpPos: x.OpPos, Op: x.Op, X: s.rw(x.X)}
	case *ast.BinaryExpr:
		if o, isNil := nilCompare(x); isNil {
			vs, vt := s.sx(o)
			var r string
			switch {
			case vt.k == "opt":
				r = "(match " + vs + " with Some _ => false | None => true end)"
			case vt.k == "opaque" && vt.name == "merror":
				r = "(merror_is_nil " + vs + ")"
			default:
				s.fail(x, "nil comparison of a value that is neither an option nor an error")
			}
			if x.Op == token.NEQ {
				r = "(negb " + r + ")"
			}
			return s.leaf(x, r, tBool)
		}
		if x.Op == token.LAND || x.Op == token.LOR {
			l := s.rw(x.X)
			saved := s.guarded
			s.guarded = true
			r := s.rw(x.Y)
			s.guarded = saved
			return &ast.BinaryExpr{X: l, OpPos: x.OpPos, Op: x.Op, Y: r}
		}
		return &ast.BinaryExpr{X: s.rw(x.X), OpPos: x.OpPos, Op: x.Op, Y: s.rw(x.Y)}
	case *ast.CompositeLit:
		id, ok := x.Type.(*ast.Ident)
		if !ok || !emittedStructs[id.Name] {
			s.fail(x, "composite literal of something that is not a modelled struct")
		}
		out := &ast.CompositeLit{Type: x.Type, Lbrace: x.Lbrace, Rbrace: x.Rbrace}
		for _, el := range x.Elts {
			kv, ok := el.(*ast.KeyValueExpr)
			if !ok {
				s.fail(x, "unkeyed composite literal")
			}
			k := kv.Key.(*ast.Ident).Name
			ft := s.t.structFieldType(id.Name, k, kv)
			var v ast.Expr
			if isNilIdent(kv.Value) {
				v = s.leaf(kv, wgNilOf(ft), ft)
			} else {
				v = s.rw(kv.Value)
			}
			out.Elts = append(out.Elts, &ast.KeyValueExpr{Key: kv.Key, Colon: kv.Colon, Value: v})
		}
		return out
	case *ast.SelectorExpr:
		if id, ok := x.X.(*ast.Ident); ok {
			if _, inEnv := s.t.env[id.Name]; !inEnv {
				if s.isWriter(id) {
					s.fail(x, "field of a writer")
				}
				return x // package selector: tr.expr decides
			}
		}
		return &ast.SelectorExpr{X: s.need(s.rw(x.X), x), Sel: x.Sel}
	case *ast.SliceExpr:
		if x.Slice3 {
			s.fail(x, "three-index slice")
		}
		xs, xt := s.sx(x.X)
		if xt.k != "bytes" {
			s.fail(x, "slice expression on something that is not a byte slice")
		}
		if s.guarded {
			s.fail(x, "slice expression under a short-circuit operator")
		}
		lo, hi := "0", "(Z.of_nat (List.length "+xs+"))"
		if x.Low != nil {
			lo, _ = s.sx(x.Low)
		}
		if x.High != nil {
			hi, _ = s.sx(x.High)
		}
		v := s.fresh("slice_")
		s.pre = append(s.pre, v+" <- wslice "+paren(xs)+" "+paren(lo)+" "+paren(hi)+" ;;\n  ")
		s.t.env[v] = tBytes
		s.declDepth[v] = s.depth
		return &ast.Ident{NamePos: x.Pos(), Name: v}
	case *ast.IndexExpr:
		s.fail(x, "index expression (it can panic; not in the grammar)")
	case *ast.CallExpr:
		return s.rwCall(x)
	}
	s.fail(e, "unsupported expression %T", e)
	return nil
}

func wgNilOf(t *ty) string {
	switch t.k {
	case "list":
		return "(@nil " + t.elem.coq() + ")"
	case "bytes":
		return "(@nil Z)"
	case "opt":
		return "None"
	case "opaque":
		if t.name == "merror" {
			return "ENil"
		}
	}
	return "?"
}

func (s *wg) rwCall(x *ast.CallExpr) ast.Expr {
	switch f := x.Fun.(type) {
	case *ast.Ident:
		if _, isVar := s.t.env[f.Name]; isVar {
			s.fail(x, "call of a function value")
		}
		if _, isW := wgFuncs[f.Name]; isW {
			s.fail(x, "writer %s is called inside an expression", f.Name)
		}
		switch f.Name {
		case "len":
			return &ast.CallExpr{Fun: f, Lparen: x.Lparen, Args: s.rwAll(x.Args), Rparen: x.Rparen}
		case "append", "make", "new", "copy", "delete", "panic", "recover", "cap":
			s.fail(x, "%s inside an expression", f.Name)
		}
		if _, _, isInt := s.p.intType(f.Name); isInt && len(x.Args) == 1 {
			return &ast.CallExpr{Fun: f, Lparen: x.Lparen, Args: s.rwAll(x.Args), Rparen: x.Rparen}
		}
		if !translated[f.Name] {
			s.fail(x, "call of untranslated function %s", f.Name)
		}
		sig := funcSig[f.Name]
		args := s.rwAll(x.Args)
		if len(args) != len(sig) {
			s.fail(x, "wrong number of arguments for %s", f.Name)
		}
		for i, a := range args {
			_, at := s.t.expr(a)
			if sig[i].k == "struct" && at.k == "opt" {
				args[i] = s.need(a, x)
			}
		}
		return &ast.CallExpr{Fun: f, Lparen: x.Lparen, Args: args, Rparen: x.Rparen}
	case *ast.SelectorExpr:
		if id, ok := f.X.(*ast.Ident); ok {
			if s.batch[id.Name] && f.Sel.Name == "Err" && len(x.Args) == 0 {
				return s.leaf(x, "batch_err", tyErr)
			}
			if s.isWriter(id) {
				s.fail(x, "writer method %s inside an expression", f.Sel.Name)
			}
			if _, inEnv := s.t.env[id.Name]; !inEnv {
				if id.Name == "fmt" && f.Sel.Name == "Errorf" {
					for _, a := range x.Args {
						if lit, ok := a.(*ast.BasicLit); ok && lit.Kind == token.STRING {
							continue
						}
						s.sx(a) // the arguments must be translatable (nothing hidden in them); their dereferences are hoisted
					}
					return s.leaf(x, "EFmt", tyErr)
				}
				if id.Name == "errors" && f.Sel.Name == "New" {
					return s.leaf(x, "EFmt", tyErr)
				}
				return &ast.CallExpr{Fun: f, Lparen: x.Lparen, Args: s.rwAll(x.Args), Rparen: x.Rparen}
			}
		}
		// method of a translated type: the receiver is dereferenced when it is a pointer
		rx := s.need(s.rw(f.X), x)
		_, xt := s.t.expr(rx)
		if xt.k == "struct" && hasStateMethod(xt.name, f.Sel.Name) {
			s.fail(x, "%s changes its receiver", f.Sel.Name)
		}
		return &ast.CallExpr{Fun: &ast.SelectorExpr{X: rx, Sel: f.Sel}, Lparen: x.Lparen, Args: s.rwAll(x.Args), Rparen: x.Rparen}
	}
	s.fail(x, "unsupported call")
	return nil
}

// value translates e for a destination of type want.
func (s *wg) value(e ast.Expr, want *ty, n ast.Node) string {
	if isNilIdent(e) {
		if want == nil {
			s.fail(n, "nil where its type is not known")
		}
		v := wgNilOf(want)
		if v == "?" {
			s.fail(n, "nil for a value that is not modelled as a list, an option or an error")
		}
		return v
	}
	r := s.rw(e)
	v, vt := s.t.expr(r)
	if want == nil {
		return v
	}
	switch {
	case want.k == "struct" && vt.k == "opt":
		v, vt = s.t.expr(s.need(r, n))
	case want.k == "opt" && vt.k == "struct":
		return "(Some " + v + ")"
	}
	if !mgSameTy(vt, want) {
		s.fail(n, "value of type %s where %s is expected", vt.coq(), want.coq())
	}
	return v
}

// item renders the witem a Write / WriteN of e hands to the BitsWriter.
func (s *wg) item(e ast.Expr, width ast.Expr, n ast.Node) string {
	v, vt := s.sx(e)
	if width != nil {
		wv, ok := s.p.evalConst(width, map[string]bool{})
		if !ok || wv.Sign() < 0 || wv.Int64() > 64 {
			s.fail(n, "WriteN with a width that is not a constant in 0..64")
		}
		if vt.k != "int" || vt.w == 0 {
			s.fail(n, "WriteN of a value whose static type is not uint8/16/32/64 (astikit returns an error)")
		}
		return fmt.Sprintf("(WBits %d %s)", wv.Int64(), v)
	}
	switch {
	case vt.k == "bool":
		return "(WBool " + v + ")"
	case vt.k == "int" && vt.w > 0:
		return fmt.Sprintf("(WBits %d %s)", vt.w, v)
	case vt.k == "bytes":
		return "(WBytes " + v + ")"
	}
	s.fail(n, "Write of a value whose static type is not bool, uint8/16/32/64 or []byte (astikit returns an error)")
	return ""
}

// ---------- statements ----------

func wgTup(vars []string) string {
	if len(vars) == 0 {
		return "tt"
	}
	if len(vars) == 1 {
		return vars[0]
	}
	return "(" + strings.Join(vars, ", ") + ")"
}

func wgBind(vars []string, m, k string) string {
	switch len(vars) {
	case 0:
		return m + " ;;;\n  " + k
	case 1:
		return vars[0] + " <- " + m + " ;;\n  " + k
	}
	return "'(" + strings.Join(vars, ", ") + ") <- " + m + " ;;\n  " + k
}

func (s *wg) ret(st *ast.ReturnStmt) string {
	if len(st.Results) == 0 {
		if len(s.results) != len(s.named) {
			s.fail(st, "bare return without named results")
		}
		return "wexit " + wgTup(cnames(s.named))
	}
	if len(st.Results) != len(s.results) {
		s.fail(st, "wrong number of results (a call returning several values?)")
	}
	var parts []string
	for i, r := range st.Results {
		parts = append(parts, s.value(r, s.results[i], st))
	}
	return s.flush() + "wexit " + wgTup(parts)
}

// writerCall recognises W.M(args) on the function's writer or on a batch bound to it.
func (s *wg) writerCall(e ast.Expr) (recv string, meth string, c *ast.CallExpr, ok bool) {
	c, ok = e.(*ast.CallExpr)
	if !ok {
		return
	}
	sel, ok := c.Fun.(*ast.SelectorExpr)
	if !ok {
		return "", "", nil, false
	}
	id, ok := sel.X.(*ast.Ident)
	if !ok || !s.isWriter(id) {
		return "", "", nil, false
	}
	return id.Name, sel.Sel.Name, c, true
}

// funcCall recognises writeY(w, args) for a translated writer.
func (s *wg) funcCall(e ast.Expr) (string, *ast.CallExpr, bool) {
	c, ok := e.(*ast.CallExpr)
	if !ok {
		return "", nil, false
	}
	f, ok := c.Fun.(*ast.Ident)
	if !ok {
		return "", nil, false
	}
	if d, isF := s.p.funcs[f.Name]; isF && wgIsWriterFunc(d) {
		return f.Name, c, true
	}
	return "", nil, false
}

func wgIsWriterType(e ast.Expr) bool {
	st, ok := e.(*ast.StarExpr)
	if !ok {
		return false
	}
	sel, ok := st.X.(*ast.SelectorExpr)
	if !ok {
		return false
	}
	x, ok := sel.X.(*ast.Ident)
	return ok && x.Name == "astikit" && sel.Sel.Name == "BitsWriter"
}

func wgIsWriterFunc(d *ast.FuncDecl) bool {
	if d.Recv != nil || d.Type.Params == nil || len(d.Type.Params.List) == 0 {
		return false
	}
	return wgIsWriterType(d.Type.Params.List[0].Type)
}

// effect translates a call that writes; it returns the monadic computation and the types of its results.
func (s *wg) effect(e ast.Expr, dropped bool, n ast.Node) (string, []*ty, bool) {
	if recv, meth, c, ok := s.writerCall(e); ok && meth != "Err" {
		direct := recv == s.wname
		src := "WBatch"
		if direct {
			src = "WDirect"
			if dropped {
				src = "WDropped"
			}
		}
		switch meth {
		case "Write":
			if len(c.Args) != 1 {
				s.fail(n, "Write with %d arguments", len(c.Args))
			}
			it := s.item(c.Args[0], nil, n)
			if direct {
				return "w_write " + src + " " + it, []*ty{tyErr}, true
			}
			return "wemit " + src + " " + it, nil, true
		case "WriteN":
			if len(c.Args) != 2 {
				s.fail(n, "WriteN with %d arguments", len(c.Args))
			}
			it := s.item(c.Args[0], c.Args[1], n)
			if direct {
				return "w_write " + src + " " + it, []*ty{tyErr}, true
			}
			return "wemit " + src + " " + it, nil, true
		case "WriteBytesN":
			if len(c.Args) != 3 {
				s.fail(n, "WriteBytesN with %d arguments", len(c.Args))
			}
			bs, bt := s.sx(c.Args[0])
			if bt.k != "bytes" {
				s.fail(n, "WriteBytesN of something that is not a byte slice")
			}
			nv, ok := s.p.evalConst(c.Args[1], map[string]bool{})
			if !ok || nv.Sign() <= 0 {
				s.fail(n, "WriteBytesN with a length that is not a positive constant")
			}
			pad, pt := s.sx(c.Args[2])
			if pt.k != "int" && pt.k != "untyped" {
				s.fail(n, "WriteBytesN with a pad byte that is not an integer")
			}
			m := "wemits (wbytes_n " + src + " " + paren(bs) + " " + nv.String() + " " + paren(pad) + ")"
			if direct {
				return "(" + m + " ;;; wret ENil)", []*ty{tyErr}, true
			}
			return m, nil, true
		}
		s.fail(n, "unsupported writer method %s", meth)
	}
	if name, c, ok := s.funcCall(e); ok {
		sig, ok := wgFuncs[name]
		if !ok {
			s.fail(n, "call of the untranslated writer %s", name)
		}
		comp, ok := s.writerArg(c.Args[0], n)
		if !ok {
			s.fail(n, "%s writes through something that is not this function's writer", name)
		}
		if len(c.Args)-1 != len(sig.params) {
			s.fail(n, "wrong number of arguments for %s", name)
		}
		parts := []string{name}
		for i, a := range c.Args[1:] {
			parts = append(parts, paren(s.value(a, sig.params[i], n)))
		}
		return comp + " (" + strings.Join(parts, " ") + ")", sig.results, true
	}
	return "", nil, false
}

// writerArg: the first argument of a writer call; "wcall" when it is the function's own writer.
func (s *wg) writerArg(e ast.Expr, n ast.Node) (string, bool) {
	if id, ok := e.(*ast.Ident); ok && id.Name == s.wname && s.wname != "" {
		return "wcall", true
	}
	if s.mux != nil {
		return s.mux.writerArg(e, n)
	}
	return "", false
}

func isBatchCtor(e ast.Expr) (ast.Expr, bool) {
	c, ok := e.(*ast.CallExpr)
	if !ok || len(c.Args) != 1 {
		return nil, false
	}
	sel, ok := c.Fun.(*ast.SelectorExpr)
	if !ok || sel.Sel.Name != "NewBitsWriterBatch" || !isIdent(sel.X, "astikit") {
		return nil, false
	}
	return c.Args[0], true
}

func (s *wg) stmts(list []ast.Stmt, k func() string) string {
	if len(list) == 0 {
		return k()
	}
	rest := func() string { return s.stmts(list[1:], k) }
	if s.mux != nil {
		if out, ok := s.mux.stmt(list, k); ok {
			return out
		}
	}
	switch st := list[0].(type) {
	case *ast.ReturnStmt:
		return s.ret(st)
	case *ast.EmptyStmt:
		return rest()
	case *ast.BlockStmt:
		outer, d := s.envNames(), s.depth
		s.depth++
		return s.stmts(st.List, func() string {
			s.depth = d
			s.restrictEnv(outer)
			return rest()
		})
	case *ast.DeclStmt:
		gd, ok := st.Decl.(*ast.GenDecl)
		if !ok || gd.Tok != token.VAR {
			s.fail(st, "unsupported declaration")
		}
		out := ""
		for _, sp := range gd.Specs {
			vs := sp.(*ast.ValueSpec)
			for i, id := range vs.Names {
				var typ *ty
				if vs.Type != nil {
					typ = s.gotype(vs.Type, st)
				}
				var val string
				if i < len(vs.Values) {
					if typ == nil {
						v, vt := s.sx(vs.Values[i])
						if vt.k == "untyped" {
							vt = tInt
						}
						val, typ = v, vt
					} else {
						val = s.value(vs.Values[i], typ, st)
					}
				} else {
					if typ == nil {
						s.fail(st, "declaration without type")
					}
					val = wgZero(typ)
					if val == "?" {
						s.fail(st, "zero value of a type that is not modelled")
					}
				}
				out += s.flush()
				s.define(st, id.Name, typ)
				out += "let " + cname(id.Name) + " := " + val + " in\n  "
			}
		}
		return out + rest()
	case *ast.IncDecStmt:
		tok := token.ADD_ASSIGN
		if st.Tok == token.DEC {
			tok = token.SUB_ASSIGN
		}
		return s.assignTo(st.X, tok, "1", tUntyped, st) + rest()
	case *ast.ExprStmt:
		m, res, ok := s.effect(st.X, true, st)
		if !ok {
			s.fail(st, "unsupported expression statement")
		}
		pre := s.flush()
		if len(res) == 0 {
			return pre + m + " ;;;\n  " + rest()
		}
		return pre + m + " ;;;\n  " + rest()
	case *ast.AssignStmt:
		return s.assignStmt(st, rest)
	case *ast.SwitchStmt:
		if st.Init != nil {
			s.fail(st, "switch with init")
		}
		return s.stmts(append([]ast.Stmt{s.t.switchToIf(st)}, list[1:]...), k)
	case *ast.IfStmt:
		return s.ifStmt(st, list[1:], k)
	case *ast.ForStmt:
		return s.forStmt(st, list[1:], k)
	}
	s.fail(list[0], "unsupported statement %T", list[0])
	return ""
}

func wgZero(t *ty) string {
	if t.k == "opaque" {
		if t.name == "merror" {
			return "ENil"
		}
		return "?"
	}
	return t.zero()
}

func (s *wg) gotype(e ast.Expr, n ast.Node) *ty {
	if isIdent(e, "error") {
		return tyErr
	}
	return s.t.goType(e)
}

func (s *wg) assignStmt(st *ast.AssignStmt, rest func() string) string {
	// b := astikit.NewBitsWriterBatch(w)
	if len(st.Lhs) == 1 && len(st.Rhs) == 1 {
		if arg, ok := isBatchCtor(st.Rhs[0]); ok {
			id, isId := st.Lhs[0].(*ast.Ident)
			if !isId || st.Tok != token.DEFINE || !isIdent(arg, s.wname) || s.wname == "" {
				s.fail(st, "a batch writer is bound otherwise than by `b := astikit.NewBitsWriterBatch(<the function's writer>)`")
			}
			if _, clash := s.t.env[id.Name]; clash || s.depth != 0 {
				s.fail(st, "batch writer %s shadows a variable or is created inside a block", id.Name)
			}
			s.batch[id.Name] = true
			return rest()
		}
	}
	// calls that write
	if len(st.Rhs) == 1 {
		if m, res, ok := s.effect(st.Rhs[0], false, st); ok {
			if len(res) != len(st.Lhs) {
				s.fail(st, "%d values assigned from a call that yields %d", len(st.Lhs), len(res))
			}
			pre := s.flush()
			var tmps []string
			for range res {
				tmps = append(tmps, s.fresh("r"))
			}
			out := ""
			for i, l := range st.Lhs {
				out += s.assignTo(l, st.Tok, tmps[i], res[i], st)
			}
			return pre + wgBind(tmps, m, out+rest())
		}
	}
	if len(st.Lhs) != len(st.Rhs) {
		s.fail(st, "unsupported multiple assignment")
	}
	if len(st.Lhs) > 1 {
		out := ""
		type tv struct {
			v string
			t *ty
		}
		var tmp []tv
		for i, r := range st.Rhs {
			var v string
			var vt *ty
			if isNilIdent(r) {
				vt = s.lhsType(st.Lhs[i])
				v = s.value(r, vt, st)
			} else {
				v, vt = s.sx(r)
			}
			t := s.fresh("tmp")
			tmp = append(tmp, tv{t, vt})
			out += "let " + t + " := " + v + " in\n  "
		}
		out = s.flush() + out
		for i, l := range st.Lhs {
			out += s.assignTo(l, st.Tok, tmp[i].v, tmp[i].t, st)
		}
		return out + rest()
	}
	lhs, rhs := st.Lhs[0], st.Rhs[0]
	var v string
	var vt *ty
	if isNilIdent(rhs) {
		vt = s.lhsType(lhs)
		v = s.value(rhs, vt, st)
	} else {
		v, vt = s.sx(rhs)
		if (vt.k == "list" || vt.k == "bytes" || vt.k == "opt") && isBareRef(rhs) && s.mux == nil {
			s.fail(st, "copy of a slice header or of a pointer: the two would share what they point to")
		}
	}
	return s.flush() + s.assignTo(lhs, st.Tok, v, vt, st) + rest()
}

func (s *wg) lhsType(lhs ast.Expr) *ty {
	if id, ok := lhs.(*ast.Ident); ok {
		return s.t.env[id.Name]
	}
	return nil
}

// assignTo assigns the already translated value rs : rt to the lvalue (a local variable).
func (s *wg) assignTo(lhs ast.Expr, tok token.Token, rs string, rt *ty, n ast.Node) string {
	if isBlank(lhs) {
		return ""
	}
	id, ok := lhs.(*ast.Ident)
	if !ok {
		s.fail(n, "assignment to something that is not a local variable (a store through a pointer would be visible to the caller)")
	}
	name := id.Name
	if s.isWriter(id) {
		s.fail(n, "assignment to a writer")
	}
	if tok == token.DEFINE {
		if d, exists := s.declDepth[name]; !exists || d != s.depth || s.t.env[name] == nil {
			typ := rt
			if typ.k == "untyped" {
				typ = tInt
			}
			s.define(n, name, typ)
			return "let " + cname(name) + " := " + rs + " in\n  "
		}
		tok = token.ASSIGN // a := that re-uses a variable of the same scope
	}
	typ, ok := s.t.env[name]
	if !ok || s.leaves[name] {
		s.fail(n, "assignment to the unknown variable %s", name)
	}
	if !mgAssignable(rt, typ) {
		s.fail(n, "assignment of a %s to a variable of type %s", rt.coq(), typ.coq())
	}
	if tok == token.ASSIGN && typ.k == "struct" && rt.k == "opt" {
		s.fail(n, "assignment of a pointer to a record variable")
	}
	out := s.t.assign(id, tok, rs, rt, n)
	s.wrote(name)
	return out
}

// ---------- if ----------

func (s *wg) ifStmt(st *ast.IfStmt, rest []ast.Stmt, k func() string) string {
	outer, outerDepth := s.envNames(), s.depth
	core := func() string {
		c, ct := s.sx(st.Cond)
		if ct.k != "bool" {
			s.fail(st, "condition is not a boolean")
		}
		pre := s.flush()
		el := elseList(st)
		s.nfresh++
		ph := fmt.Sprintf("@@IF%d@@", s.nfresh)
		saved := s.snapshot()
		s.depth++
		s.pushW()
		th := s.stmts(st.Body.List, func() string { return ph })
		w := s.popW()
		s.restore(saved)
		s.pushW()
		e2 := s.stmts(el, func() string { return ph })
		for v := range s.popW() {
			w[v] = true
		}
		s.restore(saved)
		s.depth = outerDepth
		var vars []string
		for v := range w {
			if _, ok := outer[v]; ok && !s.leaves[v] {
				vars = append(vars, v)
			}
		}
		sort.Strings(vars)
		s.restrictEnv(outer)
		for _, v := range vars {
			s.wrote(v)
		}
		fin := "wret " + wgTup(cnames(vars))
		th, e2 = strings.ReplaceAll(th, ph, fin), strings.ReplaceAll(e2, ph, fin)
		return pre + wgBind(cnames(vars), "(if "+c+" then "+th+" else "+e2+")", s.stmts(rest, k))
	}
	if st.Init != nil {
		s.depth++
		return s.stmts([]ast.Stmt{st.Init}, core)
	}
	return core()
}

// ---------- counting loops ----------

func assignedRoots(list []ast.Stmt) (map[string]int, bool) {
	set := map[string]int{}
	fieldStore := false
	for _, st := range list {
		ast.Inspect(st, func(n ast.Node) bool {
			switch x := n.(type) {
			case *ast.AssignStmt:
				for _, l := range x.Lhs {
					if r := rootOf(l); r != "" {
						set[r]++
					}
					if _, isId := l.(*ast.Ident); !isId {
						fieldStore = true
					}
				}
			case *ast.IncDecStmt:
				if r := rootOf(x.X); r != "" {
					set[r]++
				}
				if _, isId := x.X.(*ast.Ident); !isId {
					fieldStore = true
				}
			}
			return true
		})
	}
	return set, fieldStore
}

func isIncOf(st ast.Stmt, name string) bool {
	inc, ok := st.(*ast.IncDecStmt)
	return ok && inc.Tok == token.INC && isIdent(inc.X, name)
}

func (s *wg) forStmt(st *ast.ForStmt, rest []ast.Stmt, k func() string) string {
	if s.mux != nil && s.mux.isMainLoop(st) {
		return s.mux.mainLoop(st, rest, k)
	}
	outer, outerDepth := s.envNames(), s.depth
	core := func() string {
		cond, ok := st.Cond.(*ast.BinaryExpr)
		if !ok || cond.Op != token.LSS {
			s.fail(st, "loop whose condition is not `counter < bound` (only the counting idiom is translated)")
		}
		cid, ok := cond.X.(*ast.Ident)
		if !ok {
			s.fail(st, "loop whose condition is not `counter < bound`")
		}
		if ct, ok := s.t.env[cid.Name]; !ok || ct.k != "int" || ct.w != 0 {
			s.fail(st, "loop counter %s is not a signed integer variable", cid.Name)
		}
		body := st.Body.List
		ast.Inspect(st.Body, func(n ast.Node) bool {
			switch b := n.(type) {
			case *ast.BranchStmt:
				s.fail(b, "%s inside a loop", b.Tok)
			case *ast.FuncLit:
				s.fail(b, "function literal inside a loop")
			case *ast.ForStmt, *ast.RangeStmt:
				if n != ast.Node(st) {
					s.fail(n, "nested loop")
				}
			}
			return true
		})
		roots, fieldStore := assignedRoots(body)
		switch {
		case st.Post != nil:
			if !isIncOf(st.Post, cid.Name) || roots[cid.Name] != 0 {
				s.fail(st, "loop counter %s is not incremented exactly once, by the post statement", cid.Name)
			}
		default:
			if len(body) == 0 || !isIncOf(body[len(body)-1], cid.Name) || roots[cid.Name] != 1 {
				s.fail(st, "loop counter %s is not incremented exactly once, by the last statement of the body", cid.Name)
			}
		}
		// the bound must not change while the loop runs
		usesSel := false
		ast.Inspect(cond.Y, func(n ast.Node) bool {
			switch x := n.(type) {
			case *ast.Ident:
				if roots[x.Name] != 0 || x.Name == cid.Name {
					s.fail(st, "the loop bound mentions %s, which the loop assigns", x.Name)
				}
			case *ast.SelectorExpr:
				usesSel = true
			case *ast.CallExpr:
				if id, ok := x.Fun.(*ast.Ident); !ok || (id.Name != "len" && !translated[id.Name]) {
					if _, _, isInt := s.p.intType(fmt.Sprint(x.Fun)); !isInt {
						s.fail(st, "call in the loop bound")
					}
				}
			}
			return true
		})
		if usesSel && fieldStore {
			s.fail(st, "the loop bound reads a field and the body stores into one")
		}
		bound, bt := s.sx(cond.Y)
		if bt.k != "int" && bt.k != "untyped" {
			s.fail(st, "loop bound is not an integer")
		}
		pre := s.flush()
		s.nloop++
		name := fmt.Sprintf("%s_loop%d", strings.ReplaceAll(s.key, ".", "_"), s.nloop)
		vars := s.envVars()
		var binders, args []string
		for _, v := range vars {
			binders = append(binders, fmt.Sprintf("(%s : %s)", cname(v), s.t.env[v].coq()))
			args = append(args, cname(v))
		}
		count := "(Z.to_nat (" + bound + " - " + cname(cid.Name) + "))"
		s.nfresh++
		phRec := fmt.Sprintf("@@REC%d@@", s.nfresh)
		saved := s.snapshot()
		s.pushW()
		s.depth++
		bodyOuter, bodyDepth := s.envNames(), s.depth
		text := s.stmts(body, func() string {
			s.depth = bodyDepth
			s.restrictEnv(bodyOuter)
			if st.Post == nil {
				return phRec
			}
			return s.stmts([]ast.Stmt{st.Post}, func() string { return phRec })
		})
		w := s.popW()
		s.depth--
		s.restore(saved)
		var cvars, ctys []string
		for v := range w {
			if _, ok := saved.env[v]; ok && !s.leaves[v] {
				cvars = append(cvars, v)
			}
		}
		sort.Strings(cvars)
		for _, v := range cvars {
			ctys = append(ctys, saved.env[v].coq())
		}
		cty := "unit"
		if len(ctys) > 0 {
			cty = strings.Join(ctys, " * ")
		}
		text = strings.ReplaceAll(text, phRec, "("+name+" n_ "+strings.Join(args, " ")+")")
		def := fmt.Sprintf("Fixpoint %s (n_ : nat) %s {struct n_} : WM (%s) (%s) :=\n  match n_ with\n  | O => wret %s\n  | S n_ =>\n  %s\n  end.\n\n",
			name, strings.Join(binders, " "), s.retTy, cty, wgTup(cnames(cvars)), text)
		s.loops = append(s.loops, def)
		call := "(" + name + " " + count + " " + strings.Join(args, " ") + ")"
		// variables of the for clause go out of scope; the carried ones that live outside are rebound
		var outVars []string
		for _, v := range cvars {
			if outer[v] {
				outVars = append(outVars, v)
			}
		}
		s.depth = outerDepth
		s.restrictEnv(outer)
		for _, v := range outVars {
			s.wrote(v)
		}
		pat := cnames(cvars)
		for i, v := range cvars {
			if !outer[v] {
				pat[i] = "_"
			}
		}
		return pre + wgBind(pat, call, s.stmts(rest, k))
	}
	if st.Cond == nil {
		s.fail(st, "loop without condition")
	}
	if st.Init != nil {
		s.depth++
		return s.stmts([]ast.Stmt{st.Init}, core)
	}
	return core()
}

// ---------- functions ----------

func (s *wg) function() string {
	d, ok := s.p.funcs[s.key]
	if !ok {
		panic(genError{fmt.Sprintf("function %s not found in /repo", s.key)})
	}
	if d.Body == nil || !wgIsWriterFunc(d) {
		s.fail(d, "not a function whose first parameter is a *astikit.BitsWriter")
	}
	sig := &wgSig{}
	var params []string
	for i, f := range d.Type.Params.List {
		if len(f.Names) == 0 {
			s.fail(d, "unnamed parameter")
		}
		for j, id := range f.Names {
			if i == 0 && j == 0 {
				s.wname = id.Name
				continue
			}
			if wgIsWriterType(f.Type) {
				s.fail(d, "two writers")
			}
			typ := s.gotype(f.Type, d)
			if typ.k == "opt" && typ.elem.k == "struct" && !usesNilNode(d.Body, id.Name) {
				typ = typ.elem
			}
			s.t.env[id.Name] = typ
			s.declDepth[id.Name] = 0
			sig.params = append(sig.params, typ)
			params = append(params, fmt.Sprintf("(%s : %s)", cname(id.Name), typ.coq()))
		}
	}
	pre := ""
	if d.Type.Results == nil {
		s.fail(d, "writer without results")
	}
	for _, f := range d.Type.Results.List {
		typ := s.gotype(f.Type, d)
		k := len(f.Names)
		if k == 0 {
			k = 1
		}
		for i := 0; i < k; i++ {
			s.results = append(s.results, typ)
		}
		for _, id := range f.Names {
			s.named = append(s.named, id.Name)
			s.t.env[id.Name] = typ
			s.declDepth[id.Name] = 0
			z := wgZero(typ)
			if z == "?" {
				s.fail(d, "zero value of a named result that is not modelled")
			}
			pre += "let " + cname(id.Name) + " := " + z + " in\n  "
		}
	}
	sig.results = s.results
	var rts []string
	for _, r := range s.results {
		rts = append(rts, r.coq())
	}
	s.retTy = strings.Join(rts, " * ")
	// stores through a pointer parameter would be visible to the caller: assignTo refuses them
	body := s.stmts(d.Body.List, func() string {
		s.fail(d, "function falls off its end")
		return ""
	})
	wgFuncs[s.key] = sig
	return strings.Join(s.loops, "") + fmt.Sprintf("Definition %s %s : WF (%s) :=\n  wrun (\n  %s%s).\n\n", s.key, strings.Join(params, " "), s.retTy, pre, body)
}

func (p *pkg) newWg(key string) *wg {
	var loops []string
	t := &tr{p: p, fn: key, env: map[string]*ty{}, optPar: map[string]bool{}, loops: &loops}
	return &wg{p: p, t: t, key: key, batch: map[string]bool{}, declDepth: map[string]int{}, leaves: map[string]bool{}, cache: map[string]string{}}
}

const wgHeader = `(* Generated from the CURRENT source of the writers of /repo/packet.go, /repo/data_pes.go and of the packetisation part
   of /repo/muxer.go by go/gen (writegen.go) on every run. Do not edit.

   A writer (first parameter a *astikit.BitsWriter) is a computation in the writer monad below: the items it hands to the
   BitsWriter, in program order, each tagged with HOW it was handed over (through the function's BitsWriterBatch, by a
   direct w.Write whose result is kept, by a direct w.Write whose result is discarded), and its outcome. No Write fails
   in this semantics (C18 has its own runner): w.Write returns ENil, b.Err() is ENil. error is the inductive merror of
   Gen/MuxGen.v; a nil dereference / a slice bound out of range is WPanic. See the head of go/gen/writegen.go for the
   statement grammar. Proofs/WriteGen*.v prove the hand-written writers of Model/Packet.v, Model/Clock.v, Model/Pes.v and
   the packetisation loop of Model/Muxer.v equal to these definitions. *)
From Coq Require Import ZArith List Bool.
Require Import Base.Wr Gen.Consts Gen.Types Gen.Preds Gen.MuxGen.
Import ListNotations.
Open Scope Z_scope.

Inductive wsrc : Type := WBatch | WDirect | WDropped.
Definition gitem : Type := (wsrc * witem)%type.

Inductive wout (R A : Type) : Type :=
| WPanic
| WExit (r : R)      (* the function returned *)
| WVal (a : A).      (* the block fell through *)
Arguments WPanic {R A}.
Arguments WExit {R A} r.
Arguments WVal {R A} a.

Definition WM (R A : Type) : Type := (list gitem * wout R A)%type.
Definition WF (R : Type) : Type := (list gitem * option R)%type.    (* a whole function: None = panic *)

Definition wret {R A} (a : A) : WM R A := ([], WVal a).
Definition wexit {R A} (r : R) : WM R A := ([], WExit r).
Definition wpanic {R A} : WM R A := ([], WPanic).
Definition wbind {R A B} (m : WM R A) (k : A -> WM R B) : WM R B :=
  match m with
  | (l, WVal a) => let '(l', o) := k a in (l ++ l', o)
  | (l, WExit r) => (l, WExit r)
  | (l, WPanic) => (l, WPanic)
  end.
Definition wrun {R} (m : WM R R) : WF R :=
  match m with
  | (l, WVal r) => (l, Some r)
  | (l, WExit r) => (l, Some r)
  | (l, WPanic) => (l, None)
  end.
Definition wcall {R A} (f : WF A) : WM R A :=
  match f with
  | (l, Some a) => (l, WVal a)
  | (l, None) => (l, WPanic)
  end.
Definition wemit {R} (s : wsrc) (it : witem) : WM R unit := ([(s, it)], WVal tt).
Definition wemits {R} (l : list gitem) : WM R unit := (l, WVal tt).
Definition w_write {R} (s : wsrc) (it : witem) : WM R merror := ([(s, it)], WVal ENil).
Definition batch_err : merror := ENil.
Definition wneed {R A} (o : option A) : WM R A := match o with Some a => wret a | None => wpanic end.
Definition wslice {R} (l : list Z) (lo hi : Z) : WM R (list Z) :=
  if orb (orb (lo <? 0) (hi <? lo)) (Z.of_nat (List.length l) <? hi) then wpanic
  else wret (firstn (Z.to_nat (hi - lo)) (skipn (Z.to_nat lo) l)).
(* astikit BitsWriter.WriteBytesN(bs, n, pad) for n > 0: the first n bytes, or all of them followed by pad bytes *)
Definition wbytes_n (s : wsrc) (bs : list Z) (n : Z) (pad : Z) : list gitem :=
  if n <=? Z.of_nat (List.length bs) then [(s, WBytes (firstn (Z.to_nat n) bs))]
  else (s, WBytes bs) :: repeat (s, WBits 8 pad) (Z.to_nat n - List.length bs).

Declare Scope wm_scope.
Delimit Scope wm_scope with wm.
Notation "x <- m ;; f" := (wbind m (fun x => f)) (at level 61, m at next level, right associativity) : wm_scope.
Notation "' p <- m ;; f" := (wbind m (fun p => f)) (at level 61, p pattern, m at next level, right associativity) : wm_scope.
Notation "m ;;; f" := (wbind m (fun _ => f)) (at level 61, right associativity) : wm_scope.
Open Scope wm_scope.

`

func (p *pkg) emitWriteGen() string {
	var b strings.Builder
	isolate := func(what string, f func() string) {
		defer func() {
			if r := recover(); r != nil {
				ge, ok := r.(genError)
				if !ok {
					panic(r)
				}
				fmt.Fprintf(os.Stderr, "gen: not translated: %s\n", ge.msg)
				fmt.Fprintf(&b, "(* NOT TRANSLATED (%s left the translator's grammar): %s *)\n\n", what, strings.ReplaceAll(strings.ReplaceAll(ge.msg, "*)", "* )"), "(*", "( *"))
			}
		}()
		b.WriteString(f())
	}
	for _, key := range writeEntries {
		key := key
		isolate(key, func() string { return p.newWg(key).function() })
	}
	p.emitWriteGenMux(&b, isolate)
	return wgHeader + b.String()
}

// ---------- the muxer part ----------

type wgMux struct{ s *wg }

func (m *wgMux) rw(e ast.Expr) (ast.Expr, bool)                                    { return nil, false }
func (m *wgMux) writerArg(e ast.Expr, n ast.Node) (string, bool)                   { return "", false }
func (m *wgMux) stmt(list []ast.Stmt, k func() string) (string, bool)              { return "", false }
func (m *wgMux) isMainLoop(st *ast.ForStmt) bool                                   { return false }
func (m *wgMux) mainLoop(st *ast.ForStmt, rest []ast.Stmt, k func() string) string { return "" }

func (p *pkg) emitWriteGenMux(b *strings.Builder, isolate func(string, func() string)) {}
