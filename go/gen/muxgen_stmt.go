package main

// muxgen: statements.

import (
	"fmt"
	"go/ast"
	"go/token"
	"strings"
)

func mgTup(vars []string) string {
	if len(vars) == 0 {
		return "tt"
	}
	if len(vars) == 1 {
		return vars[0]
	}
	return "(" + strings.Join(vars, ", ") + ")"
}

func mgPat(vars []string) string {
	if len(vars) == 0 {
		return "_"
	}
	if len(vars) == 1 {
		return vars[0]
	}
	return "'(" + strings.Join(vars, ", ") + ")"
}

func cnames(vars []string) []string {
	var out []string
	for _, v := range vars {
		out = append(out, cname(v))
	}
	return out
}

func (s *mg) mutVars() []string {
	var out []string
	for _, f := range s.fieldOrder {
		if s.ctorAll || (s.pass == 2 && s.mutFinal[f]) {
			out = append(out, s.fvar(f))
		}
	}
	return out
}

func (s *mg) retValue(parts []string) string {
	v := mgTup(append(s.mutVars(), parts...))
	switch {
	case s.mode == "prefix":
		v = "(ret_ " + v + ")"
	case s.fuel:
		v = "(Some " + v + ")"
	}
	return s.wrapRet(v)
}

func (s *mg) ret(st *ast.ReturnStmt) string {
	if len(st.Results) == 0 {
		if len(s.results) != len(s.named) {
			s.fail(st, "bare return without named results")
		}
		return s.retValue(cnames(s.named))
	}
	if s.ctorAll {
		if id, ok := st.Results[0].(*ast.Ident); !ok || len(st.Results) != 1 || id.Name != s.recv {
			s.fail(st, "the constructor returns something else than the value it built")
		}
		return s.retValue(nil)
	}
	if len(st.Results) != len(s.results) {
		s.fail(st, "wrong number of results (a call returning several values?)")
	}
	s.stmtNode, s.pre = st, nil
	var parts []string
	for i, r := range st.Results {
		parts = append(parts, s.value(r, s.results[i], st))
	}
	pre := strings.Join(s.pre, "")
	s.pre, s.stmtNode = nil, nil
	return pre + s.retValue(parts)
}

func (s *mg) stmts(list []ast.Stmt, k func() string) string {
	if len(list) == 0 {
		return k()
	}
	rest := func() string { return s.stmts(list[1:], k) }
	switch st := list[0].(type) {
	case *ast.ReturnStmt:
		return s.ret(st)
	case *ast.EmptyStmt:
		return rest()
	case *ast.BlockStmt:
		outer, d := s.envNames(), s.depth
		s.depth++
		return s.stmts(st.List, func() string {
			s.depth = d
			s.restrictEnv(outer)
			return rest()
		})
	case *ast.BranchStmt:
		if st.Tok != token.BREAK || st.Label != nil || len(s.brk) == 0 {
			s.fail(st, "unsupported branch statement %s", st.Tok)
		}
		return s.brk[len(s.brk)-1]
	case *ast.DeclStmt:
		gd, ok := st.Decl.(*ast.GenDecl)
		if !ok || gd.Tok != token.VAR {
			s.fail(st, "unsupported declaration")
		}
		out := ""
		for _, sp := range gd.Specs {
			vs := sp.(*ast.ValueSpec)
			for i, id := range vs.Names {
				var typ *ty
				if vs.Type != nil {
					if typ = s.gotype(vs.Type); typ == nil {
						s.fail(st, "declaration of a type that is not modelled")
					}
				}
				s.stmtNode, s.pre = st, nil
				var val string
				if i < len(vs.Values) {
					if typ == nil {
						v, vt := s.sx(vs.Values[i])
						if vt.k == "untyped" {
							vt = tInt
						}
						val, typ = v, vt
					} else {
						val = s.value(vs.Values[i], typ, st)
					}
				} else {
					if typ == nil {
						s.fail(st, "declaration without type")
					}
					val = mgNilOf(typ)
					if strings.HasPrefix(val, "?") {
						s.fail(st, "zero value of a type that is not modelled")
					}
				}
				out += strings.Join(s.pre, "")
				s.pre, s.stmtNode = nil, nil
				s.define(id, id.Name, typ)
				out += "let " + cname(id.Name) + " := " + val + " in\n  "
			}
		}
		return out + rest()
	case *ast.IncDecStmt:
		tok := token.ADD_ASSIGN
		if st.Tok == token.DEC {
			tok = token.SUB_ASSIGN
		}
		return s.assignTo(st.X, tok, "1", tUntyped, st) + rest()
	case *ast.ExprStmt:
		return s.exprStmt(st, list, k)
	case *ast.AssignStmt:
		return s.assignStmt(st) + rest()
	case *ast.SwitchStmt:
		if st.Init != nil {
			s.fail(st, "switch with init")
		}
		return s.stmts(append([]ast.Stmt{s.t.switchToIf(st)}, list[1:]...), k)
	case *ast.IfStmt:
		return s.ifStmt(st, list[1:], k)
	case *ast.RangeStmt:
		return s.rangeStmt(st, list[1:], k)
	case *ast.ForStmt:
		if s.mode == "prefix" && s.depth == 0 {
			return s.hole(st)
		}
		return s.forStmt(st, list[1:], k)
	}
	s.fail(list[0], "unsupported statement %T", list[0])
	return ""
}

// hole: the remainder of the function is the parameter rest_.
func (s *mg) hole(st ast.Node) string {
	vars := s.envVars()
	var tys []string
	for _, v := range vars {
		tys = append(tys, s.t.env[v].coq())
		s.useOpaque(s.t.env[v])
	}
	s.holeType = strings.Join(append(tys, "RET_"), " -> ")
	s.holeLine = s.p.fset.Position(st.Pos()).Line
	s.holeVars = vars
	return "(rest_ " + strings.Join(cnames(vars), " ") + ")"
}

// ---------- if ----------

func (s *mg) ifStmt(st *ast.IfStmt, rest []ast.Stmt, k func() string) string {
	outer, outerDepth := s.envNames(), s.depth
	core := func() string {
		s.stmtNode, s.pre = st.Cond, nil
		s.inCond = true
		c, ct := s.sx(st.Cond)
		s.inCond = false
		s.stmtNode = nil
		if ct.k != "bool" {
			s.fail(st, "condition is not a boolean")
		}
		el := elseList(st)
		K := func() string {
			d := s.depth
			s.depth = outerDepth
			s.restrictEnv(outer)
			r := s.stmts(rest, k)
			s.depth = d
			return r
		}
		saved := s.snapshot()
		if hasJump(st.Body.List) || hasJump(el) {
			s.depth++
			th := s.stmts(st.Body.List, K)
			s.restore(saved)
			e2 := s.stmts(el, K)
			s.restore(saved)
			s.depth--
			return "(if " + c + " then " + th + " else " + e2 + ")"
		}
		s.nfresh++
		ph := fmt.Sprintf("@@IF%d@@", s.nfresh)
		s.depth++
		s.pushW()
		th := s.stmts(st.Body.List, func() string { return ph })
		w := s.popW()
		s.restore(saved)
		s.pushW()
		e2 := s.stmts(el, func() string { return ph })
		for v := range s.popW() {
			w[v] = true
		}
		s.restore(saved)
		s.depth--
		var vars []string
		for v := range w {
			if _, ok := saved.env[v]; ok && !s.leaves[v] {
				vars = append(vars, v)
			}
		}
		s.t.sortDecl(vars)
		if len(vars) == 0 {
			return K()
		}
		for _, v := range vars {
			s.wrote(v)
		}
		tpl := mgTup(cnames(vars))
		th, e2 = strings.ReplaceAll(th, ph, tpl), strings.ReplaceAll(e2, ph, tpl)
		return "let " + mgPat(cnames(vars)) + " := (if " + c + " then " + th + " else " + e2 + ") in\n  " + K()
	}
	if st.Init != nil {
		s.depth++
		return s.stmts([]ast.Stmt{st.Init}, core)
	}
	return core()
}

// ---------- loops ----------

func (s *mg) loopBinders(vars []string) (string, string) {
	var binders, args []string
	for _, v := range vars {
		binders = append(binders, fmt.Sprintf("(%s : %s)", cname(v), s.t.env[v].coq()))
		args = append(args, cname(v))
		s.useOpaque(s.t.env[v])
	}
	return strings.Join(binders, " "), strings.Join(args, " ")
}

func (s *mg) carried(w map[string]bool, saved mgSnap) ([]string, string) {
	var vars, tys []string
	for v := range w {
		if _, ok := saved.env[v]; ok && !s.leaves[v] {
			vars = append(vars, v)
		}
	}
	s.t.sortDecl(vars)
	for _, v := range vars {
		tys = append(tys, saved.env[v].coq())
		s.wrote(v)
	}
	if len(tys) == 0 {
		return vars, "unit"
	}
	return vars, strings.Join(tys, " * ")
}

func noContinue(s *mg, body *ast.BlockStmt) {
	ast.Inspect(body, func(n ast.Node) bool {
		if _, isLit := n.(*ast.FuncLit); isLit {
			return false
		}
		if b, ok := n.(*ast.BranchStmt); ok && (b.Tok != token.BREAK || b.Label != nil) {
			s.fail(b, "%s inside a loop", b.Tok)
		}
		return true
	})
}

func (s *mg) rangeStmt(st *ast.RangeStmt, rest []ast.Stmt, k func() string) string {
	s.stmtNode, s.pre = st.X, nil
	s.inCond = true
	xs, xt := s.sx(st.X)
	s.inCond = false
	s.stmtNode = nil
	var et *ty
	switch xt.k {
	case "bytes":
		et = &ty{k: "int", w: 8}
	case "list":
		et = xt.elem
	default:
		s.fail(st, "range over something that is not a slice")
	}
	if st.Tok != token.DEFINE {
		s.fail(st, "range assigning to existing variables")
	}
	noContinue(s, st.Body)
	idx, elem := "", ""
	if id, ok := st.Key.(*ast.Ident); ok && id.Name != "_" {
		idx = id.Name
	}
	if st.Value != nil {
		if id, ok := st.Value.(*ast.Ident); ok && id.Name != "_" {
			elem = id.Name
		}
	}
	s.nloop++
	name := fmt.Sprintf("%s_loop%d", s.cname, s.nloop)
	outer, outerDepth := s.envNames(), s.depth
	vars := s.envVars()
	binders, args := s.loopBinders(vars)
	s.nfresh++
	phRec, phBrk := fmt.Sprintf("@@REC%d@@", s.nfresh), fmt.Sprintf("@@BRK%d@@", s.nfresh)
	saved := s.snapshot()
	s.pushW()
	s.depth++
	pre := ""
	if elem != "" {
		s.define(st.Value, elem, et)
		if et == tyOpt {
			s.optVar = elem
		}
	}
	if idx != "" {
		s.define(st.Key, idx, tInt)
		pre = "let " + cname(idx) + " := i_ in\n  "
	}
	s.retWrap = append(s.retWrap, func(v string) string { return "(inl " + v + ")" })
	s.brk = append(s.brk, phBrk)
	body := s.stmts(st.Body.List, func() string { return phRec })
	s.brk = s.brk[:len(s.brk)-1]
	s.retWrap = s.retWrap[:len(s.retWrap)-1]
	w := s.popW()
	s.depth--
	s.restore(saved)
	cvars, cty := s.carried(w, saved)
	ipar, iarg0, iarg := "", "", ""
	if idx != "" {
		ipar, iarg0, iarg = " (i_ : Z)", " 0", " (i_ + 1)"
	}
	body = strings.ReplaceAll(body, phRec, "("+name+" @@EXTA@@ rest_"+iarg+" "+args+")")
	body = strings.ReplaceAll(body, phBrk, "(inr "+mgTup(cnames(cvars))+")")
	ce := "_"
	if elem != "" {
		ce = cname(elem)
	}
	def := fmt.Sprintf("Fixpoint %s @@EXTP@@ (l_ : list %s)%s %s {struct l_} : (%s) + (%s) :=\n  match l_ with\n  | [] => (inr %s)\n  | %s :: rest_ =>\n  %s%s\n  end.\n\n",
		name, et.coq(), ipar, binders, s.retCoq, cty, mgTup(cnames(cvars)), ce, pre, body)
	*s.loops = append(*s.loops, def)
	s.depth = outerDepth
	s.restrictEnv(outer)
	return "match (" + name + " @@EXTA@@ " + xs + iarg0 + " " + args + ") with\n  | inl r_ => " + s.wrapRet("r_") + "\n  | inr " + strings.TrimPrefix(mgPat(cnames(cvars)), "'") + " =>\n  " + s.stmts(rest, k) + "\n  end"
}

// forStmt: `for init; cond; post { body }` on explicit fuel.
func (s *mg) forStmt(st *ast.ForStmt, rest []ast.Stmt, k func() string) string {
	s.sawFuel = true
	noContinue(s, st.Body)
	outer, outerDepth := s.envNames(), s.depth
	core := func() string {
		s.nloop++
		name := fmt.Sprintf("%s_loop%d", s.cname, s.nloop)
		vars := s.envVars()
		binders, args := s.loopBinders(vars)
		s.nfresh++
		phRec, phBrk := fmt.Sprintf("@@REC%d@@", s.nfresh), fmt.Sprintf("@@BRK%d@@", s.nfresh)
		saved := s.snapshot()
		c := "true"
		if st.Cond != nil {
			s.stmtNode, s.pre = st.Cond, nil
			s.inCond = true
			var ct *ty
			c, ct = s.sx(st.Cond)
			s.inCond = false
			s.stmtNode = nil
			if ct.k != "bool" {
				s.fail(st, "condition is not a boolean")
			}
		}
		s.pushW()
		s.depth++
		s.retWrap = append(s.retWrap, func(v string) string { return "(inl " + v + ")" })
		s.brk = append(s.brk, phBrk)
		list := append([]ast.Stmt{}, st.Body.List...)
		bodyOuter, bodyDepth := s.envNames(), s.depth
		body := s.stmts(list, func() string {
			// the post statement runs in the scope of the for clause
			s.depth = bodyDepth
			s.restrictEnv(bodyOuter)
			if st.Post == nil {
				return phRec
			}
			return s.stmts([]ast.Stmt{st.Post}, func() string { return phRec })
		})
		s.brk = s.brk[:len(s.brk)-1]
		s.retWrap = s.retWrap[:len(s.retWrap)-1]
		w := s.popW()
		s.depth--
		s.restore(saved)
		cvars, cty := s.carried(w, saved)
		body = strings.ReplaceAll(body, phRec, "("+name+" @@EXTA@@ fuel_ "+args+")")
		brkVal := "(inr " + mgTup(cnames(cvars)) + ")"
		body = strings.ReplaceAll(body, phBrk, brkVal)
		def := fmt.Sprintf("Fixpoint %s @@EXTP@@ (fuel_ : nat) %s {struct fuel_} : (%s) + (%s) :=\n  match fuel_ with\n  | O => (inl None)\n  | S fuel_ =>\n  (if %s then %s else %s)\n  end.\n\n",
			name, binders, s.retCoq, cty, c, body, brkVal)
		*s.loops = append(*s.loops, def)
		call := "match (" + name + " @@EXTA@@ fuel_ " + args + ") with\n  | inl r_ => " + s.wrapRet("r_") + "\n  | inr " + strings.TrimPrefix(mgPat(cnames(cvars)), "'") + " =>\n  "
		s.depth = outerDepth
		s.restrictEnv(outer)
		return call + s.stmts(rest, k) + "\n  end"
	}
	if st.Init != nil {
		s.depth++
		return s.stmts([]ast.Stmt{st.Init}, core)
	}
	return core()
}

// ---------- expression statements ----------

func (s *mg) exprStmt(st *ast.ExprStmt, list []ast.Stmt, k func() string) string {
	rest := func() string { return s.stmts(list[1:], k) }
	c, ok := st.X.(*ast.CallExpr)
	if !ok {
		s.fail(st, "unsupported expression statement")
	}
	s.stmtNode, s.pre = st, nil
	defer func() { s.stmtNode = nil }()
	switch f := c.Fun.(type) {
	case *ast.Ident:
		if f.Name == "delete" && len(c.Args) == 2 {
			fld, ok := s.recvField(c.Args[0])
			if !ok || !isMgMap(s.fieldTy[fld]) {
				s.fail(st, "delete on something that is not a map field of the receiver")
			}
			mv := s.useField(st, fld)
			ks, _ := s.sx(c.Args[1])
			out := strings.Join(s.pre, "") + "let " + mv + " := (" + s.useMapOp("delete", s.fieldTy[fld]) + " " + mv + " " + ks + ") in\n  "
			s.wrote(mv)
			return out + rest()
		}
		if lit := s.closures[f.Name]; lit != nil && len(c.Args) == 0 {
			if hasJump(lit.Body.List) {
				s.fail(st, "closure with a return")
			}
			outer, d := s.envNames(), s.depth
			s.depth++
			return s.stmts(lit.Body.List, func() string {
				s.depth = d
				s.restrictEnv(outer)
				return rest()
			})
		}
		if f.Name == s.optVar && s.optVar != "" && len(c.Args) == 1 {
			if id, ok := c.Args[0].(*ast.Ident); !ok || id.Name != s.recv {
				s.fail(st, "an option is applied to something else than the value under construction")
			}
			if mgOptInfo == nil {
				s.fail(st, "the options of the package were not translated")
			}
			return s.applyInfo(st, mgOptInfo, []string{cname(f.Name)}, nil) + rest()
		}
	case *ast.SelectorExpr:
		if fld, ok := s.recvField(f.X); ok {
			ft := s.fieldTy[fld]
			switch {
			case s.bufField[fld] && f.Sel.Name == "Reset" && len(c.Args) == 0:
				v := s.useField(st, fld)
				s.wrote(v)
				return "let " + v + " := (@nil Z) in\n  " + rest()
			case ft == tyPM && f.Sel.Name == "setUnlocked" && len(c.Args) == 2:
				v := s.useField(st, fld)
				a, _ := s.sx(c.Args[0])
				b, _ := s.sx(c.Args[1])
				s.ext["programMap_t"] = "{programMap_t : Type}"
				s.ext["programMap_setUnlocked"] = "(programMap_setUnlocked : programMap_t -> Z -> Z -> programMap_t)"
				s.wrote(v)
				return strings.Join(s.pre, "") + "let " + v + " := (programMap_setUnlocked " + v + " " + a + " " + b + ") in\n  " + rest()
			}
		}
		if out, _, ok := s.effectCall(c, st); ok {
			return out + rest()
		}
	}
	s.fail(st, "unsupported call statement")
	return ""
}

// applyInfo renders a call of a generated function on the receiver's fields: the fields it assigns are rebound,
// its results are bound to fresh variables (returned).
func (s *mg) applyInfo(n ast.Node, info *mgInfo, lead []string, args []string) string {
	out, _ := s.applyInfoRes(n, info, lead, args)
	return out
}

func (s *mg) applyInfoRes(n ast.Node, info *mgInfo, lead []string, args []string) (string, []string) {
	if info.fuel {
		s.fail(n, "call of %s, which runs on fuel", info.key)
	}
	parts := []string{info.cname}
	if ea := s.inheritExt(info); ea != "" {
		parts = append(parts, ea)
	}
	parts = append(parts, lead...)
	for _, f := range info.used {
		parts = append(parts, s.useField(n, f))
	}
	parts = append(parts, args...)
	var binders, res []string
	for _, f := range info.mut {
		binders = append(binders, s.useField(n, f))
	}
	for range info.results {
		r := s.fresh("res")
		res = append(res, r)
		binders = append(binders, r)
	}
	if len(binders) == 0 {
		s.fail(n, "%s neither assigns a field nor returns a value", info.key)
	}
	out := strings.Join(s.pre, "") + "let " + mgPat(binders) + " := (" + strings.Join(parts, " ") + ") in\n  "
	s.pre = nil
	for _, f := range info.mut {
		s.wrote(s.fvar(f))
	}
	return out, res
}

// effectCall recognises the calls that change state: a translated method of the receiver, m.w.Write(bs), and a byte
// producer writing through a bits writer bound to a buffer field. It returns the bindings and the result variables.
func (s *mg) effectCall(c *ast.CallExpr, n ast.Node) (string, []resVar, bool) {
	switch f := c.Fun.(type) {
	case *ast.SelectorExpr:
		if id, ok := f.X.(*ast.Ident); ok && id.Name == s.recv && s.recv != "" {
			if _, shadow := s.t.env[s.recv]; shadow {
				return "", nil, false
			}
			info, ok := mgFuncs[s.recvStruct+"."+f.Sel.Name]
			if !ok {
				s.fail(n, "call of the untranslated method %s.%s", s.recvStruct, f.Sel.Name)
			}
			if len(c.Args) != len(info.params) {
				s.fail(n, "wrong number of arguments for %s", info.key)
			}
			var args []string
			for i, a := range c.Args {
				args = append(args, s.value(a, info.params[i], n))
			}
			out, res := s.applyInfoRes(n, info, nil, args)
			var rv []resVar
			for i, r := range res {
				rv = append(rv, resVar{r, info.results[i]})
			}
			return out, rv, true
		}
		if fld, ok := s.recvField(f.X); ok && s.fieldTy[fld] == tyIO && f.Sel.Name == "Write" && len(c.Args) == 1 {
			v := s.useField(n, fld)
			bs := s.value(c.Args[0], tBytes, n)
			s.ext["io_Writer"] = "{io_Writer : Type}"
			s.ext["io_Write"] = "(io_Write : io_Writer -> (list Z) -> io_Writer * Z * merror)"
			r1, r2 := s.fresh("res"), s.fresh("res")
			out := strings.Join(s.pre, "") + "let '(" + v + ", " + r1 + ", " + r2 + ") := (io_Write " + v + " " + bs + ") in\n  "
			s.pre = nil
			s.wrote(v)
			return out, []resVar{{r1, tInt}, {r2, tyErr}}, true
		}
	case *ast.Ident:
		if mgWriterExternals[f.Name] {
			if len(c.Args) < 1 {
				s.fail(n, "%s without a writer", f.Name)
			}
			target := ""
			if id, ok := c.Args[0].(*ast.Ident); ok {
				target = s.walias[id.Name]
			} else if fld, ok := s.recvField(c.Args[0]); ok {
				target = mgWriterFields[fld]
			}
			if !strings.HasPrefix(target, "buf:") {
				s.fail(n, "%s writes through something that is not a bits writer bound to a buffer field of the receiver", f.Name)
			}
			bv := s.useField(n, strings.TrimPrefix(target, "buf:"))
			ps, rs := s.extSig(n, f.Name, true)
			if len(c.Args)-1 != len(ps) {
				s.fail(n, "wrong number of arguments for %s", f.Name)
			}
			parts := []string{f.Name, bv}
			for i, a := range c.Args[1:] {
				parts = append(parts, s.value(a, ps[i], n))
			}
			binders := []string{bv}
			var rv []resVar
			for _, r := range rs {
				v := s.fresh("res")
				binders = append(binders, v)
				rv = append(rv, resVar{v, r})
			}
			out := strings.Join(s.pre, "") + "let " + mgPat(binders) + " := (" + strings.Join(parts, " ") + ") in\n  "
			s.pre = nil
			s.wrote(bv)
			return out, rv, true
		}
	}
	return "", nil, false
}

type resVar struct {
	v string
	t *ty
}

// ---------- assignments ----------

func isBlank(e ast.Expr) bool {
	id, ok := e.(*ast.Ident)
	return ok && id.Name == "_"
}

// assignTo assigns the already translated value rs : rt to the lvalue.
func (s *mg) assignTo(lhs ast.Expr, tok token.Token, rs string, rt *ty, n ast.Node) string {
	if isBlank(lhs) {
		return ""
	}
	// m.f[k] = v
	if ix, ok := lhs.(*ast.IndexExpr); ok {
		fld, ok := s.recvField(ix.X)
		if !ok || !isMgMap(s.fieldTy[fld]) || tok != token.ASSIGN {
			s.fail(n, "assignment to an element of something that is not a map field of the receiver")
		}
		mt := s.fieldTy[fld]
		mi := mgMaps[mt.name]
		if rt.k == "opt" && rt.elem.k == "struct" {
			rs, rt = asStruct(rs, rt)
		}
		if rt.k != "struct" || rt.name != mi.val.name {
			s.fail(n, "store of a value of another type into the map")
		}
		mv := s.useField(n, fld)
		ks, _ := s.sx(ix.Index)
		s.wrote(mv)
		return "let " + mv + " := (" + s.useMapOp("set", mt) + " " + mv + " " + ks + " " + rs + ") in\n  "
	}
	// the variable the lvalue rebinds
	var target ast.Expr
	var name string
	switch l := lhs.(type) {
	case *ast.Ident:
		name = l.Name
		if tok == token.DEFINE {
			typ := rt
			if typ.k == "untyped" {
				typ = tInt
			}
			s.define(l, name, typ)
			return "let " + cname(name) + " := " + rs + " in\n  "
		}
		typ, ok := s.t.env[name]
		if !ok || s.leaves[name] {
			s.fail(n, "assignment to the unknown variable %s", name)
		}
		if s.addr[name] {
			s.fail(n, "%s is assigned after its address was taken", name)
		}
		if !mgAssignable(rt, typ) {
			s.fail(n, "assignment of a %s to a variable of type %s", rt.coq(), typ.coq())
		}
		target = l
	case *ast.SelectorExpr:
		if fld, ok := s.recvField(l); ok {
			name = s.useField(n, fld)
			if _, isW := mgWriterFields[fld]; isW {
				s.fail(n, "assignment to a bits writer field")
			}
			target = &ast.Ident{NamePos: l.Pos(), Name: name}
			if !mgAssignable(rt, s.fieldTy[fld]) {
				s.fail(n, "assignment of a %s to a field of type %s", rt.coq(), s.fieldTy[fld].coq())
			}
			break
		}
		// x.g or m.f.g: one level of record update
		var base string
		if fld, ok := s.recvField(l.X); ok {
			base = s.useField(n, fld)
		} else if id, ok := l.X.(*ast.Ident); ok {
			base = id.Name
			if _, ok := s.t.env[base]; !ok || s.leaves[base] {
				s.fail(n, "assignment to a field of the unknown variable %s", base)
			}
			if s.addr[base] || s.stored[base] || s.mapPtr[base] {
				s.fail(n, "%s is written after its address was taken / it was stored / through a pointer into a map", base)
			}
		} else {
			s.fail(n, "assignment through a nested pointer path")
		}
		name = base
		bt := s.t.env[base]
		if bt.k != "struct" {
			s.fail(n, "field assignment on a value that is not a record")
		}
		ft := s.t.structFieldType(bt.name, l.Sel.Name, n)
		if !mgAssignable(rt, ft) {
			s.fail(n, "assignment of a %s to a field of type %s", rt.coq(), ft.coq())
		}
		target = &ast.SelectorExpr{X: &ast.Ident{NamePos: l.Pos(), Name: base}, Sel: l.Sel}
	default:
		s.fail(n, "unsupported assignment target")
	}
	out := s.t.assign(target, tok, rs, rt, n)
	s.wrote(name)
	return out
}

func mgAssignable(from, to *ty) bool {
	if from.k == "opt" && to.k == "struct" || from.k == "struct" && to.k == "opt" {
		a, b := from, to
		if a.k == "opt" {
			a = a.elem
		}
		if b.k == "opt" {
			b = b.elem
		}
		return mgSameTy(a, b)
	}
	return mgSameTy(from, to)
}

func (s *mg) lhsType(lhs ast.Expr, n ast.Node) *ty {
	switch l := lhs.(type) {
	case *ast.Ident:
		if t, ok := s.t.env[l.Name]; ok {
			return t
		}
	case *ast.SelectorExpr:
		if fld, ok := s.recvField(l); ok {
			return s.fieldTy[fld]
		}
		_, t := s.sx(l)
		return t
	}
	return nil
}

func (s *mg) assignStmt(st *ast.AssignStmt) string {
	s.stmtNode, s.pre = st, nil
	defer func() { s.stmtNode, s.pre = nil, nil }()
	// closures and bits writers are not values
	if len(st.Lhs) == 1 && len(st.Rhs) == 1 {
		if lit, ok := st.Rhs[0].(*ast.FuncLit); ok {
			id, isId := st.Lhs[0].(*ast.Ident)
			if !isId || st.Tok != token.DEFINE || lit.Type.Params.NumFields() != 0 || lit.Type.Results.NumFields() != 0 {
				s.fail(st, "unsupported closure (only `name := func() { .. }`)")
			}
			if _, clash := s.t.env[id.Name]; clash {
				s.fail(st, "closure %s shadows a variable", id.Name)
			}
			s.closures[id.Name] = lit
			return ""
		}
		if target, ok := s.bitsWriterTarget(st.Rhs[0]); ok {
			switch l := st.Lhs[0].(type) {
			case *ast.Ident:
				if st.Tok != token.DEFINE {
					s.fail(st, "a bits writer variable is rebound")
				}
				if _, clash := s.t.env[l.Name]; clash {
					s.fail(st, "bits writer %s shadows a variable", l.Name)
				}
				s.walias[l.Name] = target
				return ""
			case *ast.SelectorExpr:
				if fld, ok := s.recvField(l); ok && s.ctorAll {
					if old, ok := mgWriterFields[fld]; ok && old != target {
						s.fail(st, "bits writer field %s is bound twice", fld)
					}
					mgWriterFields[fld] = target
					return fmt.Sprintf("(* %s.%s writes into %s *)\n  ", s.recv, fld, strings.Replace(strings.Replace(target, "buf:", s.recv+".", 1), "io:", s.recv+".", 1))
				}
			}
			s.fail(st, "a bits writer is bound to something else than a local or (in the constructor) a field")
		}
	}
	// v, ok := m[k]
	if len(st.Lhs) == 2 && len(st.Rhs) == 1 {
		if ix, ok := st.Rhs[0].(*ast.IndexExpr); ok {
			return s.commaOk(st, ix)
		}
	}
	// calls that change state
	if len(st.Rhs) == 1 {
		if c, ok := st.Rhs[0].(*ast.CallExpr); ok {
			if out, res, ok := s.effectCall(c, st); ok {
				if len(res) != len(st.Lhs) {
					s.fail(st, "wrong number of results")
				}
				for i, l := range st.Lhs {
					out += s.assignTo(l, st.Tok, res[i].v, res[i].t, st)
				}
				return out
			}
		}
	}
	if len(st.Lhs) != len(st.Rhs) {
		s.fail(st, "unsupported multiple assignment")
	}
	if len(st.Lhs) > 1 {
		// parallel assignment: every right-hand side first
		out := ""
		var tmp []resVar
		for i, r := range st.Rhs {
			var v string
			var vt *ty
			if isNilIdent(r) {
				vt = s.lhsType(st.Lhs[i], st)
				v = s.value(r, vt, st)
			} else {
				v, vt = s.sx(r)
			}
			t := s.fresh("tmp")
			tmp = append(tmp, resVar{t, vt})
			out += "let " + t + " := " + v + " in\n  "
		}
		out = strings.Join(s.pre, "") + out
		s.pre = nil
		for i, l := range st.Lhs {
			out += s.assignTo(l, st.Tok, tmp[i].v, tmp[i].t, st)
		}
		return out
	}
	lhs, rhs := st.Lhs[0], st.Rhs[0]
	// x = append(x[:i], x[i+1:]...)
	if v, vt, ok := s.deleteIdiom(lhs, rhs, st); ok {
		return strings.Join(s.pre, "") + s.assignTo(lhs, st.Tok, v, vt, st)
	}
	s.lastView = ""
	var v string
	var vt *ty
	if isNilIdent(rhs) {
		vt = s.lhsType(lhs, st)
		v = s.value(rhs, vt, st)
	} else {
		v, vt = s.sx(rhs)
		if isMgMap(vt) {
			if _, isLit := rhs.(*ast.CompositeLit); !isLit {
				if c, isCall := rhs.(*ast.CallExpr); !isCall || fmt.Sprint(c.Fun) != "make" {
					s.fail(st, "copy of a map reference")
				}
			}
		}
		if (vt.k == "list" || vt.k == "bytes") && isBareRef(rhs) {
			s.fail(st, "copy of a slice header: the two slices would share their array")
		}
	}
	out := strings.Join(s.pre, "") + s.assignTo(lhs, st.Tok, v, vt, st)
	if id, ok := lhs.(*ast.Ident); ok && s.lastView != "" {
		s.views[id.Name] = s.lastView
	}
	return out
}

func isBareRef(e ast.Expr) bool {
	switch x := e.(type) {
	case *ast.Ident:
		return true
	case *ast.SelectorExpr:
		return isBareRef(x.X)
	case *ast.ParenExpr:
		return isBareRef(x.X)
	}
	return false
}

func exprText(e ast.Expr) string {
	switch x := e.(type) {
	case *ast.Ident:
		return x.Name
	case *ast.SelectorExpr:
		return exprText(x.X) + "." + x.Sel.Name
	case *ast.ParenExpr:
		return exprText(x.X)
	}
	return "?"
}

// deleteIdiom: x = append(x[:i], x[i+1:]...)
func (s *mg) deleteIdiom(lhs, rhs ast.Expr, st *ast.AssignStmt) (string, *ty, bool) {
	c, ok := rhs.(*ast.CallExpr)
	if !ok || len(c.Args) != 2 || !c.Ellipsis.IsValid() {
		return "", nil, false
	}
	if id, ok := c.Fun.(*ast.Ident); !ok || id.Name != "append" {
		return "", nil, false
	}
	a, ok1 := c.Args[0].(*ast.SliceExpr)
	b, ok2 := c.Args[1].(*ast.SliceExpr)
	if !ok1 || !ok2 {
		return "", nil, false
	}
	bad := func(why string) {
		s.fail(st, "append of slice expressions outside the delete idiom x = append(x[:i], x[i+1:]...) (%s)", why)
	}
	if st.Tok != token.ASSIGN || a.Slice3 || b.Slice3 || a.Low != nil || a.High == nil || b.High != nil || b.Low == nil {
		bad("shape")
	}
	base := exprText(lhs)
	if strings.Contains(base, "?") || exprText(a.X) != base || exprText(b.X) != base {
		bad("not the same slice three times")
	}
	plus, ok := b.Low.(*ast.BinaryExpr)
	if !ok || plus.Op != token.ADD {
		bad("second bound is not i+1")
	}
	if one, ok := plus.Y.(*ast.BasicLit); !ok || one.Value != "1" {
		bad("second bound is not i+1")
	}
	is, it := s.sx(a.High)
	is2, _ := s.sx(plus.X)
	if is != is2 || it.k != "int" || it.w != 0 {
		bad("the two bounds use different (or unsigned) indices")
	}
	xs, xt := s.sx(a.X)
	if xt.k != "list" && xt.k != "bytes" {
		bad("not a slice")
	}
	return "(slice_delete " + xs + " " + is + ")", xt, true
}

// commaOk: v, ok := m[k]  /  v, ok = m[k]
func (s *mg) commaOk(st *ast.AssignStmt, ix *ast.IndexExpr) string {
	fld, ok := s.recvField(ix.X)
	if !ok || !isMgMap(s.fieldTy[fld]) {
		s.fail(st, "comma-ok form on something that is not a map field of the receiver")
	}
	if st.Tok != token.DEFINE && st.Tok != token.ASSIGN {
		s.fail(st, "unsupported assignment operator")
	}
	mt := s.fieldTy[fld]
	mi := mgMaps[mt.name]
	mv := s.useField(st, fld)
	ks, _ := s.sx(ix.Index)
	lk := s.fresh("lk")
	out := strings.Join(s.pre, "") + "let " + lk + " := (" + s.useMapOp("get", mt) + " " + mv + " " + ks + ") in\n  "
	s.pre = nil
	if !isBlank(st.Lhs[0]) {
		out += s.assignTo(st.Lhs[0], st.Tok, "(odflt zero_"+mi.val.name+" "+lk+")", mi.val, st)
		if id, ok := st.Lhs[0].(*ast.Ident); ok && mi.ptr {
			s.mapPtr[id.Name] = true
		}
	}
	out += s.assignTo(st.Lhs[1], st.Tok, "(match "+lk+" with Some _ => true | None => false end)", tBool, st)
	return out
}
