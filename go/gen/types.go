package main

import (
	"fmt"
	"go/ast"
	"sort"
	"strings"
)

// coqType maps a Go type expression to the Coq type used in Gen/Types.v.
// known is the set of struct names already emitted.
func (p *pkg) coqType(e ast.Expr, known map[string]bool) (string, bool) {
	switch e := e.(type) {
	case *ast.Ident:
		if _, _, ok := p.intType(e.Name); ok {
			return "Z", true
		}
		switch e.Name {
		case "bool":
			return "bool", true
		case "string":
			return "(list Z)", true
		}
		if known[e.Name] {
			return e.Name, true
		}
		return "", false
	case *ast.StarExpr:
		t, ok := p.coqType(e.X, known)
		if !ok {
			return "", false
		}
		return "(option " + t + ")", true
	case *ast.ArrayType:
		if e.Len != nil {
			return "", false
		}
		if id, ok := e.Elt.(*ast.Ident); ok && (id.Name == "byte" || id.Name == "uint8") {
			return "(list Z)", true
		}
		elt := e.Elt
		if s, ok := elt.(*ast.StarExpr); ok {
			elt = s.X
		}
		t, ok := p.coqType(elt, known)
		if !ok {
			return "", false
		}
		return "(list " + t + ")", true
	case *ast.SelectorExpr:
		if x, ok := e.X.(*ast.Ident); ok && x.Name == "time" && (e.Sel.Name == "Time" || e.Sel.Name == "Duration") {
			return "Z", true
		}
	}
	return "", false
}

func (p *pkg) zeroOf(e ast.Expr) string {
	switch e := e.(type) {
	case *ast.Ident:
		if _, _, ok := p.intType(e.Name); ok {
			return "0"
		}
		switch e.Name {
		case "bool":
			return "false"
		case "string":
			return "[]"
		}
		return "zero_" + e.Name
	case *ast.StarExpr:
		return "None"
	case *ast.ArrayType:
		return "[]"
	case *ast.SelectorExpr:
		return "0"
	}
	return "?"
}

// emitted struct set, used by the predicate translator
var emittedStructs = map[string]bool{}

func (p *pkg) emitTypes() string {
	var b strings.Builder
	b.WriteString("(* Generated from the struct declarations of /repo by go/gen on every run. Do not edit.\n   One record per Go struct, fields in declaration order: integers are Z, []byte and string are\n   list Z, *T is option T, []*T / []T are list T, time.Time / time.Duration are Z. *)\nFrom Coq Require Import ZArith List.\nRequire Import Base.Tok.\nImport ListNotations.\nOpen Scope Z_scope.\n\n")
	known := map[string]bool{}
	names := append([]string(nil), p.sorder...)
	sort.Strings(names)
	progress := true
	for progress {
		progress = false
		for _, n := range names {
			if known[n] {
				continue
			}
			st := p.structs[n]
			ok := true
			var fields []string
			var zeros []string
			for _, f := range st.Fields.List {
				if len(f.Names) == 0 {
					ok = false
					break
				}
				t, tok := p.coqType(f.Type, known)
				if !tok {
					ok = false
					break
				}
				for _, id := range f.Names {
					fields = append(fields, fmt.Sprintf("%s_%s : %s", n, id.Name, t))
					zeros = append(zeros, fmt.Sprintf("%s_%s := %s", n, id.Name, p.zeroOf(f.Type)))
				}
			}
			if !ok || len(fields) == 0 {
				continue
			}
			fmt.Fprintf(&b, "Record %s := mk_%s {\n  %s\n}.\n", n, n, strings.Join(fields, ";\n  "))
			fmt.Fprintf(&b, "Definition zero_%s : %s := {|\n  %s\n|}.\n", n, n, strings.Join(zeros, ";\n  "))
			var totok, oftok []string
			idx := 0
			for _, f := range st.Fields.List {
				for _, id := range f.Names {
					totok = append(totok, p.toTok(f.Type, fmt.Sprintf("(%s_%s v)", n, id.Name)))
					oftok = append(oftok, fmt.Sprintf("%s_%s := %s", n, id.Name, p.ofTok(f.Type, fmt.Sprintf("(tnth %d t)", idx))))
					idx++
				}
			}
			fmt.Fprintf(&b, "Definition tok_of_%s (v : %s) : tok := TL [\n  %s\n].\n", n, n, strings.Join(totok, ";\n  "))
			fmt.Fprintf(&b, "Definition %s_of_tok (t : tok) : %s := {|\n  %s\n|}.\n\n", n, n, strings.Join(oftok, ";\n  "))
			known[n] = true
			progress = true
		}
	}
	emittedStructs = known
	return b.String()
}

// toTok renders the Coq expression converting a field value to a tok.
func (p *pkg) toTok(e ast.Expr, v string) string {
	switch e := e.(type) {
	case *ast.Ident:
		if _, _, ok := p.intType(e.Name); ok {
			return "TI " + v
		}
		switch e.Name {
		case "bool":
			return "of_bool " + v
		case "string":
			return "TB " + v
		}
		return "tok_of_" + e.Name + " " + v
	case *ast.StarExpr:
		return "of_opt (fun x => " + p.toTok(e.X, "x") + ") " + v
	case *ast.ArrayType:
		if id, ok := e.Elt.(*ast.Ident); ok && (id.Name == "byte" || id.Name == "uint8") {
			return "TB " + v
		}
		elt := e.Elt
		if s, ok := elt.(*ast.StarExpr); ok {
			elt = s.X
		}
		return "of_list (fun x => " + p.toTok(elt, "x") + ") " + v
	case *ast.SelectorExpr:
		return "TI " + v
	}
	return "?"
}

func (p *pkg) ofTok(e ast.Expr, t string) string {
	switch e := e.(type) {
	case *ast.Ident:
		if _, _, ok := p.intType(e.Name); ok {
			return "tI " + t
		}
		switch e.Name {
		case "bool":
			return "tbool " + t
		case "string":
			return "tB " + t
		}
		return e.Name + "_of_tok " + t
	case *ast.StarExpr:
		return "to_opt (fun x => " + p.ofTok(e.X, "x") + ") " + t
	case *ast.ArrayType:
		if id, ok := e.Elt.(*ast.Ident); ok && (id.Name == "byte" || id.Name == "uint8") {
			return "tB " + t
		}
		elt := e.Elt
		if s, ok := elt.(*ast.StarExpr); ok {
			elt = s.X
		}
		return "to_list (fun x => " + p.ofTok(elt, "x") + ") " + t
	case *ast.SelectorExpr:
		return "tI " + t
	}
	return "?"
}
