package main

// Translation of the Demuxer's CONTROL LOGIC (demuxer.go, packet_buffer.go, data.go) into Gen/DemuxGen.v.
//
// stateful.go translates straight-line methods with one top-level range loop. The functions here have what that
// grammar refuses: calls with effects (reads, the packet pool, callbacks), error values that are compared, wrapped
// and passed on, `for` loops left by break / continue / return, if statements with an init clause, type
// assertions, defer. They are translated statement by statement into Gallina over an outcome monad
// (Done v | Panicked | OutOfFuel), reusing the expression translator of preds.go (tr.expr) for the pure parts:
//
//   * the output is organised in Sections, one per layer (isPSIComplete / the Demuxer methods / parseData / the
//     packet buffer). Inside a section the listed functions are translated and call each other directly; EVERY other
//     function or method they call is an abstract operation: a Section Variable whose type is derived from the Go
//     declaration (or from the table of library calls below) — `W -> args -> outcome (results * W)` where W is the
//     abstract "world" (everything the operation may read or change: the reader, the shared program map, logs).
//     After the section is closed each definition is generalised over exactly the operations it uses, so a new
//     callee in the Go source changes the type of the definition and the equality lemma stops type-checking;
//   * a method `func (x *S) m(args) (results)` is a function of the receiver's fields (x_<field>), the arguments, the
//     fuel of its loops and the world; it returns the fields it assigns, the slice parameters it writes, its
//     results and the world;
//   * Go `error` is `option gerr`: package-level error variables by name (EVar), fmt.Errorf with %w (EWrap), without
//     (ENew), errors made outside the translated code (EExt: a reader's own failure, wrapping anything). `==` is
//     structural equality, errors.Is walks the chain;
//   * pointers to structs the translator has no record for are abstract types; a method with a pointer receiver
//     called through a field or local returns the updated object, which is re-bound (the object must not be shared:
//     a field that is also passed as an argument is refused); `*T` that may be nil is an option and a call through
//     None is Panicked; index / slice / make / Uint16 bounds are checked and Panicked when violated;
//   * `for { }` / `for cond { }` become a Fixpoint on a fuel argument (OutOfFuel at 0) whose exit branch holds the
//     translation of the statements after the loop; `for _, x := range xs` with a jump inside becomes a structural
//     Fixpoint, without jumps a fold (ofold); a loop inside a loop must not fall back into the outer loop;
//   * defer of a closure is run at every return that follows it; bytesPool.put and logger calls are dropped.
//
// Whatever leaves this grammar raises a genError: the function is replaced by a NOT TRANSLATED comment, "gen: not
// translated:" goes to stderr, Proofs/DemuxGenEq*.v stop compiling and the check reports the broken lemma.

import (
	"fmt"
	"go/ast"
	"go/token"
	"os"
	"strings"
)

type gsection struct {
	name    string
	records []string // structs of /repo emitted as records inside the section
	entries []string // functions translated inside the section, in dependency order
}

var gsections = []gsection{
	{name: "PsiComplete", entries: []string{"isPSIComplete"}},
	{name: "Demuxer", entries: []string{"Demuxer.updateData", "Demuxer.NextPacket", "Demuxer.NextData", "Demuxer.Rewind"}},
	{name: "ParseData", entries: []string{"parseData"}},
	{name: "PacketBuffer", records: []string{"packetBuffer"}, entries: []string{"rewind", "peek", "autoDetectPacketSize", "newPacketBuffer", "packetBuffer.next"}},
}

// a struct with one slice field whose pointer is modelled as that field
var gTransparent = map[string]string{"bytesPoolItem": "s"}

// calls that are dropped: no effect the model can observe
var gNoop = map[string]bool{"bytesPool.put": true, "astikit_CompleteLogger.Error": true, "astikit_CompleteLogger.Errorf": true,
	"astikit_CompleteLogger.Debug": true, "astikit_CompleteLogger.Debugf": true, "astikit_CompleteLogger.Info": true,
	"astikit_CompleteLogger.Infof": true, "astikit_CompleteLogger.Warn": true, "astikit_CompleteLogger.Warnf": true}

type gsig struct {
	params  []*ty
	results []*ty
}

// methods of library interfaces / objects reached through abstract values (the state they touch is in W)
func gStdMethods() map[string]gsig {
	return map[string]gsig{
		"context_Context.Err":  {nil, []*ty{gErr()}},
		"bufio_Reader.Peek":    {[]*ty{tInt}, []*ty{tBytes, gErr()}},
		"bufio_Reader.Discard": {[]*ty{tInt}, []*ty{tInt, gErr()}},
		"io_Seeker.Seek":       {[]*ty{tInt, tInt}, []*ty{tInt, gErr()}},
	}
}

// ---------- types ----------

func gOpaque(name, coq string) *ty { opaqueTypes[name] = coq; return &ty{k: "opaque", name: name} }
func gErr() *ty                    { return gOpaque("error", "(option gerr)") }
func gIter() *ty                   { return gOpaque("iter", "iter") }
func gNat() *ty                    { return gOpaque("nat", "nat") }
func gWorld() *ty                  { return gOpaque("W", "W") }
func gAbs(name string) *ty         { return gOpaque("abs:"+name, name) }
func isErrTy(t *ty) bool           { return t != nil && t.k == "opaque" && t.name == "error" }
func isIterTy(t *ty) bool          { return t != nil && t.k == "opaque" && t.name == "iter" }
func isAbsTy(t *ty) bool           { return t != nil && t.k == "opaque" && strings.HasPrefix(t.name, "abs:") }
func isFnTy(t *ty) bool            { return t != nil && t.k == "opaque" && strings.HasPrefix(t.name, "fn:") }
func isSliceTy(t *ty) bool         { return t != nil && (t.k == "list" || t.k == "bytes") }
func absName(t *ty) string         { return strings.TrimPrefix(t.name, "abs:") }
func gOpt(t *ty) *ty               { return &ty{k: "opt", elem: t} }

var gFnSigs = map[string]gsig{}

func gTuple(ts []*ty) string {
	var s []string
	for _, t := range ts {
		s = append(s, t.coq())
	}
	return strings.Join(s, " * ")
}

func gFn(sig gsig) *ty {
	var ps []string
	for _, a := range sig.params {
		ps = append(ps, a.coq())
	}
	coq := "(" + strings.Join(append(ps, "outcome ("+gTuple(sig.results)+")"), " -> ") + ")"
	name := "fn:" + coq
	gFnSigs[name] = sig
	return gOpaque(name, coq)
}

func gZero(t *ty) (string, bool) {
	switch t.k {
	case "int", "untyped":
		return "0", true
	case "bool":
		return "false", true
	case "bytes":
		return "(@nil Z)", true
	case "list":
		return "(@nil " + t.elem.coq() + ")", true
	case "opt":
		return "(@None " + t.elem.coq() + ")", true
	case "struct":
		if emittedStructs[t.name] {
			return "zero_" + t.name, true
		}
	case "opaque":
		if isErrTy(t) {
			return "(@None gerr)", true
		}
	}
	return "", false
}

type gfield struct {
	name string
	typ  *ty
}

type gfuncInfo struct {
	key, cname string
	recv       string // receiver struct
	fields     []gfield
	mut        []string // receiver fields returned
	params     []*ty
	pnames     []string
	outPar     []int // indices of slice parameters returned
	results    []*ty
	nfuel      int
}

type gsec struct {
	p       *pkg
	def     gsection
	names   map[string]string // section variables and definitions: name -> Coq type ("" for definitions)
	pending []string          // declarations not written yet
	funcs   map[string]*gfuncInfo
	failed  map[string]bool
	records map[string]bool
	nilable map[string]bool // "Struct.field": compared with or assigned nil in a translated function
}

func (s *gsec) declare(name, typ string, n ast.Node, g *gx) {
	if old, ok := s.names[name]; ok {
		if old != typ {
			g.fail(n, "section variable %s is used at two types: %s and %s", name, old, typ)
		}
		return
	}
	s.names[name] = typ
	s.pending = append(s.pending, fmt.Sprintf("Variable %s : %s.\n", name, typ))
}

// ---------- translator state ----------

type gx struct {
	p        *pkg
	sec      *gsec
	t        *tr
	d        *ast.FuncDecl
	info     *gfuncInfo
	recv     string
	named    []string
	guards   []string
	defers   [][]ast.Stmt
	inDefer  bool
	leaves   map[string]bool
	tlog     []string // variables re-bound so far, in order (which fields / slice parameters / locals a block changes)
	fuelOf   map[*ast.ForStmt]int
	kBreak   func() string
	kCont    func() string
	depth    int // loops around the current statement
	nloop    int
	nfuel    int
	ntmp     int
	retCoq   string
	loopDefs *[]string
	pass     int
	nonNil   map[string]bool // exploded struct pointers known to be non-nil
	exploded map[string]string
	transp   map[string]bool // variables holding a transparent struct pointer
}

func (g *gx) fail(n ast.Node, format string, a ...interface{}) { g.t.fail(n, format, a...) }

func (g *gx) absType(name string, n ast.Node) *ty {
	g.sec.declare(name, "Type", n, g)
	return gAbs(name)
}

// gotype maps a Go type. param: the type of a parameter of a translated function (a *programMap that is only read
// is then its membership test, as in Gen/Preds.v); otherwise structs without a record are abstract types.
func (g *gx) gotype(e ast.Expr, param bool) *ty {
	switch x := e.(type) {
	case *ast.Ident:
		if x.Name == "error" {
			return gErr()
		}
		if _, _, ok := g.p.intType(x.Name); ok || x.Name == "bool" || x.Name == "string" {
			return g.t.goType(e)
		}
		if u, ok := g.p.types[x.Name]; ok {
			if ft, ok := u.(*ast.FuncType); ok {
				return gOpt(g.fnType(ft))
			}
		}
		if g.sec.records[x.Name] {
			return &ty{k: "struct", name: x.Name}
		}
		if emittedStructs[x.Name] {
			if _, tr := gTransparent[x.Name]; !tr {
				return &ty{k: "struct", name: x.Name}
			}
		}
		if _, ok := g.p.structs[x.Name]; ok {
			return g.absType(x.Name, e)
		}
	case *ast.StarExpr:
		if id, ok := x.X.(*ast.Ident); ok {
			if f, ok := gTransparent[id.Name]; ok {
				st := g.p.structs[id.Name]
				if st == nil || len(st.Fields.List) != 1 || len(st.Fields.List[0].Names) != 1 || st.Fields.List[0].Names[0].Name != f {
					g.fail(e, "struct %s no longer has the single field %s", id.Name, f)
				}
				ft := g.gotype(st.Fields.List[0].Type, false)
				return &ty{k: ft.k, elem: ft.elem, w: ft.w, name: "transparent:" + id.Name}
			}
			if param {
				if _, ok := opaqueTypes[id.Name]; ok && id.Name == "programMap" {
					return &ty{k: "opaque", name: id.Name}
				}
			}
		}
		if sel, ok := x.X.(*ast.SelectorExpr); ok {
			if pk, ok := sel.X.(*ast.Ident); ok {
				if pk.Name == "astikit" && sel.Sel.Name == "BytesIterator" {
					return gIter()
				}
				return gOpt(g.absType(pk.Name+"_"+sel.Sel.Name, e))
			}
		}
		return gOpt(g.gotype(x.X, false))
	case *ast.SelectorExpr:
		if pk, ok := x.X.(*ast.Ident); ok {
			if pk.Name == "time" {
				return tInt
			}
			return g.absType(pk.Name+"_"+x.Sel.Name, e)
		}
	case *ast.ArrayType:
		if x.Len == nil {
			if id, ok := x.Elt.(*ast.Ident); ok && (id.Name == "byte" || id.Name == "uint8") {
				return tBytes
			}
			elt := x.Elt
			if s, ok := elt.(*ast.StarExpr); ok {
				elt = s.X
			}
			return &ty{k: "list", elem: g.gotype(elt, false)}
		}
	case *ast.FuncType:
		return gOpt(g.fnType(x))
	}
	g.fail(e, "unsupported type")
	return nil
}

func (g *gx) fnType(ft *ast.FuncType) *ty {
	var sig gsig
	for _, f := range ft.Params.List {
		n := len(f.Names)
		if n == 0 {
			n = 1
		}
		for i := 0; i < n; i++ {
			sig.params = append(sig.params, g.gotype(f.Type, false))
		}
	}
	if ft.Results != nil {
		for _, f := range ft.Results.List {
			n := len(f.Names)
			if n == 0 {
				n = 1
			}
			for i := 0; i < n; i++ {
				sig.results = append(sig.results, g.gotype(f.Type, false))
			}
		}
	}
	if len(sig.results) == 0 {
		g.fail(ft, "function value without results")
	}
	return gFn(sig)
}

const demuxGenHeader = `(* Generated from the CURRENT source of /repo/demuxer.go, /repo/packet_buffer.go and /repo/data.go by go/gen
   (demuxgen.go) on every run. Do not edit.
   Every definition returns an outcome: Done v, Panicked (where the Go code would panic: index / slice / make bounds,
   nil dereference, a panic inside an abstract operation) or OutOfFuel (a for loop used up its fuel argument).
   W is the world: whatever the abstract operations (Section Variables; their types are derived from the Go
   declarations of the callees) may read or change. A method is a function of its receiver's fields; it returns the
   fields it assigns, the slice parameters it writes, its results, and the world. Go errors are option gerr.
   Proofs/DemuxGenEq*.v prove the hand-written models of Model/Pool.v, Model/Demux.v and Model/Reader.v equal to these
   definitions with the operations instantiated by the model's. *)
From Coq Require Import ZArith List Bool String.
Require Import Base.Iter Gen.Consts Gen.Types Gen.Preds.
Import ListNotations.
Open Scope Z_scope.

Inductive outcome (A : Type) : Type := Done (a : A) | Panicked | OutOfFuel.
Arguments Done {A} a.
Arguments Panicked {A}.
Arguments OutOfFuel {A}.

Definition obind {A B : Type} (m : outcome A) (f : A -> outcome B) : outcome B :=
  match m with Done a => f a | Panicked => Panicked | OutOfFuel => OutOfFuel end.

(* for _, x := range l { body } without break / continue / return *)
Fixpoint ofold {A S : Type} (f : S -> A -> outcome S) (l : list A) (s : S) : outcome S :=
  match l with [] => Done s | x :: r => obind (f s x) (ofold f r) end.

(* Go error values *)
Inductive gerr : Type :=
| EVar (name : string)   (* a package-level error variable, by name *)
| EWrap (inner : gerr)   (* fmt.Errorf("... %w ...", inner) *)
| ENew                   (* fmt.Errorf without %w, errors.New inside a function *)
| EExt (inner : gerr).   (* an error made outside the translated code; it may wrap anything *)

Fixpoint gerr_eqb (a b : gerr) : bool :=
  match a, b with
  | EVar x, EVar y => String.eqb x y
  | EWrap x, EWrap y => gerr_eqb x y
  | ENew, ENew => true
  | EExt x, EExt y => gerr_eqb x y
  | _, _ => false
  end.

(* errors.Is *)
Fixpoint gerr_is (e t : gerr) : bool :=
  gerr_eqb e t || match e with EWrap i => gerr_is i t | EExt i => gerr_is i t | _ => false end.

Definition oerr_eqb (a b : option gerr) : bool :=
  match a, b with Some x, Some y => gerr_eqb x y | None, None => true | _, _ => false end.
Definition oerr_is (a b : option gerr) : bool :=
  match a, b with Some x, Some y => gerr_is x y | None, None => true | _, _ => false end.
Definition ewrap (e : option gerr) : option gerr := Some (match e with Some x => EWrap x | None => ENew end).
Definition is_some {A : Type} (o : option A) : bool := match o with Some _ => true | None => false end.

(* astikit.BytesIterator (Base/Iter.v): on an error the iterator is unchanged *)
Definition it_NextByte (i : iter) : outcome (iter * Z * option gerr) :=
  match next_byte i with Ok (b, i') => Done (i', b, None) | Err _ => Done (i, 0, Some ENew) | Panic => Panicked end.
Definition it_NextBytes (i : iter) (n : Z) : outcome (iter * list Z * option gerr) :=
  match next_bytes n i with Ok (bs, i') => Done (i', bs, None) | Err _ => Done (i, [], Some ENew) | Panic => Panicked end.
Definition it_NextBytesNoCopy (i : iter) (n : Z) : outcome (iter * list Z * option gerr) :=
  match next_bytes_nocopy n i with Ok (bs, i') => Done (i', bs, None) | Err _ => Done (i, [], Some ENew) | Panic => Panicked end.
Definition it_Skip (i : iter) (n : Z) : iter := mk_iter (ibs i) (ioff i + n).
Definition it_Seek (i : iter) (n : Z) : iter := mk_iter (ibs i) n.

(* copy(dst[lo:], src): the new contents of dst and the number of bytes copied *)
Definition copy_at (dst : list Z) (lo : Z) (src : list Z) : list Z * Z :=
  let n := Z.min (Z.of_nat (List.length dst) - lo) (Z.of_nat (List.length src)) in
  (firstn (Z.to_nat lo) dst ++ firstn (Z.to_nat n) src ++ skipn (Z.to_nat (lo + n)) dst, n).

`

// ---------- expressions ----------

func (g *gx) take() []string { gs := g.guards; g.guards = nil; return gs }

func (g *gx) guard(c string) { g.guards = append(g.guards, c) }

func (g *gx) leaf(n ast.Node, term string, typ *ty) *ast.Ident {
	if coqReserved[term] {
		g.fail(n, "internal: reserved leaf")
	}
	if _, isVar := g.t.env[term]; isVar && !g.leaves[term] {
		for v := range g.t.env {
			if cname(v) == term {
				return &ast.Ident{NamePos: n.Pos(), Name: v}
			}
		}
	}
	g.t.env[term] = typ
	g.leaves[term] = true
	return &ast.Ident{NamePos: n.Pos(), Name: term}
}

// ex translates a pure expression; the conditions under which it does not panic are appended to g.guards.
func (g *gx) ex(e ast.Expr) (string, *ty) { return g.t.expr(g.rw(e)) }

func isNil(e ast.Expr) bool {
	id, ok := e.(*ast.Ident)
	return ok && id.Name == "nil"
}

func glen(xs string) string { return "(Z.of_nat (List.length " + xs + "))" }

func (g *gx) isPkgIdent(id *ast.Ident) bool {
	if _, ok := g.t.env[id.Name]; ok {
		return false
	}
	return id.Name != g.recv || g.recv == ""
}

func (g *gx) errVar(name string) bool {
	vs, ok := g.p.vars[name]
	if !ok {
		return false
	}
	for i, id := range vs.Names {
		if id.Name == name && i < len(vs.Values) {
			if c, ok := vs.Values[i].(*ast.CallExpr); ok {
				if sel, ok := c.Fun.(*ast.SelectorExpr); ok {
					if pk, ok := sel.X.(*ast.Ident); ok && pk.Name == "errors" && sel.Sel.Name == "New" {
						return true
					}
				}
			}
		}
	}
	return false
}

func (g *gx) recordValue(n ast.Node, v string) (string, *ty) {
	sname := g.exploded[v]
	var fs []string
	for _, f := range g.p.structs[sname].Fields.List {
		for _, id := range f.Names {
			fs = append(fs, fmt.Sprintf("%s_%s := %s", sname, id.Name, cname(v+"_"+id.Name)))
		}
	}
	return "{| " + strings.Join(fs, "; ") + " |}", &ty{k: "struct", name: sname}
}

func (g *gx) rwAll(es []ast.Expr) []ast.Expr {
	var out []ast.Expr
	for _, e := range es {
		out = append(out, g.rw(e))
	}
	return out
}

func (g *gx) rw(e ast.Expr) ast.Expr {
	switch x := e.(type) {
	case *ast.Ident:
		if x.Name == "nil" {
			g.fail(x, "nil outside an assignment, a return, an argument or a comparison")
		}
		if _, ok := g.exploded[x.Name]; ok {
			if !g.nonNil[x.Name] {
				g.fail(x, "%s may be nil here", x.Name)
			}
			v, vt := g.recordValue(x, x.Name)
			return g.leaf(x, "(Some "+v+")", gOpt(vt))
		}
		if _, ok := g.t.env[x.Name]; !ok && g.errVar(x.Name) {
			return g.leaf(x, "(Some (EVar \""+x.Name+"\"%string))", gErr())
		}
		return x
	case *ast.BasicLit:
		if x.Kind == token.STRING {
			g.fail(x, "string literal outside fmt.Errorf / errors.New")
		}
		return x
	case *ast.ParenExpr:
		return &ast.ParenExpr{Lparen: x.Lparen, X: g.rw(x.X), Rparen: x.Rparen}
	case *ast.StarExpr:
		return g.rw(x.X)
	case *ast.UnaryExpr:
		switch x.Op {
		case token.NOT:
			v, _ := g.ex(x.X)
			return g.leaf(x, "(negb "+v+")", tBool)
		case token.AND:
			if cl, ok := x.X.(*ast.CompositeLit); ok {
				return &ast.UnaryExpr{OpPos: x.OpPos, Op: x.Op, X: g.rw(cl)}
			}
			// &b of a local byte slice that is assigned once and never written through: the pointer's target is b's value
			if id, ok := x.X.(*ast.Ident); ok {
				if typ, ok := g.t.env[id.Name]; ok && typ.k == "bytes" {
					writes := 0
					ast.Inspect(g.d.Body, func(n ast.Node) bool {
						if as, ok := n.(*ast.AssignStmt); ok {
							for _, l := range as.Lhs {
								if isIdent(l, id.Name) {
									writes++
								}
								if ix, ok := l.(*ast.IndexExpr); ok && isIdent(ix.X, id.Name) {
									writes += 2
								}
							}
						}
						return true
					})
					if writes <= 1 {
						return g.leaf(x, "(Some "+cname(id.Name)+")", gOpt(tBytes))
					}
				}
			}
			g.fail(x, "address of something that is not a composite literal")
		}
		return &ast.UnaryExpr{OpPos: x.OpPos, Op: x.Op, X: g.rw(x.X)}
	case *ast.BinaryExpr:
		return g.rwBinary(x)
	case *ast.CompositeLit:
		return g.rwComposite(x, nil)
	case *ast.SelectorExpr:
		return g.rwSelector(x)
	case *ast.IndexExpr:
		rx := g.rw(x.X)
		xs, xt := g.t.expr(rx)
		is, _ := g.ex(x.Index)
		var et *ty
		switch xt.k {
		case "bytes":
			et = &ty{k: "int", w: 8}
		case "list":
			et = xt.elem
		default:
			g.fail(x, "index of something that is not a slice")
		}
		z, ok := gZero(et)
		if !ok {
			g.fail(x, "index of a slice whose elements have no zero value in the model")
		}
		if lit, ok := x.Index.(*ast.BasicLit); ok && lit.Kind == token.INT {
			g.guard("(" + is + " <? " + glen(xs) + ")")
		} else {
			g.guard("(andb (0 <=? " + is + ") (" + is + " <? " + glen(xs) + "))")
		}
		return g.leaf(x, "(nth (Z.to_nat "+is+") "+xs+" "+z+")", et)
	case *ast.SliceExpr:
		if x.Slice3 {
			g.fail(x, "three-index slice")
		}
		rx := g.rw(x.X)
		xs, xt := g.t.expr(rx)
		if !isSliceTy(xt) {
			g.fail(x, "slice expression on something that is not a slice")
		}
		lo, hi := "", ""
		if x.Low != nil {
			lo, _ = g.ex(x.Low)
		}
		if x.High != nil {
			hi, _ = g.ex(x.High)
		}
		st := &ty{k: xt.k, elem: xt.elem, w: xt.w}
		switch {
		case lo == "" && hi == "":
			return g.leaf(x, xs, st)
		case hi == "":
			if lit, ok := x.Low.(*ast.BasicLit); ok && lit.Kind == token.INT {
				g.guard("(" + lo + " <=? " + glen(xs) + ")")
			} else {
				g.guard("(andb (0 <=? " + lo + ") (" + lo + " <=? " + glen(xs) + "))")
			}
			return g.leaf(x, "(skipn (Z.to_nat "+lo+") "+xs+")", st)
		case lo == "":
			// a high bound between len and cap is legal in Go; capacity is not modelled: Panicked (conservative)
			g.guard("(andb (0 <=? " + hi + ") (" + hi + " <=? " + glen(xs) + "))")
			return g.leaf(x, "(firstn (Z.to_nat "+hi+") "+xs+")", st)
		}
		g.guard("(andb (andb (0 <=? " + lo + ") (" + lo + " <=? " + hi + ")) (" + hi + " <=? " + glen(xs) + "))")
		return g.leaf(x, "(firstn (Z.to_nat ("+hi+" - "+lo+")) (skipn (Z.to_nat "+lo+") "+xs+"))", st)
	case *ast.CallExpr:
		return g.rwCall(x)
	case *ast.TypeAssertExpr:
		g.fail(x, "type assertion outside `v, ok := x.(T)`")
	}
	g.fail(e, "unsupported expression %T", e)
	return nil
}

func (g *gx) rwBinary(x *ast.BinaryExpr) ast.Expr {
	switch x.Op {
	case token.LAND, token.LOR:
		a, _ := g.ex(x.X)
		saved := g.take()
		b, _ := g.ex(x.Y)
		gb := g.take()
		g.guards = saved
		for _, c := range gb {
			if x.Op == token.LAND {
				g.guard("(orb (negb " + a + ") " + c + ")")
			} else {
				g.guard("(orb " + a + " " + c + ")")
			}
		}
		if x.Op == token.LAND {
			return g.leaf(x, "(andb "+a+" "+b+")", tBool)
		}
		return g.leaf(x, "(orb "+a+" "+b+")", tBool)
	case token.EQL, token.NEQ:
		neg := func(s string) string {
			if x.Op == token.NEQ {
				return "(negb " + s + ")"
			}
			return s
		}
		var o ast.Expr
		if isNil(x.Y) {
			o = x.X
		} else if isNil(x.X) {
			o = x.Y
		}
		if o != nil {
			if id, ok := o.(*ast.Ident); ok {
				if _, ok := g.exploded[id.Name]; ok {
					if g.nonNil[id.Name] {
						return g.leaf(x, neg("false"), tBool)
					}
					g.fail(x, "nil test of %s, whose nilness is not known here", id.Name)
				}
			}
			vs, vt := g.ex(o)
			switch {
			case vt.k == "opt" || isErrTy(vt):
				if x.Op == token.NEQ {
					return g.leaf(x, "(is_some "+vs+")", tBool)
				}
				return g.leaf(x, "(negb (is_some "+vs+"))", tBool)
			case isSliceTy(vt):
				g.fail(x, "slice compared with nil: a nil slice and an empty slice are the same list in the model, the comparison cannot be translated")
			}
			g.fail(x, "nil comparison of a value that is not modelled as an option")
		}
		a, at := g.ex(x.X)
		b, bt := g.ex(x.Y)
		if isErrTy(at) || isErrTy(bt) {
			if !isErrTy(at) || !isErrTy(bt) {
				g.fail(x, "comparison of an error with something else")
			}
			return g.leaf(x, neg("(oerr_eqb "+a+" "+b+")"), tBool)
		}
		if (at.k != "int" && at.k != "untyped" && at.k != "bool") || (bt.k != "int" && bt.k != "untyped" && bt.k != "bool") {
			g.fail(x, "comparison of values that are neither integers, booleans nor errors")
		}
		return &ast.BinaryExpr{X: g.leaf(x.X, a, at), OpPos: x.OpPos, Op: x.Op, Y: g.leaf(x.Y, b, bt)}
	}
	return &ast.BinaryExpr{X: g.rw(x.X), OpPos: x.OpPos, Op: x.Op, Y: g.rw(x.Y)}
}

func (g *gx) rwComposite(x *ast.CompositeLit, elided ast.Expr) ast.Expr {
	typ := x.Type
	if typ == nil {
		typ = elided
	}
	switch t := typ.(type) {
	case *ast.Ident:
		if !emittedStructs[t.Name] {
			g.fail(x, "composite literal of a struct without a record")
		}
		var elts []ast.Expr
		for _, el := range x.Elts {
			kv, ok := el.(*ast.KeyValueExpr)
			if !ok {
				g.fail(x, "unkeyed composite literal")
			}
			if isNil(kv.Value) {
				continue // the zero value
			}
			elts = append(elts, &ast.KeyValueExpr{Key: kv.Key, Colon: kv.Colon, Value: g.rw(kv.Value)})
		}
		return &ast.CompositeLit{Type: t, Lbrace: x.Lbrace, Elts: elts, Rbrace: x.Rbrace}
	case *ast.ArrayType:
		if t.Len != nil {
			g.fail(x, "array literal")
		}
		lt := g.gotype(t, false)
		et := &ty{k: "int", w: 8}
		if lt.k == "list" {
			et = lt.elem
		}
		elt := t.Elt
		if s, ok := elt.(*ast.StarExpr); ok {
			elt = s.X
		}
		var els []string
		for _, el := range x.Elts {
			if _, isKV := el.(*ast.KeyValueExpr); isKV {
				g.fail(x, "keyed slice literal")
			}
			var v string
			var vt *ty
			if cl, ok := el.(*ast.CompositeLit); ok && cl.Type == nil {
				v, vt = g.t.expr(g.rwComposite(cl, elt))
			} else {
				v, vt = g.ex(el)
			}
			if !sameTy(vt, et) {
				g.fail(x, "slice literal element of type %s in a slice of %s", vt.coq(), et.coq())
			}
			els = append(els, v)
		}
		if len(els) == 0 {
			z, _ := gZero(lt)
			return g.leaf(x, z, lt)
		}
		return g.leaf(x, "["+strings.Join(els, "; ")+"]", lt)
	}
	g.fail(x, "unsupported composite literal")
	return nil
}

func (g *gx) localFieldType(sname, fname string, n ast.Node) *ty {
	st, ok := g.p.structs[sname]
	if !ok {
		g.fail(n, "unknown struct %s", sname)
	}
	for _, f := range st.Fields.List {
		for _, id := range f.Names {
			if id.Name == fname {
				return g.gotype(f.Type, false)
			}
		}
	}
	g.fail(n, "struct %s has no field %s", sname, fname)
	return nil
}

func (g *gx) rwSelector(x *ast.SelectorExpr) ast.Expr {
	if id, ok := x.X.(*ast.Ident); ok {
		if g.recv != "" && id.Name == g.recv {
			name := g.recv + "_" + x.Sel.Name
			if _, ok := g.t.env[name]; !ok {
				g.fail(x, "unknown receiver field %s", x.Sel.Name)
			}
			return &ast.Ident{NamePos: x.Pos(), Name: name}
		}
		if _, ok := g.exploded[id.Name]; ok {
			if !g.nonNil[id.Name] {
				g.guard("false")
			}
			name := id.Name + "_" + x.Sel.Name
			if _, ok := g.t.env[name]; !ok {
				g.fail(x, "unknown field %s", x.Sel.Name)
			}
			return &ast.Ident{NamePos: x.Pos(), Name: name}
		}
		if g.transp[id.Name] {
			return id
		}
		if _, ok := g.t.env[id.Name]; !ok {
			if id.Name == "io" && (x.Sel.Name == "EOF" || x.Sel.Name == "ErrUnexpectedEOF") {
				return g.leaf(x, "(Some (EVar \"io."+x.Sel.Name+"\"%string))", gErr())
			}
			return x // time.Hour ...: tr.expr decides
		}
	}
	rx := g.rw(x.X)
	xs, xt := g.t.expr(rx)
	if xt.k == "opt" && xt.elem.k == "struct" {
		g.guard("(is_some " + xs + ")")
	}
	st := xt
	if st.k == "opt" {
		st = st.elem
	}
	if st.k == "struct" && g.sec.records[st.name] {
		if xt.k == "opt" {
			g.fail(x, "field of a possibly nil pointer to a section record")
		}
		return g.leaf(x, "("+st.name+"_"+x.Sel.Name+" "+xs+")", g.localFieldType(st.name, x.Sel.Name, x))
	}
	return &ast.SelectorExpr{X: rx, Sel: x.Sel}
}

// errorfWrapped: the index (among the arguments after the format) of the operand of %w, -1 if there is none.
func errorfWrapped(format string) int {
	arg := 0
	for i := 0; i < len(format); i++ {
		if format[i] != '%' {
			continue
		}
		i++
		for i < len(format) && strings.ContainsRune("+-# 0123456789.*[]", rune(format[i])) {
			i++
		}
		if i >= len(format) {
			break
		}
		if format[i] == '%' {
			continue
		}
		if format[i] == 'w' {
			return arg
		}
		arg++
	}
	return -1
}

func (g *gx) rwCall(x *ast.CallExpr) ast.Expr {
	keep := func() ast.Expr {
		return &ast.CallExpr{Fun: x.Fun, Lparen: x.Lparen, Args: g.rwAll(x.Args), Rparen: x.Rparen}
	}
	switch f := x.Fun.(type) {
	case *ast.Ident:
		if _, _, ok := g.p.intType(f.Name); ok && len(x.Args) == 1 {
			return keep()
		}
		switch f.Name {
		case "len":
			if len(x.Args) == 1 {
				return keep()
			}
		case "make":
			if len(x.Args) < 2 || len(x.Args) > 3 {
				g.fail(x, "unsupported make")
			}
			at, ok := x.Args[0].(*ast.ArrayType)
			if !ok || at.Len != nil {
				g.fail(x, "make of something that is not a slice")
			}
			typ := g.gotype(at, false)
			n, _ := g.ex(x.Args[1])
			g.guard("(0 <=? " + n + ")")
			if len(x.Args) == 3 {
				c, _ := g.ex(x.Args[2])
				g.guard("(" + n + " <=? " + c + ")")
			}
			if typ.k == "bytes" {
				return g.leaf(x, "(repeat 0 (Z.to_nat "+n+"))", typ)
			}
			if v, ok := g.p.evalConst(x.Args[1], map[string]bool{}); ok && v.Sign() == 0 {
				z, _ := gZero(typ)
				return g.leaf(x, z, typ)
			}
			g.fail(x, "make of a non-empty slice of pointers")
		case "append":
			if len(x.Args) < 2 {
				g.fail(x, "append with one argument")
			}
			as, at := g.ex(x.Args[0])
			if !isSliceTy(at) {
				g.fail(x, "append to something that is not a slice")
			}
			et := &ty{k: "int", w: 8}
			if at.k == "list" {
				et = at.elem
			}
			if x.Ellipsis.IsValid() {
				if len(x.Args) != 2 {
					g.fail(x, "unsupported append")
				}
				bs, bt := g.ex(x.Args[1])
				if !sameTy(at, bt) {
					g.fail(x, "append of a slice of another type")
				}
				return g.leaf(x, "("+as+" ++ "+bs+")", &ty{k: at.k, elem: at.elem})
			}
			var els []string
			for _, a := range x.Args[1:] {
				v, vt := g.ex(a)
				if vt.k == "opt" && sameTy(vt.elem, et) {
					g.guard("(is_some " + v + ")")
					v, vt = asStruct(v, vt)
				}
				if !sameTy(vt, et) {
					g.fail(x, "append of an element of another type")
				}
				els = append(els, v)
			}
			return g.leaf(x, "("+as+" ++ ["+strings.Join(els, "; ")+"])", &ty{k: at.k, elem: at.elem})
		}
		if translated[f.Name] {
			if _, inSec := g.sec.funcs[f.Name]; !inSec {
				return keep()
			}
		}
	case *ast.SelectorExpr:
		if pk, ok := f.X.(*ast.Ident); ok && g.isPkgIdent(pk) && pk.Name != g.recv {
			switch pk.Name + "." + f.Sel.Name {
			case "errors.Is":
				if len(x.Args) == 2 {
					a, at := g.ex(x.Args[0])
					b, bt := g.ex(x.Args[1])
					if !isErrTy(at) || !isErrTy(bt) {
						g.fail(x, "errors.Is on something that is not an error")
					}
					return g.leaf(x, "(oerr_is "+a+" "+b+")", tBool)
				}
			case "errors.New":
				return g.leaf(x, "(Some ENew)", gErr())
			case "fmt.Errorf":
				if len(x.Args) >= 1 {
					lit, ok := x.Args[0].(*ast.BasicLit)
					if !ok || lit.Kind != token.STRING {
						g.fail(x, "fmt.Errorf with a format that is not a literal")
					}
					w := errorfWrapped(lit.Value)
					term := "(Some ENew)"
					for i, a := range x.Args[1:] {
						v, vt := g.ex(a)
						if i == w {
							if !isErrTy(vt) {
								g.fail(x, "%%w applied to something that is not an error")
							}
							term = "(ewrap " + v + ")"
						}
					}
					return g.leaf(x, term, gErr())
				}
			case "astikit.NewBytesIterator":
				if len(x.Args) == 1 {
					v, vt := g.ex(x.Args[0])
					if vt.k != "bytes" {
						g.fail(x, "NewBytesIterator on something that is not a byte slice")
					}
					return g.leaf(x, "(new_iter "+v+")", gIter())
				}
			case "time.Duration", "bytes.Equal":
				return keep()
			}
			g.fail(x, "unsupported library call %s.%s inside an expression", pk.Name, f.Sel.Name)
		}
		// binary.BigEndian.Uint16(x)
		if in, ok := f.X.(*ast.SelectorExpr); ok {
			if pk, ok := in.X.(*ast.Ident); ok && pk.Name == "binary" && g.isPkgIdent(pk) && in.Sel.Name == "BigEndian" && f.Sel.Name == "Uint16" && len(x.Args) == 1 {
				v, vt := g.ex(x.Args[0])
				if vt.k != "bytes" {
					g.fail(x, "Uint16 of something that is not a byte slice")
				}
				g.guard("(2 <=? " + glen(v) + ")")
				return g.leaf(x, "(be16 "+v+")", &ty{k: "int", w: 16})
			}
		}
		rx := g.rw(f.X)
		xs, xt := g.t.expr(rx)
		if isIterTy(xt) && len(x.Args) == 0 {
			switch f.Sel.Name {
			case "Len":
				return g.leaf(x, "(ilen "+xs+")", tInt)
			case "Offset":
				return g.leaf(x, "(ioff "+xs+")", tInt)
			case "HasBytesLeft":
				return g.leaf(x, "(ioff "+xs+" <? ilen "+xs+")", tBool)
			}
		}
		if xt.k == "int" || (xt.k == "struct" && emittedStructs[xt.name]) {
			// a method translated into Gen/Preds.v (tr.call refuses anything else)
			return &ast.CallExpr{Fun: &ast.SelectorExpr{X: rx, Sel: f.Sel}, Lparen: x.Lparen, Args: g.rwAll(x.Args), Rparen: x.Rparen}
		}
	}
	g.fail(x, "call with effects (or of an untranslated function) inside an expression: only `x, y = f(...)`, `x := f(...)` and `f(...)` as a statement are translated")
	return nil
}

// ---------- calls with effects ----------

type gout struct {
	typ    *ty
	target ast.Expr // lvalue to (re)bind; nil = discarded
	some   bool     // the target is an option holding this value
}

type gplan struct {
	head  string // the applied operation
	world bool   // takes and returns the world
	pure  bool   // head is a plain term, not an outcome
	outs  []gout
	nres  int // the last nres outs are the Go results
	wrap  func(string) string
}

func (g *gx) tmp(base string) string {
	g.ntmp++
	return fmt.Sprintf("%s_%d_", base, g.ntmp)
}

func (g *gx) isLvalue(e ast.Expr) bool {
	switch x := e.(type) {
	case *ast.Ident:
		_, ok := g.t.env[x.Name]
		return ok && !g.leaves[x.Name]
	case *ast.SelectorExpr:
		if id, ok := x.X.(*ast.Ident); ok {
			if g.recv != "" && id.Name == g.recv {
				return true
			}
			if _, ok := g.exploded[id.Name]; ok {
				return true
			}
			if g.transp[id.Name] {
				return true
			}
		}
	}
	return false
}

// arg translates a call argument against the type the callee expects.
func (g *gx) arg(a ast.Expr, want *ty, n ast.Node) string {
	if isNil(a) {
		z, ok := gZero(want)
		if !ok {
			g.fail(n, "nil passed for a parameter of type %s", want.coq())
		}
		return z
	}
	v, vt := g.ex(a)
	switch {
	case sameTy(vt, want):
		return v
	case vt.k == "opt" && sameTy(vt.elem, want) && want.k == "struct" && emittedStructs[want.name]:
		g.guard("(is_some " + v + ")")
		s, _ := asStruct(v, vt)
		return s
	case want.k == "opt" && sameTy(want.elem, vt):
		return "(Some " + v + ")"
	}
	g.fail(n, "argument of type %s where %s is expected", vt.coq(), want.coq())
	return ""
}

func (g *gx) opType(recvT *ty, sig gsig, back []*ty) string {
	parts := []string{"W"}
	if recvT != nil {
		parts = append(parts, recvT.coq())
	}
	for _, a := range sig.params {
		parts = append(parts, a.coq())
	}
	outs := append(append([]*ty{}, back...), sig.results...)
	if len(outs) == 0 {
		return strings.Join(append(parts, "outcome W"), " -> ")
	}
	return strings.Join(append(parts, "outcome ("+gTuple(outs)+" * W)"), " -> ")
}

func (g *gx) declSig(d *ast.FuncDecl) gsig {
	var sig gsig
	for _, f := range d.Type.Params.List {
		n := len(f.Names)
		if n == 0 {
			n = 1
		}
		for i := 0; i < n; i++ {
			sig.params = append(sig.params, g.gotype(f.Type, false))
		}
	}
	if d.Type.Results != nil {
		for _, f := range d.Type.Results.List {
			n := len(f.Names)
			if n == 0 {
				n = 1
			}
			for i := 0; i < n; i++ {
				sig.results = append(sig.results, g.gotype(f.Type, false))
			}
		}
	}
	return sig
}

// abstractCall: an operation of the section. recvE/recvT: the receiver (nil for a function); back: receiver returned.
func (g *gx) abstractCall(x *ast.CallExpr, name string, recvE ast.Expr, recvT *ty, ptrRecv bool, sig gsig) *gplan {
	pl := &gplan{world: true}
	if len(x.Args) != len(sig.params) || x.Ellipsis.IsValid() {
		g.fail(x, "wrong number of arguments for %s", name)
	}
	var back []*ty
	head := []string{name, "w_"}
	if recvT != nil {
		val := recvT
		rs, rt := g.ex(recvE)
		if rt.k == "opt" {
			val = rt.elem
			v := g.tmp("recv")
			opt := rs
			rs = v
			pl.wrap = func(body string) string {
				return "match " + opt + " with\n  | Some " + v + " => " + body + "\n  | None => Panicked\n  end"
			}
		}
		if ptrRecv {
			if !g.isLvalue(recvE) {
				g.fail(x, "method with a pointer receiver called on something that cannot be re-bound")
			}
			back = append(back, val)
			pl.outs = append(pl.outs, gout{typ: val, target: recvE, some: rt.k == "opt"})
		}
		recvT = val
		head = append(head, rs)
	}
	for i, a := range x.Args {
		head = append(head, g.arg(a, sig.params[i], x))
		if isIterTy(sig.params[i]) {
			back = append(back, sig.params[i])
			o := gout{typ: sig.params[i]}
			if g.isLvalue(a) {
				o.target = a
			}
			pl.outs = append(pl.outs, o)
		}
		if recvT != nil && ptrRecv {
			// an object that is re-bound must not be reachable through an argument as well
			if sel, ok := a.(*ast.SelectorExpr); ok && g.isLvalue(sel) && fmt.Sprint(sel) == fmt.Sprint(recvE) {
				g.fail(x, "the receiver is also passed as an argument")
			}
		}
	}
	g.sec.declare(name, g.opType(recvT, sig, back), x, g)
	for _, r := range sig.results {
		pl.outs = append(pl.outs, gout{typ: r})
	}
	pl.nres = len(sig.results)
	pl.head = strings.Join(head, " ")
	return pl
}

func (g *gx) sectionCall(x *ast.CallExpr, info *gfuncInfo, self bool) *gplan {
	if info.nfuel > 0 {
		g.fail(x, "call of %s, which has loops with fuel, from another translated function", info.key)
	}
	if len(x.Args) != len(info.params) || x.Ellipsis.IsValid() {
		g.fail(x, "wrong number of arguments for %s", info.key)
	}
	pl := &gplan{world: true}
	head := []string{info.cname}
	if self {
		for _, f := range info.fields {
			head = append(head, cname(g.recv+"_"+f.name))
		}
		for _, m := range info.mut {
			pl.outs = append(pl.outs, gout{typ: g.t.env[g.recv+"_"+m], target: &ast.SelectorExpr{X: &ast.Ident{Name: g.recv, NamePos: x.Pos()}, Sel: &ast.Ident{Name: m, NamePos: x.Pos()}}})
		}
	}
	for i, a := range x.Args {
		head = append(head, g.arg(a, info.params[i], x))
	}
	for _, i := range info.outPar {
		o := gout{typ: info.params[i]}
		if g.isLvalue(x.Args[i]) {
			o.target = x.Args[i]
		}
		pl.outs = append(pl.outs, o)
	}
	head = append(head, "w_")
	for _, r := range info.results {
		pl.outs = append(pl.outs, gout{typ: r})
	}
	pl.nres = len(info.results)
	pl.head = strings.Join(head, " ")
	return pl
}

func (g *gx) globalStruct(name string) string {
	vs, ok := g.p.vars[name]
	if !ok {
		return ""
	}
	for i, id := range vs.Names {
		if id.Name == name && i < len(vs.Values) {
			v := vs.Values[i]
			if u, ok := v.(*ast.UnaryExpr); ok {
				v = u.X
			}
			if cl, ok := v.(*ast.CompositeLit); ok {
				if t, ok := cl.Type.(*ast.Ident); ok {
					return t.Name
				}
			}
		}
	}
	return ""
}

var gNoopPlan = &gplan{pure: true, head: ""}

// plan classifies a call; nil: not a call with effects (a pure expression).
func (g *gx) plan(x *ast.CallExpr) *gplan {
	switch f := x.Fun.(type) {
	case *ast.Ident:
		if typ, ok := g.t.env[f.Name]; ok {
			if typ.k == "opt" && isFnTy(typ.elem) {
				sig := gFnSigs[typ.elem.name]
				if len(x.Args) != len(sig.params) {
					g.fail(x, "wrong number of arguments")
				}
				v := g.tmp("fn")
				pl := &gplan{nres: len(sig.results)}
				head := []string{v}
				for i, a := range x.Args {
					head = append(head, g.arg(a, sig.params[i], x))
				}
				pl.head = strings.Join(head, " ")
				for _, r := range sig.results {
					pl.outs = append(pl.outs, gout{typ: r})
				}
				fv := cname(f.Name)
				pl.wrap = func(body string) string {
					return "match " + fv + " with\n  | Some " + v + " => " + body + "\n  | None => Panicked\n  end"
				}
				return pl
			}
			g.fail(x, "call of a variable that is not a function value")
		}
		if f.Name == "copy" && len(x.Args) == 2 {
			return g.copyPlan(x)
		}
		if info, ok := g.sec.funcs[f.Name]; ok {
			return g.sectionCall(x, info, false)
		}
		if g.sec.failed[f.Name] {
			g.fail(x, "call of %s, which was not translated", f.Name)
		}
		if translated[f.Name] {
			return nil
		}
		if d, ok := g.p.funcs[f.Name]; ok && d.Recv == nil {
			return g.abstractCall(x, f.Name, nil, nil, false, g.declSig(d))
		}
		return nil
	case *ast.SelectorExpr:
		if id, ok := f.X.(*ast.Ident); ok {
			if g.recv != "" && id.Name == g.recv {
				key := g.info.recv + "." + f.Sel.Name
				if info, ok := g.sec.funcs[key]; ok {
					return g.sectionCall(x, info, true)
				}
				if _, ok := g.p.funcs[key]; ok {
					g.fail(x, "call of the method %s of the receiver, which is not translated", key)
				}
				g.fail(x, "call through a field of the receiver that holds a function")
			}
			if _, inEnv := g.t.env[id.Name]; !inEnv {
				if gNoop[id.Name+"."+f.Sel.Name] {
					for _, a := range x.Args {
						g.ex(a)
					}
					return gNoopPlan
				}
				if sn := g.globalStruct(id.Name); sn != "" {
					if d, ok := g.p.funcs[sn+"."+f.Sel.Name]; ok {
						return g.abstractCall(x, id.Name+"_"+f.Sel.Name, nil, nil, false, g.declSig(d))
					}
				}
				if id.Name == "io" && f.Sel.Name == "ReadFull" && len(x.Args) == 2 {
					r := g.arg(x.Args[0], g.absType("io_Reader", x), x)
					b := g.arg(x.Args[1], tBytes, x)
					g.sec.declare("io_ReadFull", "W -> io_Reader -> (list Z) -> outcome ((list Z) * Z * (option gerr) * W)", x, g)
					pl := &gplan{world: true, head: "io_ReadFull w_ " + r + " " + b, nres: 2}
					o := gout{typ: tBytes}
					if g.isLvalue(x.Args[1]) {
						o.target = x.Args[1]
					}
					pl.outs = []gout{o, {typ: tInt}, {typ: gErr()}}
					return pl
				}
				return nil
			}
		}
		// a method of a value
		saved := g.take()
		_, xt := g.ex(f.X)
		g.guards = saved
		vt := xt
		if vt.k == "opt" {
			vt = vt.elem
		}
		switch {
		case isIterTy(xt):
			return g.iterPlan(x, f)
		case isAbsTy(vt):
			tn := absName(vt)
			if gNoop[tn+"."+f.Sel.Name] {
				for _, a := range x.Args {
					g.ex(a)
				}
				return gNoopPlan
			}
			if d, ok := g.p.funcs[tn+"."+f.Sel.Name]; ok {
				_, ptr := d.Recv.List[0].Type.(*ast.StarExpr)
				return g.abstractCall(x, tn+"_"+f.Sel.Name, f.X, vt, ptr, g.declSig(d))
			}
			if sig, ok := gStdMethods()[tn+"."+f.Sel.Name]; ok {
				return g.abstractCall(x, tn+"_"+f.Sel.Name, f.X, vt, false, sig)
			}
			g.fail(x, "unknown method %s of %s", f.Sel.Name, tn)
		case vt.k == "struct":
			key := vt.name + "." + f.Sel.Name
			if translated[key] {
				return nil
			}
			if d, ok := g.p.funcs[key]; ok {
				if _, ptr := d.Recv.List[0].Type.(*ast.StarExpr); ptr && usesRecvField(d) {
					g.fail(x, "method %s with a pointer receiver on a record value", key)
				}
				return g.abstractCall(x, vt.name+"_"+f.Sel.Name, f.X, vt, false, g.declSig(d))
			}
		}
	}
	return nil
}

// usesRecvField: the method assigns a field of its receiver.
func usesRecvField(d *ast.FuncDecl) bool {
	if len(d.Recv.List[0].Names) != 1 || d.Body == nil {
		return false
	}
	st := &ast.StructType{Fields: &ast.FieldList{}}
	_ = st
	r := d.Recv.List[0].Names[0].Name
	found := false
	ast.Inspect(d.Body, func(n ast.Node) bool {
		if as, ok := n.(*ast.AssignStmt); ok {
			for _, l := range as.Lhs {
				if sel, ok := l.(*ast.SelectorExpr); ok {
					if id, ok := sel.X.(*ast.Ident); ok && id.Name == r {
						found = true
					}
				}
			}
		}
		return true
	})
	return found
}

func (g *gx) iterPlan(x *ast.CallExpr, f *ast.SelectorExpr) *gplan {
	id, ok := f.X.(*ast.Ident)
	if !ok || !g.isLvalue(id) {
		g.fail(x, "iterator method on something that cannot be re-bound")
	}
	it := cname(id.Name)
	b8 := &ty{k: "int", w: 8}
	switch f.Sel.Name {
	case "NextByte":
		if len(x.Args) == 0 {
			return &gplan{head: "it_NextByte " + it, nres: 2, outs: []gout{{typ: gIter(), target: id}, {typ: b8}, {typ: gErr()}}}
		}
	case "NextBytes", "NextBytesNoCopy":
		if len(x.Args) == 1 {
			n := g.arg(x.Args[0], tInt, x)
			return &gplan{head: "it_" + f.Sel.Name + " " + it + " " + n, nres: 2, outs: []gout{{typ: gIter(), target: id}, {typ: tBytes}, {typ: gErr()}}}
		}
	case "Skip", "Seek":
		if len(x.Args) == 1 {
			n := g.arg(x.Args[0], tInt, x)
			return &gplan{pure: true, head: "it_" + f.Sel.Name + " " + it + " " + n, outs: []gout{{typ: gIter(), target: id}}}
		}
	case "Len", "Offset", "HasBytesLeft":
		return nil
	}
	g.fail(x, "unsupported iterator method %s", f.Sel.Name)
	return nil
}

// copy(dst, src) / copy(dst[lo:], src)
func (g *gx) copyPlan(x *ast.CallExpr) *gplan {
	dst := x.Args[0]
	lo := "0"
	if se, ok := dst.(*ast.SliceExpr); ok {
		if se.High != nil || se.Slice3 {
			g.fail(x, "copy into a slice expression with a high bound")
		}
		dst = se.X
		if se.Low != nil {
			lo = g.arg(se.Low, tInt, x)
		}
	}
	if !g.isLvalue(dst) {
		g.fail(x, "copy into something that cannot be re-bound")
	}
	ds, dt := g.ex(dst)
	ss, stt := g.ex(x.Args[1])
	if dt.k != "bytes" || stt.k != "bytes" {
		g.fail(x, "copy of something that is not a byte slice")
	}
	if lo != "0" {
		g.guard("(andb (0 <=? " + lo + ") (" + lo + " <=? " + glen(ds) + "))")
	}
	return &gplan{pure: true, head: "copy_at " + ds + " " + lo + " " + ss, nres: 1, outs: []gout{{typ: tBytes, target: dst}, {typ: tInt}}}
}

func gpat(vars []string) string {
	if len(vars) == 1 {
		return vars[0]
	}
	return "'(" + strings.Join(vars, ", ") + ")"
}

func gtup(vars []string) string {
	if len(vars) == 1 {
		return vars[0]
	}
	return "(" + strings.Join(vars, ", ") + ")"
}

func (g *gx) withGuards(gs []string, body string) string {
	var cs []string
	seen := map[string]bool{}
	for _, c := range gs {
		if c != "true" && !seen[c] {
			seen[c] = true
			cs = append(cs, c)
		}
	}
	if len(cs) == 0 {
		return body
	}
	c := cs[0]
	for _, d := range cs[1:] {
		c = "(andb " + c + " " + d + ")"
	}
	return "if " + c + " then\n  " + body + "\n  else Panicked"
}

// lvalueVar: the environment variable an lvalue re-binds.
func (g *gx) lvalueVar(e ast.Expr) (string, bool) {
	switch x := e.(type) {
	case *ast.Ident:
		return x.Name, true
	case *ast.SelectorExpr:
		if id, ok := x.X.(*ast.Ident); ok {
			if g.recv != "" && id.Name == g.recv {
				return g.recv + "_" + x.Sel.Name, true
			}
			if _, ok := g.exploded[id.Name]; ok {
				return id.Name + "_" + x.Sel.Name, true
			}
			if g.transp[id.Name] {
				return id.Name, true
			}
		}
	}
	return "", false
}

func (g *gx) touch(v string) { g.tlog = append(g.tlog, v) }

// bind emits `let lhs := term in` followed by rest(). define: `:=`.
func (g *gx) bind(lhs ast.Expr, tok token.Token, term string, typ *ty, n ast.Node, rest func() string) string {
	if id, ok := lhs.(*ast.Ident); ok && id.Name == "_" {
		return rest()
	}
	name, ok := g.lvalueVar(lhs)
	if !ok {
		// a field of a local record of Gen/Types.v
		if sel, ok := lhs.(*ast.SelectorExpr); ok {
			if id, ok := sel.X.(*ast.Ident); ok {
				if vt, ok := g.t.env[id.Name]; ok && (vt.k == "struct" || (vt.k == "opt" && vt.elem.k == "struct")) && !g.leaves[id.Name] {
					g.touch(id.Name)
					return g.t.assign(lhs, tok, term, typ, n) + rest()
				}
			}
		}
		g.fail(n, "unsupported assignment target")
	}
	if _, ex := g.exploded[name]; ex {
		g.fail(n, "assignment to %s as a whole", name)
	}
	if g.leaves[name] || g.sec.names[cname(name)] != "" || strings.HasSuffix(name, "_") && g.t.env[name] == nil {
		g.fail(n, "the variable %s clashes with a name of the generated file", name)
	}
	if _, clash := g.sec.names[cname(name)]; clash {
		g.fail(n, "the variable %s clashes with a section variable", name)
	}
	cur, exists := g.t.env[name]
	if exists && tok != token.DEFINE {
		switch {
		case sameTy(cur, typ):
		case cur.k == "opt" && sameTy(cur.elem, typ):
			term, typ = "(Some "+term+")", cur
		case typ.k == "opt" && sameTy(typ.elem, cur) && tok == token.ASSIGN:
			// a possibly nil pointer stored where the translated functions never test for nil: the use would panic
			v := g.tmp("nn")
			g.touch(name)
			inner := g.t.assign(&ast.Ident{Name: name, NamePos: n.Pos()}, tok, v, cur, n)
			return "match " + term + " with\n  | Some " + v + " => " + inner + rest() + "\n  | None => Panicked\n  end"
		default:
			g.fail(n, "assignment of a value of type %s to %s of type %s", typ.coq(), name, cur.coq())
		}
	}
	if typ.k == "untyped" {
		typ = tInt
	}
	g.touch(name)
	if strings.HasPrefix(typ.name, "transparent:") {
		g.transp[name] = true
	}
	return g.t.assign(&ast.Ident{Name: name, NamePos: n.Pos()}, tok, term, typ, n) + rest()
}

// effect emits a planned call whose Go results go to lhs (nil: discarded).
func (g *gx) effect(pl *gplan, lhs []ast.Expr, tok token.Token, n ast.Node, gs []string, rest func() string) string {
	if pl == gNoopPlan {
		return g.withGuards(gs, rest())
	}
	if lhs != nil && len(lhs) != pl.nres {
		g.fail(n, "assignment of %d results to %d targets", pl.nres, len(lhs))
	}
	first := len(pl.outs) - pl.nres
	for i := range lhs {
		pl.outs[first+i].target = lhs[i]
	}
	var names []string
	type post struct {
		lhs  ast.Expr
		term string
		typ  *ty
		tok  token.Token
	}
	var posts []post
	taken := map[string]bool{}
	for i, o := range pl.outs {
		if o.target == nil {
			names = append(names, "_")
			continue
		}
		if id, ok := o.target.(*ast.Ident); ok && id.Name == "_" {
			names = append(names, "_")
			continue
		}
		t := tok
		if i < first {
			t = token.ASSIGN
		}
		// bind the variable itself where nothing has to be converted
		if name, ok := g.lvalueVar(o.target); ok && !o.some && (t == token.ASSIGN || t == token.DEFINE) && !taken[name] {
			_, ex := g.exploded[name]
			cur, exists := g.t.env[name]
			_, clash := g.sec.names[cname(name)]
			if !ex && !clash && !g.leaves[name] && !(strings.HasSuffix(name, "_") && !exists) &&
				((exists && sameTy(cur, o.typ)) || (t == token.DEFINE && o.typ.k != "untyped")) {
				taken[name] = true
				names = append(names, cname(name))
				g.t.bind(name, o.typ, o.target.Pos())
				g.touch(name)
				if strings.HasPrefix(o.typ.name, "transparent:") {
					g.transp[name] = true
				}
				continue
			}
		}
		v := g.tmp("r")
		names = append(names, v)
		term, typ := v, o.typ
		if o.some {
			term, typ = "(Some "+v+")", gOpt(o.typ)
		}
		posts = append(posts, post{o.target, term, typ, t})
	}
	if pl.world {
		names = append(names, "w_")
		g.touch("w_")
	}
	var cont func(i int) string
	cont = func(i int) string {
		if i == len(posts) {
			return rest()
		}
		p := posts[i]
		return g.bind(p.lhs, p.tok, p.term, p.typ, n, func() string { return cont(i + 1) })
	}
	var text string
	if pl.pure {
		text = "let " + gpat(names) + " := " + pl.head + " in\n  " + cont(0)
	} else {
		text = "obind (" + pl.head + ") (fun " + gpat(names) + " =>\n  " + cont(0) + ")"
	}
	if pl.wrap != nil {
		text = pl.wrap(text)
	}
	return g.withGuards(gs, text)
}

// ---------- statements ----------

type gsnap struct {
	env      map[string]*ty
	nonNil   map[string]bool
	exploded map[string]string
	transp   map[string]bool
	leaves   map[string]bool
	ntmp     int
	defers   [][]ast.Stmt
}

func copyBools(m map[string]bool) map[string]bool {
	c := map[string]bool{}
	for k, v := range m {
		c[k] = v
	}
	return c
}

func (g *gx) snapshot() gsnap {
	ex := map[string]string{}
	for k, v := range g.exploded {
		ex[k] = v
	}
	return gsnap{g.t.copyEnv(), copyBools(g.nonNil), ex, copyBools(g.transp), copyBools(g.leaves), g.ntmp, append([][]ast.Stmt{}, g.defers...)}
}

func (g *gx) restore(s gsnap) {
	g.t.env = g.t.copyEnvFrom(s.env)
	g.nonNil = copyBools(s.nonNil)
	g.exploded = map[string]string{}
	for k, v := range s.exploded {
		g.exploded[k] = v
	}
	g.transp = copyBools(s.transp)
	g.leaves = copyBools(s.leaves)
	g.defers = append([][]ast.Stmt{}, s.defers...)
}

// dgHasJump: the statements cannot be translated as a value-returning block (they leave it, loop, or register a defer).
func dgHasJump(list []ast.Stmt) bool {
	found := false
	for _, s := range list {
		ast.Inspect(s, func(n ast.Node) bool {
			switch x := n.(type) {
			case *ast.FuncLit:
				return false
			case *ast.ReturnStmt, *ast.BranchStmt, *ast.DeferStmt, *ast.ForStmt, *ast.GoStmt, *ast.SelectStmt, *ast.LabeledStmt:
				found = true
			case *ast.RangeStmt:
				if dgHasJump(x.Body.List) {
					found = true
				}
				return false
			}
			return true
		})
	}
	return found
}

func (g *gx) envVars() []string {
	var out []string
	for v := range g.t.env {
		if !g.leaves[v] {
			out = append(out, v)
		}
	}
	g.t.sortDecl(out) // fields, fuel, world, then parameters and locals where they are declared
	return out
}

func (g *gx) stmts(list []ast.Stmt, k func() string) string {
	if len(list) == 0 {
		return k()
	}
	rest := func() string { return g.stmts(list[1:], k) }
	switch st := list[0].(type) {
	case *ast.ReturnStmt:
		return g.ret(st)
	case *ast.EmptyStmt:
		return rest()
	case *ast.BlockStmt:
		return g.stmts(append(append([]ast.Stmt{}, st.List...), list[1:]...), k)
	case *ast.DeclStmt:
		return g.declStmt(st, rest)
	case *ast.IncDecStmt:
		tok := token.ADD_ASSIGN
		if st.Tok == token.DEC {
			tok = token.SUB_ASSIGN
		}
		return g.bind(st.X, tok, "1", tUntyped, st, rest)
	case *ast.ExprStmt:
		c, ok := st.X.(*ast.CallExpr)
		if !ok {
			g.fail(st, "unsupported expression statement")
		}
		g.take()
		pl := g.plan(c)
		gs := g.take()
		if pl == nil {
			g.fail(st, "call statement of a function without modelled effect")
		}
		return g.effect(pl, nil, token.ASSIGN, st, gs, rest)
	case *ast.AssignStmt:
		return g.assignStmt(st, rest)
	case *ast.IfStmt:
		return g.ifStmt(st, list, k)
	case *ast.ForStmt:
		return g.forStmt(st, list, k)
	case *ast.RangeStmt:
		return g.rangeStmt(st, list, k)
	case *ast.BranchStmt:
		if st.Label != nil {
			g.fail(st, "labelled break / continue")
		}
		switch st.Tok {
		case token.BREAK:
			if g.kBreak == nil {
				g.fail(st, "break outside a loop")
			}
			return g.kBreak()
		case token.CONTINUE:
			if g.kCont == nil {
				g.fail(st, "continue outside a loop")
			}
			return g.kCont()
		}
		g.fail(st, "unsupported branch statement")
	case *ast.DeferStmt:
		return g.deferStmt(st, rest)
	case *ast.SwitchStmt:
		// switch tag { case a, b: ... } as an if / else-if chain (the tag is an expression without effects; a break
		// anywhere inside would leave the switch in Go but the loop in the chain: refused)
		if st.Init != nil {
			g.fail(st, "switch with init")
		}
		ast.Inspect(st.Body, func(n ast.Node) bool {
			if b, ok := n.(*ast.BranchStmt); ok && b.Tok != token.CONTINUE {
				g.fail(b, "break / goto / fallthrough inside a switch")
			}
			return true
		})
		return g.stmts(append([]ast.Stmt{g.t.switchToIf(st)}, list[1:]...), k)
	}
	g.fail(list[0], "unsupported statement %T", list[0])
	return ""
}

func (g *gx) declStmt(st *ast.DeclStmt, rest func() string) string {
	gd, ok := st.Decl.(*ast.GenDecl)
	if !ok || (gd.Tok != token.VAR && gd.Tok != token.CONST) {
		g.fail(st, "unsupported declaration")
	}
	type one struct {
		id   *ast.Ident
		term string
		typ  *ty
	}
	var all []one
	g.take()
	for _, sp := range gd.Specs {
		vs, ok := sp.(*ast.ValueSpec)
		if !ok {
			g.fail(st, "unsupported declaration")
		}
		for i, id := range vs.Names {
			var typ *ty
			if vs.Type != nil {
				typ = g.gotype(vs.Type, false)
			}
			var val string
			if i < len(vs.Values) {
				if c, ok := vs.Values[i].(*ast.CallExpr); ok && g.plan(c) != nil {
					g.fail(st, "declaration initialised by a call with effects")
				}
				if isNil(vs.Values[i]) {
					if typ == nil {
						g.fail(st, "nil without a type")
					}
					val, _ = gZero(typ)
				} else {
					v, vt := g.ex(vs.Values[i])
					if typ == nil {
						typ = vt
					} else if typ.k == "opt" && sameTy(typ.elem, vt) {
						v = "(Some " + v + ")"
					} else if !sameTy(typ, vt) {
						g.fail(st, "initialiser of another type")
					}
					val = v
				}
			} else {
				if typ == nil {
					g.fail(st, "declaration without type")
				}
				z, ok := gZero(typ)
				if !ok {
					g.fail(st, "declaration of a variable of type %s without an initial value", typ.coq())
				}
				val = z
			}
			all = append(all, one{id, val, typ})
		}
	}
	gs := g.take()
	var cont func(i int) string
	cont = func(i int) string {
		if i == len(all) {
			return rest()
		}
		return g.bind(all[i].id, token.DEFINE, all[i].term, all[i].typ, st, func() string { return cont(i + 1) })
	}
	return g.withGuards(gs, cont(0))
}

func (g *gx) assignStmt(st *ast.AssignStmt, rest func() string) string {
	g.take()
	if len(st.Rhs) == 1 {
		switch r := st.Rhs[0].(type) {
		case *ast.CallExpr:
			if pl := g.plan(r); pl != nil {
				gs := g.take()
				return g.effect(pl, st.Lhs, st.Tok, st, gs, rest)
			}
			g.take()
		case *ast.TypeAssertExpr:
			if len(st.Lhs) == 2 && st.Tok == token.DEFINE {
				return g.typeAssert(st, r, rest)
			}
		}
	}
	if len(st.Lhs) != len(st.Rhs) {
		g.fail(st, "assignment of several results of something that is not a call with effects")
	}
	if len(st.Lhs) > 1 {
		// all right-hand sides are evaluated first
		for _, r := range st.Rhs {
			if !isNil(r) {
				if _, ok := r.(*ast.BasicLit); !ok {
					if id, ok := r.(*ast.Ident); !ok || (id.Name != "true" && id.Name != "false") {
						g.fail(st, "parallel assignment of something that is not a literal")
					}
				}
			}
		}
	}
	var cont func(i int) string
	cont = func(i int) string {
		if i == len(st.Lhs) {
			return rest()
		}
		return g.assign1(st.Lhs[i], st.Tok, st.Rhs[i], st, func() string { return cont(i + 1) })
	}
	return cont(0)
}

func (g *gx) assign1(lhs ast.Expr, tok token.Token, rhs ast.Expr, n ast.Node, rest func() string) string {
	if _, isIdx := lhs.(*ast.IndexExpr); isIdx {
		g.fail(n, "assignment to an element of a slice or map")
	}
	// p = &S{...} for a record of the section: the local becomes its fields
	if id, ok := lhs.(*ast.Ident); ok {
		if u, ok := rhs.(*ast.UnaryExpr); ok && u.Op == token.AND {
			if cl, ok := u.X.(*ast.CompositeLit); ok {
				if t, ok := cl.Type.(*ast.Ident); ok && g.sec.records[t.Name] {
					return g.explode(id, t.Name, cl, n, rest)
				}
			}
		}
	}
	g.take()
	if isNil(rhs) {
		name, ok := g.lvalueVar(lhs)
		if !ok {
			g.fail(n, "nil assigned to an unsupported target")
		}
		if sn, ok := g.exploded[name]; ok {
			_ = sn
			g.nonNil[name] = false
			g.touch(name)
			return rest()
		}
		typ, ok := g.t.env[name]
		if !ok || tok != token.ASSIGN {
			g.fail(n, "nil assigned to something whose type is not known")
		}
		z, ok := gZero(typ)
		if !ok || !(typ.k == "opt" || isSliceTy(typ) || isErrTy(typ)) {
			g.fail(n, "nil assigned to a value of type %s", typ.coq())
		}
		return g.bind(lhs, tok, z, typ, n, rest)
	}
	if c, ok := rhs.(*ast.CallExpr); ok {
		if id, ok := c.Fun.(*ast.Ident); ok && id.Name == "append" {
			// only x = append(x, ...): no other name of the array can observe the write
			if name, ok := g.lvalueVar(lhs); !ok || len(c.Args) == 0 || !g.isLvalue(c.Args[0]) {
				g.fail(n, "append whose result does not replace its first argument")
			} else if a, _ := g.lvalueVar(c.Args[0]); a != name {
				g.fail(n, "append whose result does not replace its first argument")
			}
		}
	}
	if se, ok := rhs.(*ast.SliceExpr); ok {
		// x = x[lo:] drops a prefix; cutting a slice shorter and appending to it later overwrites what other names see
		if se.High != nil {
			g.fail(n, "a slice cut at its end is kept: a later append would overwrite the array")
		}
	}
	v, vt := g.ex(rhs)
	gs := g.take()
	return g.withGuards(gs, g.bind(lhs, tok, v, vt, n, rest))
}

func (g *gx) explode(id *ast.Ident, sname string, cl *ast.CompositeLit, n ast.Node, rest func() string) string {
	if cur, ok := g.exploded[id.Name]; !ok || cur != sname {
		g.fail(n, "%s is not a local pointer to %s", id.Name, sname)
	}
	vals := map[string]ast.Expr{}
	for _, el := range cl.Elts {
		kv, ok := el.(*ast.KeyValueExpr)
		if !ok {
			g.fail(n, "unkeyed composite literal")
		}
		vals[kv.Key.(*ast.Ident).Name] = kv.Value
	}
	type one struct {
		name string
		term string
		typ  *ty
	}
	var all []one
	g.take()
	for _, f := range g.p.structs[sname].Fields.List {
		for _, fid := range f.Names {
			ft := g.gotype(f.Type, false)
			var term string
			if v, ok := vals[fid.Name]; ok && !isNil(v) {
				term = g.arg(v, ft, n)
			} else {
				z, ok := gZero(ft)
				if !ok {
					g.fail(n, "field %s has no zero value in the model", fid.Name)
				}
				term = z
			}
			all = append(all, one{id.Name + "_" + fid.Name, term, ft})
		}
	}
	gs := g.take()
	out := ""
	for i, o := range all {
		// evaluate all field values before any field variable is re-bound
		out += "let " + fmt.Sprintf("new_%d_", i) + " := " + o.term + " in\n  "
	}
	for i, o := range all {
		g.t.bind(o.name, o.typ, token.NoPos)
		g.touch(o.name)
		out += "let " + cname(o.name) + " := " + fmt.Sprintf("new_%d_", i) + " in\n  "
	}
	g.nonNil[id.Name] = true
	g.touch(id.Name)
	return g.withGuards(gs, out+rest())
}

// v, ok := x.(T): an abstract view of the dynamic type (a Section Variable as_T : X -> option T)
func (g *gx) typeAssert(st *ast.AssignStmt, ta *ast.TypeAssertExpr, rest func() string) string {
	if ta.Type == nil {
		g.fail(st, "type switch")
	}
	xs, xt := g.ex(ta.X)
	gs := g.take()
	if !isAbsTy(xt) {
		g.fail(st, "type assertion on a value that is not an abstract interface value")
	}
	tt := g.gotype(ta.Type, false)
	if tt.k == "opt" {
		tt = tt.elem
	}
	if !isAbsTy(tt) {
		g.fail(st, "type assertion to a type that is not abstract")
	}
	op := "as_" + absName(tt)
	g.sec.declare(op, absName(xt)+" -> option "+absName(tt), st, g)
	v := g.tmp("as")
	return g.withGuards(gs, "let "+v+" := "+op+" "+xs+" in\n  "+
		g.bind(st.Lhs[0], token.DEFINE, v, gOpt(tt), st, func() string {
			return g.bind(st.Lhs[1], token.DEFINE, "(is_some "+v+")", tBool, st, rest)
		}))
}

func (g *gx) deferStmt(st *ast.DeferStmt, rest func() string) string {
	if g.depth > 0 || g.inDefer {
		g.fail(st, "defer inside a loop or a deferred function")
	}
	if fl, ok := st.Call.Fun.(*ast.FuncLit); ok {
		if len(st.Call.Args) != 0 || len(fl.Type.Params.List) != 0 || fl.Type.Results != nil {
			g.fail(st, "deferred closure with parameters or results")
		}
		ast.Inspect(fl.Body, func(n ast.Node) bool {
			switch n.(type) {
			case *ast.ReturnStmt, *ast.DeferStmt, *ast.ForStmt, *ast.RangeStmt, *ast.FuncLit:
				g.fail(st, "return / defer / loop inside a deferred closure")
			}
			if c, ok := n.(*ast.CallExpr); ok {
				if id, ok := c.Fun.(*ast.Ident); ok && (id.Name == "recover" || id.Name == "panic") {
					g.fail(st, "recover / panic inside a deferred closure")
				}
			}
			return true
		})
		g.defers = append(g.defers, fl.Body.List)
		out := rest()
		g.defers = g.defers[:len(g.defers)-1]
		return out
	}
	g.take()
	pl := g.plan(st.Call)
	g.take()
	if pl == gNoopPlan {
		return rest()
	}
	g.fail(st, "defer of a call with effects that is not a closure")
	return ""
}

// sliceNilIdiom: `x == nil || len(x) != e` guarding `x = make([]T, e)`: with x nil both sides give a fresh slice of
// length e (as lists: the same), so the nil test adds nothing the model can see.
func (g *gx) sliceNilIdiom(st *ast.IfStmt) ast.Expr {
	b, ok := st.Cond.(*ast.BinaryExpr)
	if !ok || b.Op != token.LOR || st.Else != nil || len(st.Body.List) != 1 {
		return nil
	}
	l, ok := b.X.(*ast.BinaryExpr)
	if !ok || l.Op != token.EQL || !isNil(l.Y) || !g.isLvalue(l.X) {
		return nil
	}
	saved := g.take()
	_, lt := g.ex(l.X)
	g.guards = saved
	if !isSliceTy(lt) {
		return nil
	}
	r, ok := b.Y.(*ast.BinaryExpr)
	if !ok || r.Op != token.NEQ {
		return nil
	}
	ln, ok := r.X.(*ast.CallExpr)
	if !ok || len(ln.Args) != 1 || fmt.Sprint(ln.Fun) != "len" || gsrc(ln.Args[0]) != gsrc(l.X) {
		return nil
	}
	as, ok := st.Body.List[0].(*ast.AssignStmt)
	if !ok || len(as.Lhs) != 1 || len(as.Rhs) != 1 || as.Tok != token.ASSIGN || gsrc(as.Lhs[0]) != gsrc(l.X) {
		return nil
	}
	mk, ok := as.Rhs[0].(*ast.CallExpr)
	if !ok || fmt.Sprint(mk.Fun) != "make" || len(mk.Args) != 2 || gsrc(mk.Args[1]) != gsrc(r.Y) {
		return nil
	}
	return r
}

// gsrc: a canonical text of a small expression (identifiers, selectors)
func gsrc(e ast.Expr) string {
	switch x := e.(type) {
	case *ast.Ident:
		return x.Name
	case *ast.SelectorExpr:
		return gsrc(x.X) + "." + x.Sel.Name
	case *ast.ParenExpr:
		return gsrc(x.X)
	case *ast.BasicLit:
		return x.Value
	}
	return fmt.Sprintf("?%p", e)
}

func (g *gx) ifStmt(st *ast.IfStmt, list []ast.Stmt, k func() string) string {
	if st.Init != nil {
		st2 := *st
		st2.Init = nil
		return g.stmts(append([]ast.Stmt{st.Init, &st2}, list[1:]...), k)
	}
	cond := st.Cond
	if r := g.sliceNilIdiom(st); r != nil {
		cond = r
	}
	g.take()
	c, ct := g.ex(cond)
	gs := g.take()
	if ct.k != "bool" {
		g.fail(st, "condition that is not a boolean")
	}
	el := elseList(st)
	after := func() string { return g.stmts(list[1:], k) }
	if dgHasJump(st.Body.List) || dgHasJump(el) {
		saved := g.snapshot()
		th := g.stmts(st.Body.List, after)
		g.restore(saved)
		e2 := g.stmts(el, after)
		g.restore(saved)
		return g.withGuards(gs, "if "+c+" then\n  "+th+"\n  else\n  "+e2)
	}
	// no jump inside: the branches compute the variables they change
	saved := g.snapshot()
	mark := len(g.tlog)
	scratch := []string{}
	defs := g.loopDefs
	g.loopDefs = &scratch
	g.stmts(st.Body.List, func() string { return "" })
	g.restore(saved)
	g.stmts(el, func() string { return "" })
	g.restore(saved)
	g.loopDefs = defs
	vars := g.changed(mark, saved.env)
	g.tlog = g.tlog[:mark]
	g.ntmp = saved.ntmp
	done := func() string { return "Done " + gtup(dgCnames(vars)) }
	if len(vars) == 0 {
		done = func() string { return "Done tt" }
	}
	th := g.stmts(st.Body.List, done)
	g.restore(saved)
	e2 := g.stmts(el, done)
	g.restore(saved)
	for _, v := range vars {
		g.touch(v)
	}
	pat := "_"
	if len(vars) > 0 {
		pat = gpat(dgCnames(vars))
	}
	return g.withGuards(gs, "obind (if "+c+" then\n  "+th+"\n  else\n  "+e2+") (fun "+pat+" =>\n  "+after()+")")
}

func dgCnames(vs []string) []string {
	var out []string
	for _, v := range vs {
		out = append(out, cname(v))
	}
	return out
}

// changed: the variables of env re-bound since mark, sorted.
func (g *gx) changed(mark int, env map[string]*ty) []string {
	set := map[string]bool{}
	for _, v := range g.tlog[mark:] {
		if _, ok := env[v]; ok {
			set[v] = true
		}
	}
	var out []string
	for v := range set {
		out = append(out, v)
	}
	g.t.sortDecl(out)
	return out
}

func (g *gx) binders(vars []string) (string, string) {
	var bs, as []string
	for _, v := range vars {
		bs = append(bs, fmt.Sprintf("(%s : %s)", cname(v), g.t.env[v].coq()))
		as = append(as, cname(v))
	}
	return strings.Join(bs, " "), strings.Join(as, " ")
}

// outside runs f with the jump targets of the statements AFTER a loop: those of the enclosing context, or, for a
// loop inside a loop, none (falling back into the outer loop from inside the inner Fixpoint is not translated).
func (g *gx) outside(depth int, kb, kc func() string, n ast.Node, f func() string) string {
	sd, sb, sc := g.depth, g.kBreak, g.kCont
	g.depth, g.kBreak, g.kCont = depth, kb, kc
	if depth > 0 {
		bad := func() string {
			g.fail(n, "the statements after a nested loop fall back into the enclosing loop")
			return ""
		}
		g.kBreak, g.kCont = bad, bad
	}
	out := f()
	g.depth, g.kBreak, g.kCont = sd, sb, sc
	return out
}

func (g *gx) forStmt(st *ast.ForStmt, list []ast.Stmt, k func() string) string {
	if st.Init != nil || st.Post != nil {
		g.fail(st, "for loop with an init or post statement")
	}
	if g.inDefer {
		g.fail(st, "loop inside a deferred closure")
	}
	g.nloop++
	name := fmt.Sprintf("%s_loop%d", g.info.cname, g.nloop)
	fi, ok := g.fuelOf[st]
	if !ok {
		g.fail(st, "internal: loop without fuel")
	}
	fuel := fmt.Sprintf("fuel_%d", fi)
	vars := g.envVars()
	bs, as := g.binders(vars)
	call := func(f string) string { return "(" + name + " " + f + " " + as + ")" }
	depth, kb, kc := g.depth, g.kBreak, g.kCont
	kk := k
	if depth > 0 {
		kk = func() string {
			g.fail(st, "the statements after a nested loop fall back into the enclosing loop")
			return ""
		}
	}
	after := func() string {
		saved := g.snapshot()
		out := g.outside(depth, kb, kc, st, func() string { return g.stmts(list[1:], kk) })
		g.restore(saved)
		return out
	}
	saved := g.snapshot()
	g.depth++
	g.kBreak = after
	g.kCont = func() string { return call("fuel_") }
	var text string
	if st.Cond != nil {
		g.take()
		c, _ := g.ex(st.Cond)
		gs := g.take()
		body := g.stmts(st.Body.List, g.kCont)
		g.restore(saved)
		text = g.withGuards(gs, "if "+c+" then\n  "+body+"\n  else\n  "+after())
	} else {
		text = g.stmts(st.Body.List, g.kCont)
	}
	g.depth, g.kBreak, g.kCont = depth, kb, kc
	g.restore(saved)
	def := fmt.Sprintf("Fixpoint %s (fuel_ : nat) %s {struct fuel_} : %s :=\n  match fuel_ with\n  | O => OutOfFuel\n  | S fuel_ =>\n  %s\n  end.\n\n",
		name, bs, g.retCoq, text)
	*g.loopDefs = append(*g.loopDefs, def)
	return call(fuel)
}

func (g *gx) rangeStmt(st *ast.RangeStmt, list []ast.Stmt, k func() string) string {
	if g.inDefer {
		g.fail(st, "loop inside a deferred closure")
	}
	if st.Tok != token.DEFINE {
		g.fail(st, "range assigning to existing variables")
	}
	g.take()
	xs, xt := g.ex(st.X)
	gs := g.take()
	var et *ty
	switch xt.k {
	case "bytes":
		et = &ty{k: "int", w: 8}
	case "list":
		et = xt.elem
	default:
		g.fail(st, "range over something that is not a slice")
	}
	key, elem := "", "_"
	if st.Key != nil {
		if id, ok := st.Key.(*ast.Ident); ok && id.Name != "_" {
			key = id.Name
		}
	}
	if st.Value != nil {
		if id, ok := st.Value.(*ast.Ident); ok && id.Name != "_" {
			elem = id.Name
		}
	}
	for _, v := range []string{key, elem} {
		if v == "" || v == "_" {
			continue
		}
		if _, clash := g.t.env[v]; clash {
			g.fail(st, "internal: loop variable %s not unique", v)
		}
	}
	if !dgHasJump(st.Body.List) {
		if key != "" {
			g.fail(st, "range with an index variable and no jump")
		}
		// a fold: the body computes the variables it changes
		saved := g.snapshot()
		mark := len(g.tlog)
		scratch := []string{}
		defs := g.loopDefs
		g.loopDefs = &scratch
		if elem != "_" {
			g.t.bind(elem, et, st.Value.Pos())
		}
		g.depth++
		g.stmts(st.Body.List, func() string { return "" })
		g.depth--
		g.restore(saved)
		g.loopDefs = defs
		vars := g.changed(mark, saved.env)
		g.tlog = g.tlog[:mark]
		g.ntmp = saved.ntmp
		if len(vars) == 0 {
			g.fail(st, "loop without effect")
		}
		if elem != "_" {
			g.t.bind(elem, et, st.Value.Pos())
		}
		sb, sc := g.kBreak, g.kCont
		g.kBreak, g.kCont = nil, nil
		g.depth++
		body := g.stmts(st.Body.List, func() string { return "Done " + gtup(dgCnames(vars)) })
		g.depth--
		g.kBreak, g.kCont = sb, sc
		g.restore(saved)
		for _, v := range vars {
			g.touch(v)
		}
		pat := gpat(dgCnames(vars))
		return g.withGuards(gs, "obind (ofold (fun "+pat+" ("+cname(elem)+" : "+et.coq()+") =>\n  "+body+") "+xs+" "+gtup(dgCnames(vars))+") (fun "+pat+" =>\n  "+g.stmts(list[1:], k)+")")
	}
	// a structural Fixpoint; the statements after the loop are its nil case
	g.nloop++
	name := fmt.Sprintf("%s_loop%d", g.info.cname, g.nloop)
	vars := g.envVars()
	bs, as := g.binders(vars)
	idx := ""
	if key != "" {
		idx = "(idx_ : Z) "
	}
	call := func(l, i string) string {
		if key != "" {
			return "(" + name + " " + l + " " + i + " " + as + ")"
		}
		return "(" + name + " " + l + " " + as + ")"
	}
	depth, kb, kc := g.depth, g.kBreak, g.kCont
	kk := k
	if depth > 0 {
		kk = func() string {
			g.fail(st, "the statements after a nested loop fall back into the enclosing loop")
			return ""
		}
	}
	after := func() string {
		saved := g.snapshot()
		out := g.outside(depth, kb, kc, st, func() string { return g.stmts(list[1:], kk) })
		g.restore(saved)
		return out
	}
	saved := g.snapshot()
	g.depth++
	g.kBreak = after
	g.kCont = func() string { return call("rest_", "(idx_ + 1)") }
	pre := ""
	if elem != "_" {
		g.t.bind(elem, et, st.Value.Pos())
	}
	if key != "" {
		g.t.bind(key, tInt, st.Key.Pos())
		pre = "let " + cname(key) + " := idx_ in\n  "
	}
	body := g.stmts(st.Body.List, g.kCont)
	g.depth, g.kBreak, g.kCont = depth, kb, kc
	g.restore(saved)
	nilCase := after()
	def := fmt.Sprintf("Fixpoint %s (l_ : list %s) %s%s {struct l_} : %s :=\n  match l_ with\n  | [] =>\n  %s\n  | %s :: rest_ =>\n  %s%s\n  end.\n\n",
		name, et.coq(), idx, bs, g.retCoq, nilCase, cname(elem), pre, body)
	*g.loopDefs = append(*g.loopDefs, def)
	return g.withGuards(gs, call(xs, "0"))
}

// ---------- returns ----------

func (g *gx) resultVars() []string {
	var out []string
	for _, m := range g.info.mut {
		out = append(out, cname(g.recv+"_"+m))
	}
	for _, i := range g.info.outPar {
		out = append(out, cname(g.info.pnames[i]))
	}
	return out
}

// finish runs the deferred closures (last registered first) and returns.
func (g *gx) finish(res func() []string) string {
	var run func(i int) string
	run = func(i int) string {
		if i < 0 {
			return "Done " + gtup(append(append(g.resultVars(), res()...), "w_"))
		}
		body := g.defers[i]
		saved := g.defers
		g.defers = nil
		g.inDefer = true
		kb, kc := g.kBreak, g.kCont
		g.kBreak, g.kCont = nil, nil
		out := g.stmts(body, func() string {
			g.inDefer = false
			g.defers = saved
			return run(i - 1)
		})
		g.kBreak, g.kCont = kb, kc
		g.inDefer = false
		g.defers = saved
		return out
	}
	return run(len(g.defers) - 1)
}

func (g *gx) namedRes() []string {
	var out []string
	for _, n := range g.named {
		if _, ex := g.exploded[n]; ex {
			if g.nonNil[n] {
				v, _ := g.recordValue(g.d, n)
				out = append(out, "(Some "+v+")")
			} else {
				out = append(out, "None")
			}
			continue
		}
		out = append(out, cname(n))
	}
	return out
}

func (g *gx) ret(st *ast.ReturnStmt) string {
	if g.inDefer {
		g.fail(st, "return inside a deferred closure")
	}
	if len(st.Results) == 0 {
		if len(g.info.results) != len(g.named) {
			g.fail(st, "bare return without named results")
		}
		return g.finish(g.namedRes)
	}
	if len(st.Results) != len(g.info.results) {
		g.fail(st, "return of a call with several results")
	}
	if len(g.named) > 0 {
		// assign the named results, then run the deferred closures
		for i, r := range st.Results {
			for _, nm := range g.named[:i] {
				if mentionsIdent([]ast.Stmt{&ast.ExprStmt{X: r}}, nm) {
					g.fail(st, "a returned expression mentions a named result")
				}
			}
			if c, ok := r.(*ast.CallExpr); ok && g.plan(c) != nil {
				g.fail(st, "return of a call with effects")
			}
		}
		g.take()
		var cont func(i int) string
		cont = func(i int) string {
			if i == len(st.Results) {
				return g.finish(g.namedRes)
			}
			id := &ast.Ident{Name: g.named[i], NamePos: st.Pos()}
			return g.assign1(id, token.ASSIGN, st.Results[i], st, func() string { return cont(i + 1) })
		}
		return cont(0)
	}
	g.take()
	var terms []string
	for i, r := range st.Results {
		if c, ok := r.(*ast.CallExpr); ok && g.plan(c) != nil {
			g.fail(st, "return of a call with effects")
		}
		terms = append(terms, g.arg(r, g.info.results[i], st))
	}
	gs := g.take()
	return g.withGuards(gs, g.finish(func() []string { return terms }))
}

// ---------- functions ----------

// uniquify renames every local variable whose name is already taken in the function (shadowing, the scope of an
// if / for init), so that one Go name is one variable; identifiers are matched by the parser's object resolution.
func uniquify(d *ast.FuncDecl) {
	used := map[string]bool{}
	add := func(fl *ast.FieldList) {
		if fl == nil {
			return
		}
		for _, f := range fl.List {
			for _, id := range f.Names {
				used[id.Name] = true
			}
		}
	}
	add(d.Recv)
	add(d.Type.Params)
	add(d.Type.Results)
	rename := map[*ast.Object]string{}
	ast.Inspect(d.Body, func(n ast.Node) bool {
		id, ok := n.(*ast.Ident)
		if !ok || id.Obj == nil || id.Obj.Kind != ast.Var || id.Name == "_" {
			return true
		}
		if nn, ok := rename[id.Obj]; ok {
			id.Name = nn
			return true
		}
		if id.Obj.Pos() == id.Pos() {
			if used[id.Name] {
				for i := 2; ; i++ {
					nn := fmt.Sprintf("%s_%d", id.Name, i)
					if !used[nn] {
						rename[id.Obj] = nn
						used[nn] = true
						id.Name = nn
						break
					}
				}
			} else {
				used[id.Name] = true
			}
		}
		return true
	})
}

var gUniq = map[*ast.FuncDecl]bool{}

func (s *gsec) scanNilable(d *ast.FuncDecl) {
	if d.Recv == nil || len(d.Recv.List[0].Names) != 1 {
		return
	}
	r := d.Recv.List[0].Names[0].Name
	sn := recvName(d.Recv.List[0].Type)
	field := func(e ast.Expr) (string, bool) {
		if sel, ok := e.(*ast.SelectorExpr); ok {
			if id, ok := sel.X.(*ast.Ident); ok && id.Name == r {
				return sn + "." + sel.Sel.Name, true
			}
		}
		return "", false
	}
	ast.Inspect(d.Body, func(n ast.Node) bool {
		switch x := n.(type) {
		case *ast.BinaryExpr:
			if x.Op == token.EQL || x.Op == token.NEQ {
				if f, ok := field(x.X); ok && isNil(x.Y) {
					s.nilable[f] = true
				}
				if f, ok := field(x.Y); ok && isNil(x.X) {
					s.nilable[f] = true
				}
			}
		case *ast.AssignStmt:
			if len(x.Lhs) == len(x.Rhs) {
				for i, l := range x.Lhs {
					if f, ok := field(l); ok && isNil(x.Rhs[i]) {
						s.nilable[f] = true
					}
				}
			}
		}
		return true
	})
}

func (s *gsec) translate(key string, mut []string, outPar []int, emit bool) (text string, g *gx) {
	d := s.p.funcs[key]
	var loops []string
	t := &tr{p: s.p, fn: key, env: map[string]*ty{}, optPar: map[string]bool{}, loops: &loops}
	info := &gfuncInfo{key: key, cname: strings.ReplaceAll(key, ".", "_"), mut: mut, outPar: outPar}
	g = &gx{p: s.p, sec: s, t: t, d: d, info: info, leaves: map[string]bool{}, loopDefs: &loops, nonNil: map[string]bool{},
		exploded: map[string]string{}, transp: map[string]bool{}, fuelOf: map[*ast.ForStmt]int{}}
	if d.Body == nil {
		g.fail(d, "function without body")
	}
	reserve := func(name string, n ast.Node) {
		if _, clash := s.names[cname(name)]; clash || strings.HasSuffix(name, "_") {
			g.fail(n, "the name %s clashes with a name of the generated file", name)
		}
		if _, clash := t.env[name]; clash {
			g.fail(n, "the name %s is used twice", name)
		}
	}
	var params []string
	if d.Recv != nil {
		f := d.Recv.List[0]
		if len(f.Names) != 1 {
			g.fail(d, "receiver without a name")
		}
		g.recv = f.Names[0].Name
		info.recv = recvName(f.Type)
		st, ok := s.p.structs[info.recv]
		if !ok {
			g.fail(d, "receiver %s is not a struct", info.recv)
		}
		for _, fl := range st.Fields.List {
			if len(fl.Names) == 0 {
				g.fail(d, "embedded field in %s", info.recv)
			}
			for _, id := range fl.Names {
				typ := g.gotype(fl.Type, false)
				if typ.k == "opt" && isAbsTy(typ.elem) && !s.nilable[info.recv+"."+id.Name] {
					typ = typ.elem // a pointer the translated functions never test for nil or set to nil: the object itself
				}
				name := g.recv + "_" + id.Name
				reserve(name, d)
				t.bind(name, typ, token.NoPos) // the receiver's fields: declaration order of the struct
				info.fields = append(info.fields, gfield{id.Name, typ})
				params = append(params, fmt.Sprintf("(%s : %s)", cname(name), typ.coq()))
			}
		}
	}
	for _, f := range d.Type.Params.List {
		if len(f.Names) == 0 {
			g.fail(d, "unnamed parameter")
		}
		for _, id := range f.Names {
			typ := g.gotype(f.Type, true)
			reserve(id.Name, d)
			t.bind(id.Name, typ, id.Pos())
			info.params = append(info.params, typ)
			info.pnames = append(info.pnames, id.Name)
			params = append(params, fmt.Sprintf("(%s : %s)", cname(id.Name), typ.coq()))
		}
	}
	pre := ""
	var rts []string
	for _, m := range mut {
		rts = append(rts, t.env[g.recv+"_"+m].coq())
	}
	for _, i := range outPar {
		rts = append(rts, info.params[i].coq())
	}
	if d.Type.Results != nil {
		for _, f := range d.Type.Results.List {
			typ := g.gotype(f.Type, false)
			n := len(f.Names)
			if n == 0 {
				n = 1
			}
			for i := 0; i < n; i++ {
				info.results = append(info.results, typ)
				rts = append(rts, typ.coq())
			}
			for _, id := range f.Names {
				reserve(id.Name, d)
				g.named = append(g.named, id.Name)
				if typ.k == "opt" && typ.elem.k == "struct" && s.records[typ.elem.name] {
					g.exploded[id.Name] = typ.elem.name
					continue
				}
				z, ok := gZero(typ)
				if !ok {
					g.fail(d, "named result of type %s has no zero value in the model", typ.coq())
				}
				t.bind(id.Name, typ, id.Pos())
				pre += "let " + cname(id.Name) + " := " + z + " in\n  "
			}
		}
	}
	g.retCoq = "outcome (" + strings.Join(append(rts, "W"), " * ") + ")"
	nf := 0
	ast.Inspect(d.Body, func(n ast.Node) bool {
		if fs, ok := n.(*ast.ForStmt); ok {
			nf++
			g.fuelOf[fs] = nf
		}
		return true
	})
	info.nfuel = nf
	for i := 1; i <= nf; i++ {
		name := fmt.Sprintf("fuel_%d", i)
		t.bind(name, gNat(), token.NoPos)
		params = append(params, fmt.Sprintf("(%s : nat)", name))
	}
	t.bind("w_", gWorld(), token.NoPos)
	params = append(params, "(w_ : W)")
	body := g.stmts(d.Body.List, func() string {
		if len(info.results) != len(g.named) {
			g.fail(d, "function falls off its end without named results")
		}
		return g.finish(g.namedRes)
	})
	text = strings.Join(loops, "") + fmt.Sprintf("Definition %s %s : %s :=\n  %s.\n\n", info.cname, strings.Join(params, " "), g.retCoq, pre+body)
	return text, g
}

func (s *gsec) function(key string) string {
	d, ok := s.p.funcs[key]
	if !ok {
		panic(genError{fmt.Sprintf("function %s not found in /repo", key)})
	}
	if !gUniq[d] {
		gUniq[d] = true
		uniquify(d)
	}
	// first pass: which receiver fields and slice parameters are re-bound
	_, g := s.translate(key, nil, nil, false)
	set := map[string]bool{}
	for _, v := range g.tlog {
		set[v] = true
	}
	var mut []string
	for _, f := range g.info.fields {
		if set[g.recv+"_"+f.name] {
			mut = append(mut, f.name)
		}
	}
	var outPar []int
	for i, n := range g.info.pnames {
		if set[n] {
			if !isSliceTy(g.info.params[i]) && !isIterTy(g.info.params[i]) { // a *BytesIterator parameter is returned like a slice parameter
				panic(genError{fmt.Sprintf("%s: the parameter %s is assigned", key, n)})
			}
			outPar = append(outPar, i)
		}
	}
	text, g := s.translate(key, mut, outPar, true)
	s.funcs[key] = g.info
	s.names[g.info.cname] = ""
	return text
}

func (s *gsec) record(name string) string {
	st, ok := s.p.structs[name]
	if !ok {
		panic(genError{fmt.Sprintf("struct %s not found in /repo", name)})
	}
	t := &tr{p: s.p, fn: "type " + name, env: map[string]*ty{}, optPar: map[string]bool{}}
	g := &gx{p: s.p, sec: s, t: t, leaves: map[string]bool{}}
	var fields []string
	for _, f := range st.Fields.List {
		if len(f.Names) == 0 {
			g.fail(st, "embedded field")
		}
		typ := g.gotype(f.Type, false)
		for _, id := range f.Names {
			fields = append(fields, fmt.Sprintf("%s_%s : %s", name, id.Name, typ.coq()))
		}
	}
	s.records[name] = true
	s.names[name] = ""
	return fmt.Sprintf("Record %s := mk_%s {\n  %s\n}.\n\n", name, name, strings.Join(fields, ";\n  "))
}

func (p *pkg) emitDemuxGen() string {
	var b strings.Builder
	b.WriteString(demuxGenHeader)
	p.emitGSections(&b, gsections)
	return b.String()
}

// emitGSections translates the given sections (also used by restgen.go for PSIData.toData in Gen/RestData.v).
func (p *pkg) emitGSections(bp *strings.Builder, secs []gsection) {
	b := bp
	for _, def := range secs {
		s := &gsec{p: p, def: def, names: map[string]string{}, funcs: map[string]*gfuncInfo{}, failed: map[string]bool{},
			records: map[string]bool{}, nilable: map[string]bool{}}
		fmt.Fprintf(b, "Section %s.\nVariable W : Type.\n\n", def.name)
		s.names["W"] = "Type"
		for _, key := range def.entries {
			if d, ok := p.funcs[key]; ok && d.Body != nil {
				s.scanNilable(d)
			}
		}
		isolate := func(what string, f func() string) {
			mark := len(s.pending)
			defer func() {
				if r := recover(); r != nil {
					ge, ok := r.(genError)
					if !ok {
						panic(r)
					}
					s.failed[what] = true
					fmt.Fprintf(os.Stderr, "gen: not translated: %s\n", ge.msg)
					for _, dcl := range s.pending[mark:] {
						b.WriteString(dcl)
					}
					s.pending = s.pending[:mark]
					fmt.Fprintf(b, "(* NOT TRANSLATED (%s left the translator's grammar): %s *)\n\n", what, strings.ReplaceAll(ge.msg, "*)", "* )"))
				}
			}()
			text := f()
			for _, dcl := range s.pending {
				b.WriteString(dcl)
			}
			s.pending = nil
			b.WriteString(text)
		}
		for _, r := range def.records {
			r := r
			isolate("type "+r, func() string { return s.record(r) })
		}
		for _, key := range def.entries {
			key := key
			isolate(key, func() string { return s.function(key) })
		}
		fmt.Fprintf(b, "End %s.\n\n", def.name)
	}
}
