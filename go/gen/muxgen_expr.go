package main

// muxgen: expressions. Forms tr.expr does not know become leaves (already translated terms), the rest is handed to it.

import (
	"go/ast"
	"go/token"
	"strings"
)

func (s *mg) leaf(n ast.Node, term string, typ *ty) *ast.Ident {
	if coqReserved[term] {
		s.fail(n, "internal: reserved leaf")
	}
	s.t.env[term] = typ
	s.leaves[term] = true
	return &ast.Ident{NamePos: n.Pos(), Name: term}
}

func (s *mg) sx(e ast.Expr) (string, *ty) { return s.t.expr(s.rw(e)) }

// value translates e for a destination of type want (nil, Some-coercions).
func (s *mg) value(e ast.Expr, want *ty, n ast.Node) string {
	if isNilIdent(e) {
		if want == nil {
			s.fail(n, "nil where its type is not known")
		}
		v := mgNilOf(want)
		if strings.HasPrefix(v, "?") {
			s.fail(n, "nil for a value that is not modelled as a list, an option or an error")
		}
		return v
	}
	v, vt := s.sx(e)
	if want == nil {
		return v
	}
	if want.k == "struct" && vt.k == "opt" || want.k == "opt" && vt.k == "struct" {
		return s.t.coerce(v, vt, want, n)
	}
	if !mgSameTy(vt, want) {
		s.fail(n, "value of type %s where %s is expected", vt.coq(), want.coq())
	}
	return v
}

func mgSameTy(a, b *ty) bool {
	if a.k == "untyped" || b.k == "untyped" {
		return (a.k == "untyped" || a.k == "int") && (b.k == "untyped" || b.k == "int")
	}
	if a.k == "int" && b.k == "int" {
		return true
	}
	return a.coq() == b.coq()
}

func (s *mg) isErrVar(name string) bool {
	if _, inEnv := s.t.env[name]; inEnv {
		return false
	}
	spec, ok := s.p.vars[name]
	if !ok {
		return false
	}
	for i, id := range spec.Names {
		if id.Name != name || i >= len(spec.Values) {
			continue
		}
		c, ok := spec.Values[i].(*ast.CallExpr)
		if !ok {
			return false
		}
		sel, ok := c.Fun.(*ast.SelectorExpr)
		if !ok {
			return false
		}
		x, ok := sel.X.(*ast.Ident)
		return ok && x.Name == "errors" && sel.Sel.Name == "New"
	}
	return false
}

// recvField recognises recv.f
func (s *mg) recvField(e ast.Expr) (string, bool) {
	sel, ok := e.(*ast.SelectorExpr)
	if !ok || s.recv == "" {
		return "", false
	}
	id, ok := sel.X.(*ast.Ident)
	if !ok || id.Name != s.recv {
		return "", false
	}
	if _, shadow := s.t.env[s.recv]; shadow {
		return "", false
	}
	return sel.Sel.Name, true
}

func (s *mg) rwAll(es []ast.Expr) []ast.Expr {
	var out []ast.Expr
	for _, e := range es {
		out = append(out, s.rw(e))
	}
	return out
}

func (s *mg) rw(e ast.Expr) ast.Expr {
	switch x := e.(type) {
	case *ast.Ident:
		if x.Name == "nil" {
			s.fail(x, "nil outside an assignment, a return or a comparison")
		}
		if x.Name == s.recv && s.recv != "" {
			s.fail(x, "the receiver used as a value")
		}
		if s.unmodelled[x.Name] {
			s.fail(x, "%s has a type that is not modelled", x.Name)
		}
		if s.closures[x.Name] != nil {
			s.fail(x, "closure %s used as a value", x.Name)
		}
		if _, ok := s.walias[x.Name]; ok {
			s.fail(x, "bits writer %s used as a value", x.Name)
		}
		if s.stale[x.Name] {
			s.fail(x, "%s holds the bytes of a buffer that was written again since", x.Name)
		}
		if s.isErrVar(x.Name) {
			mgErrs[x.Name] = true
			return s.leaf(x, "E"+x.Name, tyErr)
		}
		return x
	case *ast.BasicLit:
		return x
	case *ast.ParenExpr:
		return &ast.ParenExpr{Lparen: x.Lparen, X: s.rw(x.X), Rparen: x.Rparen}
	case *ast.StarExpr:
		return &ast.StarExpr{Star: x.Star, X: s.rw(x.X)}
	case *ast.UnaryExpr:
		if x.Op == token.AND {
			if id, ok := x.X.(*ast.Ident); ok {
				if _, ok := s.t.env[id.Name]; ok {
					s.addr[id.Name] = true
				}
			}
		}
		return &ast.UnaryExpr{OpPos: x.OpPos, Op: x.Op, X: s.rw(x.X)}
	case *ast.BinaryExpr:
		if o, isNil := nilCompare(x); isNil {
			vs, vt := s.sx(o)
			var r string
			switch {
			case vt.k == "opt":
				r = "(match " + vs + " with Some _ => false | None => true end)"
			case vt == tyErr || (vt.k == "opaque" && vt.name == "merror"):
				r = "(merror_is_nil " + vs + ")"
			case vt.k == "list" || vt.k == "bytes":
				s.fail(x, "slice compared with nil: a nil slice and an empty slice are the same list in the model")
			default:
				s.fail(x, "nil comparison of a value that is not modelled as an option or an error")
			}
			if x.Op == token.NEQ {
				r = "(negb " + r + ")"
			}
			return s.leaf(x, r, tBool)
		}
		if x.Op == token.LAND || x.Op == token.LOR {
			saved := s.inCond
			s.inCond = true // no hoisting out of a short-circuit operand
			l, r := s.rw(x.X), s.rw(x.Y)
			s.inCond = saved
			return &ast.BinaryExpr{X: l, OpPos: x.OpPos, Op: x.Op, Y: r}
		}
		return &ast.BinaryExpr{X: s.rw(x.X), OpPos: x.OpPos, Op: x.Op, Y: s.rw(x.Y)}
	case *ast.CompositeLit:
		return s.rwComposite(x)
	case *ast.SelectorExpr:
		if f, ok := s.recvField(x); ok {
			if _, isW := mgWriterFields[f]; isW {
				s.fail(x, "bits writer field %s used as a value", f)
			}
			return &ast.Ident{NamePos: x.Pos(), Name: s.useField(x, f)}
		}
		if id, ok := x.X.(*ast.Ident); ok {
			if _, inEnv := s.t.env[id.Name]; !inEnv && id.Name != s.recv {
				return x // package selector (time.Hour ...): tr.expr decides
			}
		}
		return &ast.SelectorExpr{X: s.rw(x.X), Sel: x.Sel}
	case *ast.IndexExpr:
		rx := s.rw(x.X)
		_, xt := s.t.expr(rx)
		if isMgMap(xt) {
			s.fail(x, "map element read outside the comma-ok form")
		}
		return &ast.IndexExpr{X: rx, Lbrack: x.Lbrack, Index: s.rw(x.Index), Rbrack: x.Rbrack}
	case *ast.SliceExpr:
		s.fail(x, "slice expression outside the delete idiom x = append(x[:i], x[i+1:]...)")
	case *ast.CallExpr:
		return s.rwCall(x)
	}
	s.fail(e, "unsupported expression %T", e)
	return nil
}

func (s *mg) rwComposite(x *ast.CompositeLit) ast.Expr {
	switch tt := x.Type.(type) {
	case *ast.Ident:
		if !emittedStructs[tt.Name] {
			s.fail(x, "composite literal of a struct that is not modelled")
		}
		out := &ast.CompositeLit{Type: x.Type, Lbrace: x.Lbrace, Rbrace: x.Rbrace}
		for _, el := range x.Elts {
			kv, ok := el.(*ast.KeyValueExpr)
			if !ok {
				s.fail(x, "unkeyed composite literal")
			}
			k := kv.Key.(*ast.Ident).Name
			ft := s.t.structFieldType(tt.Name, k, kv)
			var v ast.Expr
			if isNilIdent(kv.Value) {
				v = s.leaf(kv, mgNilOf(ft), ft)
			} else {
				v = s.rw(kv.Value)
			}
			out.Elts = append(out.Elts, &ast.KeyValueExpr{Key: kv.Key, Colon: kv.Colon, Value: v})
		}
		return out
	case *ast.ArrayType:
		if tt.Len != nil {
			s.fail(x, "array literal")
		}
		typ := s.gotype(tt)
		if typ == nil || (typ.k != "list" && typ.k != "bytes") {
			s.fail(x, "slice literal of a type that is not modelled")
		}
		et := &ty{k: "int", w: 8}
		if typ.k == "list" {
			et = typ.elem
		}
		var els []string
		for _, el := range x.Elts {
			if _, isKV := el.(*ast.KeyValueExpr); isKV {
				s.fail(x, "keyed slice literal")
			}
			els = append(els, s.value(el, et, x))
		}
		if len(els) == 0 {
			return s.leaf(x, mgNilOf(typ), typ)
		}
		return s.leaf(x, "["+strings.Join(els, "; ")+"]", typ)
	case *ast.MapType:
		if len(x.Elts) != 0 {
			s.fail(x, "non-empty map literal")
		}
		mt := s.gotype(tt)
		return s.leaf(x, s.useMapOp("empty", mt), mt)
	}
	s.fail(x, "unsupported composite literal")
	return nil
}

// bitsWriterTarget recognises astikit.NewBitsWriter(astikit.BitsWriterOptions{Writer: &m.buf | m.w}).
func (s *mg) bitsWriterTarget(e ast.Expr) (string, bool) {
	c, ok := e.(*ast.CallExpr)
	if !ok || len(c.Args) != 1 {
		return "", false
	}
	sel, ok := c.Fun.(*ast.SelectorExpr)
	if !ok || sel.Sel.Name != "NewBitsWriter" {
		return "", false
	}
	if id, ok := sel.X.(*ast.Ident); !ok || id.Name != "astikit" {
		return "", false
	}
	cl, ok := c.Args[0].(*ast.CompositeLit)
	if !ok || len(cl.Elts) != 1 {
		s.fail(e, "astikit.NewBitsWriter with options other than {Writer: ..}")
	}
	kv, ok := cl.Elts[0].(*ast.KeyValueExpr)
	if !ok || kv.Key.(*ast.Ident).Name != "Writer" {
		s.fail(e, "astikit.NewBitsWriter with options other than {Writer: ..}")
	}
	v := kv.Value
	if u, ok := v.(*ast.UnaryExpr); ok && u.Op == token.AND {
		if f, ok := s.recvField(u.X); ok && s.bufField[f] {
			s.used[f] = true
			return "buf:" + f, true
		}
	}
	if f, ok := s.recvField(v); ok && s.fieldTy[f] == tyIO {
		s.used[f] = true
		return "io:" + f, true
	}
	s.fail(e, "astikit.NewBitsWriter on something that is neither a buffer field nor the io.Writer field of the receiver")
	return "", false
}

func (s *mg) rwCall(x *ast.CallExpr) ast.Expr {
	if _, ok := s.bitsWriterTarget(x); ok {
		s.fail(x, "a bits writer is created outside a binding `w := astikit.NewBitsWriter(..)`")
	}
	switch f := x.Fun.(type) {
	case *ast.Ident:
		switch f.Name {
		case "len":
			if len(x.Args) == 1 {
				as, at := s.sx(x.Args[0])
				if isMgMap(at) {
					return s.leaf(x, "("+s.useMapOp("len", at)+" "+as+")", tInt)
				}
			}
		case "make":
			if len(x.Args) >= 1 {
				if mt, ok := x.Args[0].(*ast.MapType); ok {
					typ := s.gotype(mt)
					return s.leaf(x, s.useMapOp("empty", typ), typ)
				}
				if at, ok := x.Args[0].(*ast.ArrayType); ok && at.Len == nil && len(x.Args) >= 2 {
					if v, ok := s.p.evalConst(x.Args[1], map[string]bool{}); ok && v.Sign() == 0 {
						typ := s.gotype(at)
						if typ != nil {
							return s.leaf(x, mgNilOf(typ), typ)
						}
					}
				}
			}
			s.fail(x, "unsupported make")
		case "append":
			if len(x.Args) < 2 {
				s.fail(x, "append with one argument")
			}
			as, at := s.sx(x.Args[0])
			if at.k != "list" && at.k != "bytes" {
				s.fail(x, "append to something that is not a slice")
			}
			et := &ty{k: "int", w: 8}
			if at.k == "list" {
				et = at.elem
			}
			if x.Ellipsis.IsValid() {
				if len(x.Args) != 2 {
					s.fail(x, "unsupported append")
				}
				bs, bt := s.sx(x.Args[1])
				if !mgSameTy(at, bt) {
					s.fail(x, "append of a slice of another type")
				}
				return s.leaf(x, "("+as+" ++ "+bs+")", at)
			}
			var els []string
			for _, a := range x.Args[1:] {
				els = append(els, s.value(a, et, x))
			}
			return s.leaf(x, "("+as+" ++ ["+strings.Join(els, "; ")+"])", at)
		case "delete", "copy", "new", "panic", "recover", "cap":
			s.fail(x, "%s inside an expression", f.Name)
		}
		if _, isVar := s.t.env[f.Name]; isVar {
			s.fail(x, "call of a function value")
		}
		if f.Name == "newProgramMap" && len(x.Args) == 0 {
			s.ext["programMap_t"] = "{programMap_t : Type}"
			s.ext["newProgramMap"] = "(newProgramMap : programMap_t)"
			return s.leaf(x, "newProgramMap", tyPM)
		}
		if info, ok := mgFuncs[f.Name]; ok && info.recv == "" {
			if len(info.results) != 1 || info.fuel || len(x.Args) != len(info.params) {
				s.fail(x, "call of %s inside an expression", info.key)
			}
			parts := []string{info.cname}
			if ea := s.inheritExt(info); ea != "" {
				parts = append(parts, ea)
			}
			for i, a := range x.Args {
				parts = append(parts, s.value(a, info.params[i], x))
			}
			return s.leaf(x, "("+strings.Join(parts, " ")+")", info.results[0])
		}
		if mgPureExternals[f.Name] && !translated[f.Name] {
			ps, rs := s.extSig(x, f.Name, false)
			if len(rs) != 1 {
				s.fail(x, "%s: one result expected", f.Name)
			}
			funcSig[f.Name], funcRes[f.Name] = ps, rs[0]
			translated[f.Name] = true
			mgRegistered[f.Name] = true
		} else if mgRegistered[f.Name] {
			s.extSig(x, f.Name, false)
		}
		if mgWriterExternals[f.Name] {
			s.fail(x, "%s is called inside an expression", f.Name)
		}
		return &ast.CallExpr{Fun: f, Lparen: x.Lparen, Args: s.rwAll(x.Args), Rparen: x.Rparen}
	case *ast.SelectorExpr:
		if id, ok := f.X.(*ast.Ident); ok {
			if _, inEnv := s.t.env[id.Name]; !inEnv && id.Name != s.recv {
				if id.Name == "fmt" && f.Sel.Name == "Errorf" {
					for _, a := range x.Args {
						if lit, ok := a.(*ast.BasicLit); ok && lit.Kind == token.STRING {
							continue
						}
						s.sx(a) // the arguments must be translatable (no side effects hidden in them)
					}
					return s.leaf(x, "EFmt", tyErr)
				}
				return &ast.CallExpr{Fun: f, Lparen: x.Lparen, Args: s.rwAll(x.Args), Rparen: x.Rparen}
			}
		}
		if fld, ok := s.recvField(f.X); ok {
			ft := s.fieldTy[fld]
			switch {
			case s.bufField[fld]:
				v := s.useField(x, fld)
				switch f.Sel.Name {
				case "Bytes":
					if len(x.Args) == 0 {
						s.lastView = fld
						return &ast.Ident{NamePos: x.Pos(), Name: v}
					}
				case "Len":
					if len(x.Args) == 0 {
						return s.leaf(x, "(Z.of_nat (List.length "+v+"))", tInt)
					}
				}
				s.fail(x, "unsupported method %s of a buffer inside an expression", f.Sel.Name)
			case ft == tyPM:
				if f.Sel.Name == "toPATDataUnlocked" && len(x.Args) == 0 {
					s.ext["programMap_t"] = "{programMap_t : Type}"
					s.ext["programMap_toPATDataUnlocked"] = "(programMap_toPATDataUnlocked : programMap_t -> PATData)"
					return s.leaf(x, "(programMap_toPATDataUnlocked "+s.useField(x, fld)+")", &ty{k: "struct", name: "PATData"})
				}
				s.fail(x, "unsupported method %s of the program map inside an expression", f.Sel.Name)
			case ft == tyIO:
				s.fail(x, "the io.Writer is used inside an expression")
			}
			if _, ok := mgFuncs[s.recvStruct+"."+f.Sel.Name]; ok {
				s.fail(x, "method %s of the receiver called inside an expression", f.Sel.Name)
			}
			// a state-changing method of Gen/Preds.v (wrappingCounter.inc) on a field: hoisted
			if ft != nil && ft.k == "struct" && hasStateMethod(ft.name, f.Sel.Name) {
				return s.hoist(x, fld, ft.name, f.Sel.Name)
			}
		}
		rx := s.rw(f.X)
		_, xt := s.t.expr(rx)
		if xt.k == "struct" && hasStateMethod(xt.name, f.Sel.Name) || xt.k == "opt" && xt.elem.k == "struct" && hasStateMethod(xt.elem.name, f.Sel.Name) {
			s.fail(x, "%s changes its receiver, which is not a field of the method's receiver", f.Sel.Name)
		}
		return &ast.CallExpr{Fun: &ast.SelectorExpr{X: rx, Sel: f.Sel}, Lparen: x.Lparen, Args: s.rwAll(x.Args), Rparen: x.Rparen}
	}
	s.fail(x, "unsupported call")
	return nil
}

var mgRegistered = map[string]bool{}

func hasStateMethod(typ, m string) bool {
	for _, e := range predEntries {
		if e.state && e.key == typ+"."+m {
			return translated[e.key]
		}
	}
	return false
}

// hoist: `m.f.inc()` inside an expression becomes a variable bound in front of the statement.
func (s *mg) hoist(x *ast.CallExpr, fld, typ, method string) ast.Expr {
	if len(x.Args) != 0 {
		s.fail(x, "hoisted method with arguments")
	}
	if s.inCond || s.stmtNode == nil {
		s.fail(x, "%s.%s() changes the field inside a condition or a short-circuit operand", fld, method)
	}
	count := 0
	ast.Inspect(s.stmtNode, func(n ast.Node) bool {
		if _, isLit := n.(*ast.FuncLit); isLit {
			return false
		}
		if e, ok := n.(ast.Expr); ok {
			if f, ok := s.recvField(e); ok && f == fld {
				count++
			}
		}
		return true
	})
	if count != 1 {
		s.fail(x, "%s.%s() changes a field that the same statement mentions elsewhere: evaluation order is not modelled", fld, method)
	}
	v := s.useField(x, fld)
	r := s.fresh(method)
	cn := typ + "_" + method
	s.pre = append(s.pre, "let "+r+" := ("+cn+" "+v+") in\n  let "+v+" := ("+cn+"_st "+v+") in\n  ")
	s.wrote(v)
	return s.leaf(x, r, funcRes[typ+"."+method])
}
