package main

// Declaration order of variables.
//
// Wherever a translator lists "the variables in scope" or "the variables a block assigns" (the parameters of a loop's
// Fixpoint, the tuple a loop or an if returns, the arguments of the rest_ continuation of Muxer.WriteData) the order of
// that list is part of the SHAPE of the generated definition: proofs apply those functions positionally and destructure
// those tuples. The order therefore must not depend on what a local variable is CALLED (renaming a local is a harmless
// refactor of /repo): it is derived from WHERE the variable is declared.
//
// Every binding of a variable into a translator's environment goes through tr.bind (or tr.noteDecl), which records
//
//	pos  the source position (token.Pos) of the declaration: the identifier in a parameter list / named result list,
//	     the `:=` / `var` / range statement that declares it; token.NoPos for a variable that does not come from a
//	     declaration in the function at hand (the receiver's fields m_<field>, in the struct's declaration order;
//	     ghost variables of a translator) and the position of the statement being translated for a temporary the
//	     translator invents and keeps in scope;
//	seq  a running number (the order in which the bindings happened: the translators walk the source in order), which
//	     decides between variables of equal position (`a, b := f()`, the fields).
//
// A binding is recorded when the name is not live in the environment (a later `:=` that merely re-assigns the variable
// keeps the first position; a name that went out of scope and is declared again gets the new position).
// tr.sortDecl orders a list of variables by (pos, seq); the name is the last resort only (a variable that was never
// recorded, which would be a bug of the translator: recorded ones never tie).

import (
	"go/token"
	"sort"
)

type declKey struct {
	pos token.Pos
	seq int
}

type declOrd struct {
	key map[string]declKey
	n   int
}

func (t *tr) declOrd() *declOrd {
	if t.ord == nil {
		t.ord = &declOrd{key: map[string]declKey{}}
	}
	return t.ord
}

// noteDecl records the declaration of name at pos unless the name is live (bound in the environment and already recorded).
func (t *tr) noteDecl(name string, pos token.Pos) {
	o := t.declOrd()
	if _, live := t.env[name]; live {
		if _, known := o.key[name]; known {
			return
		}
	}
	o.n++
	o.key[name] = declKey{pos, o.n}
}

// bind = noteDecl + env[name] = typ.
func (t *tr) bind(name string, typ *ty, pos token.Pos) {
	t.noteDecl(name, pos)
	t.env[name] = typ
}

// adoptDecl copies the recorded declaration of name from another translator (a continuation translated separately).
func (t *tr) adoptDecl(from *tr, name string) {
	o := t.declOrd()
	if from != nil && from.ord != nil {
		if k, ok := from.ord.key[name]; ok {
			o.n++
			o.key[name] = declKey{k.pos, o.n}
			return
		}
	}
	o.n++
	o.key[name] = declKey{token.NoPos, o.n}
}

func (t *tr) declLess(a, b string) bool {
	o := t.declOrd()
	ka, oka := o.key[a]
	kb, okb := o.key[b]
	if oka != okb {
		return oka // recorded ones first
	}
	if !oka {
		return a < b
	}
	if ka.pos != kb.pos {
		return ka.pos < kb.pos
	}
	if ka.seq != kb.seq {
		return ka.seq < kb.seq
	}
	return a < b
}

// sortDecl sorts variables by the position of their declaration.
func (t *tr) sortDecl(vars []string) {
	sort.SliceStable(vars, func(i, j int) bool { return t.declLess(vars[i], vars[j]) })
}

// bindAfter binds name as if it were declared together with the (recorded) variable other, after it.
func (t *tr) bindAfter(name string, typ *ty, other string) {
	pos := token.NoPos
	if k, ok := t.declOrd().key[other]; ok {
		pos = k.pos
	}
	t.bind(name, typ, pos)
}
