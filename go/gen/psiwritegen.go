package main

// Translation of the PSI / descriptor / DVB WRITERS (data_psi.go, data_pat.go, data_pmt.go, descriptor.go, dvb.go) into
// Gen/PsiWriteGen.v, on every run, from the current source. The statement translator is the one of writegen.go (writer
// monad WM / WF of Gen/WriteGen.v, items tagged WBatch / WDirect / WDropped, merror, "NOT TRANSLATED" isolation per
// function); this file adds, switched on by wg.psi (so that Gen/WriteGen.v is unaffected):
//
//	for _, x := range xs { body }         '(vars) <- f_loopK xs <variables the body mentions> ;; rest: a Fixpoint on the list
//	                                      (xs is evaluated once, in front of the loop; an element of a []*T is the record T:
//	                                      nil elements are not modelled, as in Gen/Types.v); a `return` in the body is wexit;
//	                                      break / continue / goto are refused
//	return v.., writeY(w, args)           r_ <- wcall (writeY args) ;; wexit (v.., r_)      (v.. variables or constants)
//	return writeY(w, args)                '(r1_, r2_) <- wcall (writeY args) ;; wexit (r1_, r2_)
//	x, _ = f(args)  (f of Gen/Preds.v returning several values)      let '(t1_, t2_) := f args in ...
//	a function WITHOUT a writer that dereferences pointers (calcPSISectionLength) is translated in the same monad (it
//	                                      emits nothing; a nil dereference is WPanic) and called with wcall
//	w.SetWriteCallback(func(bs []byte) { v = F(v, bs) })   [inside `if c { ..; defer w.SetWriteCallback(nil) }` or bare]
//	                                      let cb_on_ := c in let cbitems_ := [] in ...: from here on every computation that
//	                                      can hand items to the BitsWriter is bound through wlisten and its items are appended
//	                                      to the ghost variable cbitems_; a later READ of v is
//	                                      wcb_value cb_on_ (fun v bs => F v bs) v cbitems_ : F folded over the bytes those items
//	                                      produce, one call per byte as astikit's BitsWriter.write does (bytes_of_items: the
//	                                      writer holds no pending bits when the callback is registered - every caller hands
//	                                      over whole bytes); v may not be assigned otherwise; the registration must be at the
//	                                      top level of the function; `defer w.SetWriteCallback(nil)` emits nothing (nothing
//	                                      is written after the return)
//	fmt.Errorf(.., x.Type())              only the receiver of Type() is translated (the string is not modelled)
//	a callee listed as abstract           a Section Variable typed from the callee's Go declaration (writers: params -> WF (results))
//
// Pure functions without pointer dereferences (calcPMTSectionLength, calcDescriptorLength, calcDescriptorsLength) go through
// the expression / statement translator of preds.go (fold_left for range loops), extended through trStmtHook by
//
//	x, _ := f(args)                       let '(x, _) := f args in
//	if x := e; c { .. }                   x := e; if c { .. }      (x must not be declared already)
//
// dvb.go: the float64 expressions stay behind the C15 boundary. uint8(d.Hours()), int(d.Minutes()), int(d.Seconds()),
// t.Year(), t.Month(), t.Day(), int(float64(e) * <decimal literal>) and t.Sub(t.Truncate(u)) are Section Variables
// (dvb_hours_u8, dvb_minutes_int, dvb_seconds_int, time_Year, time_Month, time_Day, dvb_mul_trunc e num den,
// time_since_truncate t u): everything around them (the MJD sum, % 60, the uint8 / uint16 conversions, the BCD bytes, the
// order of the writes, the counts) is translated.
//
// Each section is closed before the next one opens, so a definition is generalised over exactly the abstract callees it
// (transitively) uses. Proofs/PsiWriteGen*.v prove the hand-written writers of Model/Psi.v, Model/Desc.v, Model/Dvb.v equal
// to these definitions.

import (
	"fmt"
	"go/ast"
	"go/token"
	"math/big"
	"os"
	"regexp"
	"strings"
)

type psiwEntry struct {
	key  string
	kind string // "writer" | "purem" (writer monad, no writer) | "pure" (preds.go)
}

type psiwSection struct {
	name      string
	abstractW []string // writers that stay Section Variables
	abstractP []string // pure functions that stay Section Variables
	floats    bool     // the float / package-time variables of dvb.go
	entries   []psiwEntry
}

var psiwBodies = []string{
	"writeDescriptorUserDefined", "writeDescriptorAC3", "writeDescriptorAVCVideo", "writeDescriptorComponent", "writeDescriptorContent",
	"writeDescriptorDataStreamAlignment", "writeDescriptorEnhancedAC3", "writeDescriptorExtendedEvent", "writeDescriptorExtension",
	"writeDescriptorISO639LanguageAndAudioType", "writeDescriptorLocalTimeOffset", "writeDescriptorMaximumBitrate",
	"writeDescriptorNetworkName", "writeDescriptorParentalRating", "writeDescriptorPrivateDataIndicator",
	"writeDescriptorPrivateDataSpecifier", "writeDescriptorRegistration", "writeDescriptorService", "writeDescriptorShortEvent",
	"writeDescriptorStreamIdentifier", "writeDescriptorSubtitling", "writeDescriptorTeletext", "writeDescriptorVBIData",
	"writeDescriptorUnknown",
}

func psiwWriters(names ...string) []psiwEntry {
	var out []psiwEntry
	for _, n := range names {
		out = append(out, psiwEntry{n, "writer"})
	}
	return out
}

var psiwSections = []psiwSection{
	{name: "PsiWriters",
		abstractW: []string{"writeDescriptorsWithLength"},
		abstractP: []string{"calcDescriptorsLength"},
		entries: append([]psiwEntry{{"calcPMTSectionLength", "pure"}, {"calcPMTProgramInfoLength", "pure"}, {"calcPSISectionLength", "purem"}},
			psiwWriters("writePATSection", "writePMTSection", "writePSISectionSyntaxHeader", "writePSISectionSyntaxData",
				"writePSISectionSyntax", "writePSISection", "writePSIData")...)},
	{name: "DescriptorLoop",
		abstractW: psiwBodies,
		abstractP: []string{"calcDescriptorUserDefinedLength", "calcDescriptorExtensionLength"},
		entries: append([]psiwEntry{{"calcDescriptorLength", "pure"}, {"calcDescriptorsLength", "pure"}},
			psiwWriters("writeDescriptor", "writeDescriptors", "writeDescriptorsWithLength")...)},
	{name: "DescriptorBodies",
		abstractW: []string{"writeDVBDurationMinutes", "writeDVBTime"},
		entries: psiwWriters("writeDescriptorUserDefined", "writeDescriptorAC3", "writeDescriptorAVCVideo", "writeDescriptorComponent",
			"writeDescriptorContent", "writeDescriptorDataStreamAlignment", "writeDescriptorEnhancedAC3", "writeDescriptorExtendedEvent",
			"writeDescriptorExtensionSupplementaryAudio", "writeDescriptorExtension", "writeDescriptorISO639LanguageAndAudioType",
			"writeDescriptorLocalTimeOffset", "writeDescriptorMaximumBitrate", "writeDescriptorNetworkName", "writeDescriptorParentalRating",
			"writeDescriptorPrivateDataIndicator", "writeDescriptorPrivateDataSpecifier", "writeDescriptorRegistration",
			"writeDescriptorService", "writeDescriptorShortEvent", "writeDescriptorStreamIdentifier", "writeDescriptorSubtitling",
			"writeDescriptorTeletext", "writeDescriptorVBIData", "writeDescriptorUnknown")},
	{name: "DvbWriters",
		floats:  true,
		entries: psiwWriters("writeDVBDurationMinutes", "writeDVBDurationSeconds", "writeDVBTime")},
}

// functions translated in the writer monad although they have no writer (they can panic)
var wgPureM = map[string]bool{}

// writers that register a write callback: they may not be called while another callback is registered
var wgSetsCb = map[string]bool{}

var tyGItems = &ty{k: "opaque", name: "gitems"}

type wgCallback struct {
	acc   string // internal name of the accumulator variable
	accTy *ty
	fn    string
}

type wgPsi struct {
	s    *wg
	pure bool
	cb   *wgCallback
	sec  *psiwSection
}

// ---------- signatures from declarations (abstract callees) ----------

func (p *pkg) wgDeclSig(name string) *wgSig {
	d, ok := p.funcs[name]
	if !ok || d.Body == nil || !wgIsWriterFunc(d) {
		panic(genError{fmt.Sprintf("abstract writer %s not found in /repo (or its first parameter is not a *astikit.BitsWriter)", name)})
	}
	s := p.newWg(name)
	sig := &wgSig{}
	first := true
	for _, f := range d.Type.Params.List {
		for _, id := range f.Names {
			if first {
				first = false
				continue
			}
			typ := s.gotype(f.Type, d)
			if typ.k == "opt" && typ.elem.k == "struct" && !usesNilNode(d.Body, id.Name) {
				typ = typ.elem
			}
			sig.params = append(sig.params, typ)
		}
	}
	if d.Type.Results == nil {
		s.fail(d, "writer without results")
	}
	for _, f := range d.Type.Results.List {
		typ := s.gotype(f.Type, d)
		k := len(f.Names)
		if k == 0 {
			k = 1
		}
		for i := 0; i < k; i++ {
			sig.results = append(sig.results, typ)
		}
	}
	return sig
}

func (sig *wgSig) coqType() string {
	var parts []string
	for _, t := range sig.params {
		parts = append(parts, t.coq())
	}
	var rts []string
	for _, r := range sig.results {
		rts = append(rts, r.coq())
	}
	parts = append(parts, "WF ("+strings.Join(rts, " * ")+")")
	return strings.Join(parts, " -> ")
}

// declare a pure callee from its declaration, with the conventions of preds.go (p.function)
func (p *pkg) psiwDeclarePure(name string) string {
	d, ok := p.funcs[name]
	if !ok || d.Body == nil || d.Recv != nil {
		panic(genError{fmt.Sprintf("abstract function %s not found in /repo", name)})
	}
	t := &tr{p: p, fn: name, env: map[string]*ty{}}
	var sig []*ty
	var parts []string
	for _, f := range d.Type.Params.List {
		for _, id := range f.Names {
			typ := t.goType(f.Type)
			if typ.k == "opt" && !usesNil(d.Body, id.Name) {
				typ = typ.elem
			}
			sig = append(sig, typ)
			parts = append(parts, typ.coq())
		}
	}
	if d.Type.Results == nil || len(d.Type.Results.List) != 1 || len(d.Type.Results.List[0].Names) > 1 {
		t.fail(d, "abstract pure function with other than one result")
	}
	rt := t.goType(d.Type.Results.List[0].Type)
	if rt.k == "opt" {
		rt = rt.elem
	}
	translated[name] = true
	funcSig[name] = sig
	funcRes[name] = rt
	parts = append(parts, rt.coq())
	return strings.Join(parts, " -> ")
}

// ---------- hooks called from writegen.go ----------

func (m *wgPsi) rw(e ast.Expr) (ast.Expr, bool) {
	s := m.s
	switch x := e.(type) {
	case *ast.Ident:
		if m.cb != nil && s.resolve(x.Name) == m.cb.acc {
			return s.leaf(x, "(wcb_value cb_on_ "+m.cb.fn+" "+cname(m.cb.acc)+" cbitems_)", m.cb.accTy), true
		}
	case *ast.CallExpr:
		if m.sec != nil && m.sec.floats {
			if r, ok := m.floatCall(x); ok {
				return r, true
			}
		}
	case *ast.FuncLit:
		s.fail(x, "function literal outside w.SetWriteCallback(..)")
	}
	return nil, false
}

// errorfArg: x.Type() as an argument of fmt.Errorf stands for x (the text of the error is not modelled).
func (m *wgPsi) errorfArg(a ast.Expr) ast.Expr {
	if c, ok := a.(*ast.CallExpr); ok && len(c.Args) == 0 {
		if sel, ok := c.Fun.(*ast.SelectorExpr); ok && sel.Sel.Name == "Type" {
			return sel.X
		}
	}
	return a
}

var wordRe = map[string]*regexp.Regexp{}

func wordIn(text, name string) bool {
	re, ok := wordRe[name]
	if !ok {
		re = regexp.MustCompile(`(^|[^A-Za-z0-9_'])` + regexp.QuoteMeta(name) + `($|[^A-Za-z0-9_'])`)
		wordRe[name] = re
	}
	return re.MatchString(text)
}

func (m *wgPsi) bindTracked(vars []string, comp string, k func() string) string {
	s := m.s
	for f := range wgSetsCb {
		if wordIn(comp, f) {
			s.fail(s.stmtNodeOr(), "%s registers a write callback while one is registered", f)
		}
	}
	it := s.fresh("its")
	pat := "_"
	if len(vars) > 0 {
		pat = wgTup(vars)
	}
	s.wrote("cbitems_")
	return "'(" + it + ", " + pat + ") <- wlisten (" + comp + ") ;;\n  let cbitems_ := (cbitems_ ++ " + it + ") in\n  " + k()
}

func (s *wg) stmtNodeOr() ast.Node {
	if s.stmtNode != nil {
		return s.stmtNode
	}
	return s.p.funcs[s.key]
}

// setCallbackCall recognises w.SetWriteCallback(arg) on the function's writer.
func (m *wgPsi) setCallbackCall(e ast.Expr) (ast.Expr, bool) {
	c, ok := e.(*ast.CallExpr)
	if !ok || len(c.Args) != 1 {
		return nil, false
	}
	sel, ok := c.Fun.(*ast.SelectorExpr)
	if !ok || sel.Sel.Name != "SetWriteCallback" {
		return nil, false
	}
	if !isIdent(sel.X, m.s.wname) || m.s.wname == "" {
		m.s.fail(e, "SetWriteCallback on something that is not the function's writer")
	}
	return c.Args[0], true
}

func (m *wgPsi) isDeferReset(st ast.Stmt) bool {
	d, ok := st.(*ast.DeferStmt)
	if !ok {
		return false
	}
	arg, ok := m.setCallbackCall(d.Call)
	return ok && isNilIdent(arg)
}

// register: the statements of the block that registers the callback (cond = nil: unconditional).
func (m *wgPsi) register(cond ast.Expr, block []ast.Stmt, n ast.Node, rest func() string) (string, bool) {
	s := m.s
	if len(block) == 0 {
		return "", false
	}
	es, ok := block[0].(*ast.ExprStmt)
	if !ok {
		return "", false
	}
	arg, ok := m.setCallbackCall(es.X)
	if !ok {
		return "", false
	}
	if len(block) > 2 || (len(block) == 2 && !m.isDeferReset(block[1])) {
		s.fail(n, "the block that registers the write callback does something else than `defer w.SetWriteCallback(nil)`")
	}
	lit, ok := arg.(*ast.FuncLit)
	if !ok {
		s.fail(n, "SetWriteCallback with something that is not a function literal")
	}
	if m.cb != nil {
		s.fail(n, "a second write callback")
	}
	if s.depth != 0 {
		s.fail(n, "a write callback is registered inside a block")
	}
	if lit.Type.Results != nil || len(lit.Type.Params.List) != 1 || len(lit.Type.Params.List[0].Names) != 1 {
		s.fail(n, "the write callback is not a func(bs []byte)")
	}
	if pt := s.gotype(lit.Type.Params.List[0].Type, n); pt.k != "bytes" {
		s.fail(n, "the write callback is not a func(bs []byte)")
	}
	bs := lit.Type.Params.List[0].Names[0].Name
	if _, clash := s.t.env[s.resolve(bs)]; clash {
		s.fail(n, "the parameter of the write callback shadows a variable")
	}
	if len(lit.Body.List) != 1 {
		s.fail(n, "the write callback is not a single assignment v = F(v, bs)")
	}
	as, ok := lit.Body.List[0].(*ast.AssignStmt)
	if !ok || as.Tok != token.ASSIGN || len(as.Lhs) != 1 || len(as.Rhs) != 1 {
		s.fail(n, "the write callback is not a single assignment v = F(v, bs)")
	}
	vid, ok := as.Lhs[0].(*ast.Ident)
	if !ok {
		s.fail(n, "the write callback assigns something that is not a local variable")
	}
	acc := s.resolve(vid.Name)
	accTy, ok := s.t.env[acc]
	if !ok || s.leaves[acc] || s.declDepth[acc] != 0 {
		s.fail(n, "the write callback assigns %s, which is not a local variable of the function's top level", vid.Name)
	}
	for _, r := range s.named {
		if r == vid.Name {
			s.fail(n, "the write callback assigns a named result")
		}
	}
	c := "true"
	if cond != nil {
		var ct *ty
		c, ct = s.sx(cond)
		if ct.k != "bool" {
			s.fail(n, "condition is not a boolean")
		}
	}
	pre := s.flush()
	s.t.env[bs] = tBytes
	fs, ft := s.sx(as.Rhs[0])
	delete(s.t.env, bs)
	if len(s.pre) != 0 {
		s.fail(n, "the write callback dereferences a pointer")
	}
	if !mgAssignable(ft, accTy) {
		s.fail(n, "the write callback assigns a %s to a variable of type %s", ft.coq(), accTy.coq())
	}
	m.cb = &wgCallback{acc: acc, accTy: accTy, fn: "(fun " + cname(acc) + " " + cname(bs) + " => " + fs + ")"}
	s.t.bind("cb_on_", tBool, n.Pos())
	s.declDepth["cb_on_"] = 0
	s.t.bind("cbitems_", tyGItems, n.Pos())
	s.declDepth["cbitems_"] = 0
	return pre + "let cb_on_ := " + c + " in\n  let cbitems_ := (@nil gitem) in\n  " + rest(), true
}

func (m *wgPsi) assignsAcc(st ast.Stmt) bool {
	if m.cb == nil {
		return false
	}
	found := false
	ast.Inspect(st, func(n ast.Node) bool {
		switch x := n.(type) {
		case *ast.AssignStmt:
			for _, l := range x.Lhs {
				if id, ok := l.(*ast.Ident); ok && m.s.resolve(id.Name) == m.cb.acc {
					found = true
				}
			}
		case *ast.IncDecStmt:
			if id, ok := x.X.(*ast.Ident); ok && m.s.resolve(id.Name) == m.cb.acc {
				found = true
			}
		}
		return true
	})
	return found
}

func (m *wgPsi) stmt(list []ast.Stmt, k func() string) (string, bool) {
	s := m.s
	rest := func() string { return s.stmts(list[1:], k) }
	if m.assignsAcc(list[0]) {
		s.fail(list[0], "%s is assigned while the write callback that accumulates into it is registered", m.cb.acc)
	}
	switch st := list[0].(type) {
	case *ast.RangeStmt:
		return m.rangeStmt(st, list[1:], k), true
	case *ast.DeferStmt:
		if m.isDeferReset(st) {
			return rest(), true
		}
		s.fail(st, "defer of something else than w.SetWriteCallback(nil)")
	case *ast.ExprStmt:
		if arg, ok := m.setCallbackCall(st.X); ok {
			if isNilIdent(arg) {
				s.fail(st, "w.SetWriteCallback(nil) that is not deferred")
			}
			return m.register(nil, []ast.Stmt{st}, st, rest)
		}
	case *ast.IfStmt:
		if st.Init == nil && st.Else == nil {
			if out, ok := m.register(st.Cond, st.Body.List, st, rest); ok {
				return out, true
			}
		}
	case *ast.AssignStmt:
		// x, _ = f(args) for a function of Gen/Preds.v with several results
		if len(st.Lhs) > 1 && len(st.Rhs) == 1 {
			if c, ok := st.Rhs[0].(*ast.CallExpr); ok {
				if f, ok := c.Fun.(*ast.Ident); ok && translated[f.Name] && funcRes[f.Name] != nil && funcRes[f.Name].k == "tuple" {
					d := s.p.funcs[f.Name]
					var rts []*ty
					for _, fl := range d.Type.Results.List {
						typ := s.gotype(fl.Type, st)
						if typ.k == "opt" {
							typ = typ.elem
						}
						kk := len(fl.Names)
						if kk == 0 {
							kk = 1
						}
						for i := 0; i < kk; i++ {
							rts = append(rts, typ)
						}
					}
					if len(rts) != len(st.Lhs) {
						s.fail(st, "%d values assigned from a call that yields %d", len(st.Lhs), len(rts))
					}
					sig := funcSig[f.Name]
					if len(sig) != len(c.Args) {
						s.fail(st, "wrong number of arguments for %s", f.Name)
					}
					parts := []string{f.Name}
					for i, a := range c.Args {
						parts = append(parts, paren(s.value(a, sig[i], st)))
					}
					pre := s.flush()
					var tmps []string
					for range rts {
						tmps = append(tmps, s.fresh("t"))
					}
					out := "let '(" + strings.Join(tmps, ", ") + ") := (" + strings.Join(parts, " ") + ") in\n  "
					for i, l := range st.Lhs {
						out += s.assignTo(l, st.Tok, tmps[i], rts[i], st)
					}
					return pre + out + rest(), true
				}
			}
		}
	case *ast.ReturnStmt:
		nres := len(st.Results)
		if nres == 0 {
			return "", false
		}
		name, _, isCall := s.funcCall(st.Results[nres-1])
		if !isCall {
			return "", false
		}
		sig, ok := wgFuncs[name]
		if !ok {
			s.fail(st, "call of the untranslated writer %s", name)
		}
		if nres-1+len(sig.results) != len(s.results) {
			s.fail(st, "wrong number of results")
		}
		for _, r := range st.Results[:nres-1] {
			switch r.(type) {
			case *ast.Ident, *ast.BasicLit:
			default:
				s.fail(st, "a result in front of a writer call is neither a variable nor a literal")
			}
		}
		var lhs, res []ast.Expr
		res = append(res, st.Results[:nres-1]...)
		for i := range sig.results {
			id := &ast.Ident{NamePos: st.Pos(), Name: fmt.Sprintf("ret%d_", i+1)}
			lhs = append(lhs, id)
			res = append(res, id)
		}
		as := &ast.AssignStmt{Lhs: lhs, TokPos: st.Pos(), Tok: token.DEFINE, Rhs: []ast.Expr{st.Results[nres-1]}}
		outer, d := s.envNames(), s.depth
		s.depth++
		out := s.stmts([]ast.Stmt{as, &ast.ReturnStmt{Return: st.Pos(), Results: res}}, func() string { return "" })
		s.depth = d
		s.restrictEnv(outer)
		return out, true
	}
	return "", false
}

// rangeStmt: for _, x := range xs { body } as a Fixpoint on the list.
func (m *wgPsi) rangeStmt(st *ast.RangeStmt, rest []ast.Stmt, k func() string) string {
	s := m.s
	if st.Key != nil && !isBlank(st.Key) {
		s.fail(st, "range with an index variable")
	}
	var vid *ast.Ident
	if st.Value != nil && !isBlank(st.Value) {
		id, ok := st.Value.(*ast.Ident)
		if !ok || st.Tok != token.DEFINE {
			s.fail(st, "range that does not declare its element variable")
		}
		vid = id
	}
	outer, outerDepth := s.envNames(), s.depth
	xs, xt := s.sx(st.X)
	var et *ty
	switch xt.k {
	case "bytes":
		et = &ty{k: "int", w: 8}
	case "list":
		et = xt.elem
	default:
		s.fail(st, "range over something that is not a slice")
	}
	pre := s.flush()
	ast.Inspect(st.Body, func(n ast.Node) bool {
		switch b := n.(type) {
		case *ast.BranchStmt:
			s.fail(b, "%s inside a loop", b.Tok)
		case *ast.FuncLit:
			s.fail(b, "function literal inside a loop")
		case *ast.DeferStmt:
			s.fail(b, "defer inside a loop")
		}
		return true
	})
	s.nloop++
	name := fmt.Sprintf("%s_loop%d", strings.ReplaceAll(s.key, ".", "_"), s.nloop)
	vars := s.envVars()
	s.nfresh++
	phRec := fmt.Sprintf("@@REC%d@@", s.nfresh)
	saved := s.snapshot()
	s.pushW()
	s.depth++
	elem := "_"
	if vid != nil {
		elem = cname(s.define(vid, vid.Name, et))
	}
	s.depth++
	bodyOuter, bodyDepth := s.envNames(), s.depth
	text := s.stmts(st.Body.List, func() string {
		s.depth = bodyDepth
		s.restrictEnv(bodyOuter)
		return phRec
	})
	w := s.popW()
	s.restore(saved)
	s.depth = outerDepth
	var cvars, ctys []string
	for v := range w {
		if _, ok := saved.env[v]; ok && !s.leaves[v] {
			cvars = append(cvars, v)
		}
	}
	s.t.sortDecl(cvars)
	carried := map[string]bool{}
	for _, v := range cvars {
		ctys = append(ctys, saved.env[v].coq())
		carried[v] = true
	}
	cty := "unit"
	if len(ctys) > 0 {
		cty = strings.Join(ctys, " * ")
	}
	// the parameters of the Fixpoint: the variables in scope that the body mentions or carries
	var binders, args []string
	for _, v := range vars {
		if carried[v] || wordIn(text, cname(v)) {
			binders = append(binders, fmt.Sprintf("(%s : %s)", cname(v), saved.env[v].coq()))
			args = append(args, cname(v))
		}
	}
	sp := ""
	if len(args) > 0 {
		sp = " "
	}
	text = strings.ReplaceAll(text, phRec, "("+name+" l_"+sp+strings.Join(args, " ")+")")
	def := fmt.Sprintf("Fixpoint %s (l_ : list %s)%s%s {struct l_} : WM (%s) (%s) :=\n  match l_ with\n  | [] => wret %s\n  | %s :: l_ =>\n  %s\n  end.\n\n",
		name, et.coq(), sp, strings.Join(binders, " "), s.retTy, cty, wgTup(cnames(cvars)), elem, text)
	s.loops = append(s.loops, def)
	call := "(" + name + " " + paren(xs) + sp + strings.Join(args, " ") + ")"
	s.restrictEnv(outer)
	for _, v := range cvars {
		s.wrote(v)
	}
	return pre + wgBind(cnames(cvars), call, s.stmts(rest, k))
}

// ---------- dvb.go: the float / package-time expressions ----------

var psiwFloatVars = []struct{ name, typ, doc string }{
	{"dvb_hours_u8", "Z -> Z", "uint8(d.Hours())"},
	{"dvb_minutes_int", "Z -> Z", "int(d.Minutes())"},
	{"dvb_seconds_int", "Z -> Z", "int(d.Seconds())"},
	{"time_Year", "Z -> Z", "t.Year()"},
	{"time_Month", "Z -> Z", "t.Month()"},
	{"time_Day", "Z -> Z", "t.Day()"},
	{"dvb_mul_trunc", "Z -> Z -> Z -> Z", "int(float64(e) * <literal num/den>)"},
	{"time_since_truncate", "Z -> Z -> Z", "t.Sub(t.Truncate(u))"},
}

// method call x.M() without arguments
func methodCall0(e ast.Expr, name string) (ast.Expr, bool) {
	c, ok := e.(*ast.CallExpr)
	if !ok || len(c.Args) != 0 {
		return nil, false
	}
	sel, ok := c.Fun.(*ast.SelectorExpr)
	if !ok || sel.Sel.Name != name {
		return nil, false
	}
	return sel.X, true
}

func conv1(e ast.Expr, name string) (ast.Expr, bool) {
	c, ok := e.(*ast.CallExpr)
	if !ok || len(c.Args) != 1 || !isIdent(c.Fun, name) {
		return nil, false
	}
	return c.Args[0], true
}

func (m *wgPsi) floatCall(x *ast.CallExpr) (ast.Expr, bool) {
	s := m.s
	intArg := func(e ast.Expr) string {
		v, vt := s.sx(e)
		if vt.k != "int" && vt.k != "untyped" {
			s.fail(e, "a time / duration value that is not an integer in this model")
		}
		return paren(v)
	}
	if a, ok := conv1(x, "uint8"); ok {
		if r, ok := methodCall0(a, "Hours"); ok {
			return s.leaf(x, "(dvb_hours_u8 "+intArg(r)+")", &ty{k: "int", w: 8}), true
		}
	}
	if a, ok := conv1(x, "int"); ok {
		if r, ok := methodCall0(a, "Minutes"); ok {
			return s.leaf(x, "(dvb_minutes_int "+intArg(r)+")", tInt), true
		}
		if r, ok := methodCall0(a, "Seconds"); ok {
			return s.leaf(x, "(dvb_seconds_int "+intArg(r)+")", tInt), true
		}
		// int(float64(e) * literal)
		if b, ok := a.(*ast.BinaryExpr); ok && b.Op == token.MUL {
			if fe, ok := conv1(b.X, "float64"); ok {
				if lit, ok := b.Y.(*ast.BasicLit); ok && (lit.Kind == token.FLOAT || lit.Kind == token.INT) {
					r, ok := new(big.Rat).SetString(lit.Value)
					if !ok {
						s.fail(x, "unreadable literal %s", lit.Value)
					}
					return s.leaf(x, "(dvb_mul_trunc "+intArg(fe)+" "+coqZ(r.Num())+" "+coqZ(r.Denom())+")", tInt), true
				}
			}
		}
	}
	for _, mth := range []string{"Year", "Month", "Day"} {
		if r, ok := methodCall0(x, mth); ok {
			return s.leaf(x, "(time_"+mth+" "+intArg(r)+")", tInt), true
		}
	}
	// t.Sub(t.Truncate(u))
	if sel, ok := x.Fun.(*ast.SelectorExpr); ok && sel.Sel.Name == "Sub" && len(x.Args) == 1 {
		if in, ok := x.Args[0].(*ast.CallExpr); ok && len(in.Args) == 1 {
			if isel, ok := in.Fun.(*ast.SelectorExpr); ok && isel.Sel.Name == "Truncate" {
				a, okA := sel.X.(*ast.Ident)
				b, okB := isel.X.(*ast.Ident)
				if okA && okB && a.Name == b.Name {
					return s.leaf(x, "(time_since_truncate "+intArg(a)+" "+intArg(in.Args[0])+")", tInt), true
				}
			}
		}
	}
	return nil, false
}

// ---------- statement forms added to the pure translator of preds.go ----------

func psiwTrHook(t *tr, list []ast.Stmt, k func() string) (string, bool) {
	switch st := list[0].(type) {
	case *ast.AssignStmt:
		if len(st.Lhs) > 1 && len(st.Rhs) == 1 {
			c, ok := st.Rhs[0].(*ast.CallExpr)
			if !ok {
				return "", false
			}
			f, ok := c.Fun.(*ast.Ident)
			if !ok || !translated[f.Name] || funcRes[f.Name] == nil || funcRes[f.Name].k != "tuple" {
				return "", false
			}
			if st.Tok != token.DEFINE {
				t.fail(st, "assignment (not definition) from a call with several results")
			}
			d := t.p.funcs[f.Name]
			var rts []*ty
			for _, fl := range d.Type.Results.List {
				typ := t.goType(fl.Type)
				if typ.k == "opt" {
					typ = typ.elem
				}
				kk := len(fl.Names)
				if kk == 0 {
					kk = 1
				}
				for i := 0; i < kk; i++ {
					rts = append(rts, typ)
				}
			}
			if len(rts) != len(st.Lhs) {
				t.fail(st, "%d values assigned from a call that yields %d", len(st.Lhs), len(rts))
			}
			call, _ := t.expr(c)
			var pats []string
			for i, l := range st.Lhs {
				id, ok := l.(*ast.Ident)
				if !ok {
					t.fail(st, "unsupported assignment target")
				}
				if id.Name == "_" {
					pats = append(pats, "_")
					continue
				}
				if _, clash := t.env[id.Name]; clash {
					t.fail(st, "%s is redeclared", id.Name)
				}
				t.bind(id.Name, rts[i], id.Pos())
				pats = append(pats, cname(id.Name))
			}
			return "let '(" + strings.Join(pats, ", ") + ") := " + call + " in\n  " + t.stmts(list[1:], k), true
		}
	case *ast.IfStmt:
		if st.Init != nil {
			as, ok := st.Init.(*ast.AssignStmt)
			if !ok || as.Tok != token.DEFINE {
				t.fail(st, "if with an init statement that is not a definition")
			}
			for _, l := range as.Lhs {
				id, ok := l.(*ast.Ident)
				if !ok {
					t.fail(st, "unsupported assignment target")
				}
				if _, clash := t.env[id.Name]; clash && id.Name != "_" {
					t.fail(st, "%s is redeclared by an if statement", id.Name)
				}
			}
			c := *st
			c.Init = nil
			return t.stmts(append([]ast.Stmt{st.Init, &c}, list[1:]...), k), true
		}
	}
	return "", false
}

// ---------- the file ----------

const psiwHeader = `(* Generated from the CURRENT source of the PSI / descriptor / DVB writers of /repo (data_psi.go, data_pat.go, data_pmt.go,
   descriptor.go, dvb.go) by go/gen (psiwritegen.go, on the statement translator of writegen.go) on every run. Do not edit.

   Conventions of Gen/WriteGen.v (writer monad WM / WF, items tagged WBatch / WDirect / WDropped, merror, WPanic for a nil
   dereference), plus: ` + "`for _, x := range xs`" + ` is a Fixpoint on the list (an element of a []*T is the record T); a callee outside
   the section is a Section Variable typed from its Go declaration; a function without a writer that dereferences pointers
   is in the same monad (no items); the write callback of writePSISection is the ghost variable cbitems_ (the items handed
   over since the registration) and wcb_value at the place where the accumulator is read. See the head of
   go/gen/psiwritegen.go. Proofs/PsiWriteGen*.v prove the hand-written writers of Model/Psi.v, Model/Desc.v, Model/Dvb.v
   equal to these definitions, the Section Variables instantiated with the models' functions. *)
From Coq Require Import ZArith List Bool.
Require Import Base.Wr Gen.Consts Gen.Types Gen.Preds Gen.MuxGen Gen.WriteGen.
Import ListNotations.
Open Scope Z_scope.
Open Scope wm_scope.

(* run m and also return the items it handed over *)
Definition wlisten {R A} (m : WM R A) : WM R (list gitem * A) :=
  match m with
  | (l, WVal a) => (l, WVal (l, a))
  | (l, WExit r) => (l, WExit r)
  | (l, WPanic) => (l, WPanic)
  end.

(* the value of the variable a write callback func(bs) { v = f(v, bs) } accumulates into, after the items were handed to a
   BitsWriter that held no pending bits when the callback was registered: astikit calls the callback once per byte written *)
Definition wcb_value {A} (on : bool) (f : A -> list Z -> A) (v0 : A) (items : list gitem) : A :=
  if on then fold_left f (map (fun b => [b]) (bytes_of_items (map snd items))) v0 else v0.

`

func (p *pkg) emitPsiWriteGen() string {
	opaqueTypes["gitems"] = "(list gitem)"
	trStmtHook = psiwTrHook
	defer func() { trStmtHook = nil }()
	var body strings.Builder
	for k := range psiwSections {
		sec := &psiwSections[k]
		var vars strings.Builder
		declare := func(what string, f func()) {
			defer func() {
				if r := recover(); r != nil {
					ge, ok := r.(genError)
					if !ok {
						panic(r)
					}
					fmt.Fprintf(os.Stderr, "gen: not declared: %s\n", ge.msg)
					fmt.Fprintf(&vars, "(* NOT DECLARED (%s): %s *)\n", what, strings.ReplaceAll(strings.ReplaceAll(ge.msg, "*)", "* )"), "(*", "( *"))
				}
			}()
			f()
		}
		for _, n := range sec.abstractP {
			n := n
			declare(n, func() { fmt.Fprintf(&vars, "Variable %s : %s.\n", n, p.psiwDeclarePure(n)) })
		}
		for _, n := range sec.abstractW {
			n := n
			declare(n, func() {
				sig := p.wgDeclSig(n)
				wgFuncs[n] = sig
				fmt.Fprintf(&vars, "Variable %s : %s.\n", n, sig.coqType())
			})
		}
		if sec.floats {
			for _, v := range psiwFloatVars {
				fmt.Fprintf(&vars, "Variable %s : %s.   (* %s *)\n", v.name, v.typ, v.doc)
			}
		}
		var b strings.Builder
		for _, e := range sec.entries {
			e := e
			func() {
				defer func() {
					if r := recover(); r != nil {
						ge, ok := r.(genError)
						if !ok {
							panic(r)
						}
						fmt.Fprintf(os.Stderr, "gen: not translated: %s\n", ge.msg)
						fmt.Fprintf(&b, "(* NOT TRANSLATED (%s left the translator's grammar): %s *)\n\n", e.key, strings.ReplaceAll(strings.ReplaceAll(ge.msg, "*)", "* )"), "(*", "( *"))
						// a caller must not be translated against a stale registration
						delete(wgFuncs, e.key)
						delete(wgPureM, e.key)
						delete(translated, e.key)
					}
				}()
				switch e.kind {
				case "pure":
					b.WriteString(p.function(e.key, false))
				default:
					w := p.newWg(e.key)
					w.psi = &wgPsi{s: w, pure: e.kind == "purem", sec: sec}
					text := w.function()
					if e.kind == "purem" {
						wgPureM[e.key] = true
					}
					if w.psi.cb != nil {
						wgSetsCb[e.key] = true
					}
					b.WriteString(text)
				}
			}()
		}
		fmt.Fprintf(&body, "Section %s.\n\n", sec.name)
		if vars.Len() > 0 {
			body.WriteString(vars.String())
			body.WriteString("\n")
		}
		body.WriteString(b.String())
		fmt.Fprintf(&body, "End %s.\n\n", sec.name)
	}
	return psiwHeader + body.String()
}
