package main

import (
	"fmt"
	"go/ast"
	"path/filepath"
	"sort"
	"strings"
)

// emitAlias walks every function of the package and lists the places where a byte slice is obtained from a
// BytesIterator (NextBytesNoCopy: a view of the iterator's buffer; NextBytes / Dump: a fresh copy) together with
// whether that slice can escape into what the function returns or stores. The analysis is syntactic and
// conservative: a slice obtained into a local variable `v` does not escape only if every other use of `v` in the
// function is an index read v[k], len(v), or an argument of a function known not to retain its argument; a slice
// assigned directly to anything but a plain local variable escapes.
func (p *pkg) emitAlias() string {
	type site struct {
		fn, file string
		line     int
		kind     string
		escapes  bool
	}
	var sites []site
	noRetain := map[string]bool{"len": true, "string": true, "computeCRC32": true, "updateCRC32": true,
		"Uint16": true, "Uint32": true, "Uint64": true, "Equal": true, "isPESPayload": true}
	var names []string
	for n := range p.funcs {
		names = append(names, n)
	}
	sort.Strings(names)
	for _, fname := range names {
		fd := p.funcs[fname]
		if fd.Body == nil {
			continue
		}
		// collect the obtaining assignments
		type obtain struct {
			lhs  ast.Expr
			kind string
			pos  ast.Node
		}
		var obs []obtain
		ast.Inspect(fd.Body, func(n ast.Node) bool {
			as, ok := n.(*ast.AssignStmt)
			if !ok || len(as.Rhs) != 1 {
				return true
			}
			call, ok := as.Rhs[0].(*ast.CallExpr)
			if !ok {
				return true
			}
			sel, ok := call.Fun.(*ast.SelectorExpr)
			if !ok {
				return true
			}
			kind := ""
			switch sel.Sel.Name {
			case "NextBytesNoCopy":
				kind = "ANoCopy"
			case "NextBytes":
				kind = "ACopy"
			case "Dump":
				kind = "ADump"
			}
			if kind == "" || len(as.Lhs) == 0 {
				return true
			}
			obs = append(obs, obtain{as.Lhs[0], kind, as})
			return true
		})
		for _, o := range obs {
			esc := true
			if id, ok := o.lhs.(*ast.Ident); ok && id.Name != "_" {
				esc = false
				// every other use of the variable
				var stack []ast.Node
				ast.Inspect(fd.Body, func(n ast.Node) bool {
					if n == nil {
						stack = stack[:len(stack)-1]
						return true
					}
					stack = append(stack, n)
					use, ok := n.(*ast.Ident)
					if !ok || use.Name != id.Name || len(stack) < 2 {
						return true
					}
					parent := stack[len(stack)-2]
					switch par := parent.(type) {
					case *ast.IndexExpr:
						if par.X == use {
							return true // v[k]
						}
					case *ast.AssignStmt:
						for _, l := range par.Lhs {
							if l == use {
								// assigned to: fine when the right-hand side is an obtaining call or nil
								return true
							}
						}
					case *ast.CallExpr:
						fn := ""
						switch f := par.Fun.(type) {
						case *ast.Ident:
							fn = f.Name
						case *ast.SelectorExpr:
							fn = f.Sel.Name
						}
						if noRetain[fn] {
							return true
						}
					case *ast.ValueSpec, *ast.Field:
						return true // declaration
					}
					esc = true
					return true
				})
			}
			pos := p.fset.Position(o.pos.Pos())
			sites = append(sites, site{fname, filepath.Base(pos.Filename), pos.Line, o.kind, esc})
		}
	}
	sort.Slice(sites, func(a, b int) bool {
		if sites[a].file != sites[b].file {
			return sites[a].file < sites[b].file
		}
		return sites[a].line < sites[b].line
	})
	var b strings.Builder
	b.WriteString("(* Generated from /repo by go/gen on every run. Do not edit.\n   Every place where a parser obtains a byte slice from a BytesIterator: ANoCopy = NextBytesNoCopy (a view of the\n   iterator's buffer, which is the demuxer's reused read buffer or a pooled scratch buffer), ACopy = NextBytes,\n   ADump = Dump (fresh copies).  escapes = the slice may flow into what the function returns or stores\n   (syntactic, conservative: see go/gen/alias.go). *)\nFrom Coq Require Import ZArith List String.\nImport ListNotations.\nOpen Scope Z_scope.\nOpen Scope string_scope.\n\nInductive akind := ANoCopy | ACopy | ADump.\nRecord asite := mk_asite { as_fn : string; as_file : string; as_line : Z; as_kind : akind; as_escapes : bool }.\n\nDefinition alias_sites : list asite := [\n")
	for i, s := range sites {
		sep := ";"
		if i == len(sites)-1 {
			sep = ""
		}
		fmt.Fprintf(&b, "  mk_asite %q %q %d %s %v%s\n", s.fn, s.file, s.line, s.kind, s.escapes, sep)
	}
	b.WriteString("].\n")
	return b.String()
}
