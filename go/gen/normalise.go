// normalise.go: source level normalisations applied to every function of /repo right after parsing, before any of the
// translators sees it. They remove spellings that differ only by a harmless rewrite, so that such a rewrite regenerates
// the same Gallina term (and no proof about the regenerated definitions moves):
//
//	(a) a constant declared inside a function body (`const name = <constant expression>`, `const name T = ...`) is
//	    substituted at its uses — as the expression itself, or as the conversion T(<expression>) when the declaration
//	    carries a type — and the declaration is dropped: the translators then see exactly what they would have seen had
//	    the expression been written in place. A local constant whose name is also declared anywhere else (package level,
//	    universe, import, parameter, another local declaration: shadowing in either direction), that uses iota or
//	    implicit repetition, or that occurs as a composite literal key (a field name cannot be told from the constant
//	    without types) is left in place; the translators that do not accept constant declarations then refuse loudly.
//	    The translator of Gen/DemuxGen.v already binds local constants with `let` (autoDetectPacketSize: const l = 193,
//	    used three times); it keeps doing so for a constant that is used more than once — both renderings are faithful,
//	    this one keeps Gen/DemuxGen.v as it is: that translator runs on p.raw, a second parse of the same files in which
//	    only the local constants with at most one use are substituted.
//	(b) comparisons of len(x) / cap(x) with the literals 0 and 1 that say "empty" (== 0, < 1, <= 0, 0 ==, 1 >, 0 >=)
//	    become `len(x) == 0`; those that say "not empty" (!= 0, > 0, >= 1, 0 <, 0 !=, 1 <=) become `len(x) > 0`: a
//	    length is never negative. These are the two spellings /repo uses today.
package main

import (
	"go/ast"
	"go/token"
	"math/big"
	"reflect"
	"sort"
	"strings"
)

var universe = map[string]bool{}

func init() {
	for _, n := range strings.Fields(`bool byte complex64 complex128 error float32 float64 int int8 int16 int32 int64 rune
		string uint uint8 uint16 uint32 uint64 uintptr any comparable true false iota nil append cap clear close complex
		copy delete imag len make max min new panic print println real recover _`) {
		universe[n] = true
	}
}

// normalise applies (a) and (b) to every function of the package; with multi unset (a) leaves the local constants that
// are used more than once to the translator.
func (p *pkg) normalise(multi bool) {
	var keys []string
	for k := range p.funcs {
		keys = append(keys, k)
	}
	sort.Strings(keys)
	for _, k := range keys {
		d := p.funcs[k]
		if d.Body == nil {
			continue
		}
		p.inlineLocalConsts(d, multi)
		p.normaliseLenCmp(d)
	}
}

// ---------- (b) len(x) against 0 and 1 ----------

func (p *pkg) isLenCall(e ast.Expr) bool {
	c, ok := e.(*ast.CallExpr)
	if !ok || len(c.Args) != 1 || c.Ellipsis.IsValid() {
		return false
	}
	id, ok := c.Fun.(*ast.Ident)
	if !ok || (id.Name != "len" && id.Name != "cap") || id.Obj != nil {
		return false
	}
	_, shadowed := p.funcs[id.Name]
	return !shadowed
}

// lit01 recognises the integer literals 0 and 1 (in any base, possibly parenthesised).
func lit01(e ast.Expr) (int, *ast.BasicLit, bool) {
	for {
		pe, ok := e.(*ast.ParenExpr)
		if !ok {
			break
		}
		e = pe.X
	}
	l, ok := e.(*ast.BasicLit)
	if !ok || l.Kind != token.INT {
		return 0, nil, false
	}
	v, ok := new(big.Int).SetString(strings.ReplaceAll(l.Value, "_", ""), 0)
	if !ok || !v.IsInt64() || (v.Int64() != 0 && v.Int64() != 1) {
		return 0, nil, false
	}
	return int(v.Int64()), l, true
}

func (p *pkg) normaliseLenCmp(d *ast.FuncDecl) {
	flip := map[token.Token]token.Token{token.EQL: token.EQL, token.NEQ: token.NEQ, token.LSS: token.GTR, token.GTR: token.LSS,
		token.LEQ: token.GEQ, token.GEQ: token.LEQ}
	ast.Inspect(d.Body, func(n ast.Node) bool {
		b, ok := n.(*ast.BinaryExpr)
		if !ok {
			return true
		}
		if _, cmp := flip[b.Op]; !cmp {
			return true
		}
		var l ast.Expr
		var v int
		var lit *ast.BasicLit
		op := b.Op
		if w, bl, ok := lit01(b.Y); ok && p.isLenCall(b.X) {
			l, v, lit = b.X, w, bl
		} else if w, bl, ok := lit01(b.X); ok && p.isLenCall(b.Y) {
			l, v, lit, op = b.Y, w, bl, flip[b.Op]
		} else {
			return true
		}
		var to token.Token
		switch {
		case (op == token.EQL && v == 0) || (op == token.LSS && v == 1) || (op == token.LEQ && v == 0):
			to = token.EQL
		case (op == token.NEQ && v == 0) || (op == token.GTR && v == 0) || (op == token.GEQ && v == 1):
			to = token.GTR
		default:
			return true
		}
		if lit.Value != "0" {
			lit = &ast.BasicLit{ValuePos: lit.ValuePos, Kind: token.INT, Value: "0"}
		}
		b.X, b.Op, b.Y = l, to, lit
		return true
	})
}

// ---------- (a) constants declared inside a function ----------

func (p *pkg) isOuterName(n string) bool {
	if universe[n] || p.imports[n] {
		return true
	}
	if _, ok := p.consts[n]; ok {
		return true
	}
	if _, ok := p.vars[n]; ok {
		return true
	}
	if _, ok := p.types[n]; ok {
		return true
	}
	if _, ok := p.structs[n]; ok {
		return true
	}
	_, ok := p.funcs[n]
	return ok
}

func (p *pkg) inlineLocalConsts(d *ast.FuncDecl, multi bool) {
	var specs []*ast.ValueSpec
	ast.Inspect(d.Body, func(n ast.Node) bool {
		if ds, ok := n.(*ast.DeclStmt); ok {
			if gd, ok := ds.Decl.(*ast.GenDecl); ok && gd.Tok == token.CONST {
				for _, s := range gd.Specs {
					if vs, ok := s.(*ast.ValueSpec); ok {
						specs = append(specs, vs)
					}
				}
			}
		}
		return true
	})
	if len(specs) == 0 {
		return
	}
	// every object the parser resolved inside this declaration, by name; and the objects used as composite literal keys
	objs := map[string]map[*ast.Object]bool{}
	keyObjs := map[*ast.Object]bool{}
	occ := map[*ast.Object]int{} // occurrences, the declaring one included
	ast.Inspect(d, func(n ast.Node) bool {
		switch x := n.(type) {
		case *ast.Ident:
			if x.Obj != nil {
				if objs[x.Name] == nil {
					objs[x.Name] = map[*ast.Object]bool{}
				}
				objs[x.Name][x.Obj] = true
				occ[x.Obj]++
			}
		case *ast.KeyValueExpr:
			if id, ok := x.Key.(*ast.Ident); ok && id.Obj != nil {
				keyObjs[id.Obj] = true
			}
		}
		return true
	})
	removed := map[*ast.ValueSpec]bool{}
	for _, s := range specs {
		if len(s.Values) != len(s.Names) {
			continue
		}
		ok := true
		for _, v := range s.Values {
			ast.Inspect(v, func(n ast.Node) bool {
				if id, isId := n.(*ast.Ident); isId && id.Name == "iota" {
					ok = false
				}
				return true
			})
		}
		for _, id := range s.Names {
			if id.Name == "_" {
				continue
			}
			o := id.Obj
			if o == nil || o.Kind != ast.Con || o.Decl != interface{}(s) || p.isOuterName(id.Name) || len(objs[id.Name]) != 1 || keyObjs[o] || (!multi && occ[o] > 2) {
				ok = false
			}
		}
		if !ok {
			continue
		}
		for i, id := range s.Names {
			if id.Name == "_" {
				continue
			}
			o, val, typ := id.Obj, s.Values[i], s.Type
			rewriteExprs(d.Body, func(e ast.Expr) ast.Expr {
				u, isId := e.(*ast.Ident)
				if !isId || u.Obj != o {
					return e
				}
				c := copyExpr(val)
				if typ != nil {
					return &ast.CallExpr{Fun: copyExpr(typ), Lparen: u.Pos(), Args: []ast.Expr{c}, Rparen: u.End()}
				}
				return c
			})
		}
		removed[s] = true
	}
	if len(removed) == 0 {
		return
	}
	emptied := func(st ast.Stmt) bool {
		ds, ok := st.(*ast.DeclStmt)
		if !ok {
			return false
		}
		gd, ok := ds.Decl.(*ast.GenDecl)
		if !ok || gd.Tok != token.CONST {
			return false
		}
		var keep []ast.Spec
		had := false
		for _, s := range gd.Specs {
			if vs, ok := s.(*ast.ValueSpec); ok && removed[vs] {
				had = true
				continue
			}
			keep = append(keep, s)
		}
		gd.Specs = keep
		return had && len(keep) == 0
	}
	filter := func(list []ast.Stmt) []ast.Stmt {
		var out []ast.Stmt
		for _, st := range list {
			if !emptied(st) {
				out = append(out, st)
			}
		}
		return out
	}
	ast.Inspect(d.Body, func(n ast.Node) bool {
		switch x := n.(type) {
		case *ast.BlockStmt:
			x.List = filter(x.List)
		case *ast.CaseClause:
			x.Body = filter(x.Body)
		case *ast.CommClause:
			x.Body = filter(x.Body)
		case *ast.LabeledStmt:
			if emptied(x.Stmt) {
				x.Stmt = &ast.EmptyStmt{Semicolon: x.Stmt.Pos(), Implicit: true}
			}
		}
		return true
	})
}

// ---------- a small generic rewriter / copier over go/ast (reflection; the tree is acyclic once Obj/Scope are skipped) ----------

var (
	exprIface = reflect.TypeOf((*ast.Expr)(nil)).Elem()
	objPtr    = reflect.TypeOf((*ast.Object)(nil))
	scopePtr  = reflect.TypeOf((*ast.Scope)(nil))
)

// rewriteExprs replaces, bottom-up, every slot of static type ast.Expr below n by f(slot). Replacements are not revisited.
func rewriteExprs(n ast.Node, f func(ast.Expr) ast.Expr) {
	rwNode(reflect.ValueOf(n), f)
}

func rwNode(v reflect.Value, f func(ast.Expr) ast.Expr) {
	switch v.Kind() {
	case reflect.Interface:
		if !v.IsNil() {
			rwNode(v.Elem(), f)
		}
	case reflect.Ptr:
		if v.IsNil() || v.Type() == objPtr || v.Type() == scopePtr || v.Elem().Kind() != reflect.Struct {
			return
		}
		e := v.Elem()
		for i := 0; i < e.NumField(); i++ {
			rwSlot(e.Field(i), f)
		}
	case reflect.Slice:
		for i := 0; i < v.Len(); i++ {
			rwSlot(v.Index(i), f)
		}
	}
}

func rwSlot(s reflect.Value, f func(ast.Expr) ast.Expr) {
	switch s.Kind() {
	case reflect.Interface, reflect.Ptr, reflect.Slice:
		rwNode(s, f)
	}
	if s.Type() == exprIface && !s.IsNil() && s.CanSet() {
		old := s.Interface().(ast.Expr)
		if nw := f(old); nw != old {
			s.Set(reflect.ValueOf(nw))
		}
	}
}

func copyExpr(e ast.Expr) ast.Expr {
	return deepCopy(reflect.ValueOf(e)).Interface().(ast.Expr)
}

func deepCopy(v reflect.Value) reflect.Value {
	switch v.Kind() {
	case reflect.Interface:
		if v.IsNil() {
			return v
		}
		r := reflect.New(v.Type()).Elem()
		r.Set(deepCopy(v.Elem()))
		return r
	case reflect.Ptr:
		if v.IsNil() || v.Type() == objPtr || v.Type() == scopePtr || v.Elem().Kind() != reflect.Struct {
			return v
		}
		n := reflect.New(v.Type().Elem())
		for i := 0; i < v.Elem().NumField(); i++ {
			n.Elem().Field(i).Set(deepCopy(v.Elem().Field(i)))
		}
		return n
	case reflect.Slice:
		if v.IsNil() {
			return v
		}
		n := reflect.MakeSlice(v.Type(), v.Len(), v.Len())
		for i := 0; i < v.Len(); i++ {
			n.Index(i).Set(deepCopy(v.Index(i)))
		}
		return n
	}
	return v
}
