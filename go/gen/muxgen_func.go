package main

// muxgen: functions, options, emission of Gen/MuxGen.v.

import (
	"fmt"
	"go/ast"
	"go/token"
	"os"
	"sort"
	"strings"
)

func (p *pkg) newMg(key, cn, mode string, pass int, prev *mg) *mg {
	var loops []string
	t := &tr{p: p, fn: key, env: map[string]*ty{}, optPar: map[string]bool{}, loops: &loops}
	s := &mg{p: p, t: t, key: key, cname: cn, mode: mode, pass: pass,
		fieldTy: map[string]*ty{}, bufField: map[string]bool{}, used: map[string]bool{}, mut: map[string]bool{},
		usedFinal: map[string]bool{}, mutFinal: map[string]bool{}, ext: map[string]string{},
		closures: map[string]*ast.FuncLit{}, walias: map[string]string{}, views: map[string]string{}, stale: map[string]bool{},
		stored: map[string]bool{}, addr: map[string]bool{}, mapPtr: map[string]bool{}, unmodelled: map[string]bool{},
		loops: &loops, declDepth: map[string]int{}, leaves: map[string]bool{}}
	if prev != nil {
		s.usedFinal, s.mutFinal, s.fuel = prev.used, prev.mut, prev.sawFuel
	}
	s.retWrap = []func(string) string{func(v string) string { return v }}
	return s
}

// loadFields makes the modelled fields of the receiver struct variables of the environment.
func (s *mg) loadFields(n ast.Node, sname string) {
	st, ok := s.p.structs[sname]
	if !ok {
		s.fail(n, "receiver %s is not a struct", sname)
	}
	s.recvStruct = sname
	for _, fl := range st.Fields.List {
		if len(fl.Names) == 0 {
			s.fail(n, "embedded field in %s", sname)
		}
		typ := s.gotype(fl.Type)
		for _, id := range fl.Names {
			if typ == nil {
				continue
			}
			s.fieldTy[id.Name] = typ
			s.fieldOrder = append(s.fieldOrder, id.Name)
			if typ.k == "bytes" && typ.name == "buffer" {
				s.bufField[id.Name] = true
			}
			s.t.bind(s.fvar(id.Name), typ, token.NoPos)
			s.declDepth[s.fvar(id.Name)] = 0
		}
	}
}

func (s *mg) addParams(d ast.Node, fl *ast.FieldList, body ast.Node) (binders []string, types []*ty) {
	if fl == nil {
		return
	}
	for _, f := range fl.List {
		for _, id := range f.Names {
			typ := s.gotype(f.Type)
			if typ == nil {
				s.unmodelled[id.Name] = true
				continue
			}
			if typ.k == "opt" && typ.elem.k == "struct" && !usesNilNode(body, id.Name) {
				typ = typ.elem // as in Gen/Preds.v: a pointer never compared with nil is the record itself
			}
			if _, clash := s.t.env[id.Name]; clash {
				s.fail(d, "parameter %s clashes with another variable", id.Name)
			}
			s.t.bind(id.Name, typ, id.Pos())
			s.declDepth[id.Name] = 0
			s.useOpaque(typ)
			types = append(types, typ)
			binders = append(binders, fmt.Sprintf("(%s : %s)", cname(id.Name), typ.coq()))
		}
	}
	return
}

func usesNilNode(body ast.Node, name string) bool {
	found := false
	ast.Inspect(body, func(n ast.Node) bool {
		if b, ok := n.(*ast.BinaryExpr); ok && (b.Op == token.EQL || b.Op == token.NEQ) {
			x, ok1 := b.X.(*ast.Ident)
			y, ok2 := b.Y.(*ast.Ident)
			if ok1 && ok2 && (x.Name == name && y.Name == "nil" || y.Name == name && x.Name == "nil") {
				found = true
			}
		}
		return true
	})
	return found
}

func (s *mg) fieldBinders() []string {
	var out []string
	for _, f := range s.fieldOrder {
		if s.usedFinal[f] && !s.ctorAll {
			out = append(out, fmt.Sprintf("(%s : %s)", s.fvar(f), s.fieldTy[f].coq()))
			s.useOpaque(s.fieldTy[f])
		}
	}
	return out
}

func (s *mg) computeRet() {
	var rts []string
	for _, f := range s.fieldOrder {
		if s.ctorAll || s.mutFinal[f] {
			rts = append(rts, s.fieldTy[f].coq())
			s.useOpaque(s.fieldTy[f])
		}
	}
	for _, r := range s.results {
		rts = append(rts, r.coq())
		s.useOpaque(r)
	}
	if len(rts) == 0 {
		rts = []string{"unit"}
	}
	s.retInner = strings.Join(rts, " * ")
	switch {
	case s.mode == "prefix":
		s.retCoq = "RET_"
	case s.fuel:
		s.retCoq = "option (" + s.retInner + ")"
	default:
		s.retCoq = s.retInner
	}
}

func (s *mg) fallOff(d ast.Node) func() string {
	return func() string {
		if len(s.results) != len(s.named) {
			s.fail(d, "function falls off its end without named results")
		}
		return s.retValue(cnames(s.named))
	}
}

// run translates the function of the entry; it returns the definitions (loops first).
func (s *mg) run() string {
	d, ok := s.p.funcs[s.key]
	if !ok {
		panic(genError{fmt.Sprintf("function %s not found in /repo", s.key)})
	}
	if d.Body == nil {
		s.fail(d, "function without body")
	}
	if d.Recv != nil {
		f := d.Recv.List[0]
		if len(f.Names) != 1 {
			s.fail(d, "receiver without a name")
		}
		s.recv = f.Names[0].Name
		s.loadFields(d, recvName(f.Type))
	}
	params, ptypes := s.addParams(d, d.Type.Params, d.Body)
	pre := ""
	body := d.Body.List
	if s.mode == "ctor" {
		s.ctorAll = true
		if d.Type.Results == nil || len(d.Type.Results.List) != 1 {
			s.fail(d, "constructor with other results than the value it builds")
		}
		pre, body = s.ctorLiteral(d, body)
	} else if d.Type.Results != nil {
		for _, f := range d.Type.Results.List {
			typ := s.gotype(f.Type)
			if typ == nil {
				s.fail(d, "result type is not modelled")
			}
			if typ.k == "opt" && typ.elem.k == "struct" {
				typ = typ.elem
			}
			k := len(f.Names)
			if k == 0 {
				k = 1
			}
			for i := 0; i < k; i++ {
				s.results = append(s.results, typ)
			}
			for _, id := range f.Names {
				s.named = append(s.named, id.Name)
				s.t.bind(id.Name, typ, id.Pos())
				s.declDepth[id.Name] = 0
				v := mgNilOf(typ)
				if strings.HasPrefix(v, "?") {
					s.fail(d, "zero value of a named result that is not modelled")
				}
				pre += "let " + cname(id.Name) + " := " + v + " in\n  "
			}
		}
	}
	s.computeRet()
	text := pre + s.stmts(body, s.fallOff(d))
	if s.mode == "prefix" && s.holeType == "" {
		s.fail(d, "no loop found at the top level: nothing to cut off")
	}
	info := &mgInfo{key: s.key, cname: s.cname, recv: s.recvStruct, params: ptypes, results: s.results, extDecl: map[string]string{}, fuel: s.sawFuel}
	if s.mode == "ctor" || s.mode == "func" {
		info.recv = ""
	}
	for _, f := range s.fieldOrder {
		if s.used[f] && !s.ctorAll {
			info.used = append(info.used, f)
		}
		if s.mut[f] && !s.ctorAll {
			info.mut = append(info.mut, f)
		}
	}
	var all []string
	lead := ""
	if s.mode == "prefix" {
		s.ext["RET_"] = "{RET_ : Type}"
		lead = fmt.Sprintf("(ret_ : %s -> RET_) (rest_ : %s)", s.retInner, s.holeType)
	}
	fb := s.fieldBinders()
	info.ext = mgExtOrder(s.ext)
	for n, dcl := range s.ext {
		info.extDecl[n] = dcl
	}
	if b := mgExtBinders(s.ext); b != "" {
		all = append(all, b)
	}
	if lead != "" {
		all = append(all, lead)
	}
	if s.fuel {
		all = append(all, "(fuel_ : nat)")
	}
	all = append(all, fb...)
	all = append(all, params...)
	comment := ""
	if s.mode == "prefix" {
		comment = fmt.Sprintf("(* %s up to its first top-level loop (line %d of its file): the rest of the function is rest_, applied to %s *)\n",
			s.key, s.holeLine, strings.Join(cnames(s.holeVars), " "))
	}
	out := strings.Join(*s.loops, "") + comment + fmt.Sprintf("Definition %s %s : %s :=\n  %s.\n\n", s.cname, strings.Join(all, " "), s.retCoq, text)
	out = s.fillExt(out)
	s.info = info
	return out
}

func (s *mg) fillExt(out string) string {
	binders := mgExtBinders(s.ext)
	eargs := mgExtArgs(s.ext, mgExtOrder(s.ext))
	out = strings.ReplaceAll(out, " @@EXTP@@", map[bool]string{true: " " + binders, false: ""}[binders != ""])
	out = strings.ReplaceAll(out, " @@EXTA@@", map[bool]string{true: " " + eargs, false: ""}[eargs != ""])
	return out
}

// ctorLiteral: `m := &Muxer{..}` introduces the field variables.
func (s *mg) ctorLiteral(d *ast.FuncDecl, body []ast.Stmt) (string, []ast.Stmt) {
	bad := func() { s.fail(d, "the constructor does not start with `m := &T{..}`") }
	if len(body) == 0 {
		bad()
	}
	as, ok := body[0].(*ast.AssignStmt)
	if !ok || as.Tok != token.DEFINE || len(as.Lhs) != 1 || len(as.Rhs) != 1 {
		bad()
	}
	id, ok := as.Lhs[0].(*ast.Ident)
	u, ok2 := as.Rhs[0].(*ast.UnaryExpr)
	if !ok || !ok2 || u.Op != token.AND {
		bad()
	}
	cl, ok := u.X.(*ast.CompositeLit)
	if !ok {
		bad()
	}
	tn, ok := cl.Type.(*ast.Ident)
	if !ok || recvName(d.Type.Results.List[0].Type) != tn.Name {
		bad()
	}
	if _, clash := s.t.env[id.Name]; clash {
		s.fail(d, "%s clashes with a parameter", id.Name)
	}
	s.recv = id.Name
	vals := map[string]ast.Expr{}
	for _, el := range cl.Elts {
		kv, ok := el.(*ast.KeyValueExpr)
		if !ok {
			s.fail(cl, "unkeyed composite literal")
		}
		vals[kv.Key.(*ast.Ident).Name] = kv.Value
	}
	// the values are evaluated before the variable exists: the field variables are introduced afterwards
	st := s.p.structs[tn.Name]
	if st == nil {
		bad()
	}
	type fv struct{ f, v string }
	var lets []fv
	tmpS := s.p.newMg(s.key, s.cname, s.mode, s.pass, nil)
	tmpS.recv = id.Name
	tmpS.loadFields(d, tn.Name)
	s.stmtNode, s.pre = as, nil
	for _, f := range tmpS.fieldOrder {
		ft := tmpS.fieldTy[f]
		var v string
		if e, ok := vals[f]; ok {
			v = s.value(e, ft, as)
		} else {
			v = mgNilOf(ft)
			if ft.k == "opaque" {
				s.fail(as, "field %s is left nil by the constructor", f)
			}
		}
		lets = append(lets, fv{f, v})
	}
	if len(s.pre) != 0 {
		s.fail(as, "state-changing call inside the constructor's literal")
	}
	s.stmtNode = nil
	s.loadFields(d, tn.Name)
	out := ""
	for _, l := range lets {
		out += "let " + s.fvar(l.f) + " := " + l.v + " in\n  "
		s.used[l.f], s.mut[l.f] = true, true
	}
	return out, body[1:]
}

// ---------- options ----------

type mgOpt struct {
	name   string
	d      *ast.FuncDecl
	lit    *ast.FuncLit
	params []string
}

func (p *pkg) findOptions() []mgOpt {
	var out []mgOpt
	for name, d := range p.funcs {
		if d.Recv != nil || d.Type.Results == nil || len(d.Type.Results.List) != 1 || !isOptType(d.Type.Results.List[0].Type) || d.Body == nil {
			continue
		}
		o := mgOpt{name: name, d: d}
		if len(d.Body.List) == 1 {
			if r, ok := d.Body.List[0].(*ast.ReturnStmt); ok && len(r.Results) == 1 {
				if lit, ok := r.Results[0].(*ast.FuncLit); ok {
					o.lit = lit
				}
			}
		}
		out = append(out, o)
	}
	sort.Slice(out, func(i, j int) bool { return out[i].name < out[j].name })
	return out
}

func (p *pkg) emitOptions() string {
	opts := p.findOptions()
	type res struct {
		ctor, body string
		s          *mg
	}
	runPass := func(pass int, prev *mg) ([]res, *mg) {
		acc := p.newMg("MuxerOpt", "MuxerOpt_apply", "method", pass, prev)
		var rs []res
		for _, o := range opts {
			s := p.newMg(o.name, "MuxerOpt_apply", "method", pass, prev)
			if o.lit == nil {
				s.fail(o.d, "an option constructor must be `return func(m *Muxer) { .. }`")
			}
			if hasJump(o.lit.Body.List) {
				s.fail(o.d, "option with a return")
			}
			s.recv = o.lit.Type.Params.List[0].Names[0].Name
			s.loadFields(o.d, "Muxer")
			binders, _ := s.addParams(o.d, o.d.Type.Params, o.d.Body)
			if len(s.unmodelled) != 0 {
				s.fail(o.d, "option parameter of a type that is not modelled")
			}
			s.computeRet()
			body := s.stmts(o.lit.Body.List, s.fallOff(o.d))
			if len(*s.loops) != 0 || s.sawFuel {
				s.fail(o.d, "loop inside an option")
			}
			var names []string
			for _, f := range o.d.Type.Params.List {
				for _, id := range f.Names {
					names = append(names, cname(id.Name))
				}
			}
			rs = append(rs, res{o.name + " " + strings.Join(binders, " "), "| " + strings.TrimSpace(o.name+" "+strings.Join(names, " ")) + " =>\n  " + body, s})
			for f := range s.used {
				acc.used[f] = true
			}
			for f := range s.mut {
				acc.mut[f] = true
			}
			for n, dcl := range s.ext {
				acc.ext[n] = dcl
			}
			acc.fieldOrder, acc.fieldTy, acc.recvStruct = s.fieldOrder, s.fieldTy, s.recvStruct
		}
		return rs, acc
	}
	_, acc1 := runPass(1, nil)
	rs, acc := runPass(2, acc1)
	acc.usedFinal, acc.mutFinal = acc1.used, acc1.mut
	acc.computeRet()
	var b strings.Builder
	b.WriteString("(* the options of the package: every function returning a closure that takes the Muxer *)\nInductive MuxerOpt : Type :=")
	for _, r := range rs {
		b.WriteString("\n| " + strings.TrimSpace(r.ctor))
	}
	b.WriteString(".\n\n")
	fb := acc.fieldBinders()
	eb := mgExtBinders(acc.ext)
	var all []string
	if eb != "" {
		all = append(all, eb)
	}
	all = append(all, "(o_ : MuxerOpt)")
	all = append(all, fb...)
	fmt.Fprintf(&b, "Definition MuxerOpt_apply %s : %s :=\n  match o_ with\n", strings.Join(all, " "), acc.retCoq)
	for _, r := range rs {
		b.WriteString("  " + r.body + "\n")
	}
	if len(rs) == 0 {
		b.WriteString("  end.\n\n")
	} else {
		b.WriteString("  end.\n\n")
	}
	info := &mgInfo{key: "MuxerOpt", cname: "MuxerOpt_apply", recv: "Muxer", extDecl: map[string]string{}}
	for _, f := range acc.fieldOrder {
		if acc1.used[f] {
			info.used = append(info.used, f)
		}
		if acc1.mut[f] {
			info.mut = append(info.mut, f)
		}
	}
	info.ext = mgExtOrder(acc.ext)
	for n, dcl := range acc.ext {
		info.extDecl[n] = dcl
	}
	if len(info.mut) == 0 {
		panic(genError{"MuxerOpt: no option assigns a field"})
	}
	mgOptInfo = info
	mgOptCtors = nil
	for _, o := range opts {
		mgOptCtors = append(mgOptCtors, o.name)
	}
	return acc.fillExt(b.String())
}

// ---------- emission ----------

const mgHeader = `(* Generated from the CURRENT source of /repo/muxer.go by go/gen (muxgen*.go) on every run. Do not edit.
   Conventions (see the head of go/gen/muxgen.go): a method of *Muxer is a function of the fields it touches
   (m_<field>, declaration order) and its arguments; it returns the final values of the fields it assigns, then its
   results. Slices are lists, bytes.Buffer fields are their contents, maps are abstract types with their operations
   as parameters (map_<V>_get: None = no entry), error is merror, a loop is a Fixpoint returning inl RESULT (the
   function returned from inside the loop; None when a loop on fuel_ ran out of fuel) or inr VARS (the loop ended).
   The byte producers writePSIData / writePacket, the io.Writer, the program map and calcPMTSectionLength /
   calcDescriptorLength are parameters. Proofs/MuxGenEq.v proves the hand-written Model/Muxer.v equal to these. *)
From Coq Require Import ZArith List Bool.
Require Import Gen.Consts Gen.Types Gen.Preds.
Import ListNotations.
Open Scope Z_scope.

`

func (p *pkg) emitMuxGen() string {
	var body strings.Builder
	isolate := func(what string, f func() string) {
		defer func() {
			if r := recover(); r != nil {
				ge, ok := r.(genError)
				if !ok {
					panic(r)
				}
				fmt.Fprintf(os.Stderr, "gen: not translated: %s\n", ge.msg)
				fmt.Fprintf(&body, "(* NOT TRANSLATED (%s left the translator's grammar): %s *)\n\n", what, strings.ReplaceAll(strings.ReplaceAll(ge.msg, "*)", "* )"), "(*", "( *"))
			}
		}()
		body.WriteString(f())
	}
	for _, e := range mgEntries {
		e := e
		if e.mode == "ctor" {
			isolate("the options of "+e.key, func() string { return p.emitOptions() })
		}
		isolate(e.key, func() string {
			cn := strings.ReplaceAll(e.key, ".", "_")
			if e.mode == "prefix" {
				cn += "_until_loop"
			}
			s1 := p.newMg(e.key, cn, e.mode, 1, nil)
			s1.run()
			s2 := p.newMg(e.key, cn, e.mode, 2, s1)
			out := s2.run()
			mgFuncs[e.key] = s2.info
			if e.mode == "prefix" {
				delete(mgFuncs, e.key) // not callable
			}
			return out
		})
	}
	var b strings.Builder
	b.WriteString(mgHeader)
	var errs []string
	for n := range mgErrs {
		errs = append(errs, n)
	}
	sort.Strings(errs)
	b.WriteString("(* error values: nil, the package-level error variables the functions below return, fmt.Errorf(..), and\n   whatever an abstract callee hands back *)\nInductive merror : Type :=\n| ENil")
	for _, n := range errs {
		b.WriteString("\n| E" + n)
	}
	b.WriteString("\n| EFmt\n| EExt (code : Z).\n\n")
	b.WriteString("Definition merror_is_nil (e : merror) : bool := match e with ENil => true | _ => false end.\n\n")
	b.WriteString("(* x = append(x[:i], x[i+1:]...) for 0 <= i < len(x) (Go panics otherwise) *)\nDefinition slice_delete {A : Type} (l : list A) (i : Z) : list A :=\n  firstn (Z.to_nat i) l ++ skipn (Z.to_nat (i + 1)) l.\n\n")
	b.WriteString(body.String())
	// the pure externals registered for tr.call must not leak into later emitters
	for n := range mgRegistered {
		delete(translated, n)
		delete(funcSig, n)
		delete(funcRes, n)
	}
	return b.String()
}
