package main

// Translation of the byte-level parsers (functions that take an *astikit.BytesIterator) into Gallina
// definitions in the iterator monad IM of coq/Base/Iter.v, written to Gen/ParseGen.v on every run.
//
// The expression translation, its `mod 2^N` discipline, the record-update scheme for field assignments and
// the genError / "NOT TRANSLATED" failure isolation are those of preds.go.  What this file adds:
//
//	if x, err = i.NextBytes(n); err != nil { err = fmt.Errorf("...: %w", err); return }   ->  x <- next_bytes n ;; ...
//	if x, y, err = parseOther(i, a); err != nil { ...same body... }                        ->  '(x, y) <- (parseOther a) ;; ...
//	i.Skip(n) / i.Seek(n)                                                                 ->  iskip n ;;; ... / iseek n ;;; ...
//	i.Offset() / i.Len() / i.HasBytesLeft() / i.Dump() inside an expression               ->  bound to a fresh name just before the statement
//	if c { ...monadic... } [else { ... }]        ->  '(assigned, live variables) <- (if c then ... iret (vars) else ... iret (vars)) ;; ...
//	if c { ...; return } rest                    ->  if c then ... else rest       (a branch that returns ends the computation)
//	err = ErrX; return  /  return nil, errX      ->  ierr E_x           (fmt.Errorf without %w: E_generic)
//	return (bare, or `return v, nil`)            ->  iret (results)
//	x.f = e / x.f.g = e through a pointer field  ->  let x := set_T_f e x / set_T_f (Some (set_U_g e (odflt zero_U (T_f x)))) x
//	                                                 (the setters set_T_f are emitted at the head of Gen/ParseGen.v)
//
//	intN(x) for x of an unsigned type at least N bits wide          ->  sint N x  (two's complement reading)
//	bs[k]                                                            ->  nth k bs 0, accepted only for a constant k below the
//	                                                                     constant length bs was read with (no panic possible)
//	s != nil && s(p) on a callback parameter `func(*T) bool`         ->  match s with Some f => f p | None => false end
//
// Conventions: a pointer result `*T` is the record T (a success return with a possibly nil pointer result is refused);
// a dereference through a pointer-typed field or result is accepted only where the pointer is statically known to be
// non-nil (assigned from &T{...} or from a translated parser on the same path), so the `odflt` of the expression
// translator is never reached for it; variables assigned inside a conditional block but dead after it are not returned
// by the block and are removed from the environment (a later read is a loud failure, not a stale value).
// Everything else leaves the grammar: the function is replaced by a "NOT TRANSLATED" comment and reported on stderr.

import (
	"fmt"
	"go/ast"
	"go/token"
	"os"
	"sort"
	"strconv"
	"strings"
)

// functions emitted into Gen/ParseGen.v, in dependency order (pure helpers are translated with the
// straight-line translator of preds.go).
var parseEntries = []string{
	"newClockReference",
	"parsePCR", "parsePTSOrDTS", "parseESCR", "parseDSMTrickMode",
	"parsePacketHeader", "parsePacketAdaptationField",
	"parsePESOptionalHeader", "parsePESHeader", "parsePESData",
	"parsePacket",
}

// error values with a tag of their own in Base/Iter.v
var errCodes = map[string]string{
	"ErrNoMorePackets":                "E_nomore",
	"ErrPacketMustStartWithASyncByte": "E_sync",
	"errSkippedPacket":                "E_skipped",
	"ErrPIDNotFound":                  "E_pid_not_found",
	"ErrPIDAlreadyExists":             "E_pid_exists",
	"ErrPCRPIDInvalid":                "E_pcr_pid",
}

type msig struct {
	params []*ty
	res    []*ty
	resPtr []bool
}

var mtranslated = map[string]*msig{}

type mtr struct {
	*tr
	it       string           // name of the iterator parameter
	decl     map[string]*ty   // declared types of the locals (a dropped variable is re-introduced with its type)
	ptrVar   map[string]bool  // named results that are Go pointers modelled as the record
	nonNil   map[string]bool  // access paths statically known to be non-nil
	fnTy     map[string]bool  // parameters of function type (called as predicates)
	sliceLen map[string]int64 // byte slices read with a constant length
	ntmp     int
	resPtr   []bool
	// extensions used by psigen.go (all inert unless psi is set, so that Gen/ParseGen.v is unchanged)
	psi      bool
	ptrParam map[string]bool  // pointer parameters kept as options; a dereference binds `x <- ideref x`
	abstract map[string]*msig // callees that are Section Variables of the current section, with the signatures used
	absOK    map[string]bool  // callees that may be abstract in the current section
}

func isIterType(e ast.Expr) bool {
	st, ok := e.(*ast.StarExpr)
	if !ok {
		return false
	}
	sel, ok := st.X.(*ast.SelectorExpr)
	if !ok {
		return false
	}
	x, ok := sel.X.(*ast.Ident)
	return ok && x.Name == "astikit" && sel.Sel.Name == "BytesIterator"
}

// predicateType recognises a named type `func(*T) bool` over an emitted struct T.
func (p *pkg) predicateType(e ast.Expr) (string, bool) {
	id, ok := e.(*ast.Ident)
	if !ok {
		return "", false
	}
	ft, ok := p.types[id.Name].(*ast.FuncType)
	if !ok || ft.Params == nil || len(ft.Params.List) != 1 || ft.Results == nil || len(ft.Results.List) != 1 {
		return "", false
	}
	if !isIdent(ft.Results.List[0].Type, "bool") || len(ft.Params.List[0].Names) > 1 {
		return "", false
	}
	st, ok := ft.Params.List[0].Type.(*ast.StarExpr)
	if !ok {
		return "", false
	}
	sid, ok := st.X.(*ast.Ident)
	if !ok || !emittedStructs[sid.Name] {
		return "", false
	}
	return sid.Name, true
}

// signedWidth: the width of a signed integer type (0 for anything else).
func (p *pkg) signedWidth(name string) int {
	switch name {
	case "int", "int64":
		return 64
	case "int32", "rune":
		return 32
	case "int16":
		return 16
	case "int8":
		return 8
	}
	if u, ok := p.types[name]; ok {
		if id, ok := u.(*ast.Ident); ok {
			return p.signedWidth(id.Name)
		}
	}
	return 0
}

func iterParam(d *ast.FuncDecl) string {
	for _, f := range d.Type.Params.List {
		if isIterType(f.Type) && len(f.Names) == 1 {
			return f.Names[0].Name
		}
	}
	return ""
}

// iterMethod recognises i.M(args).
func (m *mtr) iterMethod(e ast.Expr) (string, *ast.CallExpr, bool) {
	c, ok := e.(*ast.CallExpr)
	if !ok {
		return "", nil, false
	}
	sel, ok := c.Fun.(*ast.SelectorExpr)
	if !ok {
		return "", nil, false
	}
	x, ok := sel.X.(*ast.Ident)
	if !ok || x.Name != m.it {
		return "", nil, false
	}
	return sel.Sel.Name, c, true
}

// parserCall recognises f(i, args) where f takes the iterator.
func (m *mtr) parserCall(e ast.Expr) (string, *ast.CallExpr, bool) {
	c, ok := e.(*ast.CallExpr)
	if !ok || len(c.Args) == 0 {
		return "", nil, false
	}
	f, ok := c.Fun.(*ast.Ident)
	if !ok {
		return "", nil, false
	}
	a, ok := c.Args[0].(*ast.Ident)
	if !ok || a.Name != m.it {
		return "", nil, false
	}
	return f.Name, c, true
}

func isIdent(e ast.Expr, name string) bool {
	id, ok := e.(*ast.Ident)
	return ok && id.Name == name
}

// pathOf renders x.f.g for an lvalue / pointer expression rooted at a local variable.
func pathOf(e ast.Expr) (string, bool) {
	switch e := e.(type) {
	case *ast.Ident:
		return e.Name, true
	case *ast.SelectorExpr:
		p, ok := pathOf(e.X)
		if !ok {
			return "", false
		}
		return p + "." + e.Sel.Name, true
	case *ast.ParenExpr:
		return pathOf(e.X)
	case *ast.StarExpr:
		return pathOf(e.X)
	}
	return "", false
}

func rootOf(e ast.Expr) string {
	switch e := e.(type) {
	case *ast.Ident:
		return e.Name
	case *ast.SelectorExpr:
		return rootOf(e.X)
	case *ast.ParenExpr:
		return rootOf(e.X)
	case *ast.StarExpr:
		return rootOf(e.X)
	}
	return ""
}

// ---------- expressions ----------

// checkDerefs refuses a selection through a pointer that is not statically known to be non-nil.
func (m *mtr) checkDerefs(e ast.Expr) {
	ast.Inspect(e, func(n ast.Node) bool {
		sel, ok := n.(*ast.SelectorExpr)
		if !ok {
			return true
		}
		root := rootOf(sel.X)
		if root == "" {
			return true
		}
		if _, ok := m.env[root]; !ok {
			return true // package selector, or an unknown identifier that the expression translator reports
		}
		m.needNonNil(sel.X, sel)
		return true
	})
}

func (m *mtr) needNonNil(base ast.Expr, n ast.Node) {
	path, ok := pathOf(base)
	if !ok {
		return
	}
	isPtr := false
	if id, ok := base.(*ast.Ident); ok {
		isPtr = m.ptrVar[id.Name]
	} else {
		_, bt := m.tr.expr(base)
		isPtr = bt.k == "opt"
	}
	if isPtr && !m.nonNil[path] {
		m.fail(n, "dereference of %s, which is not statically known to be non-nil", path)
	}
}

func (m *mtr) expr(e ast.Expr) (string, *ty) {
	m.checkDerefs(e)
	return m.tr.expr(e)
}

// hoist replaces the iterator reads inside an expression by fresh names and appends their binds to pre.
func (m *mtr) hoist(e ast.Expr, pre *string, guarded bool) ast.Expr {
	switch e := e.(type) {
	case nil:
		return nil
	case *ast.CallExpr:
		if meth, c, ok := m.iterMethod(e); ok {
			var prim string
			var typ *ty
			switch meth {
			case "Offset":
				prim, typ = "ioffset", tInt
			case "Len":
				prim, typ = "ilength", tInt
			case "HasBytesLeft":
				prim, typ = "has_bytes_left", tBool
			case "Dump":
				prim, typ = "idump", tBytes
				if guarded {
					m.fail(e, "Dump() under a short-circuit operator")
				}
			default:
				m.fail(e, "iterator method %s inside an expression", meth)
			}
			if len(c.Args) != 0 {
				m.fail(e, "iterator method %s with arguments", meth)
			}
			m.ntmp++
			name := fmt.Sprintf("%s%d_", strings.ToLower(meth), m.ntmp)
			m.bind(name, typ, e.Pos())
			*pre += name + " <- " + prim + " ;;\n  "
			return &ast.Ident{Name: name, NamePos: e.Pos()}
		}
		if f, _, ok := m.parserCall(e); ok {
			m.fail(e, "call of parser %s outside the `if ..., err = f(i); err != nil` form", f)
		}
		if m.psi && isIdent(e.Fun, "append") {
			return m.hoistAppend(e, pre, guarded)
		}
		c := *e
		c.Args = make([]ast.Expr, len(e.Args))
		for k, a := range e.Args {
			c.Args[k] = m.hoist(a, pre, guarded)
		}
		// conversion of an unsigned value to a signed type that is not wider: two's complement reinterpretation
		if id, ok := e.Fun.(*ast.Ident); ok && len(e.Args) == 1 {
			if sw := m.p.signedWidth(id.Name); sw > 0 {
				as, at := m.expr(c.Args[0])
				if at.k == "int" && at.w >= sw {
					name := fmt.Sprintf("(sint %d %s)", sw, as)
					m.env[name] = tInt
					return &ast.Ident{Name: name, NamePos: e.Pos()}
				}
			}
		}
		if sel, ok := e.Fun.(*ast.SelectorExpr); ok {
			s := *sel
			s.X = m.hoist(sel.X, pre, guarded)
			c.Fun = &s
		}
		return &c
	case *ast.BinaryExpr:
		// s != nil && s(x) on a callback parameter
		if e.Op == token.LAND {
			if b, ok := e.X.(*ast.BinaryExpr); ok && b.Op == token.NEQ && isIdent(b.Y, "nil") {
				if sid, ok := b.X.(*ast.Ident); ok && m.fnTy[sid.Name] {
					call, ok := e.Y.(*ast.CallExpr)
					if !ok || !isIdent(call.Fun, sid.Name) || len(call.Args) != 1 {
						m.fail(e, "callback %s used otherwise than as `%s != nil && %s(x)`", sid.Name, sid.Name, sid.Name)
					}
					arg, ok := call.Args[0].(*ast.Ident)
					if !ok || (m.ptrVar[arg.Name] && !m.nonNil[arg.Name]) {
						m.fail(e, "callback argument is not a variable known to be non-nil")
					}
					as, _ := m.expr(arg)
					// a rendered term travels through the expression translator as an identifier of type bool
					name := "(match " + cname(sid.Name) + " with Some f_ => f_ " + as + " | None => false end)"
					m.env[name] = tBool
					return &ast.Ident{Name: name, NamePos: e.Pos()}
				}
			}
		}
		c := *e
		c.X = m.hoist(e.X, pre, guarded)
		c.Y = m.hoist(e.Y, pre, guarded || e.Op == token.LAND || e.Op == token.LOR)
		return &c
	case *ast.ParenExpr:
		c := *e
		c.X = m.hoist(e.X, pre, guarded)
		return &c
	case *ast.UnaryExpr:
		c := *e
		c.X = m.hoist(e.X, pre, guarded)
		return &c
	case *ast.StarExpr:
		c := *e
		c.X = m.hoist(e.X, pre, guarded)
		return &c
	case *ast.SelectorExpr:
		if m.psi {
			m.derefParam(e, pre, guarded)
		}
		c := *e
		c.X = m.hoist(e.X, pre, guarded)
		return &c
	case *ast.IndexExpr:
		// x[k] is accepted only where it cannot panic: k a literal below the length x was read with
		xid, ok := e.X.(*ast.Ident)
		kv, okk := m.p.evalConst(e.Index, map[string]bool{})
		if !ok || !okk {
			m.fail(e, "index expression that is not <slice variable>[<constant>]")
		}
		n, known := m.sliceLen[xid.Name]
		if !known || kv.Sign() < 0 || kv.Int64() >= n {
			m.fail(e, "index %s[%s] is not statically within the length the slice was read with", xid.Name, kv.String())
		}
		return e
	case *ast.SliceExpr:
		if m.psi {
			return m.hoistSlice(e)
		}
	case *ast.CompositeLit:
		c := *e
		c.Elts = make([]ast.Expr, len(e.Elts))
		for k, el := range e.Elts {
			c.Elts[k] = m.hoist(el, pre, guarded)
		}
		return &c
	case *ast.KeyValueExpr:
		c := *e
		c.Value = m.hoist(e.Value, pre, guarded)
		return &c
	case *ast.Ident, *ast.BasicLit:
		return e
	}
	found := false
	ast.Inspect(e, func(n ast.Node) bool {
		if id, ok := n.(*ast.Ident); ok && id.Name == m.it {
			found = true
		}
		return true
	})
	if found {
		m.fail(e, "iterator used inside an unsupported expression %T", e)
	}
	return e
}

// ---------- statement classification ----------

// errCheck recognises `if lhs..., err = call; err != nil { propagate }`.
func (m *mtr) errCheck(s *ast.IfStmt) (*ast.AssignStmt, bool) {
	if s.Init == nil {
		return nil, false
	}
	as, ok := s.Init.(*ast.AssignStmt)
	if !ok || len(as.Rhs) != 1 || len(as.Lhs) < 1 || !isIdent(as.Lhs[len(as.Lhs)-1], "err") {
		return nil, false
	}
	if _, ok := as.Rhs[0].(*ast.CallExpr); !ok {
		return nil, false
	}
	b, ok := s.Cond.(*ast.BinaryExpr)
	if !ok || b.Op != token.NEQ || !isIdent(b.X, "err") || !isIdent(b.Y, "nil") {
		return nil, false
	}
	return as, true
}

// propagates checks that the body of an error check hands the error on (wrapped with %w or as it is).
func (m *mtr) propagates(body []ast.Stmt, n ast.Node) string {
	if len(body) == 0 {
		m.fail(n, "error check with an empty body")
	}
	ret, ok := body[len(body)-1].(*ast.ReturnStmt)
	if !ok {
		m.fail(n, "error check that does not return")
	}
	if len(ret.Results) != 0 {
		last := ret.Results[len(ret.Results)-1]
		if !isIdent(last, "err") && !m.wraps(last) {
			m.fail(ret, "error check that returns another error")
		}
	}
	switch len(body) {
	case 1:
		return ""
	case 2:
		as, ok := body[0].(*ast.AssignStmt)
		if ok && as.Tok == token.ASSIGN && len(as.Lhs) == 1 && len(as.Rhs) == 1 && isIdent(as.Lhs[0], "err") {
			if m.wraps(as.Rhs[0]) {
				return ""
			}
			if m.psi {
				// the callee's error is replaced by a new one: `imaperr code (callee)`
				return m.errCode(as.Rhs[0])
			}
		}
	}
	m.fail(n, "error check whose body is not `err = fmt.Errorf(\"...%%w\", err); return`")
	return ""
}

// wraps recognises fmt.Errorf("...%w...", ..., err).
func (m *mtr) wraps(e ast.Expr) bool {
	c, ok := e.(*ast.CallExpr)
	if !ok || len(c.Args) < 2 {
		return false
	}
	sel, ok := c.Fun.(*ast.SelectorExpr)
	if !ok || !isIdent(sel.X, "fmt") || sel.Sel.Name != "Errorf" {
		return false
	}
	lit, ok := c.Args[0].(*ast.BasicLit)
	if !ok || lit.Kind != token.STRING {
		return false
	}
	f, err := strconv.Unquote(lit.Value)
	if err != nil || strings.Count(f, "%w") != 1 {
		return false
	}
	// the %w verb must be the one that receives err
	idx := 0
	for k := 0; k+1 < len(f); k++ {
		if f[k] == '%' {
			if f[k+1] == '%' {
				k++
				continue
			}
			idx++
			if f[k+1] == 'w' {
				break
			}
		}
	}
	return idx >= 1 && idx < len(c.Args) && isIdent(c.Args[idx], "err")
}

// errCode maps an error expression to the tag of the model.
func (m *mtr) errCode(e ast.Expr) string {
	switch e := e.(type) {
	case *ast.Ident:
		if c, ok := errCodes[e.Name]; ok {
			return c
		}
		if _, ok := m.p.vars[e.Name]; ok {
			return "E_generic"
		}
	case *ast.CallExpr:
		if sel, ok := e.Fun.(*ast.SelectorExpr); ok {
			if isIdent(sel.X, "fmt") && sel.Sel.Name == "Errorf" && len(e.Args) >= 1 {
				if lit, ok := e.Args[0].(*ast.BasicLit); ok && !strings.Contains(lit.Value, "%w") {
					return "E_generic"
				}
			}
			if isIdent(sel.X, "errors") && sel.Sel.Name == "New" {
				return "E_generic"
			}
		}
	}
	m.fail(e, "unsupported error value")
	return ""
}

func isErrAssign(s ast.Stmt) (*ast.AssignStmt, bool) {
	as, ok := s.(*ast.AssignStmt)
	if !ok || as.Tok != token.ASSIGN || len(as.Lhs) != 1 || len(as.Rhs) != 1 || !isIdent(as.Lhs[0], "err") {
		return nil, false
	}
	return as, true
}

func branches(s *ast.IfStmt) (body, els []ast.Stmt) {
	body = s.Body.List
	if s.Else != nil {
		switch e := s.Else.(type) {
		case *ast.BlockStmt:
			els = e.List
		default:
			els = []ast.Stmt{e}
		}
	}
	return
}

// freeReturn: a return other than the one inside an error check.
func (m *mtr) freeReturn(list []ast.Stmt) bool {
	for _, s := range list {
		switch s := s.(type) {
		case *ast.ReturnStmt:
			return true
		case *ast.IfStmt:
			if _, ok := m.errCheck(s); ok {
				continue
			}
			b, e := branches(s)
			if m.freeReturn(b) || m.freeReturn(e) {
				return true
			}
		case *ast.BlockStmt:
			if m.freeReturn(s.List) {
				return true
			}
		case *ast.SwitchStmt:
			for _, c := range s.Body.List {
				if m.freeReturn(c.(*ast.CaseClause).Body) {
					return true
				}
			}
		case *ast.ForStmt:
			if m.freeReturn(s.Body.List) {
				return true
			}
		case *ast.RangeStmt:
			if m.freeReturn(s.Body.List) {
				return true
			}
		}
	}
	return false
}

// monadic: the statements touch the iterator.
func (m *mtr) monadic(list []ast.Stmt) bool {
	found := false
	for _, s := range list {
		ast.Inspect(s, func(n ast.Node) bool {
			if id, ok := n.(*ast.Ident); ok && (id.Name == m.it || (m.psi && m.ptrParam[id.Name] && !m.nonNil[id.Name])) {
				found = true
			}
			return true
		})
	}
	return found
}

// ---------- liveness ----------

type vset map[string]bool

func (v vset) has(n string) bool { return v[n] || v["*"] }
func (v vset) copy() vset {
	c := vset{}
	for k := range v {
		c[k] = true
	}
	return c
}

func reads(into vset, nodes ...ast.Node) {
	for _, n := range nodes {
		if n == nil {
			continue
		}
		ast.Inspect(n, func(x ast.Node) bool {
			if id, ok := x.(*ast.Ident); ok {
				into[id.Name] = true
			}
			return true
		})
	}
}

func (m *mtr) liveBefore(list []ast.Stmt, out vset) vset {
	live := out.copy()
	for k := len(list) - 1; k >= 0; k-- {
		live = m.liveStmt(list[k], live)
	}
	return live
}

func (m *mtr) liveStmt(s ast.Stmt, after vset) vset {
	switch s := s.(type) {
	case *ast.ReturnStmt:
		live := vset{}
		if len(s.Results) == 0 {
			for _, r := range m.results {
				live[r] = true
			}
			return live
		}
		for _, r := range s.Results {
			reads(live, r)
		}
		return live
	case *ast.AssignStmt:
		live := after.copy()
		for _, l := range s.Lhs {
			if id, ok := l.(*ast.Ident); ok && (s.Tok == token.ASSIGN || s.Tok == token.DEFINE) {
				delete(live, id.Name)
			}
		}
		if live["*"] {
			live = after.copy()
		}
		for _, l := range s.Lhs {
			if _, ok := l.(*ast.Ident); !ok || (s.Tok != token.ASSIGN && s.Tok != token.DEFINE) {
				reads(live, l)
			}
		}
		for _, r := range s.Rhs {
			reads(live, r)
		}
		return live
	case *ast.DeclStmt:
		live := after.copy()
		if gd, ok := s.Decl.(*ast.GenDecl); ok {
			for _, sp := range gd.Specs {
				if vs, ok := sp.(*ast.ValueSpec); ok {
					if !live["*"] {
						for _, id := range vs.Names {
							delete(live, id.Name)
						}
					}
					for _, v := range vs.Values {
						reads(live, v)
					}
				}
			}
		}
		return live
	case *ast.ExprStmt:
		live := after.copy()
		reads(live, s.X)
		return live
	case *ast.IncDecStmt:
		live := after.copy()
		reads(live, s.X)
		return live
	case *ast.BlockStmt:
		return m.liveBefore(s.List, after)
	case *ast.EmptyStmt:
		return after
	case *ast.IfStmt:
		b, e := branches(s)
		live := m.liveBefore(b, after)
		for k := range m.liveBefore(e, after) {
			live[k] = true
		}
		reads(live, s.Cond)
		if s.Init != nil {
			live = m.liveStmt(s.Init, live)
		}
		return live
	case *ast.ForStmt:
		if s.Init != nil || s.Post != nil {
			return vset{"*": true}
		}
		live := after.copy()
		for {
			n := m.liveBefore(s.Body.List, live)
			reads(n, s.Cond)
			grew := false
			for k := range n {
				if !live[k] {
					live[k] = true
					grew = true
				}
			}
			if !grew {
				return live
			}
		}
	case *ast.SwitchStmt:
		live := after.copy()
		for _, c := range s.Body.List {
			cc := c.(*ast.CaseClause)
			for k := range m.liveBefore(cc.Body, after) {
				live[k] = true
			}
			for _, e := range cc.List {
				reads(live, e)
			}
		}
		reads(live, s.Tag)
		if s.Init != nil {
			live = m.liveStmt(s.Init, live)
		}
		return live
	}
	return vset{"*": true}
}

// ---------- assignments ----------

func (m *mtr) clearPath(path string) {
	for k := range m.nonNil {
		if k == path || strings.HasPrefix(k, path+".") {
			delete(m.nonNil, k)
		}
	}
}

// allocates: the expression is &T{...} or a call of a pure function whose pointer result is never nil.
func (m *mtr) allocates(e ast.Expr) bool {
	if isAlloc(e) {
		return true
	}
	c, ok := e.(*ast.CallExpr)
	if !ok {
		return false
	}
	f, ok := c.Fun.(*ast.Ident)
	if !ok {
		return false
	}
	d, ok := m.p.funcs[f.Name]
	return ok && translated[f.Name] && pureNonNil(d)
}

// pureNonNil: a function with a single pointer result that is &T{...} on every return (or a named result allocated
// by the first statement and never assigned again).
func pureNonNil(d *ast.FuncDecl) bool {
	if d.Type.Results == nil || len(d.Type.Results.List) != 1 || d.Body == nil {
		return false
	}
	f := d.Type.Results.List[0]
	if _, ok := f.Type.(*ast.StarExpr); !ok {
		return false
	}
	if len(f.Names) == 0 {
		ok := true
		n := 0
		ast.Inspect(d.Body, func(x ast.Node) bool {
			if r, isR := x.(*ast.ReturnStmt); isR {
				n++
				if len(r.Results) != 1 || !isAlloc(r.Results[0]) {
					ok = false
				}
			}
			return true
		})
		return ok && n > 0
	}
	if len(f.Names) != 1 || len(d.Body.List) == 0 {
		return false
	}
	name := f.Names[0].Name
	first, ok := d.Body.List[0].(*ast.AssignStmt)
	if !ok || first.Tok != token.ASSIGN || len(first.Lhs) != 1 || len(first.Rhs) != 1 || !isIdent(first.Lhs[0], name) || !isAlloc(first.Rhs[0]) {
		return false
	}
	good := true
	ast.Inspect(d.Body, func(x ast.Node) bool {
		switch x := x.(type) {
		case *ast.AssignStmt:
			if x != first {
				for _, l := range x.Lhs {
					if isIdent(l, name) {
						good = false
					}
				}
			}
		case *ast.ReturnStmt:
			if len(x.Results) != 0 {
				good = false
			}
		case *ast.UnaryExpr:
			if x.Op == token.AND && isIdent(x.X, name) {
				good = false
			}
		}
		return true
	})
	return good
}

func isAlloc(e ast.Expr) bool {
	u, ok := e.(*ast.UnaryExpr)
	if !ok || u.Op != token.AND {
		return false
	}
	_, ok = u.X.(*ast.CompositeLit)
	return ok
}

// assignTo emits the let that stores the value rs (of type rt) into lhs.
func (m *mtr) assignTo(lhs ast.Expr, tok token.Token, rs string, rt *ty, nonNil bool, n ast.Node) string {
	return m.assignTo2(lhs, tok, rs, rt, nonNil, false, n)
}

func (m *mtr) assignTo2(lhs ast.Expr, tok token.Token, rs string, rt *ty, nonNil bool, keepLen bool, n ast.Node) string {
	if isIdent(lhs, "_") {
		return ""
	}
	path, okp := pathOf(lhs)
	if !okp {
		m.fail(n, "unsupported assignment target")
	}
	var out string
	switch l := lhs.(type) {
	case *ast.Ident:
		if l.Name == "err" || l.Name == m.it {
			m.fail(n, "assignment to %s", l.Name)
		}
		if tok == token.DEFINE {
			if _, ok := m.decl[l.Name]; ok {
				m.fail(n, "variable %s is declared twice (shadowing is outside the grammar)", l.Name)
			}
		} else if _, ok := m.env[l.Name]; !ok {
			d, ok := m.decl[l.Name]
			if !ok {
				m.fail(n, "assignment to undeclared variable %s", l.Name)
			}
			m.env[l.Name] = d
		}
		out = m.tr.assign(l, tok, rs, rt, n)
		if tok == token.DEFINE {
			m.decl[l.Name] = m.env[l.Name]
		}
	case *ast.SelectorExpr:
		if tok == token.DEFINE {
			m.fail(n, "definition of a field")
		}
		out = m.assignPath(l, tok, rs, rt, n)
	default:
		m.fail(n, "unsupported assignment target")
	}
	m.clearPath(path)
	if nonNil {
		m.nonNil[path] = true
	}
	if id, ok := lhs.(*ast.Ident); ok && !keepLen {
		delete(m.sliceLen, id.Name)
	}
	return out
}

// assignPath: x.f1...fk op= v as nested record updates (through Some for pointer fields).
func (m *mtr) assignPath(l *ast.SelectorExpr, tok token.Token, rs string, rt *ty, n ast.Node) string {
	var path []string
	var e ast.Expr = l
	for {
		sel, ok := e.(*ast.SelectorExpr)
		if !ok {
			break
		}
		path = append([]string{sel.Sel.Name}, path...)
		e = sel.X
	}
	id, ok := e.(*ast.Ident)
	if !ok {
		m.fail(n, "unsupported assignment target")
	}
	xt, ok := m.env[id.Name]
	if !ok {
		m.fail(n, "assignment to a field of unknown variable %s", id.Name)
	}
	if m.ptrVar[id.Name] && !m.nonNil[id.Name] {
		m.fail(n, "dereference of %s, which is not statically known to be non-nil", id.Name)
	}
	val := m.upd(cname(id.Name), xt, path, id.Name, func(cur string, ft *ty) string {
		return m.tr.opAssign(cur, ft, tok, rs, rt, n)
	}, n)
	return "let " + cname(id.Name) + " := " + val + " in\n  "
}

func (m *mtr) upd(cur string, ct *ty, path []string, where string, leaf func(string, *ty) string, n ast.Node) string {
	if len(path) == 0 {
		return leaf(cur, ct)
	}
	s, st := cur, ct
	if ct.k == "opt" {
		if !m.nonNil[where] {
			m.fail(n, "dereference of %s, which is not statically known to be non-nil", where)
		}
		s, st = asStruct(cur, ct)
	}
	if st.k != "struct" {
		m.fail(n, "field assignment on a non-struct")
	}
	ft := m.structFieldType(st.name, path[0], n)
	v := m.upd("("+st.name+"_"+path[0]+" "+s+")", ft, path[1:], where+"."+path[0], leaf, n)
	usedSetters[st.name+"."+path[0]] = true
	rec := "(set_" + st.name + "_" + path[0] + " " + paren(v) + " " + s + ")"
	if ct.k == "opt" {
		rec = "(Some " + rec + ")"
	}
	return rec
}

// setters used by the generated definitions: set_<Struct>_<Field> v r is r with the field replaced
var usedSetters = map[string]bool{}

func (p *pkg) emitSetters() string {
	var keys []string
	for k := range usedSetters {
		keys = append(keys, k)
	}
	sort.Strings(keys)
	t := &tr{p: p, fn: "setters", env: map[string]*ty{}}
	var b strings.Builder
	for _, k := range keys {
		parts := strings.SplitN(k, ".", 2)
		sn, fn := parts[0], parts[1]
		var fs []string
		var ft *ty
		for _, f := range p.structs[sn].Fields.List {
			for _, fid := range f.Names {
				if fid.Name == fn {
					ft = t.goType(f.Type)
					fs = append(fs, fmt.Sprintf("%s_%s := v", sn, fid.Name))
				} else {
					fs = append(fs, fmt.Sprintf("%s_%s := %s_%s r", sn, fid.Name, sn, fid.Name))
				}
			}
		}
		fmt.Fprintf(&b, "Definition set_%s_%s (v : %s) (r : %s) : %s :=\n  {| %s |}.\n", sn, fn, ft.coq(), sn, sn, strings.Join(fs, "; "))
	}
	b.WriteString("\n")
	return b.String()
}

// ---------- statements ----------

func mtuple(vars []string) string {
	if len(vars) == 0 {
		return "tt"
	}
	return tuple(vars)
}

func mpat(vars []string) string {
	if len(vars) == 0 {
		return "_"
	}
	return tuplePat(vars)
}

func (m *mtr) dropLocals(savedDecl map[string]*ty) {
	for k := range m.decl {
		if _, ok := savedDecl[k]; !ok {
			delete(m.env, k)
			delete(m.decl, k)
		}
	}
}

type mstate struct {
	env    map[string]*ty
	decl   map[string]*ty
	nonNil map[string]bool
}

// needVars: every variable a block hands on must hold a current value at the end of the branch.
func (m *mtr) needVars(vars []string, n ast.Node) {
	for _, v := range vars {
		if _, ok := m.env[v]; !ok {
			m.fail(n, "variable %s is handed on by a block on a path where its value was dropped", v)
		}
	}
}

func (m *mtr) save() mstate {
	nn := map[string]bool{}
	for k := range m.nonNil {
		nn[k] = true
	}
	return mstate{m.copyEnv(), m.copyEnvFrom(m.decl), nn}
}

func (m *mtr) restore(s mstate) {
	m.env = m.copyEnvFrom(s.env)
	m.decl = m.copyEnvFrom(s.decl)
	m.nonNil = map[string]bool{}
	for k := range s.nonNil {
		m.nonNil[k] = true
	}
}

// stmts translates a statement list into an IM expression; out is the set of variables live after the list, k the
// continuation that produces the expression for falling off its end.
func (m *mtr) stmts(list []ast.Stmt, out vset, k func() string) string {
	if len(list) == 0 {
		return k()
	}
	rest := func() string { return m.stmts(list[1:], out, k) }
	switch s := list[0].(type) {
	case *ast.ReturnStmt:
		return m.ret(s)
	case *ast.EmptyStmt:
		return rest()
	case *ast.BlockStmt:
		return m.stmts(append(append([]ast.Stmt{}, s.List...), list[1:]...), out, k)
	case *ast.ExprStmt:
		meth, c, ok := m.iterMethod(s.X)
		if !ok || (meth != "Skip" && meth != "Seek") || len(c.Args) != 1 {
			m.fail(s, "unsupported expression statement")
		}
		pre := ""
		a := m.hoist(c.Args[0], &pre, false)
		as, _ := m.expr(a)
		prim := "iskip"
		if meth == "Seek" {
			prim = "iseek"
		}
		return pre + prim + " " + paren(as) + " ;;;\n  " + rest()
	case *ast.DeclStmt:
		gd, ok := s.Decl.(*ast.GenDecl)
		if !ok || gd.Tok != token.VAR {
			m.fail(s, "unsupported declaration")
		}
		o := ""
		for _, sp := range gd.Specs {
			vs := sp.(*ast.ValueSpec)
			for i, id := range vs.Names {
				if _, ok := m.decl[id.Name]; ok {
					m.fail(s, "variable %s is declared twice (shadowing is outside the grammar)", id.Name)
				}
				if id.Name == "err" || id.Name == m.it {
					m.fail(s, "declaration of %s", id.Name)
				}
				var typ *ty
				if vs.Type != nil {
					typ = m.goType(vs.Type)
				}
				val := ""
				if i < len(vs.Values) {
					v, vt := m.expr(m.hoist(vs.Values[i], &o, false))
					if typ == nil {
						typ = vt
						if typ.k == "untyped" {
							typ = tInt
						}
					}
					val = m.coerce(v, vt, typ, s)
				} else {
					if typ == nil {
						m.fail(s, "declaration without type")
					}
					val = typ.zero()
				}
				if typ.k == "opt" {
					if !m.psi || i < len(vs.Values) {
						m.fail(s, "local pointer variable %s", id.Name)
					}
					// `var x *T`: the record, not known to be non-nil until a parser result is stored in it
					typ = typ.elem
					val = typ.zero()
					m.ptrVar[id.Name] = true
				}
				m.bind(id.Name, typ, id.Pos())
				m.decl[id.Name] = typ
				o += "let " + cname(id.Name) + " : " + typ.coq() + " := " + val + " in\n  "
			}
		}
		return o + rest()
	case *ast.IncDecStmt:
		tok := token.ADD_ASSIGN
		if s.Tok == token.DEC {
			tok = token.SUB_ASSIGN
		}
		m.checkDerefs(s.X)
		return m.assignTo(s.X, tok, "1", tUntyped, false, s) + rest()
	case *ast.AssignStmt:
		if as, ok := isErrAssign(s); ok {
			if len(list) < 2 {
				m.fail(s, "assignment to err that is not followed by return")
			}
			r, ok := list[1].(*ast.ReturnStmt)
			if !ok || (len(r.Results) != 0 && !isIdent(r.Results[len(r.Results)-1], "err")) {
				m.fail(s, "assignment to err that is not followed by return")
			}
			return "ierr " + m.errCode(as.Rhs[0])
		}
		if len(s.Lhs) != 1 || len(s.Rhs) != 1 {
			m.fail(s, "multiple assignment outside an error check")
		}
		pre := ""
		rhs := m.hoist(s.Rhs[0], &pre, false)
		rs, rt := m.expr(rhs)
		if sel, ok := s.Lhs[0].(*ast.SelectorExpr); ok {
			m.checkDerefs(sel.X)
		}
		return pre + m.assignTo(s.Lhs[0], s.Tok, rs, rt, m.allocates(rhs), s) + rest()
	case *ast.SwitchStmt:
		if s.Init != nil {
			m.fail(s, "switch with init")
		}
		return m.stmts(append([]ast.Stmt{m.switchToIf(s)}, list[1:]...), out, k)
	case *ast.ForStmt:
		if !m.psi {
			m.fail(s, "unsupported statement %T", s)
		}
		return m.forLoop(s, list[1:], out, k)
	case *ast.IfStmt:
		if as, ok := m.errCheck(s); ok {
			if s.Else != nil {
				m.fail(s, "error check with else")
			}
			return m.bindCall(as, m.propagates(s.Body.List, s)) + rest()
		}
		if s.Init != nil {
			if as, ok := s.Init.(*ast.AssignStmt); ok && m.psi && as.Tok == token.DEFINE {
				// `if x := e; c { ... }` is `x := e; if c { ... }` (x stays declared: a later redeclaration is refused)
				plain := *s
				plain.Init = nil
				return m.stmts(append([]ast.Stmt{as, &plain}, list[1:]...), out, k)
			}
			m.fail(s, "if with init that is not an error check")
		}
		pre := ""
		cond := m.hoist(s.Cond, &pre, false)
		c, ct := m.expr(cond)
		if ct.k != "bool" {
			m.fail(s, "condition is not boolean")
		}
		body, els := branches(s)
		after := m.liveBefore(list[1:], out)
		if m.freeReturn(body) || m.freeReturn(els) {
			// a branch returns: the continuation goes into the branch that falls through
			saved := m.save()
			kk := func() string { m.dropLocals(saved.decl); return m.stmts(list[1:], out, k) }
			th := m.stmts(body, after, kk)
			m.restore(saved)
			el := m.stmts(els, after, kk)
			m.restore(saved)
			return pre + "(if " + c + " then " + th + " else " + el + ")"
		}
		set := map[string]bool{}
		m.assigned(body, set)
		m.assigned(els, set)
		var vars, dead []string
		for v := range set {
			if _, ok := m.decl[v]; !ok {
				continue // declared inside the block
			}
			if after.has(v) {
				vars = append(vars, v)
			} else {
				dead = append(dead, v)
			}
		}
		m.sortDecl(vars)
		isM := m.monadic(body) || m.monadic(els)
		saved := m.save()
		var th, el string
		if isM {
			fin := func() string { m.needVars(vars, s); return "iret " + mtuple(vars) }
			th = m.stmts(body, after, fin)
			m.restore(saved)
			el = m.elseBranch(els, after, fin, true)
		} else {
			if len(vars) == 0 {
				m.restore(saved)
				for _, v := range dead {
					delete(m.env, v)
				}
				return pre + rest()
			}
			fin := func() string { m.needVars(vars, s); return tuple(vars) }
			th = m.stmts(body, after, fin)
			m.restore(saved)
			el = m.elseBranch(els, after, fin, false)
		}
		m.restore(saved)
		for _, v := range dead {
			delete(m.env, v)
		}
		for _, v := range vars {
			m.env[v] = m.decl[v]
		}
		if isM {
			if len(vars) == 0 {
				return pre + "(if " + c + " then " + th + " else " + el + ") ;;;\n  " + rest()
			}
			return pre + mpat(vars) + " <- (if " + c + " then " + th + " else " + el + ") ;;\n  " + rest()
		}
		return pre + "let " + tuplePat(vars) + " := (if " + c + " then " + th + " else " + el + ") in\n  " + rest()
	}
	m.fail(list[0], "unsupported statement %T", list[0])
	return ""
}

func paren(s string) string {
	if strings.ContainsAny(s, " ") && !(strings.HasPrefix(s, "(") && strings.HasSuffix(s, ")") && balanced(s[1:len(s)-1])) {
		return "(" + s + ")"
	}
	return s
}

func balanced(s string) bool {
	d := 0
	for _, c := range s {
		switch c {
		case '(':
			d++
		case ')':
			d--
			if d < 0 {
				return false
			}
		}
	}
	return d == 0
}

// assigned lists the local variables assigned in a statement list (error checks included).
func (m *mtr) assigned(list []ast.Stmt, set map[string]bool) {
	for _, s := range list {
		ast.Inspect(s, func(n ast.Node) bool {
			switch n := n.(type) {
			case *ast.AssignStmt:
				for _, l := range n.Lhs {
					if r := rootOf(l); r != "" && r != "err" && r != "_" {
						set[r] = true
					}
				}
			case *ast.IncDecStmt:
				if r := rootOf(n.X); r != "" {
					set[r] = true
				}
			}
			return true
		})
	}
}

// bindCall: `lhs..., err = call` of an iterator primitive or of a translated parser.
func (m *mtr) bindCall(as *ast.AssignStmt, replace string) string {
	if as.Tok != token.ASSIGN {
		m.fail(as, "error check that defines variables")
	}
	lhs := as.Lhs[:len(as.Lhs)-1]
	call := as.Rhs[0].(*ast.CallExpr)
	pre := ""
	var comp string
	var resTy []*ty
	var resPtr []bool
	if meth, c, ok := m.iterMethod(call); ok {
		switch meth {
		case "NextByte":
			if len(c.Args) != 0 {
				m.fail(call, "NextByte with arguments")
			}
			comp, resTy = "next_byte", []*ty{{k: "int", w: 8}}
		case "NextBytes", "NextBytesNoCopy":
			if len(c.Args) != 1 {
				m.fail(call, "%s needs one argument", meth)
			}
			a, _ := m.expr(m.hoist(c.Args[0], &pre, false))
			if id, ok := lhs[0].(*ast.Ident); ok && len(lhs) == 1 {
				delete(m.sliceLen, id.Name)
				if n, ok := m.p.evalConst(c.Args[0], map[string]bool{}); ok && n.Sign() >= 0 {
					m.sliceLen[id.Name] = n.Int64()
				}
			}
			prim := "next_bytes"
			if meth == "NextBytesNoCopy" {
				prim = "next_bytes_nocopy"
			}
			comp, resTy = "("+prim+" "+paren(a)+")", []*ty{tBytes}
		default:
			m.fail(call, "iterator method %s in an error check", meth)
		}
		resPtr = []bool{false}
	} else if f, c, ok := m.parserCall(call); ok {
		sig, ok := mtranslated[f]
		if m.psi && m.absOK[f] {
			sig, ok = m.abstractSig(f, call), true
		}
		if !ok {
			m.fail(call, "call of untranslated parser %s", f)
		}
		if len(c.Args)-1 != len(sig.params) {
			m.fail(call, "wrong number of arguments for %s", f)
		}
		var args []string
		for k, a := range c.Args[1:] {
			s, st := m.expr(m.hoist(a, &pre, false))
			args = append(args, paren(m.coerce(s, st, sig.params[k], call)))
		}
		comp = f
		if len(args) > 0 {
			comp = "(" + f + " " + strings.Join(args, " ") + ")"
		}
		resTy, resPtr = sig.res, sig.resPtr
	} else {
		m.fail(call, "error check on a call that is neither an iterator method nor a parser")
	}
	if len(lhs) != len(resTy) {
		m.fail(as, "%d values assigned from a call that yields %d", len(lhs), len(resTy))
	}
	// bind to fresh names, then store
	var tmps []string
	for range lhs {
		m.ntmp++
		tmps = append(tmps, fmt.Sprintf("r%d_", m.ntmp))
	}
	if replace != "" {
		comp = "(imaperr " + replace + " " + comp + ")"
	}
	o := pre + mpat(tmps) + " <- " + comp + " ;;\n  "
	for k, l := range lhs {
		if sel, ok := l.(*ast.SelectorExpr); ok {
			m.checkDerefs(sel.X)
		}
		o += m.assignTo2(l, token.ASSIGN, tmps[k], resTy[k], resPtr[k], true, as)
	}
	return o
}

func imIsNilIdent(e ast.Expr) bool { return isIdent(e, "nil") }

func (m *mtr) ret(s *ast.ReturnStmt) string {
	if len(s.Results) == 0 {
		for k, r := range m.results {
			if m.resPtr[k] && !m.nonNil[r] {
				m.fail(s, "success return with the pointer result %s possibly nil", r)
			}
			if _, ok := m.env[r]; !ok {
				m.fail(s, "result %s read after its value was dropped", r)
			}
		}
		return "iret " + mtuple(m.results)
	}
	if len(s.Results) != len(m.resTy)+1 {
		m.fail(s, "return with %d values", len(s.Results))
	}
	last := s.Results[len(s.Results)-1]
	if !imIsNilIdent(last) {
		return "ierr " + m.errCode(last)
	}
	pre := ""
	var parts []string
	for k, r := range s.Results[:len(s.Results)-1] {
		if m.resPtr[k] {
			if p, ok := pathOf(r); !isAlloc(r) && !(ok && m.nonNil[p]) {
				m.fail(s, "success return of a possibly nil pointer")
			}
		}
		v, vt := m.expr(m.hoist(r, &pre, false))
		parts = append(parts, m.coerce(v, vt, m.resTy[k], s))
	}
	switch len(parts) {
	case 0:
		return pre + "iret tt"
	case 1:
		return pre + "iret " + paren(parts[0])
	}
	return pre + "iret (" + strings.Join(parts, ", ") + ")"
}

// ---------- functions ----------

func (p *pkg) mfunction(key string) string {
	d, ok := p.funcs[key]
	if !ok {
		panic(genError{fmt.Sprintf("function %s not found in /repo", key)})
	}
	it := iterParam(d)
	if it == "" {
		if translated[key] {
			return "" // already in Gen/Preds.v
		}
		return p.function(key, false)
	}
	if d.Recv != nil {
		panic(genError{fmt.Sprintf("%s: methods are outside the grammar of the parser translation", key)})
	}
	var loops []string
	t := &tr{p: p, fn: key, env: map[string]*ty{}, optPar: map[string]bool{}, loops: &loops}
	m := &mtr{tr: t, it: it, decl: map[string]*ty{}, ptrVar: map[string]bool{}, nonNil: map[string]bool{}, fnTy: map[string]bool{}, sliceLen: map[string]int64{}}
	sig := &msig{}
	var params []string
	for _, f := range d.Type.Params.List {
		if isIterType(f.Type) {
			continue
		}
		for _, id := range f.Names {
			if arg, ok := p.predicateType(f.Type); ok {
				// a callback `func(*T) bool` that may be nil: option (T -> bool); it can only be used as `s != nil && s(x)`
				m.fnTy[id.Name] = true
				ft := &ty{k: "func", name: arg}
				sig.params = append(sig.params, ft)
				params = append(params, fmt.Sprintf("(%s : option (%s -> bool))", cname(id.Name), arg))
				continue
			}
			typ := t.goType(f.Type)
			if typ.k == "opt" && !usesNil(d.Body, id.Name) {
				typ = typ.elem
			}
			t.bind(id.Name, typ, id.Pos())
			m.decl[id.Name] = typ
			sig.params = append(sig.params, typ)
			params = append(params, fmt.Sprintf("(%s : %s)", cname(id.Name), typ.coq()))
		}
	}
	if d.Type.Results == nil || len(d.Type.Results.List) == 0 {
		t.fail(d, "parser without results")
	}
	rl := d.Type.Results.List
	lastF := rl[len(rl)-1]
	if !isIdent(lastF.Type, "error") || len(lastF.Names) > 1 {
		t.fail(d, "the last result is not a single error")
	}
	named := len(lastF.Names) == 1
	if named && lastF.Names[0].Name != "err" {
		t.fail(d, "the error result is not called err")
	}
	pre := ""
	for _, f := range rl[:len(rl)-1] {
		typ := t.goType(f.Type)
		isPtr := false
		if typ.k == "opt" {
			typ, isPtr = typ.elem, true
		}
		if len(f.Names) == 0 {
			if named {
				t.fail(d, "mixed named and unnamed results")
			}
			sig.res = append(sig.res, typ)
			sig.resPtr = append(sig.resPtr, isPtr)
		}
		for _, id := range f.Names {
			if !named {
				t.fail(d, "mixed named and unnamed results")
			}
			sig.res = append(sig.res, typ)
			sig.resPtr = append(sig.resPtr, isPtr)
			t.results = append(t.results, id.Name)
			t.bind(id.Name, typ, id.Pos())
			m.decl[id.Name] = typ
			m.ptrVar[id.Name] = isPtr
			pre += "let " + cname(id.Name) + " := " + typ.zero() + " in\n  "
		}
	}
	t.resTy = sig.res
	m.resPtr = sig.resPtr
	final := func() string {
		t.fail(d, "function falls off its end")
		return ""
	}
	body := d.Body.List
	if named {
		// falling off the end is impossible in Go for a function with results; keep the check
		_ = final
	}
	expr := m.stmts(body, vset{}, final)
	if len(loops) > 0 {
		t.fail(d, "loops are outside the grammar of the parser translation")
	}
	var rts []string
	for _, r := range sig.res {
		rts = append(rts, r.coq())
	}
	rt := "unit"
	if len(rts) > 0 {
		rt = strings.Join(rts, " * ")
	}
	mtranslated[key] = sig
	return fmt.Sprintf("Definition %s %s : IM (%s) :=\n  %s%s.\n\n", key, strings.Join(params, " "), rt, pre, expr)
}

func (p *pkg) emitParseGen() string {
	head := "(* Generated from the bodies of the byte-level parsers of /repo by go/gen (itermonad.go) on every run. Do not edit.\n" +
		"   Each function that takes an *astikit.BytesIterator becomes a computation in the iterator monad IM of Base/Iter.v:\n" +
		"   `if x, err = i.NextBytes(n); err != nil { wrap; return }` is `x <- next_bytes n ;; ...`, a wrapped error keeps its tag,\n" +
		"   integers are Z with `mod 2^N` at every uintN operation, a pointer result *T is the record T, a field assignment\n" +
		"   x.f = v is `let x := set_T_f v x` (the record with that field replaced), conditional blocks return the variables they\n" +
		"   assign that are still live.  Proofs/ParseGenEq.v proves the hand-written models of Model/Clock.v, Model/Packet.v and\n" +
		"   Model/Pes.v equal to these definitions. *)\n" +
		"From Coq Require Import ZArith List Bool.\nRequire Import Base.Iter Gen.Consts Gen.Types Gen.Preds.\nImport ListNotations.\nOpen Scope Z_scope.\nOpen Scope iter_scope.\n\n" +
		"(* intN(x) for an unsigned x of at least N bits: the two's complement reading of its low N bits *)\nDefinition sint (w x : Z) : Z := (x + 2 ^ (w - 1)) mod 2 ^ w - 2 ^ (w - 1).\n\n"
	var b strings.Builder
	for _, key := range parseEntries {
		func() {
			defer func() {
				if r := recover(); r != nil {
					ge, ok := r.(genError)
					if !ok {
						panic(r)
					}
					fmt.Fprintf(os.Stderr, "gen: not translated: %s\n", ge.msg)
					fmt.Fprintf(&b, "(* NOT TRANSLATED (the function left the translator's grammar): %s *)\n\n", strings.ReplaceAll(ge.msg, "*)", "* )"))
				}
			}()
			b.WriteString(p.mfunction(key))
		}()
	}
	return head + p.emitSetters() + b.String()
}
