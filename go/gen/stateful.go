package main

// Translation of the STATEFUL core of packet_pool.go into Gen/PoolGen.v.
//
// Gen/Preds.v holds functions without state. The packet pool is a method with a pointer receiver that
// reads and writes the receiver's fields, works on slices (reset, make, append, hand-over) and keeps its
// accumulators in a map of pointers. This file translates such methods statement by statement, reusing the
// expression translator of preds.go (`tr.expr`, `tr.assign`, the if/assign SSA scheme, genError isolation):
//
//   * a method `func (b *S) m(args) (results)` becomes a function of the receiver's FIELDS (one parameter
//     `b_<field>` each, in declaration order) and the arguments; it returns the final values of the fields it
//     assigns (declaration order) followed by the results;
//   * slices are lists: `x[:0]` and `make([]T, 0, c)` are the empty list, `append(x, e)` is `x ++ [e]`,
//     `x = nil` is the empty list. Capacity is not modelled: `cap(x)` is accepted as the capacity argument of
//     make, and in a condition only when both branches translate to the same term. A slice compared with nil
//     makes the translation FAIL (nil and empty are not told apart, so the comparison cannot be modelled);
//   * a pointer field/parameter to an opaque type (`*programMap`) is an `option`; a method call through it is
//     accepted only where a `!= nil` test dominates it (same conjunction, enclosing if, or an earlier guard);
//   * a map of pointers to a stateful struct is an abstract type with the operations `map_get`, `map_set`,
//     `map_delete`, `map_keys_sorted` as parameters of the generated definition. Two idioms are recognised as a
//     whole and anything else on a map fails: lookup-or-create (`v, ok := m[k]; if !ok { v = NEW; m[k] = v }`),
//     after which `v` is tied to the entry `m[k]` and a call of a state-changing method on `v` is written back
//     with `map_set`; and sorted keys (`var ks []int; for k := range m { ks = append(ks, int(k)) };
//     sort.Ints(ks)`), which becomes `map_keys_sorted m`;
//   * `for _, x := range xs { ... return ... }` at the top level of a function becomes a Fixpoint over the list
//     whose nil case is the translation of the statements after the loop;
//   * functions named in statefulExternal (isPSIComplete) stay outside: they become a parameter of every
//     generated definition that (transitively) calls them.
//
// Whatever leaves this grammar raises a genError: the function (and every function calling it) is replaced by a
// `NOT TRANSLATED` comment, Proofs/PoolGenEq.v stops compiling and the check reports the broken lemma.

import (
	"fmt"
	"go/ast"
	"go/token"
	"os"
	"regexp"
	"sort"
	"strings"
)

// structs emitted as records in PoolGen.v (Types.v skips them: they hold a *programMap)
var statefulRecords = []string{"packetAccumulator"}

// functions translated into PoolGen.v, in dependency order
var statefulEntries = []string{"newPacketAccumulator", "packetAccumulator.add", "packetPool.addUnlocked", "packetPool.dumpUnlocked"}

// functions that stay hand-modelled and are passed as arguments
var statefulExternal = []string{"isPSIComplete"}

var statefulStruct = map[string]bool{} // records emitted so far

type mapInfo struct {
	val string // value struct (the map holds pointers to it)
	key *ty
}

var mapTypes = map[string]mapInfo{}

type sfield struct {
	name string
	typ  *ty
}

type sfuncInfo struct {
	key, cname string
	ext        []string          // external parameters, canonical order
	extDecl    map[string]string // their binders
	recv       string            // receiver struct ("" for a plain function)
	fields     []sfield          // receiver fields, declaration order
	mut        []string          // fields assigned, declaration order
	params     []*ty
	results    []*ty
}

var sfuncs = map[string]*sfuncInfo{}

type aliasInfo struct {
	mvar string // the map variable (a receiver field variable)
	key  string // translated key
	deps map[string]bool
}

type sf struct {
	t        *tr
	p        *pkg
	recv     string
	info     *sfuncInfo
	named    []string
	ext      map[string]string // name -> binder
	facts    [][]string        // stack of expressions known to be non-nil
	sawCap   bool
	alias    map[string]aliasInfo
	knownNil map[string]bool // locals known to be empty lists
	leaves   map[string]bool
	depth    int
	nfresh   int
	retCoq   string
	loopDefs *[]string
	nloop    int
}

func (s *sf) fail(n ast.Node, format string, a ...interface{}) { s.t.fail(n, format, a...) }

// ---------- types ----------

func (s *sf) gotype(e ast.Expr) *ty {
	switch x := e.(type) {
	case *ast.StarExpr:
		if id, ok := x.X.(*ast.Ident); ok {
			if _, isMap := mapTypes[id.Name]; !isMap {
				if _, ok := opaqueTypes[id.Name]; ok {
					return &ty{k: "opt", elem: &ty{k: "opaque", name: id.Name}}
				}
			}
			if statefulStruct[id.Name] {
				return &ty{k: "struct", name: id.Name}
			}
		}
	case *ast.MapType:
		val := recvName(x.Value)
		if _, isPtr := x.Value.(*ast.StarExpr); !isPtr || !statefulStruct[val] {
			s.fail(e, "unsupported map value type")
		}
		kt := s.t.goType(x.Key)
		if kt.k != "int" {
			s.fail(e, "unsupported map key type")
		}
		name := "map_" + val
		opaqueTypes[name] = name
		mapTypes[name] = mapInfo{val: val, key: kt}
		return &ty{k: "opaque", name: name}
	}
	return s.t.goType(e)
}

func isMapTy(t *ty) bool {
	if t == nil || t.k != "opaque" {
		return false
	}
	_, ok := mapTypes[t.name]
	return ok
}

func isStatefulTy(t *ty) bool { return t != nil && t.k == "struct" && statefulStruct[t.name] }

func nilOf(t *ty) string {
	switch t.k {
	case "list":
		return "(@nil " + t.elem.coq() + ")"
	case "bytes":
		return "(@nil Z)"
	}
	return t.zero()
}

func sameTy(a, b *ty) bool {
	if a.k == "untyped" || b.k == "untyped" {
		return (a.k == "untyped" || a.k == "int") && (b.k == "untyped" || b.k == "int")
	}
	return a.coq() == b.coq()
}

func (s *sf) fieldType(sname, fname string, n ast.Node) *ty {
	st, ok := s.p.structs[sname]
	if !ok {
		s.fail(n, "unknown struct %s", sname)
	}
	for _, f := range st.Fields.List {
		for _, id := range f.Names {
			if id.Name == fname {
				return s.gotype(f.Type)
			}
		}
	}
	s.fail(n, "struct %s has no field %s", sname, fname)
	return nil
}

// ---------- external parameters ----------

var extRank = map[string]int{"map_get": 1, "map_set": 2, "map_delete": 3, "map_keys_sorted": 4}

func (s *sf) useMapOp(op string, mt *ty, n ast.Node) {
	mi := mapTypes[mt.name]
	for other := range s.ext {
		if _, isType := mapTypes[other]; isType && other != mt.name {
			s.fail(n, "two different map types in one function")
		}
	}
	s.ext[mt.name] = "{" + mt.name + " : Type}"
	switch op {
	case "map_get":
		s.ext[op] = fmt.Sprintf("(map_get : %s -> Z -> option %s)", mt.name, mi.val)
	case "map_set":
		s.ext[op] = fmt.Sprintf("(map_set : %s -> Z -> %s -> %s)", mt.name, mi.val, mt.name)
	case "map_delete":
		s.ext[op] = fmt.Sprintf("(map_delete : %s -> Z -> %s)", mt.name, mt.name)
	case "map_keys_sorted":
		s.ext[op] = fmt.Sprintf("(map_keys_sorted : %s -> list Z)", mt.name)
	}
}

func (s *sf) useExternal(name string) {
	var ps []string
	for _, a := range funcSig[name] {
		ps = append(ps, a.coq())
	}
	ps = append(ps, funcRes[name].coq())
	s.ext[name] = "(" + name + " : " + strings.Join(ps, " -> ") + ")"
}

func extOrder(ext map[string]string) []string {
	var names []string
	for n := range ext {
		names = append(names, n)
	}
	rank := func(n string) int {
		if _, ok := mapTypes[n]; ok {
			return 0
		}
		if r, ok := extRank[n]; ok {
			return r
		}
		return 5
	}
	sort.Slice(names, func(i, j int) bool {
		if rank(names[i]) != rank(names[j]) {
			return rank(names[i]) < rank(names[j])
		}
		return names[i] < names[j]
	})
	return names
}

func extBinders(ext map[string]string) string {
	var b []string
	for _, n := range extOrder(ext) {
		b = append(b, ext[n])
	}
	return strings.Join(b, " ")
}

func extArgs(order []string) string {
	var a []string
	for _, n := range order {
		if _, isType := mapTypes[n]; !isType {
			a = append(a, n)
		}
	}
	return strings.Join(a, " ")
}

// ---------- non-nil facts ----------

func nilCompare(b *ast.BinaryExpr) (ast.Expr, bool) {
	if b.Op != token.EQL && b.Op != token.NEQ {
		return nil, false
	}
	if id, ok := b.Y.(*ast.Ident); ok && id.Name == "nil" {
		return b.X, true
	}
	if id, ok := b.X.(*ast.Ident); ok && id.Name == "nil" {
		return b.Y, true
	}
	return nil, false
}

// nonNilWhen lists the (translated) expressions that are non-nil whenever e evaluates to val.
func (s *sf) nonNilWhen(e ast.Expr, val bool) []string {
	switch x := e.(type) {
	case *ast.ParenExpr:
		return s.nonNilWhen(x.X, val)
	case *ast.UnaryExpr:
		if x.Op == token.NOT {
			return s.nonNilWhen(x.X, !val)
		}
	case *ast.BinaryExpr:
		if (x.Op == token.LAND && val) || (x.Op == token.LOR && !val) {
			return append(s.nonNilWhen(x.X, val), s.nonNilWhen(x.Y, val)...)
		}
		if o, ok := nilCompare(x); ok && ((x.Op == token.NEQ) == val) {
			v, vt := s.sx(o)
			if vt.k == "opt" {
				return []string{v}
			}
		}
	}
	return nil
}

func (s *sf) push(f []string) { s.facts = append(s.facts, f) }
func (s *sf) pop()            { s.facts = s.facts[:len(s.facts)-1] }

func (s *sf) knownNonNil(v string) bool {
	for _, fs := range s.facts {
		for _, f := range fs {
			if f == v {
				return true
			}
		}
	}
	return false
}

func mentions(term, v string) bool {
	return regexp.MustCompile(`(^|[^A-Za-z0-9_'])` + regexp.QuoteMeta(v) + `($|[^A-Za-z0-9_'])`).MatchString(term)
}

// written is called after every (re)binding of the Coq variable v: what was known through it is forgotten.
func (s *sf) written(v string) {
	for _, fs := range s.facts {
		for i, f := range fs {
			if mentions(f, v) {
				fs[i] = ""
			}
		}
	}
	for a, al := range s.alias {
		if cname(a) == v || al.deps[v] || al.mvar == v {
			delete(s.alias, a)
		}
	}
	delete(s.knownNil, v)
}

// ---------- expressions ----------

// leaf wraps an already translated term into an identifier that tr.expr prints verbatim.
func (s *sf) leaf(n ast.Node, term string, typ *ty) *ast.Ident {
	if coqReserved[term] {
		s.fail(n, "internal: reserved leaf")
	}
	s.t.env[term] = typ
	s.leaves[term] = true
	return &ast.Ident{NamePos: n.Pos(), Name: term}
}

// sx translates an expression. Boolean structure and nil tests are handled here (they carry the non-nil
// facts); everything else is rewritten so that the forms tr.expr does not know become leaves, then handed to tr.expr.
func (s *sf) sx(e ast.Expr) (string, *ty) {
	switch x := e.(type) {
	case *ast.ParenExpr:
		return s.sx(x.X)
	case *ast.UnaryExpr:
		if x.Op == token.NOT {
			v, _ := s.sx(x.X)
			return "(negb " + v + ")", tBool
		}
	case *ast.BinaryExpr:
		switch x.Op {
		case token.LAND, token.LOR:
			xs, _ := s.sx(x.X)
			s.push(s.nonNilWhen(x.X, x.Op == token.LAND))
			ys, _ := s.sx(x.Y)
			s.pop()
			if x.Op == token.LAND {
				return "(andb " + xs + " " + ys + ")", tBool
			}
			return "(orb " + xs + " " + ys + ")", tBool
		case token.EQL, token.NEQ:
			if o, ok := nilCompare(x); ok {
				vs, vt := s.sx(o)
				switch vt.k {
				case "opt":
					if x.Op == token.EQL {
						return "(match " + vs + " with Some _ => false | None => true end)", tBool
					}
					return "(match " + vs + " with Some _ => true | None => false end)", tBool
				case "list", "bytes":
					s.fail(x, "slice compared with nil: a nil slice and an empty slice are the same list in the model, the comparison cannot be translated")
				}
				s.fail(x, "nil comparison of a value that is not modelled as an option")
			}
		}
	}
	return s.t.expr(s.rewrite(e))
}

func (s *sf) typeOf(r ast.Expr) (string, *ty) { return s.t.expr(r) }

func (s *sf) rewriteAll(es []ast.Expr) []ast.Expr {
	var out []ast.Expr
	for _, e := range es {
		out = append(out, s.rewrite(e))
	}
	return out
}

func (s *sf) rewrite(e ast.Expr) ast.Expr {
	switch x := e.(type) {
	case *ast.Ident:
		if x.Name == "nil" {
			s.fail(x, "nil outside an assignment, a return or a comparison")
		}
		return x
	case *ast.BasicLit:
		return x
	case *ast.ParenExpr:
		return &ast.ParenExpr{Lparen: x.Lparen, X: s.rewrite(x.X), Rparen: x.Rparen}
	case *ast.StarExpr:
		return &ast.StarExpr{Star: x.Star, X: s.rewrite(x.X)}
	case *ast.UnaryExpr:
		if x.Op == token.NOT {
			v, typ := s.sx(x)
			return s.leaf(x, v, typ)
		}
		if cl, ok := x.X.(*ast.CompositeLit); ok && x.Op == token.AND {
			if id, ok := cl.Type.(*ast.Ident); ok && statefulStruct[id.Name] {
				return s.composite(cl, id.Name)
			}
		}
		return &ast.UnaryExpr{OpPos: x.OpPos, Op: x.Op, X: s.rewrite(x.X)}
	case *ast.BinaryExpr:
		if _, isNil := nilCompare(x); isNil || x.Op == token.LAND || x.Op == token.LOR {
			v, typ := s.sx(x)
			return s.leaf(x, v, typ)
		}
		return &ast.BinaryExpr{X: s.rewrite(x.X), OpPos: x.OpPos, Op: x.Op, Y: s.rewrite(x.Y)}
	case *ast.CompositeLit:
		if id, ok := x.Type.(*ast.Ident); ok && statefulStruct[id.Name] {
			return s.composite(x, id.Name)
		}
		return x
	case *ast.SliceExpr:
		if x.Low == nil && x.High != nil && !x.Slice3 {
			if v, ok := s.p.evalConst(x.High, map[string]bool{}); ok && v.Sign() == 0 {
				_, xt := s.sx(x.X)
				if xt.k != "list" && xt.k != "bytes" {
					s.fail(x, "slice expression on a value that is not a slice")
				}
				return s.leaf(x, nilOf(xt), xt)
			}
		}
		s.fail(x, "unsupported slice expression (only x[:0])")
	case *ast.IndexExpr:
		rx := s.rewrite(x.X)
		xs, xt := s.typeOf(rx)
		if isMapTy(xt) {
			// m[k] in an expression: the pointer stored under k, nil when absent
			ks, _ := s.sx(x.Index)
			s.useMapOp("map_get", xt, x)
			val := mapTypes[xt.name].val
			return s.leaf(x, "(map_get "+xs+" "+ks+")", &ty{k: "opt", elem: &ty{k: "struct", name: val}})
		}
		return &ast.IndexExpr{X: rx, Lbrack: x.Lbrack, Index: s.rewrite(x.Index), Rbrack: x.Rbrack}
	case *ast.SelectorExpr:
		if id, ok := x.X.(*ast.Ident); ok {
			if s.recv != "" && id.Name == s.recv {
				name := s.recv + "_" + x.Sel.Name
				if _, ok := s.t.env[name]; !ok {
					s.fail(x, "unknown receiver field %s", x.Sel.Name)
				}
				return &ast.Ident{NamePos: x.Pos(), Name: name}
			}
			if _, ok := s.t.env[id.Name]; !ok {
				return x // package selector (time.Hour ...): tr.expr decides
			}
		}
		rx := s.rewrite(x.X)
		xs, xt := s.typeOf(rx)
		if xt.k == "opt" && isStatefulTy(xt.elem) {
			// as in Gen/Preds.v a dereference is totalised with the zero record
			xs, xt = "(odflt zero_"+xt.elem.name+" "+xs+")", xt.elem
		}
		if isStatefulTy(xt) {
			return s.leaf(x, "("+xt.name+"_"+x.Sel.Name+" "+xs+")", s.fieldType(xt.name, x.Sel.Name, x))
		}
		return &ast.SelectorExpr{X: rx, Sel: x.Sel}
	case *ast.CallExpr:
		return s.rewriteCall(x)
	}
	s.fail(e, "unsupported expression %T", e)
	return nil
}

func (s *sf) composite(cl *ast.CompositeLit, sname string) ast.Expr {
	vals := map[string]string{}
	for _, el := range cl.Elts {
		kv, ok := el.(*ast.KeyValueExpr)
		if !ok {
			s.fail(cl, "unkeyed composite literal")
		}
		k := kv.Key.(*ast.Ident).Name
		ft := s.fieldType(sname, k, kv)
		if id, ok := kv.Value.(*ast.Ident); ok && id.Name == "nil" {
			vals[k] = nilOf(ft)
			continue
		}
		v, vt := s.sx(kv.Value)
		if !sameTy(vt, ft) {
			s.fail(kv, "field %s: value of type %s for a field of type %s", k, vt.coq(), ft.coq())
		}
		vals[k] = v
	}
	var fs []string
	for _, f := range s.p.structs[sname].Fields.List {
		for _, id := range f.Names {
			v, ok := vals[id.Name]
			if !ok {
				v = nilOf(s.gotype(f.Type))
			}
			fs = append(fs, fmt.Sprintf("%s_%s := %s", sname, id.Name, v))
		}
	}
	return s.leaf(cl, "{| "+strings.Join(fs, "; ")+" |}", &ty{k: "struct", name: sname})
}

func (s *sf) capArgOK(e ast.Expr) bool {
	switch x := e.(type) {
	case *ast.BasicLit:
		v, ok := s.p.evalConst(x, map[string]bool{})
		return ok && v.Sign() >= 0
	case *ast.CallExpr:
		if id, ok := x.Fun.(*ast.Ident); ok && (id.Name == "cap" || id.Name == "len") && len(x.Args) == 1 {
			if a, ok := x.Args[0].(*ast.Ident); ok {
				_, inEnv := s.t.env[a.Name]
				return inEnv
			}
		}
	}
	return false
}

func (s *sf) rewriteCall(x *ast.CallExpr) ast.Expr {
	switch f := x.Fun.(type) {
	case *ast.Ident:
		switch f.Name {
		case "make":
			if len(x.Args) < 2 || len(x.Args) > 3 {
				s.fail(x, "unsupported make")
			}
			at, ok := x.Args[0].(*ast.ArrayType)
			if !ok || at.Len != nil {
				s.fail(x, "make of something that is not a slice")
			}
			if v, ok := s.p.evalConst(x.Args[1], map[string]bool{}); !ok || v.Sign() != 0 {
				s.fail(x, "make with a length other than the literal 0")
			}
			if len(x.Args) == 3 && !s.capArgOK(x.Args[2]) {
				s.fail(x, "make: the capacity must be a literal, cap(v) or len(v)")
			}
			typ := s.gotype(at)
			return s.leaf(x, nilOf(typ), typ)
		case "append":
			if len(x.Args) < 2 {
				s.fail(x, "append with one argument")
			}
			as, at := s.sx(x.Args[0])
			if at.k != "list" && at.k != "bytes" {
				s.fail(x, "append to something that is not a slice")
			}
			et := &ty{k: "int", w: 8}
			if at.k == "list" {
				et = at.elem
			}
			if x.Ellipsis.IsValid() {
				if len(x.Args) != 2 {
					s.fail(x, "unsupported append")
				}
				bs, bt := s.sx(x.Args[1])
				if !sameTy(at, bt) {
					s.fail(x, "append of a slice of another type")
				}
				return s.leaf(x, "("+as+" ++ "+bs+")", at)
			}
			var els []string
			for _, a := range x.Args[1:] {
				v, vt := s.sx(a)
				v = s.t.coerce(v, vt, et, x)
				if vt.k == "opt" {
					vt = vt.elem
				}
				if !sameTy(vt, et) {
					s.fail(x, "append of an element of another type")
				}
				els = append(els, v)
			}
			return s.leaf(x, "("+as+" ++ ["+strings.Join(els, "; ")+"])", at)
		case "cap":
			// capacity is not modelled: the caller (an if statement) checks that it cannot be observed
			s.sawCap = true
			return s.leaf(x, "(capacity_is_not_modelled)", tInt)
		case "delete", "copy", "new", "panic", "recover":
			s.fail(x, "%s inside an expression", f.Name)
		}
		if info, ok := sfuncs[f.Name]; ok && info.recv == "" {
			return s.applyFunc(info, x)
		}
		for _, n := range statefulExternal {
			if n == f.Name {
				s.useExternal(n)
			}
		}
		return &ast.CallExpr{Fun: f, Lparen: x.Lparen, Args: s.rewriteAll(x.Args), Rparen: x.Rparen}
	case *ast.SelectorExpr:
		if id, ok := f.X.(*ast.Ident); ok && !(s.recv != "" && id.Name == s.recv) {
			if _, ok := s.t.env[id.Name]; !ok {
				// package function (bytes.Equal, time.Duration): tr.call decides
				return &ast.CallExpr{Fun: f, Lparen: x.Lparen, Args: s.rewriteAll(x.Args), Rparen: x.Rparen}
			}
		}
		rx := s.rewrite(f.X)
		xs, xt := s.typeOf(rx)
		if xt.k == "opt" && xt.elem.k == "opaque" && xt.elem.name == "programMap" && f.Sel.Name == "existsUnlocked" && len(x.Args) == 1 {
			if !s.knownNonNil(xs) {
				s.fail(x, "possible nil dereference: %s is not known to be non-nil here", xs)
			}
			a, _ := s.sx(x.Args[0])
			return s.leaf(x, "(match "+xs+" with Some m_ => m_ "+a+" | None => false end)", tBool)
		}
		if isStatefulTy(xt) || (xt.k == "opt" && isStatefulTy(xt.elem)) {
			s.fail(x, "call of a method with a pointer receiver inside an expression")
		}
		return &ast.CallExpr{Fun: &ast.SelectorExpr{X: rx, Sel: f.Sel}, Lparen: x.Lparen, Args: s.rewriteAll(x.Args), Rparen: x.Rparen}
	}
	s.fail(x, "unsupported call")
	return nil
}

// args translates call arguments against the parameter types of a generated function.
func (s *sf) args(info *sfuncInfo, x *ast.CallExpr) []string {
	if len(x.Args) != len(info.params) {
		s.fail(x, "wrong number of arguments for %s", info.key)
	}
	var out []string
	for i, a := range x.Args {
		if id, ok := a.(*ast.Ident); ok && id.Name == "nil" {
			out = append(out, nilOf(info.params[i]))
			continue
		}
		v, vt := s.sx(a)
		v = s.t.coerce(v, vt, info.params[i], x)
		if vt.k == "opt" && info.params[i].k == "struct" {
			vt = vt.elem
		} else if vt.k == "struct" && info.params[i].k == "opt" {
			vt = info.params[i]
		}
		if !sameTy(vt, info.params[i]) {
			s.fail(x, "argument %d of %s: %s where %s is expected", i+1, info.key, vt.coq(), info.params[i].coq())
		}
		out = append(out, v)
	}
	return out
}

func (s *sf) inheritExt(info *sfuncInfo) string {
	for _, n := range info.ext {
		s.ext[n] = info.extDecl[n]
	}
	return extArgs(info.ext)
}

// applyFunc: call of a generated function without receiver (a constructor).
func (s *sf) applyFunc(info *sfuncInfo, x *ast.CallExpr) ast.Expr {
	if len(info.results) != 1 {
		s.fail(x, "call of %s inside an expression", info.key)
	}
	parts := []string{info.cname}
	if ea := s.inheritExt(info); ea != "" {
		parts = append(parts, ea)
	}
	parts = append(parts, s.args(info, x)...)
	return s.leaf(x, "("+strings.Join(parts, " ")+")", info.results[0])
}

// statefulCall recognises v.m(args) where v is a local of a stateful struct type.
func (s *sf) statefulCall(e ast.Expr) (*ast.CallExpr, string, bool) {
	c, ok := e.(*ast.CallExpr)
	if !ok {
		return nil, "", false
	}
	sel, ok := c.Fun.(*ast.SelectorExpr)
	if !ok {
		return nil, "", false
	}
	id, ok := sel.X.(*ast.Ident)
	if !ok {
		return nil, "", false
	}
	if typ, ok := s.t.env[id.Name]; ok && isStatefulTy(typ) {
		return c, id.Name, true
	}
	return nil, "", false
}

func (s *sf) fresh(base string) string {
	s.nfresh++
	return fmt.Sprintf("%s_%d_", base, s.nfresh)
}

func pat(vars []string) string {
	if len(vars) == 1 {
		return vars[0]
	}
	return "'(" + strings.Join(vars, ", ") + ")"
}

func tup(vars []string) string {
	if len(vars) == 1 {
		return vars[0]
	}
	return "(" + strings.Join(vars, ", ") + ")"
}

// callMethod translates v.m(args) for a local v tied to a map entry: the method is applied to the fields of v,
// v is rebuilt from the fields the method assigns, and the entry is written back.
func (s *sf) callMethod(c *ast.CallExpr, v string) (prefix string, res []string, resTy []*ty) {
	typ := s.t.env[v]
	key := typ.name + "." + c.Fun.(*ast.SelectorExpr).Sel.Name
	info, ok := sfuncs[key]
	if !ok {
		s.fail(c, "call of untranslated method %s", key)
	}
	al, ok := s.alias[v]
	if !ok {
		s.fail(c, "method with a pointer receiver called on %s, which is not tied to a map entry (lookup-or-create idiom)", v)
	}
	args := s.args(info, c)
	parts := []string{info.cname}
	if ea := s.inheritExt(info); ea != "" {
		parts = append(parts, ea)
	}
	cv := cname(v)
	for _, f := range info.fields {
		parts = append(parts, "("+typ.name+"_"+f.name+" "+cv+")")
	}
	parts = append(parts, args...)
	newField := map[string]string{}
	var binders []string
	for _, m := range info.mut {
		n := s.fresh(v + "_" + m)
		newField[m] = n
		binders = append(binders, n)
	}
	for i := range info.results {
		n := s.fresh("res")
		res = append(res, n)
		resTy = append(resTy, info.results[i])
		binders = append(binders, n)
	}
	if len(binders) == 0 {
		s.fail(c, "method %s neither assigns a field nor returns a value", key)
	}
	prefix = "let " + pat(binders) + " := (" + strings.Join(parts, " ") + ") in\n  "
	if len(info.mut) > 0 {
		var fs []string
		for _, f := range info.fields {
			val := "(" + typ.name + "_" + f.name + " " + cv + ")"
			if n, ok := newField[f.name]; ok {
				val = n
			}
			fs = append(fs, fmt.Sprintf("%s_%s := %s", typ.name, f.name, val))
		}
		prefix += "let " + cv + " := {| " + strings.Join(fs, "; ") + " |} in\n  "
		mt := s.t.env[al.mvar]
		s.useMapOp("map_set", mt, c)
		prefix += "let " + al.mvar + " := (map_set " + al.mvar + " " + al.key + " " + cv + ") in\n  "
		if !s.isMut(al.mvar) {
			s.fail(c, "internal: write-back to a field that is not returned")
		}
	}
	return
}

func (s *sf) isMut(fieldVar string) bool {
	for _, m := range s.info.mut {
		if s.recv+"_"+m == fieldVar {
			return true
		}
	}
	return false
}

// ---------- statements ----------

type snap struct {
	env      map[string]*ty
	alias    map[string]aliasInfo
	knownNil map[string]bool
}

func (s *sf) snapshot() snap {
	a := map[string]aliasInfo{}
	for k, v := range s.alias {
		a[k] = v
	}
	kn := map[string]bool{}
	for k, v := range s.knownNil {
		kn[k] = v
	}
	return snap{s.t.copyEnv(), a, kn}
}

func (s *sf) restore(x snap) {
	s.t.env = s.t.copyEnvFrom(x.env)
	s.alias = map[string]aliasInfo{}
	for k, v := range x.alias {
		s.alias[k] = v
	}
	s.knownNil = map[string]bool{}
	for k, v := range x.knownNil {
		s.knownNil[k] = v
	}
}

// lhsName: the Coq variable an lvalue rebinds.
func (s *sf) lhsName(e ast.Expr) string {
	switch x := e.(type) {
	case *ast.Ident:
		return x.Name
	case *ast.SelectorExpr:
		if id, ok := x.X.(*ast.Ident); ok && s.recv != "" && id.Name == s.recv {
			return s.recv + "_" + x.Sel.Name
		}
		return s.lhsName(x.X)
	case *ast.IndexExpr:
		return s.lhsName(x.X)
	case *ast.ParenExpr:
		return s.lhsName(x.X)
	}
	s.fail(e, "unsupported lvalue")
	return ""
}

func (s *sf) callEffects(e ast.Expr, set map[string]bool) {
	if _, v, ok := s.statefulCall(e); ok {
		set[v] = true
		if al, ok := s.alias[v]; ok {
			set[al.mvar] = true
		}
	}
}

func (s *sf) assignedVars(list []ast.Stmt, set map[string]bool) {
	for _, st := range list {
		switch x := st.(type) {
		case *ast.AssignStmt:
			for _, l := range x.Lhs {
				if id, ok := l.(*ast.Ident); ok && id.Name == "_" {
					continue
				}
				set[s.lhsName(l)] = true
			}
			for _, r := range x.Rhs {
				s.callEffects(r, set)
			}
		case *ast.IncDecStmt:
			set[s.lhsName(x.X)] = true
		case *ast.ExprStmt:
			if c, ok := x.X.(*ast.CallExpr); ok {
				if id, ok := c.Fun.(*ast.Ident); ok && id.Name == "delete" && len(c.Args) == 2 {
					set[s.lhsName(c.Args[0])] = true
				}
			}
			s.callEffects(x.X, set)
		case *ast.IfStmt:
			s.assignedVars(x.Body.List, set)
			if x.Else != nil {
				s.assignedVars([]ast.Stmt{x.Else}, set)
			}
		case *ast.BlockStmt:
			s.assignedVars(x.List, set)
		case *ast.RangeStmt:
			s.assignedVars(x.Body.List, set)
		case *ast.SwitchStmt:
			for _, c := range x.Body.List {
				s.assignedVars(c.(*ast.CaseClause).Body, set)
			}
		}
	}
}

func (s *sf) mutVars() []string {
	var out []string
	for _, m := range s.info.mut {
		out = append(out, s.recv+"_"+m)
	}
	return out
}

func (s *sf) resultTuple() []string {
	out := s.mutVars()
	for _, n := range s.named {
		out = append(out, cname(n))
	}
	return out
}

func (s *sf) ret(st *ast.ReturnStmt) string {
	if len(st.Results) == 0 {
		if len(s.info.results) != len(s.named) {
			s.fail(st, "bare return without named results")
		}
		r := s.resultTuple()
		if len(r) == 0 {
			return "tt"
		}
		return tup(r)
	}
	if len(st.Results) == 1 {
		if c, v, ok := s.statefulCall(st.Results[0]); ok {
			prefix, res, _ := s.callMethod(c, v)
			if len(res) != len(s.info.results) {
				s.fail(st, "wrong number of results")
			}
			return prefix + tup(append(s.mutVars(), res...))
		}
	}
	if len(st.Results) != len(s.info.results) {
		s.fail(st, "wrong number of results")
	}
	var parts []string
	for i, r := range st.Results {
		if id, ok := r.(*ast.Ident); ok && id.Name == "nil" {
			parts = append(parts, nilOf(s.info.results[i]))
			continue
		}
		v, vt := s.sx(r)
		parts = append(parts, s.t.coerce(v, vt, s.info.results[i], st))
	}
	return tup(append(s.mutVars(), parts...))
}

func elseList(st *ast.IfStmt) []ast.Stmt {
	if st.Else == nil {
		return nil
	}
	if b, ok := st.Else.(*ast.BlockStmt); ok {
		return b.List
	}
	return []ast.Stmt{st.Else}
}

func (s *sf) stmts(list []ast.Stmt, k func() string) string {
	if len(list) == 0 {
		return k()
	}
	rest := func() string { return s.stmts(list[1:], k) }
	switch st := list[0].(type) {
	case *ast.ReturnStmt:
		return s.ret(st)
	case *ast.EmptyStmt:
		return rest()
	case *ast.BlockStmt:
		return s.stmts(append(append([]ast.Stmt{}, st.List...), list[1:]...), k)
	case *ast.DeclStmt:
		gd := st.Decl.(*ast.GenDecl)
		out := ""
		for _, sp := range gd.Specs {
			vs, ok := sp.(*ast.ValueSpec)
			if !ok {
				s.fail(st, "unsupported declaration")
			}
			for i, id := range vs.Names {
				var typ *ty
				if vs.Type != nil {
					typ = s.gotype(vs.Type)
				}
				var val string
				if i < len(vs.Values) {
					v, vt := s.sx(vs.Values[i])
					if typ == nil {
						typ = vt
						if typ.k == "untyped" {
							typ = tInt
						}
					}
					val = s.t.coerce(v, vt, typ, st)
				} else {
					if typ == nil {
						s.fail(st, "declaration without type")
					}
					val = nilOf(typ)
				}
				s.t.bind(id.Name, typ, id.Pos())
				s.written(cname(id.Name))
				if i >= len(vs.Values) && (typ.k == "list" || typ.k == "bytes") {
					s.knownNil[id.Name] = true
				}
				out += "let " + cname(id.Name) + " := " + val + " in\n  "
			}
		}
		return out + rest()
	case *ast.IncDecStmt:
		tok := token.ADD_ASSIGN
		if st.Tok == token.DEC {
			tok = token.SUB_ASSIGN
		}
		lhs := s.rewriteLhs(st.X)
		out := s.t.assign(lhs, tok, "1", tUntyped, st)
		s.written(cname(s.lhsName(st.X)))
		return out + rest()
	case *ast.ExprStmt:
		return s.exprStmt(st) + rest()
	case *ast.AssignStmt:
		if len(st.Lhs) == 2 && len(st.Rhs) == 1 {
			return s.lookupOrCreate(list, k)
		}
		if len(st.Lhs) != 1 || len(st.Rhs) != 1 {
			s.fail(st, "multiple assignment")
		}
		return s.assign1(st) + rest()
	case *ast.SwitchStmt:
		if st.Init != nil {
			s.fail(st, "switch with init")
		}
		return s.stmts(append([]ast.Stmt{s.t.switchToIf(st)}, list[1:]...), k)
	case *ast.IfStmt:
		return s.ifStmt(st, list, k)
	case *ast.RangeStmt:
		return s.rangeStmt(st, list, k)
	}
	s.fail(list[0], "unsupported statement %T", list[0])
	return ""
}

func (s *sf) ifStmt(st *ast.IfStmt, list []ast.Stmt, k func() string) string {
	if st.Init != nil {
		s.fail(st, "if with init")
	}
	s.sawCap = false
	c, _ := s.sx(st.Cond)
	capCond := s.sawCap
	s.sawCap = false
	el := elseList(st)
	whenTrue := s.nonNilWhen(st.Cond, true)
	whenFalse := s.nonNilWhen(st.Cond, false)
	if s.sawCap {
		s.fail(st, "internal: cap() in a nil test")
	}
	if hasReturn(st.Body.List) || hasReturn(el) {
		if capCond {
			s.fail(st, "a condition on cap() decides a return: capacity is not modelled")
		}
		// a branch returns: the continuation is duplicated into the branch that falls through
		saved := s.snapshot()
		s.push(whenTrue)
		th := s.stmts(st.Body.List, func() string { return s.stmts(list[1:], k) })
		s.pop()
		s.restore(saved)
		s.push(whenFalse)
		e2 := s.stmts(el, func() string { return s.stmts(list[1:], k) })
		s.pop()
		s.restore(saved)
		return "(if " + c + " then " + th + " else " + e2 + ")"
	}
	set := map[string]bool{}
	s.assignedVars(st.Body.List, set)
	s.assignedVars(el, set)
	var vars []string
	for v := range set {
		if _, ok := s.t.env[v]; ok {
			vars = append(vars, v)
		}
	}
	s.t.sortDecl(vars)
	if len(vars) == 0 {
		return s.stmts(list[1:], k)
	}
	saved := s.snapshot()
	s.depth++
	s.push(whenTrue)
	th := s.stmts(st.Body.List, func() string { return tuple(vars) })
	s.pop()
	s.restore(saved)
	s.push(whenFalse)
	e2 := s.stmts(el, func() string { return tuple(vars) })
	s.pop()
	s.depth--
	s.restore(saved)
	for _, v := range vars {
		s.written(cname(v))
	}
	if capCond {
		if th != e2 {
			s.fail(st, "the branches of a condition on cap() differ: capacity is not modelled")
		}
		return "let " + tuplePat(vars) + " := (" + th + ") in\n  " + s.stmts(list[1:], k)
	}
	return "let " + tuplePat(vars) + " := (if " + c + " then " + th + " else " + e2 + ") in\n  " + s.stmts(list[1:], k)
}

// rewriteLhs turns b.f (receiver field) into the field variable; other lvalues are left to tr.assign.
func (s *sf) rewriteLhs(e ast.Expr) ast.Expr {
	if sel, ok := e.(*ast.SelectorExpr); ok {
		if id, ok := sel.X.(*ast.Ident); ok && s.recv != "" && id.Name == s.recv {
			name := s.recv + "_" + sel.Sel.Name
			if _, ok := s.t.env[name]; !ok {
				s.fail(e, "unknown receiver field %s", sel.Sel.Name)
			}
			return &ast.Ident{NamePos: e.Pos(), Name: name}
		}
		if id, ok := sel.X.(*ast.Ident); ok {
			if typ, ok := s.t.env[id.Name]; ok && (isStatefulTy(typ) || (typ.k == "opt" && isStatefulTy(typ.elem))) {
				s.fail(e, "assignment to a field through a pointer other than the receiver")
			}
		}
	}
	if id, ok := e.(*ast.Ident); ok && id.Name == "_" {
		s.fail(e, "assignment to _")
	}
	return e
}

func (s *sf) assign1(st *ast.AssignStmt) string {
	lhs, rhs := st.Lhs[0], st.Rhs[0]
	// m[k] = v
	if ix, ok := lhs.(*ast.IndexExpr); ok {
		ms, mt := s.sx(ix.X)
		if !isMapTy(mt) || st.Tok != token.ASSIGN {
			s.fail(st, "assignment to an element of something that is not a map")
		}
		if _, ok := s.t.env[ms]; !ok || s.leaves[ms] || !s.isMut(ms) {
			s.fail(st, "store into a map that is not a receiver field")
		}
		ks, _ := s.sx(ix.Index)
		vs, vt := s.sx(rhs)
		if !isStatefulTy(vt) || vt.name != mapTypes[mt.name].val {
			s.fail(st, "store of a value of another type into the map")
		}
		s.useMapOp("map_set", mt, st)
		s.written(ms)
		if id, ok := rhs.(*ast.Ident); ok {
			s.alias[id.Name] = aliasInfo{mvar: ms, key: ks, deps: s.deps(ix.Index)}
		}
		return "let " + ms + " := (map_set " + ms + " " + ks + " " + vs + ") in\n  "
	}
	target := s.rewriteLhs(lhs)
	name := s.lhsName(lhs)
	var out string
	switch {
	case isNilIdent(rhs):
		typ, ok := s.t.env[name]
		if _, isSel := target.(*ast.SelectorExpr); isSel || !ok || st.Tok != token.ASSIGN {
			s.fail(st, "nil assigned to something whose type is not known")
		}
		if typ.k != "list" && typ.k != "bytes" && typ.k != "opt" {
			s.fail(st, "nil assigned to a value that is neither a slice nor a pointer")
		}
		out = s.t.assign(target, st.Tok, nilOf(typ), typ, st)
	default:
		if c, v, ok := s.statefulCall(rhs); ok {
			prefix, res, resTy := s.callMethod(c, v)
			if len(res) != 1 {
				s.fail(st, "wrong number of results")
			}
			out = prefix + s.t.assign(target, st.Tok, res[0], resTy[0], st)
		} else {
			rs, rt := s.sx(rhs)
			if isMapTy(rt) {
				s.fail(st, "copy of a map reference")
			}
			out = s.t.assign(target, st.Tok, rs, rt, st)
		}
	}
	s.written(cname(name))
	return out
}

func isNilIdent(e ast.Expr) bool {
	id, ok := e.(*ast.Ident)
	return ok && id.Name == "nil"
}

// deps: the variables an expression mentions.
func (s *sf) deps(e ast.Expr) map[string]bool {
	out := map[string]bool{}
	ast.Inspect(e, func(n ast.Node) bool {
		switch x := n.(type) {
		case *ast.SelectorExpr:
			if id, ok := x.X.(*ast.Ident); ok && s.recv != "" && id.Name == s.recv {
				out[s.recv+"_"+x.Sel.Name] = true
				return false
			}
		case *ast.Ident:
			if _, ok := s.t.env[x.Name]; ok {
				out[cname(x.Name)] = true
			}
		}
		return true
	})
	return out
}

func (s *sf) exprStmt(st *ast.ExprStmt) string {
	c, ok := st.X.(*ast.CallExpr)
	if !ok {
		s.fail(st, "unsupported expression statement")
	}
	if id, ok := c.Fun.(*ast.Ident); ok && id.Name == "delete" && len(c.Args) == 2 {
		ms, mt := s.sx(c.Args[0])
		if !isMapTy(mt) {
			s.fail(st, "delete on something that is not a map")
		}
		if _, ok := s.t.env[ms]; !ok || s.leaves[ms] || !s.isMut(ms) {
			s.fail(st, "delete on a map that is not a receiver field")
		}
		ks, _ := s.sx(c.Args[1])
		s.useMapOp("map_delete", mt, st)
		s.written(ms)
		return "let " + ms + " := (map_delete " + ms + " " + ks + ") in\n  "
	}
	if cc, v, ok := s.statefulCall(c); ok {
		prefix, _, _ := s.callMethod(cc, v)
		return prefix
	}
	s.fail(st, "unsupported call statement (only delete(m, k) and methods of map entries)")
	return ""
}

func mentionsIdent(list []ast.Stmt, name string) bool {
	found := false
	for _, st := range list {
		ast.Inspect(st, func(n ast.Node) bool {
			if id, ok := n.(*ast.Ident); ok && id.Name == name {
				found = true
			}
			return true
		})
	}
	return found
}

// lookupOrCreate: `v, ok := m[k]` followed by `if !ok { v = NEW; m[k] = v }`.
func (s *sf) lookupOrCreate(list []ast.Stmt, k func() string) string {
	st := list[0].(*ast.AssignStmt)
	bad := func(why string) { s.fail(st, "map lookup outside the lookup-or-create idiom (%s)", why) }
	ix, ok := st.Rhs[0].(*ast.IndexExpr)
	if !ok || st.Tok != token.DEFINE {
		bad("not `v, ok := m[k]`")
	}
	vid, ok1 := st.Lhs[0].(*ast.Ident)
	okid, ok2 := st.Lhs[1].(*ast.Ident)
	if !ok1 || !ok2 || vid.Name == "_" || okid.Name == "_" {
		bad("targets are not two variables")
	}
	ms, mt := s.sx(ix.X)
	if !isMapTy(mt) {
		bad("not a map")
	}
	if _, inEnv := s.t.env[ms]; !inEnv || s.leaves[ms] || !s.isMut(ms) {
		bad("the map is not a receiver field that the function stores into")
	}
	ks, _ := s.sx(ix.Index)
	if len(list) < 2 {
		bad("nothing follows")
	}
	is, ok := list[1].(*ast.IfStmt)
	if !ok || is.Init != nil || is.Else != nil || len(is.Body.List) != 2 {
		bad("not followed by `if !ok { v = NEW; m[k] = v }`")
	}
	neg, ok := is.Cond.(*ast.UnaryExpr)
	if !ok || neg.Op != token.NOT {
		bad("condition is not !ok")
	}
	if id, ok := neg.X.(*ast.Ident); !ok || id.Name != okid.Name {
		bad("condition is not !ok")
	}
	a1, ok1 := is.Body.List[0].(*ast.AssignStmt)
	a2, ok2 := is.Body.List[1].(*ast.AssignStmt)
	if !ok1 || !ok2 || len(a1.Lhs) != 1 || len(a1.Rhs) != 1 || len(a2.Lhs) != 1 || len(a2.Rhs) != 1 || a1.Tok != token.ASSIGN || a2.Tok != token.ASSIGN {
		bad("body is not `v = NEW; m[k] = v`")
	}
	if id, ok := a1.Lhs[0].(*ast.Ident); !ok || id.Name != vid.Name {
		bad("body does not assign the looked-up variable")
	}
	ix2, ok := a2.Lhs[0].(*ast.IndexExpr)
	if !ok {
		bad("body does not store into the map")
	}
	if id, ok := a2.Rhs[0].(*ast.Ident); !ok || id.Name != vid.Name {
		bad("body stores something else")
	}
	if mentionsIdent([]ast.Stmt{a1}, okid.Name) || mentionsIdent(list[2:], okid.Name) {
		bad("the ok variable is used elsewhere")
	}
	if mentionsIdent([]ast.Stmt{&ast.ExprStmt{X: a1.Rhs[0]}}, vid.Name) {
		bad("NEW mentions the looked-up variable")
	}
	newS, newT := s.sx(a1.Rhs[0])
	val := mapTypes[mt.name].val
	if !isStatefulTy(newT) || newT.name != val {
		bad("NEW is not a " + val)
	}
	ms2, _ := s.sx(ix2.X)
	ks2, _ := s.sx(ix2.Index)
	if ms2 != ms || ks2 != ks {
		bad("the store uses another map or key than the lookup")
	}
	s.useMapOp("map_get", mt, st)
	s.useMapOp("map_set", mt, st)
	cv := cname(vid.Name)
	out := "let '(" + cv + ", " + ms + ") := match map_get " + ms + " " + ks + " with Some found_ => (found_, " + ms + ") | None => let " + cv + " := " + newS + " in (" + cv + ", map_set " + ms + " " + ks + " " + cv + ") end in\n  "
	s.t.bind(vid.Name, newT, vid.Pos())
	s.written(cv)
	s.written(ms)
	s.alias[vid.Name] = aliasInfo{mvar: ms, key: ks, deps: s.deps(ix.Index)}
	return out + s.stmts(list[2:], k)
}

func (s *sf) envVars() []string {
	var out []string
	for v := range s.t.env {
		if !s.leaves[v] {
			out = append(out, v)
		}
	}
	s.t.sortDecl(out)
	return out
}

func (s *sf) rangeStmt(st *ast.RangeStmt, list []ast.Stmt, k func() string) string {
	s.sawCap = false
	xs, xt := s.sx(st.X)
	if s.sawCap {
		s.fail(st, "cap() in a range expression")
	}
	if isMapTy(xt) {
		return s.sortedKeys(st, xs, xt, list, k)
	}
	var et *ty
	switch xt.k {
	case "bytes":
		et = &ty{k: "int", w: 8}
	case "list":
		et = xt.elem
	default:
		s.fail(st, "range over something that is neither a slice nor a map")
	}
	if st.Key != nil {
		if id, ok := st.Key.(*ast.Ident); !ok || id.Name != "_" {
			s.fail(st, "range with an index variable")
		}
	}
	if s.depth != 0 {
		s.fail(st, "loop inside a branch or another loop")
	}
	if st.Tok != token.DEFINE && st.Value != nil {
		s.fail(st, "range assigning to an existing variable")
	}
	ast.Inspect(st.Body, func(n ast.Node) bool {
		if b, ok := n.(*ast.BranchStmt); ok {
			s.fail(b, "break/continue/goto inside a loop")
		}
		return true
	})
	elem := "_"
	if st.Value != nil {
		elem = st.Value.(*ast.Ident).Name
	}
	if _, clash := s.t.env[elem]; clash {
		s.fail(st, "loop variable shadows another variable")
	}
	s.nloop++
	name := fmt.Sprintf("%s_loop%d", s.info.cname, s.nloop)
	vars := s.envVars()
	var binders, args []string
	for _, v := range vars {
		binders = append(binders, fmt.Sprintf("(%s : %s)", cname(v), s.t.env[v].coq()))
		args = append(args, cname(v))
	}
	call := func(l string) string {
		return "(" + name + " @@EXTA@@ " + l + " " + strings.Join(args, " ") + ")"
	}
	saved := s.snapshot()
	// inside the body nothing is known about what earlier iterations did
	s.alias = map[string]aliasInfo{}
	s.knownNil = map[string]bool{}
	savedFacts := s.facts
	s.facts = nil
	if elem != "_" {
		s.t.bind(elem, et, st.Value.Pos())
	}
	s.depth++
	body := s.stmts(st.Body.List, func() string { return call("rest_") })
	s.depth--
	s.restore(saved)
	s.alias = map[string]aliasInfo{}
	s.knownNil = map[string]bool{}
	after := s.stmts(list[1:], k)
	s.facts = savedFacts
	ce := cname(elem)
	def := fmt.Sprintf("Fixpoint %s @@EXTP@@ (l_ : list %s) %s {struct l_} : %s :=\n  match l_ with\n  | [] =>\n  %s\n  | %s :: rest_ =>\n  %s\n  end.\n\n",
		name, et.coq(), strings.Join(binders, " "), s.retCoq, after, ce, body)
	*s.loopDefs = append(*s.loopDefs, def)
	return call(xs)
}

// sortedKeys: `var ks []int` (just before), `for k := range m { ks = append(ks, int(k)) }`, `sort.Ints(ks)`.
func (s *sf) sortedKeys(st *ast.RangeStmt, ms string, mt *ty, list []ast.Stmt, k func() string) string {
	bad := func(why string) { s.fail(st, "range over a map outside the sorted-keys idiom (%s)", why) }
	kid, ok := st.Key.(*ast.Ident)
	if !ok || st.Value != nil || st.Tok != token.DEFINE || kid.Name == "_" {
		bad("not `for k := range m`")
	}
	if len(st.Body.List) != 1 {
		bad("body is not a single append")
	}
	as, ok := st.Body.List[0].(*ast.AssignStmt)
	if !ok || len(as.Lhs) != 1 || len(as.Rhs) != 1 || as.Tok != token.ASSIGN {
		bad("body is not `ks = append(ks, int(k))`")
	}
	ks, ok := as.Lhs[0].(*ast.Ident)
	if !ok {
		bad("body does not assign a variable")
	}
	ap, ok := as.Rhs[0].(*ast.CallExpr)
	if !ok || len(ap.Args) != 2 || ap.Ellipsis.IsValid() {
		bad("body is not an append of one element")
	}
	if id, ok := ap.Fun.(*ast.Ident); !ok || id.Name != "append" {
		bad("body is not an append")
	}
	if id, ok := ap.Args[0].(*ast.Ident); !ok || id.Name != ks.Name {
		bad("append to another variable")
	}
	// the element: k, or a conversion of k to a signed integer type (wide enough for every key)
	el := ap.Args[1]
	if cv, ok := el.(*ast.CallExpr); ok && len(cv.Args) == 1 {
		id, ok := cv.Fun.(*ast.Ident)
		if !ok {
			bad("element is not a conversion of the key")
		}
		w, signed, isInt := s.p.intType(id.Name)
		if !isInt || !(signed && (id.Name == "int" || id.Name == "int64") || (!signed && w >= mapTypes[mt.name].key.w)) {
			bad("element is converted to a type that does not hold every key")
		}
		el = cv.Args[0]
	}
	if id, ok := el.(*ast.Ident); !ok || id.Name != kid.Name {
		bad("element is not the key")
	}
	kt, ok := s.t.env[ks.Name]
	if !ok || kt.k != "list" || kt.elem.k != "int" {
		bad("keys are not collected into a slice of integers")
	}
	if !s.knownNil[ks.Name] {
		bad("the slice of keys is not known to be empty before the loop")
	}
	if len(list) < 2 {
		bad("not followed by sort.Ints")
	}
	es, ok := list[1].(*ast.ExprStmt)
	if !ok {
		bad("not followed by sort.Ints")
	}
	sc, ok := es.X.(*ast.CallExpr)
	if !ok || len(sc.Args) != 1 {
		bad("not followed by sort.Ints")
	}
	sel, ok := sc.Fun.(*ast.SelectorExpr)
	if !ok || sel.Sel.Name != "Ints" {
		bad("not followed by sort.Ints")
	}
	if id, ok := sel.X.(*ast.Ident); !ok || id.Name != "sort" {
		bad("not followed by sort.Ints")
	}
	if id, ok := sc.Args[0].(*ast.Ident); !ok || id.Name != ks.Name {
		bad("sort.Ints sorts another variable")
	}
	s.useMapOp("map_keys_sorted", mt, st)
	s.written(cname(ks.Name))
	return "let " + cname(ks.Name) + " := (map_keys_sorted " + ms + ") in\n  " + s.stmts(list[2:], k)
}

// ---------- functions ----------

func scanMutated(body *ast.BlockStmt, recv string, st *ast.StructType) []string {
	set := map[string]bool{}
	field := func(e ast.Expr) {
		for {
			switch x := e.(type) {
			case *ast.IndexExpr:
				e = x.X
				continue
			case *ast.ParenExpr:
				e = x.X
				continue
			case *ast.SelectorExpr:
				if id, ok := x.X.(*ast.Ident); ok && id.Name == recv {
					set[x.Sel.Name] = true
				}
			}
			return
		}
	}
	ast.Inspect(body, func(n ast.Node) bool {
		switch x := n.(type) {
		case *ast.AssignStmt:
			for _, l := range x.Lhs {
				field(l)
			}
		case *ast.IncDecStmt:
			field(x.X)
		case *ast.CallExpr:
			if id, ok := x.Fun.(*ast.Ident); ok && id.Name == "delete" && len(x.Args) == 2 {
				field(x.Args[0])
			}
		}
		return true
	})
	var out []string
	for _, f := range st.Fields.List {
		for _, id := range f.Names {
			if set[id.Name] {
				out = append(out, id.Name)
			}
		}
	}
	return out
}

func (p *pkg) statefulFunction(key string) string {
	d, ok := p.funcs[key]
	if !ok {
		panic(genError{fmt.Sprintf("function %s not found in /repo", key)})
	}
	var loops []string
	t := &tr{p: p, fn: key, env: map[string]*ty{}, optPar: map[string]bool{}, loops: &loops}
	info := &sfuncInfo{key: key, cname: strings.ReplaceAll(key, ".", "_"), extDecl: map[string]string{}}
	s := &sf{t: t, p: p, info: info, ext: map[string]string{}, alias: map[string]aliasInfo{}, knownNil: map[string]bool{},
		leaves: map[string]bool{}, loopDefs: &loops}
	if d.Body == nil {
		s.fail(d, "function without body")
	}
	var params []string
	if d.Recv != nil {
		f := d.Recv.List[0]
		if len(f.Names) != 1 {
			s.fail(d, "receiver without a name")
		}
		s.recv = f.Names[0].Name
		info.recv = recvName(f.Type)
		st, ok := p.structs[info.recv]
		if !ok {
			s.fail(d, "receiver %s is not a struct", info.recv)
		}
		for _, fl := range st.Fields.List {
			if len(fl.Names) == 0 {
				s.fail(d, "embedded field in %s", info.recv)
			}
			for _, id := range fl.Names {
				typ := s.gotype(fl.Type)
				name := s.recv + "_" + id.Name
				t.bind(name, typ, token.NoPos) // the receiver's fields: declaration order of the struct
				info.fields = append(info.fields, sfield{id.Name, typ})
				params = append(params, fmt.Sprintf("(%s : %s)", name, typ.coq()))
			}
		}
		info.mut = scanMutated(d.Body, s.recv, st)
	}
	for _, f := range d.Type.Params.List {
		for _, id := range f.Names {
			typ := s.gotype(f.Type)
			if typ.k == "opt" && typ.elem.k == "struct" && !usesNil(d.Body, id.Name) {
				typ = typ.elem // as in Gen/Preds.v: a pointer never compared with nil is the record itself
			}
			if _, clash := t.env[id.Name]; clash {
				s.fail(d, "parameter %s clashes with a receiver field variable", id.Name)
			}
			t.bind(id.Name, typ, id.Pos())
			info.params = append(info.params, typ)
			params = append(params, fmt.Sprintf("(%s : %s)", cname(id.Name), typ.coq()))
		}
	}
	pre := ""
	var rts []string
	for _, m := range info.mut {
		rts = append(rts, t.env[s.recv+"_"+m].coq())
	}
	if d.Type.Results != nil {
		for _, f := range d.Type.Results.List {
			typ := s.gotype(f.Type)
			if typ.k == "opt" && typ.elem.k == "struct" {
				typ = typ.elem
			}
			n := len(f.Names)
			if n == 0 {
				n = 1
			}
			for i := 0; i < n; i++ {
				info.results = append(info.results, typ)
				rts = append(rts, typ.coq())
			}
			for _, id := range f.Names {
				s.named = append(s.named, id.Name)
				t.bind(id.Name, typ, id.Pos())
				pre += "let " + cname(id.Name) + " := " + nilOf(typ) + " in\n  "
			}
		}
	}
	if len(rts) == 0 {
		rts = []string{"unit"}
	}
	s.retCoq = strings.Join(rts, " * ")
	s.sliceDiscipline(d)
	body := s.stmts(d.Body.List, func() string {
		if len(info.results) != len(s.named) {
			s.fail(d, "function falls off its end without named results")
		}
		r := s.resultTuple()
		if len(r) == 0 {
			return "tt"
		}
		return tup(r)
	})
	info.ext = extOrder(s.ext)
	for n, dcl := range s.ext {
		info.extDecl[n] = dcl
	}
	binders := extBinders(s.ext)
	eargs := extArgs(info.ext)
	var all []string
	if binders != "" {
		all = append(all, binders)
	}
	all = append(all, params...)
	out := strings.Join(loops, "") + fmt.Sprintf("Definition %s %s : %s :=\n  %s.\n\n", info.cname, strings.Join(all, " "), s.retCoq, pre+body)
	out = strings.ReplaceAll(out, " @@EXTP@@", map[bool]string{true: " " + binders, false: ""}[binders != ""])
	out = strings.ReplaceAll(out, " @@EXTA@@", map[bool]string{true: " " + eargs, false: ""}[eargs != ""])
	sfuncs[key] = info
	return out
}

func (p *pkg) statefulRecord(name string) string {
	st, ok := p.structs[name]
	if !ok {
		panic(genError{fmt.Sprintf("struct %s not found in /repo", name)})
	}
	t := &tr{p: p, fn: "type " + name, env: map[string]*ty{}, optPar: map[string]bool{}}
	s := &sf{t: t, p: p}
	var fields, zeros []string
	for _, f := range st.Fields.List {
		if len(f.Names) == 0 {
			s.fail(st, "embedded field")
		}
		typ := s.gotype(f.Type)
		if isMapTy(typ) {
			s.fail(st, "map field in a record")
		}
		for _, id := range f.Names {
			fields = append(fields, fmt.Sprintf("%s_%s : %s", name, id.Name, typ.coq()))
			zeros = append(zeros, fmt.Sprintf("%s_%s := %s", name, id.Name, nilOf(typ)))
		}
	}
	statefulStruct[name] = true
	return fmt.Sprintf("Record %s := mk_%s {\n  %s\n}.\nDefinition zero_%s : %s := {|\n  %s\n|}.\n\n",
		name, name, strings.Join(fields, ";\n  "), name, name, strings.Join(zeros, ";\n  "))
}

const statefulHeader = `(* Generated from the CURRENT source of /repo/packet_pool.go by go/gen (stateful.go) on every run. Do not edit.
   A method with a pointer receiver is a function of the receiver's fields (b_<field>) and its arguments; it
   returns the final values of the fields it assigns, then its results. Slices are lists (x[:0], make(_, 0, c)
   and nil are the empty list, append(x, e) = x ++ [e]; capacity is not modelled and never decides anything; a
   slice compared with nil is refused; the translator enumerates every path of each function and refuses it when a
   write through one slice could be seen through another, or a returned slice shares its array with a field). *programMap is an option of its membership test, exactly the function
   isPSIPayload takes in Gen/Preds.v. The map of accumulators is an abstract type with its operations as
   parameters: map_get (None = no entry), map_set, map_delete, map_keys_sorted (the keys in increasing order:
   what the range / append / sort.Ints idiom computes). A local obtained by the lookup-or-create idiom is tied
   to its entry: a method that changes it is followed by the write-back map_set. isPSIComplete stays a parameter
   (its hand-written model is Model/Pool.v is_psi_complete). Proofs/PoolGenEq.v proves the hand-written
   acc_add / pool_add / pool_dump equal to these definitions. *)
From Coq Require Import ZArith List Bool.
Require Import Gen.Consts Gen.Types Gen.Preds.
Import ListNotations.
Open Scope Z_scope.

`

func (p *pkg) emitStateful() string {
	var b strings.Builder
	b.WriteString(statefulHeader)
	isolate := func(what string, f func() string) {
		defer func() {
			if r := recover(); r != nil {
				ge, ok := r.(genError)
				if !ok {
					panic(r)
				}
				fmt.Fprintf(os.Stderr, "gen: not translated: %s\n", ge.msg)
				fmt.Fprintf(&b, "(* NOT TRANSLATED (%s left the translator's grammar): %s *)\n\n", what, strings.ReplaceAll(ge.msg, "*)", "* )"))
			}
		}()
		b.WriteString(f())
	}
	// the hand-modelled functions: known to the expression translator, passed as arguments
	for _, n := range statefulExternal {
		n := n
		isolate(n, func() string {
			d, ok := p.funcs[n]
			if !ok {
				panic(genError{fmt.Sprintf("function %s not found in /repo", n)})
			}
			t := &tr{p: p, fn: n, env: map[string]*ty{}, optPar: map[string]bool{}}
			var sig []*ty
			for _, f := range d.Type.Params.List {
				for range f.Names {
					sig = append(sig, t.goType(f.Type))
				}
			}
			if d.Type.Results == nil || len(d.Type.Results.List) != 1 || len(d.Type.Results.List[0].Names) > 1 {
				t.fail(d, "external function must have one result")
			}
			funcSig[n] = sig
			funcRes[n] = t.goType(d.Type.Results.List[0].Type)
			translated[n] = true
			return ""
		})
	}
	for _, n := range statefulRecords {
		n := n
		isolate("type "+n, func() string { return p.statefulRecord(n) })
	}
	for _, key := range statefulEntries {
		key := key
		isolate(key, func() string { return p.statefulFunction(key) })
	}
	return b.String()
}

// ---------- slice discipline ----------
//
// Reading slices as lists is sound only while no write through one slice header is visible through another.
// sliceDiscipline enumerates every path through a function body (conditions are treated as free) and follows,
// per path, which backing array each slice variable / receiver field refers to:
//   * `w = append(v, ...)` writes behind len(v): if v was cut shorter (v[:0]) the other names of that array lose
//     their contents (stale: any later use, including being returned or being a field's final value, is refused);
//     otherwise they are frozen (they may be read, but not appended to or cut);
//   * at every return a returned slice must not share its array with a slice field of the receiver (the next call
//     could overwrite what was handed out).
// Anything it cannot follow is refused. The check is per call; arrays reached through map entries are not followed.

type aslice struct {
	arr                  int
	short, stale, frozen bool
}

type astate struct {
	v    map[string]aslice
	next *int
}

func (a *astate) clone() *astate {
	c := &astate{v: map[string]aslice{}, next: a.next}
	for k, x := range a.v {
		c.v[k] = x
	}
	return c
}

type discipline struct {
	s      *sf
	d      *ast.FuncDecl
	recv   string
	fields map[string]bool // slice fields of the receiver, as "recv.f"
	named  []string        // named slice results
	paths  int
}

func isSliceType(e ast.Expr) bool {
	at, ok := e.(*ast.ArrayType)
	return ok && at.Len == nil
}

func (dc *discipline) fail(n ast.Node, format string, a ...interface{}) {
	dc.s.fail(n, "slice discipline: "+format, a...)
}

// name returns the tracked name an expression denotes ("" if none).
func (dc *discipline) name(e ast.Expr, st *astate) string {
	switch x := e.(type) {
	case *ast.ParenExpr:
		return dc.name(x.X, st)
	case *ast.Ident:
		if _, ok := st.v[x.Name]; ok {
			return x.Name
		}
	case *ast.SelectorExpr:
		if id, ok := x.X.(*ast.Ident); ok && dc.recv != "" && id.Name == dc.recv && dc.fields[dc.recv+"."+x.Sel.Name] {
			return dc.recv + "." + x.Sel.Name
		}
	}
	return ""
}

// reads checks every tracked name mentioned in e.
func (dc *discipline) reads(e ast.Node, st *astate) {
	if e == nil {
		return
	}
	ast.Inspect(e, func(n ast.Node) bool {
		switch x := n.(type) {
		case *ast.SelectorExpr:
			if nm := dc.name(x, st); nm != "" {
				if st.v[nm].stale {
					dc.fail(x, "%s is used after its backing array was overwritten through another slice", nm)
				}
				return false
			}
		case *ast.Ident:
			if nm := dc.name(x, st); nm != "" && st.v[nm].stale {
				dc.fail(x, "%s is used after its backing array was overwritten through another slice", nm)
			}
		}
		return true
	})
}

func (dc *discipline) fresh(st *astate) aslice {
	*st.next++
	return aslice{arr: *st.next}
}

// value evaluates the slice-valued right-hand side e assigned to target (a tracked name or "").
func (dc *discipline) value(e ast.Expr, target string, st *astate) (aslice, bool) {
	switch x := e.(type) {
	case *ast.ParenExpr:
		return dc.value(x.X, target, st)
	case *ast.Ident:
		if x.Name == "nil" {
			return aslice{}, true
		}
		if nm := dc.name(x, st); nm != "" {
			dc.reads(x, st)
			return st.v[nm], true
		}
		return aslice{}, false
	case *ast.SelectorExpr:
		if nm := dc.name(x, st); nm != "" {
			dc.reads(x, st)
			return st.v[nm], true
		}
		dc.reads(x, st)
		return dc.fresh(st), false
	case *ast.SliceExpr:
		base := dc.name(x.X, st)
		dc.reads(x, st)
		if base == "" {
			return dc.fresh(st), true
		}
		b := st.v[base]
		if b.frozen {
			dc.fail(x, "%s is cut after another slice of the same array was appended to", base)
		}
		b.short = true
		return b, true
	case *ast.CallExpr:
		if id, ok := x.Fun.(*ast.Ident); ok {
			switch id.Name {
			case "make":
				for _, a := range x.Args[1:] {
					dc.reads(a, st)
				}
				return dc.fresh(st), true
			case "append":
				for _, a := range x.Args {
					dc.reads(a, st)
				}
				base := dc.name(x.Args[0], st)
				if base == "" {
					return dc.fresh(st), true
				}
				b := st.v[base]
				if b.frozen {
					dc.fail(x, "append to %s after another slice of the same array was appended to", base)
				}
				if b.arr != 0 {
					for n, o := range st.v {
						if o.arr != b.arr || n == target {
							continue
						}
						if n == base && base != target {
							o.frozen = true
						} else if n != base {
							if b.short {
								o.stale = true
							} else {
								o.frozen = true
							}
						}
						st.v[n] = o
					}
				}
				if b.arr == 0 {
					return dc.fresh(st), true
				}
				return aslice{arr: b.arr, short: b.short}, true
			}
		}
		dc.reads(x, st)
		return dc.fresh(st), false
	}
	dc.reads(e, st)
	return dc.fresh(st), false
}

func (dc *discipline) assign(lhs, rhs ast.Expr, define bool, st *astate) {
	target := dc.name(lhs, st)
	if id, ok := lhs.(*ast.Ident); ok && target == "" && rhs != nil {
		// a new local becomes tracked when it receives a slice
		probe := st.clone()
		if _, isSlice := dc.value(rhs, id.Name, probe); isSlice {
			target = id.Name
		}
	}
	if target == "" {
		dc.reads(rhs, st)
		if _, isIdent := lhs.(*ast.Ident); !isIdent {
			if ix, ok := lhs.(*ast.IndexExpr); ok {
				if nm := dc.name(ix.X, st); nm != "" {
					dc.fail(lhs, "element of %s assigned in place", nm)
				}
				dc.reads(ix.Index, st)
			}
		}
		return
	}
	v, _ := dc.value(rhs, target, st)
	st.v[target] = v
}

func (dc *discipline) ret(st *ast.ReturnStmt, a *astate) {
	var returned []string
	if len(st.Results) == 0 {
		returned = dc.named
	}
	for _, r := range st.Results {
		dc.reads(r, a)
		if nm := dc.name(r, a); nm != "" {
			returned = append(returned, nm)
		}
	}
	dc.finish(st, returned, a)
}

func (dc *discipline) finish(n ast.Node, returned []string, a *astate) {
	dc.paths++
	if dc.paths > 4096 {
		dc.fail(n, "too many paths")
	}
	for f := range dc.fields {
		if a.v[f].stale {
			dc.fail(n, "%s keeps a backing array that was overwritten through another slice", f)
		}
	}
	for _, r := range returned {
		x := a.v[r]
		if x.stale {
			dc.fail(n, "%s is returned after its backing array was overwritten through another slice", r)
		}
		for f := range dc.fields {
			if r != f && x.arr != 0 && a.v[f].arr == x.arr {
				dc.fail(n, "the returned slice %s shares its backing array with %s: a later call could overwrite it", r, f)
			}
		}
	}
}

func (dc *discipline) exec(list []ast.Stmt, a *astate, k func(*astate)) {
	if len(list) == 0 {
		k(a)
		return
	}
	rest := func(b *astate) { dc.exec(list[1:], b, k) }
	switch st := list[0].(type) {
	case *ast.ReturnStmt:
		dc.ret(st, a)
	case *ast.BlockStmt:
		dc.exec(st.List, a, rest)
	case *ast.EmptyStmt:
		rest(a)
	case *ast.DeclStmt:
		for _, sp := range st.Decl.(*ast.GenDecl).Specs {
			vs, ok := sp.(*ast.ValueSpec)
			if !ok {
				continue
			}
			for i, id := range vs.Names {
				if i < len(vs.Values) {
					dc.assign(id, vs.Values[i], true, a)
				} else if vs.Type != nil && isSliceType(vs.Type) {
					a.v[id.Name] = aslice{}
				}
			}
		}
		rest(a)
	case *ast.AssignStmt:
		if len(st.Lhs) == len(st.Rhs) {
			for i := range st.Lhs {
				dc.assign(st.Lhs[i], st.Rhs[i], st.Tok == token.DEFINE, a)
			}
		} else {
			for _, r := range st.Rhs {
				dc.reads(r, a)
			}
			for _, l := range st.Lhs {
				if nm := dc.name(l, a); nm != "" {
					a.v[nm] = dc.fresh(a)
				}
			}
		}
		rest(a)
	case *ast.IncDecStmt:
		dc.reads(st.X, a)
		rest(a)
	case *ast.ExprStmt:
		dc.reads(st.X, a)
		rest(a)
	case *ast.IfStmt:
		if st.Init != nil {
			dc.exec([]ast.Stmt{st.Init}, a, func(*astate) {})
		}
		dc.reads(st.Cond, a)
		b := a.clone()
		dc.exec(st.Body.List, a, rest)
		dc.exec(elseList(st), b, rest)
	case *ast.SwitchStmt:
		dc.exec(append([]ast.Stmt{dc.s.t.switchToIf(st)}, list[1:]...), a, k)
	case *ast.RangeStmt:
		dc.reads(st.X, a)
		// zero, one and two iterations
		zero, one := a.clone(), a.clone()
		rest(zero)
		dc.exec(st.Body.List, one, func(b *astate) {
			two := b.clone()
			rest(b)
			dc.exec(st.Body.List, two, rest)
		})
	default:
		dc.fail(list[0], "unsupported statement %T", list[0])
	}
}

func (s *sf) sliceDiscipline(d *ast.FuncDecl) {
	dc := &discipline{s: s, d: d, recv: s.recv, fields: map[string]bool{}}
	n := 0
	a := &astate{v: map[string]aslice{}, next: &n}
	if d.Recv != nil {
		for _, f := range s.p.structs[s.info.recv].Fields.List {
			if isSliceType(f.Type) {
				for _, id := range f.Names {
					nm := s.recv + "." + id.Name
					dc.fields[nm] = true
					a.v[nm] = dc.fresh(a)
				}
			}
		}
	}
	for _, f := range d.Type.Params.List {
		if isSliceType(f.Type) {
			for _, id := range f.Names {
				a.v[id.Name] = dc.fresh(a)
			}
		}
	}
	if d.Type.Results != nil {
		for _, f := range d.Type.Results.List {
			if isSliceType(f.Type) {
				for _, id := range f.Names {
					a.v[id.Name] = aslice{}
					dc.named = append(dc.named, id.Name)
				}
			}
		}
	}
	dc.exec(d.Body.List, a, func(b *astate) { dc.finish(d, dc.named, b) })
}
