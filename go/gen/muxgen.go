package main

// Translation of the Muxer's configuration and table scheduling (muxer.go) into Gen/MuxGen.v.
//
// The statement translator of this file (type mg) follows the conventions of stateful.go (a method with a pointer
// receiver is a function of the receiver's fields and its arguments and returns the final values of the fields it
// assigns, then its results; slices are lists; maps are abstract types with their operations as parameters) and
// reuses the expression translator of preds.go (tr.expr, tr.assign: `mod 2^N` at every unsigned operation).
// What muxer.go needs beyond packet_pool.go:
//
//   * only the receiver fields a method TOUCHES are parameters (m_<field>, declaration order) and only those it
//     ASSIGNS are returned; both sets are measured by a first translation pass, callees included;
//   * nested fields of the receiver (m.pmt.PCRPID = pid) are record updates of the field variable;
//   * maps by value (map[uint32]wrappingCounter) and of pointers (map[uint32]*esContext), several per function:
//     map_<V>_get / _set / _delete / _len / _empty; the comma-ok lookup `v, ok := m[k]` (also as the init of an if
//     or of a for) is map_<V>_get with v the entry (zero value when absent) and ok its presence;
//   * loops at any depth with break and return: `for .. range list` is a Fixpoint over the list that returns
//     inl RESULT (the function returned inside the loop) or inr VARS (the loop ended, by exhaustion or break, with
//     these values of the variables it assigns); a three-clause / condition-only `for` is such a Fixpoint over an
//     explicit fuel_ : nat parameter of the generated function, whose result then is an option (None = out of fuel);
//   * `error` is the inductive merror: ENil, one constructor per package-level error variable used, EFmt for
//     fmt.Errorf(..), EExt code for an error handed back by a callee that stays abstract;
//   * bytes.Buffer fields are their contents (Reset = [], Bytes, Len); a *astikit.BitsWriter is not a value: a local
//     or field bound by astikit.NewBitsWriter(astikit.BitsWriterOptions{Writer: &m.buf}) stands for that buffer, and
//     a call F(w, args) of one of the byte producers (writePSIData, writePacket) is the abstract parameter
//     F : buffer -> args -> buffer * results; m.w.Write(bs) is io_Write : io_Writer -> bytes -> io_Writer * int * error;
//   * x.inc() on a wrappingCounter field inside an expression is hoisted in front of the statement
//     (wrappingCounter_inc / wrappingCounter_inc_st of Gen/Preds.v) when the statement mentions the field only once;
//   * a closure without parameters (`restore := func() { .. }`) is inlined at its calls; parallel assignment
//     evaluates every right-hand side first; `x = append(x[:i], x[i+1:]...)` is slice_delete x i;
//   * calls of translated methods on the receiver thread the fields they use and assign;
//   * NewMuxer: `m := &Muxer{..}` introduces the field variables (zero values for the fields the literal omits); an
//     option is a value of the inductive MuxerOpt (one constructor per function of the package returning a
//     func(*Muxer) closure, its body translated as MuxerOpt_apply), so `for _, opt := range opts { opt(m) }` is a loop
//     over a list of MuxerOpt;
//   * WriteData is translated up to its packetisation loop: the remainder of the function is the parameter rest_
//     applied to every variable in scope, its result type is abstract (ret_ injects what the translated part returns).
//
// Whatever leaves this grammar raises a genError: the function is replaced by a NOT TRANSLATED comment,
// "gen: not translated:" goes to stderr, Proofs/MuxGenEq.v stops compiling and the check names the broken lemma.

import (
	"fmt"
	"go/ast"
	"sort"
	"strings"
)

type mgEntry struct {
	key  string
	mode string // "func", "method", "ctor", "prefix"
}

var mgEntries = []mgEntry{
	{"newEsContext", "func"},
	{"Muxer.AddElementaryStream", "method"},
	{"Muxer.RemoveElementaryStream", "method"},
	{"Muxer.SetPCRPID", "method"},
	{"NewMuxer", "ctor"},
	{"Muxer.generatePAT", "method"},
	{"Muxer.generatePMT", "method"},
	{"Muxer.WriteTables", "method"},
	{"Muxer.retransmitTables", "method"},
	{"Muxer.WriteData", "prefix"},
}

// byte producers that stay abstract: first parameter a *astikit.BitsWriter
var mgWriterExternals = map[string]bool{"writePSIData": true, "writePacket": true}

// pure functions that stay abstract (hand-modelled elsewhere)
var mgPureExternals = map[string]bool{"calcPMTSectionLength": true, "calcDescriptorLength": true}

var (
	tyErr = &ty{k: "opaque", name: "merror"}
	tyIO  = &ty{k: "opaque", name: "io_Writer"}
	tyPM  = &ty{k: "opaque", name: "programMap_t"}
	tyOpt = &ty{k: "opaque", name: "MuxerOpt"}
)

type mgMap struct {
	val *ty // struct
	key *ty
	ptr bool
}

var mgMaps = map[string]mgMap{}

type mgInfo struct {
	key, cname string
	recv       string   // receiver struct
	used, mut  []string // fields, declaration order
	params     []*ty
	results    []*ty
	ext        []string
	extDecl    map[string]string
	fuel       bool
}

var mgFuncs = map[string]*mgInfo{}
var mgErrs = map[string]bool{}           // error variables used so far
var mgOptCtors []string                  // option constructors, sorted
var mgOptInfo *mgInfo                    // MuxerOpt_apply
var mgWriterFields = map[string]string{} // Muxer field holding a BitsWriter -> "buf:<field>" / "io:<field>"

type mgSnap struct {
	env       map[string]*ty
	declDepth map[string]int
	walias    map[string]string
	closures  map[string]*ast.FuncLit
	views     map[string]string
	stale     map[string]bool
	stored    map[string]bool
	addr      map[string]bool
	mapPtr    map[string]bool
}

type mg struct {
	p          *pkg
	t          *tr
	key, cname string
	mode       string
	recv       string // receiver variable
	recvStruct string
	fieldTy    map[string]*ty
	fieldOrder []string
	bufField   map[string]bool
	used, mut  map[string]bool
	pass       int
	usedFinal  map[string]bool
	ext        map[string]string
	closures   map[string]*ast.FuncLit
	walias     map[string]string
	views      map[string]string // local -> buffer field whose bytes it holds
	stale      map[string]bool
	stored     map[string]bool // pointer locals stored into a map
	addr       map[string]bool // locals whose address was taken
	mapPtr     map[string]bool // locals pointing into a map entry
	unmodelled map[string]bool
	loops      *[]string
	nloop      int
	nfresh     int
	depth      int
	declDepth  map[string]int
	wstack     []map[string]bool
	retCoq     string
	results    []*ty
	named      []string
	fuel       bool
	sawFuel    bool
	retWrap    []func(string) string
	brk        []string
	pre        []string
	stmtNode   ast.Node
	inCond     bool
	leaves     map[string]bool
	ctorAll    bool // return every modelled field (NewMuxer)
	optVar     string
	mutFinal   map[string]bool
	holeType   string
	holeLine   int
	holeVars   []string
	lastView   string
	retInner   string
	info       *mgInfo
}

func init() {
	for _, n := range []string{"merror", "io_Writer", "programMap_t", "MuxerOpt"} {
		opaqueTypes[n] = n
	}
}

func (s *mg) fail(n ast.Node, format string, a ...interface{}) { s.t.fail(n, format, a...) }

func (s *mg) fresh(base string) string {
	s.nfresh++
	return fmt.Sprintf("%s_%d_", base, s.nfresh)
}

// field variables carry a fixed prefix, whatever the receiver is called
func (s *mg) fvar(f string) string { return "m_" + f }

// ---------- types ----------

func mgNilOf(t *ty) string {
	switch t.k {
	case "list":
		return "(@nil " + t.elem.coq() + ")"
	case "bytes":
		return "(@nil Z)"
	case "opaque":
		switch t.name {
		case "merror":
			return "ENil"
		}
		if _, ok := mgMaps[t.name]; ok {
			return "?nil_map"
		}
		return "?"
	}
	return t.zero()
}

func isMgMap(t *ty) bool {
	if t == nil || t.k != "opaque" {
		return false
	}
	_, ok := mgMaps[t.name]
	return ok
}

// gotype returns nil for a type that is not modelled (context.Context, *astikit.BitsWriter, func types).
func (s *mg) gotype(e ast.Expr) (res *ty) {
	switch x := e.(type) {
	case *ast.Ident:
		if x.Name == "error" {
			return tyErr
		}
	case *ast.SelectorExpr:
		if id, ok := x.X.(*ast.Ident); ok {
			switch id.Name + "." + x.Sel.Name {
			case "bytes.Buffer":
				return &ty{k: "bytes", name: "buffer"}
			case "io.Writer":
				return tyIO
			}
			if id.Name != "time" {
				return nil
			}
		}
	case *ast.StarExpr:
		if id, ok := x.X.(*ast.Ident); ok && id.Name == "programMap" {
			return tyPM
		}
		if _, ok := x.X.(*ast.SelectorExpr); ok {
			return nil
		}
	case *ast.FuncType:
		return nil
	case *ast.Ellipsis:
		if isOptType(x.Elt) {
			return &ty{k: "list", elem: tyOpt}
		}
		return nil
	case *ast.ArrayType:
		if x.Len == nil && isOptType(x.Elt) {
			return &ty{k: "list", elem: tyOpt}
		}
	case *ast.MapType:
		kt := s.t.goType(x.Key)
		if kt.k != "int" {
			s.fail(e, "unsupported map key type")
		}
		ve := x.Value
		ptr := false
		if st, ok := ve.(*ast.StarExpr); ok {
			ve, ptr = st.X, true
		}
		id, ok := ve.(*ast.Ident)
		if !ok || !emittedStructs[id.Name] {
			s.fail(e, "unsupported map value type")
		}
		name := "map_" + id.Name
		if old, ok := mgMaps[name]; ok && old.ptr != ptr {
			s.fail(e, "two map types with the same value struct")
		}
		opaqueTypes[name] = name
		mgMaps[name] = mgMap{val: &ty{k: "struct", name: id.Name}, key: kt, ptr: ptr}
		return &ty{k: "opaque", name: name}
	}
	defer func() {
		if r := recover(); r != nil {
			if _, ok := r.(genError); !ok {
				panic(r)
			}
			res = nil
		}
	}()
	return s.t.goType(e)
}

func isOptType(e ast.Expr) bool {
	ft, ok := e.(*ast.FuncType)
	if !ok || ft.Results != nil || ft.Params == nil || len(ft.Params.List) != 1 {
		return false
	}
	st, ok := ft.Params.List[0].Type.(*ast.StarExpr)
	if !ok {
		return false
	}
	id, ok := st.X.(*ast.Ident)
	return ok && id.Name == "Muxer"
}

// ---------- bookkeeping ----------

func cloneSnap(x mgSnap) mgSnap {
	cp := func(m map[string]bool) map[string]bool {
		o := map[string]bool{}
		for k, v := range m {
			o[k] = v
		}
		return o
	}
	cs := func(m map[string]string) map[string]string {
		o := map[string]string{}
		for k, v := range m {
			o[k] = v
		}
		return o
	}
	env := map[string]*ty{}
	for k, v := range x.env {
		env[k] = v
	}
	dd := map[string]int{}
	for k, v := range x.declDepth {
		dd[k] = v
	}
	cl := map[string]*ast.FuncLit{}
	for k, v := range x.closures {
		cl[k] = v
	}
	return mgSnap{env, dd, cs(x.walias), cl, cs(x.views), cp(x.stale), cp(x.stored), cp(x.addr), cp(x.mapPtr)}
}

func (s *mg) snapshot() mgSnap {
	return cloneSnap(mgSnap{s.t.env, s.declDepth, s.walias, s.closures, s.views, s.stale, s.stored, s.addr, s.mapPtr})
}

func (s *mg) restore(x mgSnap) {
	z := cloneSnap(x)
	s.t.env, s.declDepth, s.walias, s.closures, s.views, s.stale, s.stored, s.addr, s.mapPtr =
		z.env, z.declDepth, z.walias, z.closures, z.views, z.stale, z.stored, z.addr, z.mapPtr
}

func (s *mg) pushW() { s.wstack = append(s.wstack, map[string]bool{}) }
func (s *mg) popW() map[string]bool {
	w := s.wstack[len(s.wstack)-1]
	s.wstack = s.wstack[:len(s.wstack)-1]
	if len(s.wstack) > 0 {
		for k := range w {
			s.wstack[len(s.wstack)-1][k] = true
		}
	}
	return w
}

// wrote records a (re)binding of the variable v.
func (s *mg) wrote(v string) {
	if len(s.wstack) > 0 {
		s.wstack[len(s.wstack)-1][v] = true
	}
	if strings.HasPrefix(v, "m_") {
		f := strings.TrimPrefix(v, "m_")
		if _, ok := s.fieldTy[f]; ok {
			s.mut[f] = true
			s.used[f] = true
			if s.bufField[f] {
				for l, bf := range s.views {
					if bf == f {
						s.stale[l] = true
					}
				}
			}
		}
	}
}

func (s *mg) useField(n ast.Node, f string) string {
	if _, ok := s.fieldTy[f]; !ok {
		s.fail(n, "field %s of the receiver is not modelled (or unknown)", f)
	}
	s.used[f] = true
	return s.fvar(f)
}

// define introduces a new variable at the current depth; shadowing a variable of an enclosing scope is refused.
func (s *mg) define(n ast.Node, name string, typ *ty) {
	if coqReserved[name] && name != "b" {
		// cname() renames it; fine
	}
	if _, ok := s.t.env[name]; ok {
		if d, ok := s.declDepth[name]; !ok || d < s.depth {
			s.fail(n, "%s shadows a variable of an enclosing scope", name)
		}
	}
	if s.closures[name] != nil {
		s.fail(n, "%s redeclares a closure", name)
	}
	s.t.bind(name, typ, n.Pos())
	s.declDepth[name] = s.depth
	s.wrote(name)
	delete(s.stale, name)
	delete(s.views, name)
	delete(s.stored, name)
	delete(s.addr, name)
	delete(s.mapPtr, name)
}

func (s *mg) envVars() []string {
	var out []string
	for v := range s.t.env {
		if s.leaves[v] {
			continue
		}
		if s.pass == 2 && !s.ctorAll && strings.HasPrefix(v, "m_") {
			f := strings.TrimPrefix(v, "m_")
			if _, isField := s.fieldTy[f]; isField && !s.usedFinal[f] {
				continue
			}
		}
		out = append(out, v)
	}
	s.t.sortDecl(out) // the fields (declaration order of the struct), then parameters and locals where they are declared
	return out
}

func (s *mg) restrictEnv(names map[string]bool) {
	for v := range s.t.env {
		if !names[v] && !s.leaves[v] {
			delete(s.t.env, v)
			delete(s.declDepth, v)
		}
	}
	for v := range s.closures {
		if !names["closure:"+v] {
			delete(s.closures, v)
		}
	}
}

func (s *mg) envNames() map[string]bool {
	out := map[string]bool{}
	for v := range s.t.env {
		out[v] = true
	}
	for v := range s.closures {
		out["closure:"+v] = true
	}
	return out
}

func (s *mg) wrapRet(v string) string { return s.retWrap[len(s.retWrap)-1](v) }

func hasJump(list []ast.Stmt) bool {
	found := false
	for _, st := range list {
		ast.Inspect(st, func(n ast.Node) bool {
			switch n.(type) {
			case *ast.FuncLit:
				return false
			case *ast.ReturnStmt, *ast.BranchStmt:
				found = true
			}
			return true
		})
	}
	return found
}

// ---------- externals ----------

func (s *mg) useMapOp(op string, mt *ty) string {
	mi := mgMaps[mt.name]
	s.ext[mt.name] = "{" + mt.name + " : Type}"
	name := mt.name + "_" + op
	v := mi.val.coq()
	switch op {
	case "get":
		s.ext[name] = fmt.Sprintf("(%s : %s -> Z -> option %s)", name, mt.name, v)
	case "set":
		s.ext[name] = fmt.Sprintf("(%s : %s -> Z -> %s -> %s)", name, mt.name, v, mt.name)
	case "delete":
		s.ext[name] = fmt.Sprintf("(%s : %s -> Z -> %s)", name, mt.name, mt.name)
	case "len":
		s.ext[name] = fmt.Sprintf("(%s : %s -> Z)", name, mt.name)
	case "empty":
		s.ext[name] = fmt.Sprintf("(%s : %s)", name, mt.name)
	}
	return name
}

func (s *mg) useOpaque(t *ty) {
	if t == nil {
		return
	}
	switch t.k {
	case "opaque":
		if t == tyIO || t == tyPM || isMgMap(t) {
			s.ext[t.name] = "{" + t.name + " : Type}"
		}
	case "list", "opt":
		s.useOpaque(t.elem)
	}
}

func mgExtOrder(ext map[string]string) []string {
	var names []string
	for n := range ext {
		names = append(names, n)
	}
	isType := func(n string) bool { return strings.HasPrefix(ext[n], "{") }
	sort.Slice(names, func(i, j int) bool {
		if isType(names[i]) != isType(names[j]) {
			return isType(names[i])
		}
		return names[i] < names[j]
	})
	return names
}

func mgExtBinders(ext map[string]string) string {
	var b []string
	for _, n := range mgExtOrder(ext) {
		b = append(b, ext[n])
	}
	return strings.Join(b, " ")
}

func mgExtArgs(ext map[string]string, order []string) string {
	var a []string
	for _, n := range order {
		if !strings.HasPrefix(ext[n], "{") {
			a = append(a, n)
		}
	}
	return strings.Join(a, " ")
}

func (s *mg) inheritExt(info *mgInfo) string {
	for _, n := range info.ext {
		s.ext[n] = info.extDecl[n]
	}
	return mgExtArgs(info.extDecl, info.ext)
}

// extSig registers an abstract function of the package as a parameter and returns its parameter / result types
// (a leading *astikit.BitsWriter parameter is the buffer it writes into).
func (s *mg) extSig(n ast.Node, name string, writer bool) (params []*ty, results []*ty) {
	d, ok := s.p.funcs[name]
	if !ok {
		s.fail(n, "function %s not found in /repo", name)
	}
	var ps []string
	for i, f := range d.Type.Params.List {
		if len(f.Names) == 0 {
			s.fail(n, "%s: unnamed parameter", name)
		}
		for range f.Names {
			if writer && i == 0 {
				if st, ok := f.Type.(*ast.StarExpr); !ok || fmt.Sprint(st.X) == "" {
					s.fail(n, "%s: the first parameter is not a *astikit.BitsWriter", name)
				}
				ps = append(ps, "(list Z)")
				continue
			}
			typ := s.gotype(f.Type)
			if typ == nil {
				s.fail(n, "%s: parameter type is not modelled", name)
			}
			if typ.k == "opt" && typ.elem.k == "struct" {
				typ = typ.elem
			}
			s.useOpaque(typ)
			params = append(params, typ)
			ps = append(ps, typ.coq())
		}
	}
	var rs []string
	if writer {
		rs = append(rs, "(list Z)")
	}
	if d.Type.Results != nil {
		for _, f := range d.Type.Results.List {
			k := len(f.Names)
			if k == 0 {
				k = 1
			}
			typ := s.gotype(f.Type)
			if typ == nil {
				s.fail(n, "%s: result type is not modelled", name)
			}
			if typ.k == "opt" && typ.elem.k == "struct" {
				typ = typ.elem
			}
			for i := 0; i < k; i++ {
				results = append(results, typ)
				rs = append(rs, typ.coq())
			}
		}
	}
	if len(rs) == 0 {
		s.fail(n, "%s has no result", name)
	}
	s.ext[name] = "(" + name + " : " + strings.Join(append(ps, strings.Join(rs, " * ")), " -> ") + ")"
	return
}
