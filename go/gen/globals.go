package main

import (
	"fmt"
	"go/ast"
	"go/token"
	"sort"
	"strings"
)

// emitGlobals lists every package-level variable of the package with a syntactic, conservative classification of how
// the code uses it:
//
//	GError  initialised by errors.New / fmt.Errorf, never assigned and never addressed (its value may be copied)
//	GPool   a pointer to a struct wrapping sync.Pool (exclusive hand-out is sync.Pool's contract), never assigned
//	GTable  an array / slice / map literal that every function only reads by index (x[k] as a value) or ranges over
//	GScalar a value of a basic type that no function assigns
//	GShared anything else: state that several Demuxers / Muxers of a process would share
//
// Local variables that shadow a package-level name are not told apart (any use counts: conservative).
func (p *pkg) emitGlobals() string {
	var names []string
	for n := range p.vars {
		if n != "_" {
			names = append(names, n)
		}
	}
	sort.Strings(names)
	// uses of each name in function bodies
	type usage struct{ written, escapes, addressed bool }
	uses := map[string]*usage{}
	for _, n := range names {
		uses[n] = &usage{}
	}
	var fnames []string
	for n := range p.funcs {
		fnames = append(fnames, n)
	}
	sort.Strings(fnames)
	for _, fn := range fnames {
		fd := p.funcs[fn]
		if fd.Body == nil {
			continue
		}
		var stack []ast.Node
		ast.Inspect(fd.Body, func(n ast.Node) bool {
			if n == nil {
				stack = stack[:len(stack)-1]
				return true
			}
			stack = append(stack, n)
			id, ok := n.(*ast.Ident)
			if !ok {
				return true
			}
			u, ok := uses[id.Name]
			if !ok || len(stack) < 2 {
				return true
			}
			parent := stack[len(stack)-2]
			switch par := parent.(type) {
			case *ast.SelectorExpr:
				if par.Sel == id {
					return true // a field or method called like the variable
				}
				// x.f / x.m(): reading through the variable; a write through it is judged by the class (GPool)
				if len(stack) >= 3 {
					if as, ok := stack[len(stack)-3].(*ast.AssignStmt); ok {
						for _, l := range as.Lhs {
							if l == par {
								u.written = true
							}
						}
					}
				}
				return true
			case *ast.IndexExpr:
				if par.X == id {
					// x[k]: a write when it is assigned to, incremented or addressed
					if len(stack) >= 3 {
						switch gp := stack[len(stack)-3].(type) {
						case *ast.AssignStmt:
							for _, l := range gp.Lhs {
								if l == par {
									u.written = true
								}
							}
						case *ast.IncDecStmt:
							u.written = true
						case *ast.UnaryExpr:
							if gp.Op == token.AND {
								u.addressed = true
							}
						}
					}
					return true
				}
				return true // used as an index value
			case *ast.RangeStmt:
				if par.X == id {
					return true
				}
			case *ast.AssignStmt:
				for _, l := range par.Lhs {
					if l == id {
						u.written = true
						return true
					}
				}
			case *ast.IncDecStmt:
				u.written = true
				return true
			case *ast.BinaryExpr:
				return true // compared / computed with
			case *ast.CallExpr:
				if par.Fun == id {
					return true
				}
				if f, ok := par.Fun.(*ast.Ident); ok && (f.Name == "len" || f.Name == "cap") {
					return true
				}
			case *ast.ReturnStmt:
				return true // returning the value of an error variable etc.; judged by the class below
			case *ast.KeyValueExpr, *ast.Field:
				return true
			}
			if ue, ok := parent.(*ast.UnaryExpr); ok && ue.Op == token.AND {
				u.addressed = true
			}
			u.escapes = true // the value is copied somewhere: harmless for an error or a scalar, aliasing for a slice or map
			return true
		})
	}
	isErrorInit := func(e ast.Expr) bool {
		c, ok := e.(*ast.CallExpr)
		if !ok {
			return false
		}
		s, ok := c.Fun.(*ast.SelectorExpr)
		if !ok {
			return false
		}
		x, ok := s.X.(*ast.Ident)
		return ok && ((x.Name == "errors" && s.Sel.Name == "New") || (x.Name == "fmt" && s.Sel.Name == "Errorf"))
	}
	wrapsPool := func(e ast.Expr) bool {
		u, ok := e.(*ast.UnaryExpr)
		if !ok || u.Op != token.AND {
			return false
		}
		cl, ok := u.X.(*ast.CompositeLit)
		if !ok {
			return false
		}
		id, ok := cl.Type.(*ast.Ident)
		if !ok {
			return false
		}
		st, ok := p.structs[id.Name]
		if !ok {
			return false
		}
		for _, f := range st.Fields.List {
			t := f.Type
			if s, ok := t.(*ast.StarExpr); ok {
				t = s.X
			}
			if s, ok := t.(*ast.SelectorExpr); ok {
				if x, ok := s.X.(*ast.Ident); ok && x.Name == "sync" && s.Sel.Name == "Pool" {
					return true
				}
			}
		}
		return false
	}
	isAggregate := func(s *ast.ValueSpec, init ast.Expr) bool {
		t := s.Type
		if t == nil {
			if cl, ok := init.(*ast.CompositeLit); ok {
				t = cl.Type
			}
		}
		switch t.(type) {
		case *ast.ArrayType, *ast.MapType:
			return true
		}
		return false
	}
	var b strings.Builder
	b.WriteString("\n(* Every package-level variable of the package and how the code uses it (syntactic, conservative: see\n   go/gen/globals.go).  GShared = state that separate Demuxers / Muxers of one process would share. *)\nInductive gclass := GError | GPool | GTable | GScalar | GShared.\nRecord gvar := mk_gvar { gv_name : string; gv_class : gclass }.\n\nDefinition global_vars : list gvar := [\n")
	for i, n := range names {
		s := p.vars[n]
		var init ast.Expr
		for k, id := range s.Names {
			if id.Name == n && k < len(s.Values) {
				init = s.Values[k]
			}
		}
		u := uses[n]
		class := "GShared"
		switch {
		case init != nil && isErrorInit(init):
			if !u.written && !u.addressed {
				class = "GError"
			}
		case init != nil && wrapsPool(init):
			if !u.written && !u.escapes && !u.addressed {
				class = "GPool"
			}
		case isAggregate(s, init):
			if init != nil && !u.written && !u.escapes && !u.addressed {
				class = "GTable"
			}
		default:
			if id, ok := s.Type.(*ast.Ident); ok && !u.written && !u.addressed {
				switch id.Name {
				case "int", "uint8", "uint16", "uint32", "uint64", "int64", "bool", "string", "byte":
					class = "GScalar"
				}
			}
			if bl, ok := init.(*ast.BasicLit); ok && bl != nil && !u.written && !u.addressed {
				class = "GScalar"
			}
		}
		sep := ";"
		if i == len(names)-1 {
			sep = ""
		}
		fmt.Fprintf(&b, "  mk_gvar %q %s%s\n", n, class, sep)
	}
	b.WriteString("].\n")
	return b.String()
}
