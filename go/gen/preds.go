package main

import (
	"fmt"
	"go/ast"
	"go/token"
	"os"
	"path/filepath"
	"strings"
)

// The functions translated into Gen/Preds.v, in dependency order. A name is
// "func" or "Recv.method". The translation fails loudly when a function is
// missing or leaves the accepted grammar.
var predList = []string{
	"newWrappingCounter", "wrappingCounter.get", "wrappingCounter.inc",
	"computeCRC32_via", // pseudo entries are handled in emitPreds
}

type ty struct {
	k     string // "int" "bool" "bytes" "struct" "opt" "list" "opaque" "untyped"
	w     int    // width for unsigned ints (0 = no wrap)
	name  string // struct / opaque name
	elem  *ty    // list element / option payload
	isPtr bool
	sw    int // restgen.go: width of a SIGNED integer whose two's-complement wrap is made explicit (0 = unbounded, the default)
}

var (
	tInt     = &ty{k: "int"}
	tBool    = &ty{k: "bool"}
	tBytes   = &ty{k: "bytes"}
	tUntyped = &ty{k: "untyped"}
)

func (t *ty) coq() string {
	switch t.k {
	case "int", "untyped":
		return "Z"
	case "bool":
		return "bool"
	case "bytes":
		return "(list Z)"
	case "struct":
		return t.name
	case "opt":
		return "(option " + t.elem.coq() + ")"
	case "list":
		return "(list " + t.elem.coq() + ")"
	case "opaque":
		return opaqueTypes[t.name]
	case "tuple":
		return "?"
	}
	return "?"
}

func (t *ty) zero() string {
	switch t.k {
	case "int", "untyped":
		return "0"
	case "bool":
		return "false"
	case "bytes", "list":
		return "[]"
	case "struct":
		return "zero_" + t.name
	case "opt":
		return "None"
	}
	return "?"
}

// Go types that are modelled by an abstract Coq type.
var opaqueTypes = map[string]string{
	"programMap": "(Z -> bool)", // the set of registered PMT PIDs, as its membership test
}

type tr struct {
	p       *pkg
	fn      string
	env     map[string]*ty
	results []string // named results
	resTy   []*ty
	optPar  map[string]bool
	loops   *[]string // extra definitions emitted before the function
	nloop   int
	ord     *declOrd // declaration order of the variables (declorder.go)
}

// genError is raised when a function leaves the translator's grammar; emitPreds skips that function (and, through
// "call of untranslated function", everything that calls it) so that only the models that need it stop building.
type genError struct{ msg string }

func (t *tr) fail(n ast.Node, format string, a ...interface{}) {
	pos := t.p.fset.Position(n.Pos())
	panic(genError{fmt.Sprintf("%s: %s:%d: %s", t.fn, filepath.Base(pos.Filename), pos.Line, fmt.Sprintf(format, a...))})
}

var coqReserved = map[string]bool{"at": true, "in": true, "end": true, "type": true, "as": true, "fix": true, "fun": true,
	"if": true, "then": true, "else": true, "let": true, "match": true, "with": true, "return": true, "forall": true,
	"exists": true, "mod": true, "using": true, "where": true, "for": true, "cofix": true, "Prop": true, "Set": true, "Type": true,
	"length": true, "nth": true, "option": true, "list": true, "bool": true, "Z": true, "b": false}

func cname(n string) string {
	if coqReserved[n] {
		return n + "_"
	}
	return n
}

// trTypeHook / trExprHook let another translator of this package add type and expression forms (restgen.go sets them
// while it runs); they are nil while Gen/Preds.v is emitted.
var trTypeHook func(t *tr, e ast.Expr) *ty
var trExprHook func(t *tr, e ast.Expr) (string, *ty, bool)

func (t *tr) goType(e ast.Expr) *ty {
	if trTypeHook != nil {
		if typ := trTypeHook(t, e); typ != nil {
			return typ
		}
	}
	switch e := e.(type) {
	case *ast.Ident:
		if w, _, ok := t.p.intType(e.Name); ok {
			return &ty{k: "int", w: w}
		}
		switch e.Name {
		case "bool":
			return tBool
		case "string":
			return tBytes
		}
		if emittedStructs[e.Name] {
			return &ty{k: "struct", name: e.Name}
		}
		if _, ok := opaqueTypes[e.Name]; ok {
			return &ty{k: "opaque", name: e.Name}
		}
	case *ast.StarExpr:
		in := t.goType(e.X)
		if in.k == "opaque" {
			return in
		}
		return &ty{k: "opt", elem: in}
	case *ast.ArrayType:
		if e.Len == nil {
			if id, ok := e.Elt.(*ast.Ident); ok && (id.Name == "byte" || id.Name == "uint8") {
				return tBytes
			}
			elt := e.Elt
			if s, ok := elt.(*ast.StarExpr); ok {
				elt = s.X
			}
			return &ty{k: "list", elem: t.goType(elt)}
		}
	case *ast.SelectorExpr:
		if x, ok := e.X.(*ast.Ident); ok && x.Name == "time" {
			return tInt
		}
	}
	t.fail(e, "unsupported type")
	return nil
}

func pow2(w int) string {
	switch w {
	case 8:
		return "256"
	case 16:
		return "65536"
	case 32:
		return "4294967296"
	case 64:
		return "18446744073709551616"
	}
	return fmt.Sprintf("(2^%d)", w)
}

func wrap(s string, t *ty) string {
	if t.k == "int" && t.sw > 0 {
		return fmt.Sprintf("(sint_wrap %d (%s))", t.sw, s)
	}
	if t.k == "int" && t.w > 0 {
		return "((" + s + ") mod " + pow2(t.w) + ")"
	}
	return s
}

func (t *tr) structFieldType(sname, fname string, n ast.Node) *ty {
	st, ok := t.p.structs[sname]
	if !ok {
		t.fail(n, "unknown struct %s", sname)
	}
	for _, f := range st.Fields.List {
		for _, id := range f.Names {
			if id.Name == fname {
				return t.goType(f.Type)
			}
		}
	}
	t.fail(n, "struct %s has no field %s", sname, fname)
	return nil
}

// asStruct coerces an expression of struct or option-of-struct type to the record.
func asStruct(s string, typ *ty) (string, *ty) {
	if typ.k == "opt" && typ.elem.k == "struct" {
		return "(odflt zero_" + typ.elem.name + " " + s + ")", typ.elem
	}
	return s, typ
}

func (t *tr) expr(e ast.Expr) (string, *ty) {
	if trExprHook != nil {
		if s, typ, ok := trExprHook(t, e); ok {
			return s, typ
		}
	}
	switch e := e.(type) {
	case *ast.BasicLit:
		v, ok := t.p.evalConst(e, nil)
		if !ok {
			t.fail(e, "unsupported literal %s", e.Value)
		}
		return coqZ(v), tUntyped
	case *ast.ParenExpr:
		s, typ := t.expr(e.X)
		return s, typ
	case *ast.Ident:
		switch e.Name {
		case "true":
			return "true", tBool
		case "false":
			return "false", tBool
		}
		if typ, ok := t.env[e.Name]; ok {
			return cname(e.Name), typ
		}
		if spec, ok := t.p.consts[e.Name]; ok {
			if _, ok := t.p.constVal(e.Name, map[string]bool{}); !ok {
				t.fail(e, "constant %s is not an integer", e.Name)
			}
			typ := tUntyped
			if spec.Type != nil {
				typ = t.goType(spec.Type)
			} else if i := t.p.cidx[e.Name]; i < len(spec.Values) {
				// a conversion such as uint32(0xffffffff) types the constant
				if c, ok := spec.Values[i].(*ast.CallExpr); ok && len(c.Args) == 1 {
					if id, ok := c.Fun.(*ast.Ident); ok {
						if w, _, ok := t.p.intType(id.Name); ok {
							typ = &ty{k: "int", w: w}
						}
					}
				}
			}
			return "C_" + e.Name, typ
		}
		if e.Name == "tableCRC32" {
			return "tableCRC32", &ty{k: "list", elem: &ty{k: "int", w: 32}}
		}
		t.fail(e, "unknown identifier %s", e.Name)
	case *ast.SelectorExpr:
		// time constants
		if x, ok := e.X.(*ast.Ident); ok && x.Name == "time" {
			switch e.Sel.Name {
			case "Hour":
				return "3600000000000", tInt
			case "Minute":
				return "60000000000", tInt
			case "Second":
				return "1000000000", tInt
			case "February":
				return "2", tInt
			}
			t.fail(e, "unsupported time.%s", e.Sel.Name)
		}
		xs, xt := t.expr(e.X)
		xs, xt = asStruct(xs, xt)
		if xt.k != "struct" {
			t.fail(e, "selector on non-struct")
		}
		ft := t.structFieldType(xt.name, e.Sel.Name, e)
		return "(" + xt.name + "_" + e.Sel.Name + " " + xs + ")", ft
	case *ast.StarExpr:
		return t.expr(e.X)
	case *ast.UnaryExpr:
		switch e.Op {
		case token.NOT:
			s, _ := t.expr(e.X)
			return "(negb " + s + ")", tBool
		case token.SUB:
			s, typ := t.expr(e.X)
			return wrap("(- "+s+")", typ), typ
		case token.AND: // &CompositeLit
			return t.expr(e.X)
		}
		t.fail(e, "unsupported unary %s", e.Op)
	case *ast.CompositeLit:
		id, ok := e.Type.(*ast.Ident)
		if !ok || !emittedStructs[id.Name] {
			t.fail(e, "unsupported composite literal")
		}
		st := t.p.structs[id.Name]
		vals := map[string]string{}
		for _, el := range e.Elts {
			kv, ok := el.(*ast.KeyValueExpr)
			if !ok {
				t.fail(e, "unkeyed composite literal")
			}
			k := kv.Key.(*ast.Ident).Name
			s, vt := t.expr(kv.Value)
			ft := t.structFieldType(id.Name, k, kv)
			vals[k] = t.coerce(s, vt, ft, kv)
		}
		var fs []string
		for _, f := range st.Fields.List {
			for _, fid := range f.Names {
				v, ok := vals[fid.Name]
				if !ok {
					v = t.goType(f.Type).zero()
				}
				fs = append(fs, fmt.Sprintf("%s_%s := %s", id.Name, fid.Name, v))
			}
		}
		return "{| " + strings.Join(fs, "; ") + " |}", &ty{k: "struct", name: id.Name}
	case *ast.IndexExpr:
		xs, xt := t.expr(e.X)
		is, _ := t.expr(e.Index)
		switch xt.k {
		case "bytes":
			return "(nth (Z.to_nat " + is + ") " + xs + " 0)", &ty{k: "int", w: 8}
		case "list":
			return "(nth (Z.to_nat " + is + ") " + xs + " " + xt.elem.zero() + ")", xt.elem
		}
		t.fail(e, "index of non-list")
	case *ast.CallExpr:
		return t.call(e)
	case *ast.BinaryExpr:
		return t.binary(e)
	}
	t.fail(e, "unsupported expression %T", e)
	return "", nil
}

func (t *tr) coerce(s string, from, to *ty, n ast.Node) string {
	if to.k == "struct" && from.k == "opt" {
		s, _ = asStruct(s, from)
		return s
	}
	if to.k == "opt" && from.k == "struct" {
		return "(Some " + s + ")"
	}
	if to.k == "int" && from.k == "untyped" {
		return s
	}
	return s
}

func (t *tr) call(e *ast.CallExpr) (string, *ty) {
	switch f := e.Fun.(type) {
	case *ast.Ident:
		// conversion
		if w, _, ok := t.p.intType(f.Name); ok && len(e.Args) == 1 {
			s, st := t.expr(e.Args[0])
			to := &ty{k: "int", w: w}
			if st.k == "bool" {
				t.fail(e, "bool conversion")
			}
			if w > 0 && !(st.k == "int" && st.w > 0 && st.w <= w) {
				return wrap(s, to), to
			}
			return s, to
		}
		if f.Name == "len" && len(e.Args) == 1 {
			s, _ := t.expr(e.Args[0])
			return "(Z.of_nat (List.length " + s + "))", tInt
		}
		if f.Name == "float64" {
			t.fail(e, "float conversion")
		}
		d, ok := t.p.funcs[f.Name]
		if !ok || !translated[f.Name] {
			t.fail(e, "call of untranslated function %s", f.Name)
		}
		return t.apply(f.Name, f.Name, d, nil, e)
	case *ast.SelectorExpr:
		if x, ok := f.X.(*ast.Ident); ok && x.Name == "time" && f.Sel.Name == "Duration" && len(e.Args) == 1 {
			s, _ := t.expr(e.Args[0])
			return s, tInt
		}
		if x, ok := f.X.(*ast.Ident); ok && x.Name == "bytes" && f.Sel.Name == "Equal" && len(e.Args) == 2 {
			a, at := t.expr(e.Args[0])
			b, bt := t.expr(e.Args[1])
			if at.k != "bytes" || bt.k != "bytes" {
				t.fail(e, "bytes.Equal on non-byte slices")
			}
			return "(bytes_eqb " + a + " " + b + ")", tBool
		}
		// method call
		xs, xt := t.expr(f.X)
		if xt.k == "opaque" && xt.name == "programMap" && f.Sel.Name == "existsUnlocked" && len(e.Args) == 1 {
			a, _ := t.expr(e.Args[0])
			return "(" + xs + " " + a + ")", tBool
		}
		var recv string
		switch {
		case xt.k == "struct":
			recv = xt.name
		case xt.k == "opt" && xt.elem.k == "struct":
			recv = xt.elem.name
		case xt.k == "int":
			// named integer type: find a method with that name on any named int type
			for n := range t.p.types {
				if _, ok := t.p.funcs[n+"."+f.Sel.Name]; ok {
					recv = n
				}
			}
		}
		key := recv + "." + f.Sel.Name
		d, ok := t.p.funcs[key]
		if !ok || !translated[key] {
			t.fail(e, "call of untranslated method %s", key)
		}
		return t.apply(key, recv+"_"+f.Sel.Name, d, &recvArg{xs, xt}, e)
	}
	t.fail(e, "unsupported call")
	return "", nil
}

type recvArg struct {
	s string
	t *ty
}

var translated = map[string]bool{}
var funcSig = map[string][]*ty{} // parameter types (receiver first) of translated functions
var funcRes = map[string]*ty{}

func (t *tr) apply(key, cn string, d *ast.FuncDecl, recv *recvArg, e *ast.CallExpr) (string, *ty) {
	sig := funcSig[key]
	var args []string
	i := 0
	if recv != nil {
		args = append(args, t.coerce(recv.s, recv.t, sig[0], e))
		i = 1
	}
	for _, a := range e.Args {
		s, st := t.expr(a)
		if i >= len(sig) {
			t.fail(e, "too many arguments")
		}
		args = append(args, t.coerce(s, st, sig[i], e))
		i++
	}
	return "(" + cn + " " + strings.Join(args, " ") + ")", funcRes[key]
}

func arith(a, b *ty) *ty {
	if a.k == "untyped" {
		if b.k == "untyped" {
			return tUntyped
		}
		return b
	}
	return a
}

func (t *tr) binary(e *ast.BinaryExpr) (string, *ty) {
	xs, xt := t.expr(e.X)
	ys, yt := t.expr(e.Y)
	switch e.Op {
	case token.LAND:
		return "(andb " + xs + " " + ys + ")", tBool
	case token.LOR:
		return "(orb " + xs + " " + ys + ")", tBool
	case token.EQL, token.NEQ:
		var s string
		if xt.k == "bool" || yt.k == "bool" {
			s = "(Bool.eqb " + xs + " " + ys + ")"
		} else if id, ok := e.Y.(*ast.Ident); ok && id.Name == "nil" {
			t.fail(e, "nil comparison outside a guard")
		} else {
			s = "(" + xs + " =? " + ys + ")"
		}
		if e.Op == token.NEQ {
			s = "(negb " + s + ")"
		}
		return s, tBool
	case token.LSS:
		return "(" + xs + " <? " + ys + ")", tBool
	case token.LEQ:
		return "(" + xs + " <=? " + ys + ")", tBool
	case token.GTR:
		return "(" + xs + " >? " + ys + ")", tBool
	case token.GEQ:
		return "(" + xs + " >=? " + ys + ")", tBool
	}
	rt := arith(xt, yt)
	signed := rt.k == "int" && rt.w == 0
	switch e.Op {
	case token.ADD:
		return wrap("("+xs+" + "+ys+")", rt), rt
	case token.SUB:
		return wrap("("+xs+" - "+ys+")", rt), rt
	case token.MUL:
		return wrap("("+xs+" * "+ys+")", rt), rt
	case token.QUO:
		if signed {
			return wrap("(Z.quot "+xs+" "+ys+")", rt), rt // wrap: identity unless restgen.go asked for explicit int64 wrap
		}
		return "(" + xs + " / " + ys + ")", rt
	case token.REM:
		if signed {
			return "(Z.rem " + xs + " " + ys + ")", rt
		}
		return "(" + xs + " mod " + ys + ")", rt
	case token.AND:
		return "(Z.land " + xs + " " + ys + ")", rt
	case token.OR:
		return "(Z.lor " + xs + " " + ys + ")", rt
	case token.XOR:
		return "(Z.lxor " + xs + " " + ys + ")", rt
	case token.SHL:
		return wrap("(Z.shiftl "+xs+" "+ys+")", xt), xt
	case token.SHR:
		return "(Z.shiftr " + xs + " " + ys + ")", xt
	}
	t.fail(e, "unsupported operator %s", e.Op)
	return "", nil
}

// ---------- statements ----------

// assigned collects the local variables assigned in a statement list.
func (t *tr) assigned(stmts []ast.Stmt, set map[string]bool) {
	for _, s := range stmts {
		switch s := s.(type) {
		case *ast.AssignStmt:
			for _, l := range s.Lhs {
				set[t.lhsVar(l)] = true
			}
		case *ast.IncDecStmt:
			set[t.lhsVar(s.X)] = true
		case *ast.IfStmt:
			t.assigned(s.Body.List, set)
			if s.Else != nil {
				t.assigned([]ast.Stmt{s.Else}, set)
			}
		case *ast.BlockStmt:
			t.assigned(s.List, set)
		case *ast.RangeStmt:
			t.assigned(s.Body.List, set)
		case *ast.SwitchStmt:
			for _, c := range s.Body.List {
				t.assigned(c.(*ast.CaseClause).Body, set)
			}
		case *ast.DeclStmt:
		}
	}
}

// lhsVar returns the local variable an lvalue updates (x, or x for x.f).
func (t *tr) lhsVar(e ast.Expr) string {
	switch e := e.(type) {
	case *ast.Ident:
		return e.Name
	case *ast.SelectorExpr:
		return t.lhsVar(e.X)
	}
	t.fail(e, "unsupported lvalue")
	return ""
}

func hasReturn(stmts []ast.Stmt) bool {
	found := false
	for _, s := range stmts {
		ast.Inspect(s, func(n ast.Node) bool {
			if _, ok := n.(*ast.ReturnStmt); ok {
				found = true
			}
			return true
		})
	}
	return found
}

// terminates reports whether a statement list always ends in a return.
func terminates(stmts []ast.Stmt) bool {
	if len(stmts) == 0 {
		return false
	}
	switch s := stmts[len(stmts)-1].(type) {
	case *ast.ReturnStmt:
		return true
	case *ast.IfStmt:
		if s.Else == nil {
			return false
		}
		var el []ast.Stmt
		switch e := s.Else.(type) {
		case *ast.BlockStmt:
			el = e.List
		default:
			el = []ast.Stmt{e}
		}
		return terminates(s.Body.List) && terminates(el)
	case *ast.BlockStmt:
		return terminates(s.List)
	}
	return false
}

func tuple(vars []string) string {
	if len(vars) == 1 {
		return cname(vars[0])
	}
	var c []string
	for _, v := range vars {
		c = append(c, cname(v))
	}
	return "(" + strings.Join(c, ", ") + ")"
}

func tuplePat(vars []string) string {
	if len(vars) == 1 {
		return cname(vars[0])
	}
	return "'" + tuple(vars)
}

// trStmtHook lets another translator of this package add statement forms (psiwritegen.go sets it while it runs);
// it is nil while Gen/Preds.v is emitted.
var trStmtHook func(t *tr, list []ast.Stmt, k func() string) (string, bool)

// stmts translates a statement list; k produces the final expression when the
// list falls off its end (the continuation).
func (t *tr) stmts(list []ast.Stmt, k func() string) string {
	if len(list) == 0 {
		return k()
	}
	rest := func() string { return t.stmts(list[1:], k) }
	if trStmtHook != nil {
		if out, ok := trStmtHook(t, list, k); ok {
			return out
		}
	}
	switch s := list[0].(type) {
	case *ast.ReturnStmt:
		return t.ret(s)
	case *ast.DeclStmt:
		gd := s.Decl.(*ast.GenDecl)
		out := ""
		for _, sp := range gd.Specs {
			vs := sp.(*ast.ValueSpec)
			for i, id := range vs.Names {
				var val string
				var typ *ty
				if vs.Type != nil {
					typ = t.goType(vs.Type)
				}
				if i < len(vs.Values) {
					v, vt := t.expr(vs.Values[i])
					if typ == nil {
						typ = vt
						if typ.k == "untyped" {
							typ = tInt
						}
					}
					val = t.coerce(v, vt, typ, s)
				} else {
					val = typ.zero()
				}
				t.bind(id.Name, typ, id.Pos())
				out += "let " + cname(id.Name) + " := " + val + " in\n  "
			}
		}
		return out + rest()
	case *ast.AssignStmt:
		if len(s.Lhs) != 1 || len(s.Rhs) != 1 {
			t.fail(s, "multiple assignment")
		}
		rs, rt := t.expr(s.Rhs[0])
		return t.assign(s.Lhs[0], s.Tok, rs, rt, s) + rest()
	case *ast.IncDecStmt:
		tok := token.ADD_ASSIGN
		if s.Tok == token.DEC {
			tok = token.SUB_ASSIGN
		}
		return t.assign(s.X, tok, "1", tUntyped, s) + rest()
	case *ast.BlockStmt:
		return t.stmts(append(append([]ast.Stmt{}, s.List...), list[1:]...), k)
	case *ast.IfStmt:
		if s.Init != nil {
			t.fail(s, "if with init")
		}
		c, _ := t.expr(s.Cond)
		var el []ast.Stmt
		if s.Else != nil {
			switch e := s.Else.(type) {
			case *ast.BlockStmt:
				el = e.List
			default:
				el = []ast.Stmt{e}
			}
		}
		// nil guard on an optional parameter: if x == nil { return v }
		if hasReturn(s.Body.List) || hasReturn(el) {
			// a branch returns: duplicate the continuation into the branch that falls through
			saved := t.copyEnv()
			th := t.stmts(s.Body.List, func() string { return t.stmts(list[1:], k) })
			t.env = saved
			saved2 := t.copyEnv()
			e2 := t.stmts(el, func() string { return t.stmts(list[1:], k) })
			t.env = saved2
			return "(if " + c + " then " + th + " else " + e2 + ")"
		}
		set := map[string]bool{}
		t.assigned(s.Body.List, set)
		t.assigned(el, set)
		var vars []string
		for v := range set {
			if _, ok := t.env[v]; ok {
				vars = append(vars, v)
			}
		}
		t.sortDecl(vars)
		if len(vars) == 0 {
			return rest()
		}
		saved := t.copyEnv()
		th := t.stmts(s.Body.List, func() string { return tuple(vars) })
		t.env = t.copyEnvFrom(saved)
		e2 := t.stmts(el, func() string { return tuple(vars) })
		t.env = saved
		return "let " + tuplePat(vars) + " := (if " + c + " then " + th + " else " + e2 + ") in\n  " + rest()
	case *ast.SwitchStmt:
		if s.Init != nil {
			t.fail(s, "switch with init")
		}
		return t.stmts(append([]ast.Stmt{t.switchToIf(s)}, list[1:]...), k)
	case *ast.RangeStmt:
		return t.rangeLoop(s) + rest()
	case *ast.EmptyStmt:
		return rest()
	}
	t.fail(list[0], "unsupported statement %T", list[0])
	return ""
}

func (t *tr) copyEnv() map[string]*ty { return t.copyEnvFrom(t.env) }
func (t *tr) copyEnvFrom(e map[string]*ty) map[string]*ty {
	m := map[string]*ty{}
	for k, v := range e {
		m[k] = v
	}
	return m
}

// switchToIf rewrites `switch tag { case a, b: S ... default: D }` (or a tagless
// switch) into an if / else-if chain.
func (t *tr) switchToIf(s *ast.SwitchStmt) ast.Stmt {
	var chain *ast.IfStmt
	var last *ast.IfStmt
	var def *ast.BlockStmt
	for _, c := range s.Body.List {
		cc := c.(*ast.CaseClause)
		for _, st := range cc.Body {
			if b, ok := st.(*ast.BranchStmt); ok {
				t.fail(b, "branch statement in switch")
			}
		}
		if cc.List == nil {
			def = &ast.BlockStmt{List: cc.Body}
			continue
		}
		var cond ast.Expr
		for _, v := range cc.List {
			var one ast.Expr = v
			if s.Tag != nil {
				one = &ast.BinaryExpr{X: s.Tag, Op: token.EQL, Y: v, OpPos: v.Pos()}
			}
			if cond == nil {
				cond = one
			} else {
				cond = &ast.BinaryExpr{X: cond, Op: token.LOR, Y: one, OpPos: v.Pos()}
			}
		}
		is := &ast.IfStmt{If: cc.Pos(), Cond: cond, Body: &ast.BlockStmt{List: cc.Body}}
		if chain == nil {
			chain = is
		} else {
			last.Else = is
		}
		last = is
	}
	if chain == nil {
		if def != nil {
			return def
		}
		return &ast.EmptyStmt{}
	}
	if def != nil {
		last.Else = def
	}
	return chain
}

func (t *tr) assign(lhs ast.Expr, tok token.Token, rs string, rt *ty, n ast.Node) string {
	switch l := lhs.(type) {
	case *ast.Ident:
		typ, ok := t.env[l.Name]
		if tok == token.DEFINE || !ok {
			typ = rt
			if typ.k == "untyped" {
				typ = tInt
			}
			t.bind(l.Name, typ, l.Pos())
			return "let " + cname(l.Name) + " := " + rs + " in\n  "
		}
		val := t.opAssign(cname(l.Name), typ, tok, rs, rt, n)
		return "let " + cname(l.Name) + " := " + val + " in\n  "
	case *ast.SelectorExpr:
		// x.f op= e  on a local record x
		xid, ok := l.X.(*ast.Ident)
		if !ok {
			t.fail(n, "nested field assignment")
		}
		xt, ok := t.env[xid.Name]
		if !ok {
			t.fail(n, "assignment to field of unknown variable")
		}
		xs, st := asStruct(cname(xid.Name), xt)
		ft := t.structFieldType(st.name, l.Sel.Name, n)
		cur := "(" + st.name + "_" + l.Sel.Name + " " + xs + ")"
		val := t.opAssign(cur, ft, tok, rs, rt, n)
		var fs []string
		for _, f := range t.p.structs[st.name].Fields.List {
			for _, fid := range f.Names {
				v := "(" + st.name + "_" + fid.Name + " " + xs + ")"
				if fid.Name == l.Sel.Name {
					v = val
				}
				fs = append(fs, fmt.Sprintf("%s_%s := %s", st.name, fid.Name, v))
			}
		}
		rec := "{| " + strings.Join(fs, "; ") + " |}"
		if xt.k == "opt" {
			rec = "(Some " + rec + ")"
		}
		return "let " + cname(xid.Name) + " := " + rec + " in\n  "
	}
	t.fail(n, "unsupported assignment target")
	return ""
}

func (t *tr) opAssign(cur string, typ *ty, tok token.Token, rs string, rt *ty, n ast.Node) string {
	switch tok {
	case token.ASSIGN, token.DEFINE:
		return t.coerce(rs, rt, typ, n)
	case token.ADD_ASSIGN:
		return wrap("("+cur+" + "+rs+")", typ)
	case token.SUB_ASSIGN:
		return wrap("("+cur+" - "+rs+")", typ)
	case token.MUL_ASSIGN:
		return wrap("("+cur+" * "+rs+")", typ)
	case token.OR_ASSIGN:
		return "(Z.lor " + cur + " " + rs + ")"
	}
	t.fail(n, "unsupported assignment operator %s", tok)
	return ""
}

func (t *tr) ret(s *ast.ReturnStmt) string {
	if len(s.Results) == 0 {
		if len(t.results) == 0 {
			t.fail(s, "bare return without named results")
		}
		return tuple(t.results)
	}
	var parts []string
	for i, r := range s.Results {
		v, vt := t.expr(r)
		if i < len(t.resTy) {
			v = t.coerce(v, vt, t.resTy[i], s)
		}
		parts = append(parts, v)
	}
	if len(parts) == 1 {
		return parts[0]
	}
	return "(" + strings.Join(parts, ", ") + ")"
}

// freeVars lists the environment variables a node mentions.
func (t *tr) freeVars(n ast.Node, bound map[string]bool) []string {
	set := map[string]bool{}
	ast.Inspect(n, func(x ast.Node) bool {
		if id, ok := x.(*ast.Ident); ok {
			if _, ok := t.env[id.Name]; ok && !bound[id.Name] {
				set[id.Name] = true
			}
		}
		return true
	})
	var out []string
	for v := range set {
		out = append(out, v)
	}
	t.sortDecl(out)
	return out
}

// rangeLoop translates `for _, x := range xs { body }` where body only assigns
// outer locals, as a fold_left over a separately emitted step function.
func (t *tr) rangeLoop(s *ast.RangeStmt) string {
	if s.Key != nil {
		if id, ok := s.Key.(*ast.Ident); !ok || id.Name != "_" {
			t.fail(s, "range with index variable")
		}
	}
	xs, xt := t.expr(s.X)
	var et *ty
	switch xt.k {
	case "bytes":
		et = &ty{k: "int", w: 8}
	case "list":
		et = xt.elem
	default:
		t.fail(s, "range over non-list")
	}
	if hasReturn(s.Body.List) {
		t.fail(s, "return inside loop")
	}
	ast.Inspect(s.Body, func(n ast.Node) bool {
		if b, ok := n.(*ast.BranchStmt); ok {
			t.fail(b, "break/continue inside loop")
		}
		return true
	})
	set := map[string]bool{}
	t.assigned(s.Body.List, set)
	var acc []string
	for v := range set {
		if _, ok := t.env[v]; ok {
			acc = append(acc, v)
		}
	}
	t.sortDecl(acc)
	if len(acc) == 0 {
		return ""
	}
	elem := "_"
	if s.Value != nil {
		elem = s.Value.(*ast.Ident).Name
	}
	bound := map[string]bool{elem: true}
	for _, a := range acc {
		bound[a] = true
	}
	closure := t.freeVars(s.Body, bound)
	t.nloop++
	name := fmt.Sprintf("%s_loop%d", strings.ReplaceAll(t.fn, ".", "_"), t.nloop)
	saved := t.copyEnv()
	if elem != "_" {
		t.bind(elem, et, s.Value.Pos())
	}
	body := t.stmts(s.Body.List, func() string { return tuple(acc) })
	var params []string
	for _, c := range closure {
		params = append(params, fmt.Sprintf("(%s : %s)", cname(c), saved[c].coq()))
	}
	var accTy []string
	for _, a := range acc {
		accTy = append(accTy, saved[a].coq())
	}
	accT := strings.Join(accTy, " * ")
	ce := cname(elem)
	def := fmt.Sprintf("Definition %s %s (acc_ : %s) (%s : %s) : %s :=\n  let %s := acc_ in\n  %s.\n\n",
		name, strings.Join(params, " "), accT, ce, et.coq(), accT, tuplePat(acc), body)
	*t.loops = append(*t.loops, def)
	t.env = saved
	var cargs []string
	for _, c := range closure {
		cargs = append(cargs, cname(c))
	}
	call := name
	if len(cargs) > 0 {
		call = "(" + name + " " + strings.Join(cargs, " ") + ")"
	}
	return "let " + tuplePat(acc) + " := fold_left " + call + " " + xs + " " + tuple(acc) + " in\n  "
}

// usesNil reports whether the body compares the named parameter with nil.
func usesNil(body *ast.BlockStmt, name string) bool {
	found := false
	ast.Inspect(body, func(n ast.Node) bool {
		if b, ok := n.(*ast.BinaryExpr); ok && (b.Op == token.EQL || b.Op == token.NEQ) {
			x, ok1 := b.X.(*ast.Ident)
			y, ok2 := b.Y.(*ast.Ident)
			if ok1 && ok2 && x.Name == name && y.Name == "nil" {
				found = true
			}
		}
		return true
	})
	return found
}

// function translates one function declaration. When state is true the
// definition returns the final value of the (pointer) receiver instead of the
// function result, under the name <name>_st.
func (p *pkg) function(key string, state bool) string {
	d, ok := p.funcs[key]
	if !ok {
		panic(genError{fmt.Sprintf("function %s not found in /repo", key)})
	}
	var loops []string
	t := &tr{p: p, fn: key, env: map[string]*ty{}, optPar: map[string]bool{}, loops: &loops}
	var params []string
	var sig []*ty
	addParam := func(name string, te ast.Expr, pos token.Pos) {
		typ := t.goType(te)
		if typ.k == "opt" && !usesNil(d.Body, name) {
			typ = typ.elem // pointer that is never compared with nil: modelled as the record itself
		}
		t.bind(name, typ, pos)
		sig = append(sig, typ)
		params = append(params, fmt.Sprintf("(%s : %s)", cname(name), typ.coq()))
	}
	recvVar := ""
	if d.Recv != nil {
		f := d.Recv.List[0]
		recvVar = "recv_"
		if len(f.Names) == 1 {
			recvVar = f.Names[0].Name
		}
		addParam(recvVar, f.Type, f.Pos())
	}
	for _, f := range d.Type.Params.List {
		for _, id := range f.Names {
			addParam(id.Name, f.Type, id.Pos())
		}
	}
	var resTy []*ty
	pre := ""
	if d.Type.Results != nil {
		for _, f := range d.Type.Results.List {
			typ := t.goType(f.Type)
			if typ.k == "opt" {
				typ = typ.elem
			}
			if len(f.Names) == 0 {
				resTy = append(resTy, typ)
			}
			for _, id := range f.Names {
				resTy = append(resTy, typ)
				t.results = append(t.results, id.Name)
				t.bind(id.Name, typ, id.Pos())
				pre += "let " + cname(id.Name) + " := " + typ.zero() + " in\n  "
			}
		}
	}
	t.resTy = resTy
	// nil guards: `if x == nil { return v }` on an optional parameter
	body := d.Body.List
	guards := ""
	nguards := 0
	for len(body) > 0 {
		is, ok := body[0].(*ast.IfStmt)
		if !ok || is.Else != nil || is.Init != nil {
			break
		}
		b, ok := is.Cond.(*ast.BinaryExpr)
		if !ok || b.Op != token.EQL {
			break
		}
		x, ok1 := b.X.(*ast.Ident)
		y, ok2 := b.Y.(*ast.Ident)
		if !ok1 || !ok2 || y.Name != "nil" || t.env[x.Name] == nil || t.env[x.Name].k != "opt" {
			break
		}
		if len(is.Body.List) != 1 {
			break
		}
		rs, ok := is.Body.List[0].(*ast.ReturnStmt)
		if !ok {
			break
		}
		guards += "match " + cname(x.Name) + " with None => " + t.ret(rs) + " | Some _ =>\n  "
		nguards++
		body = body[1:]
	}
	var final func() string
	if state {
		final = func() string { return cname(recvVar) }
		t.results = []string{recvVar}
	} else {
		final = func() string {
			if len(t.results) == 0 {
				t.fail(d, "function falls off its end without named results")
			}
			return tuple(t.results)
		}
	}
	var expr string
	if state {
		// replace every return by the receiver
		expr = t.stmtsState(body, recvVar)
	} else {
		expr = t.stmts(body, final)
	}
	expr = pre + guards + expr + strings.Repeat(" end", nguards)
	var rts []string
	for _, r := range resTy {
		rts = append(rts, r.coq())
	}
	rt := strings.Join(rts, " * ")
	name := strings.ReplaceAll(key, ".", "_")
	if state {
		name += "_st"
		rt = sig[0].coq()
	} else {
		translated[key] = true
		funcSig[key] = sig
		if len(resTy) == 1 {
			funcRes[key] = resTy[0]
		} else {
			funcRes[key] = &ty{k: "tuple"}
		}
	}
	return strings.Join(loops, "") + fmt.Sprintf("Definition %s %s : %s :=\n  %s.\n\n", name, strings.Join(params, " "), rt, expr)
}

// stmtsState translates a body whose returns are replaced by the final receiver.
func (t *tr) stmtsState(body []ast.Stmt, recv string) string {
	// rewrite: drop the expressions of return statements by translating with a
	// wrapper that treats `return e` as `return recv`
	var rewrite func(list []ast.Stmt) []ast.Stmt
	rewrite = func(list []ast.Stmt) []ast.Stmt {
		var out []ast.Stmt
		for _, s := range list {
			switch s := s.(type) {
			case *ast.ReturnStmt:
				out = append(out, &ast.ReturnStmt{Return: s.Pos(), Results: []ast.Expr{&ast.Ident{Name: recv, NamePos: s.Pos()}}})
			case *ast.IfStmt:
				c := *s
				c.Body = &ast.BlockStmt{List: rewrite(s.Body.List)}
				if s.Else != nil {
					switch e := s.Else.(type) {
					case *ast.BlockStmt:
						c.Else = &ast.BlockStmt{List: rewrite(e.List)}
					default:
						c.Else = &ast.BlockStmt{List: rewrite([]ast.Stmt{e})}
					}
				}
				out = append(out, &c)
			default:
				out = append(out, s)
			}
		}
		return out
	}
	t.resTy = nil
	return t.stmts(rewrite(body), func() string { return cname(recv) })
}

func (p *pkg) emitPreds() string {
	var b strings.Builder
	b.WriteString("(* Generated from function bodies of /repo by go/gen on every run. Do not edit.\n   Integers are Z; every operation whose Go type is uintN carries its `mod 2^N`;\n   `int`/`int64` arithmetic is unbounded (no theorem relies on signed overflow).\n   A *T parameter that the function never compares with nil is modelled as the record T. *)\nFrom Coq Require Import ZArith List Bool.\nRequire Import Gen.Consts Gen.Types Gen.CrcTable.\nImport ListNotations.\nOpen Scope Z_scope.\n\nDefinition odflt {A} (d : A) (o : option A) : A := match o with Some x => x | None => d end.\n\n(* bytes.Equal *)\nFixpoint bytes_eqb (a b : list Z) : bool :=\n  match a, b with\n  | [], [] => true\n  | x :: a', y :: b' => (x =? y) && bytes_eqb a' b'\n  | _, _ => false\n  end.\n\n")
	for _, e := range predEntries {
		func() {
			defer func() {
				if r := recover(); r != nil {
					ge, ok := r.(genError)
					if !ok {
						panic(r)
					}
					fmt.Fprintf(os.Stderr, "gen: not translated: %s\n", ge.msg)
					fmt.Fprintf(&b, "(* NOT TRANSLATED (the function left the translator's grammar): %s *)\n\n", strings.ReplaceAll(ge.msg, "*)", "* )"))
				}
			}()
			var fb strings.Builder
			fb.WriteString(p.function(e.key, false))
			if e.state {
				fb.WriteString(p.function(e.key, true))
			}
			b.WriteString(fb.String())
		}()
	}
	return b.String()
}

type predEntry struct {
	key   string
	state bool
}

var predEntries = []predEntry{
	{"newWrappingCounter", false},
	{"wrappingCounter.get", false},
	{"wrappingCounter.inc", true},
	{"updateCRC32", false},
	{"computeCRC32", false},
	{"hasCounterDiscontinuity", false},
	{"hasDiscontinuity", false},
	{"isSameAsPrevious", false},
	{"isPSIPayload", false},
	{"isPESPayload", false},
	{"PSITableID.hasPSISyntaxHeader", false},
	{"PSITableID.hasCRC32", false},
	{"PSITableID.isUnknown", false},
	{"shouldStopPSIParsing", false},
	{"hasPESOptionalHeader", false},
	{"PESHeader.IsVideoStream", false},
	{"payloadOffset", false},
	{"calcPacketAdaptationFieldExtensionLength", false},
	{"calcPacketAdaptationFieldLength", false},
	{"packetAdaptationFieldSize", false},
	{"calcPESOptionalHeaderDataLength", false},
	{"calcPESOptionalHeaderLength", false},
	{"newStuffingAdaptationField", false},
	{"parseDVBDurationByte", false},
	{"dvbDurationByteRepresentation", false},
	{"calcPATSectionLength", false},
	// C14: descriptor length calculators
	{"calcDescriptorAC3Length", false},
	{"calcDescriptorAVCVideoLength", false},
	{"calcDescriptorComponentLength", false},
	{"calcDescriptorContentLength", false},
	{"calcDescriptorDataStreamAlignmentLength", false},
	{"calcDescriptorEnhancedAC3Length", false},
	{"calcDescriptorExtendedEventLength", false},
	{"calcDescriptorExtensionSupplementaryAudioLength", false},
	{"calcDescriptorISO639LanguageAndAudioTypeLength", false},
	{"calcDescriptorLocalTimeOffsetLength", false},
	{"calcDescriptorMaximumBitrateLength", false},
	{"calcDescriptorNetworkNameLength", false},
	{"calcDescriptorParentalRatingLength", false},
	{"calcDescriptorPrivateDataIndicatorLength", false},
	{"calcDescriptorPrivateDataSpecifierLength", false},
	{"calcDescriptorRegistrationLength", false},
	{"calcDescriptorServiceLength", false},
	{"calcDescriptorShortEventLength", false},
	{"calcDescriptorStreamIdentifierLength", false},
	{"calcDescriptorSubtitlingLength", false},
	{"calcDescriptorTeletextLength", false},
	{"calcDescriptorVBIDataLength", false},
	{"calcDescriptorUnknownLength", false},
}
