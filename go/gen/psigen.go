package main

// Translation of the PSI / SI table parsers (data_psi.go, data_pat.go, data_pmt.go, data_sdt.go, data_nit.go,
// data_eit.go, data_tot.go), of the descriptor loop (descriptor.go: parseDescriptors and the body parsers listed
// below) and of the two BCD duration parsers of dvb.go into Gen/PsiGen.v, on every run.
//
// The statement / expression grammar is that of itermonad.go (the iterator monad IM of Base/Iter.v, `mod 2^N` at every
// uintN operation, field assignments as record updates through set_<Struct>_<Field>, "NOT TRANSLATED" isolation per
// function).  What this file adds to it (switched on by mtr.psi, so that Gen/ParseGen.v is unaffected):
//
//	for cond { body }                     ->  a Fixpoint <fn>_loop<k> on a fuel argument, called with fuel = S (Z.to_nat len)
//	                                          where len <- ilength (input length + 1); fuel exhausted = ierr E_out_of_fuel.
//	                                          The loop state is the set of variables the body assigns that are live at the
//	                                          loop head; every other variable the body mentions is a parameter.  cond is
//	                                          evaluated at every round (i.Offset(), i.HasBytesLeft() bound just before it);
//	                                          break / continue / goto and a return that is not the error propagation of an
//	                                          error check are refused.
//	x = append(x, v)                      ->  x ++ [v]   (v a value or a pointer statically known to be non-nil)
//	var x *T                              ->  the record zero_T, not known to be non-nil until a parser result is stored
//	p.f on a pointer PARAMETER p          ->  p <- ideref p ;;  (Panic when p is nil: pointer parameters are options,
//	                                          callers pass the pointer they hold)
//	if ..., err = f(i); err != nil { err = fmt.Errorf("no %w"); return }
//	                                      ->  ... <- imaperr E_generic (f) ;;   (the callee's error is replaced)
//	switch / else-if chains               ->  one flat `if .. else if ..` expression (no bind per level)
//	if x := e; c { ... }                  ->  x := e; if c { ... }   (x stays declared: a later redeclaration is refused)
//	bs[a:b] with constant bounds          ->  firstn (b-a) (skipn a bs), accepted only inside the constant length bs was read with
//	a callee listed as abstract           ->  a Section Variable typed from the callee's Go declaration
//	                                          (`Z -> IM T`; a pointer result *T is the record T: the callee is assumed to
//	                                          return a non-nil pointer on success, which the translation of that callee
//	                                          checks when it is itself translated in another section)
//	PSITableID.Type()                     ->  the if-chain over the table id with the strings as ASCII code lists
//
// Not translated (run-time slice bounds, a shadowed variable, the address of a local slice): newDescriptorExtension,
// newDescriptorISO639LanguageAndAudioType; parseDVBTime (float64 arithmetic: C15 keeps that boundary).  They stay Section
// Variables of the functions that call them.  The end of Gen/PsiGen.v defines the tactics psigen_cbv / psigen_cbn over the
// setters and projections this file uses, so that a proof never names a setter a change of the source may remove.
//
// Each section is closed before the next one opens, so a definition is generalised over exactly the abstract callees
// it (transitively) uses: a new callee in the Go source changes the type of the definition and the equality lemma
// of Proofs/PsiGenEq*.v stops type-checking.

import (
	"fmt"
	"go/ast"
	"go/token"
	"os"
	"sort"
	"strconv"
	"strings"
)

type psiSection struct {
	name     string
	abstract []string
	entries  []string
}

var psiDescriptorBodies = []string{
	"newDescriptorAC3", "newDescriptorAVCVideo", "newDescriptorComponent", "newDescriptorContent",
	"newDescriptorDataStreamAlignment", "newDescriptorEnhancedAC3", "newDescriptorExtendedEvent", "newDescriptorExtension",
	"newDescriptorISO639LanguageAndAudioType", "newDescriptorLocalTimeOffset", "newDescriptorMaximumBitrate",
	"newDescriptorNetworkName", "newDescriptorParentalRating", "newDescriptorPrivateDataIndicator",
	"newDescriptorPrivateDataSpecifier", "newDescriptorRegistration", "newDescriptorService", "newDescriptorShortEvent",
	"newDescriptorStreamIdentifier", "newDescriptorSubtitling", "newDescriptorTeletext", "newDescriptorUnknown",
	"newDescriptorVBIData",
}

var psiSections = []psiSection{
	{name: "PsiTables",
		abstract: []string{"parseDescriptors", "parseDVBTime", "parseDVBDurationSeconds"},
		entries: []string{"PSITableID.Type", "parseCRC32", "parsePSISectionHeader", "parsePSISectionSyntaxHeader",
			"parsePATSection", "parsePMTSection", "parseSDTSection", "parseNITSection", "parseEITSection", "parseTOTSection",
			"parsePSISectionSyntaxData", "parsePSISectionSyntax", "parsePSISection", "parsePSIData"}},
	{name: "DescriptorLoop",
		abstract: psiDescriptorBodies,
		entries:  []string{"parseDescriptors"}},
	{name: "DvbDurations",
		entries: []string{"parseDVBDurationMinutes", "parseDVBDurationSeconds"}},
	{name: "DescriptorBodies",
		abstract: []string{"parseDVBTime", "parseDVBDurationMinutes", "parseDVBDurationSeconds"},
		entries: []string{"newDescriptorAVCVideo", "newDescriptorDataStreamAlignment", "newDescriptorMaximumBitrate",
			"newDescriptorPrivateDataIndicator", "newDescriptorPrivateDataSpecifier", "newDescriptorStreamIdentifier",
			"newDescriptorUnknown", "newDescriptorRegistration", "newDescriptorNetworkName", "newDescriptorComponent",
			"newDescriptorContent", "newDescriptorService", "newDescriptorShortEvent", "newDescriptorParentalRating",
			"newDescriptorSubtitling", "newDescriptorTeletext", "newDescriptorLocalTimeOffset", "newDescriptorAC3", "newDescriptorEnhancedAC3",
			"newDescriptorExtendedEventItem", "newDescriptorExtendedEvent", "newDescriptorExtensionSupplementaryAudio", "newDescriptorVBIData"}},
}

// ---------- hooks called from itermonad.go ----------

// derefParam: a selection through a pointer parameter that has not been dereferenced yet on this path.
func (m *mtr) derefParam(e *ast.SelectorExpr, pre *string, guarded bool) {
	id, ok := e.X.(*ast.Ident)
	if !ok || !m.ptrParam[id.Name] || m.nonNil[id.Name] {
		return
	}
	if guarded {
		m.fail(e, "dereference of the pointer parameter %s under a short-circuit operator", id.Name)
	}
	t, ok := m.env[id.Name]
	if !ok || t.k != "opt" {
		m.fail(e, "pointer parameter %s has no option value here", id.Name)
	}
	*pre += cname(id.Name) + " <- ideref " + cname(id.Name) + " ;;\n  "
	m.env[id.Name] = t.elem
	m.nonNil[id.Name] = true
}

// hoistAppend: append(xs, v) as a rendered term of the list type.
func (m *mtr) hoistAppend(e *ast.CallExpr, pre *string, guarded bool) ast.Expr {
	if len(e.Args) != 2 || e.Ellipsis.IsValid() {
		m.fail(e, "append with other than two arguments")
	}
	a0 := m.hoist(e.Args[0], pre, guarded)
	a1 := m.hoist(e.Args[1], pre, guarded)
	xs, xt := m.expr(a0)
	if xt.k != "list" && xt.k != "bytes" {
		m.fail(e, "append to something that is not a slice")
	}
	if p, ok := pathOf(a1); ok {
		if id, isId := a1.(*ast.Ident); isId && m.ptrVar[id.Name] && !m.nonNil[p] {
			m.fail(e, "append of the pointer %s, which is not statically known to be non-nil", p)
		}
	}
	ys, yt := m.expr(a1)
	if yt.k == "opt" {
		m.fail(e, "append of a pointer that may be nil")
	}
	if xt.k == "list" && !(yt.k == xt.elem.k && yt.name == xt.elem.name) && !(xt.elem.k == "int" && yt.k == "untyped") {
		m.fail(e, "append of an element of another type")
	}
	name := "(" + xs + " ++ [" + ys + "])"
	m.env[name] = xt
	return &ast.Ident{Name: name, NamePos: e.Pos()}
}

// hoistSlice: x[a:b] with constant bounds inside the constant length x was read with (no panic possible).
func (m *mtr) hoistSlice(e *ast.SliceExpr) ast.Expr {
	xid, ok := e.X.(*ast.Ident)
	if !ok || e.Slice3 {
		m.fail(e, "slice expression that is not <slice variable>[<constant>:<constant>]")
	}
	n, known := m.sliceLen[xid.Name]
	if !known {
		m.fail(e, "slice expression on %s, whose length is not statically known", xid.Name)
	}
	lo, hi := int64(0), n
	if e.Low != nil {
		v, ok := m.p.evalConst(e.Low, map[string]bool{})
		if !ok {
			m.fail(e, "slice bound is not a constant")
		}
		lo = v.Int64()
	}
	if e.High != nil {
		v, ok := m.p.evalConst(e.High, map[string]bool{})
		if !ok {
			m.fail(e, "slice bound is not a constant")
		}
		hi = v.Int64()
	}
	if lo < 0 || lo > hi || hi > n {
		m.fail(e, "slice %s[%d:%d] is not statically within the length %d the slice was read with", xid.Name, lo, hi, n)
	}
	xs, _ := m.expr(xid)
	name := fmt.Sprintf("(firstn %d (skipn %d %s))", hi-lo, lo, xs)
	if lo == 0 {
		name = fmt.Sprintf("(firstn %d %s)", hi, xs)
	}
	m.env[name] = tBytes
	return &ast.Ident{Name: name, NamePos: e.Pos()}
}

// elseBranch: `else if` chains become one flat conditional expression.
func (m *mtr) elseBranch(els []ast.Stmt, after vset, fin func() string, isM bool) string {
	if m.psi && len(els) == 1 {
		first := els[0]
		if sw, ok := first.(*ast.SwitchStmt); ok && sw.Init == nil {
			first = m.switchToIf(sw)
		}
		if is, ok := first.(*ast.IfStmt); ok && is.Init == nil {
			pre := ""
			cond := m.hoist(is.Cond, &pre, false)
			c, ct := m.expr(cond)
			if ct.k != "bool" {
				m.fail(is, "condition is not boolean")
			}
			if pre != "" && !isM {
				m.fail(is, "iterator read in the condition of a block that does not use the iterator")
			}
			body, els2 := branches(is)
			saved := m.save()
			th := m.stmts(body, after, fin)
			m.restore(saved)
			el := m.elseBranch(els2, after, fin, isM)
			m.restore(saved)
			return pre + "(if " + c + " then " + th + " else " + el + ")"
		}
	}
	return m.stmts(els, after, fin)
}

// abstractSig: the signature of a callee that is a Section Variable, from its Go declaration.
func (m *mtr) abstractSig(f string, n ast.Node) *msig {
	if sig, ok := m.abstract[f]; ok {
		return sig
	}
	d, ok := m.p.funcs[f]
	if !ok || d.Recv != nil || iterParam(d) == "" {
		m.fail(n, "abstract callee %s is not a parser of /repo", f)
	}
	sig := &msig{}
	for _, fl := range d.Type.Params.List {
		if isIterType(fl.Type) {
			continue
		}
		for range fl.Names {
			sig.params = append(sig.params, m.goType(fl.Type))
		}
	}
	rl := d.Type.Results.List
	if len(rl) == 0 || !isIdent(rl[len(rl)-1].Type, "error") || len(rl[len(rl)-1].Names) > 1 {
		m.fail(n, "abstract callee %s: the last result is not a single error", f)
	}
	for _, fl := range rl[:len(rl)-1] {
		typ := m.goType(fl.Type)
		isPtr := false
		if typ.k == "opt" {
			typ, isPtr = typ.elem, true
		}
		cnt := len(fl.Names)
		if cnt == 0 {
			cnt = 1
		}
		for k := 0; k < cnt; k++ {
			sig.res = append(sig.res, typ)
			sig.resPtr = append(sig.resPtr, isPtr)
		}
	}
	m.abstract[f] = sig
	return sig
}

func (s *msig) coqType() string {
	var parts []string
	for _, p := range s.params {
		parts = append(parts, p.coq())
	}
	var rts []string
	for _, r := range s.res {
		rts = append(rts, r.coq())
	}
	rt := "unit"
	if len(rts) > 0 {
		rt = strings.Join(rts, " * ")
	}
	parts = append(parts, "IM ("+rt+")")
	return strings.Join(parts, " -> ")
}

// forLoop: `for cond { body }` as a Fixpoint on fuel, emitted in front of the function.
func (m *mtr) forLoop(s *ast.ForStmt, restList []ast.Stmt, out vset, k func() string) string {
	if s.Init != nil || s.Post != nil || s.Cond == nil {
		m.fail(s, "for loop that is not `for cond { ... }`")
	}
	ast.Inspect(s.Body, func(n ast.Node) bool {
		switch n.(type) {
		case *ast.BranchStmt, *ast.LabeledStmt, *ast.GoStmt, *ast.DeferStmt, *ast.RangeStmt, *ast.FuncLit:
			m.fail(n, "%T inside a for loop", n)
		}
		return true
	})
	if m.freeReturn(s.Body.List) {
		m.fail(s, "return inside a for loop that is not the propagation of an error check")
	}
	after := m.liveBefore(restList, out)
	head := m.liveStmt(s, after)
	set := map[string]bool{}
	m.assigned(s.Body.List, set)
	var state, dead []string
	for v := range set {
		if _, ok := m.decl[v]; !ok {
			continue // declared inside the body
		}
		if m.ptrParam[v] {
			m.fail(s, "assignment to the pointer parameter %s", v)
		}
		if head.has(v) {
			state = append(state, v)
		} else {
			dead = append(dead, v)
		}
	}
	m.sortDecl(state) // the loop state: where the variables are declared
	m.sortDecl(dead)
	for _, v := range state {
		if _, ok := m.env[v]; !ok {
			m.fail(s, "loop variable %s has no value at the loop entry", v)
		}
	}
	for _, v := range dead {
		delete(m.env, v)
	}
	for v := range set {
		delete(m.sliceLen, v)
	}
	isState := map[string]bool{}
	for _, v := range state {
		isState[v] = true
	}
	var closure []string
	seen := map[string]bool{}
	for _, n := range []ast.Node{s.Cond, s.Body} {
		for _, v := range m.tr.freeVars(n, isState) {
			if !seen[v] && !strings.ContainsAny(v, " (") {
				seen[v] = true
				closure = append(closure, v)
			}
		}
	}
	m.sortDecl(closure)
	var params, cargs []string
	for _, c := range closure {
		params = append(params, fmt.Sprintf("(%s : %s)", cname(c), m.env[c].coq()))
		cargs = append(cargs, cname(c))
	}
	var stTy []string
	for _, v := range state {
		params = append(params, fmt.Sprintf("(%s : %s)", cname(v), m.decl[v].coq()))
		stTy = append(stTy, m.decl[v].coq())
	}
	rt := "unit"
	if len(stTy) > 0 {
		rt = strings.Join(stTy, " * ")
	}
	m.nloop++
	name := fmt.Sprintf("%s_loop%d", strings.ReplaceAll(m.fn, ".", "_"), m.nloop)

	saved := m.save()
	entryNonNil := map[string]bool{}
	for p := range m.nonNil {
		entryNonNil[p] = true
	}
	pre := ""
	cond := m.hoist(s.Cond, &pre, false)
	c, ct := m.expr(cond)
	if ct.k != "bool" {
		m.fail(s, "loop condition is not boolean")
	}
	recur := func() string {
		m.needVars(state, s)
		for p := range entryNonNil {
			root := p
			if k := strings.Index(p, "."); k >= 0 {
				root = p[:k]
			}
			if set[root] && !m.nonNil[p] {
				m.fail(s, "pointer %s is known to be non-nil at the loop entry but not at the end of the loop body", p)
			}
		}
		var args []string
		for _, v := range state {
			args = append(args, cname(v))
		}
		return strings.Join(append(append([]string{name, "fuel_"}, cargs...), args...), " ")
	}
	body := m.stmts(s.Body.List, head, recur)
	m.restore(saved)

	def := fmt.Sprintf("Fixpoint %s (fuel_ : nat) %s {struct fuel_} : IM (%s) :=\n  match fuel_ with\n  | O => ierr E_out_of_fuel\n  | S fuel_ =>\n  %s(if %s then %s else iret %s)\n  end.\n\n",
		name, strings.Join(params, " "), rt, pre, c, body, mtuple(state))
	*m.loops = append(*m.loops, def)

	for _, v := range dead {
		delete(m.env, v)
	}
	for _, v := range state {
		m.env[v] = m.decl[v]
	}
	for v := range set {
		delete(m.sliceLen, v)
	}
	m.ntmp++
	ln := fmt.Sprintf("len%d_", m.ntmp)
	var args []string
	for _, v := range state {
		args = append(args, cname(v))
	}
	call := strings.Join(append(append([]string{name, "(S (Z.to_nat " + ln + "))"}, cargs...), args...), " ")
	o := ln + " <- ilength ;;\n  "
	if len(state) == 0 {
		o += call + " ;;;\n  "
	} else {
		o += mpat(state) + " <- " + call + " ;;\n  "
	}
	return o + m.stmts(restList, out, k)
}

// ---------- PSITableID.Type ----------

func (p *pkg) stringConst(name string) ([]byte, bool) {
	spec, ok := p.consts[name]
	if !ok {
		return nil, false
	}
	i := p.cidx[name]
	if i >= len(spec.Values) {
		return nil, false
	}
	lit, ok := spec.Values[i].(*ast.BasicLit)
	if !ok || lit.Kind != token.STRING {
		return nil, false
	}
	s, err := strconv.Unquote(lit.Value)
	if err != nil {
		return nil, false
	}
	return []byte(s), true
}

// psiStringSwitch translates a method `func (t T) M() string` over a named integer type whose body is one tagless
// switch of `return <string constant>` clauses.
func (p *pkg) psiStringSwitch(key string) string {
	d, ok := p.funcs[key]
	if !ok {
		panic(genError{fmt.Sprintf("function %s not found in /repo", key)})
	}
	t := &tr{p: p, fn: key, env: map[string]*ty{}, optPar: map[string]bool{}}
	if d.Recv == nil || len(d.Recv.List) != 1 || len(d.Recv.List[0].Names) != 1 || len(d.Type.Params.List) != 0 {
		t.fail(d, "not a method without parameters")
	}
	recv := d.Recv.List[0].Names[0].Name
	rt := t.goType(d.Recv.List[0].Type)
	if rt.k != "int" {
		t.fail(d, "receiver is not an integer type")
	}
	if d.Type.Results == nil || len(d.Type.Results.List) != 1 || !isIdent(d.Type.Results.List[0].Type, "string") {
		t.fail(d, "result is not a string")
	}
	t.env[recv] = rt
	if len(d.Body.List) != 1 {
		t.fail(d, "body is not a single switch")
	}
	sw, ok := d.Body.List[0].(*ast.SwitchStmt)
	if !ok || sw.Init != nil || sw.Tag != nil {
		t.fail(d, "body is not a tagless switch")
	}
	str := func(cc *ast.CaseClause) string {
		if len(cc.Body) != 1 {
			t.fail(cc, "case body is not a single return")
		}
		r, ok := cc.Body[0].(*ast.ReturnStmt)
		if !ok || len(r.Results) != 1 {
			t.fail(cc, "case body is not a single return")
		}
		id, ok := r.Results[0].(*ast.Ident)
		if !ok {
			t.fail(r, "returned value is not a string constant")
		}
		bs, ok := p.stringConst(id.Name)
		if !ok {
			t.fail(r, "returned value is not a string constant")
		}
		var cs []string
		for _, b := range bs {
			cs = append(cs, strconv.Itoa(int(b)))
		}
		return "[" + strings.Join(cs, "; ") + "]"
	}
	var b strings.Builder
	def := ""
	for k, c := range sw.Body.List {
		cc := c.(*ast.CaseClause)
		if cc.List == nil {
			if k != len(sw.Body.List)-1 {
				t.fail(cc, "default is not the last clause")
			}
			def = str(cc)
			continue
		}
		var conds []string
		for _, e := range cc.List {
			s, st := t.expr(e)
			if st.k != "bool" {
				t.fail(e, "case expression is not boolean")
			}
			conds = append(conds, s)
		}
		cond := conds[0]
		for _, c2 := range conds[1:] {
			cond = "(orb " + cond + " " + c2 + ")"
		}
		fmt.Fprintf(&b, "  if %s then %s else\n", cond, str(cc))
	}
	if def == "" {
		t.fail(d, "switch without default")
	}
	translated[key] = true
	funcSig[key] = []*ty{rt}
	funcRes[key] = tBytes
	return fmt.Sprintf("Definition %s (%s : Z) : list Z :=\n%s  %s.\n\n", strings.ReplaceAll(key, ".", "_"), cname(recv), b.String(), def)
}

// ---------- functions ----------

func (p *pkg) psiFunction(key string, sec *psiSection, abstract map[string]*msig) string {
	d, ok := p.funcs[key]
	if !ok {
		panic(genError{fmt.Sprintf("function %s not found in /repo", key)})
	}
	it := iterParam(d)
	if it == "" {
		return p.psiStringSwitch(key)
	}
	if d.Recv != nil {
		panic(genError{fmt.Sprintf("%s: methods are outside the grammar of the parser translation", key)})
	}
	var loops []string
	t := &tr{p: p, fn: key, env: map[string]*ty{}, optPar: map[string]bool{}, loops: &loops}
	m := &mtr{tr: t, it: it, decl: map[string]*ty{}, ptrVar: map[string]bool{}, nonNil: map[string]bool{}, fnTy: map[string]bool{},
		sliceLen: map[string]int64{}, psi: true, ptrParam: map[string]bool{}, abstract: abstract, absOK: map[string]bool{}}
	for _, a := range sec.abstract {
		m.absOK[a] = true
	}
	sig := &msig{}
	var params []string
	for _, f := range d.Type.Params.List {
		if isIterType(f.Type) {
			continue
		}
		for _, id := range f.Names {
			typ := t.goType(f.Type)
			if typ.k == "opt" {
				m.ptrVar[id.Name] = true
				m.ptrParam[id.Name] = true
			}
			t.bind(id.Name, typ, id.Pos())
			m.decl[id.Name] = typ
			sig.params = append(sig.params, typ)
			params = append(params, fmt.Sprintf("(%s : %s)", cname(id.Name), typ.coq()))
		}
	}
	if d.Type.Results == nil || len(d.Type.Results.List) == 0 {
		t.fail(d, "parser without results")
	}
	rl := d.Type.Results.List
	lastF := rl[len(rl)-1]
	if !isIdent(lastF.Type, "error") || len(lastF.Names) > 1 {
		t.fail(d, "the last result is not a single error")
	}
	named := len(lastF.Names) == 1
	if named && lastF.Names[0].Name != "err" {
		t.fail(d, "the error result is not called err")
	}
	pre := ""
	for _, f := range rl[:len(rl)-1] {
		typ := t.goType(f.Type)
		isPtr := false
		if typ.k == "opt" {
			typ, isPtr = typ.elem, true
		}
		if len(f.Names) == 0 {
			if named {
				t.fail(d, "mixed named and unnamed results")
			}
			sig.res = append(sig.res, typ)
			sig.resPtr = append(sig.resPtr, isPtr)
		}
		for _, id := range f.Names {
			if !named {
				t.fail(d, "mixed named and unnamed results")
			}
			sig.res = append(sig.res, typ)
			sig.resPtr = append(sig.resPtr, isPtr)
			t.results = append(t.results, id.Name)
			t.bind(id.Name, typ, id.Pos())
			m.decl[id.Name] = typ
			m.ptrVar[id.Name] = isPtr
			pre += "let " + cname(id.Name) + " := " + typ.zero() + " in\n  "
		}
	}
	t.resTy = sig.res
	m.resPtr = sig.resPtr
	final := func() string {
		t.fail(d, "function falls off its end")
		return ""
	}
	expr := m.stmts(d.Body.List, vset{}, final)
	var rts []string
	for _, r := range sig.res {
		rts = append(rts, r.coq())
	}
	rt := "unit"
	if len(rts) > 0 {
		rt = strings.Join(rts, " * ")
	}
	mtranslated[key] = sig
	return strings.Join(loops, "") + fmt.Sprintf("Definition %s %s : IM (%s) :=\n  %s%s.\n\n", key, strings.Join(params, " "), rt, pre, expr)
}

func (p *pkg) emitPsiGen() string {
	head := "(* Generated from the bodies of the PSI / SI table parsers, the descriptor loop and the BCD duration parsers of /repo by\n" +
		"   go/gen (psigen.go, on the statement translator of itermonad.go) on every run. Do not edit.\n" +
		"   Conventions of Gen/ParseGen.v, plus: `for cond { body }` is a Fixpoint <fn>_loop<k> on fuel, run with fuel = input\n" +
		"   length + 1 (fuel exhausted = ierr E_out_of_fuel, which the proofs show unreachable), its arguments being the variables\n" +
		"   the body reads followed by the loop state (the variables it assigns that are live at the loop head);\n" +
		"   `x = append(x, v)` is `x ++ [v]`; a pointer PARAMETER is an option and its first dereference on a path is\n" +
		"   `p <- ideref p` (Panic for nil); a callee outside the section is a Section Variable typed from its Go declaration.\n" +
		"   Proofs/PsiGenEq*.v prove the hand-written models of Model/Psi.v, Model/Desc.v and Model/Dvb.v equal to these\n" +
		"   definitions, the Section Variables instantiated with the models' functions. *)\n" +
		"From Coq Require Import ZArith List Bool.\nRequire Import Base.Iter Gen.Consts Gen.Types Gen.Preds.\nImport ListNotations.\nOpen Scope Z_scope.\nOpen Scope iter_scope.\n\n" +
		"(* a loop ran out of fuel: no counterpart in the Go code *)\nDefinition E_out_of_fuel : Z := 99.\n\n" +
		"(* p.f through a pointer: a nil dereference panics *)\nDefinition ideref {A} (o : option A) : IM A := fun i => match o with Some a => Ok (a, i) | None => Panic end.\n\n" +
		"(* `if ..., err = f(i); err != nil { err = <new error>; return }`: the callee's error is replaced *)\nDefinition imaperr {A} (c : Z) (m : IM A) : IM A := fun i => match m i with Err _ => Err c | r => r end.\n\n"
	usedSetters = map[string]bool{}
	var body strings.Builder
	for k := range psiSections {
		sec := &psiSections[k]
		abstract := map[string]*msig{}
		var b strings.Builder
		for _, key := range sec.entries {
			func() {
				defer func() {
					if r := recover(); r != nil {
						ge, ok := r.(genError)
						if !ok {
							panic(r)
						}
						fmt.Fprintf(os.Stderr, "gen: not translated: %s\n", ge.msg)
						fmt.Fprintf(&b, "(* NOT TRANSLATED (the function left the translator's grammar): %s *)\n\n", strings.ReplaceAll(ge.msg, "*)", "* )"))
					}
				}()
				b.WriteString(p.psiFunction(key, sec, abstract))
			}()
		}
		fmt.Fprintf(&body, "Section %s.\n\n", sec.name)
		var names []string
		for n := range abstract {
			names = append(names, n)
		}
		sort.Strings(names)
		for _, n := range names {
			fmt.Fprintf(&body, "Variable %s : %s.\n", n, abstract[n].coqType())
		}
		if len(names) > 0 {
			body.WriteString("\n")
		}
		body.WriteString(b.String())
		fmt.Fprintf(&body, "End %s.\n\n", sec.name)
	}
	out := body.String()
	if strings.Contains(out, "(sint ") {
		head += "(* intN(x) for an unsigned x of at least N bits: the two's complement reading of its low N bits *)\nDefinition sint (w x : Z) : Z := (x + 2 ^ (w - 1)) mod 2 ^ w - 2 ^ (w - 1).\n\n"
	}
	return head + p.emitSetters() + out + p.psiTactics()
}

// psiTactics: the record plumbing of this file (setters, the projections and zero values of the records they update) as
// two normalisation tactics, so that a proof does not have to name a setter that a change of the source may remove.
func (p *pkg) psiTactics() string {
	var keys []string
	structs := map[string]bool{}
	for k := range usedSetters {
		keys = append(keys, k)
		structs[strings.SplitN(k, ".", 2)[0]] = true
	}
	sort.Strings(keys)
	names := []string{"fst", "snd", "odflt"}
	for _, k := range keys {
		parts := strings.SplitN(k, ".", 2)
		names = append(names, "set_"+parts[0]+"_"+parts[1])
	}
	var sn []string
	for s := range structs {
		sn = append(sn, s)
	}
	sort.Strings(sn)
	for _, s := range sn {
		names = append(names, "zero_"+s)
		for _, f := range p.structs[s].Fields.List {
			for _, id := range f.Names {
				names = append(names, s+"_"+id.Name)
			}
		}
	}
	l := strings.Join(names, " ")
	return "(* the record plumbing of this file, for the proofs *)\nLtac psigen_cbv := cbv beta iota zeta delta [" + l + "].\nLtac psigen_cbn := cbn beta iota zeta delta [" + l + "].\nLtac psigen_cbv_in H := cbv beta iota zeta delta [" + l + "] in H.\n"
}
